"""C07 — conditional compilation keeps exactly the active text.

  proof  : lean/CV/Props/C07.lean (the three-state machine refines C's nested-group rule for every
           tree, valuation, depth; unselected regions have no effect; totality of the step)
  tie    : every directive sequence up to length 4 over {#if 1/0, #ifdef/#ifndef defined/undefined,
           #elif 1/0, #else, #endif} with a marker line after each directive, through the real
           cpp::process (hook H2) and through CV.Cpp.process — complete for the transition table
           at stack depths 0..3; random sources (macros, comments, literals, includes)
  search : random well-nested trees (depth <= 8; conditions from literals, source macros, -D macros,
           !, ==; #define/#undef/#error/#include planted in every region) against an independent
           implementation of C's rule; end to end through compile(): which marker variables exist.
"""
import itertools
from lib import *
import cpptie, gen_cpp

TRUSTED = ["Lean 4 kernel; axioms allowed: propext, Classical.choice, Quot.sound",
           "specification: C's rule for conditional groups (first branch whose condition holds, else #else), written as specI/specIs/specB in CV/Props/C07.lean and independently in tools/c07.py",
           "tie: differential testing of CV.Cpp.process against cpp::process (hook H2)",
           "only the literal 1 counts as true in #if (the property quantifies over 0/1 conditions)"]

ALPHA = ["#if 1", "#if 0", "#ifdef DEF", "#ifdef UNDEF", "#ifndef DEF", "#ifndef UNDEF", "#elif 1", "#elif 0", "#else", "#endif"]


class Tree:
    """random well-nested arrangement with an oracle"""

    def __init__(self, rng, maxdepth):
        self.rng = rng
        self.lines = []
        self.expected = []          # marker names that must survive
        self.effects = []           # expected effects in order ("define X", "undef X", "error")
        self.defined = {"DM": "1", "DZ": "0"}   # macros visible: -D DM=1 -D DZ=0
        self.counter = 0
        self.error_at = None
        self.files = []
        self.gen_items(True, 0, maxdepth, rng.randint(2, 6))

    def cond(self):
        """returns (text, truth) using literals, macros with 0/1 values, ! and =="""
        r = self.rng
        def term():
            x = r.random()
            ones = [k for k, v in self.defined.items() if v == "1"]
            zeros = [k for k, v in self.defined.items() if v == "0"]
            if x < 0.25 and ones:
                return r.choice(ones), True
            if x < 0.45 and zeros:
                return r.choice(zeros), False
            b = r.random() < 0.5
            return ("1" if b else "0"), b
        def unary():
            t, v = term()
            n = r.choice([0, 0, 1, 2])
            return "!" * n + t, (v if n % 2 == 0 else not v)
        t, v = unary()
        for _ in range(r.choice([0, 0, 0, 1, 2])):
            t2, v2 = unary()
            t = "%s == %s" % (t, t2)
            v = (v == v2)
        return t, v

    def marker(self, on):
        self.counter += 1
        n = "m%d" % self.counter
        self.lines.append("char %s;" % n)
        if on and self.error_at is None:
            self.expected.append(n)

    def gen_items(self, on, depth, maxdepth, n):
        r = self.rng
        for _ in range(n):
            x = r.random()
            if x < 0.35:
                self.marker(on)
            elif x < 0.45:
                self.counter += 1
                name = "X%d" % self.counter
                val = r.choice(["1", "0"])
                self.lines.append("#define %s %s" % (name, val))
                if on and self.error_at is None:
                    self.defined[name] = val
            elif x < 0.5 and len(self.defined) > 2:
                name = r.choice([k for k in self.defined if k.startswith("X")] or ["NOPE"])
                self.lines.append("#undef %s" % name)
                if on and self.error_at is None:
                    self.defined.pop(name, None)
            elif x < 0.53:
                self.lines.append("#error planted")
                if on and self.error_at is None:
                    self.error_at = len(self.lines)
            elif x < 0.57:
                self.counter += 1
                fn = "inc%d.h" % self.counter
                self.files.append((fn, "char i%d;\n" % self.counter))
                self.lines.append('#include "%s"' % fn)
                if on and self.error_at is None:
                    self.expected.append("i%d" % self.counter)
            elif depth < maxdepth:
                self.gen_group(on, depth, maxdepth)
            else:
                self.marker(on)

    def gen_group(self, on, depth, maxdepth):
        r = self.rng
        k = r.random()
        if k < 0.6:
            t, v = self.cond()
            if not on and r.random() < 0.4:
                # inside an unselected region the expression is not evaluated: it may name macros nobody defined
                t = r.choice(["NOPE1 == 1", "NOPE2", "!NOPE1", "NOPE1 == NOPE2", "X999 == 0"])
            self.lines.append("#if " + t)
        elif k < 0.8:
            name = r.choice(list(self.defined) + ["NOPE1", "NOPE2"])
            v = name in self.defined
            self.lines.append("#ifdef " + name)
        else:
            name = r.choice(list(self.defined) + ["NOPE1", "NOPE2"])
            v = name not in self.defined
            self.lines.append("#ifndef " + name)
        if not on:
            pass
        taken = v
        self.gen_items(on and v, depth + 1, maxdepth, r.randint(0, 3))
        for _ in range(r.choice([0, 0, 1, 2])):
            # the condition of an #elif is evaluated only if no earlier branch was taken
            t, v2 = self.cond()
            if (not on or taken) and r.random() < 0.3:
                t = r.choice(["NOPE1 == 1", "NOPE2", "!NOPE1"])      # not evaluated either: a branch was already taken / region unselected
            self.lines.append("#elif " + t)
            sel = (not taken) and v2
            self.gen_items(on and sel, depth + 1, maxdepth, r.randint(0, 3))
            taken = taken or v2
        if r.random() < 0.5:
            self.lines.append("#else")
            self.gen_items(on and not taken, depth + 1, maxdepth, r.randint(0, 3))
        self.lines.append("#endif")

    def text(self):
        return "\n".join(self.lines) + "\n"


def run(chk):
    ok, obligations = prepare(chk)
    if not ok:
        return chk.finish(obligations=obligations, trusted_base=TRUSTED)
    h = Harness(); m = Model(); rng = chk.rng
    # ---- complete transition table: every directive sequence up to length 4 ----
    maxlen = chk.scale(4, 5)
    nseq = 0
    for n in range(1, maxlen + 1):
        for seq in itertools.product(range(len(ALPHA)), repeat=n):
            lines = ["t0;"]
            for i, d in enumerate(seq):
                lines.append(ALPHA[d])
                lines.append("t%d;" % (i + 1))
            src = "\n".join(lines) + "\n"
            d, r = cpptie.compare(h, m, src, defines=["DEF=1"])
            nseq += 1
            chk.case(key=seq, nontrivial=True)
            if d:
                chk.tie_broken("conditional machine: model and code disagree on a directive sequence", {"source": src, "real": d[0][:400], "model": d[1][:400]})
    chk.stats["directive_sequences"] = nseq
    chk.coverage["exhaustive_transition_table_to_depth"] = maxlen - 1
    # ---- random sources (wider glue: macros, comments, literals, includes) ----
    for i in range(chk.scale(600, 8000)):
        src, defs, files = gen_cpp.rand_source(rng, with_includes=True, allow_errors=0.01, cond_depth=5)
        d, r = cpptie.compare(h, m, src, defs, files)
        chk.case(key=src, nontrivial="#if" in src or "#ifdef" in src)
        chk.count("tie_random_" + r["status"])
        if d:
            chk.tie_broken("preprocessor: model and code disagree", {"source": src, "defines": defs, "files": files, "real": d[0][:600], "model": d[1][:600]})
    # ---- trees against C's rule ----
    for i in range(chk.scale(500, 8000)):
        t = Tree(rng, maxdepth=rng.randint(1, 8))
        src = t.text()
        r = h.cpp(src, defines=["DM=1", "DZ=0"], files=t.files)
        chk.case(key=src, nontrivial=src.count("#if") >= 2)
        chk.count("tree_depth_%d" % min(8, max((l.count("#if") for l in [src]), default=0) // 2))
        if i < 2:
            chk.sample({"tree": src[:600], "expected_markers": t.expected[:20]})
        if t.error_at is not None:
            if r["status"] != "err" or r["err"]["line"] != t.error_at or r["err"]["kind"] != "compiler":
                chk.fail("error-directive-region", "#error in an active region (line %d) not reported there: %s" % (t.error_at, r.get("err", r["status"])),
                         {"source": src, "expected_error_line": t.error_at})
            continue
        if r["status"] != "ok":
            chk.fail("inactive-directive-has-effect", "well-nested source rejected: %s (an #error or bad directive in an unselected region took effect?)" % r["status"],
                     {"source": src, "err": r.get("err")})
            continue
        out = unhx(r["out"])
        got = [l.strip()[5:-1] for l in out.splitlines() if l.strip().startswith("char ")]
        if got != t.expected:
            chk.fail("wrong-lines-kept", "the lines reaching the compiler are not the ones C's rule selects",
                     {"source": src, "kept": got, "expected": t.expected})
            continue
        # end to end: marker declarations seen by the compiler
        if i % 5 == 0:
            rc = h.compile(src + "void main() {}\n", 0, defines=["DM=1", "DZ=0"], files=t.files)
            if rc["status"] == "ok":
                names = [unhx(v["name"]) for v in rc["vars"] if unhx(v["name"]) != "main"]
                if names != t.expected:
                    chk.fail("wrong-declarations", "declarations after compile() differ from the selected markers", {"source": src, "vars": names, "expected": t.expected})
            else:
                chk.fail("wrong-declarations", "compile() of a well-nested source: %s" % rc["status"], {"source": src, "err": rc.get("err")})
    h.close(); m.close()
    return chk.finish(level="proof", obligations=obligations, trusted_base=TRUSTED,
                      checker_cmd="cd /verif/lean && lake build CV.Props.C07 && lake env lean .lake/audit/C07_audit.lean",
                      extra={"rule": "all directive sequences up to length %d over 10 directive forms (complete transition table to that depth); random "
                                     "sources; random trees of depth <= 8 with conditions over literals / source macros / -D macros / ! / == and "
                                     "#define, #undef, #error, #include planted in every region; non-trivial = at least two conditional groups" % maxlen})
