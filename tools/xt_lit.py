"""Translator piece: escape arms of compile_quoted_string_ex, NUL termination of compile_quoted_string."""
import re, os
from lib import REPO

def extract():
    probs = []
    src = open(os.path.join(REPO, "src/compile.rs")).read()
    m = re.search(r"fn compile_quoted_string_ex\(s: &str\) -> String \{(.*?)\n\}\n", src, re.S)
    if not m:
        return "", ["compile_quoted_string_ex: function not found"]
    body = m.group(1)
    mm = re.search(r"if c == '\\\\' \{\s*match i\.next\(\) \{(.*?)\n            \}\s*\} else \{\s*v\.push\(c\);\s*\}", body, re.S)
    if not mm:
        return "", ["compile_quoted_string_ex: loop shape not recognised"]
    arms = []
    fallback = None
    none_arm = False
    for line in mm.group(1).splitlines():
        line = line.split("//")[0].strip()
        if not line:
            continue
        a = re.match(r"Some\('(\\?.)'\) => v\.push\(char::from_u32\((\d+)\)\.unwrap\(\)\),?$", line)
        if a:
            ch = a.group(1)
            ch = {"\\\\": "\\", "\\'": "'"}.get(ch, ch)
            arms.append((ch, int(a.group(2))))
            continue
        if re.match(r"Some\((\w+)\) => v\.push\(\1\),?$", line):
            fallback = "same"
            continue
        if re.match(r"_ => \(\),?$", line):
            none_arm = True
            continue
        probs.append("escape arm not understood: %r" % line)
    if fallback != "same":
        probs.append("no `Some(a) => v.push(a)` fallback arm")
    if not none_arm:
        probs.append("no `_ => ()` arm for a trailing backslash")
    q = re.search(r"fn compile_quoted_string\(&self, p: Pair<Rule>\) -> String \{(.*?)\n    \}", src, re.S)
    nul = bool(q and re.search(r"v\.push\(char::from_u32\(0\)\.unwrap\(\)\);\s*v\s*$", q.group(1).strip(), re.S))
    concat = bool(q and "for i in it" in q.group(1) and "v.push_str(&compile_quoted_string_ex(" in q.group(1))
    if not nul:
        probs.append("compile_quoted_string: single trailing NUL not recognised")
    if not concat:
        probs.append("compile_quoted_string: concatenation loop not recognised")
    def lit(c):
        return "'\\\\'" if c == "\\" else "'%s'" % c
    out = ["/-- escape arms of compile_quoted_string_ex: (character after the backslash, code pushed) -/",
           "def escapeArms : List (Char × Nat) := [%s]" % ", ".join("(%s, %d)" % (lit(c), n) for c, n in arms),
           "def literalAppendsNul : Bool := %s" % ("true" if nul else "false")]
    return "\n".join(out) + "\n", probs
