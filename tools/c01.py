"""C01 — emitted 6502 code computes what the C source says.

  proof  : lean/CV/Props/C01.lean — the generator port for the declared fragment (straight-line
           assignments / arithmetic / compound assignments / ++ -- on zero-page unsigned chars) is
           correct against the 6502 semantics for every program of the fragment and every state
  tie    : text-exact: random programs of the fragment compiled at -O0; the port's instruction list
           must equal the real dump, instruction for instruction (mnemonic and operand text)
  search : co-execution against the Lean C semantics (CV.CSem, narrow and wide readings must agree)
           of generated programs well outside the fragment: nested expressions, arrays indexed by
           constants / X / Y, shifts, ternary, && || !, if/else, for/while/do, switch with
           fall-through, break/continue, calls, 16-bit variables, zero-page and absolute placement,
           -O0 and -O1; regression exemplars of the recorded findings.
"""
from lib import *
import prog, gen_c, coexec, csemx

TRUSTED = ["Lean 4 kernel; axioms allowed: propext, Classical.choice, Quot.sound",
           "specification: CV/Mos.lean (6502 semantics), CV/GenFlat.spec (8-bit wrap-around assignment semantics), CV/CSem.lean (C reading for the search)",
           "tie: text-exact comparison of CV.GenFlat with the real -O0 output; operand text = operand meaning is checked by loading the same text into the 6502 model",
           "programs outside the declared fragment are covered by co-execution only (partial)",
           "where ISO C's int promotion and 8-bit wrap-around disagree on a run, that run is not judged"]

OPS = [("add", "+"), ("sub", "-"), ("and", "&"), ("or", "|"), ("xor", "^")]


def flat_program(rng):
    names = ["a", "b", "c", "d"]
    def atom(allow_const=True):
        if allow_const and rng.random() < 0.4:
            n = rng.choice([0, 1, 3, 7, 127, 128, 255])
            return "c%d" % n, str(n), True
        v = rng.choice(names)
        return "v" + v, v, False
    toks, lines = [], []
    for _ in range(rng.randint(1, 40)):
        k = rng.random()
        v = rng.choice(names)
        if k < 0.25:
            t, s, _ = atom()
            toks.append("asg:%s:%s" % (v, t)); lines.append("%s = %s;" % (v, s))
        elif k < 0.6:
            o = rng.choice(OPS)
            t1, s1, c1 = atom()
            t2, s2, c2 = atom(allow_const=not c1)
            toks.append("bin:%s:%s:%s:%s" % (v, o[0], t1, t2)); lines.append("%s = %s %s %s;" % (v, s1, o[1], s2))
        elif k < 0.8:
            o = rng.choice(OPS)
            t, s, _ = atom()
            toks.append("oas:%s:%s:%s" % (v, o[0], t)); lines.append("%s %s= %s;" % (v, o[1], s))
        elif k < 0.9:
            toks.append("inc:" + v); lines.append(rng.choice(["%s++;", "++%s;"]) % v)
        else:
            toks.append("dec:" + v); lines.append(rng.choice(["%s--;", "--%s;"]) % v)
    src = "unsigned char a, b, c, d;\nvoid main() {\n  " + "\n  ".join(lines) + "\n}\n"
    return src, toks


def run(chk):
    ok, obligations = prepare(chk)
    if not ok:
        return chk.finish(obligations=obligations, trusted_base=TRUSTED)
    h = Harness(); m = Model(); rng = chk.rng
    # ---- tie: the generator port on its fragment, text-exact ----
    for i in range(chk.scale(300, 5000)):
        src, toks = flat_program(rng)
        r = h.compile(src, 0)
        ma = m.req("genflat " + " ".join(toks))
        chk.case(key=src, nontrivial=len(toks) > 2)
        chk.count("flat_programs")
        if r["status"] != "ok":
            chk.tie_broken("program of the declared fragment rejected: %s" % r["status"], {"source": src}); continue
        real = "ok " + " ".join("%s:%s" % (l[1], l[2]) for l in r["funcs"][-1]["generated"]["lines"] if l[0] == "I")
        if real != ma:
            chk.tie_broken("generator port differs from the real -O0 output", {"source": src, "real": real[:600], "model": ma[:600]})
        if i == 0:
            chk.sample({"fragment_program": src[:300]})
    # ---- regression exemplars of recorded findings: {exemplar, init, expect} ----
    regress = []
    for c in chk.corpus():
        try:
            regress.append(json.loads(c))
        except Exception:
            pass
    for k in regress + chk.known:
        if not k.get("expect"):
            continue
        feat = "atari2600" if k.get("feature") else None
        hh = h if not feat else Harness(feature=feat)
        for level in k.get("levels", [0, 1]):
            r = hh.compile(k["exemplar"], level)
            if r["status"] != "ok":
                continue
            env, init, ports, regions = prog.layout(r["vars"])
            okl, _ = prog.load(m, "c01", r, env=env, ports=ports)
            mem = dict(init)
            for name, v in k.get("init", {}).items():
                if name in regions:
                    mem[regions[name][0]] = v & 0xFF
                    if regions[name][1] > 1:
                        mem[regions[name][0] + 1] = (v >> 8) & 0xFF
            w = [(regions[n][0], regions[n][1]) for n in sorted(k["expect"]) if n in regions]
            res = prog.run(m, "c01", mem=mem, x=k.get("init", {}).get("X", 0), y=k.get("init", {}).get("Y", 0), fuel=20000, watch=w)
            got = {}
            off = 0
            for n in sorted(k["expect"]):
                if n in regions:
                    nb = regions[n][1]
                    got[n] = int.from_bytes(res["mem"][off:off + nb], "little") if res["stop"] == "done" else None
                    off += nb
            chk.count("exemplar_runs")
            if got != k["expect"]:
                chk.fail(k["signature"], k.get("what_fails", "known finding"), {"source": k["exemplar"], "level": level, "got": got, "expect": k["expect"]})
                break
        if feat:
            hh.close()
    # ---- co-execution against the C semantics ----
    nprog = chk.scale(260, 5000)
    nstates = chk.scale(6, 24)
    for i in range(nprog):
        placement = rng.choice(["zp", "zp", "mixed", "abs"])
        p = gen_c.program(rng, placement=placement, shorts=rng.random() < 0.4, inline_rate=0.0, gotos=False)
        src = p.text
        try:
            gen_c.program_tokens(p)
        except gen_c.Unsupported:
            chk.count("outside_csem"); continue
        for level in (0, 1):
            r = h.compile(src, level)
            if r["status"] != "ok":
                chk.count("compile_" + r["status"]); break
            chk.case(key=(src, level), nontrivial=True)
            if len(chk.coverage["samples"]) < 4 and level == 0:
                chk.sample({"program": src[:500]})
            csemx.check_compiled(chk, m, src, p, r, "c01", nstates, seed=hash(src) & 0xFFFFFF, level=level,
                                 sig_fn=lambda kind: classify(src, kind), compile_fn=lambda t, lv=level: h.compile(t, lv))
    h.close(); m.close()
    return chk.finish(level="proof", obligations=obligations, trusted_base=TRUSTED,
                      checker_cmd="cd /verif/lean && lake build CV.Props.C01 && lake env lean .lake/audit/C01_audit.lean",
                      extra={"rule": "fragment programs of 1-40 statements compared text-exactly at -O0; generated programs (8/16-bit globals, arrays, X/Y, "
                                     "nested expressions to depth 2, conditions with && || !, if/else, for/while/do, switch, break/continue, calls; "
                                     "zero-page / absolute / mixed placement) executed at -O0 and -O1 from %d initial states each against CV.CSem" % nstates})


def classify(src, kind):
    import re
    if re.search(r"\bs\d\b", src) and kind == "wrong-value":
        return "sixteen-bit-" + kind
    return "c01-" + kind
