"""C01 — emitted 6502 code computes what the C source says.

  proof  : lean/CV/Props/C01.lean — the generator port for the declared fragment (stage 1: straight-line
           assignments / arithmetic / compound assignments / ++ -- on unsigned chars; stage 2: blocks,
           if / if-else / while / do-while / for with comparisons and truth tests, nested to any depth,
           including the generator's flag-belief shortcuts) is correct against the 6502 semantics for
           every program of the fragment, every state, every context; the flag belief is proved sound
  tie    : text-exact: random programs of both stages compiled at -O0; the port's lines (instructions
           AND labels) must equal the real dump line for line; the theorem's specification `sem` is
           validated by executing the really compiled code (-O0, -O1) against it
  search : co-execution against the Lean C semantics (CV.CSem, narrow and wide readings must agree)
           of generated programs well outside the fragment: nested expressions, arrays indexed by
           constants / X / Y, shifts, ternary, && || !, if/else, for/while/do, switch with
           fall-through, break/continue, calls, 16-bit variables, zero-page and absolute placement,
           -O0 and -O1; regression exemplars of the recorded findings.
"""
from lib import *
import prog, gen_c, coexec, csemx, matrix

TRUSTED = ["Lean 4 kernel; axioms allowed: propext, Classical.choice, Quot.sound",
           "specification: CV/Mos.lean (6502 semantics), CV/GenFlat.spec + CV/GenStruct.sem (8-bit wrap-around statement semantics), CV/GenStruct.stepG (line machine with first-occurrence label lookup), CV/CSem.lean (C reading for the search)",
           "tie: text-exact comparison of CV.GenFlat / CV.GenStruct with the real -O0 output (instructions and labels); operand text = operand meaning is checked by loading the same text into the 6502 model; label text = Lbl.text (kind ++ counter)",
           "the proof's machine resolves labels structurally (kind, counter); that distinct (kind, counter) pairs render to distinct texts is C13's theorem rename_injective / digit-suffix argument, not re-proved here",
           "programs outside the declared fragment are covered by co-execution only (partial)",
           "where ISO C's int promotion and 8-bit wrap-around disagree on a run, that run is not judged"]

OPS = [("add", "+"), ("sub", "-"), ("and", "&"), ("or", "|"), ("xor", "^")]


def flat_program(rng):
    names = ["a", "b", "c", "d"]
    def atom(allow_const=True):
        if allow_const and rng.random() < 0.4:
            n = rng.choice([0, 1, 3, 7, 127, 128, 255])
            return "c%d" % n, str(n), True
        v = rng.choice(names)
        return "v" + v, v, False
    toks, lines = [], []
    for _ in range(rng.randint(1, 40)):
        k = rng.random()
        v = rng.choice(names)
        if k < 0.25:
            t, s, _ = atom()
            toks.append("asg:%s:%s" % (v, t)); lines.append("%s = %s;" % (v, s))
        elif k < 0.6:
            o = rng.choice(OPS)
            t1, s1, c1 = atom()
            t2, s2, c2 = atom(allow_const=not c1)
            toks.append("bin:%s:%s:%s:%s" % (v, o[0], t1, t2)); lines.append("%s = %s %s %s;" % (v, s1, o[1], s2))
        elif k < 0.8:
            o = rng.choice(OPS)
            t, s, _ = atom()
            toks.append("oas:%s:%s:%s" % (v, o[0], t)); lines.append("%s %s= %s;" % (v, o[1], s))
        elif k < 0.9:
            toks.append("inc:" + v); lines.append(rng.choice(["%s++;", "++%s;"]) % v)
        else:
            toks.append("dec:" + v); lines.append(rng.choice(["%s--;", "--%s;"]) % v)
    src = "unsigned char a, b, c, d;\nvoid main() {\n  " + "\n  ".join(lines) + "\n}\n"
    return src, toks


COPS = [("eq", "=="), ("ne", "!="), ("lt", "<"), ("ge", ">="), ("gt", ">"), ("le", "<=")]


def struct_program(rng):
    """a random program of the stage-2/3 fragment: (C source, prefix tokens for the Lean port)"""
    names = ["a", "b", "c", "d"]
    use_regs = rng.random() < 0.6
    # stage 4: elements of the arrays t[8], u[4]. Two kinds of programs: `const` = literal subscripts only
    # (X and Y are free); `indexed` = subscripts X / Y as well — then X and Y are only read, and the runs start
    # with X, Y in 0..3, so that every subscript stays inside its array (the model has no zero-page wrap-around)
    arrays = rng.choice([None, "const", "indexed", "indexed"])
    absolute = arrays is not None and rng.random() < 0.4
    regs_assignable = use_regs and arrays != "indexed"
    # stage 6: 16-bit destinations p, q (unsigned short); operands: 16-bit variables, constants up to 65535,
    # 8-bit variables (zero-extended)
    wide = rng.random() < 0.5

    def wopnd(allow_const=True):
        k = rng.random()
        if allow_const and k < 0.35:
            n = rng.choice([0, 1, 5, 255, 256, 300, 4660, 65280, 65535, 0x0100, 0x00ff, 0x01ff, 0x0200])
            return "k%d" % n, str(n), True
        if k < 0.75:
            v = rng.choice("pq")
            return "w" + v, v, False
        v = rng.choice(names)
        return "b" + v, v, False

    def wflat():
        d = rng.choice("pq")
        k = rng.random()
        if k < 0.3:
            t, s_, _ = wopnd()
            return "wasg:%s:%s" % (d, t), "%s = %s;" % (d, s_)
        o = rng.choice(OPS)
        if k < 0.7:
            t1, s1, c1 = wopnd()
            t2, s2, c2 = wopnd(allow_const=not c1)
            return "wbin:%s:%s:%s:%s" % (d, o[0], t1, t2), "%s = %s %s %s;" % (d, s1, o[1], s2)
        t, s_, _ = wopnd()
        return "woas:%s:%s:%s" % (d, o[0], t), "%s %s= %s;" % (d, o[1], s_)

    def element():
        t = rng.choice(["t", "u"])
        if arrays == "indexed" and rng.random() < 0.7:
            r_ = rng.choice("XY")
            return "e%s@%s" % (t, r_), "%s[%s]" % (t, r_)
        n = rng.randrange(4)
        return "e%s@%d" % (t, n), "%s[%d]" % (t, n)

    def atom(allow_const=True, nonzero=False, allow_reg=True):
        if allow_const and rng.random() < 0.35:
            n = rng.choice(([] if nonzero else [0, 0]) + [1, 3, 7, 127, 128, 255])
            return "c%d" % n, str(n), True, n
        if use_regs and allow_reg and rng.random() < 0.3:
            r_ = rng.choice("XY")
            return "r" + r_, r_, False, None
        if arrays and rng.random() < 0.35:
            t, s_ = element()
            return t, s_, False, None
        v = rng.choice(names)
        return "v" + v, v, False, None

    def tree(d, force):
        if d == 0 or (not force and rng.random() < 0.3):
            t, s_, c, n = atom()
            return ["A", t], s_, True, (c, n, t)
        ku = rng.random()
        if ku < 0.3:
            # stage 11: a shift by a literal 0..7, `~(e)` (= e ^ 255) and `-(e)` (= 0 - e) of a non-constant operand
            while True:
                st_, ss_, sa, si = tree(d - 1, False)
                if not (sa and si[0]):
                    break
            inner = ss_ if sa else "(%s)" % ss_
            if ku < 0.18:
                left = rng.random() < 0.5; kk = rng.choice([0, 1, 1, 2, 3, 4, 7])
                return ["S", "l" if left else "r", str(kk)] + st_, "%s %s %d" % (inner, "<<" if left else ">>", kk), False, (False, None, "")
            if ku < 0.24:
                return ["B", "xor"] + st_ + ["A", "c255"], "~%s" % inner, False, (False, None, "")
            return ["B", "sub", "A", "c0"] + st_, "-%s" % inner, False, (False, None, "")
        while True:
            o = rng.choice(OPS)
            lt_, ls_, la, li = tree(d - 1, False)
            rt_, rs_, ra_, ri = tree(d - 1, False)
            if la and ra_:
                if li[0] and ri[0]:
                    continue        # constant ∘ constant is folded: not a computation
                if o[0] == "or" and ((li[2].startswith("r") and ri[1] == 0) or (ri[2].startswith("r") and li[1] == 0)):
                    continue        # `X | 0`
            break
        return (["B", o[0]] + lt_ + rt_, "%s %s %s" % (ls_ if la else "(%s)" % ls_, o[1], rs_ if ra_ else "(%s)" % rs_),
                False, (False, None, ""))

    def lvalue():
        if regs_assignable and rng.random() < 0.3:
            r_ = rng.choice("XY")
            return "r" + r_, r_
        if arrays and rng.random() < 0.3:
            return element()
        v = rng.choice(names)
        return "v" + v, v

    def flat():
        if wide and rng.random() < 0.35:
            return wflat()
        k = rng.random()
        lt, ls = lvalue()
        if k < 0.3:
            t, s_, _, _ = atom()
            return "asg:%s:%s" % (lt, t), "%s = %s;" % (ls, s_)
        if k < 0.55:
            o = rng.choice(OPS)
            t1, s1, c1, _ = atom()
            t2, s2, c2, _ = atom(allow_const=not c1)
            return "bin:%s:%s:%s:%s" % (lt, o[0], t1, t2), "%s = %s %s %s;" % (ls, s1, o[1], s2)
        if k < 0.62:
            # stage 8: a linear expression — every operator has an atomic operand; at least one `x ∘ (e)`
            def pair():
                while True:
                    o = rng.choice(OPS)
                    t1, s1, c1, n1 = atom()
                    t2, s2, c2, n2 = atom(allow_const=not c1)
                    if o[0] == "or" and ((t1.startswith("r") and n2 == 0) or (t2.startswith("r") and n1 == 0)):
                        continue            # `X | 0` is the register itself (no code): not a computation
                    return ["P", t1, o[0], t2], "%s %s %s" % (s1, o[1], s2)
            def lexpr(d, need_right):
                if d == 0:
                    return pair()
                o = rng.choice(OPS)
                t, s_, _, _ = atom()
                if need_right or rng.random() < 0.5:
                    et, es = lexpr(d - 1, False)
                    return ["R", t, o[0]] + et, "%s %s (%s)" % (s_, o[1], es)
                et, es = lexpr(d - 1, need_right)
                return ["L"] + et + [o[0], t], "(%s) %s %s" % (es, o[1], s_)
            et, es = lexpr(rng.randint(1, 3), True)
            return "lin:%s:%s" % (lt, ":".join(et)), "%s = %s;" % (ls, es)
        if k < 0.70 and k >= 0.66:
            # stage 10: an expression tree — both operands of an operator may be compound, so that the generator
            # spills (PHA … STA cctmp ; PLA) or gives up ("Code too complex": then the port must say `outside`)
            kc = rng.random()
            if kc < 0.12:
                # `lv <<= k` / `lv >>= k`: generate_shift on the target, then the assignment — the tree `lv << k`
                left = rng.random() < 0.5; kk = rng.choice([1, 1, 2, 3, 5, 7])
                return "expr:%s:S:%s:%d:A:%s" % (lt, "l" if left else "r", kk, lt), "%s %s= %d;" % (ls, "<<" if left else ">>", kk)
            if kc < 0.35:
                # `lv ∘= (e)` with a compound right-hand side: generate_arithm(lv, ∘, e), then the assignment — the tree `lv ∘ (e)`
                o = rng.choice(OPS)
                et, es, _, _ = tree(rng.randint(1, 2), True)
                return "expr:%s:B:%s:A:%s:%s" % (lt, o[0], lt, ":".join(et)), "%s %s= %s;" % (ls, o[1], es)
            et, es, _, _ = tree(rng.randint(2, 3), True)
            return "expr:%s:%s" % (lt, ":".join(et)), "%s = %s;" % (ls, es)
        if k < 0.66:
            # stage 7: a chain of two to four operators, grouped to the left (parentheses where C's precedence
            # would group otherwise)
            PR = {"+": 4, "-": 4, "&": 3, "^": 2, "|": 1}
            o = rng.choice(OPS)
            t1, s1, c1, _ = atom()
            t2, s2, c2, _ = atom(allow_const=not c1)
            toks_, text, top = [t1, o[0], t2], "%s %s %s" % (s1, o[1], s2), PR[o[1]]
            for _ in range(rng.randint(1, 3)):
                o = rng.choice(OPS)
                t, s_, _, _ = atom()
                if PR[o[1]] > top:
                    text = "(%s)" % text
                text = "%s %s %s" % (text, o[1], s_); top = PR[o[1]]
                toks_ += [o[0], t]
            return "chain:%s:%s" % (lt, ":".join(toks_)), "%s = %s;" % (ls, text)
        if k < 0.75:
            o = rng.choice(OPS)
            t, s_, _, _ = atom()
            return "oas:%s:%s:%s" % (lt, o[0], t), "%s %s= %s;" % (ls, o[1], s_)
        if k < 0.88:
            return "inc:" + lt, rng.choice(["%s++;", "++%s;"]) % ls
        return "dec:" + lt, rng.choice(["%s--;", "--%s;"]) % ls

    def cond(depth=0):
        k = rng.random()
        if depth < 2 and k < 0.12:
            (t1, s1), (t2, s2) = cond(depth + 1), cond(depth + 1)
            return ["and"] + t1 + t2, "(%s && %s)" % (s1, s2)
        if depth < 2 and k < 0.24:
            (t1, s1), (t2, s2) = cond(depth + 1), cond(depth + 1)
            return ["or"] + t1 + t2, "(%s || %s)" % (s1, s2)
        if depth < 2 and k < 0.30:
            t1, s1 = cond(depth + 1)
            return ["not"] + t1, "!(%s)" % s1
        k = rng.random()
        if wide and rng.random() < 0.15:
            # stage 14: a 16-bit variable against a 16-bit operand, == / != (two byte passes into cctmp and A), and its truth
            sv = rng.choice("pq")
            j = rng.random()
            if j < 0.2:
                return ["wcmp:ne:%s:k0" % sv], sv
            if j < 0.3:
                return ["not", "wcmp:ne:%s:k0" % sv], "!" + sv
            o = rng.choice([("eq", "=="), ("ne", "!=")])
            tw, sw, cw = wopnd()
            if cw and rng.random() < 0.3:
                return ["wcmp:%s:%s:%s" % (o[0], sv, tw)], "%s %s %s" % (sw, o[1], sv)      # the constant written on the left
            return ["wcmp:%s:%s:%s" % (o[0], sv, tw)], "%s %s %s" % (sv, o[1], sw)
        if rng.random() < 0.18:
            # stage 12: a comparison / truth test whose operand is a quiet expression tree (its code writes nothing:
            # a chain that continues on the accumulator, every right operand a memory operand or a constant)
            def memop(nonzero=False):
                while True:
                    t_, s_, c_, n_ = atom(allow_reg=False, nonzero=nonzero)
                    return t_, s_, c_, n_
            t0, s0, c0, n0 = atom(allow_const=False)
            toks_, text, first = ["A", t0], s0, True
            for _ in range(rng.randint(1, 3)):
                j = rng.random()
                if j < 0.25 and not first or (j < 0.12):
                    left = rng.random() < 0.5; kk = rng.choice([1, 1, 2, 3, 4])
                    toks_ = ["S", "l" if left else "r", str(kk)] + toks_
                    text = "%s %s %d" % (text if first else "(%s)" % text, "<<" if left else ">>", kk)
                else:
                    o = rng.choice(OPS)
                    t1, s1, c1, n1 = memop()
                    if first and t0.startswith("r") and o[0] == "or" and n1 == 0:
                        continue                       # `X | 0`
                    toks_ = ["B", o[0]] + toks_ + ["A", t1]
                    text = "%s %s %s" % (text if first else "(%s)" % text, o[1], s1)
                first = False
            if first:
                toks_ = ["B", "and"] + toks_ + ["A", "c127"]; text = "%s & 127" % text
            if rng.random() < 0.3:
                # stage 13: any tree the generator accepts (it may spill: the condition then leaves the scratch cell and
                # the stack page changed)
                toks_, text, _, _ = tree(rng.randint(1, 2), True)
            j = rng.random()
            if j < 0.2:
                return ["te:" + ":".join(toks_)], "(%s)" % text
            if j < 0.3:
                return ["not", "te:" + ":".join(toks_)], "!(%s)" % text
            o = rng.choice(COPS)
            ordered = o[0] not in ("eq", "ne")
            if use_regs and rng.random() < 0.3:
                # stage 13: against X / Y (`STA cctmp ; CPX cctmp`)
                r_ = rng.choice("XY")
                if rng.random() < 0.6:
                    return ["cmpr:%s:r%s:L:%s" % (o[0], r_, ":".join(toks_))], "(%s) %s %s" % (text, o[1], r_)
                return ["cmpr:%s:r%s:R:%s" % (o[0], r_, ":".join(toks_))], "%s %s (%s)" % (r_, o[1], text)
            tb, sb, cb, nb = memop(nonzero=ordered)
            if rng.random() < 0.7:
                return ["cmpe:%s:%s:L:%s" % (o[0], tb, ":".join(toks_))], "(%s) %s %s" % (text, o[1], sb)
            return ["cmpe:%s:%s:R:%s" % (o[0], tb, ":".join(toks_))], "%s %s (%s)" % (sb, o[1], text)
        if k < 0.2:
            lt, ls = lvalue()
            return ["t:" + lt], ls
        if k < 0.35:
            lt, ls = lvalue()
            return ["nt:" + lt], "!" + ls
        o = rng.choice(COPS)
        ordered = o[0] not in ("eq", "ne")
        t1, s1, c1, n1 = atom(nonzero=ordered)
        # not two registers; and not `t[X] == X` (an element subscripted by a register against a register on the
        # right: known finding compare-indexed-with-index-register, outside the fragment)
        t2, s2, c2, n2 = atom(allow_const=not c1, nonzero=ordered, allow_reg=not (t1.startswith("r") or t1.endswith("@X") or t1.endswith("@Y")))
        return ["cmp:%s:%s:%s" % (o[0], t1, t2)], "%s %s %s" % (s1, o[1], s2)

    def stmt(depth, in_loop=False):
        k = rng.random()
        if in_loop and rng.random() < 0.16:
            # stage 5: leaving the loop / its iteration early. The unbraced `if (c) break;` is a form of its own
            # (one branch to the loop's label); the braced ones are ordinary if statements
            j = rng.random()
            if j < 0.15:
                return ["brk"], "break;"
            if j < 0.3:
                return ["cont"], "continue;"
            ct, cs = cond()
            if j < 0.55:
                return ["ifbrk"] + ct, "if (%s) break;" % cs
            if j < 0.75:
                return ["ifcont"] + ct, "if (%s) continue;" % cs
            if j < 0.85:
                return ["if"] + ct + ["brk"], "if (%s) { break; }" % cs
            if j < 0.93:
                ft, fs = flat()
                return ["if"] + ct + ["{", ft, "cont", "}"], "if (%s) { %s continue; }" % (cs, fs)
            return ["ife"] + ct + ["cont", "brk"], "if (%s) { continue; } else { break; }" % cs
        if wide and rng.random() < 0.08:
            # stage 9: ++ / -- on a 16-bit variable, as a statement
            d = rng.choice("pq")
            if rng.random() < 0.5:
                return ["winc:" + d], rng.choice(["%s++;", "++%s;"]) % d
            return ["wdec:" + d], rng.choice(["%s--;", "--%s;"]) % d
        if depth >= 3 or k < 0.45:
            t, s_ = flat()
            return [t], s_
        if k < 0.5:
            return ["skip"], "{ }"
        if k < 0.6:
            n = rng.randint(1, 3)
            parts = [stmt(depth + 1, in_loop) for _ in range(n)]
            return ["{"] + sum([p[0] for p in parts], []) + ["}"], "{ " + " ".join(p[1] for p in parts) + " }"
        if k < 0.72:
            ct, cs = cond(); bt, bs = stmt(depth + 1, in_loop)
            return ["if"] + ct + bt, "if (%s) %s" % (cs, brace(bs))
        if k < 0.82:
            ct, cs = cond(); bt, bs = stmt(depth + 1, in_loop); et, es = stmt(depth + 1, in_loop)
            return ["ife"] + ct + bt + et, "if (%s) %s else %s" % (cs, brace(bs), brace(es))
        counting = rng.random() < 0.6          # loops that count, so that most of them terminate
        vt, v = lvalue()
        if k < 0.89:
            ct, cs = cond(); bt, bs = stmt(depth + 1, True)
            if counting:
                ct, cs = rng.choice([(["t:" + vt], v), (["cmp:ne:%s:c0" % vt], "%s != 0" % v), (["cmp:ne:c0:%s" % vt], "0 != %s" % v),
                                     (["and", "t:" + vt, "cmp:ne:%s:c200" % vt], "(%s && %s != 200)" % (v, v))])
                bt, bs = ["{", "dec:" + vt] + bt + ["}"], "{ %s--; %s }" % (v, bs)     # counter first: a `continue` must not skip it
            return ["wh"] + ct + bt, "while (%s) %s" % (cs, brace(bs))
        if k < 0.95:
            ct, cs = cond(); bt, bs = stmt(depth + 1, True)
            if counting:
                n = rng.randint(1, 6)
                ct, cs = rng.choice([(["cmp:lt:%s:c%d" % (vt, n)], "%s < %d" % (v, n)), (["cmp:ne:%s:c%d" % (vt, n)], "%s != %d" % (v, n)),
                                     (["cmp:le:%s:c%d" % (vt, n)], "%s <= %d" % (v, n)), (["cmp:gt:c%d:%s" % (n, vt)], "%d > %s" % (n, v)),
                                     (["not", "cmp:ge:%s:c%d" % (vt, n)], "!(%s >= %d)" % (v, n))])
                bt, bs = ["{", "inc:" + vt] + bt + ["}"], "{ %s++; %s }" % (v, bs)
            return ["do"] + bt + ct, "do %s while (%s);" % (brace(bs), cs)
        it, is_ = flat(); ut, us = flat(); ct, cs = cond(); bt, bs = stmt(depth + 1, True)
        if counting:
            n = rng.randint(1, 6)
            if rng.random() < 0.5:
                it, is_ = "asg:%s:c0" % vt, "%s = 0;" % v
                ct, cs = rng.choice([(["cmp:lt:%s:c%d" % (vt, n)], "%s < %d" % (v, n)), (["cmp:ne:%s:c%d" % (vt, n)], "%s != %d" % (v, n)),
                                     (["cmp:ge:c%d:%s" % (n, vt)], "%d >= %s" % (n, v))])
                ut, us = "inc:" + vt, v + "++"
            else:
                it, is_ = "asg:%s:c%d" % (vt, n), "%s = %d;" % (v, n)
                ct, cs = rng.choice([(["t:" + vt], v), (["cmp:ne:%s:c0" % vt], "%s != 0" % v), (["cmp:ge:%s:c1" % vt], "%s >= 1" % v)])
                ut, us = "dec:" + vt, v + "--"
        return ["for", it] + ct + [ut] + bt, "for (%s %s; %s) %s" % (is_, cs, us.rstrip(";"), brace(bs))

    def brace(s_):
        # a body that is a single flat statement is sometimes written without braces; an `if` body is
        # always braced (dangling else)
        if s_.startswith("{"):
            return s_
        if s_.startswith("if") or s_ in ("break;", "continue;") or rng.random() < 0.5:
            return "{ " + s_ + " }"     # (an unbraced `if (c) break;` is a form of its own: written only on purpose)
        return s_

    while True:
        toks, lines = [], []
        for _ in range(rng.randint(1, 8)):
            t, s_ = stmt(0)
            toks += t; lines.append(s_)
        # not modelled: after `s++` on a 16-bit variable the real generator believes "the flags describe s" (Z is set
        # exactly when the 16-bit value is 0) and tests `s` / `!s` / `s == 0` by the flags alone; the port forgets the
        # belief there. Programs that increment a 16-bit variable AND test the same one against 0 are left out.
        if not any(("winc:" + v) in toks and any(t == "wcmp:ne:%s:k0" % v or t == "wcmp:eq:%s:k0" % v for t in toks) for v in "pq"):
            break
    q = "ramchip " if absolute else ""
    decl = "unsigned char a, b, c, d;\n" + ("%sunsigned char t[8];\n%sunsigned char u[4];\n" % (q, q) if arrays else "")
    if wide:
        decl += "unsigned short p, q;\n"
    src = decl + "void main() {\n  " + "\n  ".join(lines) + "\n}\n"
    if absolute:
        toks = ["abs=t,u"] + toks
    return src, toks, (arrays, wide)


def run(chk):
    ok, obligations = prepare(chk)
    if not ok:
        return chk.finish(obligations=obligations, trusted_base=TRUSTED)
    h = Harness(); m = Model(); rng = chk.rng
    # ---- tie: the generator port on its fragment, text-exact ----
    for i in range(chk.scale(300, 5000)):
        src, toks = flat_program(rng)
        r = h.compile(src, 0)
        ma = m.req("genflat " + " ".join(toks))
        chk.case(key=src, nontrivial=len(toks) > 2)
        chk.count("flat_programs")
        if r["status"] != "ok":
            chk.tie_broken("program of the declared fragment rejected: %s" % r["status"], {"source": src}); continue
        real = "ok " + " ".join("%s:%s" % (l[1], l[2]) for l in r["funcs"][-1]["generated"]["lines"] if l[0] == "I")
        if real != ma:
            chk.tie_broken("generator port differs from the real -O0 output", {"source": src, "real": real[:600], "model": ma[:600]})
        if i == 0:
            chk.sample({"fragment_program": src[:300]})
    # ---- tie: the stage-2 port (structured control flow, flag belief), instructions and labels text-exact ----
    for i in range(chk.scale(400, 6000)):
        src, toks, (arrays, wide) = struct_program(rng)
        r = h.compile(src, 0)
        ma = m.req("genstruct " + " ".join(toks))
        if arrays:
            chk.count("struct_arrays_" + arrays)
        if wide:
            chk.count("struct_wide")
            chk.count("struct_wide_statements", sum(1 for t in toks if t.startswith("w") and ":" in t and t.split(":")[0] in ("wasg", "wbin", "woas")))
        chk.count("struct_chain_statements", sum(1 for t in toks if t.startswith("chain:")))
        chk.count("struct_linear_statements", sum(1 for t in toks if t.startswith("lin:")))
        chk.count("struct_wide_incdec", sum(1 for t in toks if t.startswith("winc:") or t.startswith("wdec:")))
        ptoks = toks[1:] if toks and toks[0].startswith("abs=") else toks
        chk.case(key=src, nontrivial=any(t in ("if", "ife", "wh", "do", "for") for t in toks))
        for t in toks:
            if t in ("and", "or", "not", "if", "ife", "wh", "do", "for", "brk", "cont", "ifbrk", "ifcont"):
                chk.count("struct_" + t)
        chk.count("struct_programs")
        nexpr = sum(1 for t in toks if t.startswith("expr:"))
        chk.count("struct_tree_statements", nexpr)
        ncondt = sum(1 for t in toks if t.startswith("cmpe:") or t.startswith("te:") or t.startswith("cmpr:"))
        chk.count("struct_tree_conditions", ncondt)
        chk.count("struct_tree_register_compares", sum(1 for t in toks if t.startswith("cmpr:")))
        chk.count("struct_wide_conditions", sum(1 for t in toks if t.startswith("wcmp:")))
        nexpr += ncondt
        if nexpr and ma == "outside":
            # the port says the generator gives up on one of the trees: the real compiler must say so too
            if r["status"] == "err" and "too complex" in unhx(r["err"]["msg"]).lower():
                chk.count("struct_tree_rejected_by_both")
            else:
                chk.tie_broken("the port gives up on an expression tree the real generator accepts (or rejects differently): %s" % r["status"],
                               {"source": src, "tokens": " ".join(toks)})
            continue
        if r["status"] != "ok":
            chk.tie_broken("program of the declared stage-2 fragment rejected: %s" % r["status"], {"source": src}); continue
        real = "ok " + " ".join(("%s:%s" % (l[1], l[2]) if l[0] == "I" else "L:%s" % l[1]) for l in r["funcs"][-1]["generated"]["lines"] if l[0] in ("I", "L"))
        if real != ma:
            chk.tie_broken("stage-2 generator port differs from the real -O0 output", {"source": src, "tokens": " ".join(toks), "real": real[:900], "model": ma[:900]})
        if i == 0:
            chk.sample({"stage2_program": src[:400]})
        # the specification side of the theorem (`sem`) against the really compiled code, executed on the
        # 6502 model from a few states, at -O0 and -O1 (validates `sem`; finds the input when the tie breaks)
        if i % 3 == 0:
            for level in (0, 1):
                rr = r if level == 0 else h.compile(src, 1)
                if rr["status"] != "ok":
                    continue
                env, init, ports, regions = prog.layout(rr["vars"])
                okl, _ = prog.load(m, "c01s", rr, env=env, ports=ports)
                if not okl:
                    chk.count("struct_unloadable"); continue
                for _ in range(3):
                    pick = lambda: rng.choice([0, 1, 2, 3, 5, 127, 128, 254, 255, rng.randrange(256)])
                    vals = {n: pick() for n in "abcdXY"}
                    objs = list("abcd")
                    if arrays:
                        vals["t"] = [pick() for _ in range(8)]; vals["u"] = [pick() for _ in range(4)]
                        objs += ["t", "u"]
                    if wide:
                        for n in "pq":
                            w = rng.choice([0, 1, 255, 256, 0x01ff, 0x7fff, 0x8000, 0xff00, 0xffff, rng.randrange(65536)])
                            vals[n] = [w & 0xFF, w >> 8]
                        objs += ["p", "q"]
                    if arrays == "indexed":
                        vals["X"] = rng.randrange(4); vals["Y"] = rng.randrange(4)
                    show = lambda v: ",".join(str(x) for x in v) if isinstance(v, list) else str(v)
                    exp = m.req("semstruct 3000 / %s / %s" % (" ".join("%s=%s" % (k, show(v)) for k, v in sorted(vals.items())), " ".join(ptoks)))
                    if not exp.startswith("ok "):
                        chk.count("struct_sem_" + exp.split(" ")[0]); continue
                    want = {}
                    for t in exp[3:].split(" "):
                        k, v = t.split("=")
                        want[k] = [int(x) for x in v.split(",")] if k in ("t", "u", "p", "q") else int(v)
                    mem = dict(init)
                    for n, v in vals.items():
                        if n in regions:
                            for j, b in enumerate(v if isinstance(v, list) else [v]):
                                mem[regions[n][0] + j] = b
                    res = prog.run(m, "c01s", mem=mem, a=rng.randrange(256), x=vals["X"], y=vals["Y"], fuel=400000,
                                   watch=[(regions[n][0], regions[n][1]) for n in objs])
                    if res["stop"] == "fuel":
                        chk.count("struct_run_out_of_steps"); continue      # a long run, not a wrong one: not judged
                    chk.count("struct_executions")
                    if res["stop"] == "done" and res.get("SP") != 255:
                        got = {"stop": "stack pointer $%02X" % res.get("SP")}
                    elif res["stop"] == "done":
                        got = {"X": res["X"], "Y": res["Y"]}
                        off = 0
                        for n in objs:
                            ln = regions[n][1]
                            cells = list(res["mem"][off:off + ln]); off += ln
                            got[n] = cells if n in ("t", "u", "p", "q") else cells[0]
                    else:
                        got = {"stop": res["stop"]}
                    if got != want:
                        chk.fail("c01-struct-wrong-value", "compiled code (-O%d) of a stage-2 program ends with %s, the source prescribes %s" % (level, got, want),
                                 {"source": src, "level": level, "initial": vals, "got": got, "expect": want})
                        break
    # ---- tie: the expression-tree port (stage 10) alone, deeper trees: accepted code text-exact, rejections agree ----
    def gtree(d):
        if d == 0 or rng.random() < 0.25:
            k = rng.random()
            if k < 0.25:
                n = rng.choice([0, 1, 3, 7, 127, 128, 255]); return ["A", "c%d" % n], str(n), True
            if k < 0.4:
                r_ = rng.choice("XY"); return ["A", "r" + r_], r_, True
            if k < 0.55:
                t = rng.choice(["t", "u"]); i_ = rng.choice(["X", "Y", "1", "2"]); return ["A", "e%s@%s" % (t, i_)], "%s[%s]" % (t, i_), True
            v = rng.choice("abcd"); return ["A", "v" + v], v, True
        ku = rng.random()
        if ku < 0.3:
            st_, ss_, sa = gtree(d - 1)
            inner = ss_ if sa else "(%s)" % ss_
            if sa and st_[1].startswith("c"):
                pass                                        # unary operator on a literal: folded by the parser, not generated
            elif ku < 0.18:
                left = rng.random() < 0.5; kk = rng.choice([0, 1, 1, 2, 3, 4, 7])
                return ["S", "l" if left else "r", str(kk)] + st_, "%s %s %d" % (inner, "<<" if left else ">>", kk), False
            elif ku < 0.24:
                return ["B", "xor"] + st_ + ["A", "c255"], "~%s" % inner, False
            else:
                return ["B", "sub", "A", "c0"] + st_, "-%s" % inner, False
        o = rng.choice(OPS)
        lt_, ls_, la = gtree(d - 1); rt_, rs_, ra_ = gtree(d - 1)
        return ["B", o[0]] + lt_ + rt_, "%s %s %s" % (ls_ if la else "(%s)" % ls_, o[1], rs_ if ra_ else "(%s)" % rs_), False
    for i in range(chk.scale(500, 8000)):
        et, es, isatom = gtree(rng.randint(1, 4))
        if isatom:
            continue
        lvt = rng.choice(["va", "vb", "rX", "rY", "et@1", "et@Y", "eu@X"])
        lvs = {"va": "a", "vb": "b", "rX": "X", "rY": "Y", "et@1": "t[1]", "et@Y": "t[Y]", "eu@X": "u[X]"}[lvt]
        src = "unsigned char a, b, c, d;\nunsigned char t[4];\nunsigned char u[4];\nvoid main() {\n  %s = %s;\n}\n" % (lvs, es)
        ma = m.req("genexpr %s %s" % (lvt, " ".join(et)))
        if ma == "outside":
            chk.count("tree_outside_fragment"); continue          # `X | 0`, constant ∘ constant: no computation
        r = h.compile(src, 0)
        chk.case(key=src, nontrivial=True)
        if r["status"] == "ok":
            real = "ok " + " ".join("%s:%s" % (l[1], l[2]) for l in r["funcs"][-1]["generated"]["lines"] if l[0] == "I")
        elif r["status"] == "err" and "too complex" in unhx(r["err"]["msg"]).lower():
            real = "reject"
        else:
            real = r["status"]
        chk.count("tree_" + ma.split(" ")[0])
        if ma.startswith("ok") and "PHA" in ma:
            chk.count("tree_with_spill")
        if real != ma:
            chk.tie_broken("expression-tree port differs from the real -O0 output", {"source": src, "real": real[:600], "model": ma[:600]})
    # ---- regression exemplars of recorded findings: {exemplar, init, expect} ----
    regress = []
    for c in chk.corpus():
        try:
            regress.append(json.loads(c))
        except Exception:
            pass
    for k in regress + chk.known:
        if not k.get("expect"):
            continue
        feat = "atari2600" if k.get("feature") else None
        hh = h if not feat else Harness(feature=feat)
        for level in k.get("levels", [0, 1]):
            r = hh.compile(k["exemplar"], level)
            if r["status"] != "ok":
                continue
            env, init, ports, regions = prog.layout(r["vars"])
            okl, _ = prog.load(m, "c01", r, env=env, ports=ports)
            mem = dict(init)
            for name, v in k.get("init", {}).items():
                if name in regions:
                    mem[regions[name][0]] = v & 0xFF
                    if regions[name][1] > 1:
                        mem[regions[name][0] + 1] = (v >> 8) & 0xFF
            w = [(regions[n][0], regions[n][1]) for n in sorted(k["expect"]) if n in regions]
            res = prog.run(m, "c01", mem=mem, x=k.get("init", {}).get("X", 0), y=k.get("init", {}).get("Y", 0), fuel=20000, watch=w)
            got = {}
            off = 0
            for n in sorted(k["expect"]):
                if n in regions:
                    nb = regions[n][1]
                    got[n] = int.from_bytes(res["mem"][off:off + nb], "little") if res["stop"] == "done" else None
                    off += nb
                elif n in ("X", "Y"):
                    got[n] = res.get(n) if res["stop"] == "done" else None
            chk.count("exemplar_runs")
            if got != k["expect"]:
                chk.fail(k["signature"], k.get("what_fails", "known finding"), {"source": k["exemplar"], "level": level, "got": got, "expect": k["expect"]})
                break
        if feat:
            hh.close()
    # ---- co-execution against the C semantics ----
    nprog = chk.scale(260, 5000)
    nstates = chk.scale(6, 24)
    for i in range(nprog):
        placement = rng.choice(["zp", "zp", "mixed", "abs"])
        p = gen_c.program(rng, placement=placement, shorts=rng.random() < 0.4, inline_rate=0.0, gotos=False)
        src = p.text
        try:
            gen_c.program_tokens(p)
        except gen_c.Unsupported:
            chk.count("outside_csem"); continue
        for level in (0, 1):
            r = h.compile(src, level)
            if r["status"] != "ok":
                chk.count("compile_" + r["status"]); break
            chk.case(key=(src, level), nontrivial=True)
            if len(chk.coverage["samples"]) < 4 and level == 0:
                chk.sample({"program": src[:500]})
            csemx.check_compiled(chk, m, src, p, r, "c01", nstates, seed=stable_hash(src), level=level,
                                 sig_fn=lambda kind: classify(src, kind), compile_fn=lambda t, lv=level: h.compile(t, lv))
    # ---- the deterministic idiom matrices (tools/matrix.py): every block sets its own operands ----
    for p in matrix.all_programs():
        try:
            gen_c.program_tokens(p)
        except gen_c.Unsupported:
            chk.count("matrix_outside_csem"); continue
        for level in (0, 1):
            r = h.compile(p.text, level)
            if r["status"] != "ok":
                chk.count("matrix_rejected_" + p.matrix.split("-")[0]); break
            chk.case(key=(p.text, level), nontrivial=True)
            chk.count("matrix_" + (p.matrix if not p.matrix.startswith("wide-") else "wide"))
            csemx.check_compiled(chk, m, p.text, p, r, "c01m", 1, seed=1, level=level,
                                 sig_fn=lambda kind, t=p.text: classify(t, kind), compile_fn=lambda t, lv=level: h.compile(t, lv))
    h.close(); m.close()
    return chk.finish(level="proof", obligations=obligations, trusted_base=TRUSTED,
                      checker_cmd="cd /verif/lean && lake build CV.Props.C01 && lake env lean .lake/audit/C01_audit.lean",
                      extra={"rule": "fragment programs of 1-40 statements compared text-exactly at -O0; generated programs (8/16-bit globals, arrays, X/Y, "
                                     "nested expressions to depth 2, conditions with && || !, if/else, for/while/do, switch, break/continue, calls; "
                                     "zero-page / absolute / mixed placement) executed at -O0 and -O1 from %d initial states each against CV.CSem" % nstates})


def classify(src, kind):
    import re
    # known finding: Y (or a Y-indexed element) used in the same statement as an element subscripted by a
    # memory operand — the subscript reloads Y, the other use sees the subscript instead of Y
    for line in src.splitlines():
        if re.search(r"\[(v\d|i\d|a\d\[)", line) and re.search(r"\bY\b", line) and kind == "wrong-value":
            return "y-used-with-memory-subscript"
    # known finding: two calls in one expression (the value the first call left in A is not saved across the second)
    for line in src.splitlines():
        if kind == "wrong-value" and re.search(r"\b[a-z]\w*\([^;]*\)\s*[-+&|^]\s*[a-z]\w*\(", line):
            return "two-calls-in-one-expression"
    # known finding: an addition / subtraction on 16-bit operands one operand of which is a conditional whose
    # condition compares (the comparison is evaluated again between the two byte passes and overwrites the carry)
    for line in src.splitlines():
        if kind == "wrong-value" and re.search(r"\b[sw]\d", line) and re.search(r"[-+] \(.*(==|!=|<|>).*\?|\?.*\) [-+]", line):
            return "carry-lost-across-reevaluated-condition"
    if re.search(r"\bs\d\b", src) and kind == "wrong-value":
        return "sixteen-bit-" + kind
    return "c01-" + kind
