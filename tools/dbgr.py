"""python3 dbgr.py <replay.json> : re-run a co-execution replay, print code and final state"""
import sys, json
sys.path.insert(0, '/verif/tools')
from lib import *
import prog, coexec
r = json.load(open(sys.argv[1]))
src, level = r["source"], r.get("level", 0)
h = Harness(feature=r.get("feature")); m = Model()
c = h.compile(src, level)
print(src); print(c["status"])
for f in c["funcs"]:
    if f["code"]:
        print(unhx(f["name"]) + ":"); print("\n".join(show_line(l) for l in f["code"]["lines"] if l[0] != "D"))
env, im, ports, regions = prog.layout(c["vars"], c.get("scheme", "4K"))
print({k: hex(v) for k, v in env.items()}, ports)
prog.load(m, "d", c, env=env, ports=ports)
mem = dict(im)
for k, v in r.get("initial", {}).items():
    if k in regions:
        a, nb, info = regions[k]
        if info["mem"] == "superchip": a += 0x80
        mem[a] = v & 255
        if nb > 1 and info["type"] == "short": mem[a + 1] = v >> 8
for k, xs in r.get("arrays", {}).items():
    a, nb, info = regions[k]
    if info["mem"] == "superchip": a += 0x80
    for i, x in enumerate(xs): mem[a + i] = x
w = coexec.watch_list(regions)
res = prog.run(m, "d", mem=mem, x=r["initial"].get("X", 0), y=r["initial"].get("Y", 0), fuel=50000, watch=w)
print(coexec.describe(regions, res), "faults", res.get("faults"))
print("expected_vs_got", r.get("expected_vs_got"))
