"""C04 — reported function size equals the assembled size.

  proof  : lean/CV/Props/C04.lean (size/mode table of asm() for every abstract input; summation)
  tie    : the real asm() (hook H3) over mnemonics x operand kinds x every declarable variable class
           x eight_bits x high_byte x offsets x schemes, against CV.AsmSel.asmSel (text, nb_bytes,
           cycles, error class); the rendered text is re-parsed by the independent front end
  search : per compiled function (repository test inputs + generated programs, -O0 and -O1,
           zero-page and absolute placements): size_bytes() == length of the independent encoding
"""
import re
from lib import *
import prog, gen_c

MNS = ["LDA", "LDX", "LDY", "STA", "STX", "STY", "TAX", "TAY", "TXA", "TYA", "ADC", "SBC", "EOR", "AND", "ORA",
       "LSR", "ASL", "ROL", "ROR", "CLC", "SEC", "CMP", "CPX", "CPY", "BCC", "BCS", "BEQ", "BMI", "BNE", "BPL",
       "INC", "INX", "INY", "DEC", "DEX", "DEY", "JMP", "JSR", "RTS", "RTI", "PHA", "PLA", "PHP", "PLP", "NOP"]

STUB = """char zc; short zs; char *zp; char za[4]; short zsa[4]; char *zpa[3];
signed char zsc; signed short zss;
superchip char sc; superchip short ss; superchip char sa[4]; superchip char *sp; superchip short ssa[3];
ramchip char rc; ramchip short rs; ramchip char ra[8]; ramchip char *rp;
const char cc = 3; const char ca[4] = {1,2,3,4}; const char *cp = 0x1234; char * const hp = 0x80; char * const lp = 0x1080;
const short csa[2] = {1000, 2000};
const char *cpa[2] = {ca, ca};
bank1 char bc; bank1 short bs; bank1 char ba[4]; bank2 char *bp;
void main() { zc = 1; }
"""

TRUSTED = ["Lean 4 kernel; axioms allowed: propext, Classical.choice, Quot.sound",
           "specification: CV/Encode.lean (NMOS 6502 opcode matrix), dasm's rule: zero-page form iff the value is < $100 and the form exists",
           "assumption: zero-page variables plus their offsets stay below $100, all other memories are at or above $100",
           "tie: differential testing of CV.AsmSel.asmSel against asm() through hook H3 (complete over declarable variable classes)",
           "inline assembly is counted at its declared or default size, as the property states"]


def matrix_queries(vars_, quick):
    qs = []
    names = [(unhx(v["name"]), v) for v in vars_ if v["mem"] != "dummy" or True]
    offs_abs = [0, 1, 5, -1, 0x80]
    for mn in MNS:
        for kind in (0, 2, 6, 8, 9):
            qs.append((mn, kind, "zc", 0, 0, 0, 0))
        for off in (0, 5, 255, 256, 0x1234, -1, -300):
            for hi in (0, 1):
                qs.append((mn, 1, "zc", 0, off, hi, 0))
        qs.append((mn, 7, ".lab", 0, 0, 0, 1))
        for (n, v) in names:
            for eight in (0, 1):
                for off in offs_abs:
                    for hi in (0, 1):
                        qs.append((mn, 3, n, eight, off, hi, 0))
            for kind in (4, 5):
                for hi in (0, 1):
                    qs.append((mn, kind, n, 0, 0, hi, 0))
    return qs


def norm_real(a):
    if isinstance(a, str):
        return a
    return tok_of_line(a)


def run(chk):
    ok, obligations = prepare(chk)
    if not ok:
        return chk.finish(obligations=obligations, trusted_base=TRUSTED)
    h = Harness()
    m = Model()
    # ---------------- exhaustive matrix through H3 ----------------
    first = h.compile(STUB, 0)
    if first["status"] != "ok":
        chk.tie_broken("stub program for the asm() matrix no longer compiles: %s" % first["status"], {"stub": STUB})
        vars_ = []
    else:
        vars_ = first["vars"]
    vinfo = {unhx(v["name"]): v for v in vars_}
    qs = matrix_queries(vars_, chk.quick())
    schemes = ["4K", "3E", "3EP"]
    nmis = 0
    forms_bad = 0
    for scheme in schemes:
        sub = qs if scheme == "4K" else [q for q in qs if q[1] in (3, 4, 5) and vinfo.get(q[2], {}).get("mem", "").startswith("onchip")]
        for i in range(0, len(sub), 1500):
            batch = sub[i:i + 1500]
            line = "asmmatrix %s %s | %s" % (scheme, hx(STUB), " | ".join(
                "%s,%d,%s,%d,%d,%d,%d" % (q[0], q[1], hx(q[2]), q[3], q[4], q[5], q[6]) for q in batch))
            r = h.req(line)
            if r.get("status") != "ok":
                chk.tie_broken("asm() matrix batch failed: %s" % r.get("status"), {"scheme": scheme})
                continue
            for q, a in zip(batch, r["answers"]):
                v = vinfo.get(q[2], {"type": "char", "const": False, "mem": "zp", "size": 1})
                ml = "asmsel %s %d %s %s %d %s %d %s %d %d %d %d" % (q[0], q[1], hx(q[2]), v["type"], 1 if v["const"] else 0,
                                                                  v["mem"], v["size"], scheme, q[3], q[4], q[5], q[6])
                ma = m.req(ml)
                real = norm_real(a)
                chk.case(key=(scheme,) + q, nontrivial=not isinstance(a, str))
                chk.count("matrix_" + (real if isinstance(a, str) else "instr"))
                mparts = ma.split(" ")
                if mparts[0] != real:
                    nmis += 1
                    chk.tie_broken("asm(): model and code disagree", {"query": q, "scheme": scheme, "var": v, "real": real, "model": ma})
                elif not isinstance(a, str):
                    # round trip of the rendered text through the independent front end
                    t, f = mparts[1][5:], mparts[2][5:]
                    if t != f:
                        forms_bad += 1
                        chk.tie_broken("operand text does not parse back to its form", {"query": q, "model": ma})
    chk.stats["matrix_mismatches"] = nmis
    chk.coverage["exhaustive"] = True
    chk.sample({"matrix_query": "STA AbsoluteY(zp) -> " + m.req("asmsel STA 5 %s charptr 0 zp 1 4K 0 0 0 0" % hx("zp"))})
    # ---------------- per compiled function ----------------
    sources = [(s, ()) for s in prog.repo_test_inputs()]
    n_gen = chk.scale(120, 1500)
    for i in range(n_gen):
        sources.append((gen_c.program(chk.rng, placement=chk.rng.choice(["zp", "mixed", "abs"]), shorts=chk.rng.random() < 0.4, probe=("lte16", "zero-compare", "reg-compare")).text, ()))
    # pointer constants placed around the zero-page boundary (the operand is the constant itself: $FF is the last
    # zero-page address, $100 the first absolute one), accessed in every way
    for addrs in ([0xfd, 0x100, 0x101, 0x80], [0xfc, 0x100, 0x1ff, 0x200], [0x100, 0xfd, 0x7f, 0x1000]):
        decl = "".join("unsigned char *const P%d = 0x%x;\n" % (k, a) for k, a in enumerate(addrs))
        body = "".join("*P%d = %d; i = *P%d; P%d[1] = i; i = P%d[X]; P%d[Y] = i; if (*P%d == 3) i++; P%d[2]++; " % ((k, k) + (k,) * 6) for k in range(len(addrs)))
        sources.append((decl + "unsigned char i;\nvoid main() { " + body + "}\n", ()))
    # inline assembly with a declared size: written directly, inside inline functions (copied into their callers,
    # once and twice, nested), without a size (default 3)
    for n1, n2 in ((5, 2), (1, 4), (7, 6)):
        t1 = "\\n\\t".join(["NOP"] * n1)
        t2 = "\\n\\t".join(["LDA #0"] * (n2 // 2))
        sources.append(("unsigned char i;\n"
                        "inline void big() { asm(\"%s\", %d); }\n"
                        "inline void mixed() { i = 1; asm(\"%s\", %d); i++; }\n"
                        "inline void outer() { big(); asm(\"JMP somewhere\"); mixed(); }\n"
                        "void direct() { asm(\"%s\", %d); asm(\"%s\", %d); }\n"
                        "void main() { X = 1; big(); mixed(); if (X) { big(); } outer(); direct(); asm(\"%s\", %d); Y = 2; }\n"
                        % (t1, n1, t2, n2, t1, n1, t2, n2, t2, n2), ()))
    # an asm block whose first line is an assembler comment, code behind it
    sources.append(("unsigned char c;\nvoid direct() { asm(\"; wait\\n\\tNOP\\n\\tNOP\", 2); X = 1; }\n"
                    "inline void slide() { asm(\"; four\\n\\tNOP\\n\\tNOP\\n\\tNOP\\n\\tNOP\", 4); }\n"
                    "void main() { direct(); if (c) { slide(); slide(); } asm(\";only a comment\", 0); asm(\" ; indented comment\\n\\tINX\", 1); }\n", ()))
    # recorded findings: their exemplars are measured like every other program (signature = the finding's)
    known_src = {k["exemplar"]: k["signature"] for k in chk.known if k.get("exemplar")}
    sources += [(e, ()) for e in known_src]
    nfun = 0
    for (src, defs) in sources:
        for level in (0, 1):
            r = h.compile(src, level, defines=defs)
            if r["status"] != "ok":
                chk.count("compile_" + r["status"])
                continue
            env, _, ports, _ = prog.layout(r["vars"], r.get("scheme", "4K"))
            declared = {}
            for mm in re.finditer(r'asm\(\s*"((?:[^"\\]|\\.)*)"\s*(?:,\s*(\d+)\s*)?\)', src):
                text = mm.group(1).replace("\\n", "\n").replace("\\t", "\t")
                size = int(mm.group(2)) if mm.group(2) else 3
                declared[text] = size if declared.get(text, size) == size else None
            declared = {k: v for k, v in declared.items() if v is not None}
            m.req("drop c04")
            m.req("env c04 %s" % " ".join("%s=%d" % (hx(k), v) for k, v in env.items()))
            for f in r["funcs"]:
                if f["code"] is None:
                    continue
                nfun += 1
                ls = f["code"]["lines"]
                la = m.req("lens c04 " + toks_of_lines(ls)) if ls else "ok"
                lens = la.split(" ")[1:]
                key = (src, level, f["name"])
                chk.case(key=key, nontrivial=len(ls) > 3)
                if "bad" in lens:
                    i = lens.index("bad")
                    chk.fail("emitted-line-does-not-assemble", "function %s: line `%s` has no 6502 encoding / unknown symbol" % (unhx(f["name"]), show_line(ls[i]).strip()),
                             {"source": src, "level": level, "function": unhx(f["name"]), "line": show_line(ls[i])})
                    continue
                # an inline-assembly line is counted at the size its asm() statement declares (default 3)
                for l in ls:
                    if l[0] == "N" and unhx(l[1]) in declared and l[2] != declared[unhx(l[1])]:
                        chk.fail("inline-asm-size-lost", "function %s: the asm() text %r is counted as %d bytes, the source declares %d" % (
                                 unhx(f["name"]), unhx(l[1])[:30], l[2], declared[unhx(l[1])]),
                                 {"source": src, "level": level, "function": unhx(f["name"]), "counted": l[2], "declared": declared[unhx(l[1])]})
                        break
                total = sum(int(x) for x in lens)
                if total != f["size"]:
                    diffs = [(show_line(l).strip(), l[3] if l[0] == "I" else l[2] if l[0] == "N" else 0, int(n)) for l, n in zip(ls, lens)
                             if (l[0] == "I" and l[3] != int(n))]
                    chk.fail(known_src.get(src, "size-mismatch"), "function %s: size_bytes() = %d but it assembles to %d bytes (%s)" % (unhx(f["name"]), f["size"], total, diffs[:3]),
                             {"source": src, "level": level, "function": unhx(f["name"]), "reported": f["size"], "assembled": total, "lines": diffs})
        if len(chk.coverage["samples"]) < 4:
            chk.sample({"program": src[:300]})
    chk.stats["functions_measured"] = nfun
    h.close(); m.close()
    return chk.finish(level="proof", obligations=obligations, trusted_base=TRUSTED,
                      checker_cmd="cd /verif/lean && lake build CV.Props.C04 && lake env lean .lake/audit/C04_audit.lean",
                      extra={"rule": "matrix: every AsmMnemonic x operand kind x every variable class declarable in the stub x eight_bits x "
                                     "high_byte x offsets {0,1,5,-1,128} x schemes; per function: repository test inputs + generated programs "
                                     "at -O0/-O1; non-trivial = asm() produced an instruction / function has more than 3 lines"})
