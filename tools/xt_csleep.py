"""Translator piece: the csleep instruction selection table of generate_csleep_statement."""
import re, os
from lib import REPO

def extract():
    probs = []
    src = open(os.path.join(REPO, "src/generate/generate_statements.rs")).read()
    # an optional guard in front of the table: the delays built from STA/DEC DUMMY need that variable
    m = re.search(r"fn generate_csleep_statement\(&mut self, cycles: i32, pos: usize\)[^{]*\{\s*"
                  r"(?:if matches!\(cycles, ([\d |]+)\) && !self\.compiler_state\.variables\.contains_key\(\"DUMMY\"\) \{\s*return Err\(self\.compiler_state\.syntax_error\([^;]*?\)\);\s*\}\s*)?"
                  r"match cycles \{(.*?)\n        \};\s*(?://[^\n]*\n\s*)*(?:self\.flags = FlagsState::Unknown;\s*)?Ok\(\(\)\)\s*\}", src, re.S)
    if not m:
        return "", ["generate_csleep_statement: function shape not recognised"]
    guarded = set(int(x) for x in re.findall(r"\d+", m.group(1))) if m.group(1) else None
    body = m.group(2)
    # split into arms at top level:  N => <expr or block>
    arms = re.split(r"\n            (?=(?:\d+|_) =>)", "\n" + body)
    table = []
    default_ok = False
    for arm in arms:
        arm = arm.strip()
        if not arm:
            continue
        am = re.match(r"(\d+|_) =>(.*)$", arm, re.S)
        if not am:
            probs.append("csleep arm not recognised: %r" % arm[:60]); continue
        key, rhs = am.group(1), am.group(2)
        if key == "_":
            if "Unsupported cycle sleep value" in rhs and "return Err" in rhs:
                default_ok = True
            else:
                probs.append("csleep default arm is not the rejection")
            continue
        seq = []
        rest = rhs
        tok = re.compile(r"self\.sasm_protected\((\w+)\)\??[;,]?|self\.sasm\((\w+)\)\??[;,]?|self\.asm\(\s*(\w+),\s*&ExprType::Absolute\(\"DUMMY\"\.into\(\), true, 0\),\s*pos,\s*false,?\s*\)\??[;,]?", re.S)
        pos = 0
        stripped = re.sub(r"[\s{}]", "", rest)
        consumed = ""
        for t in tok.finditer(rest):
            consumed += re.sub(r"[\s{}]", "", t.group(0))
            if t.group(1):
                seq.append((t.group(1), False, True))
            elif t.group(2):
                seq.append((t.group(2), False, False))
            else:
                seq.append((t.group(3), True, False))
        if consumed.rstrip(",;") != stripped.rstrip(",;"):
            probs.append("csleep arm %s contains something the translator does not understand" % key)
        table.append((int(key), seq))
    if not default_ok:
        probs.append("csleep: no rejecting default arm found")
    if guarded is not None:
        uses = set(n for n, seq in table if any(d for _, d, _ in seq))
        if guarded != uses:
            probs.append("csleep: the DUMMY guard covers %s but the arms using DUMMY are %s" % (sorted(guarded), sorted(uses)))
    # is the generator's flag belief reset in this function? (DESIGN.md section 7, row 11)
    resets = "self.flags = FlagsState::Unknown" in m.group(0)
    lines = ["/-- csleep(n) arms: (n, [(mnemonic, operand is DUMMY, protected)]) — from generate_csleep_statement -/",
             "def csleepArms : List (Nat × List (CV.Mn × Bool × Bool)) := ["]
    lines.append(",\n".join("  (%d, [%s])" % (n, ", ".join("(CV.Mn.%s, %s, %s)" % (mn, "true" if d else "false", "true" if p else "false") for mn, d, p in seq)) for n, seq in table))
    lines.append("]")
    lines.append("def csleepResetsFlags : Bool := %s" % ("true" if resets else "false"))
    return "\n".join(lines) + "\n", probs
