"""Seeded breaking changes: confirm an independently written change in its scratch worktree and run
the checks against it.

  python3 tools/seed.py confirm <ID> <worktree> <seed_dir> [--features atari2600]
  python3 tools/seed.py run <seed patch> <check id>... [--tier quick|thorough] [--seeds 1,2]
"""
import sys, os, subprocess, re, json, shutil


def sh(cmd, cwd=None, timeout=1800):
    p = subprocess.run(cmd, cwd=cwd, shell=isinstance(cmd, str), stdout=subprocess.PIPE, stderr=subprocess.STDOUT, text=True, timeout=timeout,
                       env=dict(os.environ, CARGO_NET_OFFLINE="true"))
    return p.returncode, p.stdout


def confirm(pid, wt, sd, features):
    res = {"id": pid}
    feat = (" --features " + features) if features else ""
    # 1. the patch is what is applied in the worktree, and only library sources are touched
    rc, diff = sh("git diff", cwd=wt)
    patch = open(os.path.join(sd, "patch.diff")).read()
    res["patch_matches_worktree"] = diff.strip() == patch.strip()
    # 2. the unedited suite passes with the change
    rc, out = sh("cargo test --offline" + feat, cwd=wt)
    res["suite_passes_with_change"] = rc == 0 and "0 failed" in out and "FAILED" not in out
    m = re.findall(r"test result: ok\. (\d+) passed", out)
    res["suite_counts"] = m
    # 3. the demonstration fails with the change and passes without it
    demo = os.path.join(sd, "demo_test.rs")
    if os.path.exists(demo):
        target = "src/lib.rs"
        try:
            target = json.load(open(os.path.join(sd, "meta.json"))).get("demo_test_goes_into", "src/lib.rs")
        except Exception:
            pass
        lib = os.path.join(wt, target)
        orig = open(lib).read()
        body = open(demo).read()
        names = re.findall(r"fn (\w+)\(\)", body)
        i = orig.rstrip().rfind("}")
        open(lib, "w").write(orig[:i] + "\n" + body + "\n}\n")
        try:
            rc1, out1 = sh("cargo test --offline%s %s" % (feat, names[0]), cwd=wt)
            res["demo_fails_with_change"] = rc1 != 0
            sh("git apply -R " + os.path.join(sd, "patch.diff"), cwd=wt)
            rc2, out2 = sh("cargo test --offline%s %s" % (feat, names[0]), cwd=wt)
            res["demo_passes_without_change"] = rc2 == 0 and "1 passed" in out2
            sh("git apply " + os.path.join(sd, "patch.diff"), cwd=wt)
        finally:
            open(lib, "w").write(orig)
    else:
        res["demo_fails_with_change"] = None
    print(json.dumps(res, indent=1))
    return res


def run(patch, checks, tier, seeds):
    rc, st = sh("git -C /repo status --porcelain --untracked-files=no")
    if st.strip():
        print("refusing: /repo has uncommitted changes"); return 2
    rc, out = sh("git -C /repo apply " + patch)
    if rc != 0:
        print("patch does not apply:", out); return 2
    results = {}
    try:
        for c in checks:
            for s in seeds:
                rc, out = sh("VERIF_SEED=%s ./check %s %s" % (s, c, tier), cwd="/verif", timeout=3600)
                v = [l for l in out.splitlines() if l.startswith("VIOLATION")]
                first = ""
                if v:
                    # what the first violation says
                    mm = re.search(r"replay=(\S+)", v[0])
                    try:
                        r = json.load(open(mm.group(1)))
                        first = (r.get("what") or str(r.get("broken") or r.get("broken_correspondence")))[:200]
                    except Exception:
                        pass
                results["%s/seed%s" % (c, s)] = {"rc": rc, "violations": len(v), "no_input": sum("no-failing-input-found" in l for l in v), "first": first}
                print(c, "seed", s, "rc", rc, "violations", len(v), "|", first)
    finally:
        sh("git -C /repo checkout -- .")
        # the harness binaries were built from the patched tree: rebuild them from the restored one
        sys.path.insert(0, os.path.dirname(os.path.abspath(__file__)))
        import lib
        lib.build_harness(); lib.build_harness("atari2600")
    return results


if __name__ == "__main__":
    if sys.argv[1] == "confirm":
        feats = sys.argv[sys.argv.index("--features") + 1] if "--features" in sys.argv else None
        confirm(sys.argv[2], sys.argv[3], sys.argv[4], feats)
    else:
        args = sys.argv[2:]
        tier = "quick"; seeds = ["1"]
        if "--tier" in args:
            i = args.index("--tier"); tier = args[i + 1]; del args[i:i + 2]
        if "--seeds" in args:
            i = args.index("--seeds"); seeds = args[i + 1].split(","); del args[i:i + 2]
        run(args[0], args[1:], tier, seeds)
