"""Compiled program (Lean 6502 model) against the Lean C semantics (CV.CSem), state by state."""
import random
from lib import *
import prog, gen_c, coexec


def is_signed(ct):
    return ct.startswith("signed") or ("short" in ct and "unsigned" not in ct)


def csem_request(mode, p, vals, arrs, fuel=60000):
    segs = gen_c.program_tokens(p)
    sg = {name for (ct, name, n, q) in p.decls if is_signed(ct)}
    vs = " ".join("%s:%s%d=%d" % (n, "s" if n in sg else "", b, v) for (n, b, v) in vals)
    wide = {name for (ct, name, n, q) in p.decls if n and "short" in ct}
    as_ = " ".join("%s:%s%d=%s" % (n, "s" if n in sg else "", 16 if n in wide else 8, ",".join(str(x) for x in xs)) for n, xs in arrs)
    return "csem %s %d / %s / %s / %s" % (mode, fuel, vs, as_, " / ".join(" ".join(s) for s in segs))


def parse_csem(ans):
    if not ans.startswith("ok "):
        if ans.startswith("undef "):
            return ("undef", unhx(ans[6:]))
        return (ans.split(" ")[0], None)
    body = ans[3:]
    vpart, _, apart = body.partition(" / ")
    vals = {}
    for t in vpart.split(" "):
        if "=" in t:
            k, v = t.split("=")
            vals[k] = int(v)
    arrs = {}
    for t in apart.split(" "):
        if "=" in t:
            k, v = t.split("=")
            arrs[k] = [int(x) for x in v.split(",")] if v else []
    return ("ok", (vals, arrs))


def decl_info(p):
    """(scalars [(name, bits)], arrays [(name, len)]) of a generated Program"""
    sc, ar = [], []
    for (ct, name, n, q) in p.decls:
        if "*" in ct:
            continue            # a pointer variable is not part of the verdict (the twin of the program has none)
        if n:
            ar.append((name, n, 16 if "short" in ct else 8))
        else:
            sc.append((name, 16 if "short" in ct else 8))
    return sc, ar


def make_state(rs, p, regions, small_regs):
    sc, ar = decl_info(p)
    vals, arrs, mem = [], [], {}
    for (n, b) in sc:
        v = rs.choice(coexec.INTERESTING) if rs.random() < 0.7 else rs.randrange(256)
        if b == 16:
            v = rs.choice([0, 1, 255, 256, 257, 1000, 32767, 32768, 65535, rs.randrange(65536)])
        vals.append((n, b, v))
        a, nb, info = regions[n]
        cell = a + 0x80 if info["mem"] == "superchip" else a
        mem[cell] = v & 0xFF
        if b == 16:
            mem[cell + 1] = v >> 8
    for (n, ln, b) in ar:
        if b == 16:
            xs = [rs.choice([0, 1, 255, 256, 257, 32768, 65535, rs.randrange(65536)]) for _ in range(ln)]
        else:
            xs = [rs.randrange(256) for _ in range(ln)]
        arrs.append((n, xs))
        a, nb, info = regions[n]
        cell = a + 0x80 if info["mem"] == "superchip" else a
        for i, x in enumerate(xs):
            mem[cell + i] = x & 0xFF
            if b == 16:                 # two byte planes: the low bytes, then the high bytes
                mem[cell + ln + i] = x >> 8
    lim = min([ln for _, ln, _ in ar] + [256]) if small_regs else 256
    x, y = rs.randrange(lim), rs.randrange(lim)
    vals += [("X", 8, x), ("Y", 8, y)]
    return vals, arrs, mem, x, y


def expected(m, p, vals, arrs, fuel=60000):
    """('ok', (vals, arrs)) when the narrow and the wide reading agree, else a reason to skip"""
    a = parse_csem(m.req(csem_request("narrow", p, vals, arrs, fuel)))
    if a[0] != "ok":
        return a
    b = parse_csem(m.req(csem_request("wide", p, vals, arrs, fuel)))
    if b[0] != "ok":
        return b
    if a[1] != b[1]:
        return ("ambiguous", None)
    return a


def observed(res, p, regions):
    """final values of the same scalars / arrays from an emulator run"""
    sc, ar = decl_info(p)
    # memory is dumped in coexec.watch_list order: sorted region names with def none
    off = 0
    cells = {}
    for name, (a, nb, v) in sorted(regions.items()):
        if v["def"][0] == "none" and not v["mem"].startswith("rom"):
            cells[name] = res["mem"][off:off + nb]
            off += nb
    vals = {}
    for (n, b) in sc:
        c = cells.get(n, b"\0\0")
        vals[n] = c[0] + (c[1] << 8 if b == 16 else 0)
    vals["X"], vals["Y"] = res["X"], res["Y"]
    arrs = {}
    for (n, ln, b) in ar:
        c = list(cells.get(n, b""))
        arrs[n] = c if b == 8 else [c[i] + (c[ln + i] << 8) for i in range(ln)] if len(c) >= 2 * ln else c
    return vals, arrs


class _Collector:
    """stands in for a Check while shrinking: records whether a failure of the given kind occurs"""
    def __init__(self):
        self.failed = None
    def fail(self, sig, what, replay):
        if self.failed is None:
            self.failed = (sig, what, replay)
    def count(self, *a, **k):
        pass


def check_compiled(chk, m, src, p, result, pid, nstates, seed, level, sig_fn, extra=None, small_regs=True, compile_fn=None):
    """co-execute one compiled program against CSem. A failing program is shrunk (statement deletion,
    re-compiled with `compile_fn`) before it is reported through chk.fail."""
    col = _Collector()
    n = _check_compiled(col, m, src, p, result, pid, nstates, seed, level, sig_fn, extra, small_regs)
    if hasattr(chk, "count"):
        chk.count("states_compared", n)
    if col.failed is None:
        return n
    sig, what, replay = col.failed
    if compile_fn is not None and getattr(p, "oracle", None) is None:
        import copy
        q = copy.deepcopy(p)
        def still(pp):
            r2 = compile_fn(pp.text)
            if r2.get("status") != "ok":
                return False
            c2 = _Collector()
            try:
                _check_compiled(c2, m, pp.text, pp, r2, pid, nstates, seed, level, sig_fn, extra, small_regs)
            except gen_c.Unsupported:
                return False
            return c2.failed is not None and c2.failed[0] == sig
        try:
            q = shrink(q, still)
            r2 = compile_fn(q.text)
            c2 = _Collector()
            _check_compiled(c2, m, q.text, q, r2, pid, nstates, seed, level, sig_fn, extra, small_regs)
            if c2.failed is not None:
                sig, what, replay = c2.failed
                replay = dict(replay); replay["original_source"] = src
        except Exception:
            pass
    chk.fail(sig, what, replay)
    return n


def _check_compiled(chk, m, src, p, result, pid, nstates, seed, level, sig_fn, extra=None, small_regs=True):
    env, init, ports, regions = prog.layout(result["vars"], result.get("scheme", "4K"))
    ok, bad = prog.load(m, pid, result, env=env, ports=ports)
    if not ok:
        chk.count("unloadable")
        return 0
    w = coexec.watch_list(regions)
    rs = random.Random(seed)
    n = 0
    for k in range(nstates):
        vals, arrs, mem, x, y = make_state(rs, p, regions, small_regs)
        exp = expected(m, p, vals, arrs)
        if exp[0] != "ok":
            chk.count("csem_" + exp[0])
            continue
        img = dict(init); img.update(mem)
        res = prog.run(m, pid, mem=img, a=rs.randrange(256), x=x, y=y, p=rs.choice([0, 1, 2, 3, 128, 129, 64, 195]), fuel=60000, watch=w)
        n += 1
        if not res["stop"].startswith("done"):
            if res["stop"] == "fuel":
                chk.fail(sig_fn("diverges"), "compiled code does not terminate where the source does (-O%d)" % level,
                         dict({"source": src, "level": level, "initial": {a: c for a, b, c in vals}, "arrays": dict(arrs)}, **(extra or {})))
            else:
                chk.fail(sig_fn("fault"), "compiled code stops with %s (-O%d)" % (res["stop"], level),
                         dict({"source": src, "level": level, "initial": {a: c for a, b, c in vals}, "arrays": dict(arrs)}, **(extra or {})))
            return n
        if res.get("faults", 0):
            chk.fail(sig_fn("port-fault"), "%d split-port access faults (-O%d)" % (res["faults"], level),
                     dict({"source": src, "level": level, "initial": {a: c for a, b, c in vals}}, **(extra or {})))
            return n
        if res.get("SP") != 255:
            # the function returns through the stack: every byte it pushed must have been pulled again
            chk.fail(sig_fn("stack-imbalance"), "compiled code (-O%d) ends with the stack pointer at $%02X instead of $FF: pushes and pulls do not pair up" % (level, res.get("SP")),
                     dict({"source": src, "level": level, "initial": {a: c for a, b, c in vals}, "arrays": dict(arrs), "SP": res.get("SP")}, **(extra or {})))
            return n
        got = observed(res, p, regions)
        if got != exp[1]:
            dv = {k: (exp[1][0].get(k), got[0].get(k)) for k in exp[1][0] if exp[1][0].get(k) != got[0].get(k)}
            da = {k: (exp[1][1].get(k), got[1].get(k)) for k in exp[1][1] if exp[1][1].get(k) != got[1].get(k)}
            chk.fail(sig_fn("wrong-value"), "compiled code (-O%d) ends with %s, the source prescribes the first of each pair" % (level, dict(dv, **da)),
                     dict({"source": src, "level": level, "initial": {a: c for a, b, c in vals}, "arrays": dict(arrs),
                           "expected_vs_got": {k: list(v) for k, v in dict(dv, **da).items()}}, **(extra or {})))
            return n
    return n


# ---------------------------------------------------------------- shrinking of failing programs

def _stmt_lists(s, acc):
    """collect every mutable statement list inside a statement"""
    k = s[0]
    if k == 'block':
        acc.append(s[1])
        for x in s[1]:
            _stmt_lists(x, acc)
    elif k == 'if':
        _stmt_lists(s[2], acc)
        if s[3] is not None:
            _stmt_lists(s[3], acc)
    elif k in ('while',):
        _stmt_lists(s[2], acc)
    elif k == 'dowhile':
        _stmt_lists(s[1], acc)
    elif k == 'for':
        _stmt_lists(s[4], acc)
    elif k == 'switch':
        for vals, body in s[2]:
            acc.append(body)
            for x in body:
                _stmt_lists(x, acc)
        if s[3] is not None:
            acc.append(s[3])
            for x in s[3]:
                _stmt_lists(x, acc)


def shrink(p, still_fails, budget=150):
    """greedy statement deletion / hoisting on the Program's ASTs (in place); returns the program"""
    import copy
    changed = True
    while changed and budget > 0:
        changed = False
        lists = []
        for fi, (ret, name, params, body, inline) in enumerate(p.funcs):
            lists.append(body)
            for s in body:
                _stmt_lists(s, lists)
        for lst in lists:
            i = 0
            while i < len(lst) and budget > 0:
                saved = lst[i]
                # 1. delete the statement
                del lst[i]
                budget -= 1
                p.render()
                if still_fails(p):
                    changed = True
                    continue
                lst.insert(i, saved)
                # 2. replace a compound statement by its body
                inner = None
                if saved[0] == 'if':
                    inner = saved[2][1] if saved[2][0] == 'block' else [saved[2]]
                elif saved[0] == 'block':
                    inner = saved[1]
                if inner is not None:
                    lst[i:i + 1] = inner
                    budget -= 1
                    p.render()
                    if still_fails(p):
                        changed = True
                        continue
                    lst[i:i + len(inner)] = [saved]
                i += 1
    p.render()
    return p
