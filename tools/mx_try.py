"""development helper (not a registered check): run chosen matrix families against CV.CSem on the current /repo build
   usage: python3 tools/mx_try.py family [family ...]"""
import sys
from lib import *
import gen_c, csemx, matrix, c01


def main():
    chk = Check("C01")
    ok, out = build_harness(None)
    assert ok, out
    lake_build(["cvmodel"])
    h = Harness(); m = Model()
    n = 0
    for p in matrix.all_programs(sys.argv[1:]):
        try:
            gen_c.program_tokens(p)
        except gen_c.Unsupported as e:
            print("outside csem", p.matrix, e); continue
        for level in (0, 1):
            r = h.compile(p.text, level)
            if r["status"] != "ok":
                print("rejected", p.matrix, r.get("message", r)[:200] if isinstance(r.get("message"), str) else r["status"]); print(p.text[:600]); break
            n += 1
            csemx.check_compiled(chk, m, p.text, p, r, "c01m", 1, seed=1, level=level,
                                 sig_fn=lambda kind, t=p.text: c01.classify(t, kind), compile_fn=lambda t, lv=level: h.compile(t, lv))
    print("programs*levels", n, "violations", len(chk.violations), "known", len(chk.known_hits), chk.stats)
    for v in chk.violations[:8]:
        print(v)


main()
