"""C12 — call graph and in-use set are complete.

  proof  : lean/CV/Props/C12.lean (closure = reachability, both inclusions, any graph)
  tie    : compute_functions_actually_in_use() on arbitrary graphs written into the public
           functions_call_tree of a stub program with interrupt handlers, vs CV.CallGraph.inUse
  search : generated programs (calls in conditions, arguments, loops, inlined bodies, prototypes,
           unused functions, interrupts): every JSR target / inline expansion of the emitted code is
           in the published tree, the tree equals the call graph of the source as a multiset, and
           the published in-use set equals the reachable set computed independently.
"""
import re
from lib import *
import prog, gen_c

TRUSTED = ["Lean 4 kernel; axioms allowed: propext, Classical.choice, Quot.sound",
           "specification: reachability (inductive Reach in CV/Props/C12.lean; independent BFS in tools/c12.py)",
           "tie: differential testing of CV.CallGraph.inUse against compute_functions_actually_in_use",
           "that every call lowering records the call is checked per compiled program, not proved"]

NAMES = ["main", "a", "b", "c", "d", "e", "irq1", "irq2", "ghost"]
STUB = "void a() {} void b() {} void c() {} void d() {} void e() {}\nvoid interrupt irq1() {}\nvoid interrupt irq2() {}\nvoid main() {}\n"


def reach(tree, roots):
    seen, todo = set(), list(roots)
    while todo:
        f = todo.pop()
        if f in seen:
            continue
        seen.add(f)
        todo += tree.get(f, [])
    return seen


def call_program(rng):
    """program with calls in every position; returns (source, expected calls per function as lists)"""
    nf = rng.randint(2, 6)
    fnames = ["f%d" % i for i in range(nf)]
    inline = {f: rng.random() < 0.35 for f in fnames}
    ret = {f: rng.random() < 0.5 for f in fnames}
    proto = rng.random() < 0.4
    # a third of the programs place some functions in other banks: a call from bank 0 into another bank goes
    # through a trampoline (JSR Call<name>), a banked function calls only functions of its own bank
    banked = rng.random() < 0.34
    bank = {f: (rng.choice([0, 0, 1, 1, 2]) if banked and not inline[f] else 0) for f in fnames}
    calls = {}
    src = ["unsigned char v0, v1, v2, r;"]
    if proto:
        for f in fnames:
            if not inline[f]:
                src.append("%s%s %s();" % ("bank%d " % bank[f] if bank[f] else "", "unsigned char" if ret[f] else "void", f))
    def call_stmts(callable_, me):
        out = []
        if bank.get(me, 0) != 0:
            callable_ = [g for g in callable_ if bank[g] == bank[me] and not inline[g]]
        for _ in range(rng.randint(0, 3)):
            if not callable_:
                break
            g = rng.choice(callable_)
            calls.setdefault(me, []).append(g)
            k = rng.random()
            if ret[g] and k < 0.3:
                out.append("if (%s() == 3) v1 = 2;" % g)
            elif ret[g] and k < 0.5:
                out.append("v2 = %s() + 1;" % g)
            elif ret[g] and k < 0.6:
                out.append("r = %s();" % g)
            elif k < 0.8:
                out.append("for (v0 = 0; v0 < 2; v0++) { %s(); }" % g)
            else:
                out.append("%s();" % g)
        return out
    for i, f in enumerate(fnames):
        body = ["v%d++;" % (i % 3)] + call_stmts(fnames[:i], f)
        if ret[f]:
            body.append("return v%d;" % (i % 3))
        src.append("%s%s%s %s() { %s }" % ("bank%d " % bank[f] if bank[f] else "", "inline " if inline[f] else "", "unsigned char" if ret[f] else "void", f, " ".join(body)))
    ints = []
    if rng.random() < 0.4:
        src.append("void interrupt nmi() { %s }" % " ".join(call_stmts([f for f in fnames if not ret[f]], "nmi")))
        ints.append("nmi")
    used = [f for f in fnames if rng.random() < 0.7]
    src.append("void main() { %s }" % " ".join(call_stmts(used, "main") + ["v0 = 1;"]))
    return "\n".join(src) + "\n", calls, ints, inline


def run(chk):
    ok, obligations = prepare(chk)
    if not ok:
        return chk.finish(obligations=obligations, trusted_base=TRUSTED)
    h = Harness(); m = Model(); rng = chk.rng
    # ---- closure on arbitrary graphs ----
    for it in range(chk.scale(1500, 20000)):
        tree = {}
        for f in NAMES:
            if rng.random() < 0.75:
                tree[f] = [rng.choice(NAMES) for _ in range(rng.choice([0, 1, 1, 2, 3]))]
        req = "calltree %s | %s" % (hx(STUB), " | ".join("%s=%s" % (hx(f), ",".join(hx(c) for c in cs) if cs else "-") for f, cs in tree.items()))
        r = h.req(req)
        ma = m.req("inuse %s | %s" % (",".join(hx(i) for i in ("irq1", "irq2")), " | ".join("%s=%s" % (hx(f), ",".join(hx(c) for c in cs) if cs else "-") for f, cs in tree.items())))
        chk.case(key=json.dumps(tree, sort_keys=True), nontrivial=sum(len(v) for v in tree.values()) >= 3)
        chk.count("graphs")
        if r.get("status") != "ok":
            chk.tie_broken("calltree request failed: %s" % r.get("status"), {"tree": tree}); continue
        real = "ok " + " ".join(sorted(r["inuse"]))
        if real != ma:
            chk.tie_broken("in-use closure: model and code disagree", {"tree": tree, "real": [unhx(x) for x in r["inuse"]], "model": ma})
        want = reach(tree, ["main", "irq1", "irq2"])
        if set(unhx(x) for x in r["inuse"]) != want:
            chk.fail("inuse-not-reachable-set", "functions_actually_in_use differs from the reachable set", {"tree": tree, "inuse": [unhx(x) for x in r["inuse"]], "reachable": sorted(want)})
        if it == 0:
            chk.sample({"graph": tree, "inuse": [unhx(x) for x in r["inuse"]]})
    # ---- recording in compiled programs ----
    progs = [call_program(rng) for _ in range(chk.scale(300, 5000))]
    for (src, calls, ints, inline) in progs:
        for level in (0, 1):
            r = h.compile(src, level)
            if r["status"] != "ok":
                chk.count("compile_" + r["status"]); continue
            chk.case(key=(src, level), nontrivial=sum(len(v) for v in calls.values()) >= 2)
            if len(chk.coverage["samples"]) < 3:
                chk.sample({"program": src})
            tree = {unhx(f): [unhx(c) for c in cs] for f, cs in r["tree"]}
            # the published tree vs the call graph of the source (multiset per function)
            for f in set(list(calls) + list(tree)):
                if sorted(tree.get(f, [])) != sorted(calls.get(f, [])):
                    chk.fail("call-not-recorded", "call tree of %s is %s, the source calls %s" % (f, sorted(tree.get(f, [])), sorted(calls.get(f, []))),
                             {"source": src, "level": level, "function": f}); break
            # the emitted code vs the tree
            for fn in r["funcs"]:
                if fn["code"] is None:
                    continue
                name = unhx(fn["name"])
                for l in fn["code"]["lines"]:
                    tgt = unhx(l[2]) if l[0] == "I" else ""
                    if tgt.startswith("Call") and tgt[4:] in inline:
                        tgt = tgt[4:]                # the trampoline of a function in another bank
                    if l[0] == "I" and l[1] == "JSR" and tgt not in tree.get(name, []):
                        # a JSR inside an expanded inline body belongs to the entry of that (possibly nested) inline callee
                        via_inline = reach({k: [c for c in v if inline.get(c)] for k, v in tree.items()}, [name])
                        if not any(tgt in tree.get(g, []) for g in via_inline):
                            chk.fail("emitted-call-not-in-tree", "%s emits JSR %s which is not in the published tree" % (name, unhx(l[2])), {"source": src, "level": level})
            want = reach(tree, ["main"] + ints)
            got = set(unhx(x) for x in r["inuse"])
            if got != want:
                chk.fail("inuse-not-reachable-set", "in-use set %s, reachable %s" % (sorted(got), sorted(want)), {"source": src, "level": level})
    h.close(); m.close()
    return chk.finish(level="proof", obligations=obligations, trusted_base=TRUSTED,
                      checker_cmd="cd /verif/lean && lake build CV.Props.C12 && lake env lean .lake/audit/C12_audit.lean",
                      extra={"rule": "random graphs over 9 names (cycles, self calls, callees without an entry, main absent, two interrupt handlers); "
                                     "generated programs with 2-6 functions (inline, prototypes, return values used in conditions/arithmetic/loops, "
                                     "unused functions, an interrupt handler) at -O0/-O1; non-trivial = at least 3 edges / 2 calls"})
