"""Translator piece: the three Pratt tables, the arms of parse_calc, the radix arms of parse_int."""
import re, os
from lib import REPO

ARITH = {"*": "mul", "+": "add", "-": "sub", "&": "band", "|": "bor", "^": "bxor", ">>": "shr", "<<": "shl"}
CMP = {">": "gt", ">=": "ge", "<": "lt", "<=": "le", "==": "eq", "!=": "ne"}


def norm(s):
    return re.sub(r"\s+", " ", s.strip())


def pratt_tables(src, probs):
    out = {}
    for name in ("pratt", "pratt_init_value", "calculator"):
        m = re.search(r"let %s = PrattParser::new\(\)(.*?);\n" % name, src, re.S)
        if not m:
            probs.append("Pratt table %s not found" % name); continue
        chain = m.group(1)
        levels = []
        pos = 0
        # split into .op( ... ) groups with balanced parentheses
        while True:
            i = chain.find(".op(", pos)
            if i < 0:
                break
            depth, j = 0, i + 3
            while True:
                if chain[j] == "(":
                    depth += 1
                elif chain[j] == ")":
                    depth -= 1
                    if depth == 0:
                        break
                j += 1
            inner = chain[i + 4:j]
            items = []
            for it in inner.split("|"):
                it = norm(it)
                a = re.fullmatch(r"Op::infix\(Rule::(\w+), Assoc::(Left|Right)\)", it)
                b = re.fullmatch(r"Op::(prefix|postfix)\(Rule::(\w+)\)", it)
                if a:
                    items.append((a.group(1), "infixL" if a.group(2) == "Left" else "infixR"))
                elif b:
                    items.append((b.group(2), b.group(1)))
                else:
                    probs.append("Pratt table %s: item not understood: %r" % (name, it))
            levels.append(items)
            pos = j
        rest = re.sub(r"\s", "", chain[pos + 1:])
        if rest:
            probs.append("Pratt table %s: trailing text %r" % (name, rest[:40]))
        out[name] = levels
    return out


def calc_arms(src, probs):
    m = re.search(r"fn parse_calc\(&self, pairs: Pairs<'a, Rule>\) -> Result<i32, Error> \{(.*?)\n    \}\n", src, re.S)
    if not m:
        probs.append("parse_calc not found"); return [], [], 0
    body = m.group(1)
    mi = re.search(r"\.map_infix\(\|lhs, op, rhs\| \{\s*let res = match op\.as_rule\(\) \{(.*?)\n                \};\s*Ok\(res\)\s*\}\)", body, re.S)
    mp = re.search(r"\.map_prefix\(\|op, rhs\| match op\.as_rule\(\) \{(.*?)\n            \}\)", body, re.S)
    if not mi or not mp:
        probs.append("parse_calc: closures not recognised"); return [], [], 0
    infix = []
    sentinels = []
    arms = re.split(r"\n                    (?=(?:Rule::\w+|rule) =>)", "\n" + mi.group(1))
    for arm in arms:
        arm = arm.strip()
        if not arm:
            continue
        a = re.match(r"(Rule::(\w+)|rule) =>(.*)$", arm, re.S)
        if not a:
            probs.append("parse_calc arm not recognised: %r" % arm[:50]); continue
        if a.group(1) == "rule":
            if "unreachable!" not in a.group(3):
                probs.append("parse_calc default arm is not unreachable!()")
            continue
        rule, rhs = a.group(2), norm(a.group(3)).rstrip(",")
        x = re.fullmatch(r"lhs\.unwrap\(\) (\S+) rhs\.unwrap\(\)", rhs)
        if x and x.group(1) in ARITH:
            infix.append((rule, "arith", ARITH[x.group(1)])); continue
        x = re.fullmatch(r"\{ if lhs\.unwrap\(\) (\S+) rhs\.unwrap\(\) \{ 1 \} else \{ 0 \} \}", rhs)
        if x and x.group(1) in CMP:
            infix.append((rule, "cmp", CMP[x.group(1)])); continue
        x = re.fullmatch(r"\{ if lhs\.unwrap\(\) != 0 (&&|\|\|) rhs\.unwrap\(\) != 0 \{ 1 \} else \{ 0 \} \}", rhs)
        if x:
            infix.append((rule, "logic", "land" if x.group(1) == "&&" else "lor")); continue
        if re.fullmatch(r"\{ let d = rhs\.unwrap\(\); if d == 0 \{ let start = op\.as_span\(\)\.start\(\); return Err\(self\.syntax_error\(\"Division by zero\", start\)\); \} lhs\.unwrap\(\) / d \}", rhs):
            infix.append((rule, "arith", "divChecked")); continue
        x = re.fullmatch(r"\{ let l = lhs\.unwrap\(\); let r = rhs\.unwrap\(\); debug!\([^;]*\); if l != 0 \{ r \} else \{ (0x[0-9a-f]+) \} \}", rhs)
        if x:
            infix.append((rule, "tern1", "sentinel")); sentinels.append(int(x.group(1), 16)); continue
        x = re.fullmatch(r"\{ let l = lhs\.unwrap\(\); let r = rhs\.unwrap\(\); debug!\([^;]*\); if l == (0x[0-9a-f]+) \{ r \} else \{ l \} \}", rhs)
        if x:
            infix.append((rule, "tern2", "sentinel")); sentinels.append(int(x.group(1), 16)); continue
        probs.append("parse_calc arm for %s not understood: %r" % (rule, rhs[:80]))
    prefix = []
    for line in mp.group(1).splitlines():
        line = norm(line).rstrip(",")
        if not line:
            continue
        a = re.fullmatch(r"Rule::(\w+) => Ok\((.*)\)", line)
        if a:
            e = a.group(2)
            sem = {"-rhs?": "neg", "!rhs?": "bitnot", "if rhs? == 0 { 1 } else { 0 }": "lognot", "(rhs? == 0) as i32": "lognot"}.get(e)
            if sem is None:
                probs.append("parse_calc prefix arm for %s not understood: %r" % (a.group(1), e))
            else:
                prefix.append((a.group(1), sem))
        elif line.startswith("_ =>") and "unreachable!" in line:
            continue
        else:
            probs.append("parse_calc prefix arm not recognised: %r" % line)
    if len(set(sentinels)) > 1:
        probs.append('the two ternary arms use different sentinels')
    return infix, prefix, (sentinels[0] if sentinels else 0)


def parse_int_arms(src, probs):
    m = re.search(r"fn parse_int\(p: Pair<Rule>\) -> i32 \{\s*match p\.as_rule\(\) \{(.*?)\n    \}\n\}", src, re.S)
    if not m:
        probs.append("parse_int not found"); return []
    t = norm(m.group(1))
    arms = []
    if "Rule::decimal => p.as_str().parse::<i32>().unwrap()" in t:
        arms.append(("decimal", 10, 0))
    if "Rule::hexadecimal => i32::from_str_radix(&p.as_str()[2..], 16).unwrap()" in t:
        arms.append(("hexadecimal", 16, 2))
    if "Rule::octal => i32::from_str_radix(p.as_str(), 8).unwrap()" in t:
        arms.append(("octal", 8, 0))
    if "Rule::quoted_character" not in t:
        probs.append("parse_int: quoted_character arm missing")
    if len(arms) != 3:
        probs.append("parse_int: radix arms not recognised")
    return arms


def extract():
    probs = []
    src = open(os.path.join(REPO, "src/compile.rs")).read()
    tables = pratt_tables(src, probs)
    infix, prefix, sentinel = calc_arms(src, probs)
    ints = parse_int_arms(src, probs)
    L = []
    for name, lean in (("pratt", "prattMain"), ("pratt_init_value", "prattInit"), ("calculator", "prattCalc")):
        levels = tables.get(name, [])
        L.append("/-- %s: precedence levels, lowest first; (rule, affix) -/" % name)
        L.append("def %s : List (List (String × String)) := [\n%s\n]" % (lean, ",\n".join(
            "  [%s]" % ", ".join('("%s", "%s")' % it for it in lv) for lv in levels)))
    L.append("/-- arms of parse_calc: (rule, kind, operator) -/")
    L.append("def calcInfixArms : List (String × String × String) := [%s]" % ", ".join('("%s", "%s", "%s")' % a for a in infix))
    L.append("def calcPrefixArms : List (String × String) := [%s]" % ", ".join('("%s", "%s")' % a for a in prefix))
    L.append("def calcSentinel : Int := %d" % sentinel)
    L.append("def parseIntArms : List (String × Nat × Nat) := [%s]" % ", ".join('("%s", %d, %d)' % a for a in ints))
    return "\n".join(L) + "\n", probs
