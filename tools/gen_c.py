"""Generator of C programs of the cc6502 subset, with their AST (used by the C semantics in Lean).

AST (tuples):
  expr: ('num', n) | ('var', name) | ('idx', arr, e) | ('bin', op, a, b) | ('neg', a) | ('bnot', a)
        | ('not', a) | ('cmp', op, a, b) | ('land', a, b) | ('lor', a, b) | ('tern', c, a, b)
        | ('asg', lv, e) | ('opasg', op, lv, e) | ('pre', '++'|'--', lv) | ('post', '++'|'--', lv)
        | ('call', f, [args]) | ('comma', a, b)
  lv  : ('var', name) | ('idx', arr, e)       (X and Y are variables named 'X' and 'Y')
  stmt: ('expr', e) | ('if', c, s, s|None) | ('while', c, s) | ('dowhile', s, c)
        | ('for', e|None, e|None, e|None, s) | ('block', [s]) | ('break',) | ('continue',)
        | ('return', e|None) | ('switch', e, [([vals], [s])], [s]|None) | ('raw', text)
"""
import random

PREC = {'comma': 1, 'asg': 2, 'tern': 3, 'lor': 4, 'land': 5, '|': 6, '^': 7, '&': 8,
        '==': 9, '!=': 9, '<': 10, '<=': 10, '>': 10, '>=': 10, '<<': 11, '>>': 11,
        '+': 12, '-': 12, '*': 13, '/': 13, 'un': 14, 'post': 15, 'atom': 16}


def prec(e):
    k = e[0]
    if k in ('num', 'var', 'idx', 'call'):
        return PREC['atom'] if not (k == 'num' and e[1] < 0) else PREC['un']
    if k == 'bin':
        return PREC[e[1]]
    if k == 'cmp':
        return PREC[e[1]]
    if k in ('neg', 'bnot', 'not', 'pre', 'deref'):
        return PREC['un']
    if k == 'post':
        return PREC['post']
    if k in ('asg', 'opasg'):
        return PREC['asg']
    return PREC[k]


def show(e, ctx=0, right=False):
    """C text with the minimum parentheses C's grammar requires"""
    k = e[0]
    if k == 'num':
        s = str(e[1])
    elif k == 'var':
        s = e[1]
    elif k == 'idx':
        s = "%s[%s]" % (e[1], show(e[2]))
    elif k == 'call':
        s = "%s(%s)" % (e[1], ", ".join(show(a, PREC['asg']) for a in e[2]))
    elif k in ('bin', 'cmp'):
        p = PREC[e[1]]
        s = "%s %s %s" % (show(e[2], p), e[1], show(e[3], p + 1))
    elif k == 'land':
        s = "%s && %s" % (show(e[1], PREC['land']), show(e[2], PREC['land'] + 1))
    elif k == 'lor':
        s = "%s || %s" % (show(e[1], PREC['lor']), show(e[2], PREC['lor'] + 1))
    elif k == 'deref':
        s = "*" + show(e[1], PREC['un'])
    elif k == 'neg':
        inner = show(e[1], PREC['un'])
        s = "-" + (" " if inner.startswith("-") else "") + inner
    elif k == 'bnot':
        s = "~" + show(e[1], PREC['un'])
    elif k == 'not':
        s = "!" + show(e[1], PREC['un'])
    elif k == 'pre':
        s = e[1] + show(e[2], PREC['un'])
    elif k == 'post':
        s = show(e[2], PREC['post']) + e[1]
    elif k == 'tern':
        s = "%s ? %s : %s" % (show(e[1], PREC['tern'] + 1), show(e[2], PREC['asg']), show(e[3], PREC['tern']))
    elif k == 'asg':
        s = "%s = %s" % (show(e[1], PREC['un']), show(e[2], PREC['asg']))
    elif k == 'opasg':
        s = "%s %s= %s" % (show(e[2], PREC['un']), e[1], show(e[3], PREC['asg']))
    elif k == 'comma':
        s = "%s, %s" % (show(e[1], PREC['comma']), show(e[2], PREC['comma'] + 1))
    else:
        raise ValueError(e)
    return "(" + s + ")" if prec(e) < ctx else s


def show_stmt(s, ind=1):
    pad = "  " * ind
    k = s[0]
    if k == 'expr':
        return pad + show(s[1]) + ";\n"
    if k == 'raw':
        return pad + s[1] + "\n"
    if k == 'block':
        return pad + "{\n" + "".join(show_stmt(x, ind + 1) for x in s[1]) + pad + "}\n"
    if k == 'if':
        r = pad + "if (%s)\n" % show(s[1]) + show_stmt(blockify(s[2]), ind)
        if s[3] is not None:
            r += pad + "else\n" + show_stmt(blockify(s[3]), ind)
        return r
    if k == 'while':
        return pad + "while (%s)\n" % show(s[1]) + show_stmt(blockify(s[2]), ind)
    if k == 'dowhile':
        return pad + "do\n" + show_stmt(blockify(s[1]), ind) + pad + "while (%s);\n" % show(s[2])
    if k == 'for':
        f = lambda e: show(e) if e is not None else ""
        return pad + "for (%s; %s; %s)\n" % (f(s[1]), f(s[2]), f(s[3])) + show_stmt(blockify(s[4]), ind)
    if k == 'break':
        return pad + "break;\n"
    if k == 'continue':
        return pad + "continue;\n"
    if k == 'return':
        return pad + ("return %s;\n" % show(s[1]) if s[1] is not None else "return;\n")
    if k == 'switch':
        r = pad + "switch (%s) {\n" % show(s[1])
        for vals, body in s[2]:
            for v in vals[:-1]:
                r += pad + "  case %d:\n" % v
            r += pad + "  case %d:\n" % vals[-1] + "".join(show_stmt(x, ind + 2) for x in body)
        if s[3] is not None:
            r += pad + "  default:\n" + "".join(show_stmt(x, ind + 2) for x in s[3])
        return r + pad + "}\n"
    raise ValueError(s)


def blockify(s):
    return s if s[0] == 'block' else ('block', [s])


class Program:
    def __init__(self):
        self.decls = []       # (ctype, name, array_len|None, qualifier)
        self.funcs = []       # (ret, name, params, body stmts, inline)
        self.text = ""
        self.features = set()

    def render(self):
        out = []
        for (ct, name, n, q) in self.decls:
            out.append("%s%s %s%s;" % (q + " " if q else "", ct, name, "[%d]" % n if n else ""))
        for (ret, name, params, body, inline) in self.funcs:
            out.append("%s%s %s(%s)\n{\n%s}" % ("inline " if inline else "", ret, name,
                                               ", ".join("%s %s" % p for p in params) if params else "",
                                               "".join(show_stmt(s) for s in body)))
        self.text = "\n".join(out) + "\n"
        return self.text


class Gen:
    """Generates programs the unchanged compiler accepts most of the time and compiles correctly
    (constructs with a listed known finding are avoided unless `probe` names them)."""

    def __init__(self, rng, placement="zp", wide=True, shorts=False, arrays=True, calls=True, regs=True, probe=(), inline_rate=0.3, gotos=False, memsub=True):
        self.rng = rng
        self.p = Program()
        self.placement = placement
        self.wide = wide
        self.use_shorts = shorts
        self.use_arrays = arrays
        self.use_calls = calls
        self.use_regs = regs
        self.probe = set(probe)
        self.inline_rate = inline_rate
        self.gotos = gotos
        self.memsub = memsub       # subscripts by memory operands / array elements
        self.nlabels = 0
        self.chars = []
        self.shorts = []
        self.arrays = []
        self.counters = []
        self.funcs = []
        self.depth = 0

    def qual(self):
        if self.placement == "zp":
            return ""
        if self.placement == "abs":
            return "ramchip"
        return self.rng.choice(["", "", "ramchip"])

    def setup(self):
        r = self.rng
        for i in range(r.randint(3, 6)):
            n = "v%d" % i
            self.chars.append(n)
            self.p.decls.append(("unsigned char", n, None, self.qual()))
        for i in range(2):
            n = "i%d" % i
            self.counters.append(n)
            self.p.decls.append(("unsigned char", n, None, ""))
        if self.use_shorts:
            for i in range(r.randint(1, 3)):
                n = "s%d" % i
                self.shorts.append(n)
                self.p.decls.append(("unsigned short", n, None, self.qual()))
        self.warrs = []
        if self.use_shorts and r.random() < 0.5:
            # an array of 16-bit elements (two byte planes in memory): element accesses by X, Y and constants
            n = "w0"
            ln = r.choice([2, 4])
            self.warrs.append((n, ln))
            self.p.decls.append(("unsigned short", n, ln, self.qual()))
        if self.use_arrays:
            for i in range(r.randint(1, 2)):
                n = "a%d" % i
                ln = r.choice([4, 8, 16])
                self.arrays.append((n, ln))
                self.p.decls.append(("unsigned char", n, ln, self.qual()))

    # ---- expressions (8 bit) ----
    def atom(self, regs=True):
        r = self.rng
        x = r.random()
        if x < 0.3:
            return ('num', r.choice([0, 1, 2, 3, 5, 7, 8, 15, 16, 100, 127, 128, 200, 255]))
        if regs and self.use_regs and x < 0.4:
            return ('var', r.choice(['X', 'Y']))
        if self.arrays and x < 0.5:
            a, ln = r.choice(self.arrays)
            k = r.random()
            if regs and self.use_regs and self.memsub and k < 0.1:
                # a subscript that is itself an array element or a memory variable (the generator has to
                # bring it into an index register first)
                b, lnb = r.choice(self.arrays)
                return ('idx', a, r.choice([('idx', b, ('var', r.choice(['X', 'Y']))), ('var', r.choice(self.chars)),
                                            ('idx', b, ('num', r.randrange(lnb)))]))
            if regs and self.use_regs and k < 0.5:
                return ('idx', a, ('var', r.choice(['X', 'Y'])))
            return ('idx', a, ('num', r.randrange(ln)))
        return ('var', r.choice(self.chars))

    def lvalue(self, regs=True):
        r = self.rng
        x = r.random()
        if regs and self.use_regs and x < 0.12:
            return ('var', r.choice(['X', 'Y']))
        if self.arrays and x < 0.25:
            a, ln = r.choice(self.arrays)
            if self.use_regs and r.random() < 0.4:
                return ('idx', a, ('var', r.choice(['X', 'Y'])))
            return ('idx', a, ('num', r.randrange(ln)))
        return ('var', r.choice(self.chars))

    def expr(self, depth=0):
        r = self.rng
        x = r.random()
        if depth >= (2 if self.wide else 1) or x < 0.25:
            return self.atom()
        if x < 0.65:
            op = r.choice(['+', '-', '&', '|', '^'])
            return ('bin', op, self.expr(depth + 1), self.expr(depth + 1) if r.random() < 0.4 else self.atom())
        if x < 0.78:
            return ('bin', r.choice(['<<', '>>']), self.expr(depth + 1), ('num', r.randint(1, 7)))
        if x < 0.84:
            return ('bnot', self.atom())
        if x < 0.9:
            return ('neg', self.atom())
        if x < 0.95 and self.wide:
            return ('tern', self.cond(1), self.atom(), self.atom())
        return self.atom()

    def cmp(self):
        r = self.rng
        op = r.choice(['==', '!=', '<', '>=', '>', '<='])
        a = self.atom() if r.random() < 0.8 else self.expr(1)
        b = self.atom()
        # known finding (DESIGN.md section 7, row 28): ordered comparison against literal 0
        if 'zero-compare' not in self.probe and op in ('<', '>=', '>', '<=') and (b == ('num', 0) or a == ('num', 0)):
            b = ('num', 1)
            if a == ('num', 0):
                a = ('num', 2)
        if a[0] == 'num' and b[0] == 'num':
            a = ('var', r.choice(self.chars))
        # known finding: an element indexed by X/Y compared with the X/Y register itself
        if 'reg-compare' not in self.probe:
            def is_regidx(e): return e[0] == 'idx' and e[2][0] == 'var'
            def is_reg(e): return e[0] == 'var' and e[1] in ('X', 'Y')
            if (is_regidx(a) and is_reg(b)) or (is_regidx(b) and is_reg(a)):
                b = ('var', r.choice(self.chars))
                if is_reg(a):
                    a = ('var', r.choice(self.chars))
        # the same known finding through a folded constant: an ordered comparison against an
        # operand that is constant and equal to 0 modulo 256
        if 'zero-compare' not in self.probe and op in ('<', '>=', '>', '<='):
            for side in (a, b):
                cv = const_value(side)
                if cv is not None and cv % 256 == 0:
                    return ('cmp', op, ('var', r.choice(self.chars)), ('num', 1 + r.randrange(254)))
        return ('cmp', op, a, b)

    def cmp16(self):
        """comparison / truth test involving a 16-bit variable"""
        r = self.rng
        s = ('var', r.choice(self.shorts))
        k = r.random()
        if k < 0.3:
            return s if r.random() < 0.5 else ('not', s)
        other = r.choice([('num', r.choice([0, 1, 255, 256, 257, 1000, 2000, 32768, 65535])), ('var', r.choice(self.shorts)), ('var', r.choice(self.chars))])
        # known finding: 16-bit `<=` / `>` mis-handle a borrow when the difference has a zero high byte
        ops = ['==', '!=', '<', '>='] + (['>', '<='] if 'lte16' in self.probe else [])
        op = r.choice(ops)
        if op in ('<', '>=', '>', '<=') and other == ('num', 0):
            other = ('num', 1)
        if r.random() < 0.8 or op in ('<', '>='):
            return ('cmp', op, s, other)
        return ('cmp', op, other, s)

    def cond(self, depth=0):
        r = self.rng
        x = r.random()
        if self.shorts and r.random() < 0.25:
            return self.cmp16()
        if depth < 2 and x < 0.2:
            return ('land', self.cond(depth + 1), self.cond(depth + 1))
        if depth < 2 and x < 0.35:
            return ('lor', self.cond(depth + 1), self.cond(depth + 1))
        if x < 0.45:
            return ('not', ('var', r.choice(self.chars))) if r.random() < 0.5 else ('var', r.choice(self.chars))
        return self.cmp()

    # ---- statements ----
    def assign(self):
        r = self.rng
        x = r.random()
        lv = self.lvalue()
        if self.shorts and r.random() < 0.22:
            return self.short_stmt()
        if x < 0.55:
            return ('expr', ('asg', lv, self.expr()))
        if x < 0.75:
            op = r.choice(['+', '-', '&', '|', '^'])
            return ('expr', ('opasg', op, lv, self.atom()))
        if x < 0.82:
            return ('expr', ('opasg', r.choice(['<<', '>>']), ('var', r.choice(self.chars)), ('num', r.randint(1, 7))))
        if x < 0.92:
            return ('expr', (r.choice(['pre', 'post']), r.choice(['++', '--']), lv))
        if self.shorts:
            return self.short_stmt()
        return ('expr', ('asg', lv, self.atom()))

    def assign_char(self):
        r = self.rng
        return ('expr', ('asg', ('var', r.choice(self.chars)), self.atom()))

    def short_stmt(self):
        r = self.rng
        s = r.choice(self.shorts)
        if self.warrs and r.random() < 0.35:
            # statements on an element of a 16-bit array (outside the Lean C semantics: used by the
            # metamorphic and level-to-level comparisons only)
            w, ln = r.choice(self.warrs)
            idx = r.choice([('var', 'X'), ('var', 'Y'), ('num', r.randrange(ln))]) if self.use_regs else ('num', r.randrange(ln))
            el = ('idx', w, idx)
            k = r.random()
            if k < 0.3:
                return ('expr', ('opasg', r.choice(['+', '-', '|', '&', '^']), el, r.choice([('num', r.choice([1, 255, 256, 300, 0x8001])), ('var', s), ('var', r.choice(self.chars))])))
            if k < 0.5:
                return ('expr', ('asg', el, ('bin', r.choice(['+', '-', '|']), el, r.choice([('num', r.choice([1, 256, 300])), ('var', s)]))))
            if k < 0.65:
                return ('expr', (r.choice(['pre', 'post']), r.choice(['++', '--']), el))
            if k < 0.85:
                return ('expr', ('asg', el, r.choice([('var', s), ('num', r.choice([0, 1, 0x1234, 65535]))])))
            return ('expr', ('asg', ('var', s), el))
        x = r.random()
        if x < 0.3:
            return ('expr', ('asg', ('var', s), ('num', r.choice([0, 1, 255, 256, 1000, 65535, 0x1234]))))
        if x < 0.5:
            return ('expr', ('asg', ('var', s), ('var', r.choice(self.chars + self.shorts))))
        if x < 0.7:
            return ('expr', ('opasg', r.choice(['+', '-']), ('var', s), r.choice([('num', r.choice([1, 2, 255, 256, 300])), ('var', r.choice(self.chars))])))
        if x < 0.8:
            st = ('expr', (r.choice(['pre', 'post']), r.choice(['++', '--']), ('var', s)))
            if r.random() < 0.4:
                # a test of the same variable right after the increment / decrement
                return ('block', [st, ('if', ('var', s) if r.random() < 0.5 else ('cmp', '!=', ('var', s), ('num', 0)),
                                       ('block', [self.assign_char()]), None)])
            return st
        if x < 0.9:
            return ('expr', ('asg', ('var', s), ('bin', r.choice(['+', '-']), ('var', r.choice(self.shorts)), r.choice([('num', r.choice([1, 256, 1000])), ('var', r.choice(self.shorts))]))))
        return ('expr', ('asg', ('var', r.choice(self.chars)), ('var', s)))

    def flagprobe(self):
        """load v ; <one statement, preferably a call> ; test v against zero — the shape on which a stale
        belief about the processor flags (generator or optimiser) becomes visible"""
        r = self.rng
        lv = ('var', r.choice(['X', 'Y'])) if self.use_regs and r.random() < 0.5 else ('var', r.choice(self.chars))
        x = r.random()
        if x < 0.7:
            first = ('expr', ('asg', lv, self.atom()))
        else:
            first = ('expr', (r.choice(['pre', 'post']), r.choice(['++', '--']), lv))
        y = r.random()
        if self.funcs and self.use_calls and y < 0.4:
            mid = ('expr', ('call', r.choice(self.funcs), []))
        elif y < 0.75:
            # the variable is overwritten by another route (register store, array element, expression):
            # whatever the flags said about it before must not survive
            mid = ('expr', ('asg', lv, r.choice([('var', 'X'), ('var', 'Y'), self.atom(), self.expr(1)]) if self.use_regs else self.atom()))
        else:
            mid = self.assign()
        c = r.choice([lv, ('not', lv), ('cmp', '==', lv, ('num', 0)), ('cmp', '!=', lv, ('num', 0))])
        els = ('block', [self.assign_char()]) if r.random() < 0.4 else None
        return ('block', [first, mid, ('if', c, ('block', [self.assign_char()]), els)])

    def flagprobe_branches(self):
        """if (c) { [test of a variable of c] } else { [test of a variable of c] }: the generator carries its
        belief about the flags from the condition into both branches; with several exits (&& ||, 16-bit
        comparisons) the belief must hold on every one of them"""
        r = self.rng
        c = self.cond()
        names = []
        def walk(e):
            if not isinstance(e, tuple):
                return
            if e[0] == 'var':
                names.append(e[1])
            for x in e[1:]:
                walk(x)
        walk(c)
        names = [n for n in names if n in self.chars or n in ('X', 'Y')] or [r.choice(self.chars)]
        def test():
            lv = ('var', r.choice(names))
            t = r.choice([lv, ('not', lv), ('cmp', '==', lv, ('num', 0)), ('cmp', '!=', lv, ('num', 0))])
            return ('if', t, ('block', [self.assign_char()]), ('block', [self.assign_char()]) if r.random() < 0.3 else None)
        then = [test()] if r.random() < 0.5 else [self.assign_char()]
        els = [test()] if r.random() < 0.8 else [self.assign_char()]
        return ('if', c, ('block', then), ('block', els))

    def loop(self):
        r = self.rng
        if not self.counters_free:
            return self.assign()
        c = self.counters_free.pop()
        k = r.randint(1, 5)
        body = ('block', self.stmts(r.randint(1, 3), in_loop=True))
        x = r.random()
        cv = ('var', c)
        if x < 0.4:
            s = ('for', ('asg', cv, ('num', 0)), ('cmp', r.choice(['<', '!=']), cv, ('num', k)), ('post', '++', cv), body)
        elif x < 0.6:
            s = ('block', [('expr', ('asg', cv, ('num', k))), ('while', cv, ('block', body[1] + [('expr', ('post', '--', cv))]))])
            if any(st_has(b, 'continue') for b in body[1]):
                s = ('for', ('asg', cv, ('num', k)), cv, ('post', '--', cv), body)
        elif x < 0.8:
            s = ('block', [('expr', ('asg', cv, ('num', 0))),
                           ('dowhile', ('block', [x_ for x_ in body[1] if not st_has(x_, 'continue')] + [('expr', ('post', '++', cv))]), ('cmp', '<', cv, ('num', k)))])
        else:
            s = ('for', ('asg', cv, ('num', k)), ('cmp', '!=', cv, ('num', 0)), ('post', '--', cv), body)
        self.counters_free.append(c)
        return s

    def switch(self):
        r = self.rng
        vals = r.sample([0, 1, 2, 3, 5, 8, 100, 255], r.randint(1, 4))
        cases = []
        while vals:
            # one or (sometimes) two values per case
            vs = [vals.pop()]
            if vals and r.random() < 0.25:
                vs.append(vals.pop())
            body = self.stmts(r.randint(1, 2), in_loop=False)
            if r.random() < 0.75:
                body.append(('break',))
            cases.append((vs, body))
        default = self.stmts(1, in_loop=False) if r.random() < 0.5 else None
        # the selector: a variable, a register, an array element, or a computed value (which the
        # generator keeps in the accumulator across all the case tests)
        k = r.random()
        if k < 0.5:
            sel = ('var', r.choice(self.chars))
        elif k < 0.65:
            sel = self.atom()
            if sel[0] == 'num':
                sel = ('var', r.choice(self.chars))
        else:
            v = ('var', r.choice(self.chars))
            sel = r.choice([('bin', '&', v, ('num', r.choice([1, 3, 7, 15]))), ('bin', '+', v, ('num', 1)),
                            ('bin', '>>', v, ('num', r.randint(1, 6))), ('bin', '-', v, self.atom()),
                            ('bin', '^', self.atom(), v)])
        return ('switch', sel, cases, default)

    def stmt(self, in_loop=False):
        r = self.rng
        x = r.random()
        self.depth += 1
        try:
            if self.depth <= 3 and x < 0.05:
                return self.flagprobe()
            if self.depth <= 3 and x < 0.09:
                return self.flagprobe_branches()
            if self.depth > 3 or x < 0.55:
                return self.assign()
            if x < 0.75:
                els = ('block', self.stmts(r.randint(1, 2), in_loop)) if r.random() < 0.5 else None
                return ('if', self.cond(), ('block', self.stmts(r.randint(1, 2), in_loop)), els)
            if x < 0.87 and self.wide:
                return self.loop()
            if x < 0.92 and self.wide:
                return self.switch()
            if in_loop and x < 0.96:
                return ('if', self.cmp(), ('block', [(r.choice(['break', 'continue']),)]), None)
            if self.funcs and self.use_calls:
                return ('expr', ('call', r.choice(self.funcs), []))
            return self.assign()
        finally:
            self.depth -= 1

    def stmts(self, n, in_loop=False):
        return [self.stmt(in_loop) for _ in range(n)]

    def build(self, nstmts=None):
        r = self.rng
        self.setup()
        self.counters_free = list(self.counters)
        if self.use_calls and r.random() < 0.6:
            for i in range(r.randint(1, 3)):
                name = "f%d" % i
                saved, self.counters_free = self.counters_free, []   # callees do not use the loop counters
                body = self.stmts(r.randint(1, 4))
                if r.random() < 0.25:
                    body.insert(r.randrange(len(body) + 1), ('if', self.cmp(), ('block', [('return', None)]), None))
                self.counters_free = saved
                self.p.funcs.append(("void", name, [], body, r.random() < self.inline_rate))
                self.funcs.append(name)
        body = self.stmts(nstmts or r.randint(2, 8))
        if self.gotos and r.random() < 0.6:
            # forward goto over a few statements
            self.nlabels += 1
            lab = "lab%d" % self.nlabels
            i = r.randrange(len(body))
            j = r.randrange(i, len(body))
            body.insert(j + 1, ('raw', "%s: %s = %s;" % (lab, r.choice(self.chars), r.choice(self.chars))))
            body.insert(i, ('if', self.cmp(), ('block', [('raw', "goto %s;" % lab)]), None))
        self.p.funcs.append(("void", "main", [], body, False))
        self.p.render()
        return self.p


def const_value(e):
    """value of a constant expression (None if it mentions a variable)"""
    k = e[0]
    if k == 'num':
        return e[1]
    if k == 'bin':
        a, b = const_value(e[2]), const_value(e[3])
        if a is None or b is None:
            return None
        try:
            return {'+': a + b, '-': a - b, '&': a & b, '|': a | b, '^': a ^ b, '<<': a << b if 0 <= b < 16 else None,
                    '>>': a >> b if 0 <= b < 16 else None}[e[1]]
        except Exception:
            return None
    if k == 'neg':
        a = const_value(e[1]); return None if a is None else -a
    if k == 'bnot':
        a = const_value(e[1]); return None if a is None else ~a
    return None


def st_has(s, kind):
    if s[0] == kind:
        return True
    if s[0] == 'block':
        return any(st_has(x, kind) for x in s[1])
    if s[0] == 'if':
        return st_has(s[2], kind) or (s[3] is not None and st_has(s[3], kind))
    return False


def program(rng, placement="zp", **kw):
    return Gen(rng, placement=placement, **kw).build()


if __name__ == "__main__":
    import sys
    rng = random.Random(int(sys.argv[1]) if len(sys.argv) > 1 else 1)
    print(program(rng, shorts=True).text)


# ---------------------------------------------------------------- serialisation for the Lean C semantics

OPN = {'+': 'add', '-': 'sub', '&': 'and', '|': 'or', '^': 'xor', '<<': 'shl', '>>': 'shr',
       '==': 'eq', '!=': 'ne', '<': 'lt', '<=': 'le', '>': 'gt', '>=': 'ge', '++': 'inc', '--': 'dec'}


class Unsupported(Exception):
    pass


def etoks(e):
    k = e[0]
    if k == 'num':
        return ['n', str(e[1])]
    if k == 'var':
        return ['v', e[1]]
    if k == 'idx':
        return ['i', e[1]] + etoks(e[2])
    if k == 'bin':
        return ['b', OPN[e[1]]] + etoks(e[2]) + etoks(e[3])
    if k == 'cmp':
        return ['c', OPN[e[1]]] + etoks(e[2]) + etoks(e[3])
    if k in ('neg', 'bnot', 'not'):
        return [k] + etoks(e[1])
    if k in ('land', 'lor'):
        return [k] + etoks(e[1]) + etoks(e[2])
    if k == 'tern':
        return ['t'] + etoks(e[1]) + etoks(e[2]) + etoks(e[3])
    if k == 'asg':
        return ['asg'] + etoks(e[1]) + etoks(e[2])
    if k == 'opasg':
        return ['oas', OPN[e[1]]] + etoks(e[2]) + etoks(e[3])
    if k in ('pre', 'post'):
        return [k, OPN[e[1]]] + etoks(e[2])
    if k == 'call':
        if e[2]:
            raise Unsupported('call with arguments')
        return ['call', e[1]]
    raise Unsupported(k)


def stoks(s):
    k = s[0]
    if k == 'expr':
        return ['E'] + etoks(s[1])
    if k == 'block':
        out = ['blk', str(len(s[1]))]
        for x in s[1]:
            out += stoks(x)
        return out
    if k == 'if':
        return ['if'] + etoks(s[1]) + stoks(s[2]) + (stoks(s[3]) if s[3] is not None else ['-'])
    if k == 'while':
        return ['wh'] + etoks(s[1]) + stoks(s[2])
    if k == 'dowhile':
        return ['dw'] + stoks(s[1]) + etoks(s[2])
    if k == 'for':
        o = lambda e: etoks(e) if e is not None else ['-']
        return ['for'] + o(s[1]) + o(s[2]) + o(s[3]) + stoks(s[4])
    if k == 'break':
        return ['brk']
    if k == 'continue':
        return ['cont']
    if k == 'return':
        if s[1] is not None:
            raise Unsupported('return value')
        return ['ret']
    if k == 'switch':
        out = ['sw'] + etoks(s[1]) + [str(len(s[2]))]
        for vals, body in s[2]:
            out += [str(len(vals))] + [str(v) for v in vals] + [str(len(body))]
            for x in body:
                out += stoks(x)
        if s[3] is None:
            out.append('-')
        else:
            out += ['d', str(len(s[3]))]
            for x in s[3]:
                out += stoks(x)
        return out
    raise Unsupported(k)


def program_tokens(p):
    """the functions of a Program as token segments (main last)"""
    if getattr(p, "oracle", None) is not None:
        # a program with calls that take arguments / return values is judged through its twin in which every call
        # is written out with explicit temporaries (same declarations)
        return program_tokens(p.oracle)
    segs = []
    for (ret, name, params, body, inline) in p.funcs:
        if params or ret != 'void':
            raise Unsupported('parameters / return values')
        segs.append([name] + stoks(('block', body)))
    return segs
