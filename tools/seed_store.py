import sys, os, json, shutil
pid, name, sd = sys.argv[1], sys.argv[2], sys.argv[3]
confirm = json.loads(sys.argv[4]); results = json.loads(sys.argv[5]); caught_by = sys.argv[6]
d = os.path.join("/verif/seeded", name)
os.makedirs(d, exist_ok=True)
for f in os.listdir(sd):
    if os.path.isfile(os.path.join(sd, f)) and os.path.getsize(os.path.join(sd, f)) < 200000:
        shutil.copy(os.path.join(sd, f), os.path.join(d, f))
m = json.load(open(os.path.join(sd, "meta.json")))
m.update({"property": pid, "confirmed_by_me": confirm, "checks_run": results, "caught_by": caught_by,
          "what_i_ran": "tools/seed.py confirm (cargo test with the change; demo test fails with / passes without) and tools/seed.py run (patch applied to /repo, checks run, /repo restored)"})
json.dump(m, open(os.path.join(d, "meta.json"), "w"), indent=1)
print("stored", d)
