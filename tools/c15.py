"""C15 — equivalent source forms behave identically.

  proof  : lean/CV/Props/C15.lean (source-level laws of the fragment's meaning function; compiled
           equivalence of the two spellings for every layout and state, from C01's theorem)
  tie    : that of C01 (text-exact generator port)
  search : metamorphic co-execution: every program is rewritten by each meaning-preserving rule at all
           its applicable sites (commuting + & | ^, x op= e <-> x = x op e, ++x <-> x += 1,
           if (c) A else B <-> if (!c) B else A, a < b <-> b > a, for <-> while, switch <-> if-chain,
           call <-> body in place, register index <-> constant index); both spellings are compiled at
           -O0/-O1 and executed from the same initial states; final states must be identical.
"""
import copy
from lib import *
import prog, gen_c, coexec

TRUSTED = ["Lean 4 kernel; axioms allowed: propext, Classical.choice, Quot.sound",
           "specification: the rewrite rules are meaning-preserving in C for the generated programs (unsigned operands, side-effect-free operands at the rewritten sites)",
           "co-execution on CV/Mos.lean + CV/Exec.lean; no C oracle is needed: the two spellings are compared with each other"]

SWAP = {'<': '>', '>': '<', '<=': '>=', '>=': '<='}


def pure(e):
    k = e[0]
    if k in ('num', 'var'):
        return True
    if k == 'idx':
        return pure(e[2])
    if k in ('bin', 'cmp'):
        return pure(e[2]) and pure(e[3])
    if k in ('neg', 'bnot', 'not'):
        return pure(e[1])
    if k in ('land', 'lor'):
        return pure(e[1]) and pure(e[2])
    if k == 'tern':
        return pure(e[1]) and pure(e[2]) and pure(e[3])
    return False


def rw_expr(e, rule, funcs):
    k = e[0]
    if k in ('num', 'var'):
        return e
    if k == 'idx':
        return ('idx', e[1], rw_expr(e[2], rule, funcs))
    if k == 'bin':
        a, b = rw_expr(e[2], rule, funcs), rw_expr(e[3], rule, funcs)
        if rule == 'commute' and e[1] in ('+', '&', '|', '^') and pure(a) and pure(b):
            return ('bin', e[1], b, a)
        return ('bin', e[1], a, b)
    if k == 'cmp':
        a, b = rw_expr(e[2], rule, funcs), rw_expr(e[3], rule, funcs)
        if rule == 'cmpswap' and e[1] in SWAP and pure(a) and pure(b):
            return ('cmp', SWAP[e[1]], b, a)
        return ('cmp', e[1], a, b)
    if k in ('neg', 'bnot', 'not'):
        return (k, rw_expr(e[1], rule, funcs))
    if k in ('land', 'lor'):
        return (k, rw_expr(e[1], rule, funcs), rw_expr(e[2], rule, funcs))
    if k == 'tern':
        return ('tern', rw_expr(e[1], rule, funcs), rw_expr(e[2], rule, funcs), rw_expr(e[3], rule, funcs))
    if k == 'asg':
        return ('asg', e[1], rw_expr(e[2], rule, funcs))
    if k == 'opasg':
        rhs = rw_expr(e[3], rule, funcs)
        if rule == 'opassign' and pure(e[2]) and e[1] in ('+', '-', '&', '|', '^'):
            return ('asg', e[2], ('bin', e[1], e[2], rhs))
        return ('opasg', e[1], e[2], rhs)
    if k in ('pre', 'post'):
        return e
    return e


def rw_stmt(s, rule, funcs):
    k = s[0]
    if k == 'expr':
        e = s[1]
        if rule == 'incr' and e[0] in ('pre', 'post') and pure(e[2]):
            return ('expr', ('opasg', '+' if e[1] == '++' else '-', e[2], ('num', 1)))
        if rule == 'inlinecall' and e[0] == 'call' and not e[2] and e[1] in funcs:
            body = funcs[e[1]]
            if not any(gen_c.st_has(b, 'return') for b in body) and not has_call(body):
                return ('block', copy.deepcopy(body))
        return ('expr', rw_expr(e, rule, funcs))
    if k == 'block':
        return ('block', [rw_stmt(x, rule, funcs) for x in s[1]])
    if k == 'if':
        c = rw_expr(s[1], rule, funcs)
        t = rw_stmt(s[2], rule, funcs)
        e = rw_stmt(s[3], rule, funcs) if s[3] is not None else None
        if rule == 'ifswap' and e is not None and pure(c):
            return ('if', ('not', c), e, t)
        return ('if', c, t, e)
    if k == 'while':
        return ('while', rw_expr(s[1], rule, funcs), rw_stmt(s[2], rule, funcs))
    if k == 'dowhile':
        return ('dowhile', rw_stmt(s[1], rule, funcs), rw_expr(s[2], rule, funcs))
    if k == 'for':
        body = rw_stmt(s[4], rule, funcs)
        if rule == 'forwhile' and not deep_has(body, 'continue') and s[2] is not None:
            inner = [body] + ([('expr', s[3])] if s[3] is not None else [])
            return ('block', ([('expr', s[1])] if s[1] is not None else []) + [('while', s[2], ('block', inner))])
        return ('for', s[1], s[2], s[3], body)
    if k == 'switch':
        cases = [(v, [rw_stmt(x, rule, funcs) for x in b]) for v, b in s[2]]
        dflt = [rw_stmt(x, rule, funcs) for x in s[3]] if s[3] is not None else None
        if rule == 'switchif' and pure(s[1]) and all(b and b[-1] == ('break',) and not any(deep_has(x, 'break') for x in b[:-1]) for v, b in cases) \
                and (dflt is None or not any(deep_has(x, 'break') for x in dflt)):
            chain = ('block', dflt) if dflt is not None else None
            for v, b in reversed(cases):
                cond = ('cmp', '==', s[1], ('num', v[0]))
                for extra in v[1:]:
                    cond = ('lor', cond, ('cmp', '==', s[1], ('num', extra)))
                chain = ('if', cond, ('block', b[:-1]), chain)
            return chain if chain is not None else ('block', [])
        return ('switch', rw_expr(s[1], rule, funcs), cases, dflt)
    return s


def deep_has(s, kind):
    if s[0] == kind:
        return True
    if s[0] == 'block':
        return any(deep_has(x, kind) for x in s[1])
    if s[0] == 'if':
        return deep_has(s[2], kind) or (s[3] is not None and deep_has(s[3], kind))
    if s[0] in ('while',):
        return False if kind in ('break', 'continue') else deep_has(s[2], kind)
    if s[0] == 'switch':
        # a `break` belongs to the switch, a `continue` to the loop around it
        if kind == 'break':
            return False
        return any(deep_has(x, kind) for v, b in s[2] for x in b) or (s[3] is not None and any(deep_has(x, kind) for x in s[3]))
    if s[0] in ('for', 'dowhile'):
        return False if kind in ('break', 'continue') else True
    return False


def has_call(body):
    return "('call'" in repr(body)


RULES = ['commute', 'opassign', 'incr', 'ifswap', 'cmpswap', 'forwhile', 'switchif', 'inlinecall']


def rewrite(p, rule):
    q = copy.deepcopy(p)
    funcs = {name: body for (ret, name, params, body, inline) in p.funcs}
    q.funcs = [(ret, name, params, [rw_stmt(s, rule, funcs) for s in body], inline) for (ret, name, params, body, inline) in p.funcs]
    q.render()
    return q


def c_defined(m, p, st, regions):
    """None when CV.CSem gives the plain program a meaning from this state (then the spellings must agree);
    otherwise the reason (`oob`, `fuel`, …). A program CSem cannot read at all counts as defined (it is judged)."""
    import csemx
    try:
        gen_c.program_tokens(p)
    except gen_c.Unsupported:
        return None
    sc, ar = csemx.decl_info(p)
    vals, arrs = [], []
    try:
        for (n, b) in sc:
            a, nb, info = regions[n]
            cell = a + 0x80 if info["mem"] == "superchip" else a
            v = st["mem"].get(cell, 0) | ((st["mem"].get(cell + 1, 0) << 8) if b == 16 else 0)
            vals.append((n, b, v))
        for (n, ln, b) in ar:
            a, nb, info = regions[n]
            cell = a + 0x80 if info["mem"] == "superchip" else a
            xs = [st["mem"].get(cell + i, 0) | ((st["mem"].get(cell + ln + i, 0) << 8) if b == 16 else 0) for i in range(ln)]
            arrs.append((n, xs))
    except KeyError:
        return None
    vals += [("X", 8, st["x"]), ("Y", 8, st["y"])]
    exp = csemx.expected(m, p, vals, arrs)
    return None if exp[0] == "ok" else str(exp[0])


def run(chk):
    ok, obligations = prepare(chk)
    if not ok:
        return chk.finish(obligations=obligations, trusted_base=TRUSTED)
    h = Harness(); m = Model(); rng = chk.rng
    nstates = chk.scale(8, 32)
    for i in range(chk.scale(70, 2500)):
        p = gen_c.program(rng, placement=rng.choice(["zp", "zp", "mixed"]), shorts=False, inline_rate=0.0, gotos=False)
        for rule in RULES:
            q = rewrite(p, rule)
            if q.text == p.text:
                continue
            for level in (0, 1):
                a = h.compile(p.text, level)
                b = h.compile(q.text, level)
                chk.count("rule_" + rule)
                if a["status"] != "ok" or b["status"] != "ok":
                    chk.count("one_side_rejected" if a["status"] != b["status"] else "both_rejected")
                    continue
                chk.case(key=(q.text, level), nontrivial=True)
                if len(chk.coverage["samples"]) < 4 and level == 0:
                    chk.sample({"rule": rule, "plain": p.text[:300], "rewritten": q.text[:300]})
                states, lay = coexec.init_states(a, nstates, seed=stable_hash(p.text))
                oa, _ = coexec.run_all(m, "c15", a, states, lay)
                ob, _ = coexec.run_all(m, "c15", b, states, lay)
                if oa is None or ob is None:
                    chk.count("unloadable"); continue
                for st, x, y in zip(states, oa, ob):
                    chk.count("runs")
                    if x["stop"].startswith("fault") or y["stop"].startswith("fault"):
                        continue
                    if coexec.observable(x, lay[3]) != coexec.observable(y, lay[3]):
                        # the two spellings may differ where C leaves the behaviour undefined: a subscript outside its
                        # array (X and Y start anywhere) can read the scratch cell, which the spellings use differently.
                        # CV.CSem decides: a state it rejects (out-of-range subscript, no termination) is not judged
                        why = c_defined(m, p, st, lay[3])
                        if why is not None:
                            chk.count("divergence_in_undefined_state_" + why)
                            continue
                        sig = "rewrite-" + rule
                        chk.fail(sig, "rule `%s`: the two spellings end in different states at -O%d" % (rule, level),
                                 {"plain": p.text, "rewritten": q.text, "level": level, "rule": rule, "initial": {"x": st["x"], "y": st["y"]},
                                  "plain_result": coexec.describe(lay[3], x), "rewritten_result": coexec.describe(lay[3], y)})
                        break
    # ---- the deterministic idiom matrices rewritten by the rules (tools/matrix.py): every block sets its own
    #      operands, the verdict cells r[] of the two spellings must be equal ----
    import matrix
    for p in matrix.all_programs(["update-then-test", "update-then-loop", "comparisons", "switch", "loop-headers", "wide"]):
        for rule in ('incr', 'opassign', 'cmpswap', 'ifswap', 'forwhile', 'switchif'):
            q = rewrite(p, rule)
            if q.text == p.text:
                continue
            for level in (0, 1):
                a = h.compile(p.text, level)
                b = h.compile(q.text, level)
                chk.count("matrix_rule_" + rule)
                if a["status"] != "ok" or b["status"] != "ok":
                    chk.count("matrix_one_side_rejected" if a["status"] != b["status"] else "matrix_both_rejected")
                    continue
                chk.case(key=(q.text, level), nontrivial=True)
                states, lay = coexec.init_states(a, 1, seed=1)
                for st in states:
                    st["x"] %= 4; st["y"] %= 4
                oa, _ = coexec.run_all(m, "c15m", a, states, lay)
                ob, _ = coexec.run_all(m, "c15m", b, states, lay)
                if oa is None or ob is None:
                    chk.count("unloadable"); continue
                for st, x, y in zip(states, oa, ob):
                    chk.count("matrix_runs")
                    if x["stop"].startswith("fault") or y["stop"].startswith("fault"):
                        continue
                    if coexec.observable(x, lay[3]) != coexec.observable(y, lay[3]):
                        chk.fail("rewrite-" + rule + "-matrix", "rule `%s` on the %s matrix: the two spellings end in different states at -O%d" % (rule, p.matrix, level),
                                 {"plain": p.text, "rewritten": q.text, "level": level, "rule": rule,
                                  "plain_result": coexec.describe(lay[3], x), "rewritten_result": coexec.describe(lay[3], y)})
                        break
    # ---- idiom sweep: the assignment-form rules on every kind of assignable operand x operator x operand ----
    import idioms
    pairs = idioms.pairs()
    for rule, sa, sb, bits in pairs:
        pa = idioms.wrap(sa)
        pb = idioms.wrap(sb)
        width = "-16bit" if bits == 16 else ""
        for level in (0, 1):
            a = h.compile(pa, level); b = h.compile(pb, level)
            chk.count("idiom_" + rule)
            if a["status"] != "ok" or b["status"] != "ok":
                chk.count("idiom_one_side_rejected" if a["status"] != b["status"] else "idiom_both_rejected")
                continue
            chk.case(key=(pa, pb, level), nontrivial=True)
            states, lay = coexec.init_states(a, 6, seed=stable_hash(pa))
            for st in states:                       # keep the index registers inside the arrays
                st["x"] %= 4; st["y"] %= 4
            oa, _ = coexec.run_all(m, "c15i", a, states, lay)
            ob, _ = coexec.run_all(m, "c15i", b, states, lay)
            if oa is None or ob is None:
                chk.count("unloadable"); continue
            for st, x, y in zip(states, oa, ob):
                chk.count("idiom_runs")
                if coexec.observable(x, lay[3]) != coexec.observable(y, lay[3]):
                    chk.fail("rewrite-" + rule + "-idiom" + width, "`%s` and `%s` end in different states at -O%d" % (sa, sb, level),
                             {"plain": pa, "rewritten": pb, "level": level, "rule": rule, "initial": {"x": st["x"], "y": st["y"]},
                              "plain_result": coexec.describe(lay[3], x), "rewritten_result": coexec.describe(lay[3], y)})
                    break
    h.close(); m.close()
    return chk.finish(level="proof", obligations=obligations, trusted_base=TRUSTED,
                      checker_cmd="cd /verif/lean && lake build CV.Props.C15 && lake env lean .lake/audit/C15_audit.lean",
                      extra={"rule": "generated programs rewritten by each of %d rules at all applicable sites; both spellings at -O0/-O1 from %d states" % (len(RULES), nstates)})
