"""C03 — conditional branches always reach; long-branch repair preserves control flow.

  proof   : lean/CV/Props/C03.lean (range theorems, flow of the 8 repair shapes, label distinctness)
  tie     : random line vectors through the real check_branches() vs the Lean model (text + count)
  search  : every shape x every N/Z/C state x distances around the limit x both directions,
            original vs *really repaired* code executed on the Lean 6502 model; every branch of
            every repaired vector re-measured with the independent encoder's lengths.
"""
import itertools
from lib import *

CHECKED = ["BEQ", "BNE", "BMI", "BPL", "BCS", "BCC"]
TRUSTED = ["Lean 4 kernel; axioms allowed: propext, Classical.choice, Quot.sound",
           "specification: CV/Mos.lean (branch conditions), CV/Encode.lean (opcode lengths)",
           "tie: differential testing of CV.Branch.checkBranches against AssemblyCode::check_branches through the harness",
           "address of a line = prefix sum of sizes; true encodings = sizes is property C04",
           "`flow` (control-flow reading of branch/JMP/label sequences) is related to CV.Exec.step by execution, not by proof"]


def filler(n):
    """n bytes of code that does nothing observable (keeps flags): NOPs, packed in an inline block when large"""
    out = []
    while n > 0:
        k = min(n, 1)
        out.append(I("NOP", "", 1))
        n -= k
    return out


def block(n, rng):
    """n bytes, random mixture of real NOPs and one sized inline NOP-block"""
    if n <= 0:
        return []
    if rng.random() < 0.5:
        return filler(n)
    a = rng.randint(0, n)
    # an inline line with a size hint: counted at its declared size; text is a real NOP so that
    # the emulator can run it (the declared size is what the property counts)
    return filler(a) + ([N("NOP", n - a)] if n - a > 0 else [])


def rand_vector(rng, thorough):
    """random function body with 1..6 branches whose distances cluster around the 127 limit"""
    nlab = rng.randint(1, 5)
    labels = [".l%d" % i for i in range(nlab)]
    segs = []
    lines = []
    nseg = rng.randint(2, 7 if not thorough else 10)
    pending = list(labels)
    rng.shuffle(pending)
    for s in range(nseg):
        if pending and rng.random() < 0.7:
            lines.append(L(pending.pop()))
        # some code
        r = rng.random()
        if r < 0.4:
            lines += block(rng.choice([0, 1, 2, 3, 5, 60, 61, 62, 63, 64, 65, 120, 122, 123, 124, 125, 126, 127, 128, 129, 130, 140, 200]), rng)
        elif r < 0.6:
            lines.append(N("NOP", rng.choice([1, 3, 100, 124, 125, 126, 127, 128])))
        elif r < 0.7:
            lines.append(C("a comment"))
        elif r < 0.8:
            lines.append(D)
        else:
            lines.append(I("LDA", "#%d" % rng.randint(0, 255), 2))
        # a branch
        if rng.random() < 0.85:
            mn = rng.choice(CHECKED)
            tgt = rng.choice(labels)
            prot = rng.random() < 0.3
            lines.append(I(mn, tgt, 2, 2, 3, prot))
            if mn in ("BMI", "BCC") and rng.random() < 0.6:
                if rng.random() < 0.15:
                    lines.append(C("in between"))
                lines.append(I("BEQ", tgt if rng.random() < 0.85 else rng.choice(labels), 2, 2, 3, False))
    for l in pending:
        lines.append(L(l))
    if rng.random() < 0.05:
        lines.append(L(rng.choice(labels)))  # duplicate label (outside C13, still must correspond)
    lines.append(I("RTS", "", 1, 6))
    return lines


def parse_model_branch(ans):
    if ans.startswith("ok "):
        parts = ans.split(" ")
        return "ok", int(parts[1]), " ".join(parts[2:])
    return ans, None, None


def lines_from_tokens(toks):
    out = []
    for t in toks.split(" "):
        f = t.split(":")
        if f[0] == "L":
            out.append(["L", f[1]])
        elif f[0] == "I":
            out.append(["I", f[1], f[2], int(f[3]), int(f[4]), None if f[5] == "-" else int(f[5]), f[6] == "1"])
        elif f[0] == "N":
            out.append(["N", f[1], int(f[2])])
        elif f[0] == "C":
            out.append(["C", f[1]])
        elif f[0] == "D":
            out.append(["D"])
    return out


def displacements(lines, lens):
    """independent re-measurement: (index, mnemonic, displacement) of every conditional branch"""
    addr = [0]
    for n in lens:
        addr.append(addr[-1] + n)
    labpos = {}
    dup = set()
    for i, l in enumerate(lines):
        if l[0] == "L":
            if l[1] in labpos:
                dup.add(l[1])
            labpos[l[1]] = i
    out = []
    for i, l in enumerate(lines):
        if l[0] == "I" and l[1] in CHECKED:
            if l[2] in dup or l[2] not in labpos:
                continue
            out.append((i, l[1], addr[labpos[l[2]]] - (addr[i] + 2)))
    return out


def run_on_model(model, pid, lines, flags, fuel=5000):
    model.req("drop " + pid)
    a = model.req("fn %s %s %s" % (pid, hx("f"), toks_of_lines(lines)))
    if a != "ok":
        return ("load:" + a,)
    r = model.req("run %s %s %d 0 0 0 %d | | 0:2" % (pid, hx("f"), fuel, flags))
    p = r.split(" ")
    # ok stop A X Y P SP cycles steps faults ntrace t=.. m=..
    return (p[1], p[2], p[3], p[4], p[5], p[6], p[-1])


def shape_program(direction, mn, pair, dist):
    """`dist` = bytes the scan will measure. X = 1 on fall-through, X = 2 at the target."""
    br = [I(mn, ".tgt", 2, 2, 3)] + ([I("BEQ", ".tgt", 2, 2, 3)] if pair else [])
    ft = [I("LDX", "#1", 2), I("RTS", "", 1, 6)]
    tg = [L(".tgt"), I("LDX", "#2", 2), I("RTS", "", 1, 6)]
    if direction == "fwd":
        # measured: everything strictly between the (first) branch and the label
        inner = (2 if pair else 0) + 3
        return br + ft + filler(max(0, dist - inner)) + tg
    else:
        # measured: from the label (exclusive) down to and including the branch
        inner = 3 + 2
        return [I("JMP", ".start", 3, 3)] + tg + filler(max(0, dist - inner)) + [L(".start")] + br + ft


def run(chk):
    ok, obligations = prepare(chk)
    if not ok:
        return chk.finish(obligations=obligations, trusted_base=TRUSTED)
    h = Harness()
    m = Model()
    rng = chk.rng
    # ---- known corpus + random tie ----
    n_tie = chk.scale(1500, 30000)
    for it in range(n_tie):
        lines = rand_vector(rng, not chk.quick())
        toks = toks_of_lines(lines)
        real = h.req("branch " + toks)
        mod = m.req("branch " + toks)
        mst, mcount, mtoks = parse_model_branch(mod)
        nbr = sum(1 for l in lines if l[0] == "I" and l[1] in CHECKED)
        if real["status"] == "ok":
            rtoks = toks_of_lines(real["code"]["lines"])
            chk.case(key=toks, nontrivial=real["count"] > 0)
            chk.count("fixes_%d" % min(real["count"], 5))
            chk.count("branches", nbr)
            if mst != "ok" or mcount != real["count"] or mtoks != rtoks:
                chk.tie_broken("check_branches: model and code disagree", {"input": [show_line(l) for l in lines], "tokens": toks,
                               "real_count": real["count"], "real": [show_line(l) for l in real["code"]["lines"]],
                               "model": mod[:2000]})
                # look for a concrete failing input behind the difference: execute what the code produced
            # independent re-measurement of the real output
            rl = real["code"]["lines"]
            la = m.req("lens c03 " + rtoks)
            if la.startswith("ok"):
                lens = [int(x) if x != "bad" else 0 for x in la.split(" ")[1:]]
                for (i, mn, d) in displacements(rl, lens):
                    chk.count("displacements_checked")
                    if d < -128 or d > 127:
                        chk.fail("out-of-range-branch", "branch %s at line %d has displacement %d after check_branches" % (mn, i, d),
                                 {"input": [show_line(l) for l in lines], "tokens": toks, "output": [show_line(l) for l in rl]})
            if it < 3:
                chk.sample({"input": [show_line(l) for l in lines][:12], "fixes": real["count"]})
        else:
            chk.case(key=toks, nontrivial=False)
            chk.count("real_" + real["status"])
            want = {"panic": "panic", "timeout": "diverge", "abort": "panic"}.get(real["status"])
            if mst != want:
                chk.tie_broken("check_branches outcome class differs: code %s, model %s" % (real["status"], mst), {"tokens": toks})
    # ---- exhaustive local sweep: shapes x flags x distances x directions, on the really repaired code ----
    dists = list(range(118, 136)) + ([0, 5, 60, 255, 256, 260] if chk.quick() else list(range(0, 118, 7)) + list(range(136, 262, 5)))
    shapes = [(mn, False) for mn in CHECKED] + [("BMI", True), ("BCC", True)]
    nshape = 0
    for direction in ("fwd", "bwd"):
        for (mn, pair) in shapes:
            for dist in dists:
                lines = shape_program(direction, mn, pair, dist)
                real = h.req("branch " + toks_of_lines(lines))
                if real["status"] != "ok":
                    chk.fail("repair-crash", "check_branches %s on a well-formed shape" % real["status"], {"input": [show_line(l) for l in lines]})
                    continue
                rl = real["code"]["lines"]
                nshape += 1
                chk.case(key=(direction, mn, pair, dist), nontrivial=real["count"] > 0)
                chk.count("sweep_repaired" if real["count"] else "sweep_untouched")
                for flags in range(8):
                    # P bits: N=0x80 Z=0x02 C=0x01
                    P = (0x80 if flags & 4 else 0) | (0x02 if flags & 2 else 0) | (0x01 if flags & 1 else 0)
                    a = run_on_model(m, "c03", lines, P)
                    b = run_on_model(m, "c03", rl, P)
                    chk.count("sweep_runs")
                    if a[0] != "done" or a != b:
                        chk.fail("repair-changes-flow", "%s %s%s distance %d flags N=%d Z=%d C=%d: original ends %s, repaired ends %s" %
                                 (direction, mn, "+BEQ" if pair else "", dist, flags >> 2 & 1, flags >> 1 & 1, flags & 1, a, b),
                                 {"input": [show_line(l) for l in lines], "repaired": [show_line(l) for l in rl], "P": P})
    chk.stats["sweep_shapes"] = nshape
    chk.coverage["exhaustive_local_sweep"] = True
    # ---- whole functions: the branches of really generated code, measured with independent instruction lengths.
    #      check_branches trusts the nb_bytes the generator wrote on every instruction; here the emitted text is
    #      re-encoded (CV.Encode through the model's `lens`) and every displacement is recomputed. Bodies are built
    #      from one kind of statement each and stretched byte by byte across the 127-byte limit ----
    import prog, gen_c, matrix
    SIZED = [("unsigned char *ptrs[4]; unsigned char *p;", "p = ptrs[Y];"), ("unsigned char *ptrs[4]; unsigned char *p;", "ptrs[Y] = p;"),
             ("unsigned char *ptrs[4]; unsigned char *p;", "p = ptrs[X];"), ("unsigned short sa[4]; unsigned short s;", "s = sa[Y];"),
             ("unsigned short sa[4]; unsigned short s;", "sa[Y] = s;"), ("unsigned short sa[4]; unsigned short s;", "s += sa[X];"),
             ("unsigned char a[8]; unsigned char v;", "v = a[Y];"), ("unsigned char a[8]; unsigned char v;", "a[X] = v;"),
             ("unsigned char a[8]; unsigned char v;", "a[Y]++;"), ("unsigned char v;", "v = v + 3;"), ("unsigned short s;", "s += 300;"),
             ("ramchip unsigned char r[8]; unsigned char v;", "r[Y] = v;"), ("ramchip unsigned char *rp[4]; unsigned char *p;", "p = rp[Y];"),
             ("unsigned char *q; unsigned char v;", "v = q[Y];"), ("unsigned char *const K = 0x100; unsigned char v;", "v = *K;"),
             ("unsigned char *const K = 0x80; unsigned char v;", "K[1] = v;"), ("const unsigned char t[4] = {1, 2, 3, 4}; unsigned char v;", "v = t[X];")]
    FORMS = [("if (v9) { %s }", "if"), ("do { %s } while (v9);", "do"), ("while (v9 != 3) { %s }", "while")]
    srcs = []
    def measure(decl, form, body):
        src = decl + " unsigned char v9;\nvoid main() { " + (form % body) + " }\n"
        r = h.compile(src, 0)
        return src, r
    for decl, st in SIZED:
        for form, fname in FORMS[: (3 if not chk.quick() else 1)] if st != "p = ptrs[Y];" else FORMS:
            # grow the body until it is close to the limit, then one byte (INX) at a time across it
            reps = 1
            while reps < 80:
                src, r = measure(decl, form, st * reps)
                if r["status"] != "ok" or r["funcs"][-1]["size"] >= 108:
                    break
                reps += 1
            if r["status"] != "ok":
                chk.count("far_" + r["status"]); continue
            for fill in range(0, 30):
                srcs.append(measure(decl, form, st * reps + "X++; " * fill)[0])
    srcs += [p.text for p in matrix.all_programs(["far"])]
    srcs += prog.repo_test_inputs()
    for i in range(chk.scale(60, 1500)):
        srcs.append(gen_c.program(rng, placement=rng.choice(["zp", "mixed", "abs"]), shorts=rng.random() < 0.4).text)
    for src in srcs:
        for level in (0, 1):
            r = h.compile(src, level)
            if r["status"] != "ok":
                chk.count("program_" + r["status"]); break
            env, _, ports, _ = prog.layout(r["vars"], r.get("scheme", "4K"))
            m.req("drop c03p")
            m.req("env c03p %s" % " ".join("%s=%d" % (hx(k), v) for k, v in env.items()))
            for f in r["funcs"]:
                if f["code"] is None or not f["code"]["lines"]:
                    continue
                ls = f["code"]["lines"]
                la = m.req("lens c03p " + toks_of_lines(ls))
                lens = la.split(" ")[1:]
                if "bad" in lens or len(lens) != len(ls):
                    chk.count("program_function_not_encodable"); continue
                ds = displacements(ls, [int(x) for x in lens])
                chk.count("program_branches", len(ds))
                chk.case(key=(src, level, f["name"]), nontrivial=any(abs(d[2]) > 100 for d in ds))
                for (i, mn, d) in ds:
                    if d < -128 or d > 127:
                        chk.fail("branch-out-of-range-in-function", "function %s (-O%d): %s at line %d is %d bytes from its label when the emitted text is encoded" %
                                 (unhx(f["name"]), level, mn, i, d), {"source": src, "level": level, "function": unhx(f["name"]), "line": show_line(ls[i]), "displacement": d})
                        break
    h.close()
    m.close()
    return chk.finish(level="proof", obligations=obligations, trusted_base=TRUSTED,
                      checker_cmd="cd /verif/lean && lake build CV.Props.C03 && lake env lean .lake/audit/C03_audit.lean",
                      extra={"rule": "random line vectors (labels, six branch kinds, BMI/BCC+BEQ pairs, inline size hints, comments, dummies) "
                                     "with distances clustered at the 127-byte limit; non-trivial = at least one repair; "
                                     "plus the complete sweep shapes x 8 flag states x distances x directions"})
