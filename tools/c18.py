"""C18 — timing and hardware-access statements are emitted exactly.

  proof  : lean/CV/Props/C18.lean (csleep cycles/state for every arm of the translated table;
           optimize never removes, duplicates or reorders inline lines and protected instructions)
  tie    : T — the csleep table is regenerated from generate_csleep_statement on every run;
           C — csleep(n), n = -3..40, compiled by the real compiler (atari2600 build) vs the model;
           C — optimize() on random line vectors and on every -O0 function dump vs CV.Opt.optimize
  search : programs mixing load/store/strobe/asm/csleep with ordinary code on the same operands, in
           branches and loops: (a) static: the explicit-access sequence of the -O0 dump equals that of
           the optimised dump; (b) dynamic: the trace of executed explicit accesses (protected and
           inline lines, every access to the hardware-register range) is the same at -O0 and -O1..3
           and, for straight-line programs, equals the sequence the source prescribes;
           (c) cycles spent between inline markers around csleep(n) are exactly n at every level.
"""
from lib import *
import random
import prog, gasm, gen_c

TRUSTED = ["Lean 4 kernel; axioms allowed: propext, Classical.choice, Quot.sound",
           "specification: CV/Encode.lean cycle table (MOS data sheet; zero-page DUMMY, no page crossing), CV/Mos.lean semantics",
           "translator tools/xt_csleep.py (fails closed on any arm it does not understand)",
           "tie: differential testing of CV.Opt.optimize against AssemblyCode::optimize",
           "explicit accesses = inline lines, protected instructions and every access to the declared hardware-register range"]

HW = [("WSYNC", 0x02), ("REG0", 0x10), ("REG1", 0x11), ("REG2", 0x2c)]
PRE = "".join("unsigned char * const %s = 0x%02x;\n" % (n, a) for n, a in HW) + "unsigned char a, b, c, d;\n"


def gen_hw_program(rng, straight):
    """returns (source, expected explicit events for straight-line programs or None)"""
    evs = []
    body = []
    vars_ = ["a", "b", "c", "d"]

    def explicit():
        k = rng.random()
        r = rng.choice(HW)
        if k < 0.22:
            body.append("strobe(%s);" % r[0]); return [("wr", r[1])]
        if k < 0.4:
            form = rng.choice(["%s[0]", "*%s"]) % r[0]
            body.append("load(%s);" % form); return [("rd", r[1])]
        if k < 0.55:
            body.append("store(*%s);" % r[0]); return [("wr", r[1])]
        if k < 0.65:
            v = rng.choice(vars_)
            body.append("load(%s);" % v); return [("P", "LDA " + v)]
        if k < 0.75:
            v = rng.choice(vars_)
            body.append("store(%s);" % v); return [("P", "STA " + v)]
        if k < 0.81:
            # the register forms: load(X) is TXA, store(X) is TAX, load(Y) is TYA, store(Y) is TAY
            f, reg = rng.choice([("load", "X"), ("store", "X"), ("load", "Y"), ("store", "Y")])
            body.append("%s(%s);" % (f, reg))
            return [("P", {"loadX": "TXA ", "storeX": "TAX ", "loadY": "TYA ", "storeY": "TAY "}[f + reg])]
        if k < 0.87:
            t = rng.choice(["NOP", "INX", "LDA #5", "STA a"])
            body.append("asm(\"%s\", %d);" % (t, 1 if t in ("NOP", "INX") else 2)); return [("P", "inline " + t)]
        n = rng.choice([2, 3, 4, 5, 6, 7, 8, 9, 10])
        body.append("csleep(%d);" % n); return [("S", n)]

    def ordinary():
        v, w = rng.choice(vars_), rng.choice(vars_)
        k = rng.random()
        if k < 0.3:
            return "%s = %s;" % (v, w)
        if k < 0.5:
            return "%s = %d;" % (v, rng.choice([0, 1, 3, 255]))
        if k < 0.7:
            return "%s = %s + %d;" % (v, w, rng.randint(1, 3))
        if k < 0.8:
            return "%s++;" % v
        if k < 0.9:
            return "X = %s;" % v
        return "%s = X;" % v

    n = rng.randint(3, 12)
    for i in range(n):
        if rng.random() < 0.55:
            e_ = explicit()
            if evs is not None:
                evs += e_
        elif straight or rng.random() < 0.7:
            body.append(ordinary())
        else:
            # a branch or a short loop around explicit statements
            k = rng.random()
            inner_start = len(body)
            ev2 = explicit()
            if rng.random() < 0.5:
                ev2 += explicit()
            inner = body[inner_start:]
            del body[inner_start:]
            if k < 0.5:
                body.append("if (%s != %d) { %s }" % (rng.choice(vars_), rng.choice([0, 1, 3]), " ".join(inner)))
            else:
                body.append("for (d = 0; d < %d; d++) { %s }" % (rng.randint(1, 3), " ".join(inner)))
            evs = None
    # a third of the programs put a run of their statements into an inline function (the optimiser then meets
    # the explicit accesses as an expansion inside the caller), sometimes called twice in a row
    if len(body) >= 2 and rng.random() < 0.34:
        i = rng.randrange(0, len(body) - 1); j = rng.randrange(i + 1, len(body) + 1)
        inner = body[i:j]
        src = PRE + "inline void part() {\n  " + "\n  ".join(inner) + "\n}\nvoid main() {\n  " + "\n  ".join(body[:i] + ["part();"] + body[j:]) + "\n}\n"
        return src, (evs if straight else None)
    src = PRE + "void main() {\n  " + "\n  ".join(body) + "\n}\n"
    return src, (evs if straight else None)


def explicit_static(lines):
    out = []
    for l in lines:
        if l[0] == "N":
            out.append("inline " + unhx(l[1]))
        elif l[0] == "I" and l[6]:
            out.append(l[1] + " " + unhx(l[2]))
    return out


def run(chk):
    ok, obligations = prepare(chk, features=(None, "atari2600"))
    if not ok:
        return chk.finish(obligations=obligations, trusted_base=TRUSTED)
    h = Harness(feature="atari2600"); m = Model(); rng = chk.rng
    hp = Harness()
    # ---- csleep table: real compiler vs translated table, n = -3..40 ----
    for n in range(-3, 41):
        src = "void main() { csleep(%d); }\n" % n
        r = h.compile(src, 0)
        ma = m.req("csleep %d" % n)
        chk.case(key=("csleep", n), nontrivial=r["status"] == "ok")
        if r["status"] == "ok":
            real = toks_of_lines(r["funcs"][-1]["generated"]["lines"])
            if ma != "ok " + real:
                chk.tie_broken("csleep(%d): translated table and compiler output differ" % n, {"n": n, "real": real, "model": ma})
            # cycle-exact execution at every level
            for level in (0, 1, 2, 3):
                rr = h.compile(src, level)
                okl, bad = prog.load(m, "c18", rr)
                res = prog.run(m, "c18", fuel=200)
                chk.count("csleep_runs")
                if res["stop"] != "done" or res["cycles"] != n + 6:
                    chk.fail("csleep-cycles", "csleep(%d) at -O%d takes %s cycles (stop=%s)" % (n, level, res.get("cycles", 0) - 6, res["stop"]),
                             {"source": src, "level": level, "result": {k: v for k, v in res.items() if k != "mem"}})
        elif r["status"] == "err":
            if ma != "reject":
                chk.tie_broken("csleep(%d) rejected by the compiler but present in the table" % n, {"n": n})
        else:
            if ma != "reject":
                chk.tie_broken("csleep(%d): compiler %s" % (n, r["status"]), {"n": n})
    chk.coverage["exhaustive_csleep_table"] = True
    # ---- adjacent delays: csleep(n); csleep(m) must take n + m cycles at every level (the optimiser sees the
    #      seam between the two sequences) ----
    for n in range(2, 11):
        for k in range(2, 11):
            src = "void main() { csleep(%d); csleep(%d); }\n" % (n, k)
            for level in (0, 1, 2, 3):
                rr = h.compile(src, level)
                if rr["status"] != "ok":
                    chk.tie_broken("two adjacent csleep statements rejected: %s" % rr["status"], {"source": src}); break
                prog.load(m, "c18", rr)
                res = prog.run(m, "c18", fuel=300)
                chk.count("csleep_pair_runs")
                chk.case(key=("csleep2", n, k, level), nontrivial=True)
                if res["stop"] != "done" or res["cycles"] != n + k + 6:
                    chk.fail("csleep-cycles", "csleep(%d); csleep(%d) at -O%d takes %s cycles instead of %d (stop=%s)" % (n, k, level, res.get("cycles", 0) - 6, n + k, res["stop"]),
                             {"source": src, "level": level, "result": {kk: v for kk, v in res.items() if kk != "mem"}})
                    break
    # ---- optimize: model vs code on random vectors ----
    for it in range(chk.scale(1500, 30000)):
        v = gasm.rand_vector(rng)
        t = toks_of_lines(v)
        r = hp.req("opt " + t); a = m.req("opt " + t)
        chk.case(key=t, nontrivial=r.get("count", 0) > 0)
        chk.count("tie_opt")
        if r.get("status") != "ok" or a != "ok %d %s" % (r["count"], toks_of_lines(r["code"]["lines"])):
            chk.tie_broken("optimize: model and code disagree", {"input": [show_line(l) for l in v], "real": [show_line(l) for l in r.get("code", {}).get("lines", [])], "model": a[:1500]})
        else:
            # the proved invariant, re-checked on the real output
            if explicit_static(r["code"]["lines"]) != explicit_static(v):
                kept = lambda ls: [x for x in explicit_static(ls) if x.split(" ")[0] not in ("CMP", "CPX", "CPY", "LDA", "CLC", "SEC")]
                if kept(r["code"]["lines"]) != kept(v):
                    chk.fail("optimize-drops-explicit-access", "optimize changed the sequence of protected/inline lines",
                             {"input": [show_line(l) for l in v], "output": [show_line(l) for l in r["code"]["lines"]]})
    # ---- programs ----
    corpus = [(c, None) for c in chk.corpus()]
    nprog = chk.scale(250, 4000)
    progs = corpus + [gen_hw_program(rng, straight=rng.random() < 0.5) for _ in range(nprog)]
    hwlo, hwhi = 0, 0x40
    for (src, expected) in progs:
        r0 = h.compile(src, 0)
        if r0["status"] != "ok":
            chk.count("compile_" + r0["status"])
            continue
        chk.case(key=src, nontrivial=True)
        if len(chk.coverage["samples"]) < 5:
            chk.sample({"program": src})
        results = {}
        for level in (0, 1, 2, 3):
            r = r0 if level == 0 else h.compile(src, level)
            if r["status"] != "ok":
                chk.fail("level-dependent-acceptance", "accepted at -O0 but %s at -O%d" % (r["status"], level), {"source": src})
                continue
            f = r["funcs"][-1]
            # (a) static: explicit accesses of the generated vs optimised dump
            if level > 0 and explicit_static(f["generated"]["lines"]) != explicit_static(f["optimized"]["lines"]):
                chk.fail("optimize-reorders-explicit-access", "explicit accesses differ between the -O0 dump and the optimised dump",
                         {"source": src, "level": level, "before": explicit_static(f["generated"]["lines"]), "after": explicit_static(f["optimized"]["lines"])})
            # (b) dynamic
            okl, bad = prog.load(m, "c18", r)
            if not okl:
                chk.count("unloadable"); continue
            m.req("volatile c18 %d %d" % (hwlo, hwhi))
            per = []
            for st in range(chk.scale(3, 12)):
                rs = random.Random(stable_hash(repr((src, st))))
                env, init, ports, regions = prog.layout(r["vars"])
                mem = dict(init)
                for name, (a, nb, v) in regions.items():
                    if v["mem"] == "zp" and v["def"][0] == "none":
                        for i in range(nb):
                            mem[a + i] = rs.choice([0, 1, 3, 255, rs.randrange(256)])
                res = prog.run(m, "c18", mem=mem, a=rs.randrange(256), x=rs.randrange(256), y=rs.randrange(256), fuel=4000)
                per.append((res["stop"], prog.trace_names(m, "c18", res), res))
                chk.count("runs")
            results[level] = per
        if 0 not in results:
            continue
        base = results[0]
        for level, per in results.items():
            for (s0, t0, r0_), (s1, t1, r1_) in zip(base, per):
                if s0 != "done":
                    chk.count("O0_" + s0.split(":")[0]); break
                if level > 0 and (s1 != s0 or t1 != t0):
                    sig = "explicit-trace-differs"
                    if "strobe(" in src and len(t1) < len(t0):
                        sig = "strobe-unprotected"
                    chk.fail(sig, "-O%d executes a different sequence of explicit accesses than -O0" % level,
                             {"source": src, "level": level, "O0": t0, "O%d" % level: t1})
                    break
        # straight-line programs: the -O0 trace against what the source prescribes
        if expected is not None and base and base[0][0] == "done":
            t0 = base[0][1]
            want = []
            for k, v in expected:
                if k in ("rd", "wr"):
                    want.append("%s@%d" % (k, v))
                elif k == "P":
                    want.append(v)
                else:
                    want.append(("S", v))
            # csleep arms contribute their protected instructions and their DUMMY accesses; compare modulo those
            got = [e for e in t0 if not (e in ("NOP ", "PHA ", "PLA ") or e.endswith("@45"))]
            want2 = [w for w in want if not isinstance(w, tuple)]
            norm = lambda e: e.replace("LDA REG", "LDA REG")
            # protected LDA/STA of hardware registers appear twice (as protected line and as volatile access)
            got2 = [e for e in got if not (e.split(" ")[0] in ("LDA", "STA") and any(e.endswith(" " + n) for n, _ in HW))]
            if [g for g in got2 if "@" in g] != [w for w in want2 if "@" in w]:
                sig = "strobe-unprotected" if False else "explicit-access-missing"
                chk.fail(sig, "the hardware accesses executed at -O0 are not the ones the source prescribes",
                         {"source": src, "executed": got2, "prescribed": want2})
            # the explicit register / memory transfers and inline lines, in order, instruction by instruction
            elif [g for g in got2 if "@" not in g] != [w for w in want2 if "@" not in w]:
                chk.fail("explicit-instruction-differs", "the explicit statements executed at -O0 are not the instructions the source prescribes",
                         {"source": src, "executed": got2, "prescribed": want2})
    # ---- load() / store() between ordinary statements and in loops: judged through a twin program in which the
    #      accumulator is a variable (tools/matrix.py `explicit`), at every level; the stack pointer is part of the verdict ----
    import matrix, csemx, gen_c
    for p_ in matrix.all_programs(["explicit"]):
        for level in (0, 1, 2, 3):
            r = hp.compile(p_.text, level)
            if r["status"] != "ok":
                chk.count("explicit_" + r["status"]); break
            chk.case(key=(p_.text, level), nontrivial=True)
            chk.count("explicit_matrix")
            csemx.check_compiled(chk, m, p_.text, p_, r, "c18x", 1, seed=1, level=level, sig_fn=lambda kind: "explicit-statement-" + kind)
    h.close(); hp.close(); m.close()
    return chk.finish(level="proof", obligations=obligations, trusted_base=TRUSTED,
                      checker_cmd="cd /verif/lean && lake build CV.Props.C18 && lake env lean .lake/audit/C18_audit.lean",
                      extra={"rule": "csleep(n) for n in -3..40 at -O0..3 (complete); optimize on random vectors biased to its rules; "
                                     "programs of load/store/strobe/asm/csleep statements on hardware registers mixed with assignments, "
                                     "in branches and loops, 3-12 initial states each; non-trivial = accepted program / vector with a removal"})
