"""C16 — compilation is total: a result or a located error, never a crash.

  proof  : lean/CV/Props/C16.lean (per modelled pass: when the panic / divergence outcomes can occur)
  tie    : outcome classes (ok / structured error / panic / timeout) of the preprocessor model against
           cpp::process on mutated sources (hook H2)
  search : near-valid programs: every token of valid programs deleted, duplicated, replaced or
           retyped; out-of-range literals; division by constant zero; void values used; undeclared and
           prototype-only names; unbalanced directives; self-referential macros; raw bytes — each
           compiled under catch_unwind with a watchdog; the outcome must be output or a structured
           error whose line lies inside the input. Crash sites already recorded in known_findings.json
           are reported as KNOWN-FINDING (matched by panic location), any other as a violation.
"""
import re
from lib import *
import prog, gen_c, gen_cpp, cpptie

TRUSTED = ["Lean 4 kernel; axioms allowed: propext, Classical.choice, Quot.sound",
           "catch_unwind + a watchdog thread in the harness (a stack overflow or abort kills the harness process and is reported as such)",
           "the pest parser, the Pratt driver and the unmodelled generator paths are reached by the mutation search only"]

TOKEN = re.compile(r"[A-Za-z_][A-Za-z0-9_]*|\d+|==|!=|<=|>=|&&|\|\||<<=|>>=|<<|>>|\+\+|--|[-+*/&|^]=|\"(?:[^\"\\]|\\.)*\"|'(?:[^'\\]|\\.)'|\s+|.", re.S)
REPL = ["", ";", "(", ")", "{", "}", "[", "]", "0", "99999999999", "0xFFFFFFFF", "-", "*", "/", "=", "==", "x", "main", "void", "char", "short",
        "signed", "if", "else", "while", "for", "return", "break", "continue", "switch", "case", "default", "goto", "inline", "interrupt",
        "1/0", "1<<40", "65536*65536", "*=", "/=", "%", "?", ":", ",", "\"s\"", "'c'", "'", "\"", "#", "##", "\\", "@", "@0@", "$", "sizeof",
        "superchip", "bank1", "const", "asm(\"x\")", "csleep(3)", "strobe(", "load(", "&", "~", "!", "++", "X", "Y", "a[", "]", "->", "."]
SPECIAL = [
    "x = 99999999999;", "x = 0xFFFFFFFF;", "x = 1/0;", "x = 65536*65536;", "x = 1<<40;", "x *= 2;", "x /= 2;", "x = f();", "x = g(1,2,3,4,5,6,7,8);",
    "x = y;", "f(", "x = (;", "x = 'ab';", "x = '';", "goto nowhere;", "break;", "continue;", "return 1;", "x = -;", "x = &x;", "x = *x;", "x = x[1];",
    "char x;", "x();", "x = sizeof(q);", "x = sizeof(int);", "asm(\"\", 1/0);", "csleep(99);", "csleep(-1);", "strobe(x);", "load();", "switch (x) { case 1: case 1: break; }",
    "switch (x) { }", "for (;;) { break; }", "while (1) { break; }", "do x++; while (0);", "if (x) else;", "x = x ? : 1;", "x = 1 ? 2;", "x = (1, 2);", "short *p; p = 0;"]
DIRECTIVES = ["#if", "#if 1", "#endif", "#else", "#elif 1", "#ifdef", "#ifndef X", "#define", "#define X X+1\nX", "#define F(a) F(a)\nF(1)", "#define 123", "#undef",
              "#undef NOPE", "#include", "#include \"nope.h\"", "#include <x", "#error", "#error boom", "#bogus", "#define A B\n#define B A\nA", "/* open", "*/", "\"open", "x = \"a\\", "\\",
              # function-like macros: parameter lists and calls that do not fit
              "#define F(a,a) a\nchar q = F(1,2);", "#define F() 1\nchar q = F();", "#define F(a) a\nchar q = F(1,2);", "#define F(a,b) a\nchar q = F(1);",
              "#define F(a) a\nchar q = F((1);", "#define F(a) a\nchar q = F(1));", "#define F(a) a\nchar q = F();", "#define F(a) a\nchar q = F;",
              "#define F(a) F(a)+1\nchar q = F(1);", "#define F(a) G(a)\n#define G(a) F(a)\nchar q = F(1);", "#define F(a,b) b a\nchar q = F(F(1,2),3);",
              "#define F(a) #a\nchar q = F(1);", "#define F(a) a##a\nchar q = F(1);", "#define F(a b) a\nchar q = F(1);", "#define F(a,) a\nchar q = F(1);",
              "#define F(,a) a\nchar q = F(1);", "#define F(1) a\nchar q = F(1);", "#define F( a\nchar q = F(1);", "#define F(a) (a\nchar q = F(1);",
              "#define F(a) a)\nchar q = F(1);", "#define F(a) $1\nchar q = F(1);", "#define F(a) ${a}\nchar q = F(1);", "#define F(P) P\nchar q = F(1);",
              "#define F(a) [a\nchar q = F(1);", "#define F(a) a\\\nchar q = F(1);", "#define F(a) a\n#undef F\nchar q = F(1);", "#define F(a) a\n#define F(a,b) b\nchar q = F(1,2);",
              "#define A(x) x\n#define B A(\nchar q = B 1);", "#define F(a) \"a\"\nconst char *q = F(1);", "#define F(a) 'a'\nchar q = F(1);"]


# context-sensitive statements in every statement position (the errors a code generator raises from its own
# context stacks — loops, switches, labels, current function — rather than from the grammar)
CTX_STMTS = ["break;", "continue;", "return;", "return 1;", "return x;", "goto l1;", "goto nowhere;", "l1: x = 1;", "case 1: x = 1;", "default: x = 1;",
             "x = f();", "f();", "h();", "x = h();", "g();", "g(1, 2);", "x = g(1);", "main();", "k();", "asm(\"NOP\");", "csleep(2);", "x++;", ";", "{ }",
             "char z;", "x = X;", "X = x;", "Y++;", "strobe(x);", "x = load(x);"]
CTX_FRAMES = ["%s", "{ %s }", "if (x) %s", "if (x) { %s }", "if (x) %s else y = 1;", "if (x) y = 1; else %s", "if (x) { y = 1; } else { %s }",
              "if (x == 2) %s", "if (x && y) %s", "if (!x) %s", "while (x) %s", "while (x) { if (y) %s }", "while (x) { if (y) %s else x--; }",
              "do %s while (x);", "do { if (y) %s } while (x);", "for (x = 0; x < 3; x++) %s", "for (x = 0; x < 3; x++) { if (y) %s }", "for (;;) %s",
              "switch (x) { case 2: %s }", "switch (x) { case 2: if (y) %s }", "switch (x) { default: %s }", "switch (x) { %s }",
              "while (x) { switch (y) { case 1: %s } }", "do { switch (y) { case 1: %s } } while (x);", "l2: %s", "x = 1; %s x = 2;"]
CTX_FUNCS = ["void main() { %s }", "inline void q() { %s }\nvoid main() { q(); }", "char q() { %s }\nvoid main() { x = q(); }",
             "interrupt void q() { %s }\nvoid main() { }"]


def context_cases():
    out = []
    for st in CTX_STMTS:
        for fr in CTX_FRAMES:
            out.append(("void main() { %s }", fr % st))
    for st in CTX_STMTS:
        for fn in CTX_FUNCS[1:]:
            for fr in CTX_FRAMES[:6]:
                out.append((fn, fr % st))
    return ["unsigned char x, y;\nvoid f();\nvoid g(char a) { }\nvoid h() { x = 1; }\ninline void k() { y = 2; }\n" + (fn % body) + "\n" for fn, body in out]


def mutants(src, rng, n):
    toks = TOKEN.findall(src)
    idx = [i for i, t in enumerate(toks) if not t.isspace()]
    out = []
    for _ in range(n):
        if not idx:
            break
        i = rng.choice(idx)
        k = rng.random()
        t = list(toks)
        if k < 0.25:
            del t[i]
        elif k < 0.4:
            t.insert(i, toks[i])
        elif k < 0.8:
            t[i] = rng.choice(REPL)
        elif k < 0.9:
            j = rng.choice(idx)
            t[i], t[j] = t[j], t[i]
        else:
            t.insert(i, " " + rng.choice(REPL) + " ")
        out.append("".join(t))
    return out


def classify(r, src, nfiles_lines):
    st = r["status"]
    if st == "ok":
        return None
    if st == "err":
        e = r["err"]
        if e["kind"] == "other":
            return None          # Error::Configuration / Unimplemented: structured, no location expected
        f = unhx(e["file"]) if e["file"] else ""
        nl = nfiles_lines.get(f)
        if nl is None:
            return ("error-names-unknown-file", "error names file %r" % f)
        if e["line"] is None or e["line"] < 1 or e["line"] > nl + 1:
            return ("error-line-outside-input", "error line %s outside the %d lines of %s" % (e["line"], nl, f))
        return None
    if st == "panic":
        where = unhx(r.get("where")) or "?"
        where, _, func = where.partition("@")
        where = re.sub(r"^.*/repo/", "", where)
        where = re.sub(r"^.*/registry/src/[^/]+/", "", where)
        where = re.sub(r"^/rustc/[0-9a-f]+/library/", "rust-std/", where)
        fname = where.rsplit(":", 1)[0]
        func = re.sub(r"::\{\{closure\}\}|::h[0-9a-f]{16}$", "", func or "?")
        msg = re.sub(r"\d+", "#", (unhx(r.get("msg")) or "").split("\n")[0])[:60]
        # call site = source file of the panic + innermost library function on the stack + message (no line numbers)
        sig = "panic@%s@%s:%s" % (fname, func, msg)
        # check_branches gives up on ANY branch whose label is missing: the recorded finding is the `continue` inside a
        # `switch` outside a loop — the same site reached by an input without that construct is a different defect
        if "check_branches" in func and "unreachable" in msg and not re.search(r"switch\b[^}]*\bcontinue\b", src, re.S):
            sig += ":no-continue-in-switch"
        return (sig, "panic at %s in %s: %s" % (where, func, (unhx(r.get("msg")) or "").split("\n")[0][:80]))
    if st == "timeout":
        return ("timeout", "compilation does not terminate")
    if st == "abort":
        return ("abort", "the compiler aborted the process (stack overflow / abort), rc=%s" % r.get("rc"))
    return ("garbled", "unexpected harness answer %s" % st)


def run(chk):
    ok, obligations = prepare(chk)
    if not ok:
        return chk.finish(obligations=obligations, trusted_base=TRUSTED)
    h = Harness(timeout_ms=3000); m = Model(); rng = chk.rng
    base = prog.repo_test_inputs()
    gens = [gen_c.program(rng, shorts=rng.random() < 0.4, inline_rate=0.3, gotos=True).text for _ in range(chk.scale(25, 300))]
    cases = []
    for s in chk.corpus():
        cases.append(s)
    for s in SPECIAL:
        cases.append("unsigned char x, y;\nvoid f();\nvoid g(char a) { }\nvoid main() { %s }\n" % s)
        cases.append("unsigned char x;\n%s\nvoid main() { }\n" % s)
    cases += context_cases()
    import idioms
    cases += [idioms.wrap(st) for st in idioms.statements()]      # operand kind x assignment form x right operand
    cases += idioms.signed_programs()                                # signed comparisons / widening, also inside inline functions
    for d in DIRECTIVES:
        cases.append("char a;\n%s\nvoid main() { a = 1; }\n" % d)
        cases.append("%s\n" % d)
    for s in rng.sample(base, min(len(base), chk.scale(40, len(base)))) + gens:
        cases += mutants(s, rng, chk.scale(12, 60))
    for _ in range(chk.scale(100, 2000)):
        t, defs, files = gen_cpp.rand_source(rng, allow_errors=0.15)
        cases.append(t)
    for _ in range(chk.scale(60, 1000)):
        cases.append("".join(chr(rng.choice(list(range(9, 14)) + list(range(32, 127)) + [0, 128, 255])) for _ in range(rng.randint(1, 60))))
    # layout at the end of the file: the last statement on the last line, with and without a final newline
    for tail in ["", "\n", "\n\n", "\n// c\n", " ", "\n}"]:
        for b in ["char x;\nvoid main() { x = 1; }", "char x;\nvoid main() {\n  x = 1; }", "char x;\nvoid f() { x = 2; }\nvoid main() { f(); }"]:
            cases.append(b + tail)
    seen_sigs = {}
    for ci, src in enumerate(cases):
        nlines = {"main.c": src.count("\n") + 1}
        # options are part of the input: a quarter of the cases is also compiled with the source listing on
        variants = [(lv, ()) for lv in ((1,) if chk.quick() else (0, 1))]
        if ci % 4 == 0 or len(src) < 80:
            variants.append((1, ("ic",)))
        for level, flags in variants:
            r = h.compile(src, level, flags=flags)
            chk.count("outcome_" + r["status"])
            c = classify(r, src, nlines)
            chk.case(key=(src, level), nontrivial=r["status"] != "ok")
            if c is None:
                continue
            sig, what = c
            if sig not in seen_sigs:
                seen_sigs[sig] = src
                chk.fail(sig, what, {"source": src, "level": level, "flags": list(flags)})
        # outcome class of the preprocessor alone: model vs code
        # (`$` is not a character of any C token; in a macro body the regex replacement syntax of the real
        #  implementation gives it a meaning the model does not reproduce — outside the modelled domain)
        if rng.random() < 0.3 and "$" not in src:
            try:
                d, rr = cpptie.compare(h, m, src)
            except Exception:
                d = None
            chk.count("tie_cpp")
            if d and not (d[0] == "panic" or d[1] == "diverge" or d[0] == "diverge"):
                chk.tie_broken("preprocessor outcome: model and code disagree", {"source": src, "real": d[0][:300], "model": d[1][:300]})
    chk.stats["distinct_crash_sites_seen"] = len(seen_sigs)
    if len(chk.coverage["samples"]) < 3:
        chk.sample({"mutant": cases[len(cases) // 2][:300]})
        chk.sample({"special": cases[3][:200]})
    h.close(); m.close()
    return chk.finish(level="proof", obligations=obligations, trusted_base=TRUSTED,
                      checker_cmd="cd /verif/lean && lake build CV.Props.C16 && lake env lean .lake/audit/C16_audit.lean",
                      extra={"rule": "hand-written near-valid statements and directives; %d context-sensitive statement x frame x function-kind combinations; " % len(context_cases()) + "token-level mutants (delete / duplicate / replace / swap / insert) of the "
                                     "repository's test inputs and of generated programs; random preprocessor sources with errors; random bytes; "
                                     "non-trivial = the compiler did not accept the input"})
