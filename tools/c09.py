"""C09 — string and character literals are stored byte-exact.

  proof  : lean/CV/Props/C09.lean (decoding = C's escape table, over the table translated from
           compile_quoted_string_ex on this run; stored = decoded ++ NUL; closing-quote scan)
  tie    : T — escape arms regenerated from the source; C — literal extraction of cpp::process vs
           CV.Cpp (hook H2) on lines with several literals, comment-like / directive-like / macro-like
           content, escaped quotes and backslashes; decoding vs CV.Lit
  search : literals in every syntactic position (array initialiser, array-of-pointer table, call
           argument, asm statement, character constant), several per line, next to comments and macros,
           compiled by the real compiler and compared with an independent C decoder.
"""
from lib import *
import cpptie

TRUSTED = ["Lean 4 kernel; axioms allowed: propext, Classical.choice, Quot.sound",
           "specification: C's escape table for the escapes the property names (cEscape in CV/Props/C09.lean, C_ESC in tools/c09.py)",
           "translator tools/xt_lit.py (fails closed)",
           "tie: differential testing of CV.Cpp.scanLine / CV.Lit.decode against cpp::process / compile_quoted_string",
           "bodies in which a backslash-backslash pair is immediately followed by an escaped quote are outside the scanner's look-back (witness theorem) and are not generated"]

C_ESC = {"n": 10, "r": 13, "t": 9, "a": 7, "b": 8, "f": 12, "v": 11, "0": 0, "\\": 92, '"': 34}
PLAIN = list("abcXYZ 019_-+*/=<>()[]{};:,.!?#@%&|^~'") 
TRICKY = ["//", "/*", "*/", "#define X 1", "#if 0", "MAX", "foo", "/* c */", "// c", "@0@", "@", "$x"]


def rand_body(rng, maxlen=12):
    """(C source text of the body, expected bytes). Avoids backslash-backslash followed by an escaped quote."""
    src, codes = [], []
    prev_bsbs = False
    for _ in range(rng.randint(0, maxlen)):
        x = rng.random()
        if x < 0.45:
            c = rng.choice(PLAIN)
            src.append(c); codes.append(ord(c)); prev_bsbs = False
        elif x < 0.75:
            e = rng.choice(list(C_ESC))
            if e == '"' and prev_bsbs:
                e = "n"
            src.append("\\" + e); codes.append(C_ESC[e]); prev_bsbs = (e == "\\")
        else:
            t = rng.choice(TRICKY)
            src.append(t); codes += [ord(c) for c in t]; prev_bsbs = False
    return "".join(src), codes


def arr_values(v):
    return [x[1] for x in v["def"][1]] if v["def"][0] == "array" else None


def run(chk):
    ok, obligations = prepare(chk)
    if not ok:
        return chk.finish(obligations=obligations, trusted_base=TRUSTED)
    h = Harness(); m = Model(); rng = chk.rng
    # ---- every escape of the property, one by one (complete) ----
    for e, code in C_ESC.items():
        body = "x\\" + e + "y"
        src = 'const char s[] = "%s";\nvoid main() {}\n' % body
        r = h.compile(src, 0)
        chk.case(key=("escape", e), nontrivial=True)
        if r["status"] != "ok":
            chk.fail("literal-rejected", "literal with escape \\%s rejected: %s" % (e, r["status"]), {"source": src}); continue
        got = arr_values([v for v in r["vars"] if unhx(v["name"]) == "s"][0])
        if got != [120, code, 121, 0]:
            chk.fail("escape-" + e, "escape \\%s is stored as %s, C says %d" % (e, got[1:2], code), {"source": src, "stored": got, "expected": [120, code, 121, 0]})
        ma = m.req("lit " + hx(body))
        if ma != "ok " + " ".join(str(x) for x in got):
            chk.tie_broken("decode: model and code disagree on \\%s" % e, {"body": body, "real": got, "model": ma})
    # ---- random bodies in every position ----
    n = chk.scale(400, 6000)
    for i in range(n):
        pos = rng.choice(["init", "init2", "ptrs", "call", "asm", "char", "multi", "splice", "call2", "calls", "expr2", "ptrs-mixed", "sized"])
        b1, c1 = rand_body(rng)
        b2, c2 = rand_body(rng)
        deco = rng.choice(["", " // tail \"q", " /* c \" */", ""])
        if pos == "init":
            src = 'const char s[] = "%s";%s\nvoid main() {}\n' % (b1, deco)
            want = {"s": c1 + [0]}
        elif pos == "init2":      # adjacent literals concatenate
            src = 'const char s[] = "%s" "%s";%s\nvoid main() {}\n' % (b1, b2, deco)
            want = {"s": c1 + c2 + [0]}
        elif pos == "ptrs":
            src = 'const char *t[] = {"%s", "%s"};%s\nvoid main() {}\n' % (b1, b2, deco)
            want = {"cctmp0": c1 + [0], "cctmp1": c2 + [0]}
        elif pos == "call":
            src = 'char *p;\nvoid f(char *q) { p = q; }\nvoid main() { f("%s");%s\n}\n' % (b1, deco)
            want = {"cctmp0": c1 + [0]}
        elif pos == "splice":     # a literal continued over a backslash-newline: the blanks that start the next line belong to it
            ws = rng.choice([" ", "    ", "\t", " \t ", ""])
            src = 'const char s[] = "%s\\\n%s%s";%s\nvoid main() {}\n' % (b1, ws, b2, deco)
            want = {"s": c1 + [ord(ch) for ch in ws] + c2 + [0]}
        elif pos == "call2":      # two literals as arguments of one call
            src = 'char *p, *q;\nvoid f(char *a, char *b) { p = a; q = b; }\nvoid main() { f("%s", "%s");%s\n}\n' % (b1, b2, deco)
            want = {"*": [c1 + [0], c2 + [0]]}
        elif pos == "calls":      # literals in several calls of one expression (each call is parsed as a nested expression)
            b3, c3 = rand_body(rng)
            src = 'char *p;\nchar f(char *a) { p = a; return 1; }\nvoid main() { if (f("%s") %s f("%s")) p = "%s";%s\n}\n' % (b1, rng.choice(["&&", "||"]), b2, b3, deco)
            want = {"*": [c1 + [0], c2 + [0], c3 + [0]]}
        elif pos == "expr2":
            src = 'char *p; char x;\nchar f(char *a) { p = a; return 1; }\nvoid main() { x = f("%s") + f("%s");%s\n}\n' % (b1, b2, deco)
            want = {"*": [c1 + [0], c2 + [0]]}
        elif pos == "ptrs-mixed":  # a table of pointers whose entries are literals, names of arrays and numbers, then a later literal
            b3, c3 = rand_body(rng)
            ents = [('"%s"' % b1, c1 + [0]), ('"%s"' % b2, c2 + [0]), ("other", [1, 2]), ("other", [1, 2])]
            rng.shuffle(ents)
            ents = ents[:rng.randint(2, 4)]
            src = ('const char other[2] = {1, 2};\nconst char *t[%d] = {%s};%s\nchar *p;\nvoid main() { p = "%s"; }\n'
                   % (len(ents), ", ".join(e[0] for e in ents), deco, b3))
            want = {"*": [e[1] for e in ents if e[0] != "other"] + [c3 + [0]], "table": ("t", [e[1] for e in ents])}
        elif pos == "sized":       # an explicit bound: the literal is stored whole, with its NUL, whatever the bound says
            n = max(1, len(c1) + rng.choice([-2, -1, 0, 1, 1, 3]))
            src = 'const char s[%d] = "%s";%s\nconst char after[2] = {7, 8};\nvoid main() {}\n' % (n, b1, deco)
            want = {"s": c1 + [0]}
        elif pos == "multi":
            src = '#define MAX 9\nconst char a[] = "%s"; const char b[] = "%s";%s\nvoid main() {}\n' % (b1, b2, deco)
            want = {"a": c1 + [0], "b": c2 + [0]}
        elif pos == "asm":
            txt = "".join(ch for ch in b1 if ch not in '\\"') or "NOP"
            src = 'void main() { asm("%s"); }\n' % txt
            want = {}
        else:
            e = rng.choice(list(C_ESC) + PLAIN)
            if e in C_ESC and rng.random() < 0.6:
                lit, code = "'\\%s'" % e, C_ESC[e]
            else:
                e = rng.choice([p for p in PLAIN if p not in "'\\"])
                lit, code = "'%s'" % e, ord(e)
            src = "const char k = %s;\nvoid main() {}\n" % lit
            want = {"k": code}
        r = h.compile(src, 0)
        chk.case(key=src, nontrivial=len(b1) > 0)
        chk.count("pos_" + pos)
        if i < 3:
            chk.sample({"source": src})
        # extraction tie on the same text
        d, _ = cpptie.compare(h, m, src)
        if d:
            chk.tie_broken("literal extraction: model and code disagree", {"source": src, "real": d[0][:400], "model": d[1][:400]})
        if r["status"] != "ok":
            if pos == "char" and '"' in lit:
                # a character constant containing a double quote ('"' or '\"') is taken for the start of a
                # string by the extraction scan and rejected ("Unterminated string"): a rejection, which C09
                # ("for every literal the compiler accepts") does not forbid; model and code agree on it
                chk.count("char_quote_rejected"); continue
            chk.fail("literal-rejected", "accepted C literal rejected: %s %s" % (r["status"], unhx(r.get("err", {}).get("msg")) if r["status"] == "err" else ""),
                     {"source": src}); continue
        vars_ = {unhx(v["name"]): v for v in r["vars"]}
        if pos == "asm":
            f = r["funcs"][-1]["code"]["lines"]
            got = [unhx(l[1]) for l in f if l[0] == "N"]
            if got != [txt]:
                chk.fail("asm-text-changed", "asm text is %r, written %r" % (got, txt), {"source": src})
            continue
        if "*" in want:
            # every literal of the statement has its own variable: the stored arrays, as a multiset
            got = sorted(arr_values(v) for n_, v in vars_.items() if n_.startswith("cctmp") and n_ != "cctmp" and arr_values(v) is not None)
            if got != sorted(want["*"]):
                chk.fail("literal-lost-in-expression", "the literals of one statement are stored as %s, written %s" % (got, sorted(want["*"])),
                         {"source": src, "stored": got, "expected": sorted(want["*"])})
            elif "table" in want:
                # every entry of the table designates the bytes written at that place
                tv = vars_.get(want["table"][0])
                ents_ = [arr_values(vars_[unhx(e[0])]) if unhx(e[0]) in vars_ else None for e in tv["def"][1]] if tv and tv["def"][0] == "ptrs" else None
                if ents_ != want["table"][1]:
                    chk.fail("pointer-table-entry", "the entries of the pointer table designate %s, written %s" % (ents_, want["table"][1]),
                             {"source": src, "designated": ents_, "expected": want["table"][1]})
            continue
        for name, codes in want.items():
            v = vars_.get(name)
            if v is None:
                chk.fail("literal-missing", "no variable %s for the literal" % name, {"source": src}); break
            if pos == "char":
                got = v["def"][1][1] if v["def"][0] == "value" else None
                if got != codes:
                    chk.fail("char-constant", "character constant denotes %s, C says %s" % (got, codes), {"source": src})
                continue
            got = arr_values(v)
            if got != codes:
                chk.fail("literal-bytes", "literal %s stored as %s, C says %s" % (name, got, codes), {"source": src, "stored": got, "expected": codes})
                break
            if v["size"] != len(codes):
                sig = "literal-size-in-pointer-table" if pos == "ptrs" else "literal-size"
                chk.fail(sig, "literal %s has size %d but %d bytes" % (name, v["size"], len(codes)), {"source": src, "size": v["size"], "bytes": len(codes)})
                break
        # decode tie
        if pos in ("init", "ptrs", "call", "multi") and "*" not in want:
            ma = m.req("lit " + hx(b1))
            v = vars_.get(list(want)[0])
            if v is not None and arr_values(v) is not None and ma != "ok " + " ".join(str(x) for x in arr_values(v)):
                chk.tie_broken("decode: model and code disagree", {"body": b1, "real": arr_values(v), "model": ma})
    h.close(); m.close()
    return chk.finish(level="proof", obligations=obligations, trusted_base=TRUSTED,
                      checker_cmd="cd /verif/lean && lake build CV.Props.C09 && lake env lean .lake/audit/C09_audit.lean",
                      extra={"rule": "every escape of the property once (complete); random bodies (plain characters, all escapes, text that looks like "
                                     "comments/directives/macros/markers) in initialisers, adjacent literals, array-of-pointer tables, call arguments, asm "
                                     "statements and character constants, followed by comments; non-trivial = non-empty body"})
