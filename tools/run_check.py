import sys, os, importlib, traceback
sys.path.insert(0, os.path.dirname(os.path.abspath(__file__)))
import lib

def main():
    pid = sys.argv[1]
    tier = sys.argv[2] if len(sys.argv) > 2 else "quick"
    mod = importlib.import_module(pid.lower())
    chk = lib.Check(pid, tier)
    try:
        rc = mod.run(chk)
    except Exception:
        # a crash of the machinery is not a verdict on the code: report loudly, exit 2
        traceback.print_exc()
        sys.exit(2)
    sys.exit(rc)

main()
