"""Deterministic idiom matrices: small test blocks built from catalogues of operands, updates, tests and
contexts, packed many to a program. Every block sets its own operands, so the outcome does not depend on the
initial state, and writes its verdict into its own cell of the array `r` — a wrong block is visible as one
wrong cell. The programs are ordinary gen_c Programs (AST + text): they run through the same oracles as the
random programs (CV.CSem for C01, -O0 against -O1..3 for C02, rewriting rules for C15, marked against
unmarked inline functions for C14).

Why: a random generator meets a narrow combination (16-bit `--` directly followed by a zero test with a
low byte of 0; a comparison of two equal constants inside `?:`; a `<=` loop whose body is longer than a
branch can reach) with small probability per run; the matrix meets each of them in every run.

Constructs with a recorded finding are left out (ordered comparison with literal 0, signed operands, 16-bit
`<=`/`>` with borrow, an element subscripted by a register compared with a register, Y together with a
memory subscript).
"""
import gen_c

NUM = lambda n: ('num', n)
VAR = lambda n: ('var', n)
R = lambda k: ('idx', 'r', NUM(k))
SET = lambda lv, e: ('expr', ('asg', lv, e))


def verdict(k, cond):
    return ('if', cond, SET(R(k), NUM(1)), SET(R(k), NUM(2)))


class Pack:
    """collects test blocks into programs of at most `cap` result cells"""

    def __init__(self, name, cap=24, shorts=True, placement="", pointers=0, signed=False):
        self.name = name; self.cap = cap; self.shorts = shorts; self.placement = placement; self.pointers = pointers
        self.signed = signed
        self.programs = []; self.blocks = []; self.k = 0; self.funcs = []; self.weight = 0

    def cell(self):
        k = self.k; self.k += 1
        return k

    def add(self, stmts, weight=1):
        if self.k >= self.cap or self.weight + weight > 40:
            self.flush()
        self.blocks.append(stmts); self.weight += weight

    def flush(self):
        if not self.blocks:
            return
        p = gen_c.Program()
        q = self.placement
        for n in ("v0", "v1", "v2", "v3"):
            p.decls.append(("unsigned char", n, None, q))
        if self.shorts:
            for n in ("s0", "s1") + (("s2", "s3") if self.shorts == "four" else ()):
                p.decls.append(("unsigned short", n, None, q))
            if self.shorts == "four":
                p.decls.append(("unsigned short", "w0", 4, q))
        p.decls.append(("unsigned char", "a0", 4, q))
        p.decls.append(("unsigned char", "a1", 4, q))
        for i in range(self.pointers):
            p.decls.append(("unsigned char *", "p%d" % i, None, q))
        if self.signed:
            p.decls += [("signed char", "g0", None, q), ("signed char", "g1", None, q), ("signed char", "h0", 4, q), ("short", "z0", None, q)]
        p.decls.append(("unsigned char", "r", max(self.cap, 2), "ramchip"))
        for f in self.funcs:
            p.funcs.append(f)
        body = []
        for b in self.blocks:
            body += b
        p.funcs.append(("void", "main", [], body, False))
        p.render()
        p.matrix = self.name
        self.programs.append(p)
        self.blocks = []; self.k = 0; self.weight = 0


# ----------------------------------------------------------------------------------------------- F1

LV8 = [VAR('v0'), VAR('X'), VAR('Y'), ('idx', 'a0', VAR('X')), ('idx', 'a0', VAR('Y')), ('idx', 'a0', NUM(1))]
LV16 = [VAR('s0')]
INIT8 = [0, 1, 2, 128, 255]
INIT16 = [0, 1, 255, 256, 257, 512, 65535]


def updates(lv):
    one = NUM(1)
    return [("post--", ('expr', ('post', '--', lv))), ("pre--", ('expr', ('pre', '--', lv))),
            ("post++", ('expr', ('post', '++', lv))), ("pre++", ('expr', ('pre', '++', lv))),
            ("-=1", ('expr', ('opasg', '-', lv, one))), ("+=1", ('expr', ('opasg', '+', lv, one))),
            ("=lv-1", SET(lv, ('bin', '-', lv, one))), ("=lv+1", SET(lv, ('bin', '+', lv, one))),
            ("none", None)]


def zero_tests(lv):
    z = NUM(0)
    return [("if(lv)", lv), ("if(!lv)", ('not', lv)), ("lv==0", ('cmp', '==', lv, z)), ("lv!=0", ('cmp', '!=', lv, z)),
            ("0==lv", ('cmp', '==', z, lv)), ("lv&&v1", ('land', lv, VAR('v1'))), ("v1||lv", ('lor', VAR('v1'), lv))]


def update_then_test():
    """lv = init; update; zero test — nothing in between (the test may rely on the flags the update left)"""
    pk = Pack("update-then-test")
    for lv, inits in [(l, INIT8) for l in LV8] + [(l, INIT16) for l in LV16]:
        pre = []
        if lv[0] == 'idx' and lv[2][0] == 'var':
            pre = [SET(lv[2], NUM(2))]          # the index register inside the array
        for init in inits:
            for un, u in updates(lv):
                for tn, t in zero_tests(lv):
                    k = pk.cell()
                    blk = pre + [SET(VAR('v1'), NUM(0) if "||" in tn else NUM(1)), SET(lv, NUM(init))] + ([u] if u else []) + [verdict(k, t)]
                    pk.add(blk)
    pk.flush()
    return pk.programs


def update_then_loop():
    """counting loops whose condition is the zero test of the variable the body / the update decrements"""
    pk = Pack("update-then-loop", cap=12)
    for lv, inits in [(VAR('v0'), [1, 3]), (VAR('X'), [2]), (VAR('s0'), [1, 3, 256, 257, 260]), (('idx', 'a0', NUM(1)), [2])]:
        for init in inits:
            dec = ('expr', ('post', '--', lv))
            k = pk.cell(); inc = ('expr', ('post', '++', R(k)))
            pk.add([SET(R(k), NUM(0)), SET(lv, NUM(init)), ('while', lv, ('block', [inc, dec]))], weight=2 + init // 60)
            k = pk.cell(); inc = ('expr', ('post', '++', R(k)))
            pk.add([SET(R(k), NUM(0)), SET(lv, NUM(init)), ('dowhile', ('block', [inc, dec]), lv)], weight=2 + init // 60)
            k = pk.cell(); inc = ('expr', ('post', '++', R(k)))
            pk.add([SET(R(k), NUM(0)), ('for', ('asg', lv, NUM(init)), lv, ('post', '--', lv), ('block', [inc]))], weight=2 + init // 60)
            k = pk.cell(); inc = ('expr', ('post', '++', R(k)))
            pk.add([SET(R(k), NUM(0)), SET(lv, NUM(init)), ('dowhile', ('block', [inc]), ('pre', '--', lv))], weight=2 + init // 60)
            k = pk.cell(); inc = ('expr', ('post', '++', R(k)))
            pk.add([SET(R(k), NUM(0)), ('for', ('asg', lv, NUM(init)), ('cmp', '!=', lv, NUM(0)), ('opasg', '-', lv, NUM(1)), ('block', [inc]))], weight=2 + init // 60)
    pk.flush()
    return pk.programs


# ----------------------------------------------------------------------------------------------- F2

OPS = ['==', '!=', '<', '>=', '>', '<=']


def operand_pairs():
    """(name, setup statements, left, right) with the two operands holding (a, b)"""
    out = []
    for (a, b) in [(3, 7), (7, 7), (9, 7), (200, 100), (100, 200), (255, 255), (1, 255)]:
        A, B = NUM(a), NUM(b)
        v0, v1, X, Y = VAR('v0'), VAR('v1'), VAR('X'), VAR('Y')
        e0, e1 = ('idx', 'a0', NUM(1)), ('idx', 'a1', X)
        out += [("v,v", [SET(v0, A), SET(v1, B)], v0, v1), ("v,c", [SET(v0, A)], v0, B), ("c,v", [SET(v1, B)], A, v1),
                ("c,c", [], A, B), ("X,v", [SET(X, A), SET(v1, B)], X, v1), ("v,Y", [SET(v0, A), SET(Y, B)], v0, Y),
                ("X,c", [SET(X, A)], X, B), ("c,Y", [SET(Y, B)], A, Y),
                ("e,v", [SET(e0, A), SET(v1, B)], e0, v1), ("v,eX", [SET(X, NUM(2)), SET(v0, A), SET(e1, B)], v0, e1),
                ("eX,c", [SET(X, NUM(2)), SET(e1, A)], e1, B), ("X,e", [SET(X, A), SET(e0, B)], X, e0)]
    for (a, b) in [(300, 300), (300, 299), (299, 300), (256, 255), (255, 256), (1, 256), (512, 2), (65535, 65535)]:
        A, B = NUM(a), NUM(b)
        s0, s1 = VAR('s0'), VAR('s1')
        out += [("s,s", [SET(s0, A), SET(s1, B)], s0, s1), ("s,c", [SET(s0, A)], s0, B)]
    return out


def contexts(k, c, v2):
    """the comparison `c` in every position a condition can take; the verdict goes to r[k]"""
    one, two = NUM(1), NUM(2)
    yes, no = SET(R(k), one), SET(R(k), two)
    return [("if-else", [('if', c, yes, no)]),
            ("if", [no, ('if', c, yes, None)]),
            ("ternary", [SET(R(k), ('tern', c, one, two))]),
            ("not", [('if', ('not', c), no, yes)]),
            ("and-left", [SET(v2, one), ('if', ('land', c, v2), yes, no)]),
            ("and-right", [SET(v2, one), ('if', ('land', v2, c), yes, no)]),
            ("or-left", [SET(v2, NUM(0)), ('if', ('lor', c, v2), yes, no)]),
            ("or-right", [SET(v2, NUM(0)), ('if', ('lor', v2, c), yes, no)]),
            ("while-once", [no, SET(v2, one), ('while', ('land', v2, c), ('block', [yes, SET(v2, NUM(0))]))]),
            ("do-while", [SET(R(k), NUM(0)), SET(v2, NUM(0)),
                          ('dowhile', ('block', [('expr', ('post', '++', R(k))), ('expr', ('post', '++', v2))]), ('land', ('cmp', '<', v2, NUM(3)), c))]),
            ("value", [SET(R(k), c)])]


def value_contexts(k, c, v2):
    """a comparison as a value (the positions in which two constants are folded by the generator)"""
    one, two = NUM(1), NUM(2)
    return [("ternary", [SET(R(k), ('tern', c, one, two))]),
            ("value", [SET(R(k), c)]),
            ("value-not", [SET(R(k), ('not', c))]),
            ("value-and-left", [SET(v2, one), SET(R(k), ('land', c, v2))]),
            ("value-or-left", [SET(v2, NUM(0)), SET(R(k), ('lor', c, v2))]),
            ("ternary-and", [SET(v2, one), SET(R(k), ('tern', ('land', c, v2), one, two))]),
            ("X-ternary", [SET(VAR('X'), ('tern', c, one, two)), SET(R(k), VAR('X'))])]


def folded_comparisons():
    """two constants: folded at compile time. One block per program: the generator rejects some positions
    ("Condition statement is partially implemented"), which must not hide the others"""
    progs = []
    v2 = VAR('v2')
    for (a, b) in [(3, 7), (7, 7), (9, 7), (0, 0), (255, 255), (0, 1)]:
        for op in OPS:
            c = ('cmp', op, NUM(a), NUM(b))
            for cname, stmts in value_contexts(0, c, v2):
                pk = Pack("folded-" + cname, cap=2, shorts=False)
                pk.cell()
                pk.add(stmts)
                pk.flush()
                progs += pk.programs
    return progs


def comparisons():
    pk = Pack("comparisons")
    v2 = VAR('v2')
    for name, setup, l, r in operand_pairs():
        if name == "c,c":
            continue
        for op in OPS:
            # recorded findings: ordered comparison with literal 0 is not generated here (no zero operands);
            # 16-bit <= / > is decided from the difference (borrow): leave the borrowing pairs out
            if name.startswith("s") and op in ('<=', '>') and l[0] == 'var':
                continue
            c = ('cmp', op, l, r)
            k0 = None
            for cname, stmts in contexts(0, c, v2):
                k = pk.cell()
                stmts = dict(contexts(k, c, v2))[cname]
                pk.add(setup + stmts)
    pk.flush()
    return pk.programs


# ----------------------------------------------------------------------------------------------- F3

def far_branches():
    """the same conditions with a body longer than a relative branch reaches (the branch is rewritten by
    check_branches): equal operands, and one above / below"""
    progs = []
    for form in ("if", "if-else", "while", "do-while", "for"):
        pk = Pack("far-" + form, cap=40, shorts=False)
        for op in OPS:
            for (a, b) in [(4, 4), (3, 4), (5, 4)]:
                k = pk.cell()
                pad = [('expr', ('post', '++', R(k)))] * 46          # 46 x `INC abs` = 138 bytes
                v0, v1 = VAR('v0'), VAR('v1')
                c = ('cmp', op, v0, v1)
                setup = [SET(R(k), NUM(0)), SET(v0, NUM(a)), SET(v1, NUM(b))]
                stop = SET(v1, v0) if op in ('!=', '<', '>') else SET(v1, ('bin', '+', v0, NUM(1))) if op in ('==', '<=') else SET(v1, ('bin', '+', v0, NUM(1)))
                # loops run their body at most twice: the body makes the condition false where it can
                if form == "if":
                    blk = setup + [('if', c, ('block', pad), None)]
                elif form == "if-else":
                    blk = setup + [('if', c, ('block', pad), ('block', [SET(R(k), NUM(200))]))]
                elif form == "while":
                    blk = setup + [SET(VAR('v2'), NUM(0)), ('while', ('land', ('cmp', '<', VAR('v2'), NUM(2)), c), ('block', pad + [('expr', ('post', '++', VAR('v2')))]))]
                elif form == "do-while":
                    blk = setup + [SET(VAR('v2'), NUM(0)), ('dowhile', ('block', pad + [('expr', ('post', '++', VAR('v2')))]), ('land', ('cmp', '<', VAR('v2'), NUM(2)), c))]
                else:
                    blk = setup + [('for', ('asg', VAR('v2'), NUM(0)), ('land', ('cmp', '<', VAR('v2'), NUM(2)), c), ('post', '++', VAR('v2')), ('block', pad))]
                pk.add(blk, weight=8)
        # the counting loop whose own comparison is the far branch: for (v0 = 0; v0 <= 3; v0++) body
        for op, lim in (('<=', 3), ('<', 3), ('!=', 3)):
            k = pk.cell()
            pad = [('expr', ('post', '++', R(k)))] * 46
            if form == "for":
                pk.add([SET(R(k), NUM(0)), ('for', ('asg', VAR('v0'), NUM(0)), ('cmp', op, VAR('v0'), NUM(lim)), ('post', '++', VAR('v0')), ('block', pad))], weight=12)
            elif form == "do-while":
                pk.add([SET(R(k), NUM(0)), SET(VAR('v0'), NUM(0)), ('dowhile', ('block', pad + [('expr', ('post', '++', VAR('v0')))]), ('cmp', op, VAR('v0'), NUM(lim)))], weight=12)
            elif form == "while":
                pk.add([SET(R(k), NUM(0)), SET(VAR('v0'), NUM(0)), ('while', ('cmp', op, VAR('v0'), NUM(lim)), ('block', pad + [('expr', ('post', '++', VAR('v0')))]))], weight=12)
        pk.flush()
        progs += pk.programs
    return progs


# ----------------------------------------------------------------------------------------------- F4

def switches():
    pk = Pack("switch", cap=24, shorts=False)
    v0 = VAR('v0')
    sels = [("var", [], v0), ("X", [], VAR('X')), ("and", [], ('bin', '&', v0, NUM(7))), ("plus", [], ('bin', '+', v0, NUM(1))),
            ("el", [], ('idx', 'a0', NUM(1))), ("shift", [], ('bin', '>>', v0, NUM(1)))]
    shapes = [[[1], [0]], [[0], [1]], [[2, 1], [0]], [[3], [2, 0]], [[5], [1], [0]], [[0, 5], [1]]]
    for sn, setup, sel in sels:
        for shape in shapes:
            for val in (0, 1, 2, 5, 6):
                k = pk.cell()
                cases = [(vals, [SET(R(k), NUM(10 + i)), ('break',)]) for i, vals in enumerate(shape)]
                init = {"var": [SET(v0, NUM(val))], "X": [SET(VAR('X'), NUM(val))], "and": [SET(v0, NUM(val + 8))], "plus": [SET(v0, NUM((val - 1) % 256))],
                        "el": [SET(('idx', 'a0', NUM(1)), NUM(val))], "shift": [SET(v0, NUM(val * 2 + 1))]}[sn]
                pk.add([SET(R(k), NUM(0))] + init + [('switch', sel, cases, [SET(R(k), NUM(99))])])
    # a switch inside loops: `break` leaves the switch, `continue` goes to the update of the loop AROUND the switch —
    # the innermost one when loops are nested (for / while / do-while as inner and as outer loop)
    v1, v2, v3 = VAR('v1'), VAR('v2'), VAR('v3')
    def loop(kind, var, n, body):
        if kind == "for":
            return [('for', ('asg', var, NUM(0)), ('cmp', '<', var, NUM(n)), ('post', '++', var), ('block', body))]
        if kind == "while":
            return [SET(var, NUM(0)), ('while', ('cmp', '<', var, NUM(n)), ('block', [('expr', ('post', '++', var))] + body))]
        return [SET(var, NUM(0)), ('dowhile', ('block', [('expr', ('post', '++', var))] + body), ('cmp', '<', var, NUM(n)))]
    for outer in ("for", "while", None):
        for inner in ("for", "while"):
            for skip in (0, 1, 2):
                k = pk.cell(); k2 = pk.cell()
                body = [('switch', v2, [([skip], [('continue',)]), ([7], [('break',)])], [('expr', ('post', '++', R(k2)))]),
                        ('expr', ('post', '++', R(k)))]
                prog = loop(inner, v2, 3, body)
                if outer:
                    prog = loop(outer, v1, 2, prog)
                pk.add([SET(R(k), NUM(0)), SET(R(k2), NUM(0))] + prog, weight=6)
    pk.flush()
    return pk.programs


# ----------------------------------------------------------------------------------------------- F4b

def restore():
    """the same constant stored twice, a statement in between that changes the flags but not the accumulator, and a
    truth test of the second variable on the next source line: whether the second `LDA #k` may go depends on what
    follows it (with --insert_code a listing comment follows)"""
    pk = Pack("restore", cap=24, shorts=False)
    v0, v1, v2, X, Y = VAR('v0'), VAR('v1'), VAR('v2'), VAR('X'), VAR('Y')
    disturb = [('expr', ('post', '--', v1)), ('expr', ('post', '++', v1)), SET(X, NUM(1)), SET(Y, NUM(0)), ('expr', ('post', '++', X)),
               ('expr', ('post', '--', Y)), SET(X, v1), ('expr', ('pre', '++', ('idx', 'a0', NUM(1))))]
    for kval in (0, 1, 255):
        for start in (0, 1, 5):
            for d in disturb:
                for test in ("if", "ifnot", "tern", "while"):
                    k = pk.cell()
                    t = {"if": [('if', v2, SET(R(k), NUM(1)), SET(R(k), NUM(2)))],
                         "ifnot": [('if', ('not', v2), SET(R(k), NUM(1)), SET(R(k), NUM(2)))],
                         "tern": [SET(R(k), ('tern', v2, NUM(1), NUM(2)))],
                         "while": [SET(R(k), NUM(0)), ('while', v2, ('block', [SET(v2, NUM(0)), SET(R(k), NUM(7))]))]}[test]
                    pk.add([SET(v1, NUM(start)), SET(X, NUM(start)), SET(Y, NUM(start)), SET(v0, NUM(kval)), d, SET(v2, NUM(kval))] + t)
    pk.flush()
    return pk.programs


# ----------------------------------------------------------------------------------------------- F5

def triples():
    """every ordered triple of simple statements moving values between one variable, two others, X, Y and A:
    what the peephole optimiser remembers about the registers across stores, loads and transfers"""
    v0, v1, v2, X, Y = VAR('v0'), VAR('v1'), VAR('v2'), VAR('X'), VAR('Y')
    S = [SET(v0, X), SET(v0, Y), SET(v0, v1), SET(v1, v0), SET(v2, v0), SET(v0, NUM(5)), SET(X, v0), SET(Y, v0),
         SET(v0, ('bin', '+', v0, NUM(1))), SET(v1, ('bin', '+', v0, v2)), ('expr', ('post', '++', v0)),
         ('if', v0, SET(v1, NUM(1)), None)]
    pk = Pack("triples", cap=40, shorts=False)
    for a in S:
        for b in S:
            for c in S:
                k = pk.cell(); k1 = pk.cell(); k2 = pk.cell(); k3 = pk.cell(); k4 = pk.cell()
                pk.add([SET(v0, NUM(1)), SET(v1, NUM(2)), SET(v2, NUM(3)), SET(X, NUM(4)), SET(Y, NUM(6)), a, b, c,
                        SET(R(k), v0), SET(R(k1), v1), SET(R(k2), v2), SET(R(k3), X), SET(R(k4), Y)], weight=1)
    pk.flush()
    return pk.programs


# ----------------------------------------------------------------------------------------------- F6

def precedence():
    """two different binary operators in a row, both ways of grouping them, written with the fewest parentheses C
    needs: the parser's precedence table decides what the text means"""
    pk = Pack("precedence", cap=24, shorts=False)
    v0, v1, v2 = VAR('v0'), VAR('v1'), VAR('v2')
    ops = ['+', '-', '&', '|', '^']
    for (a, b, c) in [(1, 1, 1), (6, 3, 5), (9, 12, 10)]:
        setup = [SET(v0, NUM(a)), SET(v1, NUM(b)), SET(v2, NUM(c))]
        for o1 in ops + ['<<', '>>']:
            for o2 in ops:
                if o1 == o2:
                    continue
                if o1 in ('<<', '>>'):
                    # the shift count is a literal
                    trees = [('bin', o2, ('bin', o1, v0, NUM(1)), v2), ('bin', o1, ('bin', o2, v0, v2), NUM(1)),
                             ('bin', o2, v2, ('bin', o1, v0, NUM(1)))]
                else:
                    trees = [('bin', o2, ('bin', o1, v0, v1), v2), ('bin', o1, v0, ('bin', o2, v1, v2))]
                for t in trees:
                    k = pk.cell()
                    pk.add(setup + [SET(R(k), t)])
        # comparisons against the bitwise and additive operators (== binds tighter than &, looser than +)
        for t in [('bin', '&', v0, ('cmp', '==', v1, v2)), ('cmp', '==', ('bin', '&', v0, v1), v2),
                  ('cmp', '<', ('bin', '+', v0, v1), v2), ('bin', '|', ('cmp', '<', v0, v1), v2),
                  ('cmp', '!=', v0, ('bin', '^', v1, v2)), ('bin', '^', ('cmp', '!=', v0, v1), v2),
                  ('land', ('cmp', '==', v0, v1), ('bin', '|', v1, v2)), ('lor', ('bin', '&', v0, v2), ('cmp', '>', v1, v2))]:
            k = pk.cell()
            pk.add(setup + [SET(R(k), t)])
    pk.flush()
    return pk.programs


def loop_headers():
    """side effects inside the header of a `for`: they happen once, before the first test"""
    pk = Pack("loop-headers", cap=12, shorts=False)
    v0, v1 = VAR('v0'), VAR('v1')
    for init in [('asg', v0, ('post', '++', v1)), ('asg', v0, ('post', '--', v1)), ('asg', v0, ('pre', '++', v1)),
                 ('asg', VAR('X'), ('post', '++', v1)), ('asg', v0, ('bin', '+', ('post', '++', v1), NUM(1)))]:
        for start in (3, 6, 9):
            k = pk.cell(); k1 = pk.cell()
            lv = init[1]
            pk.add([SET(R(k), NUM(0)), SET(v1, NUM(start)),
                    ('for', init, ('cmp', '<', lv, NUM(6)), ('post', '++', lv), ('block', [('expr', ('post', '++', R(k)))])),
                    SET(R(k1), v1)], weight=3)
    pk.flush()
    return pk.programs


# ----------------------------------------------------------------------------------------------- F7

def wide():
    """16-bit destinations: every unary / binary operator and compound assignment over 16-bit variables, constants,
    8-bit variables and elements of 16-bit arrays, on values that carry or borrow between the bytes. One block per
    program (the generator rejects some shapes as too complex; a rejection must not hide the others). The two bytes
    of the result go to r[0], r[1] through the forms `r[0] = s; r[1] = s >> 8;`.
    Left out (recorded findings): shifts by 1..7 written `s = t << n`, ordered comparisons `<=` `>`."""
    progs = []
    s0, s1, s2, v1, v2, X, Y = VAR('s0'), VAR('s1'), VAR('s2'), VAR('v1'), VAR('v2'), VAR('X'), VAR('Y')
    wX, wY, w1 = ('idx', 'w0', X), ('idx', 'w0', Y), ('idx', 'w0', NUM(1))

    def emit(name, stmts, res=s0):
        pk = Pack("wide-" + name, cap=2, shorts="four")
        pk.cell(); pk.cell()
        pk.add(stmts + [SET(R(0), res), SET(R(1), ('bin', '>>', res, NUM(8)))])
        pk.flush()
        progs.extend(pk.programs)

    pairs = [(0x00ff, 0x0001), (0x1234, 0x0fff), (0xff00, 0x0100), (0x0000, 0x0001), (0x8000, 0x8001)]
    for (a, b) in pairs:
        A, B = NUM(a), NUM(b)
        lo = NUM(b & 0xff)
        # operand shapes for a binary operator: (name, setup, left, right)
        shapes = [("s,s", [SET(s1, A), SET(s2, B)], s1, s2), ("s,c", [SET(s1, A)], s1, B), ("c,s", [SET(s2, B)], A, s2),
                  ("s,v", [SET(s1, A), SET(v1, lo)], s1, v1), ("v,s", [SET(v1, lo), SET(s1, A)], v1, s1),
                  ("v,v", [SET(v1, NUM(a & 0xff)), SET(v2, lo)], v1, v2),
                  ("wX,s", [SET(X, NUM(2)), SET(wX, A), SET(s2, B)], wX, s2), ("s,wY", [SET(Y, NUM(3)), SET(s1, A), SET(wY, B)], s1, wY),
                  ("w1,c", [SET(w1, A)], w1, B)]
        for op in ['+', '-', '&', '|', '^']:
            for nm, setup, l, r in shapes:
                emit("bin" + op + nm, setup + [SET(s0, ('bin', op, l, r))])
            # compound assignment on every kind of 16-bit destination
            for nm, setup, dst in [("s", [SET(s0, A)], s0), ("wX", [SET(X, NUM(1)), SET(wX, A)], wX),
                                   ("wY", [SET(Y, NUM(2)), SET(wY, A)], wY), ("w1", [SET(w1, A)], w1)]:
                for rn, rsetup, r in [("s", [SET(s2, B)], s2), ("c", [], B), ("v", [SET(v1, lo)], v1)]:
                    emit("opasg" + op + nm + "," + rn, setup + rsetup + [('expr', ('opasg', op, dst, r))], res=dst)
        for un in ('neg', 'bnot'):
            emit(un + "s", [SET(s1, A), SET(s0, (un, s1))])
            emit(un + "wX", [SET(X, NUM(2)), SET(wX, A), SET(s0, (un, wX))])
            emit(un + "sum", [SET(s1, A), SET(s2, B), SET(s0, (un, ('bin', '+', s1, s2)))])
            emit(un + "v", [SET(v1, lo), SET(s0, (un, v1))])
            emit(un + "in", [SET(s1, A), SET(s2, B), SET(s0, ('bin', '&', s2, (un, s1)))])
        # moves between widths and array elements
        emit("mov-s", [SET(s1, A), SET(s0, s1)])
        emit("mov-v", [SET(v1, lo), SET(s0, v1)])
        emit("mov-wX", [SET(X, NUM(2)), SET(s1, A), SET(wX, s1)], res=wX)
        emit("mov-from-wY", [SET(Y, NUM(1)), SET(wY, A), SET(s0, wY)])
        emit("mov-w1", [SET(w1, A), SET(s0, w1)])
        emit("shift8l", [SET(s1, A), SET(s0, ('bin', '<<', s1, NUM(8)))])
        emit("shift8r", [SET(s1, A), SET(s0, ('bin', '>>', s1, NUM(8)))])
        emit("tern", [SET(v1, NUM(1)), SET(s1, A), SET(s2, B), SET(s0, ('tern', v1, s1, s2))])
        emit("tern0", [SET(v1, NUM(0)), SET(s1, A), SET(s2, B), SET(s0, ('tern', v1, s1, s2))])
        # truth values and conditional values in a 16-bit destination, alone and inside an addition
        for sel in (0, 1):
            base = [SET(v1, NUM(sel)), SET(v2, NUM(3)), SET(s1, A), SET(s2, B)]
            emit("tern-c%d" % sel, base + [SET(s0, ('tern', v1, NUM(1), NUM(2)))])
            emit("tern-wide-c%d" % sel, base + [SET(s0, ('tern', v1, NUM(300), NUM(2)))])
            emit("tern-mixed%d" % sel, base + [SET(s0, ('tern', v1, s1, NUM(7)))])
            emit("tern-v%d" % sel, base + [SET(s0, ('tern', v1, v2, s2))])
            emit("tern-plus%d" % sel, base + [SET(s0, ('bin', '+', ('tern', v1, s1, s2), NUM(1)))])
            emit("plus-tern%d" % sel, base + [SET(s0, ('bin', '+', s1, ('tern', v1, NUM(1), NUM(2))))])
            emit("plus-tern-cmp%d" % sel, base + [SET(s0, ('bin', '+', s1, ('tern', ('cmp', '==', v1, NUM(1)), NUM(1), NUM(2))))])
            emit("tern-cmp%d" % sel, base + [SET(s0, ('tern', ('cmp', '==', v1, NUM(1)), s1, s2))])
            emit("truth-eq%d" % sel, base + [SET(s0, ('cmp', '==', v1, NUM(1)))])
            emit("truth-ne%d" % sel, base + [SET(s0, ('cmp', '!=', s1, s2))])
            emit("truth-not%d" % sel, base + [SET(s0, ('not', v1))])
            emit("truth-and%d" % sel, base + [SET(s0, ('land', v1, v2))])
            emit("truth-or%d" % sel, base + [SET(s0, ('lor', v1, ('cmp', '==', v2, NUM(0))))])
            emit("plus-truth%d" % sel, base + [SET(s0, ('bin', '+', s1, ('cmp', '==', v1, NUM(1))))])
            emit("wX-tern%d" % sel, base + [SET(X, NUM(1)), SET(wX, ('tern', v1, s1, s2))], res=wX)
        # 16-bit comparisons (== != < >=; `<=` and `>` are a recorded finding) in a branch, as a value, in a loop
        for cop in ('==', '!=', '<', '>='):
            for nm, setup2, l, r in [("s,s", [SET(s1, A), SET(s2, B)], s1, s2), ("s,s=", [SET(s1, A), SET(s2, A)], s1, s2),
                                     ("s,c", [SET(s1, A)], s1, B), ("s,c=", [SET(s1, A)], s1, A), ("c,s", [SET(s2, B)], A, s2),
                                     ("s,v", [SET(s1, A), SET(v1, lo)], s1, v1), ("wX,s", [SET(X, NUM(1)), SET(wX, A), SET(s2, B)], wX, s2)]:
                c = ('cmp', cop, l, r)
                emit("cmp%s%s-if" % (cop, nm), setup2 + [SET(s0, NUM(0)), ('if', c, SET(s0, NUM(1)), SET(s0, NUM(2)))])
                emit("cmp%s%s-val" % (cop, nm), setup2 + [SET(s0, c)])
                emit("cmp%s%s-and" % (cop, nm), setup2 + [SET(v2, NUM(1)), SET(s0, NUM(0)), ('if', ('land', v2, c), SET(s0, NUM(1)), SET(s0, NUM(2)))])
        # compound shifts (in place: ASL / ROL); on an element indexed by Y or a literal: recorded finding
        for sh in ('<<', '>>'):
            for n in (1, 3, 7):
                emit("cshift%s%d-s" % (sh, n), [SET(s0, A), ('expr', ('opasg', sh, s0, NUM(n)))])
                emit("cshift%s%d-wX" % (sh, n), [SET(X, NUM(2)), SET(wX, A), ('expr', ('opasg', sh, wX, NUM(n)))], res=wX)
            emit("cshift%s1-wY" % sh, [SET(Y, NUM(2)), SET(wY, A), ('expr', ('opasg', sh, wY, NUM(1)))], res=wY)
            emit("cshift%s1-w1" % sh, [SET(w1, A), ('expr', ('opasg', sh, w1, NUM(1)))], res=w1)
        emit("truth-s", [SET(s1, A), SET(s0, NUM(0)), ('if', s1, SET(s0, NUM(1)), SET(s0, NUM(2)))])
        emit("nottruth-s", [SET(s1, A), SET(s0, NUM(0)), ('if', ('not', s1), SET(s0, NUM(1)), SET(s0, NUM(2)))])
        emit("count-s", [SET(s1, NUM(a & 0x0103)), SET(s0, NUM(0)), ('while', ('cmp', '!=', s1, NUM(0)), ('block', [('expr', ('post', '--', s1)), ('expr', ('post', '++', s0))]))])
        for upd in ('++', '--'):
            for nm, setup, dst in [("s", [SET(s0, A)], s0), ("wX", [SET(X, NUM(1)), SET(wX, A)], wX), ("wY", [SET(Y, NUM(2)), SET(wY, A)], wY), ("w1", [SET(w1, A)], w1)]:
                emit("post" + upd + nm, setup + [('expr', ('post', upd, dst))], res=dst)
                emit("pre" + upd + nm, setup + [('expr', ('pre', upd, dst))], res=dst)
    return progs


# ----------------------------------------------------------------------------------------------- F8

def nested():
    """a binary operator one of whose operands is itself a computation (shift, negation, complement, truth value,
    conditional, embedded assignment, increment, array element): the generator has to keep the accumulator alive
    (PHA / cctmp spills). One block per program (many shapes are rejected as too complex)."""
    progs = []
    v0, v1, v2, v3, X, Y = VAR('v0'), VAR('v1'), VAR('v2'), VAR('v3'), VAR('X'), VAR('Y')
    eX = ('idx', 'a0', X)

    def emit(name, stmts, watch=()):
        pk = Pack("nested-" + name, cap=max(2, 1 + len(watch)), shorts=False)
        pk.cell()
        extra = []
        for w in watch:
            k = pk.cell(); extra.append(SET(R(k), w))
        pk.add(stmts + extra)
        pk.flush()
        progs.extend(pk.programs)

    subs = [("shr", ('bin', '>>', v2, NUM(1)), ()), ("shl", ('bin', '<<', v2, NUM(2)), ()), ("neg", ('neg', v2), ()),
            ("bnot", ('bnot', v2), ()), ("not", ('not', v2), ()), ("eq", ('cmp', '==', v2, v3), ()), ("lt", ('cmp', '<', v2, v3), ()),
            ("tern", ('tern', v3, v2, NUM(9)), ()), ("asg", ('asg', v3, v2), (v3,)), ("asgX", ('asg', X, v2), (X,)),
            ("asgY", ('asg', Y, NUM(5)), (Y,)), ("post", ('post', '++', v2), (v2,)), ("pre", ('pre', '--', v2), (v2,)),
            ("postX", ('post', '++', X), (X,)), ("elem", eX, ()), ("sum", ('bin', '+', ('bin', '&', v2, NUM(3)), NUM(1)), ()),
            ("and", ('land', v2, v3), ()), ("opasg", ('opasg', '+', v3, v2), (v3,)),
            ("asgXsum", ('asg', X, ('bin', '+', v2, NUM(2))), (X,)), ("asgYsum", ('asg', Y, ('bin', '-', v2, NUM(2))), (Y,)),
            ("asgXel", ('asg', X, eX), (X,)), ("asgXY", ('asg', X, Y), (X,)), ("asgYX", ('asg', Y, X), (Y,)),
            ("asgelX", ('asg', eX, X), (eX,)), ("asgelsum", ('asg', eX, ('bin', '^', v2, NUM(1))), (eX,)),
            ("asgvsum", ('asg', v3, ('bin', '+', v2, v3)), (v3,)), ("shr8", ('bin', '>>', v2, NUM(8)), ()),
            ("elY", ('idx', 'a1', Y), ()), ("ternsum", ('tern', v3, ('bin', '+', v2, NUM(1)), ('bin', '-', v2, NUM(1))), ())]
    for (a, b, c) in [(5, 6, 3), (200, 130, 0), (0, 255, 255)]:
        setup = [SET(v1, NUM(a)), SET(v2, NUM(b)), SET(v3, NUM(c)), SET(X, NUM(2)), SET(eX, NUM(77)), SET(Y, NUM(1))]
        for op in ['+', '-', '&', '|', '^']:
            for nm, sub, watch in subs:
                emit("%s-r-%s" % (op, nm), setup + [SET(R(0), ('bin', op, v1, sub))], watch)
                emit("%s-l-%s" % (op, nm), setup + [SET(R(0), ('bin', op, sub, v1))], watch)
        # the left operand already in the accumulator when the right one is computed
        for op in ['+', '-', '&']:
            for nm, sub, watch in subs:
                emit("%s-acc-%s" % (op, nm), setup + [SET(R(0), ('bin', op, ('bin', '+', v1, NUM(1)), sub))], watch)
        # a computation on both sides, and as a subscript / comparison operand
        for nm, sub, watch in subs[:8]:
            emit("both-" + nm, setup + [SET(R(0), ('bin', '+', sub, ('bin', '>>', v1, NUM(1))))], watch)
            emit("cmp-" + nm, setup + [verdict(0, ('cmp', '==', sub, v1))], watch)
            emit("cmpr-" + nm, setup + [verdict(0, ('cmp', '<', v1, sub))], watch)
            emit("toX-" + nm, setup + [SET(X, sub), SET(R(0), X)], watch)
            emit("toY-" + nm, setup + [SET(Y, ('bin', '+', v1, sub)), SET(R(0), Y)], watch)
    return progs


# ----------------------------------------------------------------------------------------------- F9

def calls():
    """calls that take arguments and return values, in every position of an expression. CV.CSem has no parameters:
    each program carries a twin (`oracle`) in which the call is written out — argument to a temporary, body, result
    in a temporary — and the twin's meaning is what the program must compute."""
    import copy
    progs = []
    v1, v2, v3, X, Y, t0, t1 = VAR('v1'), VAR('v2'), VAR('v3'), VAR('X'), VAR('Y'), VAR('v0'), VAR('a1[0]') if False else ('idx', 'a1', NUM(0))
    uc = "unsigned char"
    # (name, params, body of the real function, expansion: args -> (statements, result expression))
    FUNCS = {
        "inc3": ([(uc, "p")], [('return', ('bin', '+', VAR('p'), NUM(3)))],
                 lambda a, t: ([SET(t, ('bin', '+', a[0], NUM(3)))], t)),
        "twice": ([(uc, "p")], [('return', ('bin', '<<', VAR('p'), NUM(1)))],
                  lambda a, t: ([SET(t, ('bin', '<<', a[0], NUM(1)))], t)),
        "pick": ([(uc, "p"), (uc, "q")], [('if', VAR('p'), ('return', VAR('q')), None), ('return', NUM(7))],
                 lambda a, t: ([('if', a[0], SET(t, a[1]), SET(t, NUM(7)))], t)),
        "getx": ([], [('return', X)], lambda a, t: ([SET(t, X)], t)),
        "bump": ([], [('expr', ('post', '++', v3)), ('return', v3)], lambda a, t: ([('expr', ('post', '++', v3)), SET(t, v3)], t)),
        "diff": ([(uc, "p"), (uc, "q")], [('return', ('bin', '-', VAR('p'), VAR('q')))],
                 lambda a, t: ([SET(t, ('bin', '-', a[0], a[1]))], t)),
    }

    def emit(name, used, real_stmts, twin_stmts):
        def build(stmts, with_funcs):
            pk = Pack("calls-" + name, cap=2, shorts=False)
            if with_funcs:
                for f in used:
                    pk.funcs.append((uc, f, FUNCS[f][0], FUNCS[f][1], False))
            pk.cell(); pk.cell()
            pk.add(stmts)
            pk.flush()
            return pk.programs[0]
        clear = [SET(t0, NUM(0)), SET(t1, NUM(0))]          # the temporaries of the twin are not part of the verdict
        a = build(real_stmts + clear, True)
        a.oracle = build(twin_stmts + clear, False)
        progs.append(a)

    def C(f, *args):
        return ('call', f, list(args))

    for (a, b, c) in [(5, 6, 3), (200, 130, 0), (0, 255, 1)]:
        setup = [SET(v1, NUM(a)), SET(v2, NUM(b)), SET(v3, NUM(c)), SET(X, NUM(2)), SET(Y, NUM(1))]
        one = [("inc3", [v2]), ("twice", [v2]), ("pick", [v1, v2]), ("getx", []), ("bump", []), ("diff", [v2, v1]),
               ("inc3", [('bin', '+', v2, NUM(1))]), ("pick", [('cmp', '==', v1, NUM(5)), ('bin', '&', v2, NUM(15))]), ("inc3", [X])]
        for f, args in one:
            ex, res = FUNCS[f][2](args, t0)
            tag = f + str(len(progs))
            call = C(f, *args)
            # the call alone, as right / left operand, behind a computed left operand, in a condition, as a subscript,
            # into a register, as an argument of another call
            emit(tag + "-plain", [f], setup + [SET(R(0), call)], setup + ex + [SET(R(0), res)])
            for op in ['+', '-', '&']:
                emit(tag + "-r" + op, [f], setup + [SET(R(0), ('bin', op, v1, call))], setup + ex + [SET(R(0), ('bin', op, v1, res))])
                emit(tag + "-l" + op, [f], setup + [SET(R(0), ('bin', op, call, v1))], setup + ex + [SET(R(0), ('bin', op, res, v1))])
            emit(tag + "-acc", [f], setup + [SET(R(0), ('bin', '+', ('bin', '+', v1, NUM(1)), call))],
                 setup + ex + [SET(R(0), ('bin', '+', ('bin', '+', v1, NUM(1)), res))])
            emit(tag + "-cond", [f], setup + [verdict(0, ('cmp', '==', call, NUM(9)))], setup + ex + [verdict(0, ('cmp', '==', res, NUM(9)))])
            emit(tag + "-condr", [f], setup + [verdict(0, ('cmp', '<', v1, call))], setup + ex + [verdict(0, ('cmp', '<', v1, res))])
            emit(tag + "-truth", [f], setup + [verdict(0, call)], setup + ex + [verdict(0, res)])
            emit(tag + "-toX", [f], setup + [SET(X, call), SET(R(0), X)], setup + ex + [SET(X, res), SET(R(0), X)])
            emit(tag + "-toY", [f], setup + [SET(Y, call), SET(R(0), Y)], setup + ex + [SET(Y, res), SET(R(0), Y)])
            emit(tag + "-sub", [f], setup + [SET(('idx', 'a0', NUM(1)), NUM(44)), SET(R(0), ('idx', 'a0', ('bin', '&', call, NUM(1))))],
                 setup + ex + [SET(('idx', 'a0', NUM(1)), NUM(44)), SET(R(0), ('idx', 'a0', ('bin', '&', res, NUM(1))))])
            ex2, res2 = FUNCS["inc3"][2]([res], t1)
            emit(tag + "-arg", sorted(set([f, "inc3"])), setup + [SET(R(0), C("inc3", call))], setup + ex + ex2 + [SET(R(0), res2)])
            emit(tag + "-opasg", [f], setup + [SET(R(0), NUM(100)), ('expr', ('opasg', '+', R(0), call))],
                 setup + ex + [SET(R(0), NUM(100)), ('expr', ('opasg', '+', R(0), res))])
            # two calls in one expression (recorded finding two-calls-in-one-expression: the first result is lost)
            ex3, res3 = FUNCS["twice"][2]([v1], t1)
            emit(tag + "-two", sorted(set([f, "twice"])), setup + [SET(R(0), ('bin', '-', call, C("twice", v1)))],
                 setup + ex + ex3 + [SET(R(0), ('bin', '-', res, res3))])
    return progs


# ----------------------------------------------------------------------------------------------- F10

def pointers():
    """a pointer into an array: set, moved, dereferenced, subscripted by a literal / Y, written through, walked in a
    loop. The twin uses the array directly (the generator knows where the pointer points)."""
    progs = []
    v0, v1, v2, X, Y = VAR('v0'), VAR('v1'), VAR('v2'), VAR('X'), VAR('Y')
    p0, p1 = VAR('p0'), VAR('p1')
    A0 = lambda k: ('idx', 'a0', NUM(k))
    A1 = lambda k: ('idx', 'a1', NUM(k))

    def emit(name, real, twin):
        def build(stmts, ptrs):
            pk = Pack("pointers-" + name, cap=3, shorts=False, pointers=2 if ptrs else 0)
            pk.cell(); pk.cell(); pk.cell()
            pk.add(stmts)
            pk.flush()
            return pk.programs[0]
        a = build(real, True)
        a.oracle = build(twin, False)
        progs.append(a)

    def deref(p):
        return ('deref', p)

    for yv in (0, 1, 2):
        setup = [SET(A0(i), NUM(10 * (i + 1))) for i in range(4)] + [SET(A1(0), NUM(5)), SET(A1(1), NUM(6)), SET(A1(2), NUM(0)), SET(A1(3), NUM(8))] + \
                [SET(v1, NUM(77)), SET(Y, NUM(yv)), SET(X, NUM(1))]
        P = [SET(p0, VAR('a0'))]
        emit("deref", setup + P + [SET(R(0), deref(p0))], setup + [SET(R(0), A0(0))])
        emit("sub-k", setup + P + [SET(R(0), ('idx', 'p0', NUM(2)))], setup + [SET(R(0), A0(2))])
        emit("sub-Y", setup + P + [SET(R(0), ('idx', 'p0', Y))], setup + [SET(R(0), A0(yv))])
        emit("inc", setup + [SET(p0, VAR('a1')), ('expr', ('post', '++', p0)), SET(R(0), deref(p0))], setup + [SET(R(0), A1(1))])
        emit("preinc", setup + [SET(p0, VAR('a1')), ('expr', ('pre', '++', p0)), SET(R(0), ('idx', 'p0', Y))], setup + [SET(R(0), A1(1 + yv))])
        emit("add", setup + P + [('expr', ('opasg', '+', p0, NUM(1))), SET(R(0), ('idx', 'p0', Y))], setup + [SET(R(0), A0(1 + yv))])
        emit("dec", setup + P + [('expr', ('opasg', '+', p0, NUM(3))), ('expr', ('post', '--', p0)), SET(R(0), deref(p0))], setup + [SET(R(0), A0(2))])
        emit("store", setup + P + [SET(deref(p0), NUM(99)), SET(R(0), A0(0))], setup + [SET(A0(0), NUM(99)), SET(R(0), A0(0))])
        emit("store-Y", setup + P + [SET(('idx', 'p0', Y), v1), SET(R(0), A0(yv))], setup + [SET(A0(yv), v1), SET(R(0), A0(yv))])
        emit("store-k", setup + P + [SET(('idx', 'p0', NUM(3)), ('bin', '+', v1, NUM(1))), SET(R(0), A0(3))], setup + [SET(A0(3), ('bin', '+', v1, NUM(1))), SET(R(0), A0(3))])
        emit("sum", setup + P + [SET(R(0), ('bin', '+', deref(p0), ('idx', 'p0', NUM(1))))], setup + [SET(R(0), ('bin', '+', A0(0), A0(1)))])
        emit("sumY", setup + P + [SET(R(0), ('bin', '-', ('idx', 'p0', Y), v1))], setup + [SET(R(0), ('bin', '-', A0(yv), v1))])
        emit("rmw", setup + P + [('expr', ('post', '++', ('idx', 'p0', Y))), ('expr', ('opasg', '+', ('idx', 'p0', NUM(1)), NUM(3)))],
             setup + [('expr', ('post', '++', A0(yv))), ('expr', ('opasg', '+', A0(1), NUM(3)))])
        emit("cond-deref", setup + P + [verdict(0, ('cmp', '==', deref(p0), NUM(10)))], setup + [verdict(0, ('cmp', '==', A0(0), NUM(10)))])
        emit("cond-truth", setup + P + [verdict(1, ('idx', 'p0', Y))], setup + [verdict(1, A0(yv))])
        emit("cond-lt", setup + P + [verdict(2, ('cmp', '<', ('idx', 'p0', Y), v1)), verdict(0, ('cmp', '!=', v1, ('idx', 'p0', Y)))],
             setup + [verdict(2, ('cmp', '<', A0(yv), v1)), verdict(0, ('cmp', '!=', v1, A0(yv)))])
        emit("copy", setup + P + [SET(p1, VAR('a1')), SET(('idx', 'p1', Y), ('idx', 'p0', Y)), SET(R(0), A1(yv))],
             setup + [SET(A1(yv), A0(yv)), SET(R(0), A1(yv))])
        emit("walk", setup + [SET(R(0), NUM(0)), SET(p0, VAR('a1')), ('while', deref(p0), ('block', [('expr', ('post', '++', p0)), ('expr', ('post', '++', R(0)))])), SET(v0, NUM(0))],
             setup + [SET(R(0), NUM(0)), SET(v0, NUM(0)), ('while', ('idx', 'a1', v0), ('block', [('expr', ('post', '++', v0)), ('expr', ('post', '++', R(0)))])), SET(v0, NUM(0))])
        emit("toX", setup + P + [SET(X, ('idx', 'p0', Y)), SET(R(0), X)], setup + [SET(X, A0(yv)), SET(R(0), X)])
        emit("postinc-deref", setup + P + [SET(R(0), deref(('post', '++', p0))), SET(R(1), deref(p0))], setup + [SET(R(0), A0(0)), SET(R(1), A0(1))])
    return progs


# ----------------------------------------------------------------------------------------------- F11

def scopes():
    """local variables, parameters and shadowing: the twin uses globals with fresh names (CV.CSem has globals only)"""
    progs = []
    v1, v2, v3, X = VAR('v1'), VAR('v2'), VAR('v3'), VAR('X')
    uc = "unsigned char"
    T = [VAR('v0'), ('idx', 'a1', NUM(0)), ('idx', 'a1', NUM(1)), ('idx', 'a1', NUM(2))]     # the twin's fresh cells

    def emit(name, real, twin, funcs=()):
        def build(stmts, with_funcs):
            pk = Pack("scopes-" + name, cap=4, shorts=False)
            if with_funcs:
                for f in funcs:
                    pk.funcs.append(f)
            for _ in range(4):
                pk.cell()
            pk.add(stmts + [SET(t, NUM(0)) for t in T])
            pk.flush()
            return pk.programs[0]
        a = build(real, True)
        a.oracle = build(twin, False)
        progs.append(a)

    decl = lambda n, init=None: ('raw', "%s %s%s;" % (uc, n, " = %s" % init if init is not None else ""))
    x, y = VAR('x'), VAR('y')
    for (a, b) in [(5, 6), (200, 130)]:
        setup = [SET(v1, NUM(a)), SET(v2, NUM(b)), SET(v3, NUM(1)), SET(X, NUM(2))]
        emit("local", setup + [('block', [decl('x'), SET(x, ('bin', '+', v1, NUM(1))), SET(R(0), x)])],
             setup + [SET(T[0], ('bin', '+', v1, NUM(1))), SET(R(0), T[0])])
        emit("local-init", setup + [('block', [decl('x', 7), SET(R(0), ('bin', '+', x, v2))])],
             setup + [SET(T[0], NUM(7)), SET(R(0), ('bin', '+', T[0], v2))])
        emit("shadow-global", setup + [('block', [decl('v1'), SET(v1, NUM(9)), SET(R(0), v1)]), SET(R(1), v1)],
             setup + [SET(T[0], NUM(9)), SET(R(0), T[0]), SET(R(1), v1)])
        emit("siblings", setup + [('block', [decl('x'), SET(x, NUM(1)), SET(R(0), x)]), ('block', [decl('x'), SET(x, v2), SET(R(1), x)]),
                                  ('block', [decl('x'), decl('y'), SET(y, NUM(4)), SET(x, ('bin', '+', y, v1)), SET(R(2), x)])],
             setup + [SET(T[0], NUM(1)), SET(R(0), T[0]), SET(T[1], v2), SET(R(1), T[1]), SET(T[3], NUM(4)), SET(T[2], ('bin', '+', T[3], v1)), SET(R(2), T[2])])
        emit("nested-shadow", setup + [('block', [decl('x'), SET(x, NUM(1)), ('block', [decl('x'), SET(x, NUM(2)), SET(R(0), x)]), SET(R(1), x)])],
             setup + [SET(T[0], NUM(1)), SET(T[1], NUM(2)), SET(R(0), T[1]), SET(R(1), T[0])])
        emit("in-branches", setup + [('if', v3, ('block', [decl('x'), SET(x, NUM(3)), SET(R(0), x)]), ('block', [decl('x'), SET(x, NUM(4)), SET(R(0), x)])),
                                     ('while', v3, ('block', [decl('x'), SET(x, v3), SET(v3, NUM(0)), SET(R(1), x)]))],
             setup + [('if', v3, ('block', [SET(T[0], NUM(3)), SET(R(0), T[0])]), ('block', [SET(T[1], NUM(4)), SET(R(0), T[1])])),
                      ('while', v3, ('block', [SET(T[2], v3), SET(v3, NUM(0)), SET(R(1), T[2])]))])
        # initialisers of locals go through a parser table of their own (parse_expr_init_value): every prefix / postfix
        # operator and a few operators in an initialiser, against the written-out twin
        post = [SET(R(0), x), SET(R(1), v1), SET(R(2), v2)]
        postT = [SET(R(0), T[0]), SET(R(1), v1), SET(R(2), v2)]
        for nm, text, tw in [
                ("predec", "--v1", [('expr', ('pre', '--', v1)), SET(T[0], v1)]),
                ("postdec", "v1--", [SET(T[0], v1), ('expr', ('post', '--', v1))]),
                ("preinc", "++v1", [('expr', ('pre', '++', v1)), SET(T[0], v1)]),
                ("postinc", "v1++", [SET(T[0], v1), ('expr', ('post', '++', v1))]),
                ("neg", "-v1", [SET(T[0], ('neg', v1))]),
                ("bnot", "~v1", [SET(T[0], ('bnot', v1))]),
                ("sum-predec", "v1 + --v2", [('expr', ('pre', '--', v2)), SET(T[0], ('bin', '+', v1, v2))]),
                ("sum-postinc", "v1 + v2++", [SET(T[0], ('bin', '+', v1, v2)), ('expr', ('post', '++', v2))]),
                ("mask-shift", "(v1 & 3) << 1", [SET(T[0], ('bin', '<<', ('bin', '&', v1, NUM(3)), NUM(1)))]),
                ("sub", "v1 - v2", [SET(T[0], ('bin', '-', v1, v2))]),
                ("or-xor", "v1 | v2 ^ 1", [SET(T[0], ('bin', '|', v1, ('bin', '^', v2, NUM(1))))]),
                ("element", "a0[X]", [SET(T[0], ('idx', 'a0', X))]),
                ("tern", "v3 ? v1 : v2", [SET(T[0], ('tern', v3, v1, v2))])]:
            emit("init-" + nm, setup + [SET(('idx', 'a0', NUM(2)), NUM(77)), ('block', [decl('x', text)] + post)],
                 setup + [SET(('idx', 'a0', NUM(2)), NUM(77))] + tw + postT)
        # a parameter named like a global, a local named like a parameter's caller variable
        f1 = ("void", "store", [(uc, "v1"), (uc, "k")], [('raw', uc + " x;"), SET(x, ('bin', '+', v1, VAR('k'))), SET(R(0), x)], False)
        emit("param-shadows-global", setup + [('expr', ('call', 'store', [v2, NUM(3)])), SET(R(1), v1)],
             setup + [SET(T[0], v2), SET(T[1], NUM(3)), SET(T[2], ('bin', '+', T[0], T[1])), SET(R(0), T[2]), SET(R(1), v1)], funcs=[f1])
        f2 = ("void", "twice", [(uc, "k")], [('expr', ('opasg', '+', VAR('k'), VAR('k'))), SET(R(0), VAR('k'))], False)
        emit("param-modified", setup + [('expr', ('call', 'twice', [v1])), SET(R(1), v1)],
             setup + [SET(T[0], v1), ('expr', ('opasg', '+', T[0], T[0])), SET(R(0), T[0]), SET(R(1), v1)], funcs=[f2])
        f3 = ("void", "inner", [(uc, "k")], [('raw', uc + " x;"), SET(x, ('bin', '+', VAR('k'), NUM(1))), SET(R(0), x)], False)
        f4 = ("void", "outer", [(uc, "k")], [('raw', uc + " x;"), SET(x, VAR('k')), ('expr', ('call', 'inner', [('bin', '+', x, NUM(1))])), SET(R(1), x), SET(R(2), VAR('k'))], False)
        emit("two-frames", setup + [('expr', ('call', 'outer', [v1]))],
             setup + [SET(T[0], v1), SET(T[1], T[0]), SET(T[2], ('bin', '+', T[1], NUM(1))), SET(T[3], ('bin', '+', T[2], NUM(1))), SET(R(0), T[3]), SET(R(1), T[1]), SET(R(2), T[0])],
             funcs=[f3, f4])
    return progs


# ----------------------------------------------------------------------------------------------- F12

def signed_values():
    """signed char operands widened to 16 bits (sign extension), negated, shifted, compared for equality; from scalars
    and from array elements subscripted by a literal, X, Y (the neighbouring elements have the other sign).
    Ordered comparisons of signed operands are a recorded finding and are left out."""
    progs = []
    s0, s1, v1, X, Y = VAR('s0'), VAR('s1'), VAR('v1'), VAR('X'), VAR('Y')
    g0, g1, z0 = VAR('g0'), VAR('g1'), VAR('z0')
    H = lambda i: ('idx', 'h0', i)

    def emit(name, stmts, res=s0):
        pk = Pack("signed-" + name, cap=2, shorts=True, signed=True)
        pk.cell(); pk.cell()
        pk.add(stmts + [SET(R(0), res), SET(R(1), ('bin', '>>', res, NUM(8)))])
        pk.flush()
        progs.extend(pk.programs)

    for val in (5, 253, 128, 127, 255, 0):
        other = 5 if val >= 128 else 250
        setup = [SET(g0, NUM(val)), SET(g1, NUM(other)), SET(s1, NUM(1000)), SET(X, NUM(2)), SET(Y, NUM(3)),
                 SET(H(NUM(0)), NUM(other)), SET(H(NUM(1)), NUM(other)), SET(H(NUM(2)), NUM(val)), SET(H(NUM(3)), NUM(val))]
        srcs = [("g", g0), ("hk", H(NUM(2))), ("hX", H(X)), ("hY", H(Y)), ("h3", H(NUM(3)))]
        for nm, src in srcs:
            emit("widen-" + nm, setup + [SET(s0, src)])
            emit("widen-z-" + nm, setup + [SET(z0, src), SET(s0, z0)])
            emit("add-" + nm, setup + [SET(s0, ('bin', '+', s1, src))])
            emit("radd-" + nm, setup + [SET(s0, ('bin', '+', src, s1))])
            emit("sub-" + nm, setup + [SET(s0, ('bin', '-', s1, src))])
            emit("opasg-" + nm, setup + [SET(s0, NUM(1000)), ('expr', ('opasg', '+', s0, src))])
            emit("neg-" + nm, setup + [SET(s0, ('neg', src))])
            emit("sum8-" + nm, setup + [SET(s0, ('bin', '+', src, g1))])
            cst = NUM(val) if val < 128 else ('neg', NUM(256 - val))
            emit("eq-" + nm, setup + [SET(s0, NUM(0)), ('if', ('cmp', '==', src, cst), SET(s0, NUM(1)), SET(s0, NUM(2)))])
            emit("ne-" + nm, setup + [SET(s0, NUM(0)), ('if', ('cmp', '!=', cst, src), SET(s0, NUM(1)), SET(s0, NUM(2)))])
            emit("shr-" + nm, setup + [SET(g1, ('bin', '>>', src, NUM(1))), SET(s0, g1)])
            emit("tern-" + nm, setup + [SET(s0, ('tern', v1, src, s1))])
    return progs


# ----------------------------------------------------------------------------------------------- F13

def explicit():
    """load(e) / store(v) between ordinary statements: what the generator believes about the accumulator and the
    flags around them. The twin spells `load(e); …; store(v);` as `t = e; …; v = t;` (CV.CSem has no accumulator)."""
    progs = []
    v1, v2, v3, X, Y, t0 = VAR('v1'), VAR('v2'), VAR('v3'), VAR('X'), VAR('Y'), VAR('v0')

    def emit(name, real, twin):
        def build(stmts):
            pk = Pack("explicit-" + name, cap=3, shorts=False)
            pk.cell(); pk.cell(); pk.cell()
            pk.add(stmts + [SET(t0, NUM(0))])
            pk.flush()
            return pk.programs[0]
        a = build(real)
        a.oracle = build(twin)
        progs.append(a)

    raw = lambda t: ('raw', t)
    for val in (0, 5, 200):
        setup = [SET(v2, NUM(val)), SET(v3, NUM(2)), SET(X, NUM(3)), SET(Y, NUM(1)), SET(v1, NUM(9))]
        loads = [("k", "load(%d);" % val, NUM(val)), ("v", "load(v2);", v2), ("sum", "load(v2 + 1);", ('bin', '+', v2, NUM(1))),
                 ("X", "load(X);", X), ("and", "load(v2 & 4);", ('bin', '&', v2, NUM(4)))]
        disturbs = [("none", []), ("Y0", [SET(Y, NUM(0))]), ("Y1", [SET(Y, NUM(1))]), ("incX", [('expr', ('post', '++', X))]),
                    ("dec", [('expr', ('post', '--', v3))]), ("decY", [('expr', ('post', '--', Y))])]
        for ln, lt, le in loads:
            for dn, d in disturbs:
                # the stored value tested right behind the store; the disturbed register tested right behind the load
                emit("%s-%s-store-test" % (ln, dn), setup + [raw(lt)] + d + [raw("store(v1);"), verdict(0, v1)],
                     setup + [SET(t0, le)] + d + [SET(v1, t0), verdict(0, v1)])
                if d:
                    reg = d[0][1][2] if d[0][0] == 'expr' and d[0][1][0] == 'post' else d[0][1][1]
                    emit("%s-%s-reg-test" % (ln, dn), setup + d + [raw(lt), raw("store(v1);"), verdict(0, reg)],
                         setup + d + [SET(t0, le), SET(v1, t0), verdict(0, reg)])
            # in the body of loops whose test follows the explicit statement
            emit("%s-dowhile" % ln, setup + [('dowhile', ('block', [raw(lt), raw("store(v1);"), ('expr', ('post', '--', v3))]), v3)],
                 setup + [('dowhile', ('block', [SET(t0, le), SET(v1, t0), ('expr', ('post', '--', v3))]), v3)])
            emit("%s-for" % ln, setup + [('for', ('asg', v3, NUM(0)), ('cmp', '<', v3, NUM(2)), ('post', '++', v3), ('block', [raw(lt), raw("store(v1);")]))],
                 setup + [('for', ('asg', v3, NUM(0)), ('cmp', '<', v3, NUM(2)), ('post', '++', v3), ('block', [SET(t0, le), SET(v1, t0)]))])
    return progs


# ----------------------------------------------------------------------------------------------- all


def signedness():
    """unsigned intermediate results of 128 and more (a conditional value, a literal, a shift result, a sum, a
    complement) where the generator must NOT treat them as signed: ordered comparisons (carry, not sign), zero extension
    into 16 bits, alone and as the right operand of an addition whose left operand occupies the accumulator."""
    progs = []
    s0, s1, v1, v2, v3 = VAR('s0'), VAR('s1'), VAR('v1'), VAR('v2'), VAR('v3')

    def emit8(name, stmts):
        pk = Pack("sgn-" + name, cap=2)
        k = pk.cell()
        pk.add(stmts(R(k)))
        pk.flush()
        progs.extend(pk.programs)

    def emit16(name, stmts):
        pk = Pack("sgn-" + name, cap=2, shorts="four")
        pk.cell(); pk.cell()
        pk.add(stmts + [SET(R(0), s0), SET(R(1), ('bin', '>>', s0, NUM(8)))])
        pk.flush()
        progs.extend(pk.programs)

    for sel in (0, 1):
        base = [SET(v1, NUM(sel)), SET(v2, NUM(50)), SET(v3, NUM(100)), SET(s1, NUM(0x0100))]
        producers = [
            ("tern", ('tern', v1, NUM(200), NUM(131))),
            ("tern-v", ('tern', v1, v3, NUM(250))),
            ("sum-tern", ('bin', '+', v2, ('tern', v1, NUM(200), NUM(131)))),
            ("shl", ('bin', '<<', v3, NUM(1))),
            ("sum-shl", ('bin', '+', v2, ('bin', '<<', v3, NUM(1)))),
            ("bnot", ('bnot', v2)),
            ("sum", ('bin', '+', v3, v3)),
            ("or", ('bin', '|', v2, NUM(128))),
            # the conditional value is evaluated while the accumulator holds the left operand (result handed over in cctmp)
            ("acc-tern", ('bin', '+', ('bin', '|', v2, NUM(1)), ('tern', v1, NUM(150), NUM(140)))),
            ("acc-tern-sub", ('bin', '-', ('bin', '+', v3, v3), ('tern', v1, NUM(10), NUM(20)))),
            # … and shifted right afterwards: a logical shift (LSR), not an arithmetic one
            ("acc-tern-shr", ('bin', '+', ('bin', '|', v2, NUM(1)), ('bin', '>>', ('tern', v1, NUM(200), NUM(131)), NUM(1)))),
            ("tern-shr", ('bin', '>>', ('tern', v1, NUM(200), NUM(131)), NUM(2))),
            ("sum-shr", ('bin', '>>', ('bin', '+', v3, v3), NUM(1))),
            ("const-minus-acc-tern-shr", ('bin', '+', ('bin', '|', v2, NUM(1)), ('bin', '>>', ('bin', '-', NUM(250), ('tern', v1, NUM(10), NUM(20))), NUM(1)))),
        ]
        for nm, e in producers:
            for cop, k in (('>=', 100), ('<', 100), ('>', 100), ('<=', 100), ('>=', 129), ('<', 250), ('>=', 50), ('<', 20)):
                emit8("%s%s%d-%d" % (nm, cop, k, sel), lambda r, e=e, cop=cop, k=k: base + [('if', ('cmp', cop, e, NUM(k)), SET(r, NUM(1)), SET(r, NUM(2)))])
                emit8("%s%s%d-rev-%d" % (nm, cop, k, sel), lambda r, e=e, cop=cop, k=k: base + [('if', ('cmp', cop, NUM(k), e), SET(r, NUM(1)), SET(r, NUM(2)))])
            emit8("%s-var-%d" % (nm, sel), lambda r, e=e: base + [('if', ('cmp', '>=', e, v3), SET(r, NUM(1)), SET(r, NUM(2)))])
            emit8("%s-value-%d" % (nm, sel), lambda r, e=e: base + [SET(r, e)])
            if "shl" in nm or "shr" in nm:
                continue        # a non-compound shift into a 16-bit destination: recorded finding sixteen-bit-non-compound-shift
            emit16("%s-wide-%d" % (nm, sel), base + [SET(s0, e)])
            emit16("%s-wide-sum-%d" % (nm, sel), base + [SET(s0, ('bin', '+', s1, e))])
            emit16("%s-wide-opasg-%d" % (nm, sel), base + [SET(s0, NUM(0x00f0)), ('expr', ('opasg', '+', s0, e))])
    return progs

def all_programs(families=None):
    fams = {"update-then-test": update_then_test, "update-then-loop": update_then_loop, "comparisons": comparisons,
            "folded": folded_comparisons, "far": far_branches, "switch": switches, "triples": triples, "restore": restore,
            "precedence": precedence, "loop-headers": loop_headers, "wide": wide, "nested": nested, "calls": calls, "pointers": pointers, "scopes": scopes, "signed": signed_values, "explicit": explicit, "signedness": signedness}
    out = []
    for n, f in fams.items():
        if families is None or n in families:
            out += f()
    return out
