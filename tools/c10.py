"""C10 — compile-time constant expressions evaluate as in C.

  proof  : lean/CV/Props/C10.lean, over the tables translated from src/compile.rs on this run
           (operator arms of parse_calc, prefix arms, the three Pratt tables, parse_int radix arms)
  tie    : T — tables regenerated every run; C — random constant expressions evaluated by the real
           compiler (value of a const initialiser / array size) vs CV.Calc.evalTokens (port of pest's
           precedence-climbing driver + translated arms)
  search : the same expressions against an independent C evaluator (Python big integers, C's
           precedence by construction: the text is printed from the tree with minimal parentheses);
           constants folded inside statements executed on the Lean 6502 model against the C value.
"""
from lib import *
import prog, coexec

TRUSTED = ["Lean 4 kernel; axioms allowed: propext, Classical.choice, Quot.sound",
           "specification: C's operators on integers (cBin/cUn, cLevel in CV/Props/C10.lean; ceval in tools/c10.py)",
           "pest's PrattParser implements precedence climbing for the table it is given (port validated by the correspondence)",
           "translator tools/xt_calc.py (fails closed)", "constants are 32-bit (i32) in the calculator; undefined = overflow, division by zero, shift count outside 0..31"]

BIN = [("*", "mul", 10), ("/", "div", 10), ("+", "add", 9), ("-", "sub", 9), ("<<", "bls", 8), (">>", "brs", 8),
       ("<", "lt", 7), ("<=", "lte", 7), (">", "gt", 7), (">=", "gte", 7), ("==", "eq", 6), ("!=", "neq", 6),
       ("&", "and", 5), ("^", "xor", 4), ("|", "or", 3), ("&&", "land", 2), ("||", "lor", 1)]
BINMAP = {b[0]: b for b in BIN}
UN = [("-", "neg"), ("!", "not"), ("~", "bnot")]
I32 = (-2 ** 31, 2 ** 31 - 1)


class Undefined(Exception):
    pass


def fit(v):
    if v < I32[0] or v > I32[1]:
        raise Undefined()
    return v


def ceval(e):
    k = e[0]
    if k == "num":
        return fit(e[1])
    if k == "un":
        a = ceval(e[2])
        return fit(-a) if e[1] == "-" else (1 if a == 0 else 0) if e[1] == "!" else ~a
    if k == "tern":
        c = ceval(e[1])
        # both arms must be well defined constant expressions for the compiler to see them; C evaluates one
        return ceval(e[2]) if c != 0 else ceval(e[3])
    op = e[1]
    if op in ("&&", "||"):
        a = ceval(e[2])
        if (op == "&&" and a == 0):
            return 0
        if (op == "||" and a != 0):
            return 1
        return 1 if ceval(e[3]) != 0 else 0
    a, b = ceval(e[2]), ceval(e[3])
    if op == "*": return fit(a * b)
    if op == "/":
        if b == 0: raise Undefined()
        q = abs(a) // abs(b)
        return fit(q if (a >= 0) == (b >= 0) else -q)
    if op == "+": return fit(a + b)
    if op == "-": return fit(a - b)
    if op == "<<":
        if b < 0 or b > 31: raise Undefined()
        return fit(a << b)
    if op == ">>":
        if b < 0 or b > 31: raise Undefined()
        return a >> b
    if op == "&": return a & b
    if op == "|": return a | b
    if op == "^": return a ^ b
    if op == "&&": return 1 if (a != 0 and b != 0) else 0
    if op == "||": return 1 if (a != 0 or b != 0) else 0
    return 1 if {"<": a < b, "<=": a <= b, ">": a > b, ">=": a >= b, "==": a == b, "!=": a != b}[op] else 0


def prec(e):
    if e[0] == "num": return 20 if e[1] >= 0 or True else 14
    if e[0] == "un": return 14
    if e[0] == "tern": return 0
    return BINMAP[e[1]][2]


def show(e, ctx=0, forms=None):
    k = e[0]
    if k == "num":
        s = e[2]
    elif k == "un":
        inner = show(e[2], 14)
        s = e[1] + (" " if inner.startswith(e[1]) or (e[1] == "-" and inner.startswith("-")) else "") + inner
    elif k == "tern":
        s = "%s ? %s : %s" % (show(e[1], 1), show(e[2], 1), show(e[3], 0))
    else:
        p = BINMAP[e[1]][2]
        s = "%s %s %s" % (show(e[2], p), e[1], show(e[3], p + 1))
    return "(" + s + ")" if prec(e) < ctx else s


def toks(e, ctx=0):
    """token list for the model: same parenthesisation as the text"""
    k = e[0]
    if k == "num":
        t = [e[3]]
    elif k == "un":
        t = ["o" + dict(UN)[e[1]]] + toks(e[2], 14)
    elif k == "tern":
        t = toks(e[1], 1) + ["oternary_cond1"] + toks(e[2], 1) + ["oternary_cond2"] + toks(e[3], 0)
    else:
        p = BINMAP[e[1]][2]
        t = toks(e[2], p) + ["o" + BINMAP[e[1]][1]] + toks(e[3], p + 1)
    return ["("] + t + [")"] if prec(e) < ctx else t


def rand_num(rng, small=False):
    v = rng.choice([0, 1, 2, 3, 5, 7, 8, 10, 15, 16, 31, 32, 100, 255, 256, 1000, 65535] if not small else [0, 1, 2, 3, 5, 7, 8])
    f = rng.random()
    if f < 0.6:
        return ("num", v, str(v), "idecimal:" + hx(str(v)))
    if f < 0.8:
        t = "0x%x" % v
        return ("num", v, t, "ihexadecimal:" + hx(t))
    if f < 0.9 and v >= 8:
        t = "0%o" % v
        return ("num", v, t, "ioctal:" + hx(t))
    c = rng.choice("abcXYZ019 +")
    return ("num", ord(c), "'%s'" % c, "n%d" % ord(c))


def rand_expr(rng, depth, ternary=True, small=False):
    x = rng.random()
    if depth <= 0 or x < 0.25:
        return rand_num(rng, small)
    if x < 0.4:
        return ("un", rng.choice(UN)[0], rand_expr(rng, depth - 1, False, small))
    if ternary and x < 0.46:
        return ("tern", rand_expr(rng, depth - 1, False, small), rand_expr(rng, depth - 1, rng.random() < 0.3, small), rand_expr(rng, depth - 1, rng.random() < 0.3, small))
    op = rng.choice(BIN)[0]
    return ("bin", op, rand_expr(rng, depth - 1, False, small), rand_expr(rng, depth - 1, False, small))


def has_nested_ternary(e):
    if e[0] == "tern":
        return any(contains_tern(x) for x in e[1:])
    if e[0] == "un":
        return has_nested_ternary(e[2])
    if e[0] == "bin":
        return has_nested_ternary(e[2]) or has_nested_ternary(e[3])
    return False


def contains_tern(e):
    return e[0] == "tern" or (e[0] == "un" and contains_tern(e[2])) or (e[0] == "bin" and (contains_tern(e[2]) or contains_tern(e[3])))


def run(chk):
    ok, obligations = prepare(chk)
    if not ok:
        return chk.finish(obligations=obligations, trusted_base=TRUSTED)
    h = Harness(); m = Model(); rng = chk.rng
    # ---- exemplars of the recorded findings, replayed first ----
    for k in chk.known:
        if k.get("kind") == "const":
            r = h.compile(k["exemplar"], 0)
            got = None
            if r["status"] == "ok":
                got = [v for v in r["vars"] if unhx(v["name"]) == "k"][0]["def"][1][1]
            if got != k.get("c_value") and not (k.get("c_value") is None and r["status"] == "err"):
                chk.fail(k["signature"], k["what_fails"], {"source": k["exemplar"], "value": got, "C": k.get("c_value")})
        elif k.get("kind") == "stmt":
            r = h.compile(k["exemplar"], 1)
            if r["status"] == "ok":
                states, lay = coexec.init_states(r, 1, seed=1)
                outs, bad = coexec.run_all(m, "c10", r, states, lay)
                if outs and outs[0]["stop"].startswith("done") and outs[0]["mem"][0] != k["expect"]["v"]:
                    chk.fail(k["signature"], k["what_fails"], {"source": k["exemplar"], "stored": outs[0]["mem"][0], "C": k["expect"]["v"]})
    # ---- complete pairwise sweep: `a op1 b op2 c` for every ordered pair of binary operators (and a
    #      unary operator in front), with operand triples on which the two groupings differ ----
    def num(v):
        return ("num", v, str(v), "idecimal:" + hx(str(v)))
    triples = [(1, 2, 3), (5, 2, 4), (7, 3, 2), (0, 1, 0), (6, 1, 1), (12, 5, 9), (2, 7, 7)]
    sweep = []
    for (o1, r1, p1) in BIN:
        for (o2, r2, p2) in BIN:
            for (a, b, c) in triples:
                # the tree C's grammar gives to the token string `a o1 b o2 c`
                if p1 >= p2:
                    tree = ("bin", o2, ("bin", o1, num(a), num(b)), num(c))
                else:
                    tree = ("bin", o1, num(a), ("bin", o2, num(b), num(c)))
                sweep.append(("%d %s %d %s %d" % (a, o1, b, o2, c), tree, ["n%d" % a, "o" + r1, "n%d" % b, "o" + r2, "n%d" % c]))
    for (u, ru) in UN:
        for (o1, r1, p1) in BIN:
            for (a, b) in [(1, 2), (0, 3), (5, 5), (2, 1)]:
                tree = ("bin", o1, ("un", u, num(a)), num(b))
                sweep.append(("%s%d %s %d" % (u, a, o1, b), tree, ["o" + ru, "n%d" % a, "o" + r1, "n%d" % b]))
    for (text, tree, tk) in sweep:
        try:
            want = ceval(tree)
        except Undefined:
            continue
        src = "const short k = %s;\nvoid main() {}\n" % text
        r = h.compile(src, 0)
        chk.case(key=("sweep", text), nontrivial=True)
        chk.count("pairwise_sweep")
        got = None
        if r["status"] == "ok":
            got = [v for v in r["vars"] if unhx(v["name"]) == "k"][0]["def"][1][1]
        ma = m.req("calc " + " ".join(tk))
        real = "ok %d" % got if got is not None else ("err" if r["status"] == "err" else "panic")
        if real != ma:
            chk.tie_broken("constant calculator: model and code disagree", {"expr": text, "real": real, "model": ma})
        if got is not None and got != want:
            chk.fail("constant-value", "%s evaluates to %d, C says %d" % (text, got, want), {"source": src, "value": got, "C": want})
        # the same token string as a statement (the `pratt` table and the folding of the generator)
        if 0 <= want <= 255 and "/" not in text and "*" not in text and not any(t in text for t in ("~", "-")):
            src2 = "unsigned char v;\nvoid main() { v = %s; }\n" % text
            r2 = h.compile(src2, 1)
            if r2["status"] == "ok":
                states, lay = coexec.init_states(r2, 1, seed=1)
                outs, bad = coexec.run_all(m, "c10", r2, states, lay)
                chk.count("pairwise_sweep_statements")
                if outs and outs[0]["stop"].startswith("done") and outs[0]["mem"][0] != want:
                    chk.fail("folded-constant-value", "`v = %s;` stores %d, C says %d" % (text, outs[0]["mem"][0], want), {"source": src2})
    chk.coverage["exhaustive_operator_pairs"] = True
    n = chk.scale(1200, 20000)
    for i in range(n):
        e = rand_expr(rng, rng.randint(1, 4))
        text = show(e)
        try:
            want = ceval(e)
        except Undefined:
            want = None
        pos = rng.choice(["init", "init", "size"])
        if pos == "size" and (want is None or not (1 <= want <= 64)):
            pos = "init"
        if pos == "init":
            src = "const short k = %s;\nvoid main() {}\n" % text
        else:
            src = "char arr[%s];\nvoid main() {}\n" % text
        r = h.compile(src, 0)
        ma = m.req("calc " + " ".join(toks(e)))
        chk.case(key=text, nontrivial=e[0] != "num")
        chk.count("pos_" + pos)
        chk.count("c_defined" if want is not None else "c_undefined")
        if i < 4:
            chk.sample({"expr": text, "C": want})
        got = None
        if r["status"] == "ok":
            v = [v for v in r["vars"] if unhx(v["name"]) in ("k", "arr")][0]
            got = v["def"][1][1] if pos == "init" else v["size"]
        if pos == "size" and ma.startswith("ok "):
            ma = "ok %d" % (int(ma[3:]) % 2 ** 64)       # the size is `as usize`
        real = "ok %d" % got if got is not None else ("err" if r["status"] == "err" else "panic" if r["status"] in ("panic", "abort") else r["status"])
        if real != ma:
            chk.tie_broken("constant calculator: model and code disagree", {"expr": text, "real": real, "model": ma, "tokens": toks(e)})
        # against C
        if want is not None:
            if got is None:
                if r["status"] in ("panic", "abort", "timeout"):
                    chk.count("defined_but_crash")       # belongs to C16
                else:
                    chk.fail("defined-constant-rejected", "constant expression %s = %d rejected" % (text, want), {"source": src})
            elif got != want:
                sig = "constant-value"
                if contains_tern(e) and (has_nested_ternary(e) or True) and has_nested_ternary(e):
                    sig = "nested-ternary-sentinel"
                chk.fail(sig, "%s evaluates to %d, C says %d" % (text, got, want), {"source": src, "value": got, "C": want})
        else:
            if got is not None:
                sig = "undefined-constant-accepted"
                if "<<" in text:
                    sig = "shl-overflow-wraps"
                chk.fail(sig, "%s is undefined in C (overflow / division by zero / shift) but yields %d" % (text, got),
                         {"source": src, "value": got})
    # ---- constants folded inside statements, executed ----
    for i in range(chk.scale(250, 4000)):
        e = rand_expr(rng, rng.randint(1, 3), ternary=False, small=True)
        if e[0] == "num":
            continue
        try:
            want = ceval(e)
        except Undefined:
            continue
        if not (0 <= want <= 255):
            continue
        src = "unsigned char v;\nvoid main() { v = %s; }\n" % show(e)
        r = h.compile(src, 1)
        chk.case(key=src, nontrivial=True)
        chk.count("folded_statements")
        if r["status"] != "ok":
            chk.count("folded_" + r["status"]); continue
        states, lay = coexec.init_states(r, 1, seed=i)
        outs, bad = coexec.run_all(m, "c10", r, states, lay)
        if outs is None or not outs[0]["stop"].startswith("done"):
            chk.count("folded_unrunnable"); continue
        got = outs[0]["mem"][0]
        if got != want:
            import re as _re
            sig = "folded-constant-value"
            if _re.search(r"[~-]\s*[(~!-]", show(e)):
                sig = "folded-complement-width"
            chk.fail(sig, "`v = %s;` stores %d, C says %d" % (show(e), got, want), {"source": src, "stored": got, "C": want})
    # ---- products and quotients of two constants folded by the statement generator: both signs of both operands,
    #      alone and under another operator (C truncates the quotient toward zero) ----
    def cdiv(a, b):
        q = abs(a) // abs(b)
        return q if (a >= 0) == (b >= 0) else -q
    for a in (7, -7, 8, -8, 1, 0, 100, -100, 255, -1):
        for b in (2, -2, 3, -3, 1, -1, 7, 16):
            for op in "*/":
                base = cdiv(a, b) if op == "/" else a * b
                for form, want in (("%s %s %s", base), ("(%s %s %s) + 5", base + 5), ("1 - (%s %s %s)", 1 - base), ("%s %s (%s + 0)", base)):
                    text = form % (a, op, b)
                    src = "unsigned char v;\nvoid main() { v = %s; }\n" % text
                    r = h.compile(src, 1)
                    chk.case(key=src, nontrivial=True)
                    chk.count("folded_muldiv_statements")
                    if r["status"] != "ok":
                        chk.count("folded_muldiv_" + r["status"]); continue
                    states, lay = coexec.init_states(r, 1, seed=1)
                    outs, bad = coexec.run_all(m, "c10", r, states, lay)
                    if outs is None or not outs[0]["stop"].startswith("done"):
                        chk.count("folded_unrunnable"); continue
                    if outs[0]["mem"][0] != want & 0xFF:
                        chk.fail("folded-muldiv-value", "`v = %s;` stores %d, C says %d" % (text, outs[0]["mem"][0], want & 0xFF),
                                 {"source": src, "stored": outs[0]["mem"][0], "C": want & 0xFF})
    # ---- comparisons of two constants folded by the statement generator, in every position it accepts them
    #      (plain value, ?:, !, left operand of && / ||), for a < b, a == b, a > b: tools/matrix.py ----
    import matrix, csemx, gen_c
    for p in matrix.all_programs(["folded"]):
        for level in (0, 1):
            r = h.compile(p.text, level)
            chk.count("folded_comparison_statements")
            if r["status"] != "ok":
                chk.count("folded_comparison_" + r["status"]); break
            chk.case(key=(p.text, level), nontrivial=True)
            csemx.check_compiled(chk, m, p.text, p, r, "c10m", 1, seed=1, level=level,
                                 sig_fn=lambda kind: "folded-comparison-" + kind)
    h.close(); m.close()
    return chk.finish(level="proof", obligations=obligations, trusted_base=TRUSTED,
                      checker_cmd="cd /verif/lean && lake build CV.Props.C10 && lake env lean .lake/audit/C10_audit.lean",
                      extra={"rule": "random expression trees over decimal/hex/octal/character literals, unary - ! ~, the 17 binary operators, ?: and "
                                     "parentheses (depth <= 4), printed with the minimum parentheses C requires, as const initialisers and array sizes; "
                                     "constant right-hand sides of statements executed on the 6502 model; non-trivial = at least one operator"})
