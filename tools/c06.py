"""C06 — diagnostics name the true source location.

  proof  : lean/CV/Props/C06.lean (the offset -> line loop returns the line of the offending character
           for every text and every offset >= 1; position 0 cannot be located; splice accounting)
  tie    : cpp::process vs CV.Cpp.process including the whole line mapping (hook H2), on sources with
           comments, splices, skipped regions, #define lines, includes of C and assembler files
  search : a defect of every kind (preprocessor: #error, bad directive, unterminated string; syntax;
           semantic: unknown identifier, redefinition; code generation: unknown function, too many
           arguments) is planted at a known physical line after random line-shifting constructs, in the
           main file and in included files; the returned error must carry that file, that line (for a
           spliced line: one of its physical lines) and, in an include, the including file and line.
"""
from lib import *
import cpptie, gen_cpp

TRUSTED = ["Lean 4 kernel; axioms allowed: propext, Classical.choice, Quot.sound",
           "tie: differential testing of CV.Cpp.process (text, mapping, literals) against cpp::process",
           "pest reports the line/column of a syntax error correctly (its number is mapped through mapped_lines by compile())",
           "error sites of the generator that pass position 0 cannot name a location (known finding)"]

DEFECTS = [
    # (kind, defect text, expected error kind, wrapper: where the defect must be placed)
    ("error-directive", "#error planted here", "compiler", "top"),
    ("bad-directive", "#bogus directive", "syntax", "top"),
    ("unterminated-string", 'char *q = "oops;', "syntax", "top"),
    ("syntax", "char 1x;", "syntax", "top"),
    ("syntax-in-body", "v0 = ;", "syntax", "body"),
    ("unknown-identifier", "zz = 1;", "syntax", "body"),
    ("unknown-identifier-expr", "v0 = v0 + qq;", "syntax", "body"),
    ("unknown-function", "nofn();", "syntax", "body"),
    ("redefinition", "char v0;", "syntax", "top-after-decl"),
    # errors raised by the evaluator of #if / #elif expressions
    ("if-undefined-identifier", "#if NOPE9 == 1\n#endif", "syntax", "top"),
    ("if-expected-term", "#if 1 ==\n#endif", "syntax", "top"),
    ("if-trailing-text", "#if 1 1\n#endif", "syntax", "top"),
    ("elif-undefined-identifier", "#if 0\n#elif NOPE8\n#endif", "syntax", "top-second-line"),
    ("too-many-args", "f(1, 2, 3);", "syntax", "body"),
    # errors of the #include directive itself (raised by the preprocessor with the line of the directive)
    ("include-missing-file", '#include "nofile9.h"', "syntax", "top"),
    ("include-missing-file-angle", "#include <nofile8.h>", "syntax", "top"),
    ("include-no-delimiter", "#include nofile7", "syntax", "top"),
    ("include-unclosed", '#include "nofile6', "syntax", "top"),
    ("include-no-name", "#include", "syntax", "top"),
    # errors raised by the code generator (the position travels through syntax_error / compiler_error)
    ("codegen-multiply", "v0 = v0 * v0;", "syntax", "body"),
    ("codegen-break", "break;", "syntax", "body"),
    ("codegen-continue", "continue;", "syntax", "body"),
]

SHIFTERS = ["#define LONG%d 1 + \\\n  2 + \\\n  3", "char \\\n  m%d \\\n  ;", "#define QUAD%d(a) (a + \\\n 1 + \\\n 2 + \\\n 3)",
            "/* one\n   two\n   three */", "// line comment", "", "\n", "#define ZED%d 12", "#if 0\nskipped 1\nskipped 2\n#endif", "#ifdef NOPE\nx\n#else\n#endif",
            "/* a */ /* b\n c */", "char \\\n  w%d;", "/* spliced \\\n comment */", "char u%d; // tail", "#define F%d(a) (a+1)", "#ifndef NOPE\n#endif"]


def build_case(rng, kind, text, where, in_include):
    lines = []           # physical lines of the file that will contain the defect
    cnt = [0]
    def shift():
        s = rng.choice(SHIFTERS)
        if "%d" in s:
            cnt[0] += 1
            s = s % cnt[0]
        lines.extend(s.split("\n"))
    for _ in range(rng.randint(0, 6)):
        shift()
    asm_files = []
    if rng.random() < 0.35:
        for k in range(rng.randint(1, 2)):
            fn = "code%d.%s" % (k, rng.choice(["inc", "asm"]))
            asm_files.append((fn, "\tlda #%d\n; assembler text\n\tsta $80\n" % k))
            lines.append('#include "%s"' % fn)
    lines.append("unsigned char v0;")
    lines.append("void f(char a) { }")
    for _ in range(rng.randint(0, 3)):
        shift()
    if where in ("top", "top-after-decl", "top-second-line"):
        parts = text.split("\n")
        lines.extend(parts)
        target = [len(lines) - len(parts) + (2 if where == "top-second-line" else 1)]
        lines.append("void main() { v0 = 1; }")
    else:
        lines.append("void main() {")
        for _ in range(rng.randint(0, 3)):
            lines.append(rng.choice(["  v0 = 1;", "  v0++; // c", "  /* c */ v0 = 2;", "", "  v0 = \\\n   3;"]))
        lines = [x for l in lines for x in l.split("\n")]
        # the defect, possibly spliced over two physical lines
        # the statement starts in the first column as often as it is indented (blanks, a tab, deep)
        ind = rng.choice(["", "", "  ", "\t", "        "])
        if rng.random() < 0.3 and " " in text:
            a, b = text.split(" ", 1)
            lines.append(ind + a + " \\")
            lines.append(rng.choice(["", "    "]) + b)
            target = [len(lines) - 1, len(lines)]
        else:
            lines.append(ind + text)
            target = [len(lines)]
        lines.append("}")
    for _ in range(rng.randint(0, 2)):
        lines.append("// trailing")
    body = "\n".join(lines) + "\n"
    if not in_include:
        return body, asm_files, "main.c", target, None
    # put everything in an include, reached from main through 1-3 levels of inclusion, each after more
    # shifting; the error must name the file that includes the defect file directly, and that line
    depth = rng.choice([1, 1, 2, 3])
    chain = ["main.c"] + ["mid%d.h" % k for k in range(1, depth)] + ["inc.h"]
    files = [("inc.h", body)] + asm_files
    einc = None
    main_text = None
    for lvl in range(len(chain) - 2, -1, -1):
        text_lines = []
        for _ in range(rng.randint(0, 5)):
            s_ = rng.choice(SHIFTERS)
            if "%d" in s_:
                cnt[0] += 1
                s_ = s_ % (100 * (lvl + 1) + cnt[0])
            text_lines.extend(s_.split("\n"))
        text_lines.append('#include "%s"' % chain[lvl + 1])
        if lvl == len(chain) - 2:
            einc = (chain[lvl], len(text_lines))
        for _ in range(rng.randint(0, 2)):
            text_lines.append("// after the include")
        t = "\n".join(text_lines) + "\n"
        if lvl == 0:
            main_text = t
        else:
            files.append((chain[lvl], t))
    return main_text, files, "inc.h", target, einc


def run(chk):
    ok, obligations = prepare(chk)
    if not ok:
        return chk.finish(obligations=obligations, trusted_base=TRUSTED)
    h = Harness(); m = Model(); rng = chk.rng
    # ---- tie: output text + complete mapping ----
    for i in range(chk.scale(600, 8000)):
        src, defs, files = gen_cpp.rand_source(rng, with_includes=True, allow_errors=0.02)
        d, r = cpptie.compare(h, m, src, defs, files)
        chk.count("tie_" + r["status"])
        if d:
            chk.tie_broken("preprocessor (text / line mapping / error location): model and code disagree", {"source": src, "defines": defs, "files": files, "real": d[0][:600], "model": d[1][:600]})
        if r["status"] == "ok":
            # one mapping entry per output line (the proof obligation left to the correspondence)
            out = unhx(r["out"])
            nl = out.count("\n") + (0 if out.endswith("\n") or not out else 1)
            if nl != len(r["mapped"]):
                chk.fail("mapping-length", "%d output lines but %d mapping entries" % (nl, len(r["mapped"])), {"source": src, "files": files})
    # ---- planted errors ----
    for i in range(chk.scale(500, 8000)):
        kind, text, ekind, where = rng.choice(DEFECTS)
        in_inc = rng.random() < 0.4
        src, files, efile, elines, einc = build_case(rng, kind, text, where, in_inc)
        r = h.compile(src, 1, files=files)
        chk.case(key=(src, json.dumps(files)), nontrivial=True)
        chk.count("kind_" + kind + ("_inc" if in_inc else ""))
        if i < 3:
            chk.sample({"kind": kind, "source": src[:400], "files": files, "expected": [efile, elines, einc]})
        if r["status"] == "panic":
            chk.count("panic")            # C16's subject
            continue
        if r["status"] != "err":
            chk.fail("defect-not-reported", "planted %s not reported (%s)" % (kind, r["status"]), {"source": src, "files": files}); continue
        e = r["err"]
        got_file = unhx(e["file"]) if e["file"] else None
        got_inc = (unhx(e["inc_file"]), e["inc_line"]) if e["inc_file"] else None
        if got_file != efile or e["line"] not in elines:
            sig = "wrong-location-" + kind
            chk.fail(sig, "planted %s at %s:%s reported at %s:%s (%s)" % (kind, efile, elines, got_file, e["line"], unhx(e["msg"])[:60]),
                     {"source": src, "files": files, "expected": [efile, elines], "got": [got_file, e["line"]]})
        elif got_inc != einc:
            sig = "included-in-lost" if got_inc is None else "wrong-included-in"
            if got_inc is None and e["kind"] == "syntax" and kind in ("syntax", "syntax-in-body"):
                sig = "included-in-lost-parse-error"
            chk.fail(sig, "planted %s in an include: included_in is %s, expected %s" % (kind, got_inc, einc), {"source": src, "files": files})
    h.close(); m.close()
    return chk.finish(level="proof", obligations=obligations, trusted_base=TRUSTED,
                      checker_cmd="cd /verif/lean && lake build CV.Props.C06 && lake env lean .lake/audit/C06_audit.lean",
                      extra={"rule": "random preprocessor sources with includes for the mapping tie; 22 defect kinds planted after 0-9 line-shifting constructs "
                                     "(multi-line comments, splices, skipped regions, #define lines, blank lines), 40% inside an included file, 30% of the "
                                     "statement defects spliced over two physical lines"})
