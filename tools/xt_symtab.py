"""Translator piece: the comparators of sorted_variables / sorted_functions, the `order:` initialisers
and the HashMap iterations that feed inserts (src/compile.rs)."""
import re, os
from lib import REPO


def comparator(src, fn, probs):
    m = re.search(r"pub fn %s\(&self\) -> Vec<\(&String, &\w+(?:<'a>)?\)> \{(.*?)\n    \}" % fn, src, re.S)
    if not m:
        probs.append("%s not found" % fn); return "unknown"
    body = re.sub(r"\s+", " ", m.group(1))
    if ".iter().collect();" not in body:
        probs.append("%s: not a collect of the map" % fn)
    c = re.search(r"v\.sort_by\(\|a, b\| (.*?)\); v", body)
    if not c:
        probs.append("%s: sort_by not recognised" % fn); return "unknown"
    e = c.group(1).strip()
    if e == "a.1.order.cmp(&b.1.order)":
        return "order"
    if e in ("a.1.order.cmp(&b.1.order).then_with(|| a.0.cmp(b.0))", "a.1.order.cmp(&b.1.order).then(a.0.cmp(b.0))",
             "(a.1.order, a.0).cmp(&(b.1.order, b.0))"):
        return "order_name"
    probs.append("%s: comparator not understood: %r" % (fn, e))
    return "unknown"


def extract():
    probs = []
    src = open(os.path.join(REPO, "src/compile.rs")).read()
    cv = comparator(src, "sorted_variables", probs)
    cf = comparator(src, "sorted_functions", probs)
    orders = [o for o in re.findall(r"order: ([^,\n]+),", src) if o.strip() != "usize"]
    bad_orders = [o for o in orders if o.strip() not in ("self.variables.len()", "state.variables.len()", "self.functions.len()")]
    for o in bad_orders:
        probs.append("order initialiser not understood: %r" % o)
    # loops over the literal map returned by parse_expr_ex / parse_expr_init_value_ex
    unsorted = 0
    sorted_ = 0
    for m in re.finditer(r"let res = self\.(parse_expr_ex|parse_expr_init_value_ex)\(pairs\)\?;(.*?)Ok\(res\.0\)", src, re.S):
        blk = m.group(2)
        if re.search(r"for k in &res\.1 \{", blk):
            unsorted += 1
        elif re.search(r"let mut literals: Vec<\(&String, &String\)> = res\.1\.iter\(\)\.collect\(\);\s*literals\.sort", blk) and re.search(r"for k in literals \{", blk):
            sorted_ += 1
        else:
            probs.append("literal collection loop after %s not recognised" % m.group(1))
    L = ["/-- comparator of sorted_variables / sorted_functions: \"order\" or \"order_name\" (order, then key) -/",
         'def cmpVariables : String := "%s"' % cv,
         'def cmpFunctions : String := "%s"' % cf,
         "/-- number of `order: <map>.len()` initialisers found -/",
         "def orderSites : Nat := %d" % len(orders),
         "/-- literal-collection loops iterating a HashMap directly / over sorted keys -/",
         "def literalLoopsUnsorted : Nat := %d" % unsorted,
         "def literalLoopsSorted : Nat := %d" % sorted_]
    return "\n".join(L) + "\n", probs
