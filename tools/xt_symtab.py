"""Translator piece: the comparators of sorted_variables / sorted_functions, the `order:` initialisers
and the HashMap iterations that feed inserts (src/compile.rs)."""
import re, os
from lib import REPO


def comparator(src, fn, probs):
    m = re.search(r"pub fn %s\(&self\) -> Vec<\(&String, &\w+(?:<'a>)?\)> \{(.*?)\n    \}" % fn, src, re.S)
    if not m:
        probs.append("%s not found" % fn); return "unknown"
    body = re.sub(r"\s+", " ", m.group(1))
    if ".iter().collect();" not in body:
        probs.append("%s: not a collect of the map" % fn)
    c = re.search(r"v\.sort_by\(\|a, b\| (.*?)\); v", body)
    if not c:
        probs.append("%s: sort_by not recognised" % fn); return "unknown"
    e = c.group(1).strip()
    if e == "a.1.order.cmp(&b.1.order)":
        return "order"
    if e in ("a.1.order.cmp(&b.1.order).then_with(|| a.0.cmp(b.0))", "a.1.order.cmp(&b.1.order).then(a.0.cmp(b.0))",
             "(a.1.order, a.0).cmp(&(b.1.order, b.0))"):
        return "order_name"
    probs.append("%s: comparator not understood: %r" % (fn, e))
    return "unknown"


# Every place where the order of a hash map / hash set can be observed, with the reason why it cannot
# reach the output. A site that is not listed (new, or rewritten) is reported: it has not been shown to be
# order-insensitive. Identity = file + the statement text with blanks squeezed.
AUDITED_HASH_SITES = {
    ("src/compile.rs", "let mut v: Vec<(&String, &Variable)> = self.variables.iter().collect();"): "collected, then sorted by the total comparator (cmpVariables)",
    ("src/compile.rs", "let mut v: Vec<(&String, &Function)> = self.functions.iter().collect();"): "collected, then sorted by the total comparator (cmpFunctions)",
    ("src/compile.rs", "let mut literals: Vec<(&String, &String)> = res.1.iter().collect();"): "collected, then sorted by key (literalLoopsSorted)",
    ("src/compile.rs", "for k in &res.1 {"): "copies the literals of a nested expression into the enclosing map: the keys of one map are distinct, so the union does not depend on the order (4 sites)",
    ("src/compile.rs", "for i in &self.variables {"): "copies the keys into another map (in_scope_variables): a set union",
    ("src/generate/generate_asm.rs", "for i in &self.compiler_state.functions {"): "adds the reachability closure of every interrupt function to a set: a union (closure = reachability is C12's theorem)",
}


def hash_sites():
    """(file, statement text, line) of every iteration over a HashMap / HashSet in /repo/src (tests excluded)"""
    import glob
    files = sorted(f for f in glob.glob(os.path.join(REPO, "src", "**", "*.rs"), recursive=True) if "/tests/" not in f)
    names = set()
    for f in files:
        t = open(f).read()
        names |= set(re.findall(r"(\w+): (?:&mut |&)?(?:Vec<)?Hash(?:Map|Set)<", t))
        names |= set(re.findall(r"let (?:mut )?(\w+)(?:: [^=;]+)? = Hash(?:Map|Set)::", t))
        names |= set(re.findall(r"let (?:mut )?(\w+): (?:&mut |&)?Hash(?:Map|Set)<", t))
    alt = "|".join(sorted(names) + [r"res\.1", r"res\.\d"])
    pat = re.compile(r"(?:\b(?:%s)\b|\bres\.1)[\w\.\(\)\?]*\s*\.\s*(?:iter|iter_mut|values|values_mut|keys|into_iter|drain|into_keys|into_values|retain|extract_if)\(|for [^;{]* in &?(?:mut )?[\w\.]*\b(?:%s)\b" % (alt, alt))
    out = []
    for f in files:
        for i, l in enumerate(open(f).read().splitlines()):
            if pat.search(l) and not l.strip().startswith("//"):
                out.append((os.path.relpath(f, REPO), re.sub(r"\s+", " ", l.strip()), i + 1))
    return out, sorted(names)


def extract():
    probs = []
    sites, hnames = hash_sites()
    for (f, text, line) in sites:
        if (f, text) not in AUDITED_HASH_SITES:
            probs.append("unaudited iteration over a hash map at %s:%d: `%s` (hash order may reach the output)" % (f, line, text[:120]))
    for (f, text) in AUDITED_HASH_SITES:
        if not any(s[0] == f and s[1] == text for s in sites):
            probs.append("audited hash-map iteration no longer found in %s: `%s`" % (f, text[:100]))
    src = open(os.path.join(REPO, "src/compile.rs")).read()
    cv = comparator(src, "sorted_variables", probs)
    cf = comparator(src, "sorted_functions", probs)
    orders = [o for o in re.findall(r"order: ([^,\n]+),", src) if o.strip() != "usize"]
    bad_orders = [o for o in orders if o.strip() not in ("self.variables.len()", "state.variables.len()", "self.functions.len()")]
    for o in bad_orders:
        probs.append("order initialiser not understood: %r" % o)
    # loops over the literal map returned by parse_expr_ex / parse_expr_init_value_ex
    unsorted = 0
    sorted_ = 0
    for m in re.finditer(r"let res = self\.(parse_expr_ex|parse_expr_init_value_ex)\(pairs\)\?;(.*?)Ok\(res\.0\)", src, re.S):
        blk = m.group(2)
        if re.search(r"for k in &res\.1 \{", blk):
            unsorted += 1
        elif re.search(r"let mut literals: Vec<\(&String, &String\)> = res\.1\.iter\(\)\.collect\(\);\s*literals\.sort", blk) and re.search(r"for k in literals \{", blk):
            sorted_ += 1
        else:
            probs.append("literal collection loop after %s not recognised" % m.group(1))
    L = ["/-- comparator of sorted_variables / sorted_functions: \"order\" or \"order_name\" (order, then key) -/",
         'def cmpVariables : String := "%s"' % cv,
         'def cmpFunctions : String := "%s"' % cf,
         "/-- number of `order: <map>.len()` initialisers found -/",
         "def orderSites : Nat := %d" % len(orders),
         "/-- literal-collection loops iterating a HashMap directly / over sorted keys -/",
         "def literalLoopsUnsorted : Nat := %d" % unsorted,
         "def literalLoopsSorted : Nat := %d" % sorted_,
         "/-- iterations over hash maps / sets found in the source (all audited as order-insensitive or sorted) -/",
         "def hashIterationSites : Nat := %d" % len(sites)]
    return "\n".join(L) + "\n", probs
