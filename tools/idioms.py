"""Catalogue of one-statement idioms: every kind of assignable operand x every assignment form x every kind of
right operand.  Shared by C13 (every emitted line assembles, every label is defined), C15 (the two spellings of
an update behave alike), C16 (no input crashes the compiler) and C01 (the statement does what C says)."""

DECL = "unsigned char v0, v1; unsigned short s0, s1; unsigned char a0[4]; unsigned short w0[4]; char *p0;\n"
LVS = [("v0", 8), ("s0", 16), ("a0[X]", 8), ("a0[Y]", 8), ("a0[2]", 8), ("a0[v1]", 8), ("w0[X]", 16), ("w0[Y]", 16),
       ("w0[1]", 16), ("w0[v1]", 16), ("p0[Y]", 8), ("p0[2]", 8), ("X", 8), ("Y", 8)]
ARITH = ["+", "-", "&", "|", "^"]
SHIFTS = ["<<", ">>"]


def operands(bits):
    return ["1", "255", "v1", "a0[X]"] if bits == 8 else ["1", "255", "300", "33025", "v1", "s1", "w0[X]"]


def pairs():
    """(rule, compound spelling, long spelling, width of the assigned operand)"""
    out = []
    for lv, bits in LVS:
        for op in ARITH:
            for e in operands(bits):
                out.append(("opassign", "%s %s= %s;" % (lv, op, e), "%s = %s %s %s;" % (lv, lv, op, e), bits))
        for op in SHIFTS:
            for n in (["1", "3", "7"] if bits == 8 else ["1", "3", "7", "8", "9"]):
                out.append(("opassign-shift", "%s %s= %s;" % (lv, op, n), "%s = %s %s %s;" % (lv, lv, op, n), bits))
        out.append(("incr", "++%s;" % lv, "%s += 1;" % lv, bits))
        out.append(("incr", "%s++;" % lv, "%s += 1;" % lv, bits))
        out.append(("incr", "--%s;" % lv, "%s -= 1;" % lv, bits))
        out.append(("incr", "%s--;" % lv, "%s -= 1;" % lv, bits))
    return out


def wrap(stmt):
    return DECL + "void main() { %s }\n" % stmt


def statements():
    seen, out = set(), []
    for _, a, b, _ in pairs():
        for s in (a, b):
            if s not in seen:
                seen.add(s); out.append(s)
    for lv, bits in LVS:
        for e in operands(bits) + ["X", "Y"]:
            s = "%s = %s;" % (lv, e)
            if s not in seen:
                seen.add(s); out.append(s)
    return out


# ---- signed operands: comparisons (BMI / BPL), widening (sign extension), shifts; directly and inside an inline function
SDECL = "signed char g0, g1; short z0; unsigned char v0; signed char h0[4];\n"


def signed_statements():
    out = []
    for a in ("g0", "h0[X]", "h0[1]", "z0"):
        for op in ("<", ">=", ">", "<=", "==", "!="):
            for b in ("0", "g1", "5", "-3"):
                out.append("if (%s %s %s) v0 = 1;" % (a, op, b))
                out.append("while (%s %s %s) { %s++; }" % (a, op, b, "g0" if a != "g0" else "g1"))
    for src in ("g0", "h0[X]", "h0[2]", "-g0", "g0 >> 1", "g0 + g1"):
        out += ["z0 = %s;" % src, "z0 += %s;" % src, "v0 = %s;" % src]
    return out


def signed_programs():
    """each statement in main, and in an inline function expanded twice (labels and branches of every kind renamed)"""
    out = []
    for st in signed_statements():
        out.append(SDECL + "void main() { %s }\n" % st)
        out.append(SDECL + "inline void k() { %s }\nvoid main() { k(); v0 = 2; k(); }\n" % st)
    return out
