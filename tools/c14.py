"""C14 — inlining is transparent.

  proof  : lean/CV/Props/C14.lean (expansion preserves instructions; label lookup commutes with the
           renaming; the inline return lands right after the body; uniqueness/closure from C13)
  tie    : append_code() vs CV.Inline.appendCode on random vectors
  search : generated programs with up to 5 inline-eligible functions (calls nested, in loops and
           branches, early returns, return values used in expressions): every subset of them marked
           `inline` is compiled at -O0 and -O1 and executed from the same initial states as the
           unmarked program; termination, every variable, X and Y must agree.
"""
import itertools, c02, re
from lib import *
import prog, gen_c, coexec, c13

TRUSTED = ["Lean 4 kernel; axioms allowed: propext, Classical.choice, Quot.sound",
           "specification: CV/Mos.lean + CV/Exec.lean (6502 and line-level execution) for the co-execution",
           "tie: differential testing of CV.Inline.appendCode against AssemblyCode::append_code",
           "equality of runs between the JSR/RTS and the expanded version is decided per program (co-execution), not proved"]


def ret_program(rng):
    """functions with return values used in larger expressions, early returns, loops in the body"""
    n = rng.randint(1, 4)
    src = ["unsigned char v0, v1, v2, v3, r;"]
    names = []
    for i in range(n):
        f = "g%d" % i
        kind = rng.random()
        body = []
        if kind < 0.3:
            body.append("if (v%d > %d) return %d;" % (rng.randrange(3), rng.choice([1, 7, 100]), rng.choice([1, 2, 9])))
        if kind < 0.6:
            body.append("for (v3 = 0; v3 < %d; v3++) { v%d += %d; }" % (rng.randint(1, 3), rng.randrange(3), rng.randint(1, 5)))
        if names and rng.random() < 0.5:
            body.append("v%d = %s() + %d;" % (rng.randrange(3), rng.choice(names), rng.randint(0, 3)))
        body.append("return v%d %s %d;" % (rng.randrange(3), rng.choice(["+", "^", "&", "|"]), rng.choice([1, 3, 15, 128])))
        src.append("unsigned char %s() { %s }" % (f, " ".join(body)))
        names.append(f)
    main = []
    for _ in range(rng.randint(1, 4)):
        f = rng.choice(names)
        k = rng.random()
        if k < 0.3:
            main.append("r = %s();" % f)
        elif k < 0.5:
            main.append("v1 = %s() + v0;" % f)
        elif k < 0.7:
            main.append("if (%s() %s %d) v2 = %d; else v2++;" % (f, rng.choice(["==", "!=", "<", ">="]), rng.choice([1, 3, 100]), rng.randint(1, 9)))
        elif k < 0.85:
            main.append("for (v3 = 0; v3 < 2; v3++) { r ^= %s(); }" % f)
        else:
            main.append("%s();" % f)
    src.append("void main() { %s }" % " ".join(main))
    return "\n".join(src) + "\n", names


def mark(src, names, subset):
    out = src
    for f in names:
        if f in subset:
            out = re.sub(r"^(unsigned char|void) %s\(\)" % f, r"inline \1 %s()" % f, out, flags=re.M)
    return out


def run(chk):
    ok, obligations = prepare(chk)
    if not ok:
        return chk.finish(obligations=obligations, trusted_base=TRUSTED)
    h = Harness(); m = Model(); rng = chk.rng
    # tie: append_code
    for it in range(chk.scale(400, 6000)):
        labels = [".l%d" % i for i in range(rng.randint(1, 4))]
        callee, caller = c13.rand_code(rng, labels), c13.rand_code(rng, labels)
        n = rng.choice([1, 2, 9, 10, 11, 99, 100])
        req = "inline %d %s / %s" % (n, toks_of_lines(callee), toks_of_lines(caller))
        real = h.req(req); mod = m.req(req)
        chk.count("tie_inline")
        if real.get("status") != "ok" or mod != "ok 0 " + toks_of_lines(real["code"]["lines"]):
            chk.tie_broken("append_code: model and code disagree", {"counter": n, "callee": [show_line(l) for l in callee], "caller": [show_line(l) for l in caller]})
    progs = []
    for c in chk.corpus():
        names = re.findall(r"^inline (?:unsigned char|void) (\w+)\(\)", c, flags=re.M)
        progs.append((c.replace("inline ", ""), names))
    for i in range(chk.scale(60, 1200)):
        if rng.random() < 0.5:
            progs.append(ret_program(rng))
        else:
            p = gen_c.program(rng, shorts=False, inline_rate=0.0, gotos=False)
            names = [f[1] for f in p.funcs if f[1] != "main"]
            if names:
                progs.append((p.text, names))
    # ---- deterministic shapes: where a void function returns (after a nested if, inside a loop, from a switch,
    #      from both arms ...) x what the caller does right behind the call (stores a constant the body also used,
    #      reads what the body wrote, tests it ...), for every combination of the two inputs; the verdicts go to r[] ----
    K1, K2 = 1, 2
    SHAPES = ["if (a) { if (b) { y = %d; } return; } y = %d;" % (K1, K2),
              "if (a) { y = %d; return; } y = %d;" % (K1, K2),
              "if (a) return; y = %d;" % K2,
              "if (a) { } else { return; } y = %d;" % K2,
              "if (a) { if (b) y = %d; else return; } y = %d;" % (K1, K2),
              "while (a) { a--; if (b) return; } y = %d;" % K2,
              "do { if (b) { y = %d; return; } a--; } while (a); y = %d;" % (K1, K2),
              "for (i = 0; i < 2; i++) { if (a) return; y++; } y = %d;" % K2,
              "switch (a) { case 1: y = %d; return; case 2: break; } y = %d;" % (K1, K2),
              "if (a) { if (b) { y = %d; } } else { y = %d; return; } y = %d;" % (K1, K2, K2),
              "if (a && b) return; y = %d;" % K2,
              "y = %d; if (a) { if (b) { return; } y = %d; }" % (K2, K1)]
    AFTER = ["z = %d;" % K2, "z = %d;" % K1, "z = y;", "if (y == %d) z = 1; else z = 3;" % K2, "X = %d; z = X;" % K2, "z = %d; z = z + y;" % K2, "z = a;"]
    for sh in SHAPES:
        for af in AFTER:
            blocks = []
            k = 0
            for A in (0, 1, 2):
                for B in (0, 1):
                    blocks.append("a = %d; b = %d; y = 9; z = 0; f(); %s r[%d] = z; r[%d] = y;" % (A, B, af, k, k + 1))
                    k += 2
            src = "unsigned char a, b, y, z, i;\nramchip unsigned char r[12];\nvoid f() { %s }\nvoid main() { %s }\n" % (sh, " ".join(blocks))
            progs.append((src, ["f"]))
    # ---- a body too long for a branch: the call guarded by a comparison (marked inline, the guard's branch has to
    #      be repaired over the expanded body), every comparison operator, the compared value below / at / above the
    #      bound; the call in an if, as the body of a while and of a do-while ----
    big = " ".join("t[%d] = %d;" % (i, i + 1) for i in range(44))
    for op in ("<", "<=", ">", ">=", "==", "!="):
        for frame in ("if (x %s 5) f();", "while (x %s 5 && n < 2) { f(); n++; }", "do { f(); n++; } while (x %s 5 && n < 2);"):
            blocks = " ".join("n = 0; x = %d; %s r[%d] = t[0]; r[%d] = n; t[0] = 0;" % (v, frame % op, 2 * j, 2 * j + 1) for j, v in enumerate((4, 5, 6)))
            src = "unsigned char x, n;\nunsigned char t[44];\nramchip unsigned char r[6];\nvoid f() { %s }\nvoid main() { %s }\n" % (big, blocks)
            progs.append((src, ["f"]))
    nstates = chk.scale(8, 32)
    for (src, names) in progs:
        names = names[:5]
        for level in (0, 1):
            base = h.compile(src, level)
            if base["status"] != "ok":
                chk.count("compile_" + base["status"]); break
            states, lay = coexec.init_states(base, nstates, seed=stable_hash(src))
            b_out, _ = coexec.run_all(m, "c14", base, states, lay)
            if b_out is None:
                chk.count("unloadable"); break
            subsets = [s for k in range(1, len(names) + 1) for s in itertools.combinations(names, k)]
            if chk.quick() and len(subsets) > 7:
                subsets = rng.sample(subsets, 7)
            for sub in subsets:
                msrc = mark(src, names, sub)
                r = h.compile(msrc, level)
                chk.case(key=(msrc, level), nontrivial=True)
                chk.count("markings")
                if len(chk.coverage["samples"]) < 3:
                    chk.sample({"marked": msrc[:500]})
                if r["status"] != "ok":
                    chk.count("marked_" + r["status"])       # an inline function the compiler cannot expand is rejected: fine
                    continue
                if level >= 1:
                    # the caller with the expanded body went through the optimiser: every removal must be justified
                    # by the proved validator (CV.C02.validated_function_equivalent) or lie in a documented gap
                    c02.validate_program(chk, m, r, msrc, level)
                o, _ = coexec.run_all(m, "c14", r, states, lay)
                if o is None:
                    chk.fail("inline-does-not-assemble", "the program with %s inline does not load into the 6502 model" % (sub,), {"source": msrc, "level": level}); continue
                for st, x, y in zip(states, b_out, o):
                    chk.count("runs")
                    if x["stop"].startswith("fault"):
                        continue
                    if coexec.observable(x, lay[3]) != coexec.observable(y, lay[3]):
                        chk.fail("inline-changes-behaviour", "marking %s inline changes the final state at -O%d" % (list(sub), level),
                                 {"source": msrc, "plain": src, "level": level, "initial": {"x": st["x"], "y": st["y"]},
                                  "plain_result": coexec.describe(lay[3], x), "inline_result": coexec.describe(lay[3], y)})
                        break
    h.close(); m.close()
    return chk.finish(level="proof", obligations=obligations, trusted_base=TRUSTED,
                      checker_cmd="cd /verif/lean && lake build CV.Props.C14 && lake env lean .lake/audit/C14_audit.lean",
                      extra={"rule": "programs with 1-5 inline-eligible functions (nested calls, loops and early returns in bodies, return values in "
                                     "conditions/arithmetic/loops); every subset (sampled to 7 in the quick tier) marked inline, -O0 and -O1, %d states" % nstates})
