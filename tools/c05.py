"""C05 — output is a deterministic function of source and options.

  proof  : lean/CV/Props/C05.lean (sorted enumeration independent of hash order for a total comparator;
           fresh inserts give distinct orders; re-insertion ties; what the translator found this run)
  tie    : T — comparators of sorted_variables/sorted_functions, `order:` initialisers and the literal
           collection loops are extracted from src/compile.rs on every run and the theorems are
           instantiated with them
  search : every program compiled 16x in one process (each HashMap draws fresh hash keys) and in 6
           fresh processes, after other programs: output bytes, sorted_variables, sorted_functions,
           call tree, diagnostics must be identical.
"""
from lib import *
import prog, gen_c

TRUSTED = ["Lean 4 kernel; axioms allowed: propext, Classical.choice, Quot.sound",
           "std::collections::HashMap iteration order is arbitrary: modelled as a universally quantified permutation",
           "translator tools/xt_symtab.py (fails closed)",
           "hidden state other than hash seeds (statics, environment) is covered only by the repeated-compilation search"]


def fingerprint(r):
    if r["status"] == "ok":
        return ("ok", r["out"], tuple(v["name"] for v in r["vars"]), tuple(f["name"] for f in r["funcs"]),
                json.dumps(r["tree"]), json.dumps(r["inuse"]))
    if r["status"] == "err":
        e = r["err"]
        return ("err", e["kind"], e["file"], e["line"], e["msg"])
    return (r["status"],)


def special_programs(rng):
    out = []
    # several literals in one expression / statement
    out.append('char *p, *q;\nvoid f(char *a, char *b) { p = a; q = b; }\nvoid main() { f("ab", "cd"); f("x", "yz"); }\n')
    out.append('char *p;\nvoid g(char *a, char *b, char *c) { p = a; }\nvoid main() { g("one", "two", "three"); }\n')
    # prototypes then definitions, parameters declared at both
    out.append("void f(); void g() {} void f() {} void h() {}\nvoid main() { f(); g(); h(); }\n")
    out.append("void f(char a, char b); void g(char c) {} void f(char a, char b) { g(a); } void h() {}\nvoid main() { f(1, 2); h(); }\n")
    out.append("char x;\nvoid a1(); void a2(); void a3();\nvoid a3() { x = 3; } void a2() { x = 2; } void a1() { x = 1; } void a4() {}\nvoid main() { a1(); a2(); a3(); a4(); }\n")
    # many functions and an interrupt
    fs = "".join("void f%d() { v%d = %d; }\n" % (i, i % 4, i) for i in range(12))
    out.append("unsigned char v0, v1, v2, v3;\n" + fs + "void interrupt irq() { v0++; }\nvoid main() { " + " ".join("f%d();" % i for i in range(12)) + " }\n")
    # several interrupt functions, each with callees of its own (every one is a root of the in-use set)
    out.append("unsigned char v0, v1;\nvoid ack1() { v0++; }\nvoid ack2() { v1++; }\nvoid ack3() { v0--; }\n"
               "void interrupt nmi() { ack1(); }\nvoid interrupt irq() { ack2(); }\nvoid interrupt brk() { ack3(); ack1(); }\nvoid main() { v0 = 1; }\n")
    # the same local name declared again in sibling blocks, in nested blocks, in both arms of an if, in several
    # functions (the generated names of locals depend on what was declared before them in the compilation)
    out.append("char out;\nvoid main() {\n  { char i; i = 1; out = i; }\n  { char i; i = 2; out = i; }\n  { char i; i = 3; out = i; }\n}\n")
    out.append("char out;\nvoid f() { { char i; i = 1; out = i; } { char i; char j; i = 2; j = i; out = j; } }\n"
               "void g() { char i; i = 4; { char i; i = 5; out = i; } { char i; i = 6; out = i; } out = i; }\nvoid main() { f(); g(); f(); }\n")
    out.append("char out, c;\nvoid main() { if (c) { char t; t = 1; out = t; } else { char t; t = 2; out = t; }\n"
               "  while (c) { char t; t = c; c = 0; out = t; }\n  { short t; t = 300; out = t >> 8; } }\n")
    # errors (diagnostics must be deterministic too)
    out.append("char a;\nvoid main() { b = 1; }\n")
    out.append('char *p;\nvoid f(char *a, char *b) { p = a; }\nvoid main() { f("ab", "cd") }\n')
    return out


def run(chk):
    ok, obligations = prepare(chk)
    if not ok:
        return chk.finish(obligations=obligations, trusted_base=TRUSTED)
    rng = chk.rng
    h = Harness()
    sources = chk.corpus() + special_programs(rng) + prog.repo_test_inputs()[:: chk.scale(6, 1)]
    for i in range(chk.scale(40, 600)):
        sources.append(gen_c.program(rng, shorts=rng.random() < 0.3, inline_rate=0.3, gotos=True).text)
    reps = chk.scale(16, 48)
    fresh = [Harness() for _ in range(chk.scale(3, 6))]
    for idx, src in enumerate(sources):
        base = fingerprint(h.compile(src, 1))
        chk.case(key=src, nontrivial=src.count('"') >= 4 or src.count("(") > 6)
        if idx < 3:
            chk.sample({"program": src[:400]})
        bad = None
        for k in range(reps - 1):
            f = fingerprint(h.compile(src, 1))
            chk.count("compilations")
            if f != base:
                bad = ("same process, compilation %d" % (k + 2), f); break
        if bad is None:
            for j, hh in enumerate(fresh):
                # each fresh process has compiled different things before (history independence)
                f = fingerprint(hh.compile(src, 1))
                chk.count("compilations")
                if f != base:
                    bad = ("another process (%d)" % j, f); break
        if bad is not None:
            where, f = bad
            what = "output"
            sig = "nondeterministic-output"
            if base[0] == "ok" and f[0] == "ok":
                if base[2] != f[2]:
                    what = "order of variables %s vs %s" % ([unhx(x) for x in base[2]][-6:], [unhx(x) for x in f[2]][-6:])
                    sig = "literal-order" if any(unhx(x).startswith("cctmp") for x in base[2]) else "variable-order"
                elif base[3] != f[3]:
                    what = "order of functions %s vs %s" % ([unhx(x) for x in base[3]], [unhx(x) for x in f[3]])
                    sig = "function-order"
            chk.fail(sig, "compiling the same source twice gave different results (%s): %s" % (where, what), {"source": src, "where": where})
    h.close()
    for hh in fresh:
        hh.close()
    return chk.finish(level="proof", obligations=obligations, trusted_base=TRUSTED,
                      checker_cmd="cd /verif/lean && lake build CV.Props.C05 && lake env lean .lake/audit/C05_audit.lean",
                      extra={"rule": "programs with several literals per expression, prototypes before definitions, re-declared parameters, many "
                                     "functions, interrupts, erroneous programs, repository inputs, generated programs; each compiled %d times in one "
                                     "process and once in each of %d other processes with a different history" % (reps, len(fresh))})
