"""C08 — macro expansion is token-exact.

  proof  : lean/CV/Props/C08.lean (whole-word exactness of the `\\bNAME\\b` substitution on the model:
           unchanged without a whole-word occurrence, never inside a longer identifier, markers opaque,
           a whole-word occurrence is replaced; witnesses of the edge deviations)
  tie    : cpp::process vs CV.Cpp.process (hook H2) on random macro sets and use sites
  search : an independent C-rule expander (tools/c08.py: tokens, arguments by position with nested
           parentheses and nested calls, rescanning) against the real preprocessor on macro sets where
           C and the implementation are meant to agree: object-like and function-like macros with 0..4
           parameters, bodies over earlier macros, more than 100 macros, #undef, -D definitions; uses
           next to operators, inside longer identifiers, inside strings, as arguments of other macros.
"""
import re
from lib import *
import cpptie, gen_cpp

TRUSTED = ["Lean 4 kernel; axioms allowed: propext, Classical.choice, Quot.sound",
           "regex crate semantics used by cpp.rs (\\b, replace_all = leftmost non-overlapping, $name templates) as documented",
           "specification: C's macro expansion as implemented by the independent expander in tools/c08.py",
           "known edge deviations (witness theorems) are not generated: bodies naming later macros, -D values naming macros, parameters named like macros, self-reference, "
           "#undef of a macro another macro's body was built from (bodies are expanded at definition time)"]

TOK = re.compile(r"[A-Za-z_][A-Za-z0-9_]*|\d+|@\d+@|\"(?:[^\"\\]|\\.)*\"|\s+|.", re.S)


def toks(s):
    return [t for t in TOK.findall(s) if not t.isspace()]


def c_expand(text, macros, hide=frozenset()):
    """C-rule expansion of a token list; macros: name -> (params|None, body text)"""
    ts = TOK.findall(text)
    out = []
    i = 0
    while i < len(ts):
        t = ts[i]
        if re.fullmatch(r"[A-Za-z_][A-Za-z0-9_]*", t) and t in macros and t not in hide:
            params, body = macros[t]
            if params is None:
                out.append(c_expand(body, macros, hide | {t}))
                i += 1
                continue
            if i + 1 < len(ts) and ts[i + 1] == "(":
                # collect arguments
                depth, j, args, cur = 0, i + 1, [], []
                ok = False
                while j < len(ts):
                    x = ts[j]
                    if x == "(":
                        depth += 1
                        if depth > 1:
                            cur.append(x)
                    elif x == ")":
                        depth -= 1
                        if depth == 0:
                            args.append("".join(cur)); ok = True; break
                        cur.append(x)
                    elif x == "," and depth == 1:
                        args.append("".join(cur)); cur = []
                    else:
                        cur.append(x)
                    j += 1
                if ok and (len(args) == len(params) or (len(params) == 0 and args == [""])):
                    eargs = [c_expand(a, macros, hide) for a in args]
                    bt = TOK.findall(body)
                    sub = "".join(eargs[params.index(b)] if b in params else b for b in bt)
                    out.append(c_expand(sub, macros, hide | {t}))
                    i = j + 1
                    continue
        out.append(t)
        i += 1
    return "".join(out)


def macro_program(rng, many=False):
    """(source text, defines, expected token lists per output line or None, macros dict)"""
    macros = {}
    order = []
    lines, expect = [], []
    defines = []
    names_pool = ["MAX", "MIN", "N", "FLAG", "AB", "A", "B", "foo", "bar", "SZ", "K1", "K2", "W", "H"]
    used = set()
    def fresh():
        for _ in range(50):
            n = rng.choice(names_pool) + (str(rng.randint(0, 99)) if rng.random() < 0.6 or many else "")
            if n not in used:
                used.add(n); return n
        n = "Q%d" % len(used); used.add(n); return n
    for i in range(rng.randint(0, 2)):
        n = fresh(); v = rng.choice(["1", "7", "0x10", "(3)"])
        defines.append("%s=%s" % (n, v)); macros[n] = (None, v); order.append(n)
    nmac = rng.randint(101, 130) if many else rng.randint(1, 8)
    def body(params):
        parts = []
        for _ in range(rng.randint(1, 5)):
            k = rng.random()
            if params and k < 0.4:
                parts.append(rng.choice(params))
            elif order and k < 0.6:
                m = rng.choice(order)
                if macros[m][0] is None:
                    parts.append(m)
                else:
                    parts.append("%s(%s)" % (m, ",".join(rng.choice(["1", "2", "x"] + (params or [])) for _ in macros[m][0])))
            elif k < 0.8:
                parts.append(rng.choice(["1", "2", "42", "x", "y1"]))
            else:
                parts.append(rng.choice(["+", "*", "-", "&"]))
        s = " ".join(parts)
        return "(" + s + ")" if rng.random() < 0.5 else s
    def use_line():
        parts = []
        for _ in range(rng.randint(1, 4)):
            k = rng.random()
            if order and k < 0.55:
                m = rng.choice(order)
                if macros[m][0] is None:
                    parts.append(rng.choice(["%s", "%s+1", "(%s)", "x=%s;", "%sX", "x%s", "_%s", "%s_", "a[%s]"]) % m)
                else:
                    args = []
                    for _ in macros[m][0]:
                        a = rng.choice(["1", "x", "(2,3)", "f(4)", "a+(b*(c))", "q[1]"] + [o for o in order if macros[o][0] is None][:3])
                        args.append(a)
                    call = "%s(%s)" % (m, ",".join(args))
                    # the name inside a longer identifier that is itself followed by `(` is a different function
                    deco = rng.random()
                    if deco < 0.12:
                        call = "x" + call
                    elif deco < 0.24:
                        call = "re_" + call
                    elif deco < 0.32:
                        call = "%sX(%s)" % (m, ",".join(args))
                    elif deco < 0.38:
                        call = "%s + 1" % m          # a function-like macro without arguments is not a use
                    parts.append(call)
            elif k < 0.7:
                parts.append(rng.choice(["foo1", "zz", "12", "y = 3;"]))
            else:
                parts.append(rng.choice(["+", "-", ";", "=="]))
        return " ".join(parts)
    for i in range(nmac):
        n = fresh()
        if rng.random() < 0.6:
            b = body(None)
            lines.append("#define %s %s" % (n, b)); macros[n] = (None, b)
        else:
            ps = rng.sample(["p", "q", "r", "s"], rng.randint(0, 4))
            b = body(ps) if ps else rng.choice(["77", "(1+2)"])
            lines.append("#define %s(%s) %s" % (n, ", ".join(ps), b)); macros[n] = (ps, b)
        order.append(n)
        if rng.random() < (0.1 if many else 0.5):
            l = use_line(); lines.append(l); expect.append(toks(c_expand(l, macros)))
        cands = [u for u in order if not any(re.search(r"\b%s\b" % re.escape(u), b) for k2, (ps2, b) in macros.items() if k2 != u)]
        if rng.random() < 0.08 and len(order) > 1 and cands:
            u = rng.choice(cands)
            # only macros no later body depends on may be undefined without changing the meaning of earlier text
            lines.append("#undef " + u); order.remove(u); del macros[u]
            l = "%s + 1" % u; lines.append(l); expect.append(toks(l))
    for _ in range(rng.randint(1, 4)):
        l = use_line(); lines.append(l); expect.append(toks(c_expand(l, macros)))
    return "\n".join(lines) + "\n", defines, expect


def nested_cases():
    """function-like macros nested in themselves and in each other, 1 to 5 deep, with an object-like macro defined
    before / after them used on the same line (each expansion pass of the implementation unfolds one level)"""
    out = []
    for depth in range(1, 6):
        for k_first in (True, False):
            for inner in ("add", "mix"):
                defs = ["#define add(a,b) a+b", "#define twice(a) (a)*2"]
                kdef = "#define K 3"
                lines = ([kdef] + defs) if k_first else (defs + [kdef])
                macros = {"add": (["a", "b"], "a+b"), "twice": (["a"], "(a)*2"), "K": (None, "3")}
                e = "1"
                for d in range(depth):
                    f = "add" if inner == "add" or d % 2 == 0 else "twice"
                    e = "add(%s,%d)" % (e, d + 2) if f == "add" else "twice(%s)" % e
                uses = ["x = add(%s,K);" % e, "y = %s + K;" % e, "z = K + twice(%s);" % e]
                expect = [toks(c_expand(u, macros)) for u in uses]
                out.append(("\n".join(lines + uses) + "\n", [], expect))
    return out


def run(chk):
    ok, obligations = prepare(chk)
    if not ok:
        return chk.finish(obligations=obligations, trusted_base=TRUSTED)
    h = Harness(); m = Model(); rng = chk.rng
    # ---- tie: model vs code ----
    for i in range(chk.scale(500, 8000)):
        src, defs, files = gen_cpp.rand_source(rng, with_includes=False, allow_errors=0.01)
        d, r = cpptie.compare(h, m, src, defs, files)
        chk.count("tie_" + r["status"])
        if d:
            chk.tie_broken("preprocessor: model and code disagree", {"source": src, "defines": defs, "real": d[0][:500], "model": d[1][:500]})
    # ---- against C's rule ----
    cases = nested_cases()
    for i in range(chk.scale(400, 6000) + len(cases)):
        many = rng.random() < 0.06
        src, defs, expect = cases[i] if i < len(cases) else macro_program(rng, many)
        r = h.cpp(src, defines=defs)
        chk.case(key=src, nontrivial=len(expect) > 1)
        chk.count("programs_many" if many else "programs")
        if i < 3:
            chk.sample({"source": src[:400], "defines": defs})
        d, _ = cpptie.compare(h, m, src, defs)
        if d:
            chk.tie_broken("preprocessor: model and code disagree", {"source": src, "defines": defs, "real": d[0][:500], "model": d[1][:500]})
        if r["status"] != "ok":
            chk.fail("macro-source-rejected", "well-formed macro source rejected: %s %s" % (r["status"], unhx(r.get("err", {}).get("msg")) if r["status"] == "err" else ""),
                     {"source": src, "defines": defs}); continue
        got = [toks(l) for l in unhx(r["out"]).split("\n") if l.strip()]
        if got != expect:
            k = next((j for j, (a, b) in enumerate(zip(got, expect)) if a != b), min(len(got), len(expect)))
            chk.fail("macro-expansion-differs-from-C", "line %d expands to `%s`, C's rule gives `%s`" % (k, " ".join(got[k]) if k < len(got) else None, " ".join(expect[k]) if k < len(expect) else None),
                     {"source": src, "defines": defs, "got": got, "expected": expect})
    # ---- strings are opaque ----
    for i in range(chk.scale(100, 1500)):
        name = rng.choice(["MAX", "foo", "N"])
        src = '#define %s 9\nchar *s = "%s and %s_x // %s";\nt = %s;\n' % (name, name, name, name, name)
        r = h.cpp(src)
        chk.case(key=src, nontrivial=True)
        if r["status"] != "ok" or [unhx(x) for x in r["literals"]] != ["%s and %s_x // %s" % (name, name, name)] or "t = 9;" not in unhx(r["out"]):
            chk.fail("macro-inside-string", "a macro name inside a string literal was touched (or the use outside was not expanded)", {"source": src, "out": unhx(r.get("out")), "literals": r.get("literals")})
    # ---- a command-line definition behaves like the #define: the whole compiler (its own -D parsing), values
    #      with every character a C expression can contain, including `=` ----
    VALUES = ["1", "v==5", "v == 3", "v>=2", "(v!=3)", "v<=3&&v!=0", "3", "", "(v=7)", "v==3==1", "w=v", "0x10", "'='", "v+1"]
    for val in VALUES:
        for use in ("if (MATCH) r = 1; else r = 2;", "r = MATCH;", "r = (MATCH) + 1;", "MATCH;"):
            if val == "" and use != "MATCH;":
                continue
            body = "unsigned char v, w, r;\nvoid main() { v = 3; %s }\n" % use
            a = h.compile(body, 0, defines=["MATCH=" + val] if val != "" else ["MATCH"])
            b = h.compile("#define MATCH %s\n" % val + body, 0)
            chk.case(key=(val, use), nontrivial=True)
            chk.count("dash_d_cases")
            if a["status"] != b["status"] or (a["status"] == "ok" and a["out"] != b["out"]):
                chk.fail("dash-d-differs-from-define", "-DMATCH=%s and `#define MATCH %s` compile `%s` differently" % (val, val, use),
                         {"source": body, "define": "MATCH=" + val, "with_D": (unhx(a.get("out", "")) or a["status"])[-400:], "with_define": (unhx(b.get("out", "")) or b["status"])[-400:]})
    h.close(); m.close()
    return chk.finish(level="proof", obligations=obligations, trusted_base=TRUSTED,
                      checker_cmd="cd /verif/lean && lake build CV.Props.C08 && lake env lean .lake/audit/C08_audit.lean",
                      extra={"rule": "random preprocessor sources for the tie; macro sets (1-8 or 101-130 macros, object-like / 0-4 parameters, bodies over earlier "
                                     "macros, -D, #undef) with uses next to operators, inside longer identifiers, as arguments with nested parentheses and calls, "
                                     "compared token by token with an independent C-rule expander; non-trivial = more than one use line"})
