"""Co-execution of compiled programs on the Lean 6502 model."""
import random
from lib import *
import prog

INTERESTING = [0, 1, 2, 3, 5, 7, 8, 15, 16, 100, 127, 128, 129, 200, 254, 255]


def init_states(result, n, seed):
    """n initial states: values for every RAM variable, A, X, Y (ROM data and constants fixed)"""
    env, init, ports, regions = prog.layout(result["vars"], result.get("scheme", "4K"))
    rs = random.Random(seed)
    out = []
    for k in range(n):
        mem = dict(init)
        for name, (a, nb, v) in regions.items():
            if v["def"][0] == "none" and not v["mem"].startswith("rom"):
                cell = a
                if v["mem"] == "superchip":
                    cell = a + 0x80          # cells live at the read port
                for i in range(nb):
                    mem[cell + i] = rs.choice(INTERESTING) if rs.random() < 0.7 else rs.randrange(256)
        out.append({"mem": mem, "a": rs.randrange(256), "x": rs.choice(INTERESTING), "y": rs.choice(INTERESTING),
                    "p": rs.choice([0, 1, 2, 3, 128, 129, 64, 195])})      # flags on entry: N=128 V=64 Z=2 C=1
    return out, (env, init, ports, regions)


def watch_list(regions):
    w = []
    for name, (a, nb, v) in sorted(regions.items()):
        if v["def"][0] == "none" and not v["mem"].startswith("rom"):
            w.append((a + 0x80 if v["mem"] == "superchip" else a, nb))
    w.append((0x80, 1))
    return w


def observable(res, regions, with_a=False):
    """what a program can observe at the end: every RAM variable, X, Y"""
    if not res["stop"].startswith("done"):
        return (res["stop"],)
    out = [res["stop"], res["X"], res["Y"], res.get("SP")]      # SP: what was pushed was pulled again
    if with_a:
        out.append(res["A"])
    # memory minus the trailing cctmp byte
    out.append(res["mem"][:-1].hex())
    return tuple(out)


def run_all(model, pid, result, states, layout_, which="code", fuel=20000, entry="main"):
    env, init, ports, regions = layout_
    ok, bad = prog.load(model, pid, result, which=which, env=env, ports=ports)
    if not ok:
        return None, bad
    w = watch_list(regions)
    outs = []
    for st in states:
        r = prog.run(model, pid, entry=entry, mem=st["mem"], a=st["a"], x=st["x"], y=st["y"], p=st.get("p", 0), fuel=fuel, watch=w)
        outs.append(r)
    return outs, None


def describe(regions, res):
    """variable values of a final state, for replays"""
    d = {"stop": res["stop"], "X": res.get("X"), "Y": res.get("Y"), "A": res.get("A"), "SP": res.get("SP")}
    off = 0
    for name, (a, nb, v) in sorted(regions.items()):
        if v["def"][0] == "none" and not v["mem"].startswith("rom"):
            d[name] = list(res["mem"][off:off + nb]) if "mem" in res else None
            off += nb
    return d
