"""debug helper: python3 dbg.py <file.c> <level> name=val ... [X=..] [Y=..]   — runs the compiled program and prints code + final state"""
import sys
sys.path.insert(0, '/verif/tools')
from lib import *
import prog, coexec
src = open(sys.argv[1]).read()
level = int(sys.argv[2])
init = dict(a.split("=") for a in sys.argv[3:])
feat = init.pop("feature", None)
h = Harness(feature=feat); m = Model()
r = h.compile(src, level)
print(r["status"], unhx(r.get("err", {}).get("msg")) if r["status"] == "err" else "")
if r["status"] == "ok":
    for f in r["funcs"]:
        if f["code"]:
            print(unhx(f["name"]) + ":"); print("\n".join(show_line(l) for l in f["code"]["lines"] if l[0] != "D"))
    env, im, ports, regions = prog.layout(r["vars"])
    prog.load(m, "d", r, env=env, ports=ports)
    mem = dict(im)
    for k, v in init.items():
        if k in regions:
            v = int(v); a, nb, _ = regions[k]
            mem[a] = v & 255
            if nb > 1: mem[a + 1] = v >> 8
    w = coexec.watch_list(regions)
    res = prog.run(m, "d", mem=mem, x=int(init.get("X", 0)), y=int(init.get("Y", 0)), fuel=50000, watch=w)
    print(coexec.describe(regions, res))
