"""Shared machinery of the cc6502 verification checks (see /verif/DESIGN.md, sections 2-3).

  * builds the Rust harness from /repo's *current working tree* (hooks on),
  * regenerates the translated tables and builds the Lean property module,
  * audits the axioms of every property theorem,
  * runs line-protocol conversations with the harness (real code) and the Lean driver (model),
  * applies the verdict rule and writes the evidence file.
"""
import json, os, re, subprocess, sys, time, random, hashlib, shutil

VERIF = os.path.dirname(os.path.dirname(os.path.abspath(__file__)))
REPO = os.environ.get("VERIF_REPO", "/repo")
LEAN = os.path.join(VERIF, "lean")
HARNESS = os.path.join(VERIF, "harness")
OUT = os.path.join(VERIF, "out")
ALLOWED_AXIOMS = {"propext", "Classical.choice", "Quot.sound"}


def hx(s):
    if isinstance(s, str):
        s = s.encode("utf-8", "surrogateescape")
    return s.hex() if s else "-"


def unhx(h):
    if h is None:
        return None
    if h == "-":
        return ""
    return bytes.fromhex(h).decode("utf-8", "replace")


def log(*a):
    print(*a, file=sys.stderr, flush=True)


# ----------------------------------------------------------------------------- processes

class Proc:
    def __init__(self, argv, env=None, cwd=None):
        self.argv, self.env, self.cwd = argv, env, cwd
        self.p = None
        self.restarts = 0
        self.marker = None
        self.noise = 0

    def start(self):
        e = dict(os.environ)
        if self.env:
            e.update(self.env)
        self.p = subprocess.Popen(self.argv, stdin=subprocess.PIPE, stdout=subprocess.PIPE,
                                  stderr=subprocess.DEVNULL, env=e, cwd=self.cwd, text=True, bufsize=1)

    def ask(self, line):
        if self.p is None or self.p.poll() is not None:
            if self.p is not None:
                self.restarts += 1
            self.start()
        try:
            self.p.stdin.write(line + "\n")
            self.p.stdin.flush()
            r = self.p.stdout.readline()
            while r and self.marker and not r.startswith(self.marker):
                self.noise += 1          # the library prints warnings on stdout
                r = self.p.stdout.readline()
            if r and self.marker:
                r = r[len(self.marker):]
        except (BrokenPipeError, OSError):
            r = ""
        if not r:
            # the process died on this request (abort / stack overflow / exit after a timeout)
            rc = self.p.wait()
            self.p = None
            return None, rc
        return r.rstrip("\n"), 0

    def close(self):
        if self.p and self.p.poll() is None:
            try:
                self.p.stdin.close()
                self.p.wait(timeout=5)
            except Exception:
                self.p.kill()
        self.p = None


class Harness(Proc):
    """The real code. Answers are JSON objects; a dead process is reported as status 'abort'."""

    def __init__(self, feature=None, timeout_ms=4000):
        tdir = "target_a26" if feature else "target"
        exe = os.environ.get("VH_EXE_A26" if feature else "VH_EXE") or os.path.join(HARNESS, tdir, "debug", "vh")   # override: coverage-instrumented build (tools/coverage.sh)
        os.makedirs(os.path.join(OUT, "tmp"), exist_ok=True)
        super().__init__([exe], env={"VH_TIMEOUT_MS": str(timeout_ms), "VH_TMP": os.path.join(OUT, "tmp")})
        self.feature = feature
        self.nreq = 0
        self.marker = "@@"

    def req(self, line, _retry=True):
        self.nreq += 1
        r, rc = self.ask(line)
        if r is None:
            return {"status": "abort", "rc": rc}
        try:
            d = json.loads(r)
        except Exception:
            return {"status": "garbled", "raw": r[:200]}
        if d.get("status") == "timeout":
            # the harness exits after reporting a timeout; make sure it is gone
            try:
                self.p.wait(timeout=5)
            except Exception:
                self.p.kill()
            self.p = None
            if _retry:
                # a watchdog expiry can be a stall of the machine (seen once under heavy load: the same request answered
                # in 4 ms afterwards): the verdict "timeout" stands only when a fresh process times out on it again
                self.timeout_retries = getattr(self, "timeout_retries", 0) + 1
                return self.req(line, _retry=False)
        return d

    def compile(self, src, level=1, flags=(), defines=(), files=(), name=None):
        toks = ["compile", str(level), ",".join(flags) if flags else "-", hx(src)]
        toks += ["D=" + hx(d) for d in defines]
        toks += ["F=" + hx(n) + ":" + hx(c) for n, c in files]
        if name:
            toks.append("M=" + hx(name))
        return self.req(" ".join(toks))

    def cpp(self, src, defines=(), files=(), name=None):
        toks = ["cpp", hx(src)]
        toks += ["D=" + hx(d) for d in defines]
        toks += ["F=" + hx(n) + ":" + hx(c) for n, c in files]
        if name:
            toks.append("M=" + hx(name))
        return self.req(" ".join(toks))


class Model(Proc):
    """The Lean driver (compiled from /verif/lean)."""

    def __init__(self):
        super().__init__([os.path.join(LEAN, ".lake", "build", "bin", "cvmodel")])
        self.nreq = 0

    def req(self, line):
        self.nreq += 1
        r, rc = self.ask(line)
        if r is None:
            return "abort"
        return r


# ----------------------------------------------------------------------------- builds

def sh(cmd, cwd=None, env=None, timeout=3600):
    e = dict(os.environ)
    if env:
        e.update(env)
    p = subprocess.run(cmd, cwd=cwd, env=e, stdout=subprocess.PIPE, stderr=subprocess.STDOUT, text=True, timeout=timeout)
    return p.returncode, p.stdout


def stable_hash(text):
    """a hash that does not change from process to process (Python's str hash is salted): every random
    choice of a check derives from VERIF_SEED alone, so a run replays exactly"""
    import zlib
    return zlib.crc32(text.encode("utf-8", "replace")) & 0xFFFFFF


def build_harness(feature=None):
    """Rebuild the harness (and with it cc6502) from /repo's working tree, hooks on."""
    tdir = "target_a26" if feature else "target"
    cmd = ["cargo", "build", "--offline", "--target-dir", tdir]
    if feature:
        cmd += ["--features", feature]
    lock = os.path.join(HARNESS, "Cargo.lock")
    if not os.path.exists(lock):
        shutil.copy(os.path.join(REPO, "Cargo.lock"), lock)
    rc, out = sh(cmd, cwd=HARNESS, env={"CARGO_NET_OFFLINE": "true"})
    if rc != 0:
        log(out[-4000:])
    return rc == 0, out


def lake_build(targets):
    rc, out = sh(["lake", "build"] + targets, cwd=LEAN)
    return rc == 0, out


THEOREM_RE = re.compile(r"^\s*(?:private\s+|protected\s+)?theorem\s+([A-Za-z_][\w.']*)", re.M)


def theorems_of(module_file):
    txt = open(module_file).read()
    # strip block comments and line comments
    txt = re.sub(r"/-.*?-/", "", txt, flags=re.S)
    txt = re.sub(r"--.*", "", txt)
    ns = re.findall(r"^namespace\s+([\w.]+)", txt, flags=re.M)
    names = THEOREM_RE.findall(txt)
    return ns[0] if ns else None, names, txt


def audit_axioms(prop_id):
    """#print axioms on every theorem of CV/Props/<id>.lean. Returns (ok, {thm: [axioms]}, problems)."""
    f = os.path.join(LEAN, "CV", "Props", prop_id + ".lean")
    ns, names, txt = theorems_of(f)
    problems = []
    for bad in ("sorry", "admit", "native_decide", "bv_decide", "implemented_by", "maxHeartbeats 0"):
        if re.search(r"\b" + re.escape(bad) + r"\b", txt):
            problems.append("forbidden token in %s: %s" % (os.path.basename(f), bad))
    if re.search(r"^\s*axiom\s", txt, flags=re.M):
        problems.append("axiom declared in " + os.path.basename(f))
    os.makedirs(os.path.join(LEAN, ".lake", "audit"), exist_ok=True)
    af = os.path.join(LEAN, ".lake", "audit", prop_id + "_audit.lean")
    with open(af, "w") as o:
        o.write("import CV.Props.%s\n" % prop_id)
        for n in names:
            full = (ns + "." if ns else "") + n
            o.write("#print axioms %s\n" % full)
    rc, out = sh(["lake", "env", "lean", af], cwd=LEAN)
    res = {}
    cur = None
    for m in re.finditer(r"'([^']+)' (depends on axioms: \[([^\]]*)\]|does not depend on any axioms)", out, flags=re.S):
        name = m.group(1)
        axs = [a.strip() for a in (m.group(3) or "").replace("\n", " ").split(",") if a.strip()]
        res[name] = axs
        for a in axs:
            if a not in ALLOWED_AXIOMS:
                problems.append("theorem %s depends on axiom %s" % (name, a))
    if rc != 0:
        problems.append("axiom audit failed to run: " + out[-500:])
    for n in names:
        full = (ns + "." if ns else "") + n
        if full not in res:
            problems.append("no axiom report for " + full)
    # thorough tier: the compiled module is replayed through Lean's independent re-checker as well (every
    # declaration of CV.Props.<id> and of what it imports from this project is type-checked again by leanchecker)
    if os.environ.get("VERIF_TIER") == "thorough" and not problems:
        rc2, out2 = sh(["lake", "env", "leanchecker", "CV.Props." + prop_id], cwd=LEAN, timeout=1800)
        if rc2 != 0:
            problems.append("leanchecker rejects CV.Props.%s: %s" % (prop_id, out2[-400:]))
    return (not problems), res, problems


# ----------------------------------------------------------------------------- line vectors

def tok_of_line(l):
    k = l[0]
    if k == "L":
        return "L:" + l[1]
    if k == "I":
        return "I:%s:%s:%d:%d:%s:%s" % (l[1], l[2], l[3], l[4], "-" if l[5] is None else str(l[5]), "1" if l[6] else "0")
    if k == "N":
        return "N:%s:%d" % (l[1], l[2])
    if k == "C":
        return "C:" + l[1]
    return "D"


def toks_of_lines(ls):
    return " ".join(tok_of_line(l) for l in ls)


def L(s):
    return ["L", hx(s)]


def I(mn, op="", nb=None, cyc=2, alt=None, prot=False):
    if nb is None:
        nb = 1 if op == "" else 2
    return ["I", mn, hx(op), nb, cyc, alt, prot]


def N(s, size=3):
    return ["N", hx(s), size]


def C(s):
    return ["C", hx(s)]


D = ["D"]


def show_line(l):
    k = l[0]
    if k == "L":
        return unhx(l[1]) + ":"
    if k == "I":
        return "    %s %s%s" % (l[1], unhx(l[2]), "  ;protected" if l[6] else "")
    if k == "N":
        return "    <inline %r size=%d>" % (unhx(l[1]), l[2])
    if k == "C":
        return "    ;" + unhx(l[1])
    return "    <dummy>"


# ----------------------------------------------------------------------------- verdict / evidence

class Check:
    def __init__(self, prop_id, tier=None):
        self.id = prop_id
        self.tier = tier or os.environ.get("VERIF_TIER") or "quick"
        if self.tier not in ("quick", "thorough"):
            self.tier = "quick"
        try:
            self.seed = int(os.environ.get("VERIF_SEED", "1"))
        except ValueError:
            self.seed = 1
        self.rng = random.Random(self.seed * 1000003 + int(hashlib.sha256(prop_id.encode()).hexdigest()[:8], 16))
        self.t0 = time.time()
        self.violations = []      # (what, replay_path, no_input)
        self.max_violations = int(os.environ.get("VERIF_MAX_VIOLATIONS", "12"))
        self.known_hits = []
        self.proof_problems = []
        self.tie_problems = []
        self.coverage = {"evaluations": 0, "distinct_nontrivial": 0, "samples": []}
        self.assumptions = []
        self.distinct = set()
        self.stats = {}
        os.makedirs(os.path.join(OUT, "replays"), exist_ok=True)
        for f in os.listdir(os.path.join(OUT, "replays")):      # replays of earlier runs of this check
            if f.startswith(prop_id + "_"):
                try:
                    os.remove(os.path.join(OUT, "replays", f))
                except OSError:
                    pass
        os.makedirs(os.path.join(VERIF, "evidence"), exist_ok=True)
        kf = os.path.join(VERIF, "known_findings.json")
        self.known = [k for k in json.load(open(kf)).get("findings", []) if k.get("property") == prop_id] if os.path.exists(kf) else []

    def corpus(self):
        """minimised past failures (and regression cases of repaired defects): run first"""
        d = os.path.join(VERIF, "corpus", self.id)
        out = []
        if os.path.isdir(d):
            for f in sorted(os.listdir(d)):
                out.append(open(os.path.join(d, f)).read())
        return out + [k["exemplar"] for k in self.known if k.get("exemplar")]

    def quick(self):
        return self.tier == "quick"

    def scale(self, q, t):
        return q if self.quick() else t

    def count(self, key, n=1):
        self.stats[key] = self.stats.get(key, 0) + n

    def case(self, key=None, nontrivial=True):
        self.coverage["evaluations"] += 1
        if nontrivial and key is not None:
            self.distinct.add(hashlib.sha1(repr(key).encode()).hexdigest()[:16])

    def sample(self, s, limit=6):
        if len(self.coverage["samples"]) < limit:
            self.coverage["samples"].append(s)

    def write_replay(self, name, obj):
        p = os.path.join(OUT, "replays", "%s_%s.json" % (self.id, name))
        with open(p, "w") as o:
            json.dump(obj, o, indent=1, default=str)
        return p

    def known_sig(self, sig):
        for k in self.known:
            if k.get("signature") == sig and k.get("status", "open") == "open":
                return k
        return None

    def fail(self, sig, what, replay_obj, no_input=False):
        """A property failure with classifier signature `sig`."""
        k = self.known_sig(sig)
        if k is not None:
            if sig not in [h[0] for h in self.known_hits]:
                self.known_hits.append((sig, k.get("what_fails", what)))
            return
        if len(self.violations) >= self.max_violations:
            return
        name = "%d_%d" % (self.seed, len(self.violations))
        replay_obj = dict(replay_obj)
        replay_obj.update({"property": self.id, "signature": sig, "what": what})
        p = self.write_replay(name, replay_obj)
        self.violations.append((what, p, no_input))

    def proof_broken(self, what):
        self.proof_problems.append(what)

    def tie_broken(self, what, replay_obj=None):
        if len(self.tie_problems) < 12:
            self.tie_problems.append((what, replay_obj))

    def finish(self, level="proof", obligations=None, trusted_base=None, checker_cmd=None, extra=None):
        # a broken proof / tie with no concrete failing input found is still a violation
        if not self.violations:
            if self.proof_problems:
                p = self.write_replay("%d_proof" % self.seed, {"property": self.id, "broken": self.proof_problems})
                self.violations.append(("proof obligation no longer checks: " + "; ".join(self.proof_problems)[:300], p, True))
            elif self.tie_problems:
                p = self.write_replay("%d_tie" % self.seed, {"property": self.id,
                                      "broken_correspondence": [t[0] for t in self.tie_problems],
                                      "cases": [t[1] for t in self.tie_problems]})
                self.violations.append(("model/code correspondence broken: " + self.tie_problems[0][0][:300], p, True))
        cov = self.coverage
        cov["distinct_nontrivial"] = len(self.distinct)
        cov["stats"] = self.stats
        if obligations is not None:
            cov["obligations"] = len(obligations)
            cov["discharged"] = len(obligations) if not self.proof_problems else max(0, len(obligations) - len(self.proof_problems))
            cov["theorems"] = obligations
        if checker_cmd:
            cov["checker_cmd"] = checker_cmd
        if trusted_base is not None:
            cov["trusted_base"] = trusted_base
        if extra:
            cov.update(extra)
        cov["known_findings_hit"] = [h[0] for h in self.known_hits]
        cov["proof_problems"] = self.proof_problems
        cov["tie_problems"] = [t[0] for t in self.tie_problems]
        if not cov["samples"]:
            cov["samples"] = ["(no sample recorded)"]
        ev = {"property_id": self.id, "tier": self.tier, "seed": self.seed, "level": level,
              "coverage": cov, "assumptions": self.assumptions, "wall_s": round(time.time() - self.t0, 2),
              "violations": len(self.violations)}
        with open(os.path.join(VERIF, "evidence", self.id + ".json"), "w") as o:
            json.dump(ev, o, indent=1, default=str)
        for sig, what in self.known_hits:
            print("KNOWN-FINDING: property=%s %s [%s]" % (self.id, what, sig))
        for what, p, no_input in self.violations:
            log("violation: " + what)
            print("VIOLATION property=%s replay=%s%s" % (self.id, p, " no-failing-input-found" if no_input else ""))
        sys.stdout.flush()
        return 1 if self.violations else 0


def prepare(chk, prop_module=True, features=(None,)):
    """Common front part of every check: harness build(s), translator, Lean build, axiom audit.
    Returns (harness_ok, obligations)."""
    for ft in features:
        ok, out = build_harness(ft)
        if not ok:
            chk.tie_broken("harness does not build against /repo's working tree: " + out[-400:])
            return False, []
    obligations = []
    try:
        import extract_tables
        probs = extract_tables.regenerate(chk.id)
        for p in probs:
            chk.proof_broken("translator: " + p)
    except Exception as e:  # translator failure = broken obligation (fails closed)
        chk.proof_broken("translator failed: %r" % (e,))
    targets = ["cvmodel"]
    if prop_module:
        targets.insert(0, "CV.Props." + chk.id)
    ok, out = lake_build(targets)
    if not ok:
        errs = [l for l in out.splitlines() if "error" in l][:6]
        chk.proof_broken("lake build " + " ".join(targets) + " failed: " + " | ".join(errs)[:600])
        lake_build(["cvmodel"])
    if prop_module and ok:
        aok, res, problems = audit_axioms(chk.id)
        obligations = sorted(res.keys())
        for p in problems:
            chk.proof_broken(p)
    return True, obligations
