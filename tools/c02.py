"""C02 — optimisation never changes observable behaviour.

  proof  : lean/CV/Props/C02.lean (structural invariants of the optimiser by induction on its loop;
           what each removal/exchange changes, for all machine states and operands; soundness of the
           translation validator CV.Valid.validate: an accepted pair of functions returns in the same
           state or not at all, from every machine state, with no bound on steps)
  tie    : optimize() on random vectors biased to its rules, and every -O0 function dump of every
           compiled program, against CV.Opt.optimize (text + removed count)
  search : co-execution: every accepted program at -O0 vs -O1, -O2, -O3 from generated initial
           states: termination, every variable, X, Y must agree
"""
from lib import *
import prog, gasm, gen_c, coexec

TRUSTED = ["Lean 4 kernel; axioms allowed: propext, Classical.choice, Quot.sound",
           "specification: CV/Mos.lean (6502 semantics, binary mode), CV/Exec.lean (line-level execution of functions)",
           "tie: differential testing of CV.Opt.optimize against AssemblyCode::optimize",
           "translation validation: the loader's conversion of dumped lines to CV.Valid.VLine (Driver `validate`); an instruction outside the "
           "reasoned set (JSR, PHA/PLA, BIT, indirect JMP, unknown mnemonics) is an arbitrary but equal function of the machine state in both programs that continues at the next line; "
           "decimal mode and interrupts are not modelled",
           "a function the validator does not accept (about 3%: carry not provably dead behind a folded compare, PLA/PHA pair, load moved over two SEC) is decided by co-execution only"]

EXEMPLARS = []


def classify(src, result0):
    """signature of a failing program (which known mechanism, if any, it exercises)"""
    txt = src
    if "asm(" in txt:
        return "inline-asm-not-a-barrier"
    inl = any(f["inline"] for f in result0["funcs"])
    if inl:
        return "inline-drops-protected"
    return "O0-vs-O1-differs"


def validate_program(chk, m, r, src, level):
    """CV.Valid.validate (proved sound: CV.C02.validated_function_equivalent) on every function of a compiled
    program: `generated` = what the code generator produced, `optimized` = what the real optimiser made of it.
    Returns the number of functions the validator does not certify (no violation: they are left to co-execution)."""
    env, init, ports, regions = prog.layout(r["vars"])
    ok1, _ = prog.load(m, "va", r, which="generated", env=env, ports=ports)
    ok2, _ = prog.load(m, "vb", r, which="optimized", env=env, ports=ports)
    if not (ok1 and ok2):
        chk.count("validator_unloadable"); return 0
    bad = 0
    for f in r["funcs"]:
        if f["generated"] is None:
            continue
        a = m.req("validate va vb %s" % f["name"])
        if a.startswith("ok accepted"):
            chk.count("validator_certified_functions")
            n = int(a.split()[2])
            chk.count("validator_certified_changed_lines", n)
            if n:
                chk.count("validator_certified_functions_with_changes")
        elif a.startswith("ok rejected"):
            bad += 1
            parts = a.split()
            k = int(parts[2])
            reason = parts[4] if len(parts) > 4 else "other"
            g = f["generated"]["lines"]; o = f["optimized"]["lines"]
            why = g[k][1] if k < len(g) and g[k][0] == "I" else "other"
            became = ("removed" if o[k][0] == "D" else "exchanged-with-" + o[k][1] if o[k][0] == "I" else "other") if k < len(o) else "other"
            chk.count("validator_uncertified_functions")
            chk.count("validator_uncertified_at_" + why)
            # the documented gaps of the validator (DESIGN.md): a folded compare whose flags are not provably dead by
            # the straight-line liveness scan; a load moved over two flag instructions; a PLA/PHA pair. A function
            # the validator rejects for any other reason is an optimisation nobody has justified
            gap = (why in ("CMP", "CPX", "CPY") and became == "removed" and reason in ("carry", "flags")) or \
                  (why == "LDA" and became in ("exchanged-with-SEC", "exchanged-with-CLC")) or (why == "PLA" and became == "removed")
            chk.count("validator_gap_" + (reason if why in ("CMP", "CPX", "CPY") else why) if gap else "validator_unjustified")
            if not gap and len(chk.proof_problems) < 6:
                chk.proof_problems.append("function %s at -O%d is not certified by the proved validator and the rejection (line %d: %s %s, %s) is not one of its documented gaps: [%s] -> [%s]" % (
                    unhx(f["name"]), level, k, why, became, reason, " | ".join(show_line(l).strip() for l in g[max(0, k - 3):k + 4]), " | ".join(show_line(l).strip() for l in o[max(0, k - 3):k + 4])))
                chk.coverage.setdefault("unjustified_sources", []).append(src[:1500])
            if len(chk.coverage.setdefault("uncertified_samples", [])) < 6:
                chk.coverage["uncertified_samples"].append({"function": unhx(f["name"]), "level": level, "line": k,
                    "before": [show_line(l) for l in g[max(0, k - 3):k + 4]],
                    "after": [show_line(l) for l in f["optimized"]["lines"][max(0, k - 3):k + 4]]})
        else:
            chk.count("validator_no_answer")
    return bad


def run(chk):
    ok, obligations = prepare(chk)
    if not ok:
        return chk.finish(obligations=obligations, trusted_base=TRUSTED)
    h = Harness(); m = Model(); rng = chk.rng
    # ---- tie on random vectors ----
    for it in range(chk.scale(2000, 40000)):
        v = gasm.rand_vector(rng)
        t = toks_of_lines(v)
        r = h.req("opt " + t); a = m.req("opt " + t)
        chk.case(key=t, nontrivial=r.get("count", 0) > 0)
        chk.count("tie_opt_vectors")
        if r.get("status") != "ok" or a != "ok %d %s" % (r["count"], toks_of_lines(r["code"]["lines"])):
            chk.tie_broken("optimize: model and code disagree", {"input": [show_line(l) for l in v],
                           "real": [show_line(l) for l in r.get("code", {}).get("lines", [])], "model": a[:1500]})
    # ---- knowledge probes: LDr op ; <instructions> ; LDr op ; observer — tie AND execution of the really optimised vector ----
    for it in range(chk.scale(3200, 70000)):
        v = gasm.compare_probe(rng) if it % 5 == 4 else gasm.probe_vector(rng)
        t = toks_of_lines(v)
        r = h.req("opt " + t); a = m.req("opt " + t)
        chk.case(key=t, nontrivial=r.get("count", 0) > 0)
        chk.count("probe_vectors")
        mismatch = r.get("status") != "ok" or a != "ok %d %s" % (r["count"], toks_of_lines(r["code"]["lines"]))
        if r.get("status") == "ok" and (r["count"] > 0 or mismatch):
            before = gasm.run_vector(m, "c02v", v, it)
            after = gasm.run_vector(m, "c02w", r["code"]["lines"], it)
            chk.count("probe_executions")
            verdict = m.req("validate c02v c02w %s" % hx("f")) if before and after else ""
            certified = verdict.startswith("ok accepted")
            chk.count("probe_certified" if certified else "probe_uncertified")
            if certified and before and after and any(b is not None and b != c for b, c in zip(before, after)):
                chk.tie_broken("a pair the proved validator accepts behaves differently on the 6502 model: loader or execution model is wrong",
                               {"input": [show_line(l) for l in v], "optimized": [show_line(l) for l in r["code"]["lines"]]})
            if before and after:
                for b, c in zip(before, after):
                    if b is not None and b != c:
                        chk.fail("optimize-changes-vector-behaviour", "optimize() changes what a line vector computes (memory / X / Y at RTS)",
                                 {"input": [show_line(l) for l in v], "optimized": [show_line(l) for l in r["code"]["lines"]], "before": b, "after": c})
                        break
        if mismatch:
            chk.tie_broken("optimize: model and code disagree on a knowledge probe", {"input": [show_line(l) for l in v],
                           "real": [show_line(l) for l in r.get("code", {}).get("lines", [])], "model": a[:1500]})
    # ---- programs ----
    corpus = chk.corpus()
    sources = corpus + prog.repo_test_inputs()
    for i in range(chk.scale(300, 6000)):
        sources.append(gen_c.program(rng, placement=rng.choice(["zp", "zp", "mixed", "abs"]), shorts=rng.random() < 0.3,
                                     inline_rate=0.0, gotos=rng.random() < 0.3).text)
    # the deterministic idiom matrices (tools/matrix.py): -O0 against -O1..3 on every block
    import matrix
    sources += [p.text for p in matrix.all_programs(["update-then-test", "update-then-loop", "comparisons", "far", "switch", "triples", "precedence", "loop-headers", "wide", "nested", "calls", "pointers"])]
    nstates = chk.scale(12, 64)
    for src in sources:
        r0 = h.compile(src, 0)
        if r0["status"] != "ok":
            chk.count("compile_" + r0["status"]); continue
        if not any(unhx(f["name"]) == "main" for f in r0["funcs"]):
            continue
        # tie on every function dump
        r1 = h.compile(src, 1)
        if r1["status"] != "ok":
            chk.fail("level-dependent-acceptance", "accepted at -O0, %s at -O1" % r1["status"], {"source": src}); continue
        for f in r1["funcs"]:
            if f["generated"] is None:
                continue
            a = m.req("opt " + toks_of_lines(f["generated"]["lines"]))
            chk.count("tie_opt_functions")
            if a != "ok %d %s" % (f["counts"][0], toks_of_lines(f["optimized"]["lines"])):
                chk.tie_broken("optimize on a compiled function: model and code disagree", {"source": src, "function": unhx(f["name"])})
        # translation validation: every function the optimiser produced is put before the proved validator
        uncertified = validate_program(chk, m, r1, src, 1)
        states, lay = coexec.init_states(r0, nstates * (3 if uncertified else 1), seed=stable_hash(src))
        base, bad = coexec.run_all(m, "c02", r0, states, lay)
        if base is None:
            chk.count("unloadable"); continue
        chk.case(key=src, nontrivial=sum(f["counts"][0] for f in r1["funcs"]) > 0)
        if len(chk.coverage["samples"]) < 4:
            chk.sample({"program": src[:500]})
        texts = {}
        for level in (1, 2, 3):
            r = r1 if level == 1 else h.compile(src, level)
            if r["status"] != "ok":
                chk.fail("level-dependent-acceptance", "accepted at -O0, %s at -O%d" % (r["status"], level), {"source": src}); continue
            texts[level] = r["out"]
            if level > 1 and r["out"] == texts.get(1):
                chk.count("levels_textually_equal"); continue
            if level > 1:
                validate_program(chk, m, r, src, level)
            outs, bad = coexec.run_all(m, "c02", r, states, lay)
            if outs is None:
                chk.count("unloadable"); continue
            for st, b, o in zip(states, base, outs):
                chk.count("runs")
                if b["stop"].startswith("fault"):
                    chk.count("O0_fault"); continue
                ob, oo = coexec.observable(b, lay[3]), coexec.observable(o, lay[3])
                if ob != oo:
                    chk.fail(classify(src, r0), "-O%d and -O0 end in different states" % level,
                             {"source": src, "level": level, "initial": {"a": st["a"], "x": st["x"], "y": st["y"],
                              "mem": {str(k): v for k, v in st["mem"].items()}},
                              "O0": coexec.describe(lay[3], b), "O%d" % level: coexec.describe(lay[3], o)})
                    break
    h.close(); m.close()
    return chk.finish(level="proof", obligations=obligations, trusted_base=TRUSTED,
                      checker_cmd="cd /verif/lean && lake build CV.Props.C02 && lake env lean .lake/audit/C02_audit.lean",
                      extra={"rule": "random line vectors biased to the peephole rules; repository test inputs and generated programs "
                                     "(8/16-bit, arrays, X/Y, loops, switch, calls, gotos; zero-page and absolute placements) executed at -O0..3 from "
                                     "%d initial states each; non-trivial = the optimiser removed at least one instruction" % nstates})
