"""C02 — optimisation never changes observable behaviour.

  proof  : lean/CV/Props/C02.lean (structural invariants of the optimiser by induction on its loop;
           what each removal/exchange changes, for all machine states and operands)
  tie    : optimize() on random vectors biased to its rules, and every -O0 function dump of every
           compiled program, against CV.Opt.optimize (text + removed count)
  search : co-execution: every accepted program at -O0 vs -O1, -O2, -O3 from generated initial
           states: termination, every variable, X, Y must agree
"""
from lib import *
import prog, gasm, gen_c, coexec

TRUSTED = ["Lean 4 kernel; axioms allowed: propext, Classical.choice, Quot.sound",
           "specification: CV/Mos.lean (6502 semantics, binary mode), CV/Exec.lean (line-level execution of functions)",
           "tie: differential testing of CV.Opt.optimize against AssemblyCode::optimize",
           "liveness of the flags left different by a removal is decided per program by co-execution, not proved"]

EXEMPLARS = []


def classify(src, result0):
    """signature of a failing program (which known mechanism, if any, it exercises)"""
    txt = src
    if "asm(" in txt:
        return "inline-asm-not-a-barrier"
    inl = any(f["inline"] for f in result0["funcs"])
    if inl:
        return "inline-drops-protected"
    return "O0-vs-O1-differs"


def run(chk):
    ok, obligations = prepare(chk)
    if not ok:
        return chk.finish(obligations=obligations, trusted_base=TRUSTED)
    h = Harness(); m = Model(); rng = chk.rng
    # ---- tie on random vectors ----
    for it in range(chk.scale(2000, 40000)):
        v = gasm.rand_vector(rng)
        t = toks_of_lines(v)
        r = h.req("opt " + t); a = m.req("opt " + t)
        chk.case(key=t, nontrivial=r.get("count", 0) > 0)
        chk.count("tie_opt_vectors")
        if r.get("status") != "ok" or a != "ok %d %s" % (r["count"], toks_of_lines(r["code"]["lines"])):
            chk.tie_broken("optimize: model and code disagree", {"input": [show_line(l) for l in v],
                           "real": [show_line(l) for l in r.get("code", {}).get("lines", [])], "model": a[:1500]})
    # ---- knowledge probes: LDr op ; <instructions> ; LDr op ; observer — tie AND execution of the really optimised vector ----
    for it in range(chk.scale(3200, 70000)):
        v = gasm.compare_probe(rng) if it % 5 == 4 else gasm.probe_vector(rng)
        t = toks_of_lines(v)
        r = h.req("opt " + t); a = m.req("opt " + t)
        chk.case(key=t, nontrivial=r.get("count", 0) > 0)
        chk.count("probe_vectors")
        mismatch = r.get("status") != "ok" or a != "ok %d %s" % (r["count"], toks_of_lines(r["code"]["lines"]))
        if r.get("status") == "ok" and (r["count"] > 0 or mismatch):
            before = gasm.run_vector(m, "c02v", v, it)
            after = gasm.run_vector(m, "c02v", r["code"]["lines"], it)
            chk.count("probe_executions")
            if before and after:
                for b, c in zip(before, after):
                    if b is not None and b != c:
                        chk.fail("optimize-changes-vector-behaviour", "optimize() changes what a line vector computes (memory / X / Y at RTS)",
                                 {"input": [show_line(l) for l in v], "optimized": [show_line(l) for l in r["code"]["lines"]], "before": b, "after": c})
                        break
        if mismatch:
            chk.tie_broken("optimize: model and code disagree on a knowledge probe", {"input": [show_line(l) for l in v],
                           "real": [show_line(l) for l in r.get("code", {}).get("lines", [])], "model": a[:1500]})
    # ---- programs ----
    corpus = chk.corpus()
    sources = corpus + prog.repo_test_inputs()
    for i in range(chk.scale(300, 6000)):
        sources.append(gen_c.program(rng, placement=rng.choice(["zp", "zp", "mixed", "abs"]), shorts=rng.random() < 0.3,
                                     inline_rate=0.0, gotos=rng.random() < 0.3).text)
    nstates = chk.scale(12, 64)
    for src in sources:
        r0 = h.compile(src, 0)
        if r0["status"] != "ok":
            chk.count("compile_" + r0["status"]); continue
        if not any(unhx(f["name"]) == "main" for f in r0["funcs"]):
            continue
        # tie on every function dump
        r1 = h.compile(src, 1)
        if r1["status"] != "ok":
            chk.fail("level-dependent-acceptance", "accepted at -O0, %s at -O1" % r1["status"], {"source": src}); continue
        for f in r1["funcs"]:
            if f["generated"] is None:
                continue
            a = m.req("opt " + toks_of_lines(f["generated"]["lines"]))
            chk.count("tie_opt_functions")
            if a != "ok %d %s" % (f["counts"][0], toks_of_lines(f["optimized"]["lines"])):
                chk.tie_broken("optimize on a compiled function: model and code disagree", {"source": src, "function": unhx(f["name"])})
        states, lay = coexec.init_states(r0, nstates, seed=stable_hash(src))
        base, bad = coexec.run_all(m, "c02", r0, states, lay)
        if base is None:
            chk.count("unloadable"); continue
        chk.case(key=src, nontrivial=sum(f["counts"][0] for f in r1["funcs"]) > 0)
        if len(chk.coverage["samples"]) < 4:
            chk.sample({"program": src[:500]})
        texts = {}
        for level in (1, 2, 3):
            r = r1 if level == 1 else h.compile(src, level)
            if r["status"] != "ok":
                chk.fail("level-dependent-acceptance", "accepted at -O0, %s at -O%d" % (r["status"], level), {"source": src}); continue
            texts[level] = r["out"]
            if level > 1 and r["out"] == texts.get(1):
                chk.count("levels_textually_equal"); continue
            outs, bad = coexec.run_all(m, "c02", r, states, lay)
            if outs is None:
                chk.count("unloadable"); continue
            for st, b, o in zip(states, base, outs):
                chk.count("runs")
                if b["stop"].startswith("fault"):
                    chk.count("O0_fault"); continue
                ob, oo = coexec.observable(b, lay[3]), coexec.observable(o, lay[3])
                if ob != oo:
                    chk.fail(classify(src, r0), "-O%d and -O0 end in different states" % level,
                             {"source": src, "level": level, "initial": {"a": st["a"], "x": st["x"], "y": st["y"],
                              "mem": {str(k): v for k, v in st["mem"].items()}},
                              "O0": coexec.describe(lay[3], b), "O%d" % level: coexec.describe(lay[3], o)})
                    break
    h.close(); m.close()
    return chk.finish(level="proof", obligations=obligations, trusted_base=TRUSTED,
                      checker_cmd="cd /verif/lean && lake build CV.Props.C02 && lake env lean .lake/audit/C02_audit.lean",
                      extra={"rule": "random line vectors biased to the peephole rules; repository test inputs and generated programs "
                                     "(8/16-bit, arrays, X/Y, loops, switch, calls, gotos; zero-page and absolute placements) executed at -O0..3 from "
                                     "%d initial states each; non-trivial = the optimiser removed at least one instruction" % nstates})
