"""Generators of preprocessor inputs (text level; not necessarily valid C)."""
import random

IDS = ["foo", "bar", "baz", "x", "xy", "N", "MAX", "FLAG", "A", "B", "AB", "f", "g1"]
FRAGS = ["char a;", "a = b + 1;", "x = y;", "foo(bar, 3);", "  ", "\t", "int xy = MAX;", "AB + A*B", "if (FLAG) { N++; }",
         "g1(f(1,2), (3))", "a/b", "a / * b", "q = 'c';", "z = a*/**/b;"]
STRS = ['"abc"', '"a\\"b"', '"//x"', '"/* y */"', '"#define Z"', '"\\\\"', '"a\\\\"', '"foo MAX"', '""', '"\\n\\t"', '"it\'s"']


def rand_line(rng, macros):
    r = rng.random()
    parts = []
    for _ in range(rng.randint(1, 4)):
        x = rng.random()
        if x < 0.45:
            parts.append(rng.choice(FRAGS))
        elif x < 0.6:
            parts.append(rng.choice(STRS))
        elif x < 0.7:
            parts.append("/* " + rng.choice(["c", "a // b", "x \"y", "* /", "http://u.v", "#if 0"]) + " */")
        elif x < 0.8 and macros:
            m = rng.choice(macros)
            if m[1] is None:
                parts.append(m[0])
            else:
                args = [rng.choice(["1", "a", "(b,c)", "f(2)", "x y", "a+(b*(c))", rng.choice(IDS)]) for _ in m[1]]
                parts.append("%s(%s)" % (m[0], ", ".join(args) if rng.random() < 0.5 else ",".join(args)))
        else:
            parts.append(rng.choice(IDS))
    s = " ".join(parts)
    if rng.random() < 0.15:
        s += " // " + rng.choice(["trail", "with \"quote", "/* open", "*/"])
    return s


def rand_cond(rng, macros):
    x = rng.random()
    if x < 0.4:
        return rng.choice(["0", "1", "!0", "!1", "1 == 1", "0 == 1", "!0 == 1", "1 == 0 == 0", "2", "!!1"])
    obj = [m[0] for m in macros if m[1] is None]
    if obj and x < 0.8:
        m = rng.choice(obj)
        return rng.choice(["%s", "!%s", "%s == 1", "%s == 0"]) % m
    return rng.choice(["1", "0"])


def rand_source(rng, nlines=None, with_includes=False, allow_errors=0.05, cond_depth=3, _files=None, _level=0):
    """returns (text, defines, files); included files may include further files (two levels) and may
    contain errors, so that error locations inside nested includes are exercised"""
    macros = []      # (name, params|None)
    defines = []
    files = _files if _files is not None else []
    for i in range(rng.randint(0, 2)):
        n = "D%d" % i
        v = rng.choice(["1", "0", "7", "xy", ""])
        defines.append(n + ("=" + v if v != "" or rng.random() < 0.5 else ""))
        macros.append((n, None))
    lines = []
    depth = 0
    n = nlines or rng.randint(3, 25)
    in_block = False
    for _ in range(n):
        x = rng.random()
        if in_block:
            if x < 0.5:
                lines.append(rng.choice(["still comment", "* more \"text", "// inside", "#define INSIDE 1"]))
            else:
                lines.append("end */" + (" " + rand_line(rng, macros) if rng.random() < 0.5 else ""))
                in_block = False
            continue
        if x < 0.12:
            name = rng.choice(IDS) + str(rng.randint(0, 9))
            if any(m[0] == name for m in macros) and rng.random() > allow_errors:
                continue
            if rng.random() < 0.6:
                body = rng.choice(["1", "0", "42", "(a+1)", "xy", "\"s\"", ""] + [m[0] for m in macros if m[1] is None][:3])
                lines.append("#define %s %s" % (name, body))
                macros.append((name, None))
            else:
                ps = rng.sample(["p", "q", "r", "a1"], rng.randint(0, 3))
                body = " ".join(rng.choice(ps + ["+", "*", "(", ")", "1", "xy"]) for _ in range(rng.randint(1, 5))) if ps else "77"
                body = body.replace("( )", "()")
                if body.count("(") != body.count(")"):
                    body = "+".join(ps) if ps else "1"
                lines.append("#define %s(%s) %s" % (name, ", ".join(ps), body))
                macros.append((name, ps))
        elif x < 0.16 and macros:
            m = rng.choice(macros)
            lines.append("#undef " + m[0])
            macros = [q for q in macros if q[0] != m[0]]
        elif x < 0.28 and depth < cond_depth:
            k = rng.random()
            if k < 0.5:
                lines.append("#if " + rand_cond(rng, macros))
            elif k < 0.75:
                lines.append("#ifdef " + rng.choice([m[0] for m in macros] + ["NOPE"]))
            else:
                lines.append("#ifndef " + rng.choice([m[0] for m in macros] + ["NOPE"]))
            depth += 1
        elif x < 0.36 and depth > 0:
            lines.append(rng.choice(["#elif " + rand_cond(rng, macros), "#else"]))
        elif x < 0.46 and depth > 0:
            lines.append("#endif")
            depth -= 1
        elif x < 0.5:
            lines.append(rand_line(rng, macros) + " /* open")
            in_block = True
        elif x < 0.56:
            a = rand_line(rng, macros)
            k = rng.randint(1, max(1, len(a) - 1))
            lines.append(a[:k] + "\\")
            lines.append(a[k:])
        elif x < (0.58 if _level == 0 else 0.62) and with_includes:
            fn = "inc%d.%s" % (len(files), rng.choice(["h", "h", "inc"]))
            files.append((fn, None))                      # reserve the name
            slot = len(files) - 1
            content, _, _ = rand_source(rng, nlines=rng.randint(1, 5), with_includes=(_level < 2 and not fn.endswith(".inc")),
                                        allow_errors=allow_errors * 0.5 if rng.random() < 0.3 else 0, _files=files, _level=_level + 1)
            files[slot] = (fn, content)
            lines.append('#include "%s"' % fn)
        elif x < 0.58 + allow_errors:
            lines.append(rng.choice(["#error stop here", "#bogus", "#endif", "x = \"unterminated;", "#if", "#if foo", "#else junk", "#define"]))
        else:
            lines.append(rand_line(rng, macros))
    if in_block and rng.random() < 0.7:
        lines.append("*/")
    while depth > 0 and rng.random() < 0.9:
        lines.append("#endif")
        depth -= 1
    text = "\n".join(lines) + ("\n" if rng.random() < 0.9 else "")
    if rng.random() < 0.1:
        text = text.replace("\n", "\r\n")
    return text, defines, files
