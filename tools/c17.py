"""C17 — split-port cartridge RAM is read and written through the right ports.

  proof  : lean/CV/Props/C17.lean (which instructions read / write / read-modify-write; port offset
           for every mnemonic, memory class and scheme; the offset reaches the operand text)
  tie    : the real asm() (hook H3, atari2600 build) on every Superchip / on-chip variable of a stub
           program x every mnemonic x operand kind x scheme, against CV.AsmSel.asmSel
  search : generated programs in which any subset of the char / short / array variables is declared
           `superchip` (or bank-resident under __3E__ / __3E_PLUS__), compiled at -O0/-O1 and executed on
           a split-port memory model (reads of the write port, writes to the read port and
           read-modify-write cycles are faults) against the Lean C semantics.
"""
import re
from lib import *
import prog, gen_c, coexec, csemx, c04

TRUSTED = ["Lean 4 kernel; axioms allowed: propext, Classical.choice, Quot.sound",
           "specification: CV/Exec.accessKind (read / write / read-modify-write classes from the 6502 semantics); split-port memory model in CV/Exec.xlat",
           "tie: differential testing of CV.AsmSel.asmSel against asm() through hook H3 in the atari2600 build",
           "layout: Superchip write port $1000-$107F, read port +$80; 3E read port base, write port +$400; 3E+ +$200"]

STUB = """superchip char sc; superchip short ss; superchip char sa[4]; superchip char *sp; superchip short ssa[3];
bank1 char bc; bank1 short bs; bank1 char ba[4]; char zc; ramchip char rc;
void main() { zc = 1; }
"""


IDIOMS = ["%(d)s = %(e)s;", "%(e)s = %(d)s;", "%(e)s += %(d)s;", "%(e)s -= 3;", "%(e)s++;", "%(e)s--;", "++%(e)s;",
          "if (%(e)s == %(d)s) r = 1;", "if (%(e)s != 0) r = 1;", "if (%(e)s < %(d)s) r = 1;", "%(e)s |= %(d)s;", "%(e)s &= 0x0ff0;", "%(e)s ^= %(d)s;",
          "%(e)s = %(d)s + 1;", "%(d)s = %(e)s + %(e)s;", "%(d)s = %(e)s >> 8;", "%(d)s = %(e)s << 8;", "%(e)s = 0;", "%(e)s = 1000;", "%(e)s = -1;",
          "%(e)s = ss;", "ss = %(e)s;", "ss += %(e)s;", "if (ss >= %(e)s) r = 1;"]


def mark_split(p, rng, how):
    """declare a random subset of the generated program's variables in split-port memory"""
    q = "superchip" if how == "superchip" else "bank1"
    decls = []
    for (ct, name, n, qual) in p.decls:
        if name.startswith("i"):           # loop counters stay in page zero
            decls.append((ct, name, n, ""))
        else:
            decls.append((ct, name, n, q if rng.random() < 0.6 else ""))
    p.decls = decls
    p.render()
    return p


def run(chk):
    ok, obligations = prepare(chk, features=("atari2600",))
    if not ok:
        return chk.finish(obligations=obligations, trusted_base=TRUSTED)
    h = Harness(feature="atari2600"); m = Model(); rng = chk.rng
    # ---- port selection matrix (exhaustive over the stub's split-port variables) ----
    first = h.compile(STUB, 0)
    if first["status"] != "ok":
        chk.tie_broken("stub program no longer compiles: %s" % first["status"], {"stub": STUB})
    else:
        vinfo = {unhx(v["name"]): v for v in first["vars"]}
        for scheme in ("4K", "3E", "3EP"):
            qs = []
            for mn in c04.MNS:
                for n, v in vinfo.items():
                    if v["mem"] == "dummy":
                        continue
                    for eight in (0, 1):
                        for off in (0, 1, 5):
                            for hi in (0, 1):
                                qs.append((mn, 3, n, eight, off, hi, 0))
                    for kind in (4, 5):
                        for eight in (0, 1):
                            for off in (0, 2):
                                for hi in (0, 1):
                                    qs.append((mn, kind, n, eight, off, hi, 0))
            for i in range(0, len(qs), 1500):
                batch = qs[i:i + 1500]
                r = h.req("asmmatrix %s %s | %s" % (scheme, hx(STUB), " | ".join("%s,%d,%s,%d,%d,%d,%d" % (q[0], q[1], hx(q[2]), q[3], q[4], q[5], q[6]) for q in batch)))
                if r.get("status") != "ok":
                    chk.tie_broken("asm() matrix batch failed: %s" % r.get("status"), {}); continue
                for q, a in zip(batch, r["answers"]):
                    v = vinfo[q[2]]
                    ma = m.req("asmsel %s %d %s %s %d %s %d %s %d %d %d %d" % (q[0], q[1], hx(q[2]), v["type"], 1 if v["const"] else 0, v["mem"], v["size"], scheme, q[3], q[4], q[5], q[6]))
                    real = a if isinstance(a, str) else tok_of_line(a)
                    chk.case(key=(scheme,) + q, nontrivial=not isinstance(a, str))
                    chk.count("matrix")
                    if ma.split(" ")[0] != real:
                        chk.tie_broken("asm(): model and code disagree on a split-port operand", {"query": q, "scheme": scheme, "real": real, "model": ma})
        chk.coverage["exhaustive_port_matrix"] = True
    # ---- idiom sweep: every access shape x element width x index kind x scheme, executed for port faults ----
    for how, q, defs in (("4K", "superchip", []), ("3E", "bank1", ["__3E__=1"]), ("3EP", "bank1", ["__3E_PLUS__=1"])):
        for width in ("short", "char"):
            for idx in ("X", "Y", "2", "i"):
                for idi in IDIOMS:
                    d = "s" if width == "short" else "c"
                    src = "%s %s arr[4]; %s %s ss; %s s; char c; char r; char i;\nvoid main() { X = 1; Y = 3; i = 2; %s }\n" % (
                        q, width, q, width, width, idi % {"e": "arr[%s]" % idx, "d": d})
                    for level in (0, 1):
                        r = h.compile(src, level, defines=defs)
                        if r["status"] != "ok":
                            chk.count("idiom_rejected"); break
                        env, init, ports, regions = prog.layout(r["vars"], how)
                        okl, _ = prog.load(m, "c17i", r, env=env, ports=ports)
                        if not okl:
                            chk.count("idiom_unloadable"); continue
                        res = prog.run(m, "c17i", mem=dict(init), fuel=5000)
                        chk.case(key=(src, level, how), nontrivial=True)
                        chk.count("idiom_runs")
                        if res["stop"] != "done" or res.get("faults", 0):
                            chk.fail("split-port-idiom-fault", "%s: %d accesses through the wrong port of split-port memory (-O%d, %s)" % (
                                src.splitlines()[1], res.get("faults", 0), level, how),
                                {"source": src, "level": level, "scheme": how, "defines": defs, "feature": "atari2600", "stop": res["stop"], "faults": res.get("faults", 0)})
    # ---- programs on split-port memory ----
    nstates = chk.scale(5, 16)
    for i in range(chk.scale(160, 3000)):
        how = rng.choice(["superchip", "superchip", "3E", "3EP"])
        p = gen_c.program(rng, placement="zp", shorts=rng.random() < 0.3, inline_rate=0.0, gotos=False, probe=(), memsub=False)
        # known finding (DESIGN.md section 7, row 15): in-place 16-bit shifts on split-port memory
        p = mark_split(p, rng, how)
        if re.search(r"\bs\d+ (<<|>>)=", p.text):
            chk.count("skipped_known_16bit_shift"); continue
        defs = {"3E": ["__3E__=1"], "3EP": ["__3E_PLUS__=1"]}.get(how, [])
        try:
            gen_c.program_tokens(p)
        except gen_c.Unsupported:
            continue
        for level in (0, 1):
            r = h.compile(p.text, level, defines=defs)
            if r["status"] != "ok":
                chk.count("compile_" + r["status"]); break
            chk.case(key=(p.text, level), nontrivial=(" superchip " in " " + p.text or "bank1" in p.text))
            chk.count("programs_" + how)
            if len(chk.coverage["samples"]) < 3 and level == 0:
                chk.sample({"program": p.text[:500], "scheme": how})
            csemx.check_compiled(chk, m, p.text, p, r, "c17", nstates, seed=stable_hash(p.text), level=level,
                                 sig_fn=lambda kind: "split-port-" + kind, extra={"feature": "atari2600", "defines": defs},
                                 compile_fn=lambda t, lv=level, d=defs: h.compile(t, lv, defines=d))
    # ---- the deterministic idiom matrices (tools/matrix.py) with every variable in split-port memory: what the
    #      optimiser remembers about registers must respect that a cell has two names there ----
    import matrix, copy
    for how, q, defs in (("superchip", "superchip", []), ("3E", "bank1", ["__3E__=1"])):
        for p0 in matrix.all_programs(["triples", "switch", "folded"] if how == "superchip" else ["triples"]):
            if re.search(r"\bs\d\b", p0.text):
                continue                 # 16-bit split-port variables: the random programs cover them (one recorded finding)
            p = copy.deepcopy(p0)
            p.decls = [(ct, name, n, (q if name != "r" else qual)) for (ct, name, n, qual) in p.decls]
            p.render()
            for level in (0, 1):
                r = h.compile(p.text, level, defines=defs)
                if r["status"] != "ok":
                    chk.count("matrix_" + r["status"]); break
                chk.case(key=(p.text, level), nontrivial=True)
                chk.count("matrix_" + how)
                csemx.check_compiled(chk, m, p.text, p, r, "c17m", 1, seed=1, level=level,
                                     sig_fn=lambda kind: "split-port-" + kind, extra={"feature": "atari2600", "defines": defs},
                                     compile_fn=lambda t, lv=level, d=defs: h.compile(t, lv, defines=d))
    # the known finding's exemplar
    for k in chk.known:
        if k.get("exemplar"):
            r = h.compile(k["exemplar"], 0)
            if r["status"] == "ok":
                env, init, ports, regions = prog.layout(r["vars"])
                prog.load(m, "c17", r, env=env, ports=ports)
                res = prog.run(m, "c17", mem=dict(init), fuel=5000)
                if res.get("faults", 0) > 0:
                    chk.fail(k["signature"], k["what_fails"], {"source": k["exemplar"], "faults": res["faults"]})
    h.close(); m.close()
    return chk.finish(level="proof", obligations=obligations, trusted_base=TRUSTED,
                      checker_cmd="cd /verif/lean && lake build CV.Props.C17 && lake env lean .lake/audit/C17_audit.lean",
                      extra={"rule": "port matrix over every AsmMnemonic x split-port variable of the stub x operand kinds x 3 schemes (complete); generated "
                                     "programs with random subsets of variables in Superchip / 3E / 3E+ RAM, -O0/-O1, %d states each on the split-port "
                                     "memory model against CV.CSem" % nstates})
