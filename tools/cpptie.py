"""Correspondence of the Lean preprocessor model with cpp::process (hook H2)."""
from lib import *


def model_req(m, src, defines=(), files=(), name=None):
    toks = ["cpp", hx(src)] + ["D=" + hx(d) for d in defines] + ["F=" + hx(n) + ":" + hx(c) for n, c in files]
    if name:
        toks.append("M=" + hx(name))
    return m.req(" ".join(toks))


def norm_real(r):
    st = r.get("status")
    if st == "ok":
        mp = " ".join("%s:%d:%s" % (e[0], e[1], "-:-" if e[2] is None else "%s:%d" % (e[2], e[3])) for e in r["mapped"])
        return "ok %s | %s | %s" % (r["out"], mp, " ".join(r["literals"]))
    if st == "err":
        e = r["err"]
        return "err %s %s %s %s" % (e["kind"], e["file"] or "-", e["line"], ("%s %s" % (e["inc_file"], e["inc_line"])) if e["inc_file"] else "- -")
    if st == "timeout":
        return "diverge"
    return st


def norm_model(a):
    if a.startswith("err "):
        return " ".join(a.split(" ")[:6])
    return a


def compare(h, m, src, defines=(), files=(), name=None):
    """returns None if model and code agree, else (real, model)"""
    r = h.cpp(src, defines=defines, files=files, name=name)
    a = model_req(m, src, defines, files, name)
    nr, nm = norm_real(r), norm_model(a)
    # a panic in define_regex.captures().unwrap() is modelled as a syntax error with a marker message
    if nr == "panic" and a.startswith("err") and "70616e6963" in a:
        return None, r
    if nr != nm:
        return (nr, nm), r
    return None, r
