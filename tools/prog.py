"""Programs: memory layout of the variables the real compiler reports, loading a compiled
program into the Lean 6502 model, running it, extracting the repository's own test inputs."""
import re, os
from lib import *


def var_bytes(v):
    t, n = v["type"], v["size"]
    if n > 1:
        return n * (1 if t == "charptr" else 2)
    return {"char": 1}.get(t, 2)


def layout(vars_, scheme="4K"):
    """Every variable gets its own storage (no overlaying of locals): zero page from $81
    (cctmp at $80), Superchip RAM write port at $1000 (read port +$80), other RAM from $0200,
    3E/3E+ on-chip RAM at $1000 (3E: write port +$400; 3E+: +$200), ROM data from $F000.
    Returns (env, init_mem, ports, regions)."""
    env = {"cctmp": 0x80}
    init = {}
    ports = []
    regions = {}
    zp, sc, ram, rom, onchip = 0x81, 0x1000, 0x0200, 0xF000, 0x1800
    consts = {}
    for v in vars_:
        name = unhx(v["name"])
        d = v["def"]
        if v["const"] and d[0] == "value":
            consts[name] = d[1]
            continue
        nb = var_bytes(v)
        mem = v["mem"]
        if mem == "dummy":
            continue
        if mem == "zp":
            a = zp; zp += nb
        elif mem == "superchip":
            a = sc; sc += nb
        elif mem.startswith("onchip"):
            a = onchip; onchip += nb
        elif mem.startswith("rom"):
            a = rom; rom += nb
        else:
            a = ram; ram += nb
        env[name] = a
        regions[name] = (a, nb, v)
    if sc > 0x1000:
        ports.append((0x1000, 0x1080, 0x80))      # (write port, read port, length)
    if onchip > 0x1800:
        if scheme == "3E":
            ports.append((0x1800 + 0x400, 0x1800, 0x400))
        elif scheme == "3EP":
            ports.append((0x1800 + 0x200, 0x1800, 0x200))
    # constants (EQU): plain ints, or low/high byte of another symbol
    for name, val in consts.items():
        if val[0] == "int":
            env[name] = val[1] & 0xFFFF
    for name, val in consts.items():
        if val[0] in ("lo", "hi"):
            base = env.get(unhx(val[1]), 0) + val[2]
            env[name] = (base & 0xFF) if val[0] == "lo" else ((base >> 8) & 0xFF)
    # initialised data
    def val_byte(x):
        if x[0] == "int":
            return x[1] & 0xFF
        base = env.get(unhx(x[1]), 0) + x[2]
        return (base & 0xFF) if x[0] == "lo" else ((base >> 8) & 0xFF)
    for name, (a, nb, v) in regions.items():
        d = v["def"]
        if d[0] == "array":
            vals = d[1]
            for i, x in enumerate(vals):
                init[a + i] = val_byte(x)
            if v["type"] == "shortptr":
                for i, x in enumerate(vals):
                    if x[0] == "int":
                        init[a + len(vals) + i] = (x[1] >> 8) & 0xFF
        elif d[0] == "ptrs":
            ps = d[1]
            for i, (s, o) in enumerate(ps):
                base = env.get(unhx(s), 0) + o
                init[a + i] = base & 0xFF
                init[a + len(ps) + i] = (base >> 8) & 0xFF
    return env, init, ports, regions


def fn_lines(f, which="code", add_rts=True):
    c = f.get(which)
    if c is None:
        return None
    ls = list(c["lines"])
    if add_rts:
        ls.append(I("RTI" if f["interrupt"] else "RTS", "", 1, 6))
    return ls


def load(model, pid, result, which="code", env=None, ports=None, extra_fns=()):
    """send the compiled program to the model; returns (ok, message)"""
    if env is None:
        env, _, ports, _ = layout(result["vars"], result.get("scheme", "4K"))
    model.req("drop " + pid)
    if env:
        model.req("env %s %s" % (pid, " ".join("%s=%d" % (hx(k), v) for k, v in env.items())))
    if ports:
        model.req("ports %s %s" % (pid, " ".join("%d:%d:%d" % p for p in ports)))
    bad = None
    for f in result["funcs"]:
        ls = fn_lines(f, which)
        if ls is None:
            continue
        a = model.req("fn %s %s %s" % (pid, f["name"], toks_of_lines(ls)))
        if a != "ok" and bad is None:
            bad = (unhx(f["name"]), unhx(a.split(" ")[1]) if a.startswith("bad ") else a)
    for name, ls in extra_fns:
        model.req("fn %s %s %s" % (pid, hx(name), toks_of_lines(ls)))
    return bad is None, bad


def run(model, pid, entry="main", mem=None, a=0, x=0, y=0, p=0, fuel=20000, watch=()):
    img = " ".join("%d=%d" % (k, v) for k, v in sorted((mem or {}).items()))
    w = " ".join("%d:%d" % (k, n) for k, n in watch)
    r = model.req("run %s %s %d %d %d %d %d | %s | %s" % (pid, hx(entry), fuel, a, x, y, p, img, w))
    f = r.split(" ")
    if f[0] != "ok":
        return {"stop": "model:" + r[:60]}
    stop = f[1]
    if stop.startswith("fault:"):
        stop = "fault:" + unhx(stop[6:])
    trace = f[11][2:]
    memh = f[12][2:] if len(f) > 12 else ""
    out = {"stop": stop, "A": int(f[2]), "X": int(f[3]), "Y": int(f[4]), "P": int(f[5]), "SP": int(f[6]),
           "cycles": int(f[7]), "steps": int(f[8]), "faults": int(f[9]), "ntrace": int(f[10]),
           "trace": [int(t) for t in trace.split(",") if t], "mem": bytes.fromhex(memh),
           "tcyc": [int(t) for t in (f[13][2:] if len(f) > 13 else "").split(",") if t]}
    return out


RUST_STR = re.compile(r'let input = "((?:[^"\\]|\\.)*)"', re.S)


def unrust(s):
    out = []
    i = 0
    while i < len(s):
        c = s[i]
        if c == "\\" and i + 1 < len(s):
            n = s[i + 1]
            if n == "n":
                out.append("\n")
            elif n == "t":
                out.append("\t")
            elif n == "r":
                out.append("\r")
            elif n == "0":
                out.append("\0")
            elif n == "\n":
                i += 2
                while i < len(s) and s[i] in " \t\n":
                    i += 1
                continue
            else:
                out.append(n)
            i += 2
        else:
            out.append(c)
            i += 1
    return "".join(out)


def repo_test_inputs():
    """the C sources of the repository's own tests (src/lib.rs), used as a seed corpus"""
    try:
        txt = open(os.path.join(REPO, "src", "lib.rs")).read()
    except OSError:
        return []
    seen, out = set(), []
    for m in RUST_STR.finditer(txt):
        s = unrust(m.group(1))
        if s not in seen:
            seen.add(s)
            out.append(s)
    return out


def trace_names(model, pid, run_result):
    """decode a trace into readable events: protected/inline lines by content, volatile accesses as (kind, address)"""
    a = model.req("tids " + pid)
    keys = [unhx(k) for k in a.split(" ")[1:]] if a.startswith("ok") else []
    out = []
    for t in run_result.get("trace", []):
        if t >= 100000:
            k = (t - 100000) // 65536
            out.append(("rd", "wr", "rmw")[k - 1] + "@%d" % ((t - 100000) % 65536))
        elif 0 < t <= len(keys):
            out.append(keys[t - 1])
        else:
            out.append("?%d" % t)
    return out
