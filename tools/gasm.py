"""Random line vectors biased towards the peephole rules of AssemblyCode::optimize."""
from lib import *

OPS = ["v", "w", "v+1", "#0", "#1", "#3", "#03", "arr,X", "arr,Y", "tab+1,X", "(p),Y", "cctmp"]
LOADS = ["LDA", "LDX", "LDY"]
STORES = ["STA", "STX", "STY"]
ALU = ["ADC", "SBC", "EOR", "AND", "ORA", "CMP", "CPX", "CPY"]
IMPL = ["TAX", "TXA", "TAY", "TYA", "INX", "DEX", "INY", "DEY", "CLC", "SEC", "PHA", "PLA", "LSR", "ASL", "ROL", "ROR", "NOP", "PHP", "PLP"]
BRANCH = ["BEQ", "BNE", "BCC", "BCS", "BMI", "BPL"]


def nb_of(mn, op):
    if op == "":
        return 1
    if op.startswith("#") or op == "cctmp" or op.startswith("("):
        return 2
    return 2


def rand_instr(rng, labels):
    x = rng.random()
    prot = rng.random() < 0.12
    if x < 0.28:
        mn = rng.choice(LOADS); op = rng.choice(OPS)
    elif x < 0.42:
        mn = rng.choice(STORES); op = rng.choice([o for o in OPS if not o.startswith("#")])
    elif x < 0.55:
        mn = rng.choice(ALU); op = rng.choice(OPS)
    elif x < 0.75:
        mn = rng.choice(IMPL); op = ""
    elif x < 0.82:
        mn = rng.choice(["INC", "DEC"]); op = rng.choice(["v", "w", "arr,X", "v+1"])
    elif x < 0.93:
        mn = rng.choice(BRANCH); op = rng.choice(labels)
        return I(mn, op, 2, 2, 3, rng.random() < 0.5)
    elif x < 0.97:
        return I("JMP", rng.choice(labels), 3, 3, None, prot)
    else:
        return I("JSR", "func", 3, 6, None, prot)
    return I(mn, op, nb_of(mn, op), 2, None, prot)


def rand_vector(rng, maxlen=24):
    labels = [".l%d" % i for i in range(rng.randint(1, 3))]
    out = []
    n = rng.randint(1, maxlen)
    last = None
    while len(out) < n:
        x = rng.random()
        if x < 0.08:
            out.append(L(rng.choice(labels)))
        elif x < 0.12:
            out.append(C("c"))
        elif x < 0.15:
            out.append(D)
        elif x < 0.19:
            out.append(N(rng.choice(["LDA #5", "NOP", "STA w", "INX"]), rng.choice([1, 2, 3])))
        elif x < 0.45 and last is not None and last[0] == "I":
            # a follower that triggers a pair rule on the previous instruction
            mn, op = last[1], unhx(last[2])
            pr = rng.random() < 0.15
            f = {"STA": ("LDA", op), "LDA": rng.choice([("STA", op), ("LDA", rng.choice(OPS)), ("CLC", ""), ("SEC", ""), ("LDA", op)]),
                 "LDX": rng.choice([("STX", op), ("LDX", op), ("LDX", rng.choice(OPS))]), "LDY": rng.choice([("STY", op), ("LDY", op)]),
                 "TAX": ("TXA", ""), "TXA": ("TAX", ""), "TAY": ("TYA", ""), "TYA": ("TAY", ""), "PLA": ("PHA", ""),
                 "JMP": rng.choice([("JMP", rng.choice(labels)), ("@label", op)]),
                 "CMP": (rng.choice(["BEQ", "BNE"]), rng.choice(labels)), "CPX": (rng.choice(["BEQ", "BNE"]), rng.choice(labels)),
                 "CPY": (rng.choice(["BEQ", "BNE"]), rng.choice(labels))}.get(mn, ("ORA", "#0"))
            if f[0] == "@label":
                out.append(L(f[1]))
            elif f[0] in BRANCH:
                out.append(I(f[0], f[1], 2, 2, 3, rng.random() < 0.4))
            else:
                out.append(I(f[0], f[1], nb_of(f[0], f[1]), 2, None, pr))
        else:
            out.append(rand_instr(rng, labels))
        last = out[-1]
    return out
