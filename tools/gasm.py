"""Random line vectors biased towards the peephole rules of AssemblyCode::optimize."""
from lib import *

OPS = ["v", "w", "v+1", "#0", "#1", "#3", "#03", "arr,X", "arr,Y", "tab+1,X", "(p),Y", "cctmp"]
LOADS = ["LDA", "LDX", "LDY"]
STORES = ["STA", "STX", "STY"]
ALU = ["ADC", "SBC", "EOR", "AND", "ORA", "CMP", "CPX", "CPY"]
IMPL = ["TAX", "TXA", "TAY", "TYA", "INX", "DEX", "INY", "DEY", "CLC", "SEC", "PHA", "PLA", "LSR", "ASL", "ROL", "ROR", "NOP", "PHP", "PLP"]
BRANCH = ["BEQ", "BNE", "BCC", "BCS", "BMI", "BPL"]


def nb_of(mn, op):
    if op == "":
        return 1
    if op.startswith("#") or op == "cctmp" or op.startswith("("):
        return 2
    return 2


def rand_instr(rng, labels):
    x = rng.random()
    prot = rng.random() < 0.12
    if x < 0.28:
        mn = rng.choice(LOADS); op = rng.choice(OPS)
    elif x < 0.42:
        mn = rng.choice(STORES); op = rng.choice([o for o in OPS if not o.startswith("#")])
    elif x < 0.55:
        mn = rng.choice(ALU); op = rng.choice(OPS)
    elif x < 0.75:
        mn = rng.choice(IMPL); op = ""
    elif x < 0.82:
        mn = rng.choice(["INC", "DEC"]); op = rng.choice(["v", "w", "arr,X", "v+1"])
    elif x < 0.93:
        mn = rng.choice(BRANCH); op = rng.choice(labels)
        return I(mn, op, 2, 2, 3, rng.random() < 0.5)
    elif x < 0.97:
        return I("JMP", rng.choice(labels), 3, 3, None, prot)
    else:
        return I("JSR", "func", 3, 6, None, prot)
    return I(mn, op, nb_of(mn, op), 2, None, prot)


def rand_vector(rng, maxlen=24):
    labels = [".l%d" % i for i in range(rng.randint(1, 3))]
    out = []
    n = rng.randint(1, maxlen)
    last = None
    while len(out) < n:
        x = rng.random()
        if x < 0.08:
            out.append(L(rng.choice(labels)))
        elif x < 0.12:
            out.append(C("c"))
        elif x < 0.15:
            out.append(D)
        elif x < 0.19:
            out.append(N(rng.choice(["LDA #5", "NOP", "STA w", "INX"]), rng.choice([1, 2, 3])))
        elif x < 0.45 and last is not None and last[0] == "I":
            # a follower that triggers a pair rule on the previous instruction
            mn, op = last[1], unhx(last[2])
            pr = rng.random() < 0.15
            f = {"STA": ("LDA", op), "LDA": rng.choice([("STA", op), ("LDA", rng.choice(OPS)), ("CLC", ""), ("SEC", ""), ("LDA", op)]),
                 "LDX": rng.choice([("STX", op), ("LDX", op), ("LDX", rng.choice(OPS))]), "LDY": rng.choice([("STY", op), ("LDY", op)]),
                 "TAX": ("TXA", ""), "TXA": ("TAX", ""), "TAY": ("TYA", ""), "TYA": ("TAY", ""), "PLA": ("PHA", ""),
                 "JMP": rng.choice([("JMP", rng.choice(labels)), ("@label", op)]),
                 "CMP": (rng.choice(["BEQ", "BNE"]), rng.choice(labels)), "CPX": (rng.choice(["BEQ", "BNE"]), rng.choice(labels)),
                 "CPY": (rng.choice(["BEQ", "BNE"]), rng.choice(labels))}.get(mn, ("ORA", "#0"))
            if f[0] == "@label":
                out.append(L(f[1]))
            elif f[0] in BRANCH:
                out.append(I(f[0], f[1], 2, 2, 3, rng.random() < 0.4))
            else:
                out.append(I(f[0], f[1], nb_of(f[0], f[1]), 2, None, pr))
        else:
            out.append(rand_instr(rng, labels))
        last = out[-1]
    return out


# ---------------------------------------------------------------- knowledge probes and vector-level execution

ALL_MID = LOADS + STORES + ALU + IMPL + ["INC", "DEC"]
PROBE_OPS = ["v", "w", "#3", "#0", "arr,X", "arr,Y", "arr+1,X", "(p),Y", "cctmp"]


def probe_vector(rng):
    """LDr op ; <0-3 instructions that may or may not invalidate what is known> ; LDr op ; observer.
    Systematically exercises the redundant-load rules of the optimiser."""
    reg = rng.choice("AXY")
    ld, st = "LD" + reg, "ST" + reg
    ops = [o for o in PROBE_OPS if not (reg == "X" and (",X" in o or o.startswith("("))) and not (reg == "Y" and (",Y" in o or o.startswith("(")))]
    op = rng.choice(ops)
    out = [I(ld, op, nb_of(ld, op), 2)]
    for _ in range(rng.choice([0, 1, 1, 1, 2, 3])):
        mn = rng.choice(ALL_MID)
        if mn in IMPL:
            out.append(I(mn, "", 1, 2))
        else:
            cands = [o for o in PROBE_OPS if not (mn in STORES + ["INC", "DEC"] and o.startswith("#"))
                     and not (mn in ("LDX", "STX", "CPX") and ",X" in o) and not (mn in ("LDY", "STY", "CPY") and ",Y" in o)
                     and not (mn in ("LDX", "LDY", "STX", "STY", "CPX", "CPY", "INC", "DEC") and o.startswith("("))
                     and not (mn in ("INC", "DEC") and ",Y" in o) and not (mn == "STX" and ",Y" in o and False)]
            o = op if (rng.random() < 0.4 and op in cands) else rng.choice(cands)
            out.append(I(mn, o, nb_of(mn, o), 2))
    out.append(I(ld, op, nb_of(ld, op), 2))
    # observers: make the register (and its flags) matter
    k = rng.random()
    if k < 0.4:
        out += [I(st, "res", 2, 3), I("LDA", "#0", 2, 2)]
    elif k < 0.7:
        out += [I("CMP" if reg == "A" else "CP" + reg, "#3", 2, 2), I("BNE", ".skip", 2, 2, 3, True), I("INC", "res", 2, 5), L(".skip")]
    else:
        out += [I("BEQ", ".skip", 2, 2, 3, True), I("INC", "res", 2, 5), L(".skip"), I(st, "res2", 2, 3)]
    return out


def compare_probe(rng):
    """LDr #v ; [0-1 harmless instructions] ; CPr #k ; <branch on Z, protected or not> ; <branch on carry> ; observers.
    Exercises the rules that fold a compare of a register whose constant is known: the carry of the
    compare may still be needed by a following BCC / BCS even when the Z branch is decided."""
    reg = rng.choice("AXY")
    ld = "LD" + reg
    cp = "CMP" if reg == "A" else "CP" + reg
    v = rng.choice([0, 1, 5, 200])
    k = rng.choice([0, 1, 5, 6, 200])
    out = []
    if rng.random() < 0.5:
        # something that leaves the carry in a data-dependent state
        out += [I("LDA", "v", 2, 3), I("CLC", "", 1, 2), I("ADC", "w", 2, 3), I("STA", "res2", 2, 3)]
    out.append(I(ld, "#%d" % v, 2, 2))
    if rng.random() < 0.3:
        out.append(I(rng.choice(["INC", "DEC"]), "w", 2, 5))
    out.append(I(cp, "#%d" % k, 2, 2))
    zb = rng.choice(["BEQ", "BNE"])
    carry_user = rng.random() < 0.7
    # the generator's discipline (generate_branch_instruction): a Z branch whose compare also feeds a
    # carry branch is emitted `protected`; an unprotected one declares the carry dead — only vectors
    # that respect it are inside the optimiser's contract
    out.append(I(zb, ".h", 2, 2, 3, True if carry_user else rng.random() < 0.5))
    if carry_user:
        out.append(I(rng.choice(["BCS", "BCC"]), ".t", 2, 2, 3, rng.random() < 0.3))
    out += [I("INC", "res", 2, 5), L(".h"), I("INC", "res", 2, 5), I("INC", "res", 2, 5), L(".t")]
    return out


VEC_ENV = {"cctmp": 0x80, "v": 0x90, "w": 0x91, "p": 0x92, "res": 0x94, "res2": 0x95, "arr": 0xA0, "tab": 0xB0}


def run_vector(model, pid, lines, rs_seed, nstates=6):
    """execute a line vector as function f on the 6502 model from a few states; returns list of observables or None"""
    import random as _r
    model.req("drop " + pid)
    model.req("env %s %s" % (pid, " ".join("%s=%d" % (hx(k), v) for k, v in VEC_ENV.items())))
    a = model.req("fn %s %s %s" % (pid, hx("f"), toks_of_lines(list(lines) + [I("RTS", "", 1, 6)])))
    model.req("fn %s %s %s" % (pid, hx("func"), toks_of_lines([I("RTS", "", 1, 6)])))
    if a != "ok":
        return None
    rs = _r.Random(rs_seed)
    outs = []
    for _ in range(nstates):
        mem = {0x92: 0xC0, 0x93: 0x00}
        for ad in list(range(0x90, 0x92)) + list(range(0x94, 0x96)) + list(range(0xA0, 0xD0)):
            mem[ad] = rs.choice([0, 1, 3, 255, rs.randrange(256)])
        x, y = rs.randrange(8), rs.randrange(8)
        # the flags on entry are arbitrary too (N=128 V=64 Z=2 C=1): code must not depend on them
        pf = rs.choice([0, 1, 2, 3, 128, 129, 64, 195])
        r = model.req("run %s %s 400 %d %d %d %d | %s | 128:1 144:6 160:48" % (pid, hx("f"), rs.randrange(256), x, y, pf, " ".join("%d=%d" % kv for kv in sorted(mem.items()))))
        f = r.split(" ")
        if f[0] != "ok" or f[1] != "done":
            outs.append(None)
        else:
            outs.append((f[3], f[4], f[12]))     # X, Y, memory (A and flags are not observable after RTS)
    return outs
