"""Regenerates MANIFEST.json from the table below (keeps it valid at all times)."""
import json, os, subprocess
V = os.path.dirname(os.path.dirname(os.path.abspath(__file__)))
props = [json.loads(l) for l in open(os.path.join(V, "properties.jsonl"))]
CLAIMS = json.load(open(os.path.join(V, "tools", "claims.json")))
man = json.load(open(os.path.join(V, "MANIFEST.json")))
man["checks"] = []
man["not_applicable"] = []
for p in props:
    c = CLAIMS.get(p["id"])
    if c and c.get("claimed"):
        man["checks"].append({
            "property_id": p["id"],
            "quick_cmd": "./check %s quick" % p["id"],
            "thorough_cmd": "./check %s thorough" % p["id"],
            "evidence_file": "/verif/evidence/%s.json" % p["id"],
            "replay_cmd_template": "cat {path}",
            "engine": "lean-proof+correspondence",
            "level_claimed": {"category": "proof", "text": c["text"], "design_ref": c.get("design_ref", "DESIGN.md section 4, " + p["id"])},
            "level_note": c["note"],
            "technique": c["technique"],
        })
    else:
        man["not_applicable"].append({"property_id": p["id"], "reason": (c or {}).get("reason", "check not built yet (work in progress; see DESIGN.md section 5 for the order of construction)")})
man["engines"][0]["serves_properties"] = [c["property_id"] for c in man["checks"]]
try:
    out = subprocess.run(["git", "-C", "/repo", "log", "--format=%H %s"], capture_output=True, text=True).stdout
    man["hooks"]["source_commits"] = [l.split(" ")[0] for l in out.splitlines() if "verif hook" in l]
except Exception:
    pass
json.dump(man, open(os.path.join(V, "MANIFEST.json"), "w"), indent=1)
print("claimed:", [c["property_id"] for c in man["checks"]])
