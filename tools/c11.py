"""C11 — comments, layout and listing options never affect behaviour.

  proof  : lean/CV/Props/C11.lean (the scanner of the preprocessor model: a block comment ends at its
           first */ whatever it contains, a // comment runs to the end of its line; listing comments
           are never touched by the optimiser - from C02's invariant)
  tie    : cpp::process vs CV.Cpp.process on decorated sources (hook H2)
  search : every program (repository inputs + generated) is compiled plain and decorated (comments
           containing quotes, //, /*, directives, URLs; blank lines; tabs; CR-LF; splices between
           tokens) and with --insert_code / -W options: declarations and emitted code must be identical
           (comment lines aside), and the listing variant must execute identically.
"""
import re
from lib import *
import prog, gen_c, cpptie, coexec

TRUSTED = ["Lean 4 kernel; axioms allowed: propext, Classical.choice, Quot.sound",
           "specification: C's comment rule (first */ closes; // to end of line; both only outside literals)",
           "tie: differential testing of CV.Cpp against cpp::process (hook H2)",
           "pest's WHITESPACE/COMMENT handling is exercised only through the end-to-end comparison"]

COMMENTS = ["/* c */", "/* two words */", "/* see http://x.y/z */", "/* \"quoted\" */", "/* it's */", "/* // inner */", "/* #define Q 1 */",
            "/* * / */", "/**/", "/* a\n   b */", "/* a\n b\n c */", "/* /* */"]
LINE_COMMENTS = ["// c", "// \"q", "// /* open", "// */", "// http://u"]
TOKEN = re.compile(r"\s+|[A-Za-z_][A-Za-z0-9_]*|\d+|==|!=|<=|>=|&&|\|\||<<=|>>=|<<|>>|\+\+|--|[-+*/&|^]=|\"(?:[^\"\\]|\\.)*\"|'(?:[^'\\]|\\.)'|.", re.S)


def decorate(src, rng, heavy):
    """insert comments / blank lines / tabs / splices between tokens (never inside a token or a directive line)"""
    out = []
    for line in src.split("\n"):
        if line.lstrip().startswith("#"):
            out.append(line); continue
        toks = [t for t in TOKEN.findall(line)]
        buf = []
        for i, t in enumerate(toks):
            buf.append(t)
            if t.isspace() or i + 1 >= len(toks):
                x = rng.random()
                p = 0.25 if heavy else 0.08
                if x < p * 0.4:
                    buf.append(" " + rng.choice(COMMENTS) + " ")
                elif x < p * 0.6:
                    buf.append("\t \t")
                elif x < p * 0.75:
                    buf.append("\n\n")
                elif x < p * 0.9 and i + 1 < len(toks):
                    buf.append("\\\n")
        l2 = "".join(buf)
        if rng.random() < (0.3 if heavy else 0.1):
            l2 += " " + rng.choice(LINE_COMMENTS)
        out.append(l2)
    s = "\n".join(out)
    if rng.random() < 0.15:
        s = s.replace("\n", "\r\n")
    return s


def strip_comments(lines):
    return [l for l in lines if l[0] != "C"]


def written(r):
    """the text handed to the assembler, listing comments and cycle counts aside"""
    out = []
    for l in unhx(r["out"]).split("\n"):
        if l.startswith(";"):
            continue
        out.append(re.sub(r"\t; [0-9/]+$", "", l).rstrip(" "))
    return out


def long_names(src):
    """the same program with identifiers of 26+ characters (an operand such as `w0_...+4,Y` is wider than the
    column the listing pads operands to)"""
    return re.sub(r"\b([vsawipf]\d)\b", r"\1_a_rather_long_identifier", src)


def decls(r):
    return [(v["name"], v["type"], v["mem"], v["size"], json.dumps(v["def"])) for v in r["vars"]], [f["name"] for f in r["funcs"]]


def run(chk):
    ok, obligations = prepare(chk)
    if not ok:
        return chk.finish(obligations=obligations, trusted_base=TRUSTED)
    h = Harness(); m = Model(); rng = chk.rng
    sources = chk.corpus() + prog.repo_test_inputs()[:: chk.scale(3, 1)]
    for i in range(chk.scale(150, 2500)):
        sources.append(gen_c.program(rng, shorts=rng.random() < 0.3, inline_rate=0.2, gotos=True).text)
    # deterministic idiom matrices (tools/matrix.py): every block sets its own operands; compiled plain and with
    # --insert_code at -O1, executed — a listing comment between two instructions must not change what a peephole
    # rule concludes
    import matrix
    for p_ in matrix.all_programs(["restore", "update-then-test", "triples"]):
        a = h.compile(p_.text, 1); b = h.compile(p_.text, 1, flags=("ic",))
        chk.count("matrix_listing")
        if a["status"] != "ok" or b["status"] != "ok":
            if a["status"] != b["status"]:
                chk.fail("option-changes-acceptance", "flags ('ic',): %s, plain %s" % (b["status"], a["status"]), {"source": p_.text})
            continue
        chk.case(key=("mx", p_.text), nontrivial=True)
        states, lay = coexec.init_states(a, 1, seed=1)
        o1, _ = coexec.run_all(m, "c11m", a, states, lay)
        o2, _ = coexec.run_all(m, "c11m", b, states, lay)
        if o1 and o2 and [coexec.observable(x, lay[3]) for x in o1] != [coexec.observable(x, lay[3]) for x in o2]:
            chk.fail("listing-changes-behaviour", "--insert_code changes what a block of the %s matrix computes at -O1" % p_.matrix,
                     {"source": p_.text, "plain": coexec.describe(lay[3], o1[0]), "listing": coexec.describe(lay[3], o2[0])})
    for idx, src in enumerate(sources):
        base = h.compile(src, 1)
        variants = []
        for k in range(chk.scale(2, 5)):
            variants.append(decorate(src, rng, heavy=k % 2 == 0))
        if idx < len(chk.corpus()):
            variants = [src]
        for dsrc in variants:
            # tie on the decorated text
            d, _ = cpptie.compare(h, m, dsrc)
            chk.count("tie_cpp")
            if d:
                chk.tie_broken("preprocessor: model and code disagree on a decorated source", {"source": dsrc, "real": d[0][:500], "model": d[1][:500]})
            r = h.compile(dsrc, 1)
            chk.case(key=dsrc, nontrivial=dsrc != src)
            chk.count("decorated")
            if len(chk.coverage["samples"]) < 3 and dsrc != src:
                chk.sample({"decorated": dsrc[:500]})
            if base["status"] != r["status"]:
                # regression corpus entries are self-contained: they must simply compile and declare everything
                if idx < len(chk.corpus()) and r["status"] == "ok":
                    continue
                chk.fail("comment-changes-acceptance", "plain source: %s, decorated source: %s %s" % (base["status"], r["status"],
                         unhx(r.get("err", {}).get("msg")) if r["status"] == "err" else ""), {"plain": src, "decorated": dsrc})
                continue
            if r["status"] != "ok":
                continue
            if decls(base) != decls(r):
                chk.fail("comment-changes-declarations", "decorating the source changed the set of declarations", {"plain": src, "decorated": dsrc,
                         "plain_vars": [unhx(v["name"]) for v in base["vars"]], "decorated_vars": [unhx(v["name"]) for v in r["vars"]]})
                continue
            for fb, fd in zip(base["funcs"], r["funcs"]):
                if (fb["code"] or {}).get("text") != (fd["code"] or {}).get("text"):
                    chk.fail("comment-changes-code", "decorating the source changed the code of %s" % unhx(fb["name"]), {"plain": src, "decorated": dsrc})
                    break
        # corpus entries that exist because a comment once swallowed code: every declaration must be there
        if idx < len(chk.corpus()):
            r = h.compile(src, 1)
            want = set(re.findall(r"char (\w+);", src))
            got = set(unhx(v["name"]) for v in r.get("vars", []))
            if r["status"] != "ok" or not want <= got:
                chk.fail("comment-swallows-code", "a comment containing `//` did not end at its `*/`: %s %s" % (r["status"], unhx(r.get("err", {}).get("msg")) if r["status"] == "err" else sorted(want - got)),
                         {"source": src})
            continue
        # listing / warning options
        if base["status"] != "ok":
            continue
        # the text written for the assembler (not only the instruction records): plain against listing, on the
        # program as it is and with long identifiers
        for wsrc in (src, long_names(src)):
            for level in (0, 1):
                wp, wl = h.compile(wsrc, level), h.compile(wsrc, level, flags=("ic",))
                chk.count("written_text")
                if wp["status"] != "ok" or wl["status"] != "ok":
                    if wp["status"] != wl["status"]:
                        chk.fail("option-changes-acceptance", "flags ('ic',): %s, plain %s" % (wl["status"], wp["status"]), {"source": wsrc, "level": level})
                    continue
                a, b = written(wp), written(wl)
                if level == 0 and a != b:
                    d = [(x, y) for x, y in zip(a, b) if x != y][:3]
                    chk.fail("listing-changes-written-text", "--insert_code changes the assembly text written at -O0: %s" % (d,),
                             {"source": wsrc, "level": level, "differences": d})
                    break
        for level in (0, 1):
            plain = base if level == 1 else h.compile(src, 0)
            for flags in (("ic",), ("Wall",), ("ic", "Wall")):
                r = h.compile(src, level, flags=flags)
                chk.count("options")
                if r["status"] != "ok":
                    chk.fail("option-changes-acceptance", "flags %s: %s" % (flags, r["status"]), {"source": src, "flags": flags, "level": level}); continue
                if decls(plain) != decls(r):
                    chk.fail("option-changes-declarations", "flags %s change the declarations" % (flags,), {"source": src}); continue
                for fb, fd in zip(plain["funcs"], r["funcs"]):
                    if fb["code"] is None:
                        continue
                    a, b = strip_comments(fb["code"]["lines"]), strip_comments(fd["code"]["lines"])
                    if level == 0 and a != b:
                        chk.fail("listing-changes-code", "--insert_code / -W changed the -O0 instructions of %s" % unhx(fb["name"]), {"source": src, "flags": flags}); break
                    if level == 1 and a != b:
                        # comments may stop a peephole rule: behaviour must still be identical
                        if not any(unhx(f["name"]) == "main" for f in r["funcs"]):
                            continue
                        states, lay = coexec.init_states(plain, chk.scale(4, 16), seed=idx)
                        o1, _ = coexec.run_all(m, "c11", plain, states, lay)
                        o2, _ = coexec.run_all(m, "c11", r, states, lay)
                        chk.count("listing_coexec")
                        if o1 and o2 and [coexec.observable(x, lay[3]) for x in o1] != [coexec.observable(x, lay[3]) for x in o2]:
                            chk.fail("listing-changes-behaviour", "--insert_code changes what %s computes at -O1" % unhx(fb["name"]), {"source": src, "flags": flags})
                        break
    h.close(); m.close()
    return chk.finish(level="proof", obligations=obligations, trusted_base=TRUSTED,
                      checker_cmd="cd /verif/lean && lake build CV.Props.C11 && lake env lean .lake/audit/C11_audit.lean",
                      extra={"rule": "each program decorated 2-5 times (block comments with quotes, //, /*, URLs, directives, multi-line; line comments; "
                                     "blank lines; tabs; splices; CR-LF) and compiled with --insert_code / -Wall at -O0/-O1; non-trivial = decorated differs from plain"})
