"""C13 — emitted assembly always assembles.

  proof  : lean/CV/Props/C13.lean (renaming injective; labels stay unique and references closed under
           any sequence of inline expansions; .fix labels distinct; legal modes from C04's table)
  tie    : append_code() on random callee/caller vectors vs CV.Inline.appendCode
  search : every function of every compiled program (repository inputs + generated programs with
           inline functions, nested calls, gotos; -O0/-O1) through the independent assembler front
           end: every line has an encoding, every label is defined once, every referenced label or
           symbol is defined.
"""
import re
from lib import *
import prog, gen_c

BR = ["BCC", "BCS", "BEQ", "BMI", "BNE", "BPL", "JMP"]
TRUSTED = ["Lean 4 kernel; axioms allowed: propext, Classical.choice, Quot.sound",
           "specification: CV/Encode.lean (which mnemonic exists in which mode), dasm conventions ('.'-labels local to a SUBROUTINE)",
           "tie: differential testing of CV.Inline.appendCode against AssemblyCode::append_code",
           "label discipline of the unmodelled generator paths is checked per compiled function, not proved"]

KNOWN_SYMBOLS = {"cctmp", "DUMMY"}


def rand_code(rng, labels):
    out = []
    for _ in range(rng.randint(1, 10)):
        x = rng.random()
        if x < 0.2:
            out.append(L(rng.choice(labels)))
        elif x < 0.5:
            out.append(I(rng.choice(BR), rng.choice(labels + [".endof"]), 2 if rng.random() < 0.8 else 3, 2, 3, rng.random() < 0.5))
        elif x < 0.6:
            out.append(I("JSR", "func", 3, 6, None, rng.random() < 0.3))
        elif x < 0.75:
            out.append(I(rng.choice(["LDA", "STA", "INC"]), rng.choice(["v", "v+1", "#3", "arr,X"]), 2, 3, None, rng.random() < 0.3))
        elif x < 0.85:
            out.append(N("NOP ; .x", 1))
        elif x < 0.95:
            out.append(C("comment .lab"))
        else:
            out.append(D)
    return out


def check_function(chk, m, f, src, level, globals_):
    ls = f["code"]["lines"]
    name = unhx(f["name"])
    defs = {}
    for l in ls:
        if l[0] == "L":
            defs[l[1]] = defs.get(l[1], 0) + 1
    for k, n in defs.items():
        if n > 1:
            chk.fail("duplicate-label", "function %s defines label %s %d times" % (name, unhx(k), n),
                     {"source": src, "level": level, "function": name, "label": unhx(k)})
    for l in ls:
        if l[0] == "I" and l[1] in BR + ["JSR"]:
            tgt = unhx(l[2])
            if l[2] in defs:
                continue
            if tgt.startswith(".") or l[1] != "JSR" and tgt not in globals_:
                sig = "undefined-label"
                if ".dowhilecondition" in tgt:
                    sig = "continue-in-switch-in-dowhile"
                chk.fail(sig, "function %s: `%s %s` refers to a label that is not defined in the function" % (name, l[1], tgt),
                         {"source": src, "level": level, "function": name, "line": show_line(l)})
            elif tgt not in globals_:
                chk.fail("undefined-symbol", "function %s: `%s %s` refers to an unknown function" % (name, l[1], tgt),
                         {"source": src, "level": level, "function": name, "line": show_line(l)})
    la = m.req("lens c13 " + toks_of_lines(ls)) if ls else "ok"
    lens = la.split(" ")[1:]
    if "bad" in lens:
        i = lens.index("bad")
        chk.fail("emitted-line-does-not-assemble", "function %s: line `%s` has no 6502 encoding or names an unknown symbol" % (name, show_line(ls[i]).strip()),
                 {"source": src, "level": level, "function": name, "line": show_line(ls[i])})


def run(chk):
    ok, obligations = prepare(chk)
    if not ok:
        return chk.finish(obligations=obligations, trusted_base=TRUSTED)
    h = Harness(); m = Model(); rng = chk.rng
    # ---- tie: append_code ----
    for it in range(chk.scale(600, 10000)):
        labels = [".l%d" % i for i in range(rng.randint(1, 4))] + ["user_label"]
        callee, caller = rand_code(rng, labels), rand_code(rng, labels)
        n = rng.choice([1, 2, 9, 10, 11, 99, 100, 12345])
        req = "inline %d %s / %s" % (n, toks_of_lines(callee), toks_of_lines(caller))
        real = h.req(req); mod = m.req(req)
        chk.case(key=req, nontrivial=any(l[0] in ("L",) or (l[0] == "I" and l[1] in BR) for l in callee))
        chk.count("tie_inline")
        if real.get("status") != "ok" or mod != "ok 0 " + toks_of_lines(real["code"]["lines"]):
            chk.tie_broken("append_code: model and code disagree", {"counter": n, "callee": [show_line(l) for l in callee],
                           "caller": [show_line(l) for l in caller], "real": [show_line(l) for l in real.get("code", {}).get("lines", [])], "model": mod[:1500]})
        if it == 0:
            chk.sample({"append_code": {"counter": n, "callee": [show_line(l) for l in callee]}})
    # ---- known-finding exemplars (corpus runs first) ----
    corpus = [(c, ()) for c in chk.corpus()]
    sources = corpus + [(s, ()) for s in prog.repo_test_inputs()]
    for i in range(chk.scale(250, 3000)):
        sources.append((gen_c.program(rng, placement=rng.choice(["zp", "mixed", "abs"]), shorts=rng.random() < 0.55,
                                      inline_rate=0.6, gotos=True, probe=('lte16', 'zero-compare', 'reg-compare')).text, ()))
    # prototypes before definitions: parameters and locals of forward-declared functions
    for protos in ("void add(char a, char b);", "void add(char a, char b); char get(char k);", ""):
        sources.append(("char r;\n%s\nvoid main() { add(1, 2); r = get(3); }\nvoid add(char a, char b) { char t; t = a; r = t + b; }\n"
                        "char get(char k) { char u; u = k + 1; return u; }\n" % protos if "get" in protos or not protos else
                        "char r;\n%s\nvoid main() { add(1, 2); }\nvoid add(char a, char b) { char t; t = a; r = t + b; }\n" % protos, ()))
    # every kind of assignable operand x assignment form x right operand, one statement per program (tools/idioms.py)
    import idioms
    sources += [(idioms.wrap(st), ()) for st in idioms.statements()]
    sources += [(sp, ()) for sp in idioms.signed_programs()]
    nfun = 0
    for (src, defs) in sources:
        for level in (0, 1):
            r = h.compile(src, level, defines=defs)
            if r["status"] != "ok":
                chk.count("compile_" + r["status"])
                continue
            env, _, ports, _ = prog.layout(r["vars"], r.get("scheme", "4K"))
            globals_ = set(unhx(f["name"]) for f in r["funcs"]) | set(env.keys()) | KNOWN_SYMBOLS
            m.req("drop c13")
            m.req("env c13 %s" % " ".join("%s=%d" % (hx(k), v) for k, v in env.items()))
            # storage: a variable that is not global gets its cell from the list of locals of a function (that is all
            # a linker sees); an operand naming a local nobody owns is a symbol the assembler will not find
            owned = set(n for f in r["funcs"] for n in f.get("locals", []))
            orphan = set(unhx(v["name"]) for v in r["vars"] if not v["global"] and v["name"] not in owned)
            for f in r["funcs"]:
                if f["code"] is None or f["inline"]:
                    continue      # the body of an inline function is only ever emitted inside its callers
                if orphan:
                    for l in f["code"]["lines"]:
                        if l[0] == "I":
                            ids = set(re.findall(r"[A-Za-z_][A-Za-z0-9_]*", unhx(l[2])))
                            if ids & orphan:
                                chk.fail("operand-names-unallocated-local", "function %s: `%s` names the local %s, which no function owns (no storage is ever reserved for it)" % (
                                         unhx(f["name"]), show_line(l).strip(), sorted(ids & orphan)[0]), {"source": src, "level": level, "function": unhx(f["name"]), "line": show_line(l)})
                                break
                nfun += 1
                has_inl = any(l[0] == "L" and "inline" in unhx(l[1]) for l in f["code"]["lines"])
                chk.count("functions_with_expansions" if has_inl else "functions_plain")
                chk.case(key=(src, level, f["name"]), nontrivial=len(f["code"]["lines"]) > 3)
                check_function(chk, m, f, src, level, globals_)
        if len(chk.coverage["samples"]) < 4:
            chk.sample({"program": src[:400]})
    chk.stats["functions_checked"] = nfun
    h.close(); m.close()
    return chk.finish(level="proof", obligations=obligations, trusted_base=TRUSTED,
                      checker_cmd="cd /verif/lean && lake build CV.Props.C13 && lake env lean .lake/audit/C13_audit.lean",
                      extra={"rule": "append_code on random vectors (labels, branches, JMP .endof, JSR, inline text, comments; counters with 1-5 digits); "
                                     "per function: repository inputs + generated programs (inline functions, nested calls, early returns, gotos) at -O0/-O1; "
                                     "non-trivial = callee has labels/branches, function longer than 3 lines"})
