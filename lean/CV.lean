import CV.Basic
import CV.Mos
import CV.Encode
import CV.Asm
import CV.Proto
import CV.Exec
import CV.Branch
import CV.Driver
