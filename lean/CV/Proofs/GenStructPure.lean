/-
  The reading without scratch cell. The generated code uses the compiler's cell `cctmp` for a register
  right operand; CV.GenReg.rspec says so. This file relates that specification to the plain reading of
  the source (`pureSpec`, `semPure`: no scratch cell anywhere): on programs that do not name `cctmp`
  (no program can: the name is the compiler's) the two agree on X, Y and every memory cell except `cctmp`.
-/
import CV.GenStruct
import CV.Proofs.GenRegLemmas
import CV.Proofs.GenWord
set_option linter.unusedSimpArgs false
set_option linter.unusedVariables false
set_option linter.constructorNameAsVariable false
namespace CV.GenStruct
open CV CV.GenFlat CV.GenReg

/-- a cell of the stack page -/
def InStack (a : Word) : Prop := ∃ b : Byte, a = Cpu.stackAddr b

/-- the cells the generated code uses for itself: the scratch cell `cctmp` and (since stage 10: `PHA` spills)
    the stack page -/
def Scratch (L : Layout) (a : Word) : Prop := a = L "cctmp" ∨ InStack a

/-- equal on X, Y and every memory cell except the compiler's own (scratch cell, stack page) -/
def EqOff (L : Layout) (σ τ : SrcSt) : Prop :=
  σ.x = τ.x ∧ σ.y = τ.y ∧ ∀ a, ¬ Scratch L a → σ.mem.read a = τ.mem.read a

theorem EqOff.refl (L : Layout) (σ : SrcSt) : EqOff L σ σ := ⟨rfl, rfl, fun _ _ => rfl⟩
theorem EqOff.symm {L : Layout} {σ τ : SrcSt} (h : EqOff L σ τ) : EqOff L τ σ :=
  ⟨h.1.symm, h.2.1.symm, fun a ha => (h.2.2 a ha).symm⟩
theorem EqOff.trans {L : Layout} {σ τ υ : SrcSt} (h1 : EqOff L σ τ) (h2 : EqOff L τ υ) : EqOff L σ υ :=
  ⟨h1.1.trans h2.1, h1.2.1.trans h2.2.1, fun a ha => (h1.2.2 a ha).trans (h2.2.2 a ha)⟩

/-! ### names -/

/-- the memory operands (variables and array elements) something mentions -/
def _root_.CV.GenFlat.Atom.names : Atom → List Atom
  | .const _ => []
  | .var v => [.var v]
  | .el t i => [.el t i]

def _root_.CV.GenReg.RA.names : RA → List Atom
  | .of a => Atom.names a
  | _ => []

def _root_.CV.GenReg.LV.names : LV → List Atom
  | .var v => [.var v]
  | .el t i => [.el t i]
  | _ => []

def lexprNames : LExpr → List Atom
  | .pair a _ b => a.names ++ b.names
  | .left e _ y => lexprNames e ++ y.names
  | .right x _ e => x.names ++ lexprNames e

def gexprNames : GExpr → List Atom
  | .atom a => a.names
  | .bin l _ r => gexprNames l ++ gexprNames r
  | .sh e _ _ => gexprNames e

def _root_.CV.GenReg.RStmt.names : RStmt → List Atom
  | .expr v e => v.names ++ gexprNames e
  | .lin v e => v.names ++ lexprNames e
  | .asg v a => v.names ++ a.names
  | .bin v _ a b => v.names ++ a.names ++ b.names
  | .opasg v _ a => v.names ++ a.names
  | .inc v | .dec v => v.names
  | .chain v a _ b1 ops => v.names ++ a.names ++ b1.names ++ ops.flatMap fun p => p.2.names
  | .asgW s a => [.var s, .el s (.k 1)] ++ a.lo.names ++ a.hi.names
  | .binW s _ a b => [.var s, .el s (.k 1)] ++ a.lo.names ++ a.hi.names ++ b.lo.names ++ b.hi.names
  | .opasgW s _ a => [.var s, .el s (.k 1)] ++ a.lo.names ++ a.hi.names

def Cond.names : Cond → List Atom
  | .cmp _ a b => a.names ++ b.names
  | .truth v | .nottruth v => v.names
  | .and a b | .or a b => Cond.names a ++ Cond.names b
  | .not c => Cond.names c
  | .cmpE _ e b _ => gexprNames e ++ b.names
  | .truthE e => gexprNames e
  | .cmpR _ e _ _ => gexprNames e
  | .wcmp _ s w => [.var s, .el s (.k 1)] ++ w.lo.names ++ w.hi.names

def SStmt.names : SStmt → List Atom
  | .flat s => s.names
  | .skip => []
  | .forget => []
  | .seq a b => SStmt.names a ++ SStmt.names b
  | .ifThen c t => c.names ++ SStmt.names t
  | .ifElse c t e => c.names ++ SStmt.names t ++ SStmt.names e
  | .while c b => c.names ++ SStmt.names b
  | .doWhile b c => SStmt.names b ++ c.names
  | .for i c u b => i.names ++ c.names ++ u.names ++ SStmt.names b
  | .brk | .cont => []
  | .ifBrk c | .ifCont c => c.names

/-- the cell(s) an operand can denote are not the scratch cell; for an element subscripted by a register:
    whatever the register holds (true of every layout that places `cctmp` below the arrays) -/
def CellOK (L : Layout) : Atom → Prop
  | .const _ => True
  | .var v => ¬ Scratch L (L v)
  | .el t (.k n) => ¬ Scratch L (L t + BitVec.ofNat 16 n)
  | .el t _ => ∀ b : Byte, ¬ Scratch L (L t + b.zeroExtend 16)

/-- no operand of the program lives in the scratch cell or in the stack page, and the scratch cell is not in
    the stack page -/
def NoTmp (L : Layout) (ns : List Atom) : Prop := ¬ InStack (L "cctmp") ∧ ∀ a ∈ ns, CellOK L a

/-! ### the plain reading -/

def binPure (L : Layout) (σ : SrcSt) (v : LV) (op : BOp) (x y : RA) : SrcSt :=
  wr L σ v (op.apply (rval L σ x) (rval L σ y))

/-- the plain value of a chain: a left fold over the operands -/
def chainPure (L : Layout) (σ : SrcSt) : Byte → List (BOp × RA) → Byte
  | acc, [] => acc
  | acc, (op, y) :: rest => chainPure L σ (op.apply acc (rval L σ y)) rest

/-- the plain value of a linear expression -/
def linPure (L : Layout) (σ : SrcSt) : LExpr → Byte
  | .pair a op b => op.apply (rval L σ a) (rval L σ b)
  | .left e op y => op.apply (linPure L σ e) (rval L σ y)
  | .right x op e => op.apply (rval L σ x) (linPure L σ e)

def pureSpec (L : Layout) (σ : SrcSt) : RStmt → SrcSt
  | .expr v e => if e.ok then wr L σ v (pureE L σ e) else σ
  | .lin v e => wr L σ v (linPure L σ e)
  | .chain v a op1 b1 ops => wr L σ v (chainPure L σ (op1.apply (rval L σ a) (rval L σ b1)) ops)
  | .asg v a => wr L σ v (rval L σ a)
  | .bin v op a b => binPure L σ v op a b
  | .opasg v op a => binPure L σ v op v.ra a
  | .inc v => wr L σ v (rval L σ v.ra + 1)
  | .dec v => wr L σ v (rval L σ v.ra - 1)
  | .asgW s a => asgWSpec L σ s a
  | .binW s op a b => let p := wordered op a b; binWSpec L σ s op p.1 p.2
  | .opasgW s op a => binWSpec L σ s op (.wvar s) a

/-- the plain reading of a condition: no state is threaded, `&&` / `||` read the same state -/
def evalCondP (L : Layout) (m : SrcSt) : Cond → Bool
  | .cmp op a b => op.eval (rval L m a) (rval L m b)
  | .truth v => rval L m v.ra != 0
  | .nottruth v => rval L m v.ra == 0
  | .and a b => evalCondP L m a && evalCondP L m b
  | .or a b => evalCondP L m a || evalCondP L m b
  | .not c => !evalCondP L m c
  | .cmpE op e b eLeft =>
    if eLeft then op.eval (treeVal L m e) (val L m.mem m.x m.y b) else op.eval (val L m.mem m.x m.y b) (treeVal L m e)
  | .truthE e => treeVal L m e != 0
  | .cmpR op e y eLeft =>
    if eLeft then op.eval (treeVal L m e) (if y then m.y else m.x) else op.eval (if y then m.y else m.x) (treeVal L m e)
  | .wcmp ne s w => if ne then wordAt L m.mem s != wval L m w else wordAt L m.mem s == wval L m w

mutual
def semPure (L : Layout) : Nat → SrcSt → SStmt → Option Out
  | 0, _, _ => none
  | _ + 1, m, .flat s => some (.norm, pureSpec L m s)
  | _ + 1, m, .skip => some (.norm, m)
  | _ + 1, m, .forget => some (.norm, m)
  | _ + 1, m, .brk => some (.brk, m)
  | _ + 1, m, .cont => some (.cont, m)
  | _ + 1, m, .ifBrk c => some (if evalCondP L m c then .brk else .norm, m)
  | _ + 1, m, .ifCont c => some (if evalCondP L m c then .cont else .norm, m)
  | f + 1, m, .seq a b =>
    (match semPure L f m a with
     | some (.norm, m1) => semPure L f m1 b
     | r => r)
  | f + 1, m, .ifThen c t => if evalCondP L m c then semPure L f m t else some (.norm, m)
  | f + 1, m, .ifElse c t e => if evalCondP L m c then semPure L f m t else semPure L f m e
  | f + 1, m, .while c b =>
    if evalCondP L m c then
      (match semPure L f m b with
       | none => none
       | some (.brk, m1) => some (.norm, m1)
       | some (_, m1) => semPure L f m1 (.while c b))
    else some (.norm, m)
  | f + 1, m, .doWhile b c =>
    (match semPure L f m b with
     | none => none
     | some (.brk, m1) => some (.norm, m1)
     | some (_, m1) => if evalCondP L m1 c then semPure L f m1 (.doWhile b c) else some (.norm, m1))
  | f + 1, m, .for i c u b => semPureFor L c u b f (pureSpec L m i)

def semPureFor (L : Layout) (c : Cond) (u : RStmt) (b : SStmt) : Nat → SrcSt → Option Out
  | 0, _ => none
  | f + 1, m =>
    if evalCondP L m c then
      (match semPure L f m b with
       | none => none
       | some (.brk, m1) => some (.norm, m1)
       | some (_, m1) => semPureFor L c u b f (pureSpec L m1 u))
    else some (.norm, m)
end

/-! ### agreement -/

theorem rval_eqOff (L : Layout) {σ τ : SrcSt} (h : EqOff L σ τ) (a : RA) (hn : NoTmp L a.names) :
    rval L σ a = rval L τ a := by
  cases a with
  | x => exact h.1
  | y => exact h.2.1
  | of b =>
    cases b with
    | const n => rfl
    | var v =>
      simp only [rval, val]
      exact h.2.2 _ (hn.2 (.var v) (by simp [RA.names, Atom.names]))
    | el t i =>
      have hc := hn.2 (.el t i) (by simp [RA.names, Atom.names])
      simp only [rval, val]
      rw [h.1, h.2.1]
      cases i with
      | k n => exact h.2.2 _ hc
      | x => exact h.2.2 _ (hc τ.x)
      | y => exact h.2.2 _ (hc τ.y)

theorem wr_eqOff (L : Layout) {σ τ : SrcSt} (h : EqOff L σ τ) (v : LV) (b : Byte) :
    EqOff L (wr L σ v b) (wr L τ v b) := by
  cases v with
  | x => exact ⟨rfl, h.2.1, h.2.2⟩
  | y => exact ⟨h.1, rfl, h.2.2⟩
  | var n =>
    refine ⟨h.1, h.2.1, ?_⟩
    intro a ha
    simp only [wr]
    by_cases e : L n = a
    · subst e; simp
    · simp [e, h.2.2 a ha]
  | el t i =>
    refine ⟨h.1, h.2.1, ?_⟩
    intro a ha
    simp only [wr]
    rw [h.1, h.2.1]
    by_cases e : elAddr L τ.x τ.y t i = a
    · subst e; simp
    · simp [e, h.2.2 a ha]

theorem tmpWrite_eqOff (L : Layout) (σ : SrcSt) (op : BOp) (y : RA) : EqOff L (tmpWrite L σ op y) σ := by
  unfold tmpWrite
  split
  · refine ⟨rfl, rfl, ?_⟩
    intro a ha
    have : L "cctmp" ≠ a := fun e => ha (Or.inl e.symm)
    simp [this]
  · exact EqOff.refl L σ

theorem NoTmp.left {L : Layout} {a b : List Atom} (h : NoTmp L (a ++ b)) : NoTmp L a :=
  ⟨h.1, fun v hv => h.2 v (by simp [hv])⟩
theorem NoTmp.right {L : Layout} {a b : List Atom} (h : NoTmp L (a ++ b)) : NoTmp L b :=
  ⟨h.1, fun v hv => h.2 v (by simp [hv])⟩

theorem ra_names_lv (v : LV) : v.ra.names = v.names := by cases v <;> rfl

theorem apply_comm_of (op : BOp) (a b : Byte) (h : op.commutes = true) : op.apply a b = op.apply b a := by
  cases op <;> simp [BOp.commutes] at h <;> simp [BOp.apply, BitVec.add_comm, BitVec.and_comm, BitVec.or_comm, BitVec.xor_comm]

theorem orZero_apply (L : Layout) (σ : SrcSt) (op : BOp) (x y : RA) (h : orZeroReg op x y = true) :
    op.apply (rval L σ x) (rval L σ y) = rval L σ x := by
  simp only [orZeroReg, Bool.and_eq_true, beq_iff_eq] at h
  obtain ⟨⟨hop, _⟩, hy⟩ := h
  subst hop
  cases y with
  | of b =>
    cases b with
    | const n =>
      have : n = 0 := by simpa using hy
      subst this
      simp [BOp.apply, rval, val]
    | var _ => simp at hy
    | el _ _ => simp at hy
  | x => simp at hy
  | y => simp at hy

/-- `binSpec` (with the scratch write and the `X | 0` shortcut) against the plain binary operation -/
theorem binSpec_pure (L : Layout) {σ τ : SrcSt} (h : EqOff L σ τ) (v : LV) (op : BOp) (x y : RA)
    (hx : NoTmp L x.names) (hy : NoTmp L y.names) :
    EqOff L (binSpec L σ v op x y) (binPure L τ v op x y) := by
  unfold binSpec binPure
  have ex := rval_eqOff L h x hx
  have ey := rval_eqOff L h y hy
  split
  · rename_i hz
    have := orZero_apply L τ op x y hz
    rw [this, ← ex]
    exact wr_eqOff L h v _
  · rw [ex, ey]
    exact wr_eqOff L ((tmpWrite_eqOff L σ op y).trans h) v _

theorem rordered_pure (L : Layout) (τ : SrcSt) (v : LV) (op : BOp) (a b : RA) :
    binPure L τ v op (rordered op a b).1 (rordered op a b).2 = binPure L τ v op a b := by
  unfold rordered
  split
  · rename_i hc
    have : op.commutes = true := by
      simp only [Bool.and_eq_true] at hc; exact hc.1.1
    simp [binPure, apply_comm_of op _ _ this]
  · rfl

theorem rordered_names (L : Layout) (op : BOp) (a b : RA) (ha : NoTmp L a.names) (hb : NoTmp L b.names) :
    NoTmp L (rordered op a b).1.names ∧ NoTmp L (rordered op a b).2.names := by
  unfold rordered
  split
  · exact ⟨hb, ha⟩
  · exact ⟨ha, hb⟩

theorem asgWSpec_eqOff (L : Layout) {σ τ : SrcSt} (h : EqOff L σ τ) (s : String) (a : WA)
    (hl : NoTmp L a.lo.names) (hh : NoTmp L a.hi.names) : EqOff L (asgWSpec L σ s a) (asgWSpec L τ s a) := by
  simp only [asgWSpec]
  rw [rval_eqOff L h (.of a.lo) hl]
  have h1 := wr_eqOff L h (.var s) (rval L τ (.of a.lo))
  rw [rval_eqOff L h1 (.of a.hi) hh]
  exact wr_eqOff L h1 _ _

theorem binWSpec_eqOff (L : Layout) {σ τ : SrcSt} (h : EqOff L σ τ) (s : String) (op : BOp) (x y : WA)
    (hxl : NoTmp L x.lo.names) (hxh : NoTmp L x.hi.names) (hyl : NoTmp L y.lo.names) (hyh : NoTmp L y.hi.names) :
    EqOff L (binWSpec L σ s op x y) (binWSpec L τ s op x y) := by
  simp only [binWSpec]
  rw [rval_eqOff L h (.of x.lo) hxl, rval_eqOff L h (.of y.lo) hyl]
  have h1 := wr_eqOff L h (.var s) (lowRes op (rval L τ (.of x.lo)) (rval L τ (.of y.lo))).1
  rw [rval_eqOff L h1 (.of x.hi) hxh, rval_eqOff L h1 (.of y.hi) hyh]
  exact wr_eqOff L h1 _ _

theorem chainVal_pure (L : Layout) (ops : List (BOp × RA)) {σ τ : SrcSt} (h : EqOff L σ τ) (acc : Byte)
    (hn : NoTmp L (ops.flatMap fun p => p.2.names)) :
    (chainVal L σ acc ops).2 = chainPure L τ acc ops ∧ EqOff L (chainVal L σ acc ops).1 τ := by
  induction ops generalizing σ acc with
  | nil => exact ⟨rfl, h⟩
  | cons p rest ih =>
    obtain ⟨op, y⟩ := p
    have hy : NoTmp L y.names := ⟨hn.1, fun a ha => hn.2 a (by simp [ha])⟩
    have hr : NoTmp L (rest.flatMap fun p => p.2.names) := ⟨hn.1, fun a ha => hn.2 a (by simp at ha ⊢; exact Or.inr ha)⟩
    simp only [chainVal, chainPure]
    rw [rval_eqOff L h y hy]
    exact ih ((tmpWrite_eqOff L σ op y).trans h) _ hr

theorem rordered_apply (L : Layout) (τ : SrcSt) (op : BOp) (a b : RA) :
    op.apply (rval L τ (rordered op a b).1) (rval L τ (rordered op a b).2) = op.apply (rval L τ a) (rval L τ b) := by
  unfold rordered
  split
  · rename_i hc
    have : op.commutes = true := by
      simp only [Bool.and_eq_true] at hc; exact hc.1.1
    exact apply_comm_of op _ _ this
  · rfl

theorem apply_comm_ne_sub (op : BOp) (a b : Byte) (h : op ≠ .sub) : op.apply a b = op.apply b a := by
  cases op <;> simp_all [BOp.apply, BitVec.add_comm, BitVec.and_comm, BitVec.or_comm, BitVec.xor_comm]

theorem tmpStore_eqOff (L : Layout) (σ : SrcSt) (b : Byte) :
    EqOff L ({ σ with mem := σ.mem.write (L "cctmp") b } : SrcSt) σ := by
  refine ⟨rfl, rfl, ?_⟩
  intro a ha
  have : L "cctmp" ≠ a := fun e => ha (Or.inl e.symm)
  simp [this]

theorem linVal_pure (L : Layout) (e : LExpr) {σ τ : SrcSt} (h : EqOff L σ τ) (hn : NoTmp L (lexprNames e)) :
    (linVal L σ e).2 = linPure L τ e ∧ EqOff L (linVal L σ e).1 τ := by
  induction e generalizing σ with
  | pair a op b =>
    have ha : NoTmp L a.names := NoTmp.left hn
    have hb : NoTmp L b.names := NoTmp.right hn
    have hr := rordered_names L op a b ha hb
    simp only [linVal, linPure]
    rw [rval_eqOff L h _ hr.1, rval_eqOff L h _ hr.2, rordered_apply]
    exact ⟨rfl, (tmpWrite_eqOff L σ op _).trans h⟩
  | left e op y ih =>
    obtain ⟨e1, e2⟩ := ih h (NoTmp.left hn)
    simp only [linVal, linPure]
    rw [e1, rval_eqOff L e2 y (NoTmp.right hn)]
    exact ⟨rfl, (tmpWrite_eqOff L _ op y).trans e2⟩
  | right x op e ih =>
    obtain ⟨e1, e2⟩ := ih h (NoTmp.right hn)
    have hx : NoTmp L x.names := NoTmp.left hn
    by_cases hs : op = .sub
    · subst hs
      have h3 := (tmpStore_eqOff L (linVal L σ e).1 (linVal L σ e).2).trans e2
      simp only [linVal, linPure, beq_self_eq_true, if_true]
      rw [rval_eqOff L h3 x hx]
      exact ⟨by rw [e1]; rfl, h3⟩
    · have hne : (op == BOp.sub) = false := by cases op <;> simp_all
      simp only [linVal, linPure, hne, Bool.false_eq_true, if_false]
      rw [e1, rval_eqOff L e2 x hx, apply_comm_ne_sub op _ _ hs]
      exact ⟨rfl, (tmpWrite_eqOff L _ op x).trans e2⟩

/-! ### expression trees (stage 10): the spill strategy never loses a live value -/

theorem order_cases (op : BOp) (l rt : ET) : order op l rt = (l, rt) ∨ (order op l rt = (rt, l) ∧ op ≠ .sub) := by
  unfold order
  by_cases hs : (op == BOp.sub) = true
  · simp [hs]
  · have : op ≠ .sub := by intro e; subst e; simp at hs
    simp only [hs, if_false, Bool.false_eq_true]
    split
    · exact Or.inr ⟨rfl, this⟩
    · split
      · exact Or.inr ⟨rfl, this⟩
      · exact Or.inl rfl

theorem stackAddr_not_tmp (L : Layout) (hT : ¬ InStack (L "cctmp")) (b : Byte) : L "cctmp" ≠ Cpu.stackAddr b :=
  fun e => hT ⟨b, e⟩

theorem pushS_eqOff (L : Layout) (σ : SrcSt) (a : Byte) : EqOff L (pushS σ a) σ := by
  refine ⟨rfl, rfl, ?_⟩
  intro x hx
  have : Cpu.stackAddr σ.sp ≠ x := fun e => hx (Or.inr ⟨σ.sp, e.symm⟩)
  simp [pushS, this]

theorem setTmp_eqOff (L : Layout) (σ : SrcSt) (a : Byte) : EqOff L (setTmp L σ a) σ := tmpStore_eqOff L σ a

/-- the value an operand location denotes depends on the program's cells, the scratch cell and the accumulator -/
theorem leftVal_eq (L : Layout) {σ1 σ : SrcSt} (a : Byte) (t : ET) (h : EqOff L σ1 σ)
    (hc : σ1.mem.read (L "cctmp") = σ.mem.read (L "cctmp")) (hn : ∀ x, t = .atm x → NoTmp L x.names) :
    leftVal L σ1 a t = leftVal L σ a t := by
  cases t with
  | atm x => exact rval_eqOff L h x (hn x rfl)
  | tmp => exact hc
  | acc => rfl

theorem rval_opnd (L : Layout) (σ : SrcSt) (a : Byte) (t : ET) (h : t ≠ .acc) : rval L σ (opnd t) = leftVal L σ a t := by
  cases t with
  | atm x => rfl
  | tmp => rfl
  | acc => exact absurd rfl h

theorem opnd_isReg (t : ET) : (opnd t).isReg = t.isReg := by
  cases t <;> rfl

theorem evalPlan_pure (L : Layout) (σ : SrcSt) (a : Byte) (op : BOp) (st : ES) (l rt : ET) (p : Plan)
    (hT : ¬ InStack (L "cctmp")) (hp : plan st l op rt = some p)
    (hl : ∀ x, l = .atm x → NoTmp L x.names) (hr : ∀ x, rt = .atm x → NoTmp L x.names)
    (htm : (l = .tmp ∨ rt = .tmp) → st.tmpU = true) :
    EqOff L (evalPlan L σ a op p).1 σ ∧
    leftVal L (evalPlan L σ a op p).1 (evalPlan L σ a op p).2 (if p.save then .tmp else .acc)
      = op.apply (leftVal L σ a l) (leftVal L σ a rt) ∧
    (evalPlan L σ a op p).1.sp = σ.sp ∧
    (st.acc = true → l ≠ .acc → rt ≠ .acc → (evalPlan L σ a op p).2 = a ∧ p.save = true) ∧
    (st.tmpU = true → l ≠ .tmp → rt ≠ .tmp →
      (evalPlan L σ a op p).1.mem.read (L "cctmp") = σ.mem.read (L "cctmp") ∧ p.save = false ∧ p.st'.tmpU = true) ∧
    (p.save = true → p.st'.tmpU = true) ∧ p.st'.acc = true := by
  unfold plan at hp
  split at hp
  case isFalse => cases hp
  rename_i hok
  cases hp
  have hoc := order_cases op l rt
  generalize hord : order op l rt = pr at hoc
  obtain ⟨left, right⟩ := pr
  have hmem : (left = l ∧ right = rt) ∨ ((left = rt ∧ right = l) ∧ op ≠ .sub) := by
    rcases hoc with h | ⟨h, hne⟩
    · cases h; exact Or.inl ⟨rfl, rfl⟩
    · cases h; exact Or.inr ⟨⟨rfl, rfl⟩, hne⟩
  have hval : op.apply (leftVal L σ a left) (leftVal L σ a right) = op.apply (leftVal L σ a l) (leftVal L σ a rt) := by
    rcases hmem with ⟨h1, h2⟩ | ⟨⟨h1, h2⟩, hne⟩
    · rw [h1, h2]
    · rw [h1, h2]; exact apply_comm_ne_sub op _ _ hne
  have hleft : ∀ x, left = .atm x → NoTmp L x.names := by
    rcases hmem with ⟨h1, h2⟩ | ⟨⟨h1, h2⟩, _⟩ <;> rw [h1] <;> assumption
  have hright : ∀ x, right = .atm x → NoTmp L x.names := by
    rcases hmem with ⟨h1, h2⟩ | ⟨⟨h1, h2⟩, _⟩ <;> rw [h2] <;> assumption
  have htm' : (left = .tmp ∨ right = .tmp) → st.tmpU = true := by
    rcases hmem with ⟨h1, h2⟩ | ⟨⟨h1, h2⟩, _⟩
    · rw [h1, h2]; exact htm
    · rw [h1, h2]; exact fun h => htm h.symm
  have hacc' : l ≠ .acc → rt ≠ .acc → left ≠ .acc ∧ right ≠ .acc := by
    rcases hmem with ⟨h1, h2⟩ | ⟨⟨h1, h2⟩, _⟩ <;> rw [h1, h2] <;> intro h h' <;> exact ⟨by assumption, by assumption⟩
  have htmp' : l ≠ .tmp → rt ≠ .tmp → left ≠ .tmp ∧ right ≠ .tmp := by
    rcases hmem with ⟨h1, h2⟩ | ⟨⟨h1, h2⟩, _⟩ <;> rw [h1, h2] <;> intro h h' <;> exact ⟨by assumption, by assumption⟩
  simp only [planOK, hord] at hok
  rw [← hval]
  by_cases hsp : right = .acc
  · -- the right operand is in the accumulator: it goes to the scratch cell first
    subst hsp
    have htu : st.tmpU = false := by
      cases h : st.tmpU
      · rfl
      · simp [h] at hok
    have hlt : left ≠ .tmp := fun e => by have := htm' (Or.inl e); simp [htu] at this
    have e0 : EqOff L (setTmp L σ a) σ := setTmp_eqOff L σ a
    have hv : leftVal L (setTmp L σ a) a left = leftVal L σ a left := by
      cases left with
      | atm x => exact rval_eqOff L e0 x (hleft x rfl)
      | tmp => exact absurd rfl hlt
      | acc => rfl
    have hno : tmpWrite L (setTmp L σ a) op (opnd ET.tmp) = setTmp L σ a := by simp [tmpWrite, opnd, RA.isReg]
    simp only [mkPlan, hord, evalPlan, Plan.save, beq_self_eq_true, if_true, Bool.false_and, Bool.false_eq_true, if_false, hno, hv]
    refine ⟨e0, ?_, rfl, ?_, ?_, by simp, trivial⟩
    · simp [leftVal, rval, opnd, tmp, val, setTmp]
    · intro _ h1 h2; exact absurd rfl (hacc' h1 h2).2
    · intro h; simp [htu] at h
  · -- no spill
    have hspb : (right == ET.acc) = false := by cases right <;> simp_all
    have hrv : ∀ τ : SrcSt, rval L τ (opnd right) = leftVal L τ a right := fun τ => rval_opnd L τ a right hsp
    simp only [hspb, Bool.false_eq_true, if_false, Bool.false_and, Bool.not_false, Bool.true_and] at hok
    simp only [mkPlan, hord, evalPlan, Plan.save, hspb, Bool.false_eq_true, if_false, hrv]
    by_cases hsave : (st.acc && left != ET.acc) = true
    · -- the accumulator holds an outer operand: PHA … STA cctmp ; PLA
      simp only [hsave, if_true]
      have e1 : EqOff L (pushS σ a) σ := pushS_eqOff L σ a
      have hc1 : (pushS σ a).mem.read (L "cctmp") = σ.mem.read (L "cctmp") := by
        have := (stackAddr_not_tmp L hT σ.sp).symm
        simp [pushS, this]
      have hvl := leftVal_eq L a left e1 hc1 hleft
      have hvr := leftVal_eq L a right e1 hc1 hright
      rw [hvl, hvr]
      have hsp1 : ∀ τ : SrcSt, (tmpWrite L τ op (opnd right)).sp = τ.sp := by
        intro τ; unfold tmpWrite; split <;> rfl
      have e2 : EqOff L (tmpWrite L (pushS σ a) op (opnd right)) σ := (tmpWrite_eqOff L _ op _).trans e1
      have hpull : ∀ v, ((tmpWrite L (pushS σ a) op (opnd right)).mem.write (L "cctmp") v).read (Cpu.stackAddr σ.sp) = a := by
        intro v
        have hne := stackAddr_not_tmp L hT σ.sp
        rw [Mem.read_write_other _ _ _ _ hne]
        unfold tmpWrite
        split
        · rw [Mem.read_write_other _ _ _ _ hne]; simp [pushS]
        · simp [pushS]
      have hspp : (pushS σ a).sp + 1 = σ.sp := by
        show σ.sp - 1 + 1 = σ.sp
        bv_omega
      refine ⟨?_, ?_, ?_, ?_, ?_, by simp, trivial⟩
      · simp only [pullS, setTmp]
        exact (tmpStore_eqOff L _ _).trans e2 |> fun h => ⟨h.1, h.2.1, h.2.2⟩
      · simp [pullS, setTmp, leftVal]
      · simp only [pullS, setTmp, hsp1]; exact hspp
      · intro _ _ _
        refine ⟨?_, trivial⟩
        simp only [pullS, setTmp, hsp1, hspp]
        exact hpull _
      · intro htu h1 h2
        obtain ⟨k1, k2⟩ := htmp' h1 h2
        have : (left == ET.tmp) = false := by cases left <;> simp_all
        have : (right == ET.tmp) = false := by cases right <;> simp_all
        simp_all
    · have hsv : (st.acc && left != ET.acc) = false := by simpa using hsave
      simp only [hsv, Bool.false_eq_true, if_false]
      refine ⟨tmpWrite_eqOff L σ op _, rfl, ?_, ?_, ?_, by simp, trivial⟩
      · unfold tmpWrite; split <;> rfl
      · intro h1 h2 h3
        have := (hacc' h2 h3).1
        have : (left != ET.acc) = true := by cases left <;> simp_all
        simp_all
      · intro htu h1 h2
        obtain ⟨k1, k2⟩ := htmp' h1 h2
        have hlb : (left == ET.tmp) = false := by cases left <;> simp_all
        have hrb : (right == ET.tmp) = false := by cases right <;> simp_all
        simp only [hlb, hrb, htu, Bool.false_eq_true, if_false, Bool.and_true, Bool.not_eq_true', hsv, Bool.false_and, Bool.not_false, Bool.true_and] at hok
        have hnr : (opnd right).isReg = false := by rw [opnd_isReg]; simp_all
        refine ⟨?_, trivial, by simp [hlb, hrb, htu]⟩
        simp [tmpWrite, hnr]

/-- a shift: the value is the shifted value of the operand, every live value is kept -/
theorem evalShift_pure (L : Layout) (σ : SrcSt) (a : Byte) (st : ES) (t : ET) (left : Bool) (k : Nat)
    (hT : ¬ InStack (L "cctmp")) (hok : shiftOK st t k = true) (ht : ∀ x, t = .atm x → NoTmp L x.names)
    (htm : t = .tmp → st.tmpU = true) :
    EqOff L (evalShift L σ a st t left k).1 σ ∧
    leftVal L (evalShift L σ a st t left k).1 (evalShift L σ a st t left k).2 (if shSave st t then .tmp else .acc)
      = shVal left k (leftVal L σ a t) ∧
    (st.acc = true → t ≠ .acc → (evalShift L σ a st t left k).2 = a ∧ shSave st t = true) ∧
    (st.tmpU = true → t ≠ .tmp →
      (evalShift L σ a st t left k).1.mem.read (L "cctmp") = σ.mem.read (L "cctmp") ∧ shSave st t = false ∧ (shSt st t).tmpU = true) ∧
    (shSave st t = true → (shSt st t).tmpU = true) := by
  by_cases hs : shSave st t = true
  · have e1 : EqOff L (pushS σ a) σ := pushS_eqOff L σ a
    have hc1 : (pushS σ a).mem.read (L "cctmp") = σ.mem.read (L "cctmp") := by
      have := (stackAddr_not_tmp L hT σ.sp).symm
      simp [pushS, this]
    have hvl := leftVal_eq L a t e1 hc1 ht
    have hspp : (pushS σ a).sp + 1 = σ.sp := by
      show σ.sp - 1 + 1 = σ.sp
      bv_omega
    have hpull : ∀ v, ((pushS σ a).mem.write (L "cctmp") v).read (Cpu.stackAddr σ.sp) = a := by
      intro v
      have hne := stackAddr_not_tmp L hT σ.sp
      rw [Mem.read_write_other _ _ _ _ hne]
      simp [pushS]
    simp only [evalShift, hs, if_true, hvl]
    refine ⟨?_, ?_, ?_, ?_, fun _ => by simp [shSt, hs]⟩
    · simp only [pullS, setTmp]
      exact (tmpStore_eqOff L _ _).trans e1 |> fun h => ⟨h.1, h.2.1, h.2.2⟩
    · simp [pullS, setTmp, leftVal]
    · intro _ _
      refine ⟨?_, trivial⟩
      simp only [pullS, setTmp, hspp]
      exact hpull _
    · intro htu hnt
      exfalso
      have : shTmp st t = true := by
        have : (t == ET.tmp) = false := by cases t <;> simp_all
        simp [shTmp, this, htu]
      simp [shiftOK, hs, this] at hok
  · have hs' : shSave st t = false := by simpa using hs
    simp only [evalShift, hs', Bool.false_eq_true, if_false]
    refine ⟨EqOff.refl L σ, rfl, ?_, ?_, fun h => by simp at h⟩
    · intro hacc hne
      exfalso
      have : (t != ET.acc) = true := by cases t <;> simp_all
      simp [shSave, hacc, this] at hs'
    · intro htu hnt
      have : (t == ET.tmp) = false := by cases t <;> simp_all
      exact ⟨trivial, trivial, by simp [shSt, hs', shTmp, this, htu]⟩

/-- every expression tree the generator accepts: the run specified step by step (`evalE`: scratch cell, pushes and
    pulls) ends with the plain value of the tree where the generator says it is, and with every live value kept:
    the accumulator when it held an outer operand, the scratch cell when it was taken -/
theorem evalE_pure (L : Layout) (τ : SrcSt) : ∀ (e : GExpr) (σ : SrcSt) (a : Byte) (st : ES) (q : SrcSt × Byte) (t : ET) (st' : ES),
    EqOff L σ τ → NoTmp L (gexprNames e) → evalE L σ a st e = some (q, t, st') →
    EqOff L q.1 σ ∧ leftVal L q.1 q.2 t = pureE L τ e ∧
    (∀ x, t = .atm x → NoTmp L x.names) ∧
    (st.acc = true → q.2 = a ∧ t ≠ .acc ∧ st'.acc = true) ∧
    (st.tmpU = true → q.1.mem.read (L "cctmp") = σ.mem.read (L "cctmp") ∧ t ≠ .tmp ∧ st'.tmpU = true) ∧
    (t = .tmp → st'.tmpU = true) ∧ (t = .acc → st'.acc = true) := by
  intro e
  induction e with
  | atom x =>
    intro σ a st q t st' h hn hev
    simp only [evalE, Option.some.injEq, Prod.mk.injEq] at hev
    obtain ⟨hq, ht, hs⟩ := hev
    subst hq; subst ht; subst hs
    refine ⟨EqOff.refl L σ, rval_eqOff L h x hn, ?_, ?_, ?_, ?_, ?_⟩
    · intro y hy; cases hy; exact hn
    · intro hacc; exact ⟨rfl, (by intro e; cases e), hacc⟩
    · intro htu; exact ⟨rfl, (by intro e; cases e), htu⟩
    · intro e; cases e
    · intro e; cases e
  | bin l op rr ihl ihr =>
    intro σ a st q t st' h hn hev
    simp only [evalE] at hev
    cases hl : evalE L σ a st l with
    | none => simp [hl] at hev
    | some x =>
      obtain ⟨⟨σ1, a1⟩, tl, s1⟩ := x
      simp only [hl] at hev
      cases hr : evalE L σ1 a1 s1 rr with
      | none => simp [hr] at hev
      | some y =>
        obtain ⟨⟨σ2, a2⟩, tr, s2⟩ := y
        simp only [hr, evalArithm, Option.map_eq_some_iff] at hev
        obtain ⟨p, hp, hpe⟩ := hev
        simp only [Prod.mk.injEq] at hpe
        obtain ⟨hq, ht, hst⟩ := hpe
        obtain ⟨l1, l2, l3, l4, l5, l6, l7⟩ := ihl σ a st _ _ _ h (NoTmp.left hn) hl
        have h1 : EqOff L σ1 τ := l1.trans h
        obtain ⟨r1, r2, r3, r4, r5, r6, r7⟩ := ihr σ1 a1 s1 _ _ _ h1 (NoTmp.right hn) hr
        simp only at l1 l2 l4 l5 r1 r2 r4 r5
        -- the left operand's value is still where it was put
        have hkeep : leftVal L σ2 a2 tl = pureE L τ l := by
          rw [← l2]
          cases tl with
          | atm x => exact rval_eqOff L r1 x (l3 x rfl)
          | tmp => exact (r5 (l6 rfl)).1
          | acc => exact (r4 (l7 rfl)).1
        have htm : (tl = .tmp ∨ tr = .tmp) → s2.tmpU = true := by
          rintro (e | e)
          · exact (r5 (l6 e)).2.2
          · exact r6 e
        obtain ⟨p1, p2, p3, p4, p5, p6, p7⟩ := evalPlan_pure L σ2 a2 op s2 tl tr p hn.1 hp l3 r3 htm
        subst hq; subst ht; subst hst
        refine ⟨(p1.trans r1).trans l1, ?_, ?_, ?_, ?_, ?_, ?_⟩
        · rw [p2, hkeep, r2]; rfl
        · intro x hx; split at hx <;> cases hx
        · intro hacc
          obtain ⟨e1, e2, e3⟩ := l4 hacc
          obtain ⟨f1, f2, f3⟩ := r4 e3
          obtain ⟨g1, g2⟩ := p4 f3 e2 f2
          exact ⟨by rw [g1, f1, e1], (by rw [g2]; intro e; cases e), p7⟩
        · intro htu
          obtain ⟨e1, e2, e3⟩ := l5 htu
          obtain ⟨f1, f2, f3⟩ := r5 e3
          obtain ⟨g1, g2, g3⟩ := p5 f3 e2 f2
          exact ⟨by rw [g1, f1, e1], (by rw [g2]; intro e; cases e), g3⟩
        · intro e
          by_cases hs : p.save = true
          · exact p6 hs
          · simp [hs] at e
        · intro _; exact p7

  | sh e left k ih =>
    intro σ a st q t st' h hn hev
    simp only [evalE] at hev
    cases he : evalE L σ a st e with
    | none => simp [he] at hev
    | some x =>
      obtain ⟨⟨σ1, a1⟩, t1, s1⟩ := x
      simp only [he] at hev
      by_cases hok : shiftOK s1 t1 k = true
      · simp only [hok, if_true, Option.some.injEq, Prod.mk.injEq] at hev
        obtain ⟨hq, ht, hst⟩ := hev
        obtain ⟨l1, l2, l3, l4, l5, l6, l7⟩ := ih σ a st _ _ _ h hn he
        simp only at l1 l2 l4 l5
        obtain ⟨p1, p2, p4, p5, p6⟩ := evalShift_pure L σ1 a1 s1 t1 left k hn.1 hok l3 l6
        subst hq; subst ht; subst hst
        refine ⟨p1.trans l1, ?_, ?_, ?_, ?_, ?_, ?_⟩
        · rw [p2, l2]; rfl
        · intro x hx; split at hx <;> cases hx
        · intro hacc
          obtain ⟨e1, e2, e3⟩ := l4 hacc
          obtain ⟨g1, g2⟩ := p4 e3 e2
          exact ⟨by rw [g1, e1], (by rw [g2]; intro e; cases e), rfl⟩
        · intro htu
          obtain ⟨e1, e2, e3⟩ := l5 htu
          obtain ⟨g1, g2, g3⟩ := p5 e3 e2
          exact ⟨by rw [g1, e1], (by rw [g2]; intro e; cases e), g3⟩
        · intro e
          by_cases hs : shSave s1 t1 = true
          · exact p6 hs
          · simp [hs] at e
        · intro _; rfl
      · simp [hok] at hev

/-- one statement: the specification with scratch cell and the plain reading agree off the scratch cell -/
theorem rspec_pure (L : Layout) {σ τ : SrcSt} (h : EqOff L σ τ) (st : RStmt) (hn : NoTmp L st.names) :
    EqOff L (rspec L σ st) (pureSpec L τ st) := by
  cases st with
  | asg v a =>
    simp only [rspec, pureSpec]
    rw [rval_eqOff L h a (NoTmp.right hn)]
    exact wr_eqOff L h v _
  | bin v op a b =>
    simp only [rspec, pureSpec]
    have ha : NoTmp L a.names := NoTmp.right (NoTmp.left hn)
    have hb : NoTmp L b.names := NoTmp.right hn
    have hr := rordered_names L op a b ha hb
    have := binSpec_pure L h v op (rordered op a b).1 (rordered op a b).2 hr.1 hr.2
    rw [rordered_pure] at this
    exact this
  | opasg v op a =>
    simp only [rspec, pureSpec]
    exact binSpec_pure L h v op v.ra a (by rw [ra_names_lv]; exact NoTmp.left hn) (NoTmp.right hn)
  | inc v =>
    simp only [rspec, pureSpec]
    rw [rval_eqOff L h v.ra (by rw [ra_names_lv]; exact hn)]
    exact wr_eqOff L h v _
  | dec v =>
    simp only [rspec, pureSpec]
    rw [rval_eqOff L h v.ra (by rw [ra_names_lv]; exact hn)]
    exact wr_eqOff L h v _
  | expr v e =>
    simp only [rspec, pureSpec, exprSpec]
    by_cases hok : e.ok = true
    · simp only [hok, if_true]
      have hg : ∃ c st', genE () (fun _ => ()) {} e = some (c, .acc, st') := by
        cases e with
        | atom x => simp [GExpr.ok] at hok
        | bin l op rr =>
          simp only [GExpr.ok] at hok
          split at hok
          · rename_i c st' hg; exact ⟨c, st', hg⟩
          · cases hok
        | sh e1 l k =>
          simp only [GExpr.ok] at hok
          split at hok
          · rename_i c st' hg; exact ⟨c, st', hg⟩
          · cases hok
      obtain ⟨c, st0, hg⟩ := hg
      obtain ⟨q, hq⟩ := evalE_defined () (fun _ => ()) L e {} c .acc st0 σ 0 hg
      rw [hq]
      obtain ⟨p1, p2, _⟩ := evalE_pure L τ e σ 0 {} q .acc st0 h (NoTmp.right hn) hq
      obtain ⟨σ', a'⟩ := q
      simp only [leftVal] at p2
      simp only
      rw [p2]
      exact wr_eqOff L (p1.trans h) v _
    · have : e.ok = false := by simpa using hok
      simp only [this, Bool.false_eq_true, if_false]
      exact h
  | lin v e =>
    simp only [rspec, pureSpec]
    obtain ⟨e1, e2⟩ := linVal_pure L e h (NoTmp.right hn)
    rw [e1]
    exact wr_eqOff L e2 v _
  | chain v a op1 b1 ops =>
    simp only [rspec, pureSpec, chainSpec]
    have ha : NoTmp L a.names := NoTmp.right (NoTmp.left (NoTmp.left hn))
    have hb : NoTmp L b1.names := NoTmp.right (NoTmp.left hn)
    have ho : NoTmp L (ops.flatMap fun p => p.2.names) := NoTmp.right hn
    have hr := rordered_names L op1 a b1 ha hb
    have hall : NoTmp L (((op1, (rordered op1 a b1).2) :: ops).flatMap fun p => p.2.names) := by
      refine ⟨hn.1, ?_⟩
      intro x hx
      simp only [List.flatMap_cons, List.mem_append] at hx
      rcases hx with hx | hx
      · exact hr.2.2 x hx
      · exact ho.2 x hx
    rw [rval_eqOff L h (rordered op1 a b1).1 hr.1]
    obtain ⟨e1, e2⟩ := chainVal_pure L ((op1, (rordered op1 a b1).2) :: ops) h (rval L τ (rordered op1 a b1).1) hall
    rw [e1]
    simp only [chainPure]
    rw [rordered_apply]
    exact wr_eqOff L e2 v _
  | asgW s a =>
    simp only [rspec, pureSpec]
    exact asgWSpec_eqOff L h s a (NoTmp.right (NoTmp.left hn)) (NoTmp.right hn)
  | binW s op a b =>
    simp only [rspec, pureSpec]
    have hal : NoTmp L a.lo.names := NoTmp.right (NoTmp.left (NoTmp.left (NoTmp.left hn)))
    have hah : NoTmp L a.hi.names := NoTmp.right (NoTmp.left (NoTmp.left hn))
    have hbl : NoTmp L b.lo.names := NoTmp.right (NoTmp.left hn)
    have hbh : NoTmp L b.hi.names := NoTmp.right hn
    unfold wordered
    split
    · exact binWSpec_eqOff L h s op b a hbl hbh hal hah
    · exact binWSpec_eqOff L h s op a b hal hah hbl hbh
  | opasgW s op a =>
    simp only [rspec, pureSpec]
    have hs : NoTmp L [Atom.var s, Atom.el s (.k 1)] := NoTmp.left (NoTmp.left hn)
    exact binWSpec_eqOff L h s op (.wvar s) a ⟨hn.1, fun v hv => hs.2 v (by simp [WA.lo, Atom.names] at hv; simp [hv])⟩
      ⟨hn.1, fun v hv => hs.2 v (by simp [WA.hi, Atom.names] at hv; simp [hv])⟩ (NoTmp.right (NoTmp.left hn)) (NoTmp.right hn)

/-- running a tree from a state that differs from the plain state only in the compiler's cells: the same value as in
    the plain state, and again a state that differs from it only there -/
theorem treeRun_eqOff (L : Layout) {σ τ : SrcSt} (h : EqOff L σ τ) (e : GExpr) (hn : NoTmp L (gexprNames e)) :
    (treeRun L σ e).1 = treeVal L τ e ∧ EqOff L (treeRun L σ e).2 τ := by
  have hsh := evalE_shape L e σ τ 0 0 {}
  unfold treeVal treeRun
  cases h1 : evalE L σ 0 {} e with
  | none =>
    cases h2 : evalE L τ 0 {} e with
    | none => exact ⟨rfl, h⟩
    | some y => rw [h1, h2] at hsh; simp at hsh
  | some x =>
    cases h2 : evalE L τ 0 {} e with
    | none => rw [h1, h2] at hsh; simp at hsh
    | some y =>
      obtain ⟨q1, t1, s1⟩ := x
      obtain ⟨q2, t2, s2⟩ := y
      rw [h1, h2] at hsh
      simp only [Option.map_some, Option.some.injEq, Prod.mk.injEq] at hsh
      obtain ⟨ht, hs⟩ := hsh
      subst ht; subst hs
      cases t1 with
      | atm x => exact ⟨rfl, h⟩
      | tmp => exact ⟨rfl, h⟩
      | acc =>
        obtain ⟨e1, p1, _⟩ := evalE_pure L τ e σ 0 {} q1 .acc s1 h hn h1
        obtain ⟨_, p2, _⟩ := evalE_pure L τ e τ 0 {} q2 .acc s1 (EqOff.refl L τ) hn h2
        obtain ⟨σ1, a1⟩ := q1
        obtain ⟨σ2, a2⟩ := q2
        simp only [leftVal] at p1 p2
        simp only
        exact ⟨by rw [p1, p2], e1.trans h⟩

theorem treeVal_eqOff (L : Layout) {σ τ : SrcSt} (h : EqOff L σ τ) (e : GExpr) (hn : NoTmp L (gexprNames e)) :
    treeVal L σ e = treeVal L τ e := (treeRun_eqOff L h e hn).1

theorem val_eqOff (L : Layout) {σ τ : SrcSt} (h : EqOff L σ τ) (b : Atom) (hn : NoTmp L b.names) :
    val L σ.mem σ.x σ.y b = val L τ.mem τ.x τ.y b := rval_eqOff L h (.of b) hn

/-- the byte-wise (in)equality test is the comparison of the two 16-bit values, whenever the operands' cells are
    not the scratch cell -/
theorem wcmpRun_word (L : Layout) {σ τ : SrcSt} (h : EqOff L σ τ) (s : String) (w : WA)
    (hn : NoTmp L ([Atom.var s, Atom.el s (.k 1)] ++ w.lo.names ++ w.hi.names)) :
    (wcmpRun L σ s w).1 = (wordAt L τ.mem s != wval L τ w) ∧ EqOff L (wcmpRun L σ s w).2 τ := by
  have hs0 : ¬ Scratch L (L s) := hn.2 (.var s) (by simp)
  have hs1 : ¬ Scratch L (L s + 1) := by
    have := hn.2 (.el s (.k 1)) (by simp)
    simpa [CellOK] using this
  have hlo : NoTmp L w.lo.names := ⟨hn.1, fun a ha => hn.2 a (by simp [ha])⟩
  have hhi : NoTmp L w.hi.names := ⟨hn.1, fun a ha => hn.2 a (by simp [ha])⟩
  have e1 : EqOff L (setTmp L σ (lowRes .sub (σ.mem.read (L s)) (val L σ.mem σ.x σ.y w.lo)).1) τ := (setTmp_eqOff L _ _).trans h
  refine ⟨?_, e1⟩
  have r0 : σ.mem.read (L s) = τ.mem.read (L s) := h.2.2 _ hs0
  have r1 : (setTmp L σ (lowRes .sub (σ.mem.read (L s)) (val L σ.mem σ.x σ.y w.lo)).1).mem.read (L s + 1) = τ.mem.read (L s + 1) :=
    e1.2.2 _ hs1
  have vlo : val L σ.mem σ.x σ.y w.lo = val L τ.mem τ.x τ.y w.lo := val_eqOff L h w.lo hlo
  have vhi := val_eqOff L e1 w.hi hhi
  have hct : (setTmp L σ (lowRes .sub (σ.mem.read (L s)) (val L σ.mem σ.x σ.y w.lo)).1).mem.read (L "cctmp")
      = (lowRes .sub (σ.mem.read (L s)) (val L σ.mem σ.x σ.y w.lo)).1 := by simp [setTmp]
  have hhc : val L (setTmp L σ (lowRes .sub (σ.mem.read (L s)) (val L σ.mem σ.x σ.y w.lo)).1).mem
      (setTmp L σ (lowRes .sub (σ.mem.read (L s)) (val L σ.mem σ.x σ.y w.lo)).1).x
      (setTmp L σ (lowRes .sub (σ.mem.read (L s)) (val L σ.mem σ.x σ.y w.lo)).1).y (hiCell s) = τ.mem.read (L s + 1) := by
    simp only [hiCell, val, elAddr]
    exact r1
  simp only [wcmpRun]
  rw [hct, hhc, vhi, r0, vlo]
  -- the two bytes of the difference are zero exactly when the words are equal
  have hw : wval L τ w = word (val L τ.mem τ.x τ.y w.hi) (val L τ.mem τ.x τ.y w.lo) := by
    cases w with
    | wvar t => simp [wval, wordAt, WA.hi, WA.lo, val, elAddr]
    | wconst n =>
      simp only [wval, WA.hi, WA.lo, val]
      exact (word_const n).symm
    | wbyte a => simp [wval, WA.hi, WA.lo, val]
  have hsw : wordAt L τ.mem s = word (τ.mem.read (L s + 1)) (τ.mem.read (L s)) := rfl
  have hp := passes_word .sub (τ.mem.read (L s + 1)) (τ.mem.read (L s)) (val L τ.mem τ.x τ.y w.hi) (val L τ.mem τ.x τ.y w.lo)
  rw [hw, hsw]
  generalize highRes BOp.sub (lowRes BOp.sub (τ.mem.read (L s)) (val L τ.mem τ.x τ.y w.lo)).2 (τ.mem.read (L s + 1)) (val L τ.mem τ.x τ.y w.hi) = H at hp ⊢
  generalize (lowRes BOp.sub (τ.mem.read (L s)) (val L τ.mem τ.x τ.y w.lo)).1 = Lo at hp ⊢
  generalize word (τ.mem.read (L s + 1)) (τ.mem.read (L s)) = A at hp ⊢
  generalize word (val L τ.mem τ.x τ.y w.hi) (val L τ.mem τ.x τ.y w.lo) = B at hp ⊢
  simp only [BOp.apply16] at hp
  have hz : (word H Lo = 0) ↔ (H = 0 ∧ Lo = 0) := by
    constructor
    · intro h0
      have := congrArg BitVec.toNat h0
      rw [word_toNat] at this
      have h1 := H.isLt; have h2 := Lo.isLt
      simp at this
      exact ⟨BitVec.eq_of_toNat_eq (by simp; omega), BitVec.eq_of_toNat_eq (by simp; omega)⟩
    · rintro ⟨rfl, rfl⟩
      apply BitVec.eq_of_toNat_eq; rw [word_toNat]; simp
  have hab : (A = B) ↔ (word H Lo = 0) := by
    rw [hp]
    constructor
    · intro e; rw [e]; simp
    · intro e
      have : A - B + B = 0 + B := by rw [e]
      simpa [BitVec.sub_add_cancel] using this
  by_cases hAB : A = B
  · have hh := hz.mp (hab.mp hAB)
    have e1 : (H != 0) = false := by rw [hh.1]; rfl
    have e2 : (Lo != 0) = false := by rw [hh.2]; rfl
    have e3 : (A != B) = false := by rw [hAB]; simp
    rw [e1, e2, e3]; rfl
  · have hne : ¬ (H = 0 ∧ Lo = 0) := fun hh => hAB (hab.mpr (hz.mpr hh))
    have e3 : (A != B) = true := by simpa using hAB
    rw [e3]
    by_cases hH : H = 0
    · have hL : Lo ≠ 0 := fun e => hne ⟨hH, e⟩
      have e1 : (H != 0) = false := by rw [hH]; rfl
      have e2 : (Lo != 0) = true := by simpa using hL
      rw [e1, e2]; rfl
    · have e1 : (H != 0) = true := by simpa using hH
      rw [e1]; rfl

/-- the condition as the code evaluates it (state threaded through `&&` / `||`, scratch effects) against its plain
    reading: the same truth value, and the state it leaves differs from the plain state only in the compiler's cells -/
theorem condRun_eqOff (L : Layout) (τ : SrcSt) (c : Cond) : ∀ {σ : SrcSt}, EqOff L σ τ → NoTmp L c.names →
    evalCond L σ c = evalCondP L τ c ∧ EqOff L (condEff L σ c) τ := by
  induction c with
  | cmp op a b =>
    intro σ h hn
    refine ⟨?_, h⟩
    simp only [evalCond_cmp, evalCondP]
    rw [rval_eqOff L h a (NoTmp.left hn), rval_eqOff L h b (NoTmp.right hn)]
  | truth v =>
    intro σ h hn
    refine ⟨?_, h⟩
    simp only [evalCond_truth, evalCondP]; rw [rval_eqOff L h v.ra (by rw [ra_names_lv]; exact hn)]
  | nottruth v =>
    intro σ h hn
    refine ⟨?_, h⟩
    simp only [evalCond_nottruth, evalCondP]; rw [rval_eqOff L h v.ra (by rw [ra_names_lv]; exact hn)]
  | and a b iha ihb =>
    intro σ h hn
    obtain ⟨a1, a2⟩ := iha h (NoTmp.left hn)
    obtain ⟨b1, b2⟩ := ihb a2 (NoTmp.right hn)
    refine ⟨by simp only [evalCond_and, evalCondP]; rw [a1, b1], ?_⟩
    rw [condEff_and]
    split
    · exact b2
    · exact a2
  | or a b iha ihb =>
    intro σ h hn
    obtain ⟨a1, a2⟩ := iha h (NoTmp.left hn)
    obtain ⟨b1, b2⟩ := ihb a2 (NoTmp.right hn)
    refine ⟨by simp only [evalCond_or, evalCondP]; rw [a1, b1], ?_⟩
    rw [condEff_or]
    split
    · exact a2
    · exact b2
  | not c ih =>
    intro σ h hn
    obtain ⟨c1, c2⟩ := ih h hn
    exact ⟨by simp only [evalCond_not, evalCondP]; rw [c1], by simpa using c2⟩
  | cmpE op e b eLeft =>
    intro σ h hn
    obtain ⟨t1, t2⟩ := treeRun_eqOff L h e (NoTmp.left hn)
    refine ⟨?_, by simpa using t2⟩
    simp only [evalCond_cmpE, evalCondP]
    rw [t1, val_eqOff L t2 b (NoTmp.right hn)]
  | truthE e =>
    intro σ h hn
    obtain ⟨t1, t2⟩ := treeRun_eqOff L h e hn
    refine ⟨?_, by simpa using t2⟩
    simp only [evalCond_truthE, evalCondP]
    rw [t1]
  | wcmp ne s w =>
    intro σ h hn
    obtain ⟨w1, w2⟩ := wcmpRun_word L h s w hn
    refine ⟨?_, by simpa using w2⟩
    simp only [evalCond_wcmp, evalCondP, w1]
    cases ne
    · simp only [Bool.false_eq_true, if_false, bne, Bool.not_not]
    · simp
  | cmpR op e y eLeft =>
    intro σ h hn
    obtain ⟨t1, t2⟩ := treeRun_eqOff L h e hn
    refine ⟨?_, ?_⟩
    · simp only [evalCond_cmpR, evalCondP]
      rw [t1, t2.1, t2.2.1]
    · simp only [condEff_cmpR]
      exact (setTmp_eqOff L _ _).trans t2

/-- the two readings of an outcome: both undefined, or both defined, ending the same way and equal off the scratch cell -/
def OutEq (L : Layout) : Option Out → Option Out → Prop
  | some a, some b => a.1 = b.1 ∧ EqOff L a.2 b.2
  | none, none => True
  | _, _ => False

/-- whole programs -/
theorem sem_pure_both (L : Layout) : ∀ (f : Nat),
    (∀ (σ τ : SrcSt) (st : SStmt), EqOff L σ τ → NoTmp L st.names → OutEq L (sem L f σ st) (semPure L f τ st)) ∧
    (∀ (c : Cond) (u : RStmt) (b : SStmt) (σ τ : SrcSt), EqOff L σ τ → NoTmp L c.names → NoTmp L u.names → NoTmp L (SStmt.names b) →
      OutEq L (semFor L c u b f σ) (semPureFor L c u b f τ)) := by
  intro f
  induction f with
  | zero => exact ⟨fun σ τ st _ _ => by simp [sem, semPure, OutEq], fun c u b σ τ _ _ _ _ => by simp [semFor, semPureFor, OutEq]⟩
  | succ f ih =>
    obtain ⟨ih1, ih2⟩ := ih
    refine ⟨?_, ?_⟩
    · intro σ τ st h hn
      cases st with
      | flat s => simp only [sem, semPure]; exact ⟨rfl, rspec_pure L h s hn⟩
      | skip => simp only [sem, semPure]; exact ⟨rfl, h⟩
      | forget => simp only [sem, semPure]; exact ⟨rfl, h⟩
      | brk => simp only [sem, semPure]; exact ⟨rfl, h⟩
      | cont => simp only [sem, semPure]; exact ⟨rfl, h⟩
      | ifBrk c => simp only [sem, semPure]; exact ⟨by rw [(condRun_eqOff L τ c h hn).1], (condRun_eqOff L τ c h hn).2⟩
      | ifCont c => simp only [sem, semPure]; exact ⟨by rw [(condRun_eqOff L τ c h hn).1], (condRun_eqOff L τ c h hn).2⟩
      | seq a b =>
        simp only [sem, semPure]
        have ha := ih1 σ τ a h (NoTmp.left hn)
        cases h1 : sem L f σ a with
        | none =>
          cases h2 : semPure L f τ a with
          | none => simp [OutEq]
          | some o2 => rw [h1, h2] at ha; simp [OutEq] at ha
        | some o1 =>
          cases h2 : semPure L f τ a with
          | none => rw [h1, h2] at ha; simp [OutEq] at ha
          | some o2 =>
            rw [h1, h2] at ha
            obtain ⟨e1, m1⟩ := o1
            obtain ⟨e2, m2⟩ := o2
            simp only [OutEq] at ha
            obtain ⟨he, hm⟩ := ha
            subst he
            cases e1 with
            | norm => exact ih1 m1 m2 b hm (NoTmp.right hn)
            | brk => exact ⟨rfl, hm⟩
            | cont => exact ⟨rfl, hm⟩
      | ifThen c t =>
        simp only [sem, semPure]
        obtain ⟨hc1, hc2⟩ := condRun_eqOff L τ c h (NoTmp.left hn)
        rw [hc1]
        split
        · exact ih1 _ τ t hc2 (NoTmp.right hn)
        · exact ⟨rfl, hc2⟩
      | ifElse c t e =>
        simp only [sem, semPure]
        obtain ⟨hc1, hc2⟩ := condRun_eqOff L τ c h (NoTmp.left (NoTmp.left hn))
        rw [hc1]
        split
        · exact ih1 _ τ t hc2 (NoTmp.right (NoTmp.left hn))
        · exact ih1 _ τ e hc2 (NoTmp.right hn)
      | «while» c b =>
        simp only [sem, semPure]
        obtain ⟨hc1, hc2⟩ := condRun_eqOff L τ c h (NoTmp.left hn)
        rw [hc1]
        split
        · have hb := ih1 _ τ b hc2 (NoTmp.right hn)
          cases h1 : sem L f (condEff L σ c) b with
          | none =>
            cases h2 : semPure L f τ b with
            | none => simp [OutEq]
            | some o2 => rw [h1, h2] at hb; simp [OutEq] at hb
          | some o1 =>
            cases h2 : semPure L f τ b with
            | none => rw [h1, h2] at hb; simp [OutEq] at hb
            | some o2 =>
              rw [h1, h2] at hb
              obtain ⟨e1, m1⟩ := o1
              obtain ⟨e2, m2⟩ := o2
              simp only [OutEq] at hb
              obtain ⟨he, hm⟩ := hb
              subst he
              cases e1 with
              | brk => exact ⟨rfl, hm⟩
              | norm => exact ih1 m1 m2 (.while c b) hm hn
              | cont => exact ih1 m1 m2 (.while c b) hm hn
        · exact ⟨rfl, hc2⟩
      | doWhile b c =>
        simp only [sem, semPure]
        have hb := ih1 σ τ b h (NoTmp.left hn)
        cases h1 : sem L f σ b with
        | none =>
          cases h2 : semPure L f τ b with
          | none => simp [OutEq]
          | some o2 => rw [h1, h2] at hb; simp [OutEq] at hb
        | some o1 =>
          cases h2 : semPure L f τ b with
          | none => rw [h1, h2] at hb; simp [OutEq] at hb
          | some o2 =>
            rw [h1, h2] at hb
            obtain ⟨e1, m1⟩ := o1
            obtain ⟨e2, m2⟩ := o2
            simp only [OutEq] at hb
            obtain ⟨he, hm⟩ := hb
            subst he
            cases e1 with
            | brk => exact ⟨rfl, hm⟩
            | norm =>
              dsimp only
              obtain ⟨hc1, hc2⟩ := condRun_eqOff L m2 c hm (NoTmp.right hn)
              rw [hc1]
              split
              · exact ih1 _ m2 (.doWhile b c) hc2 hn
              · exact ⟨rfl, hc2⟩
            | cont =>
              dsimp only
              obtain ⟨hc1, hc2⟩ := condRun_eqOff L m2 c hm (NoTmp.right hn)
              rw [hc1]
              split
              · exact ih1 _ m2 (.doWhile b c) hc2 hn
              · exact ⟨rfl, hc2⟩
      | «for» i c u b =>
        simp only [sem, semPure]
        have hi : NoTmp L i.names := NoTmp.left (NoTmp.left (NoTmp.left hn))
        have hc : NoTmp L c.names := NoTmp.right (NoTmp.left (NoTmp.left hn))
        have hu : NoTmp L u.names := NoTmp.right (NoTmp.left hn)
        have hb : NoTmp L (SStmt.names b) := NoTmp.right hn
        exact ih2 c u b _ _ (rspec_pure L h i hi) hc hu hb
    · intro c u b σ τ h hc hu hb
      simp only [semFor, semPureFor]
      obtain ⟨hc1, hc2⟩ := condRun_eqOff L τ c h hc
      rw [hc1]
      split
      · have hbb := ih1 _ τ b hc2 hb
        cases h1 : sem L f (condEff L σ c) b with
        | none =>
          cases h2 : semPure L f τ b with
          | none => simp [OutEq]
          | some o2 => rw [h1, h2] at hbb; simp [OutEq] at hbb
        | some o1 =>
          cases h2 : semPure L f τ b with
          | none => rw [h1, h2] at hbb; simp [OutEq] at hbb
          | some o2 =>
            rw [h1, h2] at hbb
            obtain ⟨e1, m1⟩ := o1
            obtain ⟨e2, m2⟩ := o2
            simp only [OutEq] at hbb
            obtain ⟨he, hm⟩ := hbb
            subst he
            cases e1 with
            | brk => exact ⟨rfl, hm⟩
            | norm => exact ih2 c u b _ _ (rspec_pure L hm u hu) hc hu hb
            | cont => exact ih2 c u b _ _ (rspec_pure L hm u hu) hc hu hb
      · exact ⟨rfl, hc2⟩

theorem sem_pure (L : Layout) (f : Nat) (σ τ : SrcSt) (st : SStmt) (h : EqOff L σ τ) (hn : NoTmp L st.names) :
    OutEq L (sem L f σ st) (semPure L f τ st) := (sem_pure_both L f).1 σ τ st h hn

end CV.GenStruct
