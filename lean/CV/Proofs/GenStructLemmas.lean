/-
  Helper lemmas for the stage-2 generator proof (CV.Props.C01): label lookup in concatenated code,
  the reachability relation of the line machine, label ranges of generated code.
-/
import CV.GenStruct
set_option linter.unusedSimpArgs false
set_option linter.unusedVariables false
set_option linter.constructorNameAsVariable false
namespace CV.GenStruct
open CV CV.GenFlat CV.GenReg

/-! ### labels defined in a piece of code -/

def labels : List GLine → List Lbl
  | [] => []
  | .lab l :: r => l :: labels r
  | _ :: r => labels r

@[simp] theorem labels_nil : labels [] = [] := rfl
@[simp] theorem labels_lab (l : Lbl) (r : List GLine) : labels (.lab l :: r) = l :: labels r := rfl
@[simp] theorem labels_ins (mn : Mn) (a : Option Atom) (r : List GLine) : labels (.ins mn a :: r) = labels r := rfl
@[simp] theorem labels_br (mn : Mn) (l : Lbl) (r : List GLine) : labels (.br mn l :: r) = labels r := rfl
@[simp] theorem labels_jmp (l : Lbl) (r : List GLine) : labels (.jmp l :: r) = labels r := rfl

@[simp] theorem labels_append (p q : List GLine) : labels (p ++ q) = labels p ++ labels q := by
  induction p with
  | nil => rfl
  | cons x xs ih => cases x <;> simp [labels, ih]

theorem findLbl_none_of_not_mem {p : List GLine} {l : Lbl} (h : l ∉ labels p) : findLbl p l = none := by
  induction p with
  | nil => rfl
  | cons x xs ih =>
    cases x with
    | lab l' =>
      simp only [labels_lab, List.mem_cons, not_or] at h
      have : ¬ l' = l := fun e => h.1 e.symm
      simp [findLbl, this, ih h.2]
    | ins mn a => simp at h; simp [findLbl, ih h]
    | br mn l' => simp at h; simp [findLbl, ih h]
    | jmp l' => simp at h; simp [findLbl, ih h]

theorem findLbl_append (p q : List GLine) (l : Lbl) :
    findLbl (p ++ q) l =
      match findLbl p l with
      | some j => some j
      | none => (findLbl q l).map (· + p.length) := by
  induction p with
  | nil => simp [findLbl]
  | cons x xs ih =>
    cases x with
    | lab l' =>
      simp only [List.cons_append, findLbl]
      split
      · simp
      · rw [ih]; cases findLbl xs l <;> simp
        cases findLbl q l <;> simp; omega
    | ins mn a =>
      simp only [List.cons_append, findLbl]
      rw [ih]; cases findLbl xs l <;> simp
      cases findLbl q l <;> simp; omega
    | br mn l' =>
      simp only [List.cons_append, findLbl]
      rw [ih]; cases findLbl xs l <;> simp
      cases findLbl q l <;> simp; omega
    | jmp l' =>
      simp only [List.cons_append, findLbl]
      rw [ih]; cases findLbl xs l <;> simp
      cases findLbl q l <;> simp; omega

/-- the label placed right after `pre` is found there when `pre` does not define it -/
theorem findLbl_at (pre post : List GLine) (l : Lbl) (h : l ∉ labels pre) :
    findLbl (pre ++ .lab l :: post) l = some pre.length := by
  rw [findLbl_append, findLbl_none_of_not_mem h]
  simp [findLbl]

theorem getElem?_mid (pre blk post : List GLine) (k : Nat) (hk : k < blk.length) :
    (pre ++ blk ++ post)[pre.length + k]? = blk[k]? := by
  rw [List.append_assoc, List.getElem?_append_right (by omega)]
  simp [List.getElem?_append_left hk]

/-! ### reachability -/

inductive Steps (L : Layout) (code : List GLine) : Nat → Cpu → Nat → Cpu → Prop
  | refl (pc : Nat) (s : Cpu) : Steps L code pc s pc s
  | step {pc pc' pc'' : Nat} {s s' s'' : Cpu} :
      stepG L code pc s = some (pc', s') → Steps L code pc' s' pc'' s'' → Steps L code pc s pc'' s''

theorem Steps.trans {L : Layout} {code : List GLine} {p1 p2 p3 : Nat} {s1 s2 s3 : Cpu}
    (h1 : Steps L code p1 s1 p2 s2) (h2 : Steps L code p2 s2 p3 s3) : Steps L code p1 s1 p3 s3 := by
  induction h1 with
  | refl => exact h2
  | step hs _ ih => exact .step hs (ih h2)

theorem Steps.single {L : Layout} {code : List GLine} {pc pc' : Nat} {s s' : Cpu}
    (h : stepG L code pc s = some (pc', s')) : Steps L code pc s pc' s' :=
  .step h (.refl _ _)

/-- reaching the end of the code is a terminating run of the executable machine -/
theorem Steps.runG {L : Layout} {code : List GLine} {pc pc' : Nat} {s s' : Cpu}
    (h : Steps L code pc s pc' s') (he : pc' = code.length) :
    ∃ fuel, runG L code code.length fuel pc s = some s' := by
  induction h with
  | refl pc s => exact ⟨0, by simp [GenStruct.runG, he]⟩
  | @step pc0 pc1 pc2 s0 s1 s2 hs _ ih =>
    obtain ⟨f, hf⟩ := ih he
    refine ⟨f + 1, ?_⟩
    have hne : pc0 ≠ code.length := by
      intro e
      rw [e] at hs
      simp [stepG] at hs
    simp [GenStruct.runG, hne, hs, hf]

/-! ### one step at a known position -/

theorem step_lab (L : Layout) (pre post : List GLine) (l : Lbl) (s : Cpu) :
    stepG L (pre ++ .lab l :: post) pre.length s = some (pre.length + 1, s) := by
  simp [stepG]

theorem step_ins (L : Layout) (pre post : List GLine) (mn : Mn) (a : Option Atom) (s s' : Cpu)
    (h : s.exec mn (opdOf L a) = some s') :
    stepG L (pre ++ .ins mn a :: post) pre.length s = some (pre.length + 1, s') := by
  simp [stepG, h]

theorem step_br_taken (L : Layout) (pre post : List GLine) (mn : Mn) (l : Lbl) (s : Cpu) (t : Nat)
    (ht : Cpu.taken s.f mn = some true) (hl : findLbl (pre ++ .br mn l :: post) l = some t) :
    stepG L (pre ++ .br mn l :: post) pre.length s = some (t, s) := by
  simp [stepG, ht, hl]

theorem step_br_not (L : Layout) (pre post : List GLine) (mn : Mn) (l : Lbl) (s : Cpu)
    (ht : Cpu.taken s.f mn = some false) :
    stepG L (pre ++ .br mn l :: post) pre.length s = some (pre.length + 1, s) := by
  simp [stepG, ht]

theorem step_jmp (L : Layout) (pre post : List GLine) (l : Lbl) (s : Cpu) (t : Nat)
    (hl : findLbl (pre ++ .jmp l :: post) l = some t) :
    stepG L (pre ++ .jmp l :: post) pre.length s = some (t, s) := by
  simp [stepG, hl]

end CV.GenStruct

namespace CV.GenStruct
open CV CV.GenFlat CV.GenReg

/-! ### label ranges of generated code -/

/-- `l` was allocated between generator states `g` and `g'` -/
def NewIn (g g' : GState) (l : Lbl) : Prop := g.ctr l.kind.ctr < l.idx ∧ l.idx ≤ g'.ctr l.kind.ctr
def Mono (g g' : GState) : Prop := ∀ c, g.ctr c ≤ g'.ctr c
/-- every label defined in `code` was allocated before `g` -/
def Old (g : GState) (code : List GLine) : Prop := ∀ l ∈ labels code, l.idx ≤ g.ctr l.kind.ctr

/-- what a generation step guarantees about its labels -/
def Fresh (g : GState) (r : List GLine × GState) : Prop :=
  Mono g r.2 ∧ ∀ l ∈ labels r.1, NewIn g r.2 l

theorem Mono.refl (g : GState) : Mono g g := fun _ => Nat.le_refl _
theorem Mono.trans {a b c : GState} (h1 : Mono a b) (h2 : Mono b c) : Mono a c :=
  fun k => Nat.le_trans (h1 k) (h2 k)

@[simp] theorem ctr_flags (g : GState) (x : Option FRef) (c : Ctr) : ({ g with flags := x } : GState).ctr c = g.ctr c := by
  cases c <;> rfl

theorem NewIn.widen {a b c d : GState} {l : Lbl} (h : NewIn b c l) (h1 : Mono a b) (h2 : Mono c d) : NewIn a d l :=
  ⟨Nat.lt_of_le_of_lt (h1 _) h.1, Nat.le_trans h.2 (h2 _)⟩

theorem Old.mono {g g' : GState} {code : List GLine} (h : Old g code) (hm : Mono g g') : Old g' code :=
  fun l hl => Nat.le_trans (h l hl) (hm _)

theorem Old.append {g : GState} {p q : List GLine} (hp : Old g p) (hq : Old g q) : Old g (p ++ q) := by
  intro l hl
  simp at hl
  cases hl with
  | inl h => exact hp l h
  | inr h => exact hq l h

theorem Old.of_fresh {g : GState} {r : List GLine × GState} (h : Fresh g r) : Old r.2 r.1 :=
  fun l hl => (h.2 l hl).2

theorem Fresh.not_mem_of_old {g : GState} {r : List GLine × GState} {pre : List GLine} {l : Lbl}
    (h : Fresh g r) (hl : l ∈ labels r.1) (ho : Old g pre) : l ∉ labels pre := by
  intro hp
  have h1 := (h.2 l hl).1
  have h2 := ho l hp
  omega

theorem branchInstr_fresh (g : GState) (op : COp) (label : Lbl) : Fresh g (branchInstr g op label) := by
  cases op <;> simp [branchInstr, Fresh, Mono, NewIn, LKind.ctr, GState.ctr, Lbl.idx]
  intro c; cases c <;> simp

end CV.GenStruct

namespace CV.GenStruct
open CV CV.GenFlat CV.GenReg

theorem fresh_nolabels (g : GState) (c : List GLine) (h : labels c = []) : Fresh g (c, g) := by
  simp [Fresh, h, Mono.refl]

@[simp] theorem fresh_flags_left (g : GState) (x : Option FRef) (r : List GLine × GState) :
    Fresh { g with flags := x } r ↔ Fresh g r := by
  simp [Fresh, Mono, NewIn]

theorem fresh_flags_right (g g' : GState) (x : Option FRef) (c : List GLine) :
    Fresh g (c, { g' with flags := x }) ↔ Fresh g (c, g') := by
  simp [Fresh, Mono, NewIn]

theorem fresh_prepend (g : GState) (p : List GLine) (r : List GLine × GState) (hp : labels p = [])
    (h : Fresh g r) : Fresh g (p ++ r.1, r.2) := by
  simpa [Fresh, hp] using h


theorem labels_loadRef (ref : LV) : labels (loadRef ref) = [] := rfl

theorem zeroTest_fresh (g : GState) (v : LV) (op : COp) (label : Lbl) : Fresh g (zeroTest g v op label) := by
  unfold zeroTest
  by_cases h : g.flags = some v <;> cases op <;> simp [h, Fresh, Mono, NewIn, labels_loadRef]

theorem labels_cmpPre (left : LV) (right : Atom) : labels (cmpPre left right) = [] := by
  cases left <;> first | rfl | (cases right <;> first | rfl | (rename_i i; cases i <;> rfl))

theorem cmpTest_fresh (g : GState) (v : LV) (right : Atom) (op : COp) (label : Lbl) :
    Fresh g (cmpTest g v right op label) := by
  unfold cmpTest
  have := branchInstr_fresh { g with flags := none } op label
  simp at this
  have hp : labels (cmpPre v right) = [] := by
    cases v <;> first | rfl | (cases right <;> first | rfl | (rename_i i; cases i <;> rfl))
  exact fresh_prepend g (cmpPre v right) _ hp this

theorem genCondEx_fresh (g : GState) (l r : RA) (op : COp) (negate : Bool) (label : Lbl) :
    Fresh g (genCondEx g l r op negate label) := by
  unfold genCondEx
  split
  · exact fresh_nolabels g [] rfl
  · split
    · exact zeroTest_fresh ..
    · exact cmpTest_fresh ..
  · split
    · exact zeroTest_fresh ..
    · exact cmpTest_fresh ..
  · exact fresh_nolabels g [] rfl
  · split
    · exact zeroTest_fresh ..
    · exact cmpTest_fresh ..
  · split
    · exact zeroTest_fresh ..
    · exact cmpTest_fresh ..
  · exact fresh_nolabels g [] rfl

theorem labels_flatLines (zp : String → Bool) (s : RStmt) : labels (flatLines zp s) = [] := by
  unfold flatLines
  generalize rtemplate (none : Option Atom) (fun a => some a) zp s = t
  induction t with
  | nil => rfl
  | cons x xs ih => simpa using ih

theorem genFlat_fresh (g : GState) (s : RStmt) : Fresh g (genFlat g s) := by
  simp [genFlat, Fresh, labels_flatLines, Mono, NewIn]


theorem fresh_append {g g1 : GState} {c1 : List GLine} {r : List GLine × GState}
    (h1 : Fresh g (c1, g1)) (h2 : Fresh g1 r) : Fresh g (c1 ++ r.1, r.2) := by
  refine ⟨h1.1.trans h2.1, ?_⟩
  intro l hl
  simp at hl
  cases hl with
  | inl h => exact (h1.2 l h).widen (Mono.refl _) h2.1
  | inr h => exact (h2.2 l h).widen h1.1 (Mono.refl _)

theorem mono_cIf (g : GState) : Mono g { g with cIf := g.cIf + 1 } := by
  intro c; cases c <;> simp [GState.ctr]
theorem mono_cWhile (g : GState) (x : Option FRef) : Mono g { g with cWhile := g.cWhile + 1, flags := x } := by
  intro c; cases c <;> simp [GState.ctr]
theorem mono_cFor (g : GState) : Mono g { g with cFor := g.cFor + 1 } := by
  intro c; cases c <;> simp [GState.ctr]

/-- re-basing: labels fresh for a later state are fresh for an earlier one -/
theorem Fresh.rebase {g g0 : GState} {r : List GLine × GState} (hm : Mono g g0) (h : Fresh g0 r) : Fresh g r :=
  ⟨hm.trans h.1, fun l hl => (h.2 l hl).widen hm (Mono.refl _)⟩

theorem fresh_of {g g0 g2 : GState} {mid code : List GLine} (x : Option FRef) (hm : Mono g g0)
    (h : Fresh g0 (mid, g2)) (hsub : ∀ l ∈ labels code, l ∈ labels mid ∨ NewIn g g2 l) :
    Fresh g (code, { g2 with flags := x }) := by
  refine ⟨?_, ?_⟩
  · intro k; simpa using (hm.trans h.1) k
  · intro l hl
    cases hsub l hl with
    | inl hmid => have := (h.2 l hmid).widen hm (Mono.refl _); simpa [NewIn] using this
    | inr hn => simpa [NewIn] using hn

theorem labels_treeLines (e : GExpr) : labels (treeLines e) = [] := by
  unfold treeLines
  generalize treeOps e = t
  induction t with
  | nil => rfl
  | cons x xs ih => simpa [labels] using ih

theorem cmpETest_fresh (g : GState) (op : COp) (e : GExpr) (b : Atom) (eLeft negate : Bool) (label : Lbl) :
    Fresh g (cmpETest g op e b eLeft negate label) := by
  unfold cmpETest
  split
  · split
    · simp [Fresh, Mono, NewIn, labels_treeLines, labels]
    · simp [Fresh, Mono, NewIn, labels_treeLines, labels]
    · exact fresh_nolabels g [] rfl
  · have := branchInstr_fresh { g with flags := none } (finalOp op negate (!eLeft)) label
    simp at this
    have hp : labels (treeLines e ++ [GLine.ins .CMP (some b)]) = [] := by simp [labels_treeLines, labels]
    have := fresh_prepend g (treeLines e ++ [GLine.ins .CMP (some b)]) _ hp this
    simpa [List.append_assoc] using this

theorem cmpRTest_fresh (g : GState) (op : COp) (e : GExpr) (y eLeft negate : Bool) (label : Lbl) :
    Fresh g (cmpRTest g op e y eLeft negate label) := by
  unfold cmpRTest
  have := branchInstr_fresh { g with flags := none } (finalOp op negate eLeft) label
  simp at this
  have hp : labels (treeLines e ++ [GLine.ins .STA (some tmp), GLine.ins (if y then .CPY else .CPX) (some tmp)]) = [] := by
    simp [labels_treeLines, labels]
  have := fresh_prepend g (treeLines e ++ [GLine.ins .STA (some tmp), GLine.ins (if y then .CPY else .CPX) (some tmp)]) _ hp this
  simpa [List.append_assoc] using this

theorem labels_insLines (ops : List (Mn × Option Atom)) : labels (ops.map fun p => GLine.ins p.1 p.2) = [] := by
  induction ops with
  | nil => rfl
  | cons x xs ih => simpa [labels] using ih

theorem wcmpTest_fresh (g : GState) (ne : Bool) (s : String) (w : WA) (negate : Bool) (label : Lbl) :
    Fresh g (wcmpTest g ne s w negate label) := by
  unfold wcmpTest
  split
  · simp [Fresh, Mono, NewIn, labels_insLines, labels]
  · refine ⟨?_, ?_⟩
    · intro c; cases c <;> simp [GState.ctr]
    · intro l hl
      simp [labels_insLines, labels] at hl
      subst hl
      simp [NewIn, LKind.ctr, GState.ctr, Lbl.idx]

theorem truthETest_fresh (g : GState) (e : GExpr) (negate : Bool) (label : Lbl) :
    Fresh g (truthETest g e negate label) := by
  unfold truthETest
  by_cases h : e.topArithm = true <;> simp [Fresh, Mono, NewIn, labels_treeLines, labels, h]

theorem genCond_fresh (c : Cond) : ∀ (g : GState) (negate : Bool) (label : Lbl),
    Fresh g (genCond g c negate label) := by
  induction c with
  | cmp op a b => intro g negate label; exact genCondEx_fresh ..
  | truth v => intro g negate label; exact zeroTest_fresh ..
  | nottruth v => intro g negate label; exact zeroTest_fresh ..
  | not c ih => intro g negate label; simp only [genCond]; exact ih ..
  | cmpE op e b eLeft => intro g negate label; exact cmpETest_fresh ..
  | truthE e => intro g negate label; exact truthETest_fresh ..
  | cmpR op e y eLeft => intro g negate label; exact cmpRTest_fresh ..
  | wcmp ne s w => intro g negate label; exact wcmpTest_fresh ..
  | and a b iha ihb =>
    intro g negate label
    cases negate with
    | true =>
      simp only [genCond]
      exact fresh_append (iha g true label) (ihb _ true label)
    | false =>
      simp only [genCond]
      have h1 := iha { g with cIf := g.cIf + 1 } true ⟨.ifstart, g.cIf⟩
      have h2 := ihb (genCond { g with cIf := g.cIf + 1 } a true ⟨.ifstart, g.cIf⟩).2 false label
      have h := fresh_append h1 h2
      have hk := h.1 .cIf
      simp [GState.ctr] at hk
      apply fresh_of none (mono_cIf g) h
      intro l hl
      simp at hl ⊢
      rcases hl with hl | hl | hl
      · exact Or.inl (Or.inl hl)
      · exact Or.inl (Or.inr hl)
      · subst hl; right; simp [NewIn, LKind.ctr, GState.ctr, Lbl.idx]; omega
  | or a b iha ihb =>
    intro g negate label
    cases negate with
    | false =>
      simp only [genCond]
      exact fresh_append (iha g false label) (ihb _ false label)
    | true =>
      simp only [genCond]
      have h1 := iha { g with cIf := g.cIf + 1 } false ⟨.ifstart, g.cIf⟩
      have h2 := ihb (genCond { g with cIf := g.cIf + 1 } a false ⟨.ifstart, g.cIf⟩).2 true label
      have h := fresh_append h1 h2
      have hk := h.1 .cIf
      simp [GState.ctr] at hk
      apply fresh_of none (mono_cIf g) h
      intro l hl
      simp at hl ⊢
      rcases hl with hl | hl | hl
      · exact Or.inl (Or.inl hl)
      · exact Or.inl (Or.inr hl)
      · subst hl; right; simp [NewIn, LKind.ctr, GState.ctr, Lbl.idx]; omega

theorem gen_fresh (st : SStmt) : ∀ (lp : LoopCtx) (g : GState), Fresh g (gen lp g st) := by
  induction st with
  | flat s => intro lp g; exact genFlat_fresh g s
  | skip => intro lp g; exact fresh_nolabels g [] rfl
  | forget => intro lp g; exact fresh_nolabels _ [] rfl
  | brk => intro lp g; cases lp <;> exact fresh_nolabels g _ rfl
  | cont => intro lp g; cases lp <;> exact fresh_nolabels g _ rfl
  | ifBrk c =>
    intro lp g
    cases lp with
    | none => exact ⟨mono_cIf g, fun l hl => by simp [gen] at hl⟩
    | some p =>
      have h := genCond_fresh c { g with cIf := g.cIf + 1 } false p.2
      exact ⟨(mono_cIf g).trans h.1, fun l hl => (h.2 l hl).widen (mono_cIf g) (Mono.refl _)⟩
  | ifCont c =>
    intro lp g
    cases lp with
    | none => exact ⟨mono_cIf g, fun l hl => by simp [gen] at hl⟩
    | some p =>
      have h := genCond_fresh c { g with cIf := g.cIf + 1 } false p.1
      exact ⟨(mono_cIf g).trans h.1, fun l hl => (h.2 l hl).widen (mono_cIf g) (Mono.refl _)⟩
  | seq a b iha ihb =>
    intro lp g
    simp only [gen]
    exact fresh_append (iha lp g) (ihb lp _)
  | ifThen c t iht =>
    intro lp g
    simp only [gen]
    rcases hcc : genCond { g with cIf := g.cIf + 1 } c true ⟨.ifend, g.cIf + 1⟩ with ⟨cc, g1⟩
    rcases hct : gen lp g1 t with ⟨ct, g2⟩
    have hc : Fresh { g with cIf := g.cIf + 1 } (cc, g1) := hcc ▸ genCond_fresh ..
    have ht : Fresh g1 (ct, g2) := hct ▸ iht lp g1
    have h2 := fresh_append hc ht
    have h1 := h2.1 .cIf
    simp [GState.ctr] at h1
    apply fresh_of none (mono_cIf g) h2
    intro l hl
    simp at hl ⊢
    rcases hl with hl | hl | hl
    · exact Or.inl (Or.inl hl)
    · exact Or.inl (Or.inr hl)
    · subst hl; right; simp [NewIn, LKind.ctr, GState.ctr, Lbl.idx]; omega
  | ifElse c t e iht ihe =>
    intro lp g
    simp only [gen]
    rcases hcc : genCond { g with cIf := g.cIf + 1 } c true ⟨.else_, g.cIf + 1⟩ with ⟨cc, g1⟩
    rcases hct : gen lp g1 t with ⟨ct, g2⟩
    rcases hce : gen lp { g2 with flags := if c.singleExit then g1.flags else none } e with ⟨ce, g3⟩
    have hc : Fresh { g with cIf := g.cIf + 1 } (cc, g1) := hcc ▸ genCond_fresh ..
    have ht : Fresh g1 (ct, g2) := hct ▸ iht lp g1
    have he : Fresh g2 (ce, g3) := by
      have := ihe lp { g2 with flags := if c.singleExit then g1.flags else none }
      rw [hce, fresh_flags_left] at this
      exact this
    have h3 := fresh_append (fresh_append hc ht) he
    have h1 := h3.1 .cIf
    simp [GState.ctr] at h1
    apply fresh_of none (mono_cIf g) h3
    intro l hl
    simp at hl ⊢
    rcases hl with hl | hl | hl | hl | hl
    · exact Or.inl (Or.inl hl)
    · exact Or.inl (Or.inr (Or.inl hl))
    · subst hl; right; simp [NewIn, LKind.ctr, GState.ctr, Lbl.idx]; omega
    · exact Or.inl (Or.inr (Or.inr hl))
    · subst hl; right; simp [NewIn, LKind.ctr, GState.ctr, Lbl.idx]; omega
  | «while» c b ihb =>
    intro lp g
    simp only [gen]
    rcases hcc : genCond { g with cWhile := g.cWhile + 1, flags := none } c true ⟨.whileend, g.cWhile + 1⟩ with ⟨cc, g1⟩
    rcases hcb : gen (some (⟨.while_, g.cWhile + 1⟩, ⟨.whileend, g.cWhile + 1⟩)) g1 b with ⟨cb, g2⟩
    have hc : Fresh { g with cWhile := g.cWhile + 1, flags := none } (cc, g1) := hcc ▸ genCond_fresh ..
    have hb : Fresh g1 (cb, g2) := hcb ▸ ihb _ g1
    have h2 := fresh_append hc hb
    have h1 := h2.1 .cWhile
    simp [GState.ctr] at h1
    apply fresh_of none (mono_cWhile g none) h2
    intro l hl
    simp at hl ⊢
    rcases hl with hl | hl | hl | hl
    · subst hl; right; simp [NewIn, LKind.ctr, GState.ctr, Lbl.idx]; omega
    · exact Or.inl (Or.inl hl)
    · exact Or.inl (Or.inr hl)
    · subst hl; right; simp [NewIn, LKind.ctr, GState.ctr, Lbl.idx]; omega
  | doWhile b c ihb =>
    intro lp g
    simp only [gen]
    rcases hcb : gen (some (⟨.dowhilecondition, g.cWhile + 1⟩, ⟨.dowhileend, g.cWhile + 1⟩)) { g with cWhile := g.cWhile + 1, flags := none } b with ⟨cb, g1⟩
    rcases hcc : genCond (if contHere b then { g1 with flags := none } else g1) c false ⟨.dowhile, g.cWhile + 1⟩ with ⟨cc, g2⟩
    have hb : Fresh { g with cWhile := g.cWhile + 1, flags := none } (cb, g1) := hcb ▸ ihb _ _
    have hc : Fresh g1 (cc, g2) := by
      have : Fresh (if contHere b then { g1 with flags := none } else g1) (cc, g2) := hcc ▸ genCond_fresh ..
      by_cases hcn : contHere b = true
      · simp only [hcn, if_true] at this; rwa [fresh_flags_left] at this
      · simpa [hcn] using this
    have h2 := fresh_append hb hc
    have h1 := h2.1 .cWhile
    have h0 := hb.1 .cWhile
    simp [GState.ctr] at h1 h0
    apply fresh_of none (mono_cWhile g none) h2
    intro l hl
    by_cases hcn : contHere b = true
    · simp [hcn] at hl ⊢
      rcases hl with hl | hl | hl | hl | hl
      · subst hl; right; simp [NewIn, LKind.ctr, GState.ctr, Lbl.idx]; omega
      · exact Or.inl (Or.inl hl)
      · subst hl; right; simp [NewIn, LKind.ctr, GState.ctr, Lbl.idx]; omega
      · exact Or.inl (Or.inr hl)
      · subst hl; right; simp [NewIn, LKind.ctr, GState.ctr, Lbl.idx]; omega
    · simp [hcn] at hl ⊢
      rcases hl with hl | hl | hl | hl
      · subst hl; right; simp [NewIn, LKind.ctr, GState.ctr, Lbl.idx]; omega
      · exact Or.inl (Or.inl hl)
      · exact Or.inl (Or.inr hl)
      · subst hl; right; simp [NewIn, LKind.ctr, GState.ctr, Lbl.idx]; omega
  | «for» i c u b ihb =>
    intro lp g
    simp only [gen]
    rcases hc1 : genCond (genFlat { g with cFor := g.cFor + 1 } i).2 c true ⟨.forend, g.cFor + 1⟩ with ⟨c1, g2⟩
    rcases hcb : gen (some (⟨.forupdate, g.cFor + 1⟩, ⟨.forend, g.cFor + 1⟩)) { g2 with flags := none } b with ⟨cb, g3⟩
    rcases hc2 : genCond (genFlat { g3 with flags := none } u).2 c false ⟨.for_, g.cFor + 1⟩ with ⟨c2, g5⟩
    have hi : Fresh { g with cFor := g.cFor + 1 } (genFlat { g with cFor := g.cFor + 1 } i) := genFlat_fresh ..
    have h1 : Fresh (genFlat { g with cFor := g.cFor + 1 } i).2 (c1, g2) := hc1 ▸ genCond_fresh ..
    have hb : Fresh g2 (cb, g3) := by
      have := ihb (some (⟨.forupdate, g.cFor + 1⟩, ⟨.forend, g.cFor + 1⟩)) { g2 with flags := none }
      rw [hcb, fresh_flags_left] at this
      exact this
    have hu : Fresh g3 (genFlat { g3 with flags := none } u) := by
      have := genFlat_fresh { g3 with flags := none } u
      rwa [fresh_flags_left] at this
    have h2 : Fresh (genFlat { g3 with flags := none } u).2 (c2, g5) := hc2 ▸ genCond_fresh ..
    have h5 := fresh_append (fresh_append (fresh_append (fresh_append hi h1) hb) hu) h2
    have hk := h5.1 .cFor
    simp [GState.ctr] at hk
    apply fresh_of none (mono_cFor g) h5
    intro l hl
    simp [genFlat, labels_flatLines] at hl ⊢
    rcases hl with hl | hl | hl | hl | hl | hl
    · exact Or.inl (Or.inl hl)
    · subst hl; right; simp [NewIn, LKind.ctr, GState.ctr, Lbl.idx]; omega
    · exact Or.inl (Or.inr (Or.inl hl))
    · subst hl; right; simp [NewIn, LKind.ctr, GState.ctr, Lbl.idx]; omega
    · exact Or.inl (Or.inr (Or.inr hl))
    · subst hl; right; simp [NewIn, LKind.ctr, GState.ctr, Lbl.idx]; omega

end CV.GenStruct
