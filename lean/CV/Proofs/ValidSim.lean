/-
  The simulation argument for the translation validator: positions correspond, the facts hold, the states
  agree up to dead resources — until both programs halt in the same state.
-/
import CV.Proofs.ValidSound
set_option linter.unusedSimpArgs false
set_option linter.unusedVariables false
set_option maxHeartbeats 1000000
namespace CV.Valid
open CV

/-! ### running -/

/-- exactly `j` non-halting steps -/
def adv (extF : Nat → Cpu → Cpu) (code : VCode) : Nat → Nat → Cpu → Option (Nat × Cpu)
  | 0, k, s => some (k, s)
  | j + 1, k, s =>
    match step extF code k s with
    | .next k' s' => adv extF code j k' s'
    | _ => none

theorem run_adv (extF : Nat → Cpu → Cpu) (code : VCode) : ∀ (a n k : Nat) (s : Cpu) (k' : Nat) (s' : Cpu),
    adv extF code a k s = some (k', s') → run extF code (a + n) k s = run extF code n k' s' := by
  intro a
  induction a with
  | zero => intro n k s k' s' h; simp [adv] at h; obtain ⟨rfl, rfl⟩ := h; simp
  | succ a ih =>
    intro n k s k' s' h
    simp only [adv] at h
    have e : a + 1 + n = (a + n) + 1 := by omega
    rw [e, run]
    cases hs : step extF code k s with
    | next k1 s1 => simp [hs] at h ⊢; exact ih n k1 s1 k' s' h
    | halt r => simp [hs] at h
    | stuck => simp [hs] at h

/-- a run that is shorter than a stretch of non-halting steps has not halted -/
theorem run_short (extF : Nat → Cpu → Cpu) (code : VCode) : ∀ (a n k : Nat) (s : Cpu) (k' : Nat) (s' : Cpu),
    adv extF code a k s = some (k', s') → n ≤ a → run extF code n k s = none := by
  intro a
  induction a with
  | zero => intro n k s k' s' _ hn; have : n = 0 := by omega
            subst this; rfl
  | succ a ih =>
    intro n k s k' s' h hn
    cases n with
    | zero => rfl
    | succ n =>
      simp only [adv] at h
      rw [run]
      cases hs : step extF code k s with
      | next k1 s1 => simp [hs] at h ⊢; exact ih n k1 s1 k' s' h (by omega)
      | halt r => simp [hs] at h
      | stuck => simp [hs] at h

theorem adv_trans (extF : Nat → Cpu → Cpu) (code : VCode) : ∀ (a b k : Nat) (s : Cpu) (k1 : Nat) (s1 : Cpu) (k2 : Nat) (s2 : Cpu),
    adv extF code a k s = some (k1, s1) → adv extF code b k1 s1 = some (k2, s2) → adv extF code (a + b) k s = some (k2, s2) := by
  intro a
  induction a with
  | zero => intro b k s k1 s1 k2 s2 h1 h2; simp [adv] at h1; obtain ⟨rfl, rfl⟩ := h1; simpa using h2
  | succ a ih =>
    intro b k s k1 s1 k2 s2 h1 h2
    simp only [adv] at h1
    have e : a + 1 + b = (a + b) + 1 := by omega
    rw [e, adv]
    cases hs : step extF code k s with
    | next k' s' => simp [hs] at h1 ⊢; exact ih b k' s' k1 s1 k2 s2 h1 h2
    | halt r => simp [hs] at h1
    | stuck => simp [hs] at h1

/-! ### the facts, position by position -/

theorem factsFrom_length : ∀ (code : VCode) (K : Option Facts), (factsFrom K code).length = code.length := by
  intro code
  induction code with
  | nil => intro K; rfl
  | cons l rest ih => intro K; simp [factsFrom, ih]

/-- facts at a label line -/
def atLine (K : Option Facts) : VLine → Option Facts
  | .lab _ => some Facts.top
  | _ => K

theorem factsFrom_zero (l : VLine) (rest : VCode) (K : Option Facts) :
    (factsFrom K (l :: rest))[0]? = some (atLine K l) := by
  cases l <;> simp [factsFrom, atLine]

theorem factsFrom_succ : ∀ (code : VCode) (K : Option Facts) (k : Nat) (Kk : Option Facts) (lk lk1 : VLine),
    (factsFrom K code)[k]? = some Kk → code[k]? = some lk → code[k + 1]? = some lk1 →
    (factsFrom K code)[k + 1]? = some (atLine (post Kk lk) lk1) := by
  intro code
  induction code with
  | nil => intro K k Kk lk lk1 _ h; simp at h
  | cons l rest ih =>
    intro K k Kk lk lk1 hK hl hl1
    cases k with
    | zero =>
      simp at hl; subst hl
      rw [factsFrom_zero] at hK
      simp at hK; subst hK
      cases rest with
      | nil => simp at hl1
      | cons l2 rest2 =>
        simp at hl1; subst hl1
        simp only [factsFrom]
        rw [List.getElem?_cons_succ]
        exact factsFrom_zero _ _ _
    | succ k =>
      simp only [factsFrom] at hK ⊢
      rw [List.getElem?_cons_succ] at hK ⊢
      simp only [List.getElem?_cons_succ] at hl hl1
      exact ih _ k Kk lk lk1 hK hl hl1

/-! ### what `validate` checks, line by line -/

theorem checkFrom_line : ∀ (orig opt : VCode) (ks : List (Option Facts)) (ro rp : VCode) (k0 : Nat),
    checkFrom orig opt k0 ks ro rp = true →
    ks.length = ro.length ∧ ro.length = rp.length ∧
    ∀ i K lo lp, ks[i]? = some K → ro[i]? = some lo → rp[i]? = some lp → lineOK orig opt (k0 + i) K lo lp = true := by
  intro orig opt ks
  induction ks with
  | nil =>
    intro ro rp k0 h
    cases ro <;> cases rp <;> simp [checkFrom] at h
    exact ⟨rfl, rfl, by intro i K lo lp hK; simp at hK⟩
  | cons K ks ih =>
    intro ro rp k0 h
    cases ro with
    | nil => simp [checkFrom] at h
    | cons lo ro =>
      cases rp with
      | nil => simp [checkFrom] at h
      | cons lp rp =>
        simp only [checkFrom, Bool.and_eq_true] at h
        obtain ⟨h0, hr⟩ := h
        obtain ⟨e1, e2, hall⟩ := ih ro rp (k0 + 1) hr
        refine ⟨by simp [e1], by simp [e2], ?_⟩
        intro i K' lo' lp' hK hlo hlp
        cases i with
        | zero => simp at hK hlo hlp; subst hK; subst hlo; subst hlp; simpa using h0
        | succ i =>
          simp only [List.getElem?_cons_succ] at hK hlo hlp
          have := hall i K' lo' lp' hK hlo hlp
          have e : k0 + (i + 1) = k0 + 1 + i := by omega
          rw [e]; exact this


/-! ### labels stay where they are -/

def labAt : VLine → Option String
  | .lab l => some l
  | _ => none

theorem findLab_congr : ∀ (ro rp : VCode) (l : String), ro.map labAt = rp.map labAt → findLab ro l = findLab rp l := by
  intro ro
  induction ro with
  | nil => intro rp l h; cases rp <;> simp at h; rfl
  | cons a ro ih =>
    intro rp l h
    cases rp with
    | nil => simp at h
    | cons b rp =>
      simp only [List.map_cons, List.cons.injEq] at h
      obtain ⟨h0, hr⟩ := h
      have := ih rp l hr
      cases a <;> cases b <;> simp [labAt] at h0 <;> simp [findLab, this, h0]

theorem lineOK_labAt (orig opt : VCode) (k : Nat) (K : Option Facts) (lo lp : VLine)
    (h : lineOK orig opt k K lo lp = true) : labAt lo = labAt lp := by
  unfold lineOK at h
  split at h
  · rename_i he; have : lo = lp := by simpa using he
    rw [this]
  · cases K <;> cases lo <;> cases lp <;> simp [labAt] at h ⊢

/-- everything the proof uses about an accepted pair -/
structure Accepted (orig opt : VCode) : Prop where
  len : orig.length = opt.length
  line : ∀ k K lo lp, (factsOf orig)[k]? = some K → orig[k]? = some lo → opt[k]? = some lp →
    lineOK orig opt k K lo lp = true
  labs : ∀ l, findLab orig l = findLab opt l

theorem map_labAt_eq : ∀ (ro rp : VCode), ro.length = rp.length →
    (∀ (i : Nat) lo lp, ro[i]? = some lo → rp[i]? = some lp → labAt lo = labAt lp) → ro.map labAt = rp.map labAt := by
  intro ro
  induction ro with
  | nil => intro rp hl _; cases rp <;> simp at hl; rfl
  | cons a ro ih =>
    intro rp hl h
    cases rp with
    | nil => simp at hl
    | cons b rp =>
      simp only [List.map_cons, List.cons.injEq]
      refine ⟨h 0 a b (by simp) (by simp), ih rp (by simpa using hl) ?_⟩
      intro i lo lp h1 h2
      exact h (i + 1) lo lp (by simpa using h1) (by simpa using h2)

/-- the table-passing form computes the same as the form the proofs are about -/
theorem lineOKD_eq (orig opt : VCode) (k : Nat) (K : Option Facts) (lo lp : VLine) :
    lineOKD orig opt (deadTable opt) k K lo lp = lineOK orig opt k K lo lp := rfl

theorem checkFromD_eq (orig opt : VCode) : ∀ (ks : List (Option Facts)) (ro rp : VCode) (k : Nat),
    checkFromD orig opt (deadTable opt) k ks ro rp = checkFrom orig opt k ks ro rp := by
  intro ks
  induction ks with
  | nil => intro ro rp k; cases ro <;> cases rp <;> rfl
  | cons K ks ih =>
    intro ro rp k
    cases ro with
    | nil => cases rp <;> rfl
    | cons lo ro =>
      cases rp with
      | nil => rfl
      | cons lp rp => simp only [checkFromD, checkFrom, lineOKD_eq, ih]

theorem accepted_of_validate (orig opt : VCode) (h : validate orig opt = true) : Accepted orig opt := by
  simp only [validate, Bool.and_eq_true, beq_iff_eq, checkFromD_eq] at h
  obtain ⟨hlen, hc⟩ := h
  obtain ⟨e1, e2, hall⟩ := checkFrom_line orig opt (factsOf orig) orig opt 0 hc
  have hline : ∀ k K lo lp, (factsOf orig)[k]? = some K → orig[k]? = some lo → opt[k]? = some lp →
      lineOK orig opt k K lo lp = true := by
    intro k K lo lp h1 h2 h3
    have := hall k K lo lp h1 h2 h3
    simpa using this
  refine ⟨hlen, hline, ?_⟩
  intro l
  apply findLab_congr
  apply map_labAt_eq orig opt hlen
  intro i lo lp h1 h2
  have hk : i < (factsOf orig).length := by
    rw [factsOf, factsFrom_length]; exact (List.getElem?_eq_some_iff.mp h1).1
  obtain ⟨K, hK⟩ : ∃ K, (factsOf orig)[i]? = some K := ⟨_, List.getElem?_eq_getElem hk⟩
  exact lineOK_labAt orig opt i K lo lp (hline i K lo lp hK h1 h2)


/-! ### the invariant -/

/-- a position accepted as the second half of an exchanged `LDA ; CLC|SEC` pair: control never stops there -/
def isMid (orig opt : VCode) (k : Nat) : Prop :=
  ∃ c, (c = Mn.CLC ∨ c = Mn.SEC) ∧ orig[k]? = some (.ins c .none) ∧ opt[k]? ≠ some (.ins c .none)

/-- both programs are at line `k`; the facts of that line hold of the state of `orig`; the two states agree on
    everything `opt` may still read -/
def Inv (orig opt : VCode) (k : Nat) (s1 s2 : Cpu) : Prop :=
  orig.length ≤ k ∨
  (¬ isMid orig opt k ∧ ∃ K, (factsOf orig)[k]? = some (some K) ∧ K.holds s1 ∧ Agree (fun r => dead opt r k) s1 s2)

inductive Corr (extF : Nat → Cpu → Cpu) (orig opt : VCode) (k : Nat) (s1 s2 : Cpu) : Prop where
  | halt (r1 r2 : Cpu) : step extF orig k s1 = .halt r1 → step extF opt k s2 = .halt r2 → Agree exitDead r1 r2 →
      Corr extF orig opt k s1 s2
  | go (a b k' : Nat) (s1' s2' : Cpu) : 0 < a → 0 < b → adv extF orig a k s1 = some (k', s1') →
      adv extF opt b k s2 = some (k', s2') → Inv orig opt k' s1' s2' → Corr extF orig opt k s1 s2
  | stuck : (∀ n, run extF orig n k s1 = none) → (∀ m, run extF opt m k s2 = none) → Corr extF orig opt k s1 s2

theorem exists_facts (orig : VCode) (k : Nat) (hk : k < orig.length) : ∃ Kk, (factsOf orig)[k]? = some Kk := by
  have : k < (factsOf orig).length := by rw [factsOf, factsFrom_length]; exact hk
  exact ⟨_, List.getElem?_eq_getElem this⟩

theorem findLab_spec : ∀ (code : VCode) (l : String) (t : Nat), findLab code l = some t → code[t]? = some (.lab l) := by
  intro code
  induction code with
  | nil => intro l t h; simp [findLab] at h
  | cons a rest ih =>
    intro l t h
    cases a with
    | lab l' =>
      simp only [findLab] at h
      split at h
      · rename_i e; simp at h; subst h; subst e; simp
      · cases hr : findLab rest l with
        | none => simp [hr] at h
        | some j => simp [hr] at h; subst h; simpa using ih l j hr
    | ins mn o =>
      simp only [findLab] at h
      cases hr : findLab rest l with
      | none => simp [hr] at h
      | some j => simp [hr] at h; subst h; simpa using ih l j hr
    | br mn l' =>
      simp only [findLab] at h
      cases hr : findLab rest l with
      | none => simp [hr] at h
      | some j => simp [hr] at h; subst h; simpa using ih l j hr
    | jmp l' =>
      simp only [findLab] at h
      cases hr : findLab rest l with
      | none => simp [hr] at h
      | some j => simp [hr] at h; subst h; simpa using ih l j hr
    | dummy =>
      simp only [findLab] at h
      cases hr : findLab rest l with
      | none => simp [hr] at h
      | some j => simp [hr] at h; subst h; simpa using ih l j hr
    | rts =>
      simp only [findLab] at h
      cases hr : findLab rest l with
      | none => simp [hr] at h
      | some j => simp [hr] at h; subst h; simpa using ih l j hr
    | ext id =>
      simp only [findLab] at h
      cases hr : findLab rest l with
      | none => simp [hr] at h
      | some j => simp [hr] at h; subst h; simpa using ih l j hr

/-- at a label line nothing is assumed -/
theorem facts_label (orig : VCode) (t : Nat) (l : String) (h : orig[t]? = some (.lab l)) :
    (factsOf orig)[t]? = some (some Facts.top) := by
  have ht : t < orig.length := (List.getElem?_eq_some_iff.mp h).1
  cases t with
  | zero =>
    cases orig with
    | nil => simp at ht
    | cons a rest =>
      simp at h; subst h
      rw [factsOf, factsFrom_zero]; rfl
  | succ t =>
    obtain ⟨Kt, hKt⟩ := exists_facts orig t (by omega)
    obtain ⟨lt, hlt⟩ : ∃ lt, orig[t]? = some lt := ⟨_, List.getElem?_eq_getElem (by omega)⟩
    rw [factsOf] at hKt ⊢
    rw [factsFrom_succ orig _ t Kt lt _ hKt hlt h]; rfl

theorem stuck_run (extF : Nat → Cpu → Cpu) (code : VCode) (k : Nat) (s : Cpu) (h : step extF code k s = .stuck) :
    ∀ n, run extF code n k s = none := by
  intro n
  cases n with
  | zero => rfl
  | succ n => simp [run, h]

theorem step_oob (extF : Nat → Cpu → Cpu) (code : VCode) (k : Nat) (s : Cpu) (h : code.length ≤ k) :
    step extF code k s = .stuck := by
  have : code[k]? = none := by simp; omega
  simp [step, this]

theorem mid_prev (orig opt : VCode) (acc : Accepted orig opt) (k : Nat) (K : Facts)
    (hK : (factsOf orig)[k + 1]? = some (some K)) (hm : isMid orig opt (k + 1)) :
    ∃ c, opt[k]? = some (.ins c .none) ∧ (c = Mn.CLC ∨ c = Mn.SEC) ∧ ∃ o, orig[k]? = some (.ins .LDA o) := by
  obtain ⟨c, hc, ho, hp⟩ := hm
  have hk1 : k + 1 < orig.length := (List.getElem?_eq_some_iff.mp ho).1
  obtain ⟨lp, hlp⟩ : ∃ lp, opt[k + 1]? = some lp := ⟨_, List.getElem?_eq_getElem (by rw [← acc.len]; exact hk1)⟩
  have hl := acc.line (k + 1) (some K) _ lp hK ho hlp
  unfold lineOK at hl
  split at hl
  · rename_i he
    have : VLine.ins c .none = lp := by simpa using he
    rw [← this] at hlp; exact absurd hlp hp
  · cases lp with
    | dummy =>
      simp only [Bool.or_eq_true, Bool.and_eq_true] at hl
      rcases hl with hl | hl
      · obtain ⟨⟨_, _⟩, hrem⟩ := hl
        rcases hc with rfl | rfl <;> simp [removable, loadReg, transfer, storeReg] at hrem
      · simp only [Nat.add_sub_cancel] at hl
        obtain ⟨⟨⟨⟨_, _⟩, _⟩, hprev⟩, horig⟩ := hl
        refine ⟨c, by simpa using hprev, hc, ?_⟩
        cases ho' : orig[k]? with
        | none => simp [ho'] at horig
        | some lx =>
          cases lx with
          | ins mn o =>
            cases mn <;> simp [ho'] at horig
            exact ⟨o, rfl⟩
          | _ => simp [ho'] at horig
    | ins mn2 o2 =>
      cases mn2 with
      | LDA =>
        rcases hc with rfl | rfl
        · simp only [Bool.and_eq_true, Nat.add_sub_cancel] at hl
          obtain ⟨⟨⟨_, _⟩, hprev1⟩, hprev2⟩ := hl
          exact ⟨_, by simpa using hprev2, Or.inl rfl, o2, by simpa using hprev1⟩
        · simp only [Bool.and_eq_true, Nat.add_sub_cancel] at hl
          obtain ⟨⟨⟨_, _⟩, hprev1⟩, hprev2⟩ := hl
          exact ⟨_, by simpa using hprev2, Or.inr rfl, o2, by simpa using hprev1⟩
      | _ => rcases hc with rfl | rfl <;> simp at hl
    | _ => simp at hl

end CV.Valid
