/-
  Structural invariants of the optimiser model (CV.Opt).
-/
import CV.Opt
namespace CV

/-- lines the optimiser must never touch: inline assembly and protected instructions, except
    protected compares (removed by the compare-folding rule without a `protected` test) and the
    `LDA` / `CLC` / `SEC` the swap rule may exchange -/
def Kept : Line → Bool
  | .inline _ _ => true
  | .instr i => i.prot && !(i.mn == .CMP || i.mn == .CPX || i.mn == .CPY || i.mn == .LDA || i.mn == .CLC || i.mn == .SEC)
  | _ => false

def NonInstr : Line → Bool
  | .instr _ => false
  | _ => true

theorem filter_set_of_not (p : Line → Bool) :
    ∀ (l : List Line) (i : Nat) (y x : Line), l[i]? = some y → p y = false → p x = false →
      (l.set i x).filter p = l.filter p := by
  intro l
  induction l with
  | nil => intro i y x h; simp at h
  | cons a as ih =>
    intro i y x h hy hx
    cases i with
    | zero =>
      simp at h; subst h
      simp [List.filter, hy, hx]
    | succ i =>
      simp at h
      simp [List.filter, ih i y x h hy hx]

structure Inv (c : Code) (code : Array Line) : Prop where
  size : code.size = c.length
  kept : code.toList.filter Kept = c.filter Kept
  fixed : ∀ (i : Nat) (l : Line), c[i]? = some l → NonInstr l = true → code[i]? = some l

theorem Inv.init (c : Code) : Inv c c.toArray :=
  ⟨by simp, by simp, by intro i l h _; simpa using h⟩

/-- overwriting an instruction that is not `Kept` by a line that is not `Kept` and is either a
    dummy or an instruction -/
theorem Inv.set {c : Code} {code : Array Line} (h : Inv c code) (i : Nat) (ins : Instr) (x : Line)
    (hi : code[i]? = some (.instr ins)) (hk : Kept (.instr ins) = false) (hx : Kept x = false) :
    Inv c (code.setIfInBounds i x) := by
  refine ⟨by simp [h.size], ?_, ?_⟩
  · rw [Array.toList_setIfInBounds]
    rw [filter_set_of_not Kept code.toList i (.instr ins) x (by simpa using hi) hk hx]
    exact h.kept
  · intro k l hc hn
    have hk' := h.fixed k l hc hn
    by_cases e : i = k
    · subst e
      rw [hi] at hk'
      cases hk'
      simp [NonInstr] at hn
    · simp [Array.getElem?_setIfInBounds, e, hk']

theorem instrAt_some {code : Array Line} {i : Nat} {ins : Instr} (h : instrAt code i = some ins) :
    code[i]? = some (.instr ins) := by
  unfold instrAt at h
  split at h
  · cases h; assumption
  · cases h

end CV

namespace CV

theorem kept_of_unprot (i : Instr) (h : i.prot = false) : Kept (.instr i) = false := by
  simp [Kept, h]

theorem pair_second_unprot (i1 i2 : Instr) (a x y : Option String) (fl : OFlags)
    (h : (pairRules i1 i2 a x y fl).second = true) : i2.prot = false := by
  cases hp : i2.prot with
  | false => rfl
  | true => simp [pairRules, hp] at h

theorem pair_first_unprot (i1 i2 : Instr) (a x y : Option String) (fl : OFlags)
    (h : (pairRules i1 i2 a x y fl).first = true) : i1.prot = false := by
  cases hp : i1.prot with
  | false => rfl
  | true => simp [pairRules, hp] at h

theorem foldCmp_facts (r : Option String) (m : Mn) (i1 i2 : Instr) (h : foldCmp r m i1 i2 = true) :
    i1.mn = m ∧ i2.prot = false := by
  unfold foldCmp at h
  cases r with
  | none => simp at h
  | some r =>
    simp only at h
    split at h
    · rename_i hc
      simp only [Bool.and_eq_true, beq_iff_eq] at hc
      refine ⟨hc.1.2, ?_⟩
      cases hp : i2.prot with
      | false => rfl
      | true => split at h <;> simp [hp] at h
    · simp at h

theorem pair_both_notKept (i1 i2 : Instr) (a x y : Option String) (fl : OFlags)
    (h : (pairRules i1 i2 a x y fl).both = true) :
    Kept (.instr i1) = false ∧ Kept (.instr i2) = false := by
  simp only [pairRules, Bool.or_eq_true, Bool.and_eq_true] at h
  rcases h with ((h | h) | h) | h
  · have h1 : i1.prot = false := by simpa using h.1.2
    have h2 : i2.prot = false := by simpa using h.2
    exact ⟨kept_of_unprot _ h1, kept_of_unprot _ h2⟩
  · obtain ⟨hm, hp⟩ := foldCmp_facts _ _ _ _ h
    exact ⟨by simp [Kept, hm], kept_of_unprot _ hp⟩
  · obtain ⟨hm, hp⟩ := foldCmp_facts _ _ _ _ h
    exact ⟨by simp [Kept, hm], kept_of_unprot _ hp⟩
  · obtain ⟨hm, hp⟩ := foldCmp_facts _ _ _ _ h
    exact ⟨by simp [Kept, hm], kept_of_unprot _ hp⟩

theorem pair_swap_notKept (i1 i2 : Instr) (a x y : Option String) (fl : OFlags)
    (h : (pairRules i1 i2 a x y fl).swap = true) :
    Kept (.instr i1) = false ∧ Kept (.instr i2) = false := by
  simp only [pairRules, Bool.and_eq_true, Bool.or_eq_true, beq_iff_eq] at h
  obtain ⟨h1, h2⟩ := h
  refine ⟨by simp [Kept, h1], ?_⟩
  rcases h2 with h2 | h2 <;> simp [Kept, h2]

theorem update_rm_unprot (code : Array Line) (it : Nat) (ins : Instr) (a x y : Option String) (f : OFlags)
    (h : (updateKnowledge code it ins a x y f).2.2.2.2 = true) : ins.prot = false := by
  cases hp : ins.prot with
  | false => rfl
  | true =>
    unfold updateKnowledge at h
    split at h <;> simp [hp] at h
    all_goals (split at h <;> simp at h)
    all_goals (try (split at h <;> simp at h))

theorem settleSecond_code : ∀ (fuel : Nat) (s s' : OptSt), settleSecond s fuel = some s' →
    s'.code = s.code ∧ s'.removed = s.removed := by
  intro fuel
  induction fuel with
  | zero => intro s s' h; simp [settleSecond] at h
  | succ n ih =>
    intro s s' h
    unfold settleSecond at h
    repeat' (split at h)
    all_goals first
      | (simp at h; done)
      | (cases h; exact ⟨rfl, rfl⟩)
      | (have := ih _ _ h; simpa using this)

end CV

namespace CV

def OutInv (c : Code) : Outcome → Prop
  | .done s => Inv c s.code
  | .cont s => Inv c s.code

theorem jmpStage_inv (c : Code) (s : OptSt) (h : Inv c s.code) :
    match jmpStage s with
    | .error s' => Inv c s'.code
    | .ok s' => Inv c s'.code := by
  unfold jmpStage
  cases hi : instrAt s.code s.first with
  | none => simpa using h
  | some i1 =>
    cases hs : s.second with
    | none => simpa using h
    | some j =>
      cases hl : s.code[j]? with
      | none => simp only [hl]; exact h
      | some line =>
        cases line with
        | label l =>
          by_cases hc : (i1.mn == .JMP && i1.opd == l && !i1.prot) = true
          · have hp : i1.prot = false := by
              simp only [Bool.and_eq_true, Bool.not_eq_true'] at hc
              exact hc.2
            have hI := Inv.set h s.first i1 .dummy (instrAt_some hi) (kept_of_unprot _ hp) rfl
            simp only [hl, hc, if_true]
            cases hk : seekInstr (s.code.setIfInBounds s.first Line.dummy) s.it with
            | none => exact hI
            | some p => exact hI
          · simp only [hl, hc]
            exact h
        | instr _ => simp only [hl]; exact h
        | inline _ _ => simp only [hl]; exact h
        | comment _ => simp only [hl]; exact h
        | dummy => simp only [hl]; exact h

end CV

namespace CV

theorem knowStage_code (s : OptSt) (i2 : Instr) (d : PairDecision) :
    (knowStage s i2 d).1.code = s.code ∧ (knowStage s i2 d).1.first = s.first := by
  unfold knowStage; split <;> simp

theorem knowStage_rsecond (s : OptSt) (i2 : Instr) (d : PairDecision)
    (hd : d = pairRules i1 i2 s.acc s.xr s.yr s.flags) (h : (knowStage s i2 d).2 = true) : i2.prot = false := by
  unfold knowStage at h
  split at h
  · exact update_rm_unprot _ _ _ _ _ _ _ h
  · subst hd; exact pair_second_unprot i1 i2 s.acc s.xr s.yr s.flags h

theorem getElem?_set_ne (code : Array Line) (i j : Nat) (x : Line) (h : i ≠ j) :
    (code.setIfInBounds i x)[j]? = code[j]? := by
  simp [Array.getElem?_setIfInBounds, h]

theorem applyStage_inv (c : Code) (s : OptSt) (i1 i2 : Instr) (j : Nat) (d : PairDecision) (rs : Bool)
    (h : Inv c s.code) (h1 : s.code[s.first]? = some (.instr i1)) (h2 : s.code[j]? = some (.instr i2))
    (hne : s.first ≠ j)
    (hswap : d.swap = true → Kept (.instr i1) = false ∧ Kept (.instr i2) = false)
    (hboth : d.both = true → Kept (.instr i1) = false ∧ Kept (.instr i2) = false)
    (hrs : rs = true → i2.prot = false)
    (hfirst : d.first = true → i1.prot = false) :
    OutInv c (applyStage s i1 i2 j d rs) := by
  unfold applyStage
  by_cases hs : d.swap = true
  · rw [if_pos hs]
    obtain ⟨k1, k2⟩ := hswap hs
    have hA := Inv.set h s.first i1 (.instr i2) h1 k1 k2
    have h2' : (s.code.setIfInBounds s.first (.instr i2))[j]? = some (.instr i2) := by
      rw [getElem?_set_ne _ _ _ _ hne]; exact h2
    exact Inv.set hA j i2 (.instr i1) h2' k2 k1
  · rw [if_neg hs]
    by_cases hb : d.both = true
    · rw [if_pos hb]
      obtain ⟨k1, k2⟩ := hboth hb
      have hA := Inv.set h s.first i1 .dummy h1 k1 rfl
      have h2' : (s.code.setIfInBounds s.first .dummy)[j]? = some (.instr i2) := by
        rw [getElem?_set_ne _ _ _ _ hne]; exact h2
      have hB := Inv.set hA j i2 .dummy h2' k2 rfl
      simp only
      cases seekInstr ((s.code.setIfInBounds s.first Line.dummy).setIfInBounds j Line.dummy) s.it with
      | none => exact hB
      | some p =>
        simp only
        cases instrAt ((s.code.setIfInBounds s.first Line.dummy).setIfInBounds j Line.dummy) p.1 with
        | none => exact hB
        | some ins => exact hB
    · rw [if_neg hb]
      by_cases hr : rs = true
      · rw [if_pos hr]
        exact Inv.set h j i2 .dummy h2 (kept_of_unprot _ (hrs hr)) rfl
      · rw [if_neg hr]
        by_cases hf : d.first = true
        · rw [if_pos hf]
          exact Inv.set h s.first i1 .dummy h1 (kept_of_unprot _ (hfirst hf)) rfl
        · rw [if_neg hf]
          exact h

/-- `first` and `second` are different positions: the iterator only moves forward. We avoid the
    index invariant by checking it where it matters: if they coincide the two lines are the same
    instruction, and the step is still invariant-preserving. -/
theorem optStep_inv (c : Code) (s : OptSt) (h : Inv c s.code) : OutInv c (optStep s) := by
  unfold optStep
  have hj := jmpStage_inv c s h
  cases hjs : jmpStage s with
  | error s' => simp only [hjs] at hj ⊢; exact hj
  | ok s1 =>
    simp only [hjs] at hj ⊢
    cases hss : settleSecond s1 (s1.code.size + 2) with
    | none => exact hj
    | some s2 =>
      have hc := (settleSecond_code _ _ _ hss).1
      have h2 : Inv c s2.code := by rw [hc]; exact hj
      simp only
      cases hsec : s2.second with
      | none => exact h2
      | some j =>
        simp only
        by_cases hne : s2.first = j
        · rw [if_pos hne]; exact h2
        · rw [if_neg hne]
          cases hi1 : instrAt s2.code s2.first with
          | none => exact h2
          | some i1 =>
            cases hi2 : instrAt s2.code j with
            | none => exact h2
            | some i2 =>
              simp only
              have kc := knowStage_code s2 i2 (pairRules i1 i2 s2.acc s2.xr s2.yr s2.flags)
              apply applyStage_inv
              · rw [kc.1]; exact h2
              · rw [kc.1, kc.2]; exact instrAt_some hi1
              · rw [kc.1]; exact instrAt_some hi2
              · rw [kc.2]; exact hne
              · exact pair_swap_notKept _ _ _ _ _ _
              · exact pair_both_notKept _ _ _ _ _ _
              · exact knowStage_rsecond (i1 := i1) s2 i2 _ rfl
              · exact pair_first_unprot _ _ _ _ _ _

theorem optLoop_inv (c : Code) : ∀ (fuel : Nat) (s : OptSt), Inv c s.code → Inv c (optLoop fuel s).code := by
  intro fuel
  induction fuel with
  | zero => intro s h; exact h
  | succ n ih =>
    intro s h
    have := optStep_inv c s h
    unfold optLoop
    cases ho : optStep s with
    | done s' => simp only [ho, OutInv] at this ⊢; exact this
    | cont s' => simp only [ho, OutInv] at this ⊢; exact ih s' this

theorem optimize_inv (c : Code) : Inv c (optimize c).1.toArray := by
  simp only [optimize]
  cases seekInstr c.toArray 0 with
  | none => exact Inv.init c
  | some p =>
    simp only
    cases instrAt c.toArray p.1 with
    | none => exact Inv.init c
    | some ins =>
      simp
      exact optLoop_inv c _ _ (Inv.init c)

end CV
