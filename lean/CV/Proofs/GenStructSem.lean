/-
  Semantic lemmas for the generator proof: straight-line statements inside a context, the compare
  instructions, and the correctness of every condition template (registers included).
-/
import CV.Proofs.GenRegLemmas
import CV.Proofs.GenStructLemmas
set_option linter.unusedSimpArgs false
set_option linter.unusedVariables false
set_option linter.constructorNameAsVariable false

namespace CV.GenReg
open CV CV.GenFlat

section nat
variable {α β : Type} (f : α → β) (n : α) (r : Atom → α)

theorem loadA_nat (x : RA) : loadA (f n) (fun a => f (r a)) x = (loadA n r x).map fun p => (p.1, f p.2) := by
  cases x <;> simp [loadA]

theorem withOperand_nat (m : Mn) (y : RA) :
    withOperand (fun a => f (r a)) m y = (withOperand r m y).map fun p => (p.1, f p.2) := by
  cases y <;> simp [withOperand]

theorem opCode_nat (op : BOp) (y : RA) :
    opCode (f n) (fun a => f (r a)) op y = (opCode n r op y).map fun p => (p.1, f p.2) := by
  unfold opCode
  by_cases h : rIsIdentity op y = true
  · simp [h, List.map_map, Function.comp_def]
  · simp [h, List.map_map, Function.comp_def, List.map_flatMap, withOperand_nat]

theorem storeA_nat (v : LV) : storeA (f n) (fun a => f (r a)) v = (storeA n r v).map fun p => (p.1, f p.2) := by
  cases v <;> simp [storeA]

theorem asgCode_nat (zp : String → Bool) (v : LV) (a : RA) :
    asgCode (f n) (fun a => f (r a)) zp v a = (asgCode n r zp v a).map fun p => (p.1, f p.2) := by
  cases v with
  | var w => cases a <;> simp [asgCode]
  | x =>
    cases a with
    | of b =>
      cases b with
      | el t i => cases i <;> simp [asgCode]
      | _ => simp [asgCode]
    | _ => simp [asgCode]
  | y =>
    cases a with
    | of b =>
      cases b with
      | el t i => cases i <;> simp [asgCode]
      | _ => simp [asgCode]
    | _ => simp [asgCode]
  | el t i =>
    cases i with
    | k m => cases a <;> simp [asgCode]
    | x =>
      cases a with
      | y => by_cases hz : zp t = true <;> simp [asgCode, hz]
      | _ => simp [asgCode]
    | y => cases a <;> simp [asgCode]

theorem binCode_nat (zp : String → Bool) (v : LV) (op : BOp) (x y : RA) :
    binCode (f n) (fun a => f (r a)) zp v op x y = (binCode n r zp v op x y).map fun p => (p.1, f p.2) := by
  unfold binCode
  by_cases h : orZeroReg op x y = true
  · simp [h, asgCode_nat]
  · simp [h, loadA_nat, opCode_nat, storeA_nat]

theorem incCode_nat (b : Bool) (v : LV) :
    incCode (f n) (fun a => f (r a)) b v = (incCode n r b v).map fun p => (p.1, f p.2) := by
  cases v with
  | el t i => cases i <;> simp [incCode, loadA_nat, opCode_nat, storeA_nat]
  | _ => simp [incCode]

theorem chainCode_nat (ops : List (BOp × RA)) :
    chainCode (f n) (fun a => f (r a)) ops = (chainCode n r ops).map fun p => (p.1, f p.2) := by
  induction ops with
  | nil => simp [chainCode]
  | cons p rest ih => obtain ⟨op, y⟩ := p; simp [chainCode, opCode_nat, ih]

theorem linCode_nat (e : LExpr) :
    linCode (f n) (fun a => f (r a)) e = (linCode n r e).map fun p => (p.1, f p.2) := by
  induction e with
  | pair a op b => simp [linCode, loadA_nat, opCode_nat]
  | left e op y ih => simp [linCode, ih, opCode_nat]
  | right x op e ih =>
    by_cases h : (op == BOp.sub) = true <;> simp [linCode, ih, h, loadA_nat, opCode_nat]

theorem asgWCode_nat (v : String) (a : WA) :
    asgWCode (fun a => f (r a)) v a = (asgWCode r v a).map fun p => (p.1, f p.2) := by
  simp [asgWCode]

theorem binWCode_nat (v : String) (op : BOp) (x y : WA) :
    binWCode (f n) (fun a => f (r a)) v op x y = (binWCode n r v op x y).map fun p => (p.1, f p.2) := by
  unfold binWCode
  by_cases h : maskLow op x y = true
  · simp [h]
  · by_cases h2 : lowEmitted op y = true <;> simp [h, h2, Function.comp_def]

theorem planCode_nat (op : BOp) (p : Plan) :
    planCode (f n) (fun a => f (r a)) op p = (planCode n r op p).map fun p => (p.1, f p.2) := by
  have hl : ∀ t, loadLeft (f n) (fun a => f (r a)) t = (loadLeft n r t).map fun p => (p.1, f p.2) := by
    intro t; cases t <;> simp [loadLeft, loadA_nat]
  unfold planCode
  by_cases h1 : p.spill = true <;> by_cases h2 : p.save = true <;> simp [h1, h2, hl, opCode_nat]

theorem shiftCode_nat (st : ES) (t : ET) (left : Bool) (k : Nat) :
    shiftCode (f n) (fun a => f (r a)) st t left k = (shiftCode n r st t left k).map fun p => (p.1, f p.2) := by
  have hl : ∀ t, loadLeft (f n) (fun a => f (r a)) t = (loadLeft n r t).map fun p => (p.1, f p.2) := by
    intro t; cases t <;> simp [loadLeft, loadA_nat]
  unfold shiftCode
  by_cases h2 : shSave st t = true <;> simp [h2, hl]

theorem genE_nat : ∀ (e : GExpr) (st : ES),
    genE (f n) (fun a => f (r a)) st e = (genE n r st e).map fun x => (x.1.map (fun p => (p.1, f p.2)), x.2) := by
  intro e
  induction e with
  | atom a => intro st; simp [genE]
  | bin l op rr ihl ihr =>
    intro st
    simp only [genE, ihl st]
    cases hl : genE n r st l with
    | none => simp
    | some x =>
      obtain ⟨cl, tl, s1⟩ := x
      simp only [Option.map_some, ihr s1]
      cases hr : genE n r s1 rr with
      | none => simp
      | some y =>
        obtain ⟨cr, tr, s2⟩ := y
        simp only [Option.map_some, arithm]
        cases hp : plan s2 tl op tr with
        | none => simp
        | some p => simp [planCode_nat]

  | sh e left k ih =>
    intro st
    simp only [genE, ih st]
    cases he : genE n r st e with
    | none => simp
    | some x =>
      obtain ⟨c1, t1, s1⟩ := x
      simp only [Option.map_some]
      by_cases hok : shiftOK s1 t1 k = true
      · simp [hok, shiftCode_nat]
      · simp [hok]

theorem exprCode_nat (v : LV) (e : GExpr) :
    exprCode (f n) (fun a => f (r a)) v e = (exprCode n r v e).map fun p => (p.1, f p.2) := by
  unfold exprCode
  rw [genE_nat]
  cases h : genE n r {} e with
  | none => simp
  | some x =>
    obtain ⟨c, t, s⟩ := x
    cases t <;> simp [storeA_nat]

theorem rtemplate_nat (zp : String → Bool) (s : RStmt) :
    rtemplate (f n) (fun a => f (r a)) zp s = (rtemplate n r zp s).map fun p => (p.1, f p.2) := by
  cases s <;> simp [rtemplate, asgCode_nat, binCode_nat, incCode_nat, asgWCode_nat, binWCode_nat, chainCode_nat, loadA_nat, storeA_nat, opCode_nat, linCode_nat, exprCode_nat]

end nat

theorem rgenOps_eq (L : Layout) (zp : String → Bool) (s : RStmt) :
    rgenOps L zp s = (rtemplate (none : Option Atom) (fun a => some a) zp s).map fun p => (p.1, GenStruct.opdOf L p.2) := by
  have := rtemplate_nat (GenStruct.opdOf L) (none : Option Atom) (fun a => some a) zp s
  simpa [rgenOps, GenStruct.opdOf] using this

end CV.GenReg

namespace CV.GenStruct
open CV CV.GenFlat CV.GenReg

theorem steps_of_execSeq (L : Layout) (ops : List (Mn × Option Atom)) :
    ∀ (pre post : List GLine) (s s' : Cpu),
      execSeq s (ops.map fun p => (p.1, opdOf L p.2)) = some s' →
      Steps L (pre ++ ops.map (fun p => GLine.ins p.1 p.2) ++ post) pre.length s (pre.length + ops.length) s' := by
  induction ops with
  | nil =>
    intro pre post s s' h
    simp [execSeq] at h
    subst h
    simpa using Steps.refl _ _
  | cons x xs ih =>
    intro pre post s s' h
    obtain ⟨mn, a⟩ := x
    simp only [List.map_cons, execSeq] at h
    cases h1 : s.exec mn (opdOf L a) with
    | none => simp [h1] at h
    | some s1 =>
      simp [h1] at h
      have hstep : stepG L (pre ++ GLine.ins mn a :: (xs.map (fun p => GLine.ins p.1 p.2) ++ post)) pre.length s
          = some (pre.length + 1, s1) := step_ins L pre _ mn a s s1 h1
      have hrest := ih (pre ++ [GLine.ins mn a]) post s1 s' h
      have e1 : pre ++ List.map (fun p => GLine.ins p.1 p.2) ((mn, a) :: xs) ++ post
          = pre ++ GLine.ins mn a :: (xs.map (fun p => GLine.ins p.1 p.2) ++ post) := by simp
      have e2 : pre ++ [GLine.ins mn a] ++ xs.map (fun p => GLine.ins p.1 p.2) ++ post
          = pre ++ GLine.ins mn a :: (xs.map (fun p => GLine.ins p.1 p.2) ++ post) := by simp
      rw [e1]
      rw [e2] at hrest
      refine .step hstep ?_
      have : pre.length + ((mn, a) :: xs).length = (pre ++ [GLine.ins mn a]).length + xs.length := by
        simp; omega
      rw [this]
      simpa using hrest

/-- a straight-line statement inside any context -/
theorem flat_steps (L : Layout) (zp : String → Bool) (st : RStmt) (fl : Option FRef) (pre post : List GLine) (s : Cpu) (hinv : FlagsInv L fl s) :
    ∃ s', Steps L (pre ++ flatLines zp st ++ post) pre.length s (pre.length + (flatLines zp st).length) s' ∧
      srcOf s' = rspec L (srcOf s) st ∧ s'.sp = s.sp ∧ FlagsInv L (flagsAfter zp fl st) s' := by
  obtain ⟨s', he, hm, hsp, hz⟩ := rflat_correct L zp st fl s hinv
  rw [rgenOps_eq] at he
  have := steps_of_execSeq L (rtemplate (none : Option Atom) (fun a => some a) zp st) pre post s s' he
  refine ⟨s', ?_, hm, hsp, hz⟩
  simpa [flatLines] using this

/-! ### single steps inside a block -/

theorem stepG_mid (L : Layout) (pre blk post : List GLine) (k : Nat) (hk : k < blk.length) (s : Cpu) :
    stepG L (pre ++ blk ++ post) (pre.length + k) s =
      match blk[k]? with
      | none => none
      | some (.lab _) => some (pre.length + k + 1, s)
      | some (.ins mn a) => (s.exec mn (opdOf L a)).map fun s' => (pre.length + k + 1, s')
      | some (.br mn l) =>
        (match Cpu.taken s.f mn with
         | some true => (findLbl (pre ++ blk ++ post) l).map fun t => (t, s)
         | some false => some (pre.length + k + 1, s)
         | none => none)
      | some (.jmp l) => (findLbl (pre ++ blk ++ post) l).map fun t => (t, s) := by
  unfold stepG
  rw [getElem?_mid pre blk post k hk]
  cases blk[k]? with
  | none => rfl
  | some x =>
    cases x with
    | lab l => rfl
    | ins mn a => rfl
    | jmp l => rfl
    | br mn l =>
      dsimp only
      cases Cpu.taken s.f mn with
      | none => rfl
      | some b => cases b <;> rfl

/-- a conditional branch at position `k` of a block -/
theorem br_step (L : Layout) (pre blk post : List GLine) (k : Nat) (mn : Mn) (l : Lbl) (s : Cpu) (b : Bool) (t : Nat)
    (hk : blk[k]? = some (.br mn l)) (ht : Cpu.taken s.f mn = some b)
    (hl : findLbl (pre ++ blk ++ post) l = some t) :
    Steps L (pre ++ blk ++ post) (pre.length + k) s (if b then t else pre.length + k + 1) s := by
  have hlt : k < blk.length := by
    cases h : blk[k]? with
    | none => simp [h] at hk
    | some x => exact (List.getElem?_eq_some_iff.mp h).1
  apply Steps.single
  rw [stepG_mid L pre blk post k hlt, hk]
  cases b <;> simp [ht] <;> simpa using hl

theorem br_step_not (L : Layout) (pre blk post : List GLine) (k : Nat) (mn : Mn) (l : Lbl) (s : Cpu)
    (hk : blk[k]? = some (.br mn l)) (ht : Cpu.taken s.f mn = some false) :
    Steps L (pre ++ blk ++ post) (pre.length + k) s (pre.length + k + 1) s := by
  have hlt : k < blk.length := by
    cases h : blk[k]? with
    | none => simp [h] at hk
    | some x => exact (List.getElem?_eq_some_iff.mp h).1
  apply Steps.single
  rw [stepG_mid L pre blk post k hlt, hk]
  simp [ht]

theorem ins_step (L : Layout) (pre blk post : List GLine) (k : Nat) (mn : Mn) (a : Option Atom) (s s' : Cpu)
    (hk : blk[k]? = some (.ins mn a)) (he : s.exec mn (opdOf L a) = some s') :
    Steps L (pre ++ blk ++ post) (pre.length + k) s (pre.length + k + 1) s' := by
  have hlt : k < blk.length := by
    cases h : blk[k]? with
    | none => simp [h] at hk
    | some x => exact (List.getElem?_eq_some_iff.mp h).1
  apply Steps.single
  rw [stepG_mid L pre blk post k hlt, hk]
  simp [he]

theorem lab_step (L : Layout) (pre blk post : List GLine) (k : Nat) (l : Lbl) (s : Cpu)
    (hk : blk[k]? = some (.lab l)) :
    Steps L (pre ++ blk ++ post) (pre.length + k) s (pre.length + k + 1) s := by
  have hlt : k < blk.length := by
    cases h : blk[k]? with
    | none => simp [h] at hk
    | some x => exact (List.getElem?_eq_some_iff.mp h).1
  apply Steps.single
  rw [stepG_mid L pre blk post k hlt, hk]

theorem jmp_step (L : Layout) (pre blk post : List GLine) (k : Nat) (l : Lbl) (s : Cpu) (t : Nat)
    (hk : blk[k]? = some (.jmp l)) (hl : findLbl (pre ++ blk ++ post) l = some t) :
    Steps L (pre ++ blk ++ post) (pre.length + k) s t s := by
  have hlt : k < blk.length := by
    cases h : blk[k]? with
    | none => simp [h] at hk
    | some x => exact (List.getElem?_eq_some_iff.mp h).1
  apply Steps.single
  rw [stepG_mid L pre blk post k hlt, hk]
  simp
  simpa using hl

/-! ### the compare instruction -/

theorem sub_beq_zero (a m : Byte) : (a - m == 0) = (a == m) := by
  by_cases h : a = m
  · subst h; simp
  · have hne : a.toNat ≠ m.toNat := fun e => h (BitVec.eq_of_toNat_eq e)
    have h2 : a - m ≠ 0 := by
      intro e
      have := congrArg BitVec.toNat e
      simp [BitVec.toNat_sub] at this
      have ha := a.isLt
      have hm := m.isLt
      omega
    have e1 : (a - m == 0) = false := by simpa using h2
    have e2 : (a == m) = false := by simpa using h
    rw [e1, e2]


/-! ### condition templates -/

/-- a piece of condition code generated at state `g`: started anywhere, it ends at `label` when
    `jumpIf` holds of the source-visible state and right behind itself otherwise; memory, X, Y, SP are
    unchanged and the generator's belief about the flags is true afterwards (on both exits) -/
def CondSpec (L : Layout) (g : GState) (r : List GLine × GState) (label : Lbl) (jumpIf : SrcSt → Bool)
    (eff : SrcSt → SrcSt := fun m => m) : Prop :=
  ∀ (pre post : List GLine) (s : Cpu) (t : Nat), Old g pre → FlagsInv L g.flags s →
    findLbl (pre ++ r.1 ++ post) label = some t →
    ∃ s', Steps L (pre ++ r.1 ++ post) pre.length s (if jumpIf (srcOf s) then t else pre.length + r.1.length) s' ∧
      srcOf s' = eff (srcOf s) ∧ s'.sp = s.sp ∧ FlagsInv L r.2.flags s'

theorem flagsInv_some (L : Layout) (ref : LV) (s : Cpu) :
    FlagsInv L (some ref) s ↔ s.f.z = (rval L (srcOf s) ref.ra == 0) := by
  cases ref <;> simp [FlagsInv, rval, LV.ra, val, srcOf]

/-- `LDA v` / `CPX #0` / `CPY #0`: Z describes the operand, nothing the source sees changes -/
theorem loadRef_exec (L : Layout) (ref : LV) (s : Cpu) :
    ∃ s1, s.exec (loadRefMn ref) (opdOf L (some (loadRefOp ref))) = some s1 ∧ srcOf s1 = srcOf s ∧ s1.sp = s.sp ∧
      s1.f.z = (rval L (srcOf s) ref.ra == 0) := by
  cases ref with
  | var v => simp [loadRefMn, loadRefOp, Cpu.exec, opdOf, opd, Cpu.rd, Cpu.ea, rval, LV.ra, val, srcOf]
  | el t i => cases i <;> simp [loadRefMn, loadRefOp, Cpu.exec, opdOf, opd, Cpu.rd, Cpu.ea, rval, LV.ra, val, srcOf, elAddr]
  | x =>
    have := sub_beq_zero s.x 0
    simp [loadRefMn, loadRefOp, Cpu.exec, opdOf, opd, Cpu.rd, Cpu.cmp, rval, LV.ra, srcOf] at this ⊢
  | y =>
    have := sub_beq_zero s.y 0
    simp [loadRefMn, loadRefOp, Cpu.exec, opdOf, opd, Cpu.rd, Cpu.cmp, rval, LV.ra, srcOf] at this ⊢

theorem zeroTest_correct (L : Layout) (g : GState) (ref : LV) (op : COp) (label : Lbl)
    (hop : op = .eq ∨ op = .ne) :
    CondSpec L g (zeroTest g ref op label) label (fun σ => op.eval (rval L σ ref.ra) 0) := by
  intro pre post s t hold hinv hl
  by_cases hf : g.flags = some ref
  · -- the flags already describe the operand: a single branch
    have hz : s.f.z = (rval L (srcOf s) ref.ra == 0) := by
      rw [hf] at hinv; exact (flagsInv_some L ref s).mp hinv
    rcases hop with rfl | rfl
    · simp only [zeroTest, hf, beq_self_eq_true, if_true, List.nil_append] at hl ⊢
      have := br_step L pre [.br .BEQ label] post 0 .BEQ label s (rval L (srcOf s) ref.ra == 0) t rfl (by simp [Cpu.taken, hz]) hl
      refine ⟨s, ?_, rfl, rfl, (flagsInv_some L ref s).mpr hz⟩
      simpa [COp.eval] using this
    · simp only [zeroTest, hf, beq_self_eq_true, if_true, List.nil_append] at hl ⊢
      have := br_step L pre [.br .BNE label] post 0 .BNE label s (!(rval L (srcOf s) ref.ra == 0)) t rfl (by simp [Cpu.taken, hz]) hl
      refine ⟨s, ?_, rfl, rfl, (flagsInv_some L ref s).mpr hz⟩
      simpa [COp.eval, bne] using this
  · -- bring the operand into the flags first
    have hf' : (g.flags == some ref) = false := by simpa using hf
    obtain ⟨s1, he, hsrc, hsp, hz1⟩ := loadRef_exec L ref s
    have hz1' : s1.f.z = (rval L (srcOf s1) ref.ra == 0) := by rw [hsrc]; exact hz1
    rcases hop with rfl | rfl
    · simp only [zeroTest, hf', Bool.false_eq_true, if_false, loadRef, List.singleton_append] at hl ⊢
      have h1 := ins_step L pre [.ins (loadRefMn ref) (some (loadRefOp ref)), .br .BEQ label] post 0 _ _ s s1 rfl he
      have h2 := br_step L pre [.ins (loadRefMn ref) (some (loadRefOp ref)), .br .BEQ label] post 1 .BEQ label s1
        (rval L (srcOf s) ref.ra == 0) t rfl (by simp [Cpu.taken, hz1]) hl
      refine ⟨s1, ?_, hsrc, hsp, (flagsInv_some L ref s1).mpr hz1'⟩
      have := h1.trans h2
      simpa [COp.eval] using this
    · simp only [zeroTest, hf', Bool.false_eq_true, if_false, loadRef, List.singleton_append] at hl ⊢
      have h1 := ins_step L pre [.ins (loadRefMn ref) (some (loadRefOp ref)), .br .BNE label] post 0 _ _ s s1 rfl he
      have h2 := br_step L pre [.ins (loadRefMn ref) (some (loadRefOp ref)), .br .BNE label] post 1 .BNE label s1
        (!(rval L (srcOf s) ref.ra == 0)) t rfl (by simp [Cpu.taken, hz1]) hl
      refine ⟨s1, ?_, hsrc, hsp, (flagsInv_some L ref s1).mpr hz1'⟩
      have := h1.trans h2
      simpa [COp.eval, bne] using this


/-- the branch instructions after `CMP`: with Z = (a = m) and C = (m ≤ a) they jump iff `a op m` -/
theorem branchInstr_steps (L : Layout) (g : GState) (op : COp) (label : Lbl) (pre post : List GLine) (s : Cpu) (t : Nat)
    (a m : Byte) (hz : s.f.z = (a == m)) (hc : s.f.c = decide (m.toNat ≤ a.toNat)) (hold : Old g pre)
    (hl : findLbl (pre ++ (branchInstr g op label).1 ++ post) label = some t) :
    Steps L (pre ++ (branchInstr g op label).1 ++ post) pre.length s
      (if op.eval a m then t else pre.length + (branchInstr g op label).1.length) s := by
  have hne : (a == m) = false → a.toNat ≠ m.toNat := by
    intro h e; have := BitVec.eq_of_toNat_eq e; simp [this] at h
  have heq : (a == m) = true → a.toNat = m.toNat := by
    intro h; have : a = m := by simpa using h
    rw [this]
  cases op with
  | ne =>
    have := br_step L pre [.br .BNE label] post 0 .BNE label s (!(a == m)) t rfl (by simp [Cpu.taken, hz]) hl
    simpa [branchInstr, COp.eval, bne] using this
  | eq =>
    have := br_step L pre [.br .BEQ label] post 0 .BEQ label s (a == m) t rfl (by simp [Cpu.taken, hz]) hl
    simpa [branchInstr, COp.eval] using this
  | lt =>
    have := br_step L pre [.br .BCC label] post 0 .BCC label s (!decide (m.toNat ≤ a.toNat)) t rfl (by simp [Cpu.taken, hc]) hl
    have e : (!decide (m.toNat ≤ a.toNat)) = decide (a.toNat < m.toNat) := by
      by_cases h : m.toNat ≤ a.toNat <;> simp [h] <;> omega
    rw [e] at this
    simpa [branchInstr, COp.eval] using this
  | ge =>
    have := br_step L pre [.br .BCS label] post 0 .BCS label s (decide (m.toNat ≤ a.toNat)) t rfl (by simp [Cpu.taken, hc]) hl
    simpa [branchInstr, COp.eval] using this
  | le =>
    simp only [branchInstr] at hl ⊢
    by_cases h1 : m.toNat ≤ a.toNat
    · -- BCC not taken
      have s1 := br_step_not L pre [.br .BCC label, .br .BEQ label] post 0 .BCC label s rfl (by simp [Cpu.taken, hc, h1])
      by_cases h2 : (a == m) = true
      · have s2 := br_step L pre [.br .BCC label, .br .BEQ label] post 1 .BEQ label s true t rfl (by simp [Cpu.taken, hz, h2]) hl
        have := heq h2
        have hle : a.toNat ≤ m.toNat := by omega
        have := s1.trans s2
        simpa [COp.eval, hle] using this
      · have h2' : (a == m) = false := by simpa using h2
        have s2 := br_step_not L pre [.br .BCC label, .br .BEQ label] post 1 .BEQ label s rfl (by simp [Cpu.taken, hz, h2'])
        have := hne h2'
        have hle : ¬ a.toNat ≤ m.toNat := by omega
        have := s1.trans s2
        simpa [COp.eval, hle] using this
    · have s1 := br_step L pre [.br .BCC label, .br .BEQ label] post 0 .BCC label s true t rfl (by simp [Cpu.taken, hc, h1]) hl
      have hle : a.toNat ≤ m.toNat := by omega
      simpa [COp.eval, hle] using s1
  | gt =>
    simp only [branchInstr] at hl ⊢
    have hhere : findLbl (pre ++ [GLine.br .BEQ ⟨.ifhere, g.cIf + 1⟩, .br .BCS label, .lab ⟨.ifhere, g.cIf + 1⟩] ++ post)
        ⟨.ifhere, g.cIf + 1⟩ = some (pre.length + 2) := by
      have hnot : (⟨.ifhere, g.cIf + 1⟩ : Lbl) ∉ labels pre := by
        intro hin
        have := hold _ hin
        simp [LKind.ctr, GState.ctr, Lbl.idx] at this
        omega
      have e : pre ++ [GLine.br .BEQ ⟨.ifhere, g.cIf + 1⟩, .br .BCS label, .lab ⟨.ifhere, g.cIf + 1⟩] ++ post
          = (pre ++ [GLine.br .BEQ ⟨.ifhere, g.cIf + 1⟩, .br .BCS label]) ++ .lab ⟨.ifhere, g.cIf + 1⟩ :: post := by simp
      rw [e, findLbl_at _ _ _ (by simpa using hnot)]
      simp
    by_cases h2 : (a == m) = true
    · have s1 := br_step L pre [GLine.br .BEQ ⟨.ifhere, g.cIf + 1⟩, .br .BCS label, .lab ⟨.ifhere, g.cIf + 1⟩] post 0 .BEQ _ s true
        (pre.length + 2) rfl (by simp [Cpu.taken, hz, h2]) hhere
      have s2 := lab_step L pre [GLine.br .BEQ ⟨.ifhere, g.cIf + 1⟩, .br .BCS label, .lab ⟨.ifhere, g.cIf + 1⟩] post 2 _ s rfl
      have := heq h2
      have hgt : ¬ m.toNat < a.toNat := by omega
      have := s1.trans s2
      simpa [COp.eval, hgt] using this
    · have h2' : (a == m) = false := by simpa using h2
      have s1 := br_step_not L pre [GLine.br .BEQ ⟨.ifhere, g.cIf + 1⟩, .br .BCS label, .lab ⟨.ifhere, g.cIf + 1⟩] post 0 .BEQ _ s
        rfl (by simp [Cpu.taken, hz, h2'])
      have hn := hne h2'
      by_cases h3 : m.toNat ≤ a.toNat
      · have s2 := br_step L pre [GLine.br .BEQ ⟨.ifhere, g.cIf + 1⟩, .br .BCS label, .lab ⟨.ifhere, g.cIf + 1⟩] post 1 .BCS label s
          true t rfl (by simp [Cpu.taken, hc, h3]) hl
        have hgt : m.toNat < a.toNat := by omega
        have := s1.trans s2
        simpa [COp.eval, hgt] using this
      · have s2 := br_step_not L pre [GLine.br .BEQ ⟨.ifhere, g.cIf + 1⟩, .br .BCS label, .lab ⟨.ifhere, g.cIf + 1⟩] post 1 .BCS label s
          rfl (by simp [Cpu.taken, hc, h3])
        have hgt : ¬ m.toNat < a.toNat := by omega
        have s3 := lab_step L pre [GLine.br .BEQ ⟨.ifhere, g.cIf + 1⟩, .br .BCS label, .lab ⟨.ifhere, g.cIf + 1⟩] post 2 _ s rfl
        have := (s1.trans s2).trans s3
        simpa [COp.eval, hgt] using this


theorem branchInstr_flags_none (g : GState) (op : COp) (label : Lbl) :
    (branchInstr { g with flags := none } op label).2.flags = none := by
  cases op <;> rfl

theorem old_flags (g : GState) (x : Option FRef) (pre : List GLine) : Old { g with flags := x } pre ↔ Old g pre := by
  simp [Old]

theorem Steps.cast {L : Layout} {code : List GLine} {p1 p1' p2 p2' : Nat} {s s' : Cpu}
    (h : Steps L code p1 s p2 s') (e1 : p1 = p1') (e2 : p2 = p2') : Steps L code p1' s p2' s' := by
  subst e1 e2; exact h

/-- positions are sums of lengths -/
macro "len_arith" : tactic =>
  `(tactic| first | omega | (simp only [List.length_append, List.length_cons, List.length_nil, List.length_singleton, List.length_map] <;> omega))

/-- the instructions of `cmpPre` as (mnemonic, operand) pairs -/
def cmpOps : LV → Atom → List (Mn × Option Atom)
  | .var v, right => [(.LDA, some (.var v)), (.CMP, some right)]
  | .el t i, right => [(.LDA, some (.el t i)), (.CMP, some right)]
  | .x, .el t .x => [(.TXA, none), (.CMP, some (.el t .x))]
  | .x, .el t .y => [(.TXA, none), (.CMP, some (.el t .y))]
  | .x, right => [(.CPX, some right)]
  | .y, .el t .x => [(.TYA, none), (.CMP, some (.el t .x))]
  | .y, .el t .y => [(.TYA, none), (.CMP, some (.el t .y))]
  | .y, right => [(.CPY, some right)]

theorem cmpPre_eq (left : LV) (right : Atom) : cmpPre left right = (cmpOps left right).map fun p => GLine.ins p.1 p.2 := by
  cases left <;> first | rfl | (cases right <;> first | rfl | (rename_i i; cases i <;> rfl))

/-- `LDA a ; CMP right` -/
theorem lda_cmp (L : Layout) (s : Cpu) (a right : Atom) :
    ∃ s2, execSeq s [(.LDA, opd L a), (.CMP, opd L right)] = some s2 ∧
      s2.f.z = (val L s.mem s.x s.y a == val L s.mem s.x s.y right) ∧
      s2.f.c = decide ((val L s.mem s.x s.y right).toNat ≤ (val L s.mem s.x s.y a).toNat) ∧
      srcOf s2 = srcOf s ∧ s2.sp = s.sp := by
  have h1 := rd_opd L s a
  have h2 := rd_opd L { s with a := val L s.mem s.x s.y a, f := Cpu.setNZ s.f (val L s.mem s.x s.y a) } right
  have := sub_beq_zero (val L s.mem s.x s.y a) (val L s.mem s.x s.y right)
  simp only [execSeq, Cpu.exec, h1, Option.map_some, Option.bind_some, h2]
  simp [Cpu.cmp, srcOf]
  exact this

/-- `TXA ; CMP right`, `TYA ; CMP right` -/
theorem txa_cmp (L : Layout) (s : Cpu) (right : Atom) :
    ∃ s2, execSeq s [(.TXA, Opd.none), (.CMP, opd L right)] = some s2 ∧
      s2.f.z = (s.x == val L s.mem s.x s.y right) ∧
      s2.f.c = decide ((val L s.mem s.x s.y right).toNat ≤ s.x.toNat) ∧
      srcOf s2 = srcOf s ∧ s2.sp = s.sp := by
  have h2 := rd_opd L { s with a := s.x, f := Cpu.setNZ s.f s.x } right
  have := sub_beq_zero s.x (val L s.mem s.x s.y right)
  simp only [execSeq, Cpu.exec, Option.bind_some, h2, Option.map_some]
  simp [Cpu.cmp, srcOf]
  exact this

theorem tya_cmp (L : Layout) (s : Cpu) (right : Atom) :
    ∃ s2, execSeq s [(.TYA, Opd.none), (.CMP, opd L right)] = some s2 ∧
      s2.f.z = (s.y == val L s.mem s.x s.y right) ∧
      s2.f.c = decide ((val L s.mem s.x s.y right).toNat ≤ s.y.toNat) ∧
      srcOf s2 = srcOf s ∧ s2.sp = s.sp := by
  have h2 := rd_opd L { s with a := s.y, f := Cpu.setNZ s.f s.y } right
  have := sub_beq_zero s.y (val L s.mem s.x s.y right)
  simp only [execSeq, Cpu.exec, Option.bind_some, h2, Option.map_some]
  simp [Cpu.cmp, srcOf]
  exact this

theorem cpx_exec (L : Layout) (s : Cpu) (right : Atom) :
    ∃ s2, execSeq s [(.CPX, opd L right)] = some s2 ∧
      s2.f.z = (s.x == val L s.mem s.x s.y right) ∧
      s2.f.c = decide ((val L s.mem s.x s.y right).toNat ≤ s.x.toNat) ∧
      srcOf s2 = srcOf s ∧ s2.sp = s.sp := by
  have h2 := rd_opd L s right
  have := sub_beq_zero s.x (val L s.mem s.x s.y right)
  simp only [execSeq, Cpu.exec, h2, Option.map_some, Option.bind_some]
  simp [Cpu.cmp, srcOf]
  exact this

theorem cpy_exec (L : Layout) (s : Cpu) (right : Atom) :
    ∃ s2, execSeq s [(.CPY, opd L right)] = some s2 ∧
      s2.f.z = (s.y == val L s.mem s.x s.y right) ∧
      s2.f.c = decide ((val L s.mem s.x s.y right).toNat ≤ s.y.toNat) ∧
      srcOf s2 = srcOf s ∧ s2.sp = s.sp := by
  have h2 := rd_opd L s right
  have := sub_beq_zero s.y (val L s.mem s.x s.y right)
  simp only [execSeq, Cpu.exec, h2, Option.map_some, Option.bind_some]
  simp [Cpu.cmp, srcOf]
  exact this

/-- after the compare: Z = (left = right), C = (right ≤ left); nothing the source sees changes -/
theorem cmp_exec (L : Layout) (left : LV) (right : Atom) (s : Cpu) :
    ∃ s2, execSeq s ((cmpOps left right).map fun p => (p.1, opdOf L p.2)) = some s2 ∧
      s2.f.z = (rval L (srcOf s) left.ra == val L s.mem s.x s.y right) ∧
      s2.f.c = decide ((val L s.mem s.x s.y right).toNat ≤ (rval L (srcOf s) left.ra).toNat) ∧
      srcOf s2 = srcOf s ∧ s2.sp = s.sp := by
  cases left with
  | var v => exact lda_cmp L s (.var v) right
  | el t i => exact lda_cmp L s (.el t i) right
  | x =>
    cases right with
    | el t i =>
      cases i with
      | k n => exact cpx_exec L s (.el t (.k n))
      | x => exact txa_cmp L s (.el t .x)
      | y => exact txa_cmp L s (.el t .y)
    | const n => exact cpx_exec L s (.const n)
    | var w => exact cpx_exec L s (.var w)
  | y =>
    cases right with
    | el t i =>
      cases i with
      | k n => exact cpy_exec L s (.el t (.k n))
      | x => exact tya_cmp L s (.el t .x)
      | y => exact tya_cmp L s (.el t .y)
    | const n => exact cpy_exec L s (.const n)
    | var w => exact cpy_exec L s (.var w)

theorem cmpTest_correct (L : Layout) (g : GState) (left : LV) (right : Atom) (op : COp) (label : Lbl) :
    CondSpec L g (cmpTest g left right op label) label
      (fun σ => op.eval (rval L σ left.ra) (val L σ.mem σ.x σ.y right)) := by
  intro pre post s t hold hinv hl
  obtain ⟨s2, he, hz, hc, hsrc, hsp⟩ := cmp_exec L left right s
  let b := branchInstr { g with flags := none } op label
  have hcode : (cmpTest g left right op label).1 = cmpPre left right ++ b.1 := rfl
  rw [hcode] at hl ⊢
  have h12 := steps_of_execSeq L (cmpOps left right) pre (b.1 ++ post) s s2 he
  rw [← cmpPre_eq] at h12
  have w : pre ++ cmpPre left right ++ (b.1 ++ post) = pre ++ (cmpPre left right ++ b.1) ++ post := by simp
  rw [w] at h12
  have hold' : Old { g with flags := none } (pre ++ cmpPre left right) := by
    rw [old_flags]
    intro l hl
    have : labels (cmpPre left right) = [] := labels_cmpPre left right
    simp [this] at hl; exact hold l hl
  have hl' : findLbl ((pre ++ cmpPre left right) ++ b.1 ++ post) label = some t := by
    simpa [List.append_assoc] using hl
  have h3 := branchInstr_steps L { g with flags := none } op label (pre ++ cmpPre left right) post s2 t
    (rval L (srcOf s) left.ra) (val L s.mem s.x s.y right) hz hc hold' hl'
  have w2 : (pre ++ cmpPre left right) ++ b.1 ++ post = pre ++ (cmpPre left right ++ b.1) ++ post := by simp
  rw [w2] at h3
  have hlen : (cmpPre left right).length = (cmpOps left right).length := by rw [cmpPre_eq]; simp
  refine ⟨s2, ?_, hsrc, hsp, ?_⟩
  · show Steps L _ pre.length s (if op.eval (rval L (srcOf s) left.ra) (val L (srcOf s).mem (srcOf s).x (srcOf s).y right) = true then t else _) s2
    simp only [srcOf_mem, srcOf_x, srcOf_y]
    rcases Bool.eq_false_or_eq_true (op.eval (rval L (srcOf s) left.ra) (val L s.mem s.x s.y right)) with hev | hev
    · simp only [hev, if_true] at h3 ⊢
      exact h12.trans (h3.cast (by rw [List.length_append, hlen]) rfl)
    · simp only [hev, Bool.false_eq_true, if_false] at h3 ⊢
      exact h12.trans (h3.cast (by rw [List.length_append, hlen]) (by simp only [List.length_append, b]; omega))
  · show FlagsInv L (branchInstr { g with flags := none } op label).2.flags s2
    rw [branchInstr_flags_none]; trivial


/-! ### operator algebra: negation and mirroring mean what their names say -/

theorem negate_eval (op : COp) (a b : Byte) : op.negate.eval a b = !op.eval a b := by
  cases op <;> simp [COp.negate, COp.eval, bne] <;> (rw [Bool.eq_iff_iff]; simp)

theorem mirror_eval (op : COp) (a b : Byte) : op.mirror.eval b a = op.eval a b := by
  cases op <;> simp [COp.mirror, COp.eval, bne]
  · rw [Bool.eq_iff_iff]; simp; exact eq_comm
  · rw [Bool.eq_iff_iff]; simp; constructor <;> (intro h; exact h.symm)

theorem finalOp_eval (op : COp) (negate switch : Bool) (a b : Byte) :
    (finalOp op negate switch).eval (if switch then b else a) (if switch then a else b) = (op.eval a b != negate) := by
  cases negate <;> cases switch <;> simp [finalOp, mirror_eval, negate_eval]

theorem finalOp_unordered (op : COp) (negate switch : Bool) (h : op.ordered = false) :
    finalOp op negate switch = .eq ∨ finalOp op negate switch = .ne := by
  cases op <;> cases negate <;> cases switch <;> simp [COp.ordered] at h <;> simp [finalOp, COp.negate, COp.mirror]

theorem CondSpec.congr {L : Layout} {g : GState} {r : List GLine × GState} {label : Lbl} {j j' : SrcSt → Bool}
    {e : SrcSt → SrcSt} (h : ∀ m, j m = j' m) (hs : CondSpec L g r label j e) : CondSpec L g r label j' e := by
  have : j = j' := funext h
  rw [← this]; exact hs

theorem isZero_val (L : Layout) (m : Mem) (x y : Byte) (a : Atom) (h : RA.isZero (.of a) = true) : val L m x y a = 0 := by
  cases a with
  | var _ => simp [RA.isZero] at h
  | el _ _ => simp [RA.isZero] at h
  | const n => simpa [RA.isZero, val] using h

/-- compare `left` with `right`: by the flags alone when `right` is literal 0 and the shortcut applies, by a
    compare instruction otherwise -/
theorem worker_correct (L : Layout) (g : GState) (left : LV) (right : Atom) (op' : COp) (label : Lbl) (short : Bool)
    (hun : RA.isZero (.of right) = true → op' = .eq ∨ op' = .ne) :
    CondSpec L g (if (RA.isZero (.of right) && short) = true then zeroTest g left op' label else cmpTest g left right op' label) label
      (fun σ => op'.eval (rval L σ left.ra) (val L σ.mem σ.x σ.y right)) := by
  by_cases hc : (RA.isZero (.of right) && short) = true
  · rw [if_pos hc]
    have hz : RA.isZero (.of right) = true := by
      cases h : RA.isZero (.of right) <;> simp [h] at hc ⊢
    refine (zeroTest_correct L g left op' label (hun hz)).congr ?_
    intro σ
    rw [isZero_val L σ.mem σ.x σ.y right hz]
  · rw [if_neg hc]
    exact cmpTest_correct L g left right op' label

theorem genCondEx_correct (L : Layout) (g : GState) (l r : RA) (op : COp) (negate : Bool) (label : Lbl)
    (hok : CondOK (.cmp op l r) = true) :
    CondSpec L g (genCondEx g l r op negate label) label (fun σ => op.eval (rval L σ l) (rval L σ r) != negate) := by
  simp only [CondOK, Bool.and_eq_true, Bool.not_eq_true', Bool.and_eq_false_iff, Bool.or_eq_false_iff] at hok
  obtain ⟨⟨⟨hcc, hrr⟩, hord⟩, hel⟩ := hok
  -- an ordered operator never meets a literal 0
  have hun : ∀ (sw : Bool) (a : Atom), (RA.isZero l = true ∨ RA.isZero r = true) → RA.isZero (.of a) = true →
      finalOp op negate sw = .eq ∨ finalOp op negate sw = .ne := by
    intro sw a hz _
    have : op.ordered = false := by
      cases hord with
      | inl h => exact h
      | inr h => rcases hz with hz | hz <;> simp [hz] at h
    exact finalOp_unordered op negate sw this
  cases l with
  | x =>
    cases r with
    | x => simp [RA.isReg] at hrr
    | y => simp [RA.isReg] at hrr
    | of right =>
      simp only [genCondEx, orient]
      have := worker_correct L g .x right (finalOp op negate false) label (g.flags == some .x)
        (fun hz => hun false right (Or.inr hz) hz)
      refine this.congr ?_
      intro σ
      have := finalOp_eval op negate false (rval L σ .x) (rval L σ (.of right))
      simpa [rval, LV.ra] using this
  | y =>
    cases r with
    | x => simp [RA.isReg] at hrr
    | y => simp [RA.isReg] at hrr
    | of right =>
      simp only [genCondEx, orient]
      have := worker_correct L g .y right (finalOp op negate false) label (g.flags == some .y)
        (fun hz => hun false right (Or.inr hz) hz)
      refine this.congr ?_
      intro σ
      have := finalOp_eval op negate false (rval L σ .y) (rval L σ (.of right))
      simpa [rval, LV.ra] using this
  | of la =>
    cases la with
    | const n =>
      cases r with
      | of ra =>
        cases ra with
        | const k => simp [RA.isConst] at hcc
        | var w =>
          simp only [genCondEx, orient]
          have := worker_correct L g (.var w) (.const n) (finalOp op negate true) label true
            (fun hz => hun true (.const n) (Or.inl hz) hz)
          simp only [Bool.and_true] at this
          refine this.congr ?_
          intro σ
          have := finalOp_eval op negate true (rval L σ (.of (.const n))) (rval L σ (.of (.var w)))
          simpa [rval, LV.ra, val] using this
        | el t i =>
          simp only [genCondEx, orient]
          have := worker_correct L g (.el t i) (.const n) (finalOp op negate true) label true
            (fun hz => hun true (.const n) (Or.inl hz) hz)
          simp only [Bool.and_true] at this
          refine this.congr ?_
          intro σ
          have := finalOp_eval op negate true (rval L σ (.of (.const n))) (rval L σ (.of (.el t i)))
          simpa [rval, LV.ra, val] using this
      | x =>
        simp only [genCondEx, orient]
        have := worker_correct L g .x (.const n) (finalOp op negate true) label (g.flags == some .x)
          (fun hz => hun true (.const n) (Or.inl hz) hz)
        refine this.congr ?_
        intro σ
        have := finalOp_eval op negate true (rval L σ (.of (.const n))) (rval L σ .x)
        simpa [rval, LV.ra, val] using this
      | y =>
        simp only [genCondEx, orient]
        have := worker_correct L g .y (.const n) (finalOp op negate true) label (g.flags == some .y)
          (fun hz => hun true (.const n) (Or.inl hz) hz)
        refine this.congr ?_
        intro σ
        have := finalOp_eval op negate true (rval L σ (.of (.const n))) (rval L σ .y)
        simpa [rval, LV.ra, val] using this
    | var v =>
      cases r with
      | of right =>
        simp only [genCondEx, orient, RA.isReg, Bool.false_eq_true, if_false]
        have := worker_correct L g (.var v) right (finalOp op negate false) label true
          (fun hz => hun false right (Or.inr hz) hz)
        simp only [Bool.and_true] at this
        refine this.congr ?_
        intro σ
        have := finalOp_eval op negate false (rval L σ (.of (.var v))) (rval L σ (.of right))
        simpa [rval, LV.ra, val] using this
      | x =>
        simp only [genCondEx, orient, RA.isReg, if_true]
        have := worker_correct L g .x (.var v) (finalOp op negate true) label (g.flags == some .x)
          (fun hz => by simp [RA.isZero] at hz)
        refine this.congr ?_
        intro σ
        have := finalOp_eval op negate true (rval L σ (.of (.var v))) (rval L σ .x)
        simpa [rval, LV.ra, val] using this
      | y =>
        simp only [genCondEx, orient, RA.isReg, if_true]
        have := worker_correct L g .y (.var v) (finalOp op negate true) label (g.flags == some .y)
          (fun hz => by simp [RA.isZero] at hz)
        refine this.congr ?_
        intro σ
        have := finalOp_eval op negate true (rval L σ (.of (.var v))) (rval L σ .y)
        simpa [rval, LV.ra, val] using this
    | el t i =>
      cases r with
      | of right =>
        simp only [genCondEx, orient, RA.isReg, Bool.false_eq_true, if_false]
        have := worker_correct L g (.el t i) right (finalOp op negate false) label true
          (fun hz => hun false right (Or.inr hz) hz)
        simp only [Bool.and_true] at this
        refine this.congr ?_
        intro σ
        have := finalOp_eval op negate false (rval L σ (.of (.el t i))) (rval L σ (.of right))
        simpa [rval, LV.ra, val] using this
      | x =>
        cases i with
        | k m =>
          simp only [genCondEx, orient, RA.isReg, if_true]
          have := worker_correct L g .x (.el t (.k m)) (finalOp op negate true) label (g.flags == some .x)
            (fun hz => by simp [RA.isZero] at hz)
          refine this.congr ?_
          intro σ
          have := finalOp_eval op negate true (rval L σ (.of (.el t (.k m)))) (rval L σ .x)
          simpa [rval, LV.ra, val] using this
        | x => simp [RA.isRegEl, RA.isReg] at hel
        | y => simp [RA.isRegEl, RA.isReg] at hel
      | y =>
        cases i with
        | k m =>
          simp only [genCondEx, orient, RA.isReg, if_true]
          have := worker_correct L g .y (.el t (.k m)) (finalOp op negate true) label (g.flags == some .y)
            (fun hz => by simp [RA.isZero] at hz)
          refine this.congr ?_
          intro σ
          have := finalOp_eval op negate true (rval L σ (.of (.el t (.k m)))) (rval L σ .y)
          simpa [rval, LV.ra, val] using this
        | x => simp [RA.isRegEl, RA.isReg] at hel
        | y => simp [RA.isRegEl, RA.isReg] at hel

/-! ### comparisons with a tree operand (stage 12) -/

/-- the code of an accepted tree: runs to its end, leaves the state `treeRun` describes (scratch cell, stack page) and
    the tree's value in A with Z describing it; SP is back where it was -/
theorem treeOps_run (L : Layout) (e : GExpr) (hok : e.ok = true) (s : Cpu) :
    ∃ s', execSeq s ((treeOps e).map fun p => (p.1, opdOf L p.2)) = some s' ∧ srcOf s' = (treeRun L (srcOf s) e).2 ∧ s'.sp = s.sp ∧
      s'.a = (treeRun L (srcOf s) e).1 ∧ GenReg.ZA s' := by
  have hne : ∀ a, e ≠ .atom a := by intro a h; subst h; simp [GExpr.ok] at hok
  obtain ⟨c, st', hg⟩ := (genE_ok_iff (none : Option Atom) (fun a => some a) e hne).1 hok
  have hnat := genE_nat (opdOf L) (none : Option Atom) (fun a => some a) e {}
  rw [hg] at hnat
  have hg' : genE Opd.none (opd L) {} e = some (c.map (fun p => (p.1, opdOf L p.2)), .acc, st') := by
    simpa [opdOf] using hnat
  obtain ⟨s', q, ev, ex, hm, ha, hz⟩ := genE_exec L e {} _ .acc st' hg' s (by intro h; cases h)
  have hacc := (genE_acc Opd.none (opd L) _ _ _ _ _ hg').2 rfl
  have hirr := evalE_acc_irrelevant L e (srcOf s) s.a 0 {} (by intro h; cases h)
  rw [ev] at hirr
  have hto : treeOps e = c := by simp [treeOps, hg]
  have hsp0 := evalE_sp L e (srcOf s) s.a {} q .acc st' ev
  cases h0 : evalE L (srcOf s) 0 {} e with
  | none => rw [h0] at hirr; exact hirr.elim
  | some y =>
    obtain ⟨⟨σ2, a2⟩, t2, st2⟩ := y
    obtain ⟨σq, aq⟩ := q
    rw [h0] at hirr
    simp only at hirr
    obtain ⟨hσ, ht, hs, hv⟩ := hirr
    subst ht; subst hs; subst hσ
    have hrun : treeRun L (srcOf s) e = (a2, σq) := by unfold treeRun; rw [h0]
    refine ⟨s', by rw [hto]; exact ex, by rw [hrun]; exact hm, ?_, by rw [hrun, ha]; exact hv hacc, hz hacc⟩
    have := congrArg SrcSt.sp hm
    simp only at hsp0 this
    exact this.trans hsp0

theorem treeLines_eq (e : GExpr) : treeLines e = (treeOps e).map fun p => GLine.ins p.1 p.2 := rfl

/-- a tree in A against a memory operand or constant -/
theorem cmpETest_correct (L : Layout) (g : GState) (op : COp) (e : GExpr) (b : Atom) (eLeft negate : Bool) (label : Lbl)
    (hok : e.ok = true) (hz0 : (op.ordered && RA.isZero (.of b)) = false) :
    CondSpec L g (cmpETest g op e b eLeft negate label) label (fun m => evalCond L m (.cmpE op e b eLeft) != negate)
      (fun m => (treeRun L m e).2) := by
  have hcongr : ∀ m : SrcSt, (finalOp op negate (!eLeft)).eval (treeRun L m e).1
        (val L (treeRun L m e).2.mem (treeRun L m e).2.x (treeRun L m e).2.y b)
      = (evalCond L m (.cmpE op e b eLeft) != negate) := by
    intro m
    cases eLeft with
    | true => simpa [evalCond_cmpE] using finalOp_eval op negate false (treeRun L m e).1 (val L (treeRun L m e).2.mem (treeRun L m e).2.x (treeRun L m e).2.y b)
    | false => simpa [evalCond_cmpE] using finalOp_eval op negate true (val L (treeRun L m e).2.mem (treeRun L m e).2.x (treeRun L m e).2.y b) (treeRun L m e).1
  refine CondSpec.congr hcongr ?_
  intro pre post s t hold hinv hl
  obtain ⟨s1, he, hsrc, hsp, ha, hza⟩ := treeOps_run L e hok s
  by_cases hzb : RA.isZero (.of b) = true
  · -- compared with literal 0: the flags describe A
    have hun : op.ordered = false := by
      cases h : op.ordered
      · rfl
      · simp [h, hzb] at hz0
    have hvb : val L (treeRun L (srcOf s) e).2.mem (treeRun L (srcOf s) e).2.x (treeRun L (srcOf s) e).2.y b = 0 := isZero_val L _ _ _ b hzb
    have hz1 : s1.f.z = ((treeRun L (srcOf s) e).1 == 0) := by rw [← ha]; exact hza
    rcases finalOp_unordered op negate (!eLeft) hun with hop | hop
    · simp only [cmpETest, hzb, if_true, hop] at hl ⊢
      have h12 := steps_of_execSeq L (treeOps e) pre ([.br .BEQ label] ++ post) s s1 he
      rw [← treeLines_eq] at h12
      have w : pre ++ treeLines e ++ ([GLine.br .BEQ label] ++ post) = pre ++ (treeLines e ++ [GLine.br .BEQ label]) ++ post := by simp
      rw [w] at h12
      have hl' : findLbl ((pre ++ treeLines e) ++ [GLine.br .BEQ label] ++ post) label = some t := by
        simpa [List.append_assoc] using hl
      have h3 := br_step L (pre ++ treeLines e) [.br .BEQ label] post 0 .BEQ label s1 ((treeRun L (srcOf s) e).1 == 0) t rfl
        (by simp [Cpu.taken, hz1]) hl'
      have w2 : (pre ++ treeLines e) ++ [GLine.br .BEQ label] ++ post = pre ++ (treeLines e ++ [GLine.br .BEQ label]) ++ post := by simp
      rw [w2] at h3
      refine ⟨s1, ?_, hsrc, hsp, trivial⟩
      rw [hvb]
      have hlen : (treeLines e).length = (treeOps e).length := by rw [treeLines_eq]; simp
      have := h12.trans (h3.cast (by len_arith) rfl)
      simpa [COp.eval, List.length_append, hlen, Nat.add_assoc] using this
    · simp only [cmpETest, hzb, if_true, hop] at hl ⊢
      have h12 := steps_of_execSeq L (treeOps e) pre ([.br .BNE label] ++ post) s s1 he
      rw [← treeLines_eq] at h12
      have w : pre ++ treeLines e ++ ([GLine.br .BNE label] ++ post) = pre ++ (treeLines e ++ [GLine.br .BNE label]) ++ post := by simp
      rw [w] at h12
      have hl' : findLbl ((pre ++ treeLines e) ++ [GLine.br .BNE label] ++ post) label = some t := by
        simpa [List.append_assoc] using hl
      have h3 := br_step L (pre ++ treeLines e) [.br .BNE label] post 0 .BNE label s1 (!((treeRun L (srcOf s) e).1 == 0)) t rfl
        (by simp [Cpu.taken, hz1]) hl'
      have w2 : (pre ++ treeLines e) ++ [GLine.br .BNE label] ++ post = pre ++ (treeLines e ++ [GLine.br .BNE label]) ++ post := by simp
      rw [w2] at h3
      refine ⟨s1, ?_, hsrc, hsp, trivial⟩
      rw [hvb]
      have hlen : (treeLines e).length = (treeOps e).length := by rw [treeLines_eq]; simp
      have := h12.trans (h3.cast (by len_arith) rfl)
      simpa [COp.eval, bne, List.length_append, hlen, Nat.add_assoc] using this
  · -- CMP b, then the branches
    have hzb' : RA.isZero (.of b) = false := by simpa using hzb
    let op' := finalOp op negate (!eLeft)
    let br := branchInstr { g with flags := none } op' label
    have hcode : (cmpETest g op e b eLeft negate label).1 = (treeLines e ++ [GLine.ins .CMP (some b)]) ++ br.1 := by
      simp [cmpETest, hzb', br, op']
    have hst : (cmpETest g op e b eLeft negate label).2 = br.2 := by
      simp [cmpETest, hzb', br, op']
    rw [hcode] at hl ⊢
    -- the tree, then the compare, as one straight-line piece
    let ops := treeOps e ++ [(Mn.CMP, some b)]
    have hrd := rd_opd L s1 b
    have he2 : execSeq s ((ops).map fun p => (p.1, opdOf L p.2)) = some (s1.cmp s1.a (val L s1.mem s1.x s1.y b)) := by
      have hsplit : (ops).map (fun p => (p.1, opdOf L p.2))
          = (treeOps e).map (fun p => (p.1, opdOf L p.2)) ++ [(Mn.CMP, opd L b)] := by simp [ops, opdOf]
      rw [hsplit, execSeq_append', he]
      simp [execSeq, Cpu.exec, hrd]
    have hlines : treeLines e ++ [GLine.ins .CMP (some b)] = ops.map fun p => GLine.ins p.1 p.2 := by
      simp [ops, treeLines_eq]
    have h12 := steps_of_execSeq L ops pre (br.1 ++ post) s _ he2
    rw [← hlines] at h12
    have w : pre ++ (treeLines e ++ [GLine.ins .CMP (some b)]) ++ (br.1 ++ post)
        = pre ++ ((treeLines e ++ [GLine.ins .CMP (some b)]) ++ br.1) ++ post := by simp
    rw [w] at h12
    have hlab : labels (treeLines e ++ [GLine.ins .CMP (some b)]) = [] := by simp [labels_treeLines]
    have hold' : Old { g with flags := none } (pre ++ (treeLines e ++ [GLine.ins .CMP (some b)])) := by
      rw [old_flags]
      intro l hl
      simp [hlab] at hl; exact hold l hl
    have hl' : findLbl ((pre ++ (treeLines e ++ [GLine.ins .CMP (some b)])) ++ br.1 ++ post) label = some t := by
      simpa [List.append_assoc] using hl
    have hmem : val L s1.mem s1.x s1.y b = val L (treeRun L (srcOf s) e).2.mem (treeRun L (srcOf s) e).2.x (treeRun L (srcOf s) e).2.y b := by
      rw [← hsrc]; rfl
    have hzf : (s1.cmp s1.a (val L s1.mem s1.x s1.y b)).f.z = ((treeRun L (srcOf s) e).1 == val L (treeRun L (srcOf s) e).2.mem (treeRun L (srcOf s) e).2.x (treeRun L (srcOf s) e).2.y b) := by
      rw [← hmem, ← ha]
      simp [Cpu.cmp, Cpu.setNZ]
      exact sub_beq_zero _ _
    have hcf : (s1.cmp s1.a (val L s1.mem s1.x s1.y b)).f.c
        = decide ((val L (treeRun L (srcOf s) e).2.mem (treeRun L (srcOf s) e).2.x (treeRun L (srcOf s) e).2.y b).toNat ≤ ((treeRun L (srcOf s) e).1).toNat) := by
      rw [← hmem, ← ha]
      simp [Cpu.cmp]
    have h3 := branchInstr_steps L { g with flags := none } op' label (pre ++ (treeLines e ++ [GLine.ins .CMP (some b)])) post _ t
      ((treeRun L (srcOf s) e).1) (val L (treeRun L (srcOf s) e).2.mem (treeRun L (srcOf s) e).2.x (treeRun L (srcOf s) e).2.y b) hzf hcf hold' hl'
    have w2 : (pre ++ (treeLines e ++ [GLine.ins .CMP (some b)])) ++ br.1 ++ post
        = pre ++ ((treeLines e ++ [GLine.ins .CMP (some b)]) ++ br.1) ++ post := by simp
    rw [w2] at h3
    have hlen : (treeLines e ++ [GLine.ins .CMP (some b)]).length = ops.length := by rw [hlines]; simp
    refine ⟨s1.cmp s1.a (val L s1.mem s1.x s1.y b), ?_, ?_, ?_, ?_⟩
    · show Steps L _ pre.length s (if op'.eval ((treeRun L (srcOf s) e).1) (val L (treeRun L (srcOf s) e).2.mem (treeRun L (srcOf s) e).2.x (treeRun L (srcOf s) e).2.y b) = true then t else _) _
      rcases Bool.eq_false_or_eq_true (op'.eval ((treeRun L (srcOf s) e).1) (val L (treeRun L (srcOf s) e).2.mem (treeRun L (srcOf s) e).2.x (treeRun L (srcOf s) e).2.y b)) with hev | hev
      · simp only [hev, if_true] at h3 ⊢
        exact h12.trans (h3.cast (by rw [List.length_append, hlen]) rfl)
      · simp only [hev, Bool.false_eq_true, if_false] at h3 ⊢
        exact h12.trans (h3.cast (by rw [List.length_append, hlen]) (by simp only [List.length_append, br]; omega))
    · show srcOf (s1.cmp s1.a (val L s1.mem s1.x s1.y b)) = (treeRun L (srcOf s) e).2
      rw [← hsrc]; rfl
    · rw [← hsp]; rfl
    · rw [hst]
      show FlagsInv L (branchInstr { g with flags := none } op' label).2.flags _
      rw [branchInstr_flags_none]; trivial

/-- a tree against X or Y -/
theorem cmpRTest_correct (L : Layout) (g : GState) (op : COp) (e : GExpr) (y eLeft negate : Bool) (label : Lbl)
    (hok : e.ok = true) :
    CondSpec L g (cmpRTest g op e y eLeft negate label) label (fun m => evalCond L m (.cmpR op e y eLeft) != negate)
      (fun m => setTmp L (treeRun L m e).2 (treeRun L m e).1) := by
  have hcongr : ∀ m : SrcSt, (finalOp op negate eLeft).eval (if y then (treeRun L m e).2.y else (treeRun L m e).2.x) (treeRun L m e).1
      = (evalCond L m (.cmpR op e y eLeft) != negate) := by
    intro m
    cases eLeft with
    | true => simpa [evalCond_cmpR] using finalOp_eval op negate true (treeRun L m e).1 (if y then (treeRun L m e).2.y else (treeRun L m e).2.x)
    | false => simpa [evalCond_cmpR] using finalOp_eval op negate false (if y then (treeRun L m e).2.y else (treeRun L m e).2.x) (treeRun L m e).1
  refine CondSpec.congr hcongr ?_
  intro pre post s t hold hinv hl
  obtain ⟨s1, he, hsrc, hsp, ha, hza⟩ := treeOps_run L e hok s
  let op' := finalOp op negate eLeft
  let br := branchInstr { g with flags := none } op' label
  let cpm : Mn := if y then .CPY else .CPX
  let mid : List GLine := treeLines e ++ [GLine.ins .STA (some tmp), GLine.ins cpm (some tmp)]
  have hcode : (cmpRTest g op e y eLeft negate label).1 = mid ++ br.1 := by
    simp [cmpRTest, mid, br, op', cpm]
  have hst : (cmpRTest g op e y eLeft negate label).2 = br.2 := by
    simp [cmpRTest, br, op']
  rw [hcode] at hl ⊢
  let ops := treeOps e ++ [(Mn.STA, some tmp), (cpm, some tmp)]
  let s2 : Cpu := { s1 with mem := s1.mem.write (L "cctmp") s1.a }
  have hv2 : val L s2.mem s2.x s2.y tmp = s1.a := by simp [s2, tmp, val]
  have hcmp : ∃ s3, execSeq s2 [(cpm, opd L tmp)] = some s3 ∧
      s3.f.z = ((if y then s1.y else s1.x) == s1.a) ∧ s3.f.c = decide (s1.a.toNat ≤ (if y then s1.y else s1.x).toNat) ∧
      srcOf s3 = srcOf s2 ∧ s3.sp = s2.sp := by
    cases y with
    | false =>
      obtain ⟨s3, h1, h2, h3, h4, h5⟩ := cpx_exec L s2 tmp
      rw [hv2] at h2 h3
      exact ⟨s3, h1, h2, h3, h4, h5⟩
    | true =>
      obtain ⟨s3, h1, h2, h3, h4, h5⟩ := cpy_exec L s2 tmp
      rw [hv2] at h2 h3
      exact ⟨s3, h1, h2, h3, h4, h5⟩
  obtain ⟨s3, hc3, hz3, hcf3, hsrc3, hsp3⟩ := hcmp
  have he2 : execSeq s (ops.map fun p => (p.1, opdOf L p.2)) = some s3 := by
    have hsplit : ops.map (fun p => (p.1, opdOf L p.2))
        = (treeOps e).map (fun p => (p.1, opdOf L p.2)) ++ ([(Mn.STA, opd L tmp)] ++ [(cpm, opd L tmp)]) := by
      simp [ops, opdOf]
    rw [hsplit, execSeq_append', he]
    simp only [Option.bind_some, execSeq_append', GenReg.staTmp_exec]
    exact hc3
  have hlines : mid = ops.map fun p => GLine.ins p.1 p.2 := by simp [mid, ops, treeLines_eq]
  have h12 := steps_of_execSeq L ops pre (br.1 ++ post) s s3 he2
  rw [← hlines] at h12
  have w : pre ++ mid ++ (br.1 ++ post) = pre ++ (mid ++ br.1) ++ post := by simp
  rw [w] at h12
  have hlab : labels mid = [] := by simp [mid, labels_treeLines]
  have hold' : Old { g with flags := none } (pre ++ mid) := by
    rw [old_flags]
    intro l hl
    simp [hlab] at hl; exact hold l hl
  have hl' : findLbl ((pre ++ mid) ++ br.1 ++ post) label = some t := by simpa [List.append_assoc] using hl
  have hreg : (if y then s1.y else s1.x) = (if y then (treeRun L (srcOf s) e).2.y else (treeRun L (srcOf s) e).2.x) := by
    rw [← hsrc]; rfl
  have hz3' : s3.f.z = ((if y then (treeRun L (srcOf s) e).2.y else (treeRun L (srcOf s) e).2.x) == (treeRun L (srcOf s) e).1) := by
    rw [← hreg, ← ha]; exact hz3
  have hc3' : s3.f.c = decide ((treeRun L (srcOf s) e).1.toNat ≤ (if y then (treeRun L (srcOf s) e).2.y else (treeRun L (srcOf s) e).2.x).toNat) := by
    rw [← hreg, ← ha]; exact hcf3
  have h3 := branchInstr_steps L { g with flags := none } op' label (pre ++ mid) post s3 t
    (if y then (treeRun L (srcOf s) e).2.y else (treeRun L (srcOf s) e).2.x) (treeRun L (srcOf s) e).1 hz3' hc3' hold' hl'
  have w2 : (pre ++ mid) ++ br.1 ++ post = pre ++ (mid ++ br.1) ++ post := by simp
  rw [w2] at h3
  have hlen : mid.length = ops.length := by rw [hlines]; simp
  refine ⟨s3, ?_, ?_, by rw [hsp3]; exact hsp, ?_⟩
  · show Steps L _ pre.length s (if op'.eval (if y then (treeRun L (srcOf s) e).2.y else (treeRun L (srcOf s) e).2.x) (treeRun L (srcOf s) e).1 = true then t else _) _
    rcases Bool.eq_false_or_eq_true (op'.eval (if y then (treeRun L (srcOf s) e).2.y else (treeRun L (srcOf s) e).2.x) (treeRun L (srcOf s) e).1) with hev | hev
    · simp only [hev, if_true] at h3 ⊢
      exact h12.trans (h3.cast (by rw [List.length_append, hlen]) rfl)
    · simp only [hev, Bool.false_eq_true, if_false] at h3 ⊢
      exact h12.trans (h3.cast (by rw [List.length_append, hlen]) (by simp only [List.length_append, br]; omega))
  · show srcOf s3 = setTmp L (treeRun L (srcOf s) e).2 (treeRun L (srcOf s) e).1
    rw [hsrc3, ← hsrc, ← ha]; rfl
  · rw [hst]
    show FlagsInv L (branchInstr { g with flags := none } op' label).2.flags _
    rw [branchInstr_flags_none]; trivial

/-- `if (e)` for a tree -/
theorem truthETest_correct (L : Layout) (g : GState) (e : GExpr) (negate : Bool) (label : Lbl)
    (hok : e.ok = true) :
    CondSpec L g (truthETest g e negate label) label (fun m => evalCond L m (.truthE e) != negate)
      (fun m => (treeRun L m e).2) := by
  intro pre post s t hold hinv hl
  obtain ⟨s1, he, hsrc, hsp, ha, hza⟩ := treeOps_run L e hok s
  let ops : List (Mn × Option Atom) := treeOps e ++ (if e.topArithm then [] else [(Mn.CMP, some (Atom.const 0))])
  have hrun : ∃ s2, execSeq s (ops.map fun p => (p.1, opdOf L p.2)) = some s2 ∧ srcOf s2 = (treeRun L (srcOf s) e).2 ∧ s2.sp = s.sp ∧
      s2.f.z = ((treeRun L (srcOf s) e).1 == 0) := by
    by_cases htop : e.topArithm = true
    · refine ⟨s1, ?_, hsrc, hsp, by rw [← ha]; exact hza⟩
      simp only [ops, htop, if_true, List.append_nil]; exact he
    · have htop' : e.topArithm = false := by simpa using htop
      refine ⟨s1.cmp s1.a 0, ?_, by show srcOf (s1.cmp s1.a 0) = _; rw [← hsrc]; rfl, by rw [← hsp]; rfl, ?_⟩
      · have hsplit : ops.map (fun p => (p.1, opdOf L p.2))
            = (treeOps e).map (fun p => (p.1, opdOf L p.2)) ++ [(Mn.CMP, Opd.imm 0)] := by
          simp [ops, htop', opdOf, opd]
        rw [hsplit, execSeq_append', he]
        simp [execSeq, Cpu.exec, Cpu.rd]
      · rw [← ha]
        simp [Cpu.cmp, Cpu.setNZ]
  obtain ⟨s2, he2, hsrc2, hsp2, hz2⟩ := hrun
  let pl : List GLine := treeLines e ++ (if e.topArithm then [] else [GLine.ins .CMP (some (.const 0))])
  have hlines : pl = ops.map fun p => GLine.ins p.1 p.2 := by
    by_cases htop : e.topArithm = true <;> simp [pl, ops, htop, treeLines_eq]
  let mn : Mn := if negate then .BEQ else .BNE
  have hcode : (truthETest g e negate label).1 = pl ++ [GLine.br mn label] := by
    simp [truthETest, pl, mn]
  rw [hcode] at hl ⊢
  have h12 := steps_of_execSeq L ops pre ([GLine.br mn label] ++ post) s s2 he2
  rw [← hlines] at h12
  have w : pre ++ pl ++ ([GLine.br mn label] ++ post) = pre ++ (pl ++ [GLine.br mn label]) ++ post := by simp
  rw [w] at h12
  have hl' : findLbl ((pre ++ pl) ++ [GLine.br mn label] ++ post) label = some t := by
    simpa [List.append_assoc] using hl
  have hlen : pl.length = ops.length := by rw [hlines]; simp
  have w2 : (pre ++ pl) ++ [GLine.br mn label] ++ post = pre ++ (pl ++ [GLine.br mn label]) ++ post := by simp
  refine ⟨s2, ?_, hsrc2, hsp2, trivial⟩
  cases negate with
  | true =>
    have h3 := br_step L (pre ++ pl) [.br .BEQ label] post 0 .BEQ label s2 ((treeRun L (srcOf s) e).1 == 0) t rfl
      (by simp [Cpu.taken, hz2]) (by simpa [mn] using hl')
    have hmn : mn = .BEQ := rfl
    rw [hmn] at h12 w2 ⊢
    rw [w2] at h3
    have := h12.trans (h3.cast (by len_arith) rfl)
    simpa [evalCond_cmp, evalCond_truth, evalCond_nottruth, evalCond_cmpE, evalCond_truthE, evalCond_not, evalCond_and, evalCond_or, condEff_cmp, condEff_truth, condEff_nottruth, condEff_cmpE, condEff_truthE, condEff_not, condEff_and, condEff_or, bne, List.length_append, hlen, Nat.add_assoc] using this
  | false =>
    have h3 := br_step L (pre ++ pl) [.br .BNE label] post 0 .BNE label s2 (!((treeRun L (srcOf s) e).1 == 0)) t rfl
      (by simp [Cpu.taken, hz2]) (by simpa [mn] using hl')
    have hmn : mn = .BNE := rfl
    rw [hmn] at h12 w2 ⊢
    rw [w2] at h3
    have := h12.trans (h3.cast (by len_arith) rfl)
    simpa [evalCond_cmp, evalCond_truth, evalCond_nottruth, evalCond_cmpE, evalCond_truthE, evalCond_not, evalCond_and, evalCond_or, condEff_cmp, condEff_truth, condEff_nottruth, condEff_cmpE, condEff_truthE, condEff_not, condEff_and, condEff_or, bne, List.length_append, hlen, Nat.add_assoc] using this

/-! ### 16-bit (in)equality (stage 14) -/

/-- `LDA x ; SBC y` after the low pass: the high difference with the borrow, Z describing it -/
theorem ldaSbc_exec (L : Layout) (c : Cpu) (x y : Atom) :
    ∃ c2, execSeq c [(Mn.LDA, opd L x), (Mn.SBC, opd L y)] = some c2 ∧
      c2.a = highRes .sub c.f.c (val L c.mem c.x c.y x) (val L c.mem c.x c.y y) ∧ srcOf c2 = srcOf c ∧ c2.sp = c.sp ∧ GenReg.ZA c2 := by
  have hx := rd_opd L c x
  have hy := rd_opd L { c with a := val L c.mem c.x c.y x, f := Cpu.setNZ c.f (val L c.mem c.x c.y x) } y
  refine ⟨({ c with a := val L c.mem c.x c.y x, f := Cpu.setNZ c.f (val L c.mem c.x c.y x) } : Cpu).sbc (val L c.mem c.x c.y y),
    by simp [execSeq, Cpu.exec, hx, hy], ?_, ?_, ?_, ?_⟩
  · simp [sbc_a, highRes, Cpu.setNZ]
  · simp [srcOf, Cpu.sbc, Cpu.adc]
  · simp [Cpu.sbc, Cpu.adc]
  · simp [GenReg.ZA, Cpu.sbc, Cpu.adc, Cpu.setNZ]

/-- the two byte passes of a 16-bit (in)equality: the state `wcmpRun` describes, the high difference in A with Z -/
theorem wcmpPre_run (L : Layout) (s : String) (w : WA) (c : Cpu) :
    ∃ c2, execSeq c ((wcmpPre s w).map fun p => (p.1, opdOf L p.2)) = some c2 ∧ srcOf c2 = (wcmpRun L (srcOf c) s w).2 ∧
      c2.sp = c.sp ∧ GenReg.ZA c2 ∧
      ((c2.a != 0) || ((srcOf c2).mem.read (L "cctmp") != 0)) = (wcmpRun L (srcOf c) s w).1 := by
  by_cases hw : w = .wconst 0
  · subst hw
    have h1 := rd_opd L c (.var s)
    refine ⟨{ c with mem := c.mem.write (L "cctmp") (c.mem.read (L s)),
                     a := (c.mem.write (L "cctmp") (c.mem.read (L s))).read (L s + 1),
                     f := Cpu.setNZ (Cpu.setNZ c.f (c.mem.read (L s))) ((c.mem.write (L "cctmp") (c.mem.read (L s))).read (L s + 1)) }, ?_, ?_, rfl, ?_, ?_⟩
    · simp [wcmpPre, execSeq, Cpu.exec, opdOf, opd, tmp, hiCell, Cpu.rd, Cpu.ea, val]
    · simp [srcOf, wcmpRun, lowRes, setTmp, WA.lo, val]
    · simp [GenReg.ZA, Cpu.setNZ]
    · simp [srcOf, wcmpRun, lowRes, highRes, setTmp, WA.lo, WA.hi, val, hiCell, elAddr]
  · have hne : (w == WA.wconst 0) = false := by simpa using hw
    obtain ⟨c1, e1, m1, x1, y1, p1, cf1⟩ := lowPass_exec L c "cctmp" .sub (.var s) w.lo true (by intro h; cases h)
    obtain ⟨c2, e2, a2, m2, p2, z2⟩ := ldaSbc_exec L c1 (hiCell s) w.hi
    have hcode : (wcmpPre s w).map (fun p => (p.1, opdOf L p.2))
        = ([(Mn.LDA, opd L (.var s))] ++ (carryOf .sub).map (fun m => (m, Opd.none)) ++
            (if true then (mainOf .sub).map fun m => (m, opd L w.lo) else []) ++ [(Mn.STA, opd L (.var "cctmp"))]) ++
          [(Mn.LDA, opd L (hiCell s)), (Mn.SBC, opd L w.hi)] := by
      have hw' : ¬ w = WA.wconst 0#16 := hw
      simp [wcmpPre, hw', opdOf, tmp, carryOf, mainOf, opd]
    have hsrc1 : srcOf c1 = setTmp L (srcOf c) (lowRes .sub (c.mem.read (L s)) (val L c.mem c.x c.y w.lo)).1 := by
      simp only [srcOf, setTmp, m1, x1, y1, p1, val]
    refine ⟨c2, ?_, ?_, by rw [p2, p1], z2, ?_⟩
    · rw [hcode, execSeq_append', e1]; simpa using e2
    · rw [m2, hsrc1]; simp [wcmpRun, srcOf, val]
    · rw [m2, hsrc1, a2, cf1 (Or.inr rfl)]
      have hv : ∀ a : Atom, val L c1.mem c1.x c1.y a = val L (setTmp L (srcOf c) (lowRes .sub (c.mem.read (L s)) (val L c.mem c.x c.y w.lo)).1).mem
          (setTmp L (srcOf c) (lowRes .sub (c.mem.read (L s)) (val L c.mem c.x c.y w.lo)).1).x
          (setTmp L (srcOf c) (lowRes .sub (c.mem.read (L s)) (val L c.mem c.x c.y w.lo)).1).y a := by
        intro a; rw [← hsrc1]; rfl
      rw [hv, hv]
      simp [wcmpRun, srcOf, val]

/-- `LDA cctmp` as one line -/
theorem ldaTmp_step (L : Layout) (c : Cpu) :
    ∃ c3, c.exec .LDA (opdOf L (some tmp)) = some c3 ∧ srcOf c3 = srcOf c ∧ c3.sp = c.sp ∧
      c3.f.z = ((srcOf c).mem.read (L "cctmp") == 0) := by
  refine ⟨{ c with a := c.mem.read (L "cctmp"), f := Cpu.setNZ c.f (c.mem.read (L "cctmp")) }, ?_, rfl, rfl, ?_⟩
  · simp [Cpu.exec, opdOf, opd, tmp, Cpu.rd, Cpu.ea]
  · simp [Cpu.setNZ, srcOf]

theorem wcmpTest_correct (L : Layout) (g : GState) (ne : Bool) (s : String) (w : WA) (negate : Bool) (label : Lbl) :
    CondSpec L g (wcmpTest g ne s w negate label) label (fun m => evalCond L m (.wcmp ne s w) != negate)
      (fun m => (wcmpRun L m s w).2) := by
  intro pre post c t hold hinv hl
  obtain ⟨c2, he, hsrc, hsp, hza, hD⟩ := wcmpPre_run L s w c
  let pl : List GLine := (wcmpPre s w).map fun p => GLine.ins p.1 p.2
  have hlenpl : (wcmpPre s w).length = pl.length := by simp [pl]
  have hz2 : c2.f.z = (c2.a == 0) := hza
  obtain ⟨c3, e3, m3, p3, z3⟩ := ldaTmp_step L c2
  simp only [bne] at hD
  by_cases hform : (ne != negate) = true
  · -- jump on "different"
    have hj : ∀ m : SrcSt, (evalCond L m (.wcmp ne s w) != negate) = (wcmpRun L m s w).1 := by
      intro m
      rw [evalCond_wcmp]
      cases ne <;> cases negate <;> simp at hform ⊢
    let tail : List GLine := [.br .BNE label, .ins .LDA (some tmp), .br .BNE label]
    have hcode : (wcmpTest g ne s w negate label).1 = pl ++ tail := by simp [wcmpTest, hform, pl, tail]
    have hstt : (wcmpTest g ne s w negate label).2.flags = none := by simp [wcmpTest, hform]
    rw [hcode] at hl ⊢
    simp only [hj]
    have h12 := steps_of_execSeq L (wcmpPre s w) pre (tail ++ post) c c2 he
    have w1 : pre ++ pl ++ (tail ++ post) = pre ++ (pl ++ tail) ++ post := by simp
    rw [show (wcmpPre s w).map (fun p => GLine.ins p.1 p.2) = pl from rfl, w1, hlenpl] at h12
    have hk0 : (pl ++ tail)[pl.length + 0]? = some (.br .BNE label) := by simp [tail]
    have hk1 : (pl ++ tail)[pl.length + 1]? = some (.ins .LDA (some tmp)) := by simp [tail]
    have hk2 : (pl ++ tail)[pl.length + 2]? = some (.br .BNE label) := by simp [tail]
    have hb0 := br_step L pre (pl ++ tail) post (pl.length + 0) .BNE label c2 (!(c2.a == 0)) t hk0 (by simp [Cpu.taken, hz2]) hl
    have hi1 := ins_step L pre (pl ++ tail) post (pl.length + 1) _ _ c2 c3 hk1 e3
    have hb2 := br_step L pre (pl ++ tail) post (pl.length + 2) .BNE label c3 (!((srcOf c2).mem.read (L "cctmp") == 0)) t hk2
      (by simp [Cpu.taken, z3]) hl
    have hend : pre.length + (pl ++ tail).length = pre.length + (pl.length + 2) + 1 := by simp [tail]; omega
    rw [← hD, hend]
    generalize (c2.a == 0) = A at hb0 ⊢
    generalize ((srcOf c2).mem.read (L "cctmp") == 0) = T at hb2 ⊢
    cases A with
    | false =>
      simp only [Bool.not_false, if_true] at hb0
      refine ⟨c2, ?_, hsrc, hsp, by rw [hstt]; trivial⟩
      simp only [Bool.not_false, Bool.true_or, if_true]
      exact h12.trans (hb0.cast (by omega) rfl)
    | true =>
      simp only [Bool.not_true, Bool.false_eq_true, if_false] at hb0
      refine ⟨c3, ?_, by rw [m3]; exact hsrc, by rw [p3, hsp], by rw [hstt]; trivial⟩
      cases T with
      | false =>
        simp only [Bool.not_false, if_true] at hb2
        simp only [Bool.not_true, Bool.not_false, Bool.false_or, if_true]
        have hb0c : Steps L (pre ++ (pl ++ tail) ++ post) (pre.length + pl.length) c2 (pre.length + pl.length + 1) c2 :=
          hb0.cast (by omega) (by omega)
        have hi1c : Steps L (pre ++ (pl ++ tail) ++ post) (pre.length + pl.length + 1) c2 (pre.length + pl.length + 2) c3 :=
          hi1.cast (by omega) (by omega)
        exact ((h12.trans hb0c).trans hi1c).trans (hb2.cast (by omega) rfl)
      | true =>
        simp only [Bool.not_true, Bool.false_eq_true, if_false] at hb2
        simp only [Bool.not_true, Bool.or_self, Bool.false_eq_true, if_false]
        have hb0c : Steps L (pre ++ (pl ++ tail) ++ post) (pre.length + pl.length) c2 (pre.length + pl.length + 1) c2 :=
          hb0.cast (by omega) (by omega)
        have hi1c : Steps L (pre ++ (pl ++ tail) ++ post) (pre.length + pl.length + 1) c2 (pre.length + pl.length + 2) c3 :=
          hi1.cast (by omega) (by omega)
        exact ((h12.trans hb0c).trans hi1c).trans (hb2.cast (by omega) (by omega))
  · -- jump on "equal": over the `.ifstart` label
    have hform' : (ne != negate) = false := by simpa using hform
    have hj : ∀ m : SrcSt, (evalCond L m (.wcmp ne s w) != negate) = !(wcmpRun L m s w).1 := by
      intro m
      rw [evalCond_wcmp]
      cases ne <;> cases negate <;> simp at hform' ⊢
    generalize hst : (⟨.ifstart, g.cIf⟩ : Lbl) = st
    let tail : List GLine := [.br .BNE st, .ins .LDA (some tmp), .br .BEQ label, .lab st]
    have hcode : (wcmpTest g ne s w negate label).1 = pl ++ tail := by simp [wcmpTest, hform', pl, tail, hst]
    have hstt : (wcmpTest g ne s w negate label).2.flags = none := by simp [wcmpTest, hform']
    rw [hcode] at hl ⊢
    simp only [hj]
    have h12 := steps_of_execSeq L (wcmpPre s w) pre (tail ++ post) c c2 he
    have w1 : pre ++ pl ++ (tail ++ post) = pre ++ (pl ++ tail) ++ post := by simp
    rw [show (wcmpPre s w).map (fun p => GLine.ins p.1 p.2) = pl from rfl, w1, hlenpl] at h12
    have hnot : st ∉ labels (pre ++ pl ++ [GLine.br .BNE st, GLine.ins .LDA (some tmp), GLine.br .BEQ label]) := by
      simp only [labels_append, List.mem_append, not_or]
      refine ⟨⟨?_, ?_⟩, ?_⟩
      · intro hin
        have := hold _ hin
        rw [← hst] at this
        simp [LKind.ctr, GState.ctr, Lbl.idx] at this
        omega
      · simp [pl, labels_insLines]
      · simp [labels]
    have w0 : pre ++ (pl ++ tail) ++ post
        = (pre ++ pl ++ [GLine.br .BNE st, GLine.ins .LDA (some tmp), GLine.br .BEQ label]) ++ GLine.lab st :: post := by
      simp [tail]
    have hfind : findLbl (pre ++ (pl ++ tail) ++ post) st = some (pre.length + (pl.length + 3)) := by
      rw [w0, findLbl_at _ _ _ hnot]; congr 1; len_arith
    have hk0 : (pl ++ tail)[pl.length + 0]? = some (.br .BNE st) := by simp [tail]
    have hk1 : (pl ++ tail)[pl.length + 1]? = some (.ins .LDA (some tmp)) := by simp [tail]
    have hk2 : (pl ++ tail)[pl.length + 2]? = some (.br .BEQ label) := by simp [tail]
    have hk3 : (pl ++ tail)[pl.length + 3]? = some (.lab st) := by simp [tail]
    have hb0 := br_step L pre (pl ++ tail) post (pl.length + 0) .BNE st c2 (!(c2.a == 0)) _ hk0 (by simp [Cpu.taken, hz2]) hfind
    have hi1 := ins_step L pre (pl ++ tail) post (pl.length + 1) _ _ c2 c3 hk1 e3
    have hb2 := br_step L pre (pl ++ tail) post (pl.length + 2) .BEQ label c3 ((srcOf c2).mem.read (L "cctmp") == 0) t hk2
      (by simp [Cpu.taken, z3]) hl
    have hl3 : ∀ cc : Cpu, Steps L (pre ++ (pl ++ tail) ++ post) (pre.length + (pl.length + 3)) cc (pre.length + (pl.length + 3) + 1) cc :=
      fun cc => lab_step L pre (pl ++ tail) post (pl.length + 3) st cc hk3
    have hend : pre.length + (pl ++ tail).length = pre.length + (pl.length + 3) + 1 := by simp [tail]; omega
    rw [← hD, hend]
    generalize (c2.a == 0) = A at hb0 ⊢
    generalize ((srcOf c2).mem.read (L "cctmp") == 0) = T at hb2 ⊢
    cases A with
    | false =>
      simp only [Bool.not_false, if_true] at hb0
      refine ⟨c2, ?_, hsrc, hsp, by rw [hstt]; trivial⟩
      simp only [Bool.not_false, Bool.true_or, Bool.not_true, Bool.false_eq_true, if_false]
      exact (h12.trans (hb0.cast (by omega) rfl)).trans (hl3 c2)
    | true =>
      simp only [Bool.not_true, Bool.false_eq_true, if_false] at hb0
      refine ⟨c3, ?_, by rw [m3]; exact hsrc, by rw [p3, hsp], by rw [hstt]; trivial⟩
      cases T with
      | false =>
        simp only [Bool.false_eq_true, if_false] at hb2
        simp only [Bool.not_true, Bool.not_false, Bool.false_or, Bool.false_eq_true, if_false]
        have hb0c : Steps L (pre ++ (pl ++ tail) ++ post) (pre.length + pl.length) c2 (pre.length + pl.length + 1) c2 :=
          hb0.cast (by omega) (by omega)
        have hi1c : Steps L (pre ++ (pl ++ tail) ++ post) (pre.length + pl.length + 1) c2 (pre.length + pl.length + 2) c3 :=
          hi1.cast (by omega) (by omega)
        have hb2c : Steps L (pre ++ (pl ++ tail) ++ post) (pre.length + pl.length + 2) c3 (pre.length + (pl.length + 3)) c3 :=
          hb2.cast (by omega) (by omega)
        exact (((h12.trans hb0c).trans hi1c).trans hb2c).trans (hl3 c3)
      | true =>
        simp only [if_true] at hb2
        simp only [Bool.not_true, Bool.or_self, Bool.not_false, if_true]
        have hb0c : Steps L (pre ++ (pl ++ tail) ++ post) (pre.length + pl.length) c2 (pre.length + pl.length + 1) c2 :=
          hb0.cast (by omega) (by omega)
        have hi1c : Steps L (pre ++ (pl ++ tail) ++ post) (pre.length + pl.length + 1) c2 (pre.length + pl.length + 2) c3 :=
          hi1.cast (by omega) (by omega)
        exact ((h12.trans hb0c).trans hi1c).trans (hb2.cast (by omega) rfl)

/-- the specification of condition code with several tests: as `CondSpec`, except that on the jumping exit
    the flag belief is claimed only when a single test jumps there (`single`) -/
def CondSpecM (L : Layout) (g : GState) (r : List GLine × GState) (label : Lbl) (single : Bool) (jumpIf : SrcSt → Bool)
    (eff : SrcSt → SrcSt) : Prop :=
  ∀ (pre post : List GLine) (s : Cpu) (t : Nat), Old g pre → FlagsInv L g.flags s →
    findLbl (pre ++ r.1 ++ post) label = some t →
    ∃ s', Steps L (pre ++ r.1 ++ post) pre.length s (if jumpIf (srcOf s) then t else pre.length + r.1.length) s' ∧
      srcOf s' = eff (srcOf s) ∧ s'.sp = s.sp ∧
      FlagsInv L (if jumpIf (srcOf s) && !single then none else r.2.flags) s'

theorem CondSpec.toM {L : Layout} {g : GState} {r : List GLine × GState} {label : Lbl} {j : SrcSt → Bool} {e : SrcSt → SrcSt}
    (h : CondSpec L g r label j e) : CondSpecM L g r label true j e := by
  intro pre post s t hold hinv hl
  obtain ⟨s', hs, hm, hsp, hf⟩ := h pre post s t hold hinv hl
  exact ⟨s', hs, hm, hsp, by simpa using hf⟩

theorem CondSpecM.congr {L : Layout} {g : GState} {r : List GLine × GState} {label : Lbl} {b : Bool} {j j' : SrcSt → Bool}
    {e e' : SrcSt → SrcSt} (h : ∀ m, j m = j' m) (he : ∀ m, e m = e' m) (hs : CondSpecM L g r label b j e) :
    CondSpecM L g r label b j' e' := by
  have : j = j' := funext h
  have h2 : e = e' := funext he
  rw [← this, ← h2]; exact hs

/-- two tests in a row that jump to the same label: `a && b` when jumping on false, `a || b` when jumping on true -/
theorem condSeqBoth (L : Layout) (g : GState) (ra rb : List GLine × GState) (label : Lbl) (sa sb : Bool) (ja jb : SrcSt → Bool)
    (ea eb : SrcSt → SrcSt)
    (ha : CondSpecM L g ra label sa ja ea) (hb : CondSpecM L ra.2 rb label sb jb eb) (hfa : Fresh g ra) :
    CondSpecM L g (ra.1 ++ rb.1, rb.2) label false (fun m => ja m || jb (ea m)) (fun m => if ja m then ea m else eb (ea m)) := by
  intro pre post s t hold hinv hl
  dsimp only at hl ⊢
  have w1 : pre ++ (ra.1 ++ rb.1) ++ post = pre ++ ra.1 ++ (rb.1 ++ post) := by simp
  have w2 : pre ++ (ra.1 ++ rb.1) ++ post = (pre ++ ra.1) ++ rb.1 ++ post := by simp
  obtain ⟨s1, hs1, hm1, hsp1, hf1⟩ := ha pre (rb.1 ++ post) s t hold hinv (by rw [← w1]; exact hl)
  rw [← w1] at hs1
  rcases Bool.eq_false_or_eq_true (ja (srcOf s)) with hja | hja
  · -- first test jumps
    simp only [hja, if_true] at hs1
    exact ⟨s1, by simpa [hja] using hs1, by simpa [hja] using hm1, hsp1, by simp [hja]⟩
  · -- first test falls through
    simp only [hja, Bool.false_eq_true, if_false, Bool.false_and] at hs1 hf1
    have hold1 : Old ra.2 (pre ++ ra.1) := (hold.mono hfa.1).append (Old.of_fresh hfa)
    obtain ⟨s2, hs2, hm2, hsp2, hf2⟩ := hb (pre ++ ra.1) post s1 t hold1 hf1 (by rw [← w2]; exact hl)
    rw [← w2, hm1] at hs2
    rw [hm1] at hf2 hm2
    rcases Bool.eq_false_or_eq_true (jb (ea (srcOf s))) with hjb | hjb
    · simp only [hjb, if_true] at hs2
      refine ⟨s2, ?_, by simpa [hja] using hm2, by rw [hsp2, hsp1], by simp [hjb]⟩
      simp only [hja, hjb, Bool.or_true, if_true]
      exact hs1.trans (hs2.cast (by len_arith) rfl)
    · simp only [hjb, Bool.false_eq_true, if_false] at hs2
      refine ⟨s2, ?_, by simpa [hja] using hm2, by rw [hsp2, hsp1], by simpa [hja, hjb] using hf2⟩
      simp only [hja, hjb, Bool.or_self, Bool.false_eq_true, if_false]
      exact hs1.trans (hs2.cast (by len_arith) (by len_arith))

/-- a first test that jumps over the second one to a fresh `.ifstart` label placed behind it:
    `a && b` when jumping on true, `a || b` when jumping on false -/
theorem condSkipOver (L : Layout) (g : GState) (ra rb : List GLine × GState) (label : Lbl) (sa sb : Bool) (ja jb : SrcSt → Bool)
    (ea eb : SrcSt → SrcSt)
    (ha : CondSpecM L { g with cIf := g.cIf + 1 } ra ⟨.ifstart, g.cIf⟩ sa ja ea) (hb : CondSpecM L ra.2 rb label sb jb eb)
    (hfa : Fresh { g with cIf := g.cIf + 1 } ra) (hfb : Fresh ra.2 rb) :
    CondSpecM L g (ra.1 ++ rb.1 ++ [.lab ⟨.ifstart, g.cIf⟩], { rb.2 with flags := none }) label false
      (fun m => !ja m && jb (ea m)) (fun m => if ja m then ea m else eb (ea m)) := by
  intro pre post s t hold hinv hl
  dsimp only at hl ⊢
  generalize hst : (⟨.ifstart, g.cIf⟩ : Lbl) = st at *
  have hk := hfa.1 .cIf
  simp [GState.ctr] at hk
  have hold0 : Old { g with cIf := g.cIf + 1 } pre := hold.mono (mono_cIf g)
  have hold1 : Old ra.2 (pre ++ ra.1) := (hold0.mono hfa.1).append (Old.of_fresh hfa)
  have hnot : st ∉ labels (pre ++ ra.1 ++ rb.1) := by
    simp only [labels_append, List.mem_append, not_or]
    refine ⟨⟨?_, ?_⟩, ?_⟩
    · intro hin
      have := hold _ hin
      rw [← hst] at this
      simp [LKind.ctr, GState.ctr, Lbl.idx] at this
      omega
    · intro hin
      have := (hfa.2 _ hin).1
      rw [← hst] at this
      simp [LKind.ctr, GState.ctr, Lbl.idx] at this
    · intro hin
      have := (hfb.2 _ hin).1
      rw [← hst] at this
      simp [LKind.ctr, GState.ctr, Lbl.idx] at this
      omega
  have w0 : pre ++ (ra.1 ++ rb.1 ++ [GLine.lab st]) ++ post = (pre ++ ra.1 ++ rb.1) ++ GLine.lab st :: post := by simp
  have w1 : pre ++ (ra.1 ++ rb.1 ++ [GLine.lab st]) ++ post = pre ++ ra.1 ++ (rb.1 ++ [GLine.lab st] ++ post) := by simp
  have w2 : pre ++ (ra.1 ++ rb.1 ++ [GLine.lab st]) ++ post = (pre ++ ra.1) ++ rb.1 ++ ([GLine.lab st] ++ post) := by simp
  have hend : pre.length + (ra.1 ++ rb.1 ++ [GLine.lab st]).length = pre.length + ra.1.length + rb.1.length + 1 := by len_arith
  rw [hend]
  generalize hwhole : pre ++ (ra.1 ++ rb.1 ++ [GLine.lab st]) ++ post = whole at *
  have hfind : findLbl whole st = some (pre.length + ra.1.length + rb.1.length) := by
    rw [w0, findLbl_at _ _ _ hnot]; congr 1; len_arith
  have hlab : ∀ s2 : Cpu, Steps L whole (pre.length + ra.1.length + rb.1.length) s2 (pre.length + ra.1.length + rb.1.length + 1) s2 := by
    intro s2
    have := Steps.single (step_lab L (pre ++ ra.1 ++ rb.1) post st s2)
    rw [← w0] at this
    exact this.cast (by len_arith) (by len_arith)
  obtain ⟨s1, hs1, hm1, hsp1, hf1⟩ := ha pre (rb.1 ++ [GLine.lab st] ++ post) s
    (pre.length + ra.1.length + rb.1.length) hold0 hinv (by rw [← w1]; exact hfind)
  rw [← w1] at hs1
  rcases Bool.eq_false_or_eq_true (ja (srcOf s)) with hja | hja
  · simp only [hja, if_true] at hs1
    refine ⟨s1, ?_, by simpa [hja] using hm1, hsp1, by simp⟩
    simp only [hja, Bool.not_true, Bool.false_and, Bool.false_eq_true, if_false]
    exact hs1.trans (hlab s1)
  · simp only [hja, Bool.false_eq_true, if_false, Bool.false_and] at hs1 hf1
    obtain ⟨s2, hs2, hm2, hsp2, hf2⟩ := hb (pre ++ ra.1) ([GLine.lab st] ++ post) s1 t hold1 hf1 (by rw [← w2]; exact hl)
    rw [← w2, hm1] at hs2
    rw [hm1] at hm2
    rcases Bool.eq_false_or_eq_true (jb (ea (srcOf s))) with hjb | hjb
    · simp only [hjb, if_true] at hs2
      refine ⟨s2, ?_, by simpa [hja] using hm2, by rw [hsp2, hsp1], by simp⟩
      simp only [hja, hjb, Bool.not_false, Bool.and_true, if_true]
      exact hs1.trans (hs2.cast (by len_arith) rfl)
    · simp only [hjb, Bool.false_eq_true, if_false] at hs2
      refine ⟨s2, ?_, by simpa [hja] using hm2, by rw [hsp2, hsp1], by simp⟩
      simp only [hja, hjb, Bool.not_false, Bool.and_false, Bool.false_eq_true, if_false]
      exact (hs1.trans (hs2.cast (by len_arith) (by len_arith))).trans (hlab s2)

theorem genCond_correct (L : Layout) (c : Cond) : ∀ (g : GState) (negate : Bool) (label : Lbl), CondOK c = true →
    CondSpecM L g (genCond g c negate label) label c.singleExit (fun m => evalCond L m c != negate) (fun m => condEff L m c) := by
  induction c with
  | cmp op a b =>
    intro g negate label hok
    exact (genCondEx_correct L g a b op negate label hok).toM
  | truth v =>
    intro g negate label hok
    simp only [genCond]
    have := zeroTest_correct L g v (finalOp .ne negate false) label (finalOp_unordered .ne negate false rfl)
    refine (this.congr ?_).toM
    intro m
    have := finalOp_eval .ne negate false (rval L m v.ra) 0
    simpa [evalCond_truth, COp.eval] using this
  | nottruth v =>
    intro g negate label hok
    simp only [genCond]
    have := zeroTest_correct L g v (finalOp .eq negate false) label (finalOp_unordered .eq negate false rfl)
    refine (this.congr ?_).toM
    intro m
    have := finalOp_eval .eq negate false (rval L m v.ra) 0
    simpa [evalCond_nottruth, COp.eval] using this
  | cmpE op e b eLeft =>
    intro g negate label hok
    simp only [CondOK, Bool.and_eq_true, Bool.not_eq_true'] at hok
    exact (cmpETest_correct L g op e b eLeft negate label hok.1 hok.2).toM
  | truthE e =>
    intro g negate label hok
    simp only [CondOK, Bool.and_eq_true] at hok
    exact (truthETest_correct L g e negate label hok).toM
  | cmpR op e y eLeft =>
    intro g negate label hok
    simp only [CondOK, Bool.and_eq_true] at hok
    exact (cmpRTest_correct L g op e y eLeft negate label hok.1).toM
  | wcmp ne s w =>
    intro g negate label hok
    exact (wcmpTest_correct L g ne s w negate label).toM
  | not c ih =>
    intro g negate label hok
    simp only [genCond, Cond.singleExit]
    refine (ih g (!negate) label (by simpa [CondOK] using hok)).congr ?_ (fun m => rfl)
    intro m
    simp only [evalCond_not]
    generalize evalCond L m c = x
    cases x <;> cases negate <;> rfl
  | and a b iha ihb =>
    intro g negate label hok
    simp only [CondOK, Bool.and_eq_true] at hok
    cases negate with
    | true =>
      simp only [genCond, Cond.singleExit]
      refine (condSeqBoth L g _ _ label _ _ _ _ _ _ (iha g true label hok.1) (ihb _ true label hok.2) (genCond_fresh a g true label)).congr ?_ ?_
      · intro m
        simp only [evalCond_and]
        generalize evalCond L m a = x
        generalize evalCond L (condEff L m a) b = y
        cases x <;> cases y <;> rfl
      · intro m
        simp only [condEff_and]
        generalize evalCond L m a = x
        cases x <;> rfl
    | false =>
      simp only [genCond, Cond.singleExit]
      refine (condSkipOver L g _ _ label _ _ _ _ _ _ (iha _ true _ hok.1) (ihb _ false label hok.2)
        (genCond_fresh a _ true _) (genCond_fresh b _ false label)).congr ?_ ?_
      · intro m
        simp only [evalCond_and]
        generalize evalCond L m a = x
        generalize evalCond L (condEff L m a) b = y
        cases x <;> cases y <;> rfl
      · intro m
        simp only [condEff_and]
        generalize evalCond L m a = x
        cases x <;> rfl
  | or a b iha ihb =>
    intro g negate label hok
    simp only [CondOK, Bool.and_eq_true] at hok
    cases negate with
    | false =>
      simp only [genCond, Cond.singleExit]
      refine (condSeqBoth L g _ _ label _ _ _ _ _ _ (iha g false label hok.1) (ihb _ false label hok.2) (genCond_fresh a g false label)).congr ?_ ?_
      · intro m
        simp only [evalCond_or]
        generalize evalCond L m a = x
        generalize evalCond L (condEff L m a) b = y
        cases x <;> cases y <;> rfl
      · intro m
        simp only [condEff_or]
        generalize evalCond L m a = x
        cases x <;> rfl
    | true =>
      simp only [genCond, Cond.singleExit]
      refine (condSkipOver L g _ _ label _ _ _ _ _ _ (iha _ false _ hok.1) (ihb _ true label hok.2)
        (genCond_fresh a _ false _) (genCond_fresh b _ true label)).congr ?_ ?_
      · intro m
        simp only [evalCond_or]
        generalize evalCond L m a = x
        generalize evalCond L (condEff L m a) b = y
        cases x <;> cases y <;> rfl
      · intro m
        simp only [condEff_or]
        generalize evalCond L m a = x
        cases x <;> rfl

end CV.GenStruct
