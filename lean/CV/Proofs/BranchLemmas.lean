/-
  Helper lemmas about `scan`, `measure`, `findFar` (CV.Branch).
-/
import CV.Branch
namespace CV

theorem sizeBytes_nil : sizeBytes [] = 0 := rfl

theorem sizeBytes_cons (l : Line) (c : Code) : sizeBytes (l :: c) = l.size + sizeBytes c := by
  simp [sizeBytes]

theorem sizeBytes_append (a b : Code) : sizeBytes (a ++ b) = sizeBytes a + sizeBytes b := by
  simp [sizeBytes]

theorem label_size (t : String) : (Line.label t).size = 0 := rfl

theorem scanDown_found (tgt : String) (d₁ d₂ : List Line) :
    ∀ bb, Line.label tgt ∉ d₁ →
      scanDown tgt (d₁ ++ Line.label tgt :: d₂) bb = some (bb + sizeBytes d₁) := by
  induction d₁ with
  | nil => intro bb _; simp [scanDown, sizeBytes_nil]
  | cons d ds ih =>
    intro bb h1
    have hd : d ≠ Line.label tgt := fun e => h1 (by simp [e])
    have hds : Line.label tgt ∉ ds := fun e => h1 (by simp [e])
    simp only [List.cons_append, scanDown, hd, if_false]
    rw [ih _ hds]
    simp [sizeBytes_cons]; omega

/-- label found above: `up = u₁ ++ label :: u₂`, not earlier above, nowhere below -/
theorem scan_above (tgt : String) (u₁ u₂ : List Line) :
    ∀ (down : List Line) (ba bb : Nat),
      Line.label tgt ∉ u₁ → Line.label tgt ∉ down →
      scan tgt (u₁ ++ Line.label tgt :: u₂) down ba bb = some (true, ba + sizeBytes u₁) := by
  induction u₁ with
  | nil =>
    intro down ba bb _ _
    simp [scan, sizeBytes_nil]
  | cons u us ih =>
    intro down ba bb h1 h2
    have hu : u ≠ Line.label tgt := fun e => h1 (by simp [e])
    have hus : Line.label tgt ∉ us := fun e => h1 (by simp [e])
    cases down with
    | nil =>
      simp only [List.cons_append, scan, hu, if_false]
      rw [ih [] _ _ hus (by simp)]
      simp [sizeBytes_cons]; omega
    | cons d ds =>
      have hd : d ≠ Line.label tgt := fun e => h2 (by simp [e])
      have hds : Line.label tgt ∉ ds := fun e => h2 (by simp [e])
      simp only [List.cons_append, scan, hu, hd, if_false]
      rw [ih ds _ _ hus hds]
      simp [sizeBytes_cons]; omega

/-- label found below -/
theorem scan_below (tgt : String) (d₁ d₂ : List Line) :
    ∀ (up : List Line) (ba bb : Nat),
      Line.label tgt ∉ d₁ → Line.label tgt ∉ up →
      scan tgt up (d₁ ++ Line.label tgt :: d₂) ba bb = some (false, bb + sizeBytes d₁) := by
  induction d₁ with
  | nil =>
    intro up ba bb _ h2
    cases up with
    | nil => simp [scan, scanDown, sizeBytes_nil]
    | cons u us =>
      have hu : u ≠ Line.label tgt := fun e => h2 (by simp [e])
      simp [scan, hu, sizeBytes_nil]
  | cons d ds ih =>
    intro up ba bb h1 h2
    have hd : d ≠ Line.label tgt := fun e => h1 (by simp [e])
    have hds : Line.label tgt ∉ ds := fun e => h1 (by simp [e])
    cases up with
    | nil =>
      have := scanDown_found tgt (d :: ds) d₂ bb h1
      simp only [scan, this]; simp
    | cons u us =>
      have hu : u ≠ Line.label tgt := fun e => h2 (by simp [e])
      have hus : Line.label tgt ∉ us := fun e => h2 (by simp [e])
      simp only [List.cons_append, scan, hu, hd, if_false]
      rw [ih us _ _ hds hus]
      simp [sizeBytes_cons]; omega

end CV

namespace CV

theorem take_succ_mid (pre : List Line) (b : Line) (rest : List Line) :
    (pre ++ b :: rest).take (pre.length + 1) = pre ++ [b] := by
  induction pre with
  | nil => simp
  | cons p ps ih => simp [ih]

theorem drop_succ_mid (pre : List Line) (b : Line) (rest : List Line) :
    (pre ++ b :: rest).drop (pre.length + 1) = rest := by
  induction pre with
  | nil => simp
  | cons p ps ih => simp [ih]

theorem measure_mid (pre : List Line) (b : Line) (rest : List Line) (tgt : String) :
    measure (pre ++ b :: rest) pre.length tgt = scan tgt (b :: pre.reverse) rest 0 0 := by
  simp [measure, take_succ_mid, drop_succ_mid]

/-- what `findFarFrom … = none` says about every checked branch it walked over -/
theorem findFarFrom_none (code : Code) :
    ∀ (rest : List Line) (i : Nat), findFarFrom code i rest = Far.none →
      ∀ (k : Nat) (ins : Instr), rest[k]? = some (Line.instr ins) → ins.mn.isChecked = true →
        ∃ a d, measure code (i + k) ins.opd = some (a, d) ∧ d ≤ 127 := by
  intro rest
  induction rest with
  | nil => intro i _ k ins h; simp at h
  | cons l ls ih =>
    intro i h k ins hk hc
    cases k with
    | zero =>
      simp at hk
      subst hk
      simp only [findFarFrom, hc, if_true] at h
      cases hm : measure code i ins.opd with
      | none => simp [hm] at h
      | some p =>
        obtain ⟨a, d⟩ := p
        simp only [hm] at h
        by_cases hd : d > 127
        · simp [hd] at h
        · exact ⟨a, d, by simpa using hm, by omega⟩
    | succ k =>
      have hk' : ls[k]? = some (Line.instr ins) := by simpa using hk
      have hrest : findFarFrom code (i + 1) ls = Far.none := by
        cases l with
        | instr j =>
          simp only [findFarFrom] at h
          by_cases hj : j.mn.isChecked = true
          · simp only [hj, if_true] at h
            cases hm : measure code i j.opd with
            | none => simp [hm] at h
            | some p =>
              obtain ⟨a, d⟩ := p
              simp only [hm] at h
              by_cases hd : d > 127
              · simp [hd] at h
              · simpa [hd] using h
          · simpa [hj] using h
        | label _ => simpa [findFarFrom] using h
        | inline _ _ => simpa [findFarFrom] using h
        | comment _ => simpa [findFarFrom] using h
        | dummy => simpa [findFarFrom] using h
      have := ih (i + 1) hrest k ins hk' hc
      have e : i + 1 + k = i + (k + 1) := by omega
      rw [e] at this
      exact this

end CV
