/-
  The 16-bit statements of stage 6 against plain 16-bit arithmetic. CV.GenReg gives their meaning byte by byte, in
  the order the code works (low bytes, carry, high bytes read after the low byte was stored). Here: for a layout in
  which the high cell of a 16-bit operand is not the low cell of the destination, that meaning is
  "destination := x ∘ y on 16-bit values", and no other cell changes.
-/
import CV.GenReg
set_option linter.unusedSimpArgs false
set_option linter.unusedVariables false
namespace CV.GenReg
open CV CV.GenFlat

/-- a 16-bit value from its two bytes -/
def word (hi lo : Byte) : BitVec 16 := hi ++ lo

theorem word_toNat (hi lo : Byte) : (word hi lo).toNat = hi.toNat * 256 + lo.toNat := by
  have := lo.isLt
  simp only [word, BitVec.toNat_append]
  rw [← Nat.shiftLeft_add_eq_or_of_lt (by simpa using this), Nat.shiftLeft_eq]

/-- the value of the 16-bit variable `t`: low byte in its cell, high byte in the next one -/
def wordAt (L : Layout) (m : Mem) (t : String) : BitVec 16 := word (m.read (L t + 1)) (m.read (L t))

/-- the 16-bit value of an operand -/
def wval (L : Layout) (σ : SrcSt) : WA → BitVec 16
  | .wvar t => wordAt L σ.mem t
  | .wconst n => n
  | .wbyte a => word 0 (σ.mem.read (L a))

def _root_.CV.GenFlat.BOp.apply16 : BOp → BitVec 16 → BitVec 16 → BitVec 16
  | .add, a, b => a + b
  | .sub, a, b => a - b
  | .band, a, b => a &&& b
  | .bor, a, b => a ||| b
  | .bxor, a, b => a ^^^ b

/-- the two byte passes compute the 16-bit operation -/
theorem passes_word (op : BOp) (a1 a0 b1 b0 : Byte) :
    word (highRes op (lowRes op a0 b0).2 a1 b1) (lowRes op a0 b0).1 = op.apply16 (word a1 a0) (word b1 b0) := by
  cases op
  · apply BitVec.eq_of_toNat_eq
    have := a0.isLt; have := a1.isLt; have := b0.isLt; have := b1.isLt
    simp only [lowRes, highRes, BOp.apply16, word_toNat, BitVec.toNat_add]
    by_cases h : a0.toNat + b0.toNat ≥ 256 <;> simp [h, word_toNat] <;> omega
  · apply BitVec.eq_of_toNat_eq
    have := a0.isLt; have := a1.isLt; have := b0.isLt; have := b1.isLt
    simp only [lowRes, highRes, BOp.apply16, word_toNat, BitVec.toNat_sub]
    by_cases h : b0.toNat ≤ a0.toNat <;> simp [h, word_toNat, BitVec.toNat_sub] <;> omega
  · simp only [lowRes, highRes, BOp.apply16, BOp.apply, word]; exact BitVec.and_append.symm
  · simp only [lowRes, highRes, BOp.apply16, BOp.apply, word]; exact BitVec.or_append.symm
  · simp only [lowRes, highRes, BOp.apply16, BOp.apply, word]; exact BitVec.xor_append.symm

theorem word_const (n : BitVec 16) : word ((n >>> 8).truncate 8) (n.truncate 8) = n := by
  apply BitVec.eq_of_toNat_eq
  have := n.isLt
  simp only [word_toNat, BitVec.truncate, BitVec.toNat_setWidth, BitVec.toNat_ushiftRight, Nat.shiftRight_eq_div_pow]
  omega

theorem succ_ne (a : Word) : a + 1 ≠ a := by
  intro h
  have := congrArg BitVec.toNat h
  simp [BitVec.toNat_add] at this
  omega

/-- the high byte of an operand, read after the low cell of the destination was written -/
theorem hi_after_low (L : Layout) (σ : SrcSt) (s : String) (b : Byte) (x : WA) (hx : ∀ t, x = .wvar t → L t + 1 ≠ L s) :
    word (rval L (wr L σ (.var s) b) (.of x.hi)) (rval L σ (.of x.lo)) = wval L σ x := by
  cases x with
  | wvar t =>
    have := hx t rfl
    have e : (σ.mem.write (L s) b).read (L t + 1) = σ.mem.read (L t + 1) := Mem.read_write_other _ _ _ _ (Ne.symm this)
    simp only [WA.hi, WA.lo, rval, val, elAddr, wr, wval, wordAt]
    exact congrArg (fun z => word z (σ.mem.read (L t))) e
  | wconst n => simp [WA.hi, WA.lo, rval, val, wval, word_const]
  | wbyte a => simp [WA.hi, WA.lo, rval, val, wval]

/-- `s = x ∘ y` on 16-bit values: the destination holds the 16-bit result; X, Y and every other cell are unchanged -/
theorem binW_word (L : Layout) (σ : SrcSt) (s : String) (op : BOp) (x y : WA)
    (hx : ∀ t, x = .wvar t → L t + 1 ≠ L s) (hy : ∀ t, y = .wvar t → L t + 1 ≠ L s) :
    wordAt L (binWSpec L σ s op x y).mem s = op.apply16 (wval L σ x) (wval L σ y) ∧
      (binWSpec L σ s op x y).x = σ.x ∧ (binWSpec L σ s op x y).y = σ.y ∧
      ∀ a, a ≠ L s → a ≠ L s + 1 → (binWSpec L σ s op x y).mem.read a = σ.mem.read a := by
  refine ⟨?_, rfl, rfl, ?_⟩
  · rw [← hi_after_low L σ s (lowRes op (rval L σ (.of x.lo)) (rval L σ (.of y.lo))).1 x hx,
      ← hi_after_low L σ s (lowRes op (rval L σ (.of x.lo)) (rval L σ (.of y.lo))).1 y hy, ← passes_word]
    simp [binWSpec, wordAt, wr, elAddr, Mem.read_write_other _ _ _ _ (succ_ne (L s))]
  · intro a h1 h2
    simp only [binWSpec, wr, elAddr]
    exact (Mem.read_write_other _ _ _ _ (Ne.symm h2)).trans (Mem.read_write_other _ _ _ _ (Ne.symm h1))

/-- `s = x` -/
theorem asgW_word (L : Layout) (σ : SrcSt) (s : String) (x : WA) (hx : ∀ t, x = .wvar t → L t + 1 ≠ L s) :
    wordAt L (asgWSpec L σ s x).mem s = wval L σ x ∧ (asgWSpec L σ s x).x = σ.x ∧ (asgWSpec L σ s x).y = σ.y ∧
      ∀ a, a ≠ L s → a ≠ L s + 1 → (asgWSpec L σ s x).mem.read a = σ.mem.read a := by
  refine ⟨?_, rfl, rfl, ?_⟩
  · rw [← hi_after_low L σ s (rval L σ (.of x.lo)) x hx]
    simp [asgWSpec, wordAt, wr, elAddr, Mem.read_write_other _ _ _ _ (succ_ne (L s))]
  · intro a h1 h2
    simp only [asgWSpec, wr, elAddr]
    exact (Mem.read_write_other _ _ _ _ (Ne.symm h2)).trans (Mem.read_write_other _ _ _ _ (Ne.symm h1))

/-- the operand swap of a commutative operation does not change the 16-bit result -/
theorem wordered_apply16 (L : Layout) (σ : SrcSt) (op : BOp) (a b : WA) :
    op.apply16 (wval L σ (wordered op a b).1) (wval L σ (wordered op a b).2) = op.apply16 (wval L σ a) (wval L σ b) := by
  unfold wordered
  split
  · rename_i h
    cases op <;> simp [BOp.commutes] at h <;> simp [BOp.apply16, BitVec.add_comm, BitVec.and_comm, BitVec.or_comm, BitVec.xor_comm]
  · rfl

/-- every 16-bit statement of the fragment, as 16-bit arithmetic. `Sep` = the high cell of no 16-bit operand is the
    low cell of the destination (true of every layout that gives each variable its own cells) -/
def wOperands : RStmt → List WA
  | .asgW _ a => [a]
  | .binW _ _ a b => [a, b]
  | .opasgW s _ a => [.wvar s, a]
  | _ => []

def wResult (L : Layout) (σ : SrcSt) : RStmt → Option (String × BitVec 16)
  | .asgW s a => some (s, wval L σ a)
  | .binW s op a b => some (s, op.apply16 (wval L σ a) (wval L σ b))
  | .opasgW s op a => some (s, op.apply16 (wordAt L σ.mem s) (wval L σ a))
  | _ => none

theorem wide_stmt_word (L : Layout) (σ : SrcSt) (st : RStmt) (s : String) (w : BitVec 16) (h : wResult L σ st = some (s, w))
    (hsep : ∀ x ∈ wOperands st, ∀ t, x = .wvar t → L t + 1 ≠ L s) :
    wordAt L (rspec L σ st).mem s = w ∧ (rspec L σ st).x = σ.x ∧ (rspec L σ st).y = σ.y ∧
      ∀ a, a ≠ L s → a ≠ L s + 1 → (rspec L σ st).mem.read a = σ.mem.read a := by
  cases st with
  | asgW d a =>
    simp only [wResult, Option.some.injEq, Prod.mk.injEq] at h
    obtain ⟨hd, hw⟩ := h; subst hd; subst hw
    exact asgW_word L σ d a (hsep a (by simp [wOperands]))
  | binW d op a b =>
    simp only [wResult, Option.some.injEq, Prod.mk.injEq] at h
    obtain ⟨hd, hw⟩ := h; subst hd; subst hw
    have ha := hsep a (by simp [wOperands]); have hb := hsep b (by simp [wOperands])
    have := binW_word L σ d op (wordered op a b).1 (wordered op a b).2
      (by unfold wordered; split <;> assumption) (by unfold wordered; split <;> assumption)
    rw [wordered_apply16] at this
    exact this
  | opasgW d op a =>
    simp only [wResult, Option.some.injEq, Prod.mk.injEq] at h
    obtain ⟨hd, hw⟩ := h; subst hd; subst hw
    exact binW_word L σ d op (.wvar d) a (hsep _ (by simp [wOperands])) (hsep a (by simp [wOperands]))
  | asg _ _ => simp [wResult] at h
  | bin _ _ _ _ => simp [wResult] at h
  | opasg _ _ _ => simp [wResult] at h
  | inc _ => simp [wResult] at h
  | dec _ => simp [wResult] at h
  | chain _ _ _ _ _ => simp [wResult] at h
  | lin _ _ => simp [wResult] at h
  | expr _ _ => simp [wResult] at h

end CV.GenReg
