/-
  Lemmas about the straight-line templates of CV.GenFlat (stage 1 of the generator port): every
  statement's code ends, leaves exactly the memory the source prescribes, and leaves the Z flag
  describing the assigned variable (the fact the generator's flag belief relies on).
-/
import CV.GenFlat
set_option linter.unusedSimpArgs false
namespace CV.GenFlat
open CV

@[simp] theorem setNZ_z (f : Flags) (v : Byte) : (Cpu.setNZ f v).z = (v == 0) := rfl
@[simp] theorem setNZ_n (f : Flags) (v : Byte) : (Cpu.setNZ f v).n = v.msb := rfl
@[simp] theorem setNZ_c (f : Flags) (v : Byte) : (Cpu.setNZ f v).c = f.c := rfl
@[simp] theorem setNZ_v (f : Flags) (v : Byte) : (Cpu.setNZ f v).v = f.v := rfl

theorem adc_after_clc (s : Cpu) (m : Byte) (h : s.f.c = false) : (s.adc m).a = s.a + m := by
  simp [Cpu.adc, h]
  apply BitVec.eq_of_toNat_eq
  simp [BitVec.toNat_add]

theorem sbc_after_sec (s : Cpu) (m : Byte) (h : s.f.c = true) : (s.sbc m).a = s.a - m := by
  simp [Cpu.sbc, Cpu.adc, h]
  apply BitVec.eq_of_toNat_eq
  simp [BitVec.toNat_add, BitVec.toNat_sub, BitVec.toNat_not]
  omega

theorem adc_frame (s : Cpu) (m : Byte) : (s.adc m).mem = s.mem ∧ (s.adc m).x = s.x ∧ (s.adc m).y = s.y ∧ (s.adc m).sp = s.sp := by
  simp [Cpu.adc]

@[simp] theorem opd_const (L : Layout) (n : Byte) : opd L (.const n) = .imm n := rfl
@[simp] theorem opd_var (L : Layout) (v : String) : opd L (.var v) = .mem (L v) := rfl
@[simp] theorem opd_el_k (L : Layout) (t : String) (n : Nat) : opd L (.el t (.k n)) = .mem (L t + BitVec.ofNat 16 n) := rfl
@[simp] theorem opd_el_x (L : Layout) (t : String) : opd L (.el t .x) = .memX (L t) false := rfl
@[simp] theorem opd_el_y (L : Layout) (t : String) : opd L (.el t .y) = .memY (L t) false := rfl

/-- reading an atom through its operand gives its value -/
theorem rd_opd (L : Layout) (s : Cpu) (a : Atom) : s.rd (opd L a) = some (val L s.mem s.x s.y a) := by
  cases a with
  | const n => simp [opd, val, Cpu.rd, Cpu.ea]
  | var v => simp [opd, val, Cpu.rd, Cpu.ea]
  | el t i => cases i <;> simp [opd, val, elAddr, Cpu.rd, Cpu.ea]

theorem identity_apply (op : BOp) (y : Atom) (L : Layout) (m : Mem) (rx ry : Byte) (x : Byte) (h : isIdentity op y = true) :
    op.apply x (val L m rx ry y) = x := by
  cases y with
  | var _ => simp [isIdentity] at h
  | el _ _ => simp [isIdentity] at h
  | const n =>
    have e255 : (255#8 : BitVec 8) = BitVec.allOnes 8 := by decide
    cases op <;> simp [isIdentity] at h <;> subst h <;> simp [BOp.apply, val]
    rw [e255, BitVec.and_allOnes]

/-- `LDA x ; <op> y` leaves `op x y` in A and nothing else that matters changed -/
theorem load_op (L : Layout) (s : Cpu) (op : BOp) (x y : Atom) :
    ∃ s', execSeq s ([(Mn.LDA, opd L x)] ++ (opInstrs op y).map (fun m => (m, if m == .CLC || m == .SEC then Opd.none else opd L y))) = some s' ∧
      s'.a = op.apply (val L s.mem s.x s.y x) (val L s.mem s.x s.y y) ∧ s'.mem = s.mem ∧ s'.x = s.x ∧ s'.y = s.y ∧ s'.sp = s.sp ∧
      s'.f.z = (s'.a == 0) := by
  by_cases hid : isIdentity op y = true
  · -- the operation is skipped; at most the carry set-up is emitted
    have hv := identity_apply op y L s.mem s.x s.y (val L s.mem s.x s.y x) hid
    cases op <;> simp [opInstrs, carryOf, mainOf, hid, execSeq, Cpu.exec, rd_opd, hv]
  · have hid' : isIdentity op y = false := by simpa using hid
    cases op
    · simp [opInstrs, carryOf, mainOf, hid', execSeq, Cpu.exec, rd_opd]
      refine ⟨?_, ?_⟩
      · rw [adc_after_clc _ _ (by simp)]; simp [BOp.apply]
      · simp [Cpu.adc]
    · simp [opInstrs, carryOf, mainOf, hid', execSeq, Cpu.exec, rd_opd]
      refine ⟨?_, ?_⟩
      · rw [sbc_after_sec _ _ (by simp)]; simp [BOp.apply]
      · simp [Cpu.sbc, Cpu.adc]
    · simp [opInstrs, carryOf, mainOf, hid', execSeq, Cpu.exec, rd_opd, BOp.apply]
    · simp [opInstrs, carryOf, mainOf, hid', execSeq, Cpu.exec, rd_opd, BOp.apply]
    · simp [opInstrs, carryOf, mainOf, hid', execSeq, Cpu.exec, rd_opd, BOp.apply]

theorem execSeq_append (s : Cpu) (xs ys : List (Mn × Opd)) :
    execSeq s (xs ++ ys) = (execSeq s xs).bind fun s' => execSeq s' ys := by
  induction xs generalizing s with
  | nil => simp [execSeq]
  | cons p ps ih =>
    obtain ⟨mn, o⟩ := p
    simp only [List.cons_append, execSeq]
    cases h : s.exec mn o with
    | none => simp
    | some s1 => simp [ih]

theorem ordered_comm (op : BOp) (a b : Atom) (L : Layout) (m : Mem) (x y : Byte) :
    op.apply (val L m x y (ordered op a b).1) (val L m x y (ordered op a b).2) = op.apply (val L m x y a) (val L m x y b) := by
  unfold ordered
  split
  · rename_i h
    cases op <;> simp [BOp.commutes] at h <;> simp [BOp.apply, BitVec.add_comm, BitVec.and_comm, BitVec.or_comm, BitVec.xor_comm]
  · rfl

/-- every statement of the fragment, every layout, every machine state -/
theorem gen_stmt_correct (L : Layout) (st : FStmt) (s : Cpu) :
    ∃ s', execSeq s (genOps L st) = some s' ∧ s'.mem = spec L s.mem s.x s.y st ∧
      s'.x = s.x ∧ s'.y = s.y ∧ s'.sp = s.sp := by
  cases st with
  | asg v a =>
    simp only [genOps, template, execSeq, Cpu.exec, rd_opd, Option.map_some, Option.bind_some]
    simp [opd, Cpu.ea, spec]
  | bin v op a b =>
    obtain ⟨s1, h1, ha, hm, hx, hy, hsp⟩ := load_op L s op (ordered op a b).1 (ordered op a b).2
    simp only [genOps, template]
    rw [execSeq_append, h1]
    simp [execSeq, Cpu.exec, opd, Cpu.ea, spec, ha, hm, hx, hy, hsp, ordered_comm]
  | opasg v op a =>
    obtain ⟨s1, h1, ha, hm, hx, hy, hsp⟩ := load_op L s op (.var v) a
    simp only [genOps, template]
    rw [execSeq_append, h1]
    simp [execSeq, Cpu.exec, opd, Cpu.ea, spec, ha, hm, hx, hy, hsp, val]
  | inc v => simp [genOps, template, execSeq, Cpu.exec, opd, Cpu.ea, spec]
  | dec v => simp [genOps, template, execSeq, Cpu.exec, opd, Cpu.ea, spec]

/-- any sequence of statements of the fragment -/
theorem gen_block_correct (L : Layout) (sts : List FStmt) (s : Cpu) :
    ∃ s', execSeq s (sts.flatMap (genOps L)) = some s' ∧ s'.mem = specBlock L s.x s.y s.mem sts ∧
      s'.x = s.x ∧ s'.y = s.y ∧ s'.sp = s.sp := by
  induction sts generalizing s with
  | nil => exact ⟨s, by simp [execSeq], by simp [specBlock], rfl, rfl, rfl⟩
  | cons st rest ih =>
    obtain ⟨s1, h1, hm1, hx1, hy1, hs1⟩ := gen_stmt_correct L st s
    obtain ⟨s2, h2, hm2, hx2, hy2, hs2⟩ := ih s1
    refine ⟨s2, ?_, ?_, by rw [hx2, hx1], by rw [hy2, hy1], by rw [hs2, hs1]⟩
    · simp only [List.flatMap_cons]
      rw [execSeq_append, h1]
      simpa using h2
    · rw [hm2, hm1, hx1, hy1]; rfl



/-- the same with the fact the generator's flag belief rests on: Z describes the assigned variable -/
theorem flat_correct (L : Layout) (st : FStmt) (s : Cpu) :
    ∃ s', execSeq s (genOps L st) = some s' ∧ s'.mem = spec L s.mem s.x s.y st ∧
      s'.x = s.x ∧ s'.y = s.y ∧ s'.sp = s.sp ∧ s'.f.z = (s'.mem.read (L (target st)) == 0) := by
  cases st with
  | asg v a =>
    simp only [genOps, template, execSeq, Cpu.exec, rd_opd, Option.map_some, Option.bind_some]
    simp [opd, Cpu.ea, spec, target]
  | bin v op a b =>
    obtain ⟨s1, h1, ha, hm, hx, hy, hsp, hz⟩ := load_op L s op (ordered op a b).1 (ordered op a b).2
    simp only [genOps, template]
    rw [execSeq_append, h1]
    simp [execSeq, Cpu.exec, opd, Cpu.ea, spec, ha, hm, hx, hy, hsp, hz, ordered_comm, target]
  | opasg v op a =>
    obtain ⟨s1, h1, ha, hm, hx, hy, hsp, hz⟩ := load_op L s op (.var v) a
    simp only [genOps, template]
    rw [execSeq_append, h1]
    simp [execSeq, Cpu.exec, opd, Cpu.ea, spec, ha, hm, hx, hy, hsp, hz, val, target]
  | inc v => simp [genOps, template, execSeq, Cpu.exec, opd, Cpu.ea, spec, target]
  | dec v => simp [genOps, template, execSeq, Cpu.exec, opd, Cpu.ea, spec, target]

end CV.GenFlat
