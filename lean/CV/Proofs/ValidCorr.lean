/-
  CV.Proofs.ValidCorr — one step of the simulation: at a point where the invariant holds both programs
  halt with the same state, or both advance to a common point where the invariant holds again, or both are stuck.
-/
import CV.Proofs.ValidSim
set_option linter.unusedVariables false
set_option linter.unusedSimpArgs false
namespace CV.Valid
open CV

theorem adv_one {extF : Nat → Cpu → Cpu} {code : VCode} {k : Nat} {s : Cpu} {k' : Nat} {s' : Cpu}
    (h : step extF code k s = .next k' s') : adv extF code 1 k s = some (k', s') := by
  simp [adv, h]

theorem Agree.symm {D : Res → Bool} {s1 s2 : Cpu} (h : Agree D s1 s2) : Agree D s2 s1 :=
  ⟨h.mem.symm, h.sp.symm, h.v.symm, fun e => (h.a e).symm, fun e => (h.x e).symm, fun e => (h.y e).symm,
   fun e => ⟨(h.nz e).1.symm, (h.nz e).2.symm⟩, fun e => (h.c e).symm⟩

theorem agree_barrier {opt : VCode} {k : Nat} {s1 s2 : Cpu} (h : Agree (fun r => dead opt r k) s1 s2)
    (hb : match opt[k]? with | some (.ext _) | none => True | _ => False) : s1 = s2 :=
  Agree.full (h.weaken (fun r _ => dead_barrier opt r k hb))

/-- what is dead may grow -/
theorem Agree.mono {D D' : Res → Bool} {s1 s2 : Cpu} (h : Agree D s1 s2) (hd : ∀ r, D r = true → D' r = true) :
    Agree D' s1 s2 :=
  h.weaken (fun r hr => by
    cases hD : D r with
    | false => rfl
    | true => rw [hd r hD] at hr; cases hr)

/-- the two states decide a branch alike when the flag it tests is live -/
theorem taken_agree {D : Res → Bool} {s1 s2 : Cpu} (h : Agree D s1 s2) (mn : Mn)
    (hl : ∀ r, brReads mn r = true → D r = false) : Cpu.taken s1.f mn = Cpu.taken s2.f mn := by
  have hv := h.v
  cases mn <;> simp only [Cpu.taken]
  case BCC => have := h.c (hl .c rfl); simp [this]
  case BCS => have := h.c (hl .c rfl); simp [this]
  case BEQ => have := (h.nz (hl .nz rfl)).2; simp [this]
  case BNE => have := (h.nz (hl .nz rfl)).2; simp [this]
  case BMI => have := (h.nz (hl .nz rfl)).1; simp [this]
  case BPL => have := (h.nz (hl .nz rfl)).1; simp [this]
  case BVC => simp [hv]
  case BVS => simp [hv]

theorem atLine_holds (K' : Facts) (s : Cpu) (h : K'.holds s) (l : VLine) :
    ∃ K'', atLine (some K') l = some K'' ∧ K''.holds s := by
  cases l <;> first | exact ⟨_, rfl, h⟩ | exact ⟨_, rfl, holds_top s⟩

theorem inv_next (orig opt : VCode) (acc : Accepted orig opt) (k : Nat) (K : Facts) (lo : VLine) (K' : Facts) (s1' s2' : Cpu)
    (hK : (factsOf orig)[k]? = some (some K)) (hlo : orig[k]? = some lo) (hpost : post (some K) lo = some K')
    (hmid : ¬ ∃ c o, (c = Mn.CLC ∨ c = Mn.SEC) ∧ opt[k]? = some (.ins c .none) ∧ orig[k]? = some (.ins .LDA o))
    (hh : K'.holds s1') (hag : Agree (fun r => dead opt r (k + 1)) s1' s2') : Inv orig opt (k + 1) s1' s2' := by
  by_cases hlen : orig.length ≤ k + 1
  · exact Or.inl hlen
  · obtain ⟨lk1, hlk1⟩ : ∃ l, orig[k + 1]? = some l := ⟨_, List.getElem?_eq_getElem (by omega)⟩
    have hf : (factsOf orig)[k + 1]? = some (atLine (post (some K) lo) lk1) := by
      rw [factsOf] at hK ⊢
      exact factsFrom_succ orig _ k _ lo lk1 hK hlo hlk1
    rw [hpost] at hf
    obtain ⟨K'', hK'', hh''⟩ := atLine_holds K' s1' hh lk1
    rw [hK''] at hf
    refine Or.inr ⟨?_, K'', hf, hh'', hag⟩
    intro hm
    obtain ⟨c, hp, hc, o, ho⟩ := mid_prev orig opt acc k K'' hf hm
    exact hmid ⟨c, o, hc, hp, ho⟩

theorem inv_label (orig opt : VCode) (t : Nat) (l : String) (s1 s2 : Cpu) (h : orig[t]? = some (.lab l))
    (hag : Agree (fun r => dead opt r t) s1 s2) : Inv orig opt t s1 s2 := by
  refine Or.inr ⟨?_, Facts.top, facts_label orig t l h, holds_top s1, hag⟩
  rintro ⟨c, _, ho, _⟩
  rw [h] at ho; simp at ho

theorem corr_stuck {extF : Nat → Cpu → Cpu} {orig opt : VCode} {k : Nat} {s1 s2 : Cpu}
    (h1 : step extF orig k s1 = .stuck) (h2 : step extF opt k s2 = .stuck) : Corr extF orig opt k s1 s2 :=
  Corr.stuck (stuck_run extF orig k s1 h1) (stuck_run extF opt k s2 h2)

/-- a line present in both programs -/
theorem corr_kept (extF : Nat → Cpu → Cpu) (orig opt : VCode) (acc : Accepted orig opt) (k : Nat) (s1 s2 : Cpu) (K : Facts)
    (l : VLine) (hK : (factsOf orig)[k]? = some (some K)) (hh : K.holds s1)
    (hag : Agree (fun r => dead opt r k) s1 s2) (hlo : orig[k]? = some l) (hlp : opt[k]? = some l)
    (hsup : match l with | .ins mn _ => supported mn = true | _ => True) : Corr extF orig opt k s1 s2 := by
  cases l with
  | ins mn o =>
    simp only at hsup
    have hmid : ¬ ∃ c o', (c = Mn.CLC ∨ c = Mn.SEC) ∧ opt[k]? = some (.ins c .none) ∧ orig[k]? = some (.ins .LDA o') := by
      rintro ⟨c, o', hc, h1, h2⟩
      rw [hlp] at h1; rw [hlo] at h2
      simp at h1 h2
      rcases hc with rfl | rfl <;> simp_all
    cases he : s1.exec mn o with
    | none =>
      have he2 : s2.exec mn o = none := by
        cases he2 : s2.exec mn o with
        | none => rfl
        | some s2' =>
          obtain ⟨s1', h1, _⟩ := exec_agree (D' := fun r => dead opt r (k + 1)) mn o hsup hag.symm
            (fun r hr => dead_ins_read opt r k mn o hlp hr) (fun r hr => dead_ins_next opt r k mn o hlp hr) he2
          rw [he] at h1; cases h1
      exact corr_stuck (by simp [step, hlo, he]) (by simp [step, hlp, he2])
    | some s1' =>
      obtain ⟨s2', he2, hag'⟩ := exec_agree (D' := fun r => dead opt r (k + 1)) mn o hsup hag
        (fun r hr => dead_ins_read opt r k mn o hlp hr) (fun r hr => dead_ins_next opt r k mn o hlp hr) he
      refine Corr.go 1 1 (k + 1) s1' s2' (by omega) (by omega) (adv_one (by simp [step, hlo, he]))
        (adv_one (by simp [step, hlp, he2])) ?_
      exact inv_next orig opt acc k K _ (xfer K mn o) s1' s2' hK hlo rfl hmid (xfer_sound K mn o s1 s1' hsup hh he) hag'
  | br mn l =>
    have hmid : ¬ ∃ c o', (c = Mn.CLC ∨ c = Mn.SEC) ∧ opt[k]? = some (.ins c .none) ∧ orig[k]? = some (.ins .LDA o') := by
      rintro ⟨c, o', hc, h1, h2⟩; rw [hlo] at h2; simp at h2
    have hbr : ∀ r, dead opt r k = true → brReads mn r = false ∧ dead opt r (k + 1) = true ∧
        ∀ t, findLab opt l = some t → dead opt r t = true := fun r hr => dead_br opt r k mn l hlp hr
    have ht2 : Cpu.taken s1.f mn = Cpu.taken s2.f mn := taken_agree hag mn (fun r hr => by
      cases hD : dead opt r k with
      | false => rfl
      | true => rw [(hbr r hD).1] at hr; cases hr)
    cases ht : Cpu.taken s1.f mn with
    | none => exact corr_stuck (by simp [step, hlo, ht]) (by simp [step, hlp, ← ht2, ht])
    | some b =>
      cases b with
      | false =>
        refine Corr.go 1 1 (k + 1) s1 s2 (by omega) (by omega) (adv_one (by simp [step, hlo, ht]))
          (adv_one (by simp [step, hlp, ← ht2, ht])) ?_
        exact inv_next orig opt acc k K _ K s1 s2 hK hlo rfl hmid hh (hag.mono (fun r hr => (hbr r hr).2.1))
      | true =>
        cases hf : findLab orig l with
        | none =>
          have hf2 : findLab opt l = none := by rw [← acc.labs]; exact hf
          exact corr_stuck (by simp [step, hlo, ht, hf]) (by simp [step, hlp, ← ht2, ht, hf2])
        | some t =>
          have hf2 : findLab opt l = some t := by rw [← acc.labs]; exact hf
          refine Corr.go 1 1 t s1 s2 (by omega) (by omega) (adv_one (by simp [step, hlo, ht, hf]))
            (adv_one (by simp [step, hlp, ← ht2, ht, hf2])) ?_
          exact inv_label orig opt t l s1 s2 (findLab_spec orig l t hf) (hag.mono (fun r hr => (hbr r hr).2.2 t hf2))
  | jmp l =>
    cases hf : findLab orig l with
    | none =>
      have hf2 : findLab opt l = none := by rw [← acc.labs]; exact hf
      exact corr_stuck (by simp [step, hlo, hf]) (by simp [step, hlp, hf2])
    | some t =>
      have hf2 : findLab opt l = some t := by rw [← acc.labs]; exact hf
      refine Corr.go 1 1 t s1 s2 (by omega) (by omega) (adv_one (by simp [step, hlo, hf]))
        (adv_one (by simp [step, hlp, hf2])) ?_
      exact inv_label orig opt t l s1 s2 (findLab_spec orig l t hf) (hag.mono (fun r hr => dead_jmp opt r k l hlp hr t hf2))
  | lab l =>
    have hmid : ¬ ∃ c o', (c = Mn.CLC ∨ c = Mn.SEC) ∧ opt[k]? = some (.ins c .none) ∧ orig[k]? = some (.ins .LDA o') := by
      rintro ⟨c, o', hc, h1, h2⟩; rw [hlo] at h2; simp at h2
    refine Corr.go 1 1 (k + 1) s1 s2 (by omega) (by omega) (adv_one (by simp [step, hlo]))
      (adv_one (by simp [step, hlp])) ?_
    exact inv_next orig opt acc k K _ Facts.top s1 s2 hK hlo rfl hmid (holds_top s1)
      (hag.mono (fun r hr => dead_filler opt r k (Or.inr ⟨l, hlp⟩) hr))
  | dummy =>
    have hmid : ¬ ∃ c o', (c = Mn.CLC ∨ c = Mn.SEC) ∧ opt[k]? = some (.ins c .none) ∧ orig[k]? = some (.ins .LDA o') := by
      rintro ⟨c, o', hc, h1, h2⟩; rw [hlo] at h2; simp at h2
    refine Corr.go 1 1 (k + 1) s1 s2 (by omega) (by omega) (adv_one (by simp [step, hlo]))
      (adv_one (by simp [step, hlp])) ?_
    exact inv_next orig opt acc k K _ K s1 s2 hK hlo rfl hmid hh
      (hag.mono (fun r hr => dead_filler opt r k (Or.inl hlp) hr))
  | rts =>
    exact Corr.halt s1 s2 (by simp [step, hlo]) (by simp [step, hlp]) (hag.mono (fun r hr => dead_rts opt r k hlp hr))
  | ext id =>
    have hmid : ¬ ∃ c o', (c = Mn.CLC ∨ c = Mn.SEC) ∧ opt[k]? = some (.ins c .none) ∧ orig[k]? = some (.ins .LDA o') := by
      rintro ⟨c, o', hc, h1, h2⟩; rw [hlo] at h2; simp at h2
    have hs : s1 = s2 := agree_barrier hag (by simp [hlp])
    subst hs
    refine Corr.go 1 1 (k + 1) (extF id s1) (extF id s1) (by omega) (by omega) (adv_one (by simp [step, hlo]))
      (adv_one (by simp [step, hlp])) ?_
    exact inv_next orig opt acc k K _ Facts.top _ _ hK hlo rfl hmid (holds_top _) (Agree.refl _ _)


theorem execOK_some (s : Cpu) (mn : Mn) (o : Opd) (h : execOK mn o = true) : ∃ s', s.exec mn o = some s' := by
  cases mn <;> simp [execOK] at h <;> cases o <;> simp [Cpu.exec, Cpu.rd, Cpu.ea] at h ⊢

theorem no_mid_of_dummy {orig opt : VCode} {k : Nat} (hlp : opt[k]? = some .dummy) :
    ¬ ∃ c o', (c = Mn.CLC ∨ c = Mn.SEC) ∧ opt[k]? = some (.ins c .none) ∧ orig[k]? = some (.ins .LDA o') := by
  rintro ⟨c, o', hc, h1, h2⟩; rw [hlp] at h1; simp at h1

/-- an instruction of `orig` replaced by a dummy -/
theorem corr_removed (extF : Nat → Cpu → Cpu) (orig opt : VCode) (acc : Accepted orig opt) (k : Nat) (s1 s2 : Cpu) (K : Facts)
    (mn : Mn) (o : Opd) (hK : (factsOf orig)[k]? = some (some K)) (hh : K.holds s1)
    (hag : Agree (fun r => dead opt r k) s1 s2) (hlo : orig[k]? = some (.ins mn o)) (hlp : opt[k]? = some .dummy)
    (hs : supported mn = true) (hex : execOK mn o = true)
    (hrem : removable K (fun r => dead opt r (k + 1)) mn o = true) : Corr extF orig opt k s1 s2 := by
  obtain ⟨s1', he⟩ := execOK_some s1 mn o hex
  refine Corr.go 1 1 (k + 1) s1' s2 (by omega) (by omega) (adv_one (by simp [step, hlo, he]))
    (adv_one (by simp [step, hlp])) ?_
  refine inv_next orig opt acc k K _ (xfer K mn o) s1' s2 hK hlo rfl (no_mid_of_dummy hlp) (xfer_sound K mn o s1 s1' hs hh he) ?_
  exact removable_sound K _ mn o s1 s2 s1' hh (hag.mono (fun r hr => dead_filler opt r k (Or.inl hlp) hr)) hrem he

/-- a conditional branch of `orig` that is known not to be taken, replaced by a dummy -/
theorem corr_removed_br (extF : Nat → Cpu → Cpu) (orig opt : VCode) (acc : Accepted orig opt) (k : Nat) (s1 s2 : Cpu) (K : Facts)
    (mn : Mn) (l : String) (hK : (factsOf orig)[k]? = some (some K)) (hh : K.holds s1)
    (hag : Agree (fun r => dead opt r k) s1 s2) (hlo : orig[k]? = some (.br mn l)) (hlp : opt[k]? = some .dummy)
    (hnt : Cpu.taken s1.f mn = some false) : Corr extF orig opt k s1 s2 := by
  refine Corr.go 1 1 (k + 1) s1 s2 (by omega) (by omega) (adv_one (by simp [step, hlo, hnt]))
    (adv_one (by simp [step, hlp])) ?_
  exact inv_next orig opt acc k K _ K s1 s2 hK hlo rfl (no_mid_of_dummy hlp) hh
    (hag.mono (fun r hr => dead_filler opt r k (Or.inl hlp) hr))

theorem filler_adv (extF : Nat → Cpu → Cpu) (opt : VCode) : ∀ (n k : Nat) (s : Cpu),
    (∀ i, i < n → opt[k + i]? = some .dummy ∨ ∃ l, opt[k + i]? = some (.lab l)) → adv extF opt n k s = some (k + n, s) := by
  intro n
  induction n with
  | zero => intro k s _; rfl
  | succ n ih =>
    intro k s h
    have h0 := h 0 (by omega)
    have hst : step extF opt k s = .next (k + 1) s := by
      rcases h0 with h0 | ⟨l, h0⟩ <;> simp at h0 <;> simp [step, h0]
    simp only [adv, hst]
    rw [ih (k + 1) s (fun i hi => by have := h (i + 1) (by omega); rwa [show k + (i + 1) = k + 1 + i by omega] at this)]
    congr 2; omega

theorem filler_dead (opt : VCode) (r : Res) : ∀ (n k : Nat),
    (∀ i, i < n → opt[k + i]? = some .dummy ∨ ∃ l, opt[k + i]? = some (.lab l)) →
    dead opt r k = true → dead opt r (k + n) = true := by
  intro n
  induction n with
  | zero => intro k _ hd; exact hd
  | succ n ih =>
    intro k h hd
    have h0 := h 0 (by omega)
    have h1 := dead_filler opt r k (by simpa using h0) hd
    have := ih (k + 1) (fun i hi => by have := h (i + 1) (by omega); rwa [show k + (i + 1) = k + 1 + i by omega] at this) h1
    rwa [show k + 1 + n = k + (n + 1) by omega] at this

/-- a jump to a label that is reached anyway by falling through -/
theorem corr_removed_jmp (extF : Nat → Cpu → Cpu) (orig opt : VCode) (acc : Accepted orig opt) (k : Nat) (s1 s2 : Cpu)
    (l : String) (t : Nat)
    (hag : Agree (fun r => dead opt r k) s1 s2) (hlo : orig[k]? = some (.jmp l)) (hlp : opt[k]? = some .dummy)
    (hf : findLab orig l = some t) (hkt : k < t) (hfill : onlyFiller opt k t = true) : Corr extF orig opt k s1 s2 := by
  have hall : ∀ i, i < t - k → opt[k + i]? = some .dummy ∨ ∃ l, opt[k + i]? = some (.lab l) := by
    intro i hi
    cases i with
    | zero => exact Or.inl hlp
    | succ i =>
      simp only [onlyFiller, List.all_eq_true, List.mem_range] at hfill
      have := hfill i (by omega)
      rw [show k + (i + 1) = k + 1 + i by omega]
      cases hc : opt[k + 1 + i]? with
      | none => simp [hc] at this
      | some x => cases x <;> simp [hc] at this ⊢
  have ha := filler_adv extF opt (t - k) k s2 hall
  rw [show k + (t - k) = t by omega] at ha
  refine Corr.go 1 (t - k) t s1 s2 (by omega) (by omega) (adv_one (by simp [step, hlo, hf])) ha ?_
  refine inv_label orig opt t l s1 s2 (findLab_spec orig l t hf) (hag.mono ?_)
  intro r hr
  have := filler_dead opt r (t - k) k hall hr
  rwa [show k + (t - k) = t by omega] at this


theorem clc_reads (c : Mn) (hc : c = Mn.CLC ∨ c = Mn.SEC) (r : Res) : readsReg c .none r = false := by
  rcases hc with rfl | rfl <;> cases r <;> rfl

theorem clc_writes (c : Mn) (hc : c = Mn.CLC ∨ c = Mn.SEC) (r : Res) : writesReg c .none r = (r == .c) := by
  rcases hc with rfl | rfl <;> cases r <;> rfl

theorem clc_supported (c : Mn) (hc : c = Mn.CLC ∨ c = Mn.SEC) : supported c = true := by
  rcases hc with rfl | rfl <;> rfl

theorem lda_reads_c (o : Opd) : readsReg .LDA o .c = false := by
  cases o <;> rfl

theorem swap_comm (s : Cpu) (c : Mn) (hc : c = Mn.CLC ∨ c = Mn.SEC) (o : Opd) (sa sb : Cpu)
    (h1 : s.exec .LDA o = some sa) (h2 : sa.exec c .none = some sb) :
    ∃ sm, s.exec c .none = some sm ∧ sm.exec .LDA o = some sb := by
  simp only [Cpu.exec] at h1
  cases hv : s.rd o with
  | none => simp [hv] at h1
  | some v =>
    simp [hv] at h1; subst h1
    rcases hc with rfl | rfl
    · simp only [Cpu.exec] at h2 ⊢
      simp at h2; subst h2
      refine ⟨_, rfl, ?_⟩
      have : Cpu.rd { s with f := { s.f with c := false } } o = s.rd o := rd_frame s _ o rfl (fun _ => rfl) (fun _ => rfl)
      simp [this, hv, Cpu.setNZ]
    · simp only [Cpu.exec] at h2 ⊢
      simp at h2; subst h2
      refine ⟨_, rfl, ?_⟩
      have : Cpu.rd { s with f := { s.f with c := true } } o = s.rd o := rd_frame s _ o rfl (fun _ => rfl) (fun _ => rfl)
      simp [this, hv, Cpu.setNZ]

/-- `LDA o ; CLC|SEC` exchanged, the load possibly removed afterwards -/
theorem corr_swap (extF : Nat → Cpu → Cpu) (orig opt : VCode) (acc : Accepted orig opt) (k : Nat) (s1 s2 : Cpu) (K : Facts)
    (c : Mn) (o : Opd) (hc : c = Mn.CLC ∨ c = Mn.SEC)
    (hK : (factsOf orig)[k]? = some (some K)) (hh : K.holds s1)
    (hag : Agree (fun r => dead opt r k) s1 s2) (hlo : orig[k]? = some (.ins .LDA o)) (hlp : opt[k]? = some (.ins c .none))
    (hex : execOK .LDA o = true) (ho1 : orig[k + 1]? = some (.ins c .none))
    (hp1 : opt[k + 1]? = some (.ins .LDA o) ∨
      (opt[k + 1]? = some .dummy ∧ removable K (fun r => r == .c || dead opt r (k + 2)) .LDA o = true)) :
    Corr extF orig opt k s1 s2 := by
  obtain ⟨s1a, he1⟩ := execOK_some s1 .LDA o hex
  obtain ⟨s1b, he2⟩ := execOK_some s1a c .none (by rcases hc with rfl | rfl <;> rfl)
  have hsc := clc_supported c hc
  have hK1 : (factsOf orig)[k + 1]? = some (some (xfer K .LDA o)) := by
    have := factsFrom_succ orig (some Facts.top) k (some K) _ _ (by rw [factsOf] at hK; exact hK) hlo ho1
    rw [factsOf]; rw [this]; rfl
  have hh1 := xfer_sound K .LDA o s1 s1a rfl hh he1
  have hh2 := xfer_sound _ c .none s1a s1b hsc hh1 he2
  have hmid1 : ¬ ∃ c' o', (c' = Mn.CLC ∨ c' = Mn.SEC) ∧ opt[k + 1]? = some (.ins c' .none) ∧ orig[k + 1]? = some (.ins .LDA o') := by
    rintro ⟨c', o', _, _, h2⟩; rw [ho1] at h2
    rcases hc with rfl | rfl <;> simp at h2
  have hadv1 : adv extF orig 2 k s1 = some (k + 2, s1b) := by
    simp [adv, step, hlo, he1, ho1, he2]
  -- what lies ahead of the pair in `opt`
  have hnext : ∀ r, r ≠ Res.c → dead opt r (k + 1) = false → dead opt r k = false := by
    intro r hr hd
    rcases dead_ins_next opt r k c .none hlp hd with hw | hd'
    · rw [clc_writes c hc] at hw; simp at hw; exact absurd hw hr
    · exact hd'
  rcases hp1 with hp1 | ⟨hp1, hrem⟩
  · -- the load is still there
    have step1 := exec_agree (D' := fun r => r == Res.c || dead opt r (k + 2)) .LDA o rfl hag
      (by
        intro r hr
        have hrc : r ≠ Res.c := by rintro rfl; rw [lda_reads_c] at hr; cases hr
        exact hnext r hrc (dead_ins_read opt r (k + 1) .LDA o hp1 hr))
      (by
        intro r hr
        simp only [Bool.or_eq_false_iff, beq_eq_false_iff_ne] at hr
        rcases dead_ins_next opt r (k + 1) .LDA o hp1 hr.2 with hw | hd
        · exact Or.inl hw
        · exact Or.inr (hnext r hr.1 hd))
      he1
    obtain ⟨s2x, hx1, hagx⟩ := step1
    obtain ⟨s2b, hx2, hagb⟩ := exec_agree (D' := fun r => dead opt r (k + 2)) c .none hsc hagx
      (by intro r hr; rw [clc_reads c hc] at hr; cases hr)
      (by
        intro r hr
        by_cases hrc : r = Res.c
        · left; rw [clc_writes c hc, hrc]; rfl
        · right; simp [hrc, hr])
      he2
    obtain ⟨s2m, hy1, hy2⟩ := swap_comm s2 c hc o s2x s2b hx1 hx2
    have hadv2 : adv extF opt 2 k s2 = some (k + 2, s2b) := by
      simp [adv, step, hlp, hy1, hp1, hy2]
    refine Corr.go 2 2 (k + 2) s1b s2b (by omega) (by omega) hadv1 hadv2 ?_
    exact inv_next orig opt acc (k + 1) _ _ _ s1b s2b hK1 ho1 rfl hmid1 hh2 hagb
  · -- the load is gone
    have hd12 : ∀ r, dead opt r (k + 2) = false → dead opt r (k + 1) = false := fun r h2 => by
      cases h1 : dead opt r (k + 1) with
      | false => rfl
      | true => rw [dead_filler opt r (k + 1) (Or.inl hp1) h1] at h2; cases h2
    have hag0 : Agree (fun r => r == Res.c || dead opt r (k + 2)) s1 s2 := by
      refine hag.weaken ?_
      intro r hr
      simp only [Bool.or_eq_false_iff, beq_eq_false_iff_ne] at hr
      exact hnext r hr.1 (hd12 r hr.2)
    have haga := removable_sound K _ .LDA o s1 s2 s1a hh hag0 hrem he1
    obtain ⟨s2b, hx2, hagb⟩ := exec_agree (D' := fun r => dead opt r (k + 2)) c .none hsc haga
      (by intro r hr; rw [clc_reads c hc] at hr; cases hr)
      (by
        intro r hr
        by_cases hrc : r = Res.c
        · left; rw [clc_writes c hc, hrc]; rfl
        · right; simp [hrc, hr])
      he2
    have hadv2 : adv extF opt 2 k s2 = some (k + 2, s2b) := by
      simp [adv, step, hlp, hx2, hp1]
    refine Corr.go 2 2 (k + 2) s1b s2b (by omega) (by omega) hadv1 hadv2 ?_
    exact inv_next orig opt acc (k + 1) _ _ _ s1b s2b hK1 ho1 rfl hmid1 hh2 hagb


theorem corr (extF : Nat → Cpu → Cpu) (orig opt : VCode) (acc : Accepted orig opt) (k : Nat) (s1 s2 : Cpu)
    (h : Inv orig opt k s1 s2) : Corr extF orig opt k s1 s2 := by
  rcases h with hlen | ⟨hnm, K, hK, hh, hag⟩
  · exact corr_stuck (step_oob extF orig k s1 hlen) (step_oob extF opt k s2 (by rw [← acc.len]; exact hlen))
  · have hk : k < orig.length := by
      have := (List.getElem?_eq_some_iff.mp hK).1
      rwa [factsOf, factsFrom_length] at this
    obtain ⟨lo, hlo⟩ : ∃ l, orig[k]? = some l := ⟨_, List.getElem?_eq_getElem hk⟩
    obtain ⟨lp, hlp⟩ : ∃ l, opt[k]? = some l := ⟨_, List.getElem?_eq_getElem (by rw [← acc.len]; exact hk)⟩
    have hl := acc.line k (some K) lo lp hK hlo hlp
    unfold lineOK at hl
    split at hl
    · rename_i he
      have : lo = lp := by simpa using he
      subst this
      exact corr_kept extF orig opt acc k s1 s2 K lo hK hh hag hlo hlp (by cases lo <;> simp_all)
    · split at hl
      · rename_i heq _; cases heq
      · rename_i K' mn o heq hne
        cases heq
        simp only [Bool.or_eq_true, Bool.and_eq_true] at hl
        rcases hl with ⟨⟨hs, hex⟩, hrem⟩ | hl2
        · exact corr_removed extF orig opt acc k s1 s2 K mn o hK hh hag hlo hlp hs hex hrem
        · exfalso; apply hnm
          obtain ⟨⟨⟨⟨hmn, ho⟩, _⟩, _⟩, _⟩ := hl2
          have ho' : o = Opd.none := by simpa using ho
          subst ho'
          refine ⟨mn, by simpa using hmn, hlo, ?_⟩
          rw [hlp]; simp
      · rename_i Kx l heq hne
        cases hf : findLab orig l with
        | none => simp [hf] at hl
        | some t =>
          simp only [hf, Bool.and_eq_true, decide_eq_true_eq] at hl
          exact corr_removed_jmp extF orig opt acc k s1 s2 l t hag hlo hlp hf hl.1 hl.2
      · rename_i K' l heq hne
        cases heq
        have hz : K.z = some false := by simpa using hl
        have := hh.2.2.2.2
        rw [hz] at this
        exact corr_removed_br extF orig opt acc k s1 s2 K .BEQ l hK hh hag hlo hlp (by simp [Cpu.taken]; exact this)
      · rename_i K' l heq hne
        cases heq
        have hz : K.z = some true := by simpa using hl
        have := hh.2.2.2.2
        rw [hz] at this
        exact corr_removed_br extF orig opt acc k s1 s2 K .BNE l hK hh hag hlo hlp (by simp [Cpu.taken]; exact this)
      · rename_i K' o c heq hne
        cases heq
        simp only [Bool.and_eq_true, Bool.or_eq_true, beq_iff_eq] at hl
        obtain ⟨⟨⟨hc, hex⟩, ho1⟩, hp1⟩ := hl
        exact corr_swap extF orig opt acc k s1 s2 K c o hc hK hh hag hlo hlp hex ho1 hp1
      · rename_i Kx c o hx heq hne
        exfalso; apply hnm
        simp only [Bool.and_eq_true, Bool.or_eq_true, beq_iff_eq] at hl
        refine ⟨c, hl.1.1.1, hlo, ?_⟩
        rw [hlp]; intro h; cases h
        rcases hl.1.1.1 with h | h <;> cases h
      · cases hl

/-- every state reachable in lock step keeps the invariant: forward simulation -/
theorem sim_fwd (extF : Nat → Cpu → Cpu) (orig opt : VCode) (acc : Accepted orig opt) :
    ∀ (n k : Nat) (s1 s2 r : Cpu), Inv orig opt k s1 s2 → run extF orig n k s1 = some r →
      ∃ m r', run extF opt m k s2 = some r' ∧ Agree exitDead r r' := by
  intro n
  induction n using Nat.strongRecOn with
  | _ n ih =>
    intro k s1 s2 r hinv hrun
    cases corr extF orig opt acc k s1 s2 hinv with
    | halt r1 r2 h1 h2 hag =>
      cases n with
      | zero => simp [run] at hrun
      | succ n =>
        simp only [run, h1] at hrun
        cases hrun
        exact ⟨1, r2, by simp [run, h2], hag⟩
    | go a b k' s1' s2' ha hb h1 h2 hinv' =>
      by_cases hna : n ≤ a
      · rw [run_short extF orig a n k s1 k' s1' h1 hna] at hrun; cases hrun
      · have hn : n = a + (n - a) := by omega
        rw [hn, run_adv extF orig a (n - a) k s1 k' s1' h1] at hrun
        obtain ⟨m, r', hm, hag⟩ := ih (n - a) (by omega) k' s1' s2' r hinv' hrun
        exact ⟨b + m, r', by rw [run_adv extF opt b m k s2 k' s2' h2]; exact hm, hag⟩
    | stuck h1 _ => rw [h1 n] at hrun; cases hrun

theorem sim_bwd (extF : Nat → Cpu → Cpu) (orig opt : VCode) (acc : Accepted orig opt) :
    ∀ (m k : Nat) (s1 s2 r' : Cpu), Inv orig opt k s1 s2 → run extF opt m k s2 = some r' →
      ∃ n r, run extF orig n k s1 = some r ∧ Agree exitDead r r' := by
  intro m
  induction m using Nat.strongRecOn with
  | _ m ih =>
    intro k s1 s2 r' hinv hrun
    cases corr extF orig opt acc k s1 s2 hinv with
    | halt r1 r2 h1 h2 hag =>
      cases m with
      | zero => simp [run] at hrun
      | succ m =>
        simp only [run, h2] at hrun
        cases hrun
        exact ⟨1, r1, by simp [run, h1], hag⟩
    | go a b k' s1' s2' ha hb h1 h2 hinv' =>
      by_cases hmb : m ≤ b
      · rw [run_short extF opt b m k s2 k' s2' h2 hmb] at hrun; cases hrun
      · have hm : m = b + (m - b) := by omega
        rw [hm, run_adv extF opt b (m - b) k s2 k' s2' h2] at hrun
        obtain ⟨n, r, hn, hag⟩ := ih (m - b) (by omega) k' s1' s2' r' hinv' hrun
        exact ⟨a + n, r, by rw [run_adv extF orig a n k s1 k' s1' h1]; exact hn, hag⟩
    | stuck _ h2 => rw [h2 m] at hrun; cases hrun

theorem mid_zero (orig opt : VCode) (acc : Accepted orig opt) (K : Facts)
    (hK : (factsOf orig)[0]? = some (some K)) : ¬ isMid orig opt 0 := by
  rintro ⟨c, hc, ho, hp⟩
  have hk1 : 0 < orig.length := (List.getElem?_eq_some_iff.mp ho).1
  obtain ⟨lp, hlp⟩ : ∃ lp, opt[0]? = some lp := ⟨_, List.getElem?_eq_getElem (by rw [← acc.len]; exact hk1)⟩
  have hl := acc.line 0 (some K) _ lp hK ho hlp
  unfold lineOK at hl
  split at hl
  · rename_i he
    have : VLine.ins c .none = lp := by simpa using he
    rw [← this] at hlp; exact absurd hlp hp
  · cases lp with
    | dummy =>
      simp only [Bool.or_eq_true, Bool.and_eq_true] at hl
      rcases hl with hl | hl
      · obtain ⟨⟨_, _⟩, hrem⟩ := hl
        rcases hc with rfl | rfl <;> simp [removable, loadReg, transfer, storeReg] at hrem
      · simp at hl
    | ins mn2 o2 =>
      cases mn2 with
      | LDA => rcases hc with rfl | rfl <;> simp at hl
      | _ => rcases hc with rfl | rfl <;> simp at hl
    | _ => simp at hl

/-- at the entry of the function nothing is assumed and the two states are the same -/
theorem inv_entry (orig opt : VCode) (acc : Accepted orig opt) (s : Cpu) : Inv orig opt 0 s s := by
  cases horig : orig with
  | nil => exact Or.inl (by simp)
  | cons l rest =>
    have hf : (factsOf (l :: rest))[0]? = some (atLine (some Facts.top) l) := by
      rw [factsOf]; exact factsFrom_zero l rest _
    obtain ⟨K'', hK'', hh''⟩ := atLine_holds Facts.top s (holds_top s) l
    rw [hK''] at hf
    rw [← horig] at hf ⊢
    exact Or.inr ⟨mid_zero orig opt acc K'' hf, K'', hf, hh'', Agree.refl _ _⟩

/-- **soundness of the validator**: if `validate orig opt` accepts, then from every machine state and with
    every behaviour of the instructions outside the reasoned set: when `orig` returns, `opt` returns too, in a
    state that agrees with it in A, X, Y, the stack pointer, the V flag and all of memory (the N, Z and C flags
    are not part of what a function hands back: `exitDead`) — and conversely -/
theorem validate_sound (extF : Nat → Cpu → Cpu) (orig opt : VCode) (h : validate orig opt = true) (s : Cpu) :
    (∀ r, (∃ n, run extF orig n 0 s = some r) → ∃ m r', run extF opt m 0 s = some r' ∧ Agree exitDead r r') ∧
    (∀ r', (∃ m, run extF opt m 0 s = some r') → ∃ n r, run extF orig n 0 s = some r ∧ Agree exitDead r r') := by
  have acc := accepted_of_validate orig opt h
  constructor
  · rintro r ⟨n, hn⟩; exact sim_fwd extF orig opt acc n 0 s s r (inv_entry orig opt acc s) hn
  · rintro r' ⟨m, hm⟩; exact sim_bwd extF orig opt acc m 0 s s r' (inv_entry orig opt acc s) hm

end CV.Valid
