/-
  Lemmas about the straight-line templates with register variables (CV.GenReg): every statement's code
  ends and leaves exactly the memory, X and Y the source prescribes (including the scratch write), and the
  generator's belief about the flags afterwards is true.
-/
import CV.GenReg
import CV.Proofs.GenFlatLemmas
set_option linter.unusedSimpArgs false
set_option linter.unusedVariables false
set_option linter.constructorNameAsVariable false
namespace CV.GenReg
open CV CV.GenFlat

/-- the source-visible part of a machine state -/
def srcOf (s : Cpu) : SrcSt := { mem := s.mem, x := s.x, y := s.y }

@[simp] theorem srcOf_mem (s : Cpu) : (srcOf s).mem = s.mem := rfl
@[simp] theorem srcOf_x (s : Cpu) : (srcOf s).x = s.x := rfl
@[simp] theorem srcOf_y (s : Cpu) : (srcOf s).y = s.y := rfl

/-- what the generator's flag belief claims about a machine state -/
def FlagsInv (L : Layout) (fl : Option FRef) (s : Cpu) : Prop :=
  match fl with
  | none => True
  | some (.var v) => s.f.z = (s.mem.read (L v) == 0)
  | some .x => s.f.z = (s.x == 0)
  | some .y => s.f.z = (s.y == 0)
  | some (.el t i) => s.f.z = (s.mem.read (elAddr L s.x s.y t i) == 0)

@[simp] theorem flagsInv_none (L : Layout) (s : Cpu) : FlagsInv L none s := trivial

theorem execSeq_append' (s : Cpu) (xs ys : List (Mn × Opd)) :
    execSeq s (xs ++ ys) = (execSeq s xs).bind fun s' => execSeq s' ys := execSeq_append s xs ys

/-- `A := value of x`, Z describes A -/
theorem loadA_exec (L : Layout) (s : Cpu) (x : RA) :
    ∃ s1, execSeq s (loadA Opd.none (opd L) x) = some s1 ∧ s1.a = rval L (srcOf s) x ∧ srcOf s1 = srcOf s ∧
      s1.sp = s.sp ∧ s1.f.z = (s1.a == 0) := by
  cases x with
  | of a =>
    have := rd_opd L s a
    simp [loadA, execSeq, Cpu.exec, this, rval, srcOf]
  | x => simp [loadA, execSeq, Cpu.exec, rval, srcOf]
  | y => simp [loadA, execSeq, Cpu.exec, rval, srcOf]


theorem rd_tmp_after_write (L : Layout) (s : Cpu) (b : Byte) :
    ({ s with mem := s.mem.write (L "cctmp") b } : Cpu).rd (opd L tmp) = some b := by
  simp [tmp, opd, Cpu.rd, Cpu.ea]

/-- `A := A ∘ value of y` (through the scratch cell for a register operand); Z follows A -/
theorem opCode_exec (L : Layout) (s : Cpu) (op : BOp) (y : RA) :
    ∃ s2, execSeq s (opCode Opd.none (opd L) op y) = some s2 ∧
      s2.a = op.apply s.a (rval L (srcOf s) y) ∧ srcOf s2 = tmpWrite L (srcOf s) op y ∧ s2.sp = s.sp ∧
      (s.f.z = (s.a == 0) → s2.f.z = (s2.a == 0)) := by
  cases y with
  | of a =>
    by_cases hid : isIdentity op a = true
    · have hv := identity_apply op a L s.mem s.x s.y s.a hid
      cases op <;> simp [opCode, rIsIdentity, hid, carryOf, execSeq, Cpu.exec, rval, tmpWrite, RA.isReg, srcOf, hv]
    · have hid' : isIdentity op a = false := by simpa using hid
      have hr := rd_opd L s a
      cases op
      · simp [opCode, rIsIdentity, hid', carryOf, mainOf, withOperand, execSeq, Cpu.exec, rd_opd, rval, tmpWrite, RA.isReg, srcOf]
        refine ⟨?_, ?_⟩
        · rw [adc_after_clc _ _ (by simp)]; simp [BOp.apply]
        · simp [Cpu.adc]
      · simp [opCode, rIsIdentity, hid', carryOf, mainOf, withOperand, execSeq, Cpu.exec, rd_opd, rval, tmpWrite, RA.isReg, srcOf]
        refine ⟨?_, ?_⟩
        · rw [sbc_after_sec _ _ (by simp)]; simp [BOp.apply]
        · simp [Cpu.sbc, Cpu.adc]
      · simp [opCode, rIsIdentity, hid', carryOf, mainOf, withOperand, execSeq, Cpu.exec, rd_opd, rval, tmpWrite, RA.isReg, srcOf, BOp.apply]
      · simp [opCode, rIsIdentity, hid', carryOf, mainOf, withOperand, execSeq, Cpu.exec, rd_opd, rval, tmpWrite, RA.isReg, srcOf, BOp.apply]
      · simp [opCode, rIsIdentity, hid', carryOf, mainOf, withOperand, execSeq, Cpu.exec, rd_opd, rval, tmpWrite, RA.isReg, srcOf, BOp.apply]
  | x =>
    cases op
    · simp [opCode, rIsIdentity, carryOf, mainOf, withOperand, execSeq, Cpu.exec, rval, tmpWrite, RA.isReg, srcOf, tmp, opd, Cpu.ea, Cpu.rd]
      refine ⟨?_, ?_⟩
      · rw [adc_after_clc _ _ (by simp)]; simp [BOp.apply]
      · simp [Cpu.adc]
    · simp [opCode, rIsIdentity, carryOf, mainOf, withOperand, execSeq, Cpu.exec, rval, tmpWrite, RA.isReg, srcOf, tmp, opd, Cpu.ea, Cpu.rd]
      refine ⟨?_, ?_⟩
      · rw [sbc_after_sec _ _ (by simp)]; simp [BOp.apply]
      · simp [Cpu.sbc, Cpu.adc]
    · simp [opCode, rIsIdentity, carryOf, mainOf, withOperand, execSeq, Cpu.exec, rval, tmpWrite, RA.isReg, srcOf, tmp, opd, Cpu.ea, Cpu.rd, BOp.apply]
    · simp [opCode, rIsIdentity, carryOf, mainOf, withOperand, execSeq, Cpu.exec, rval, tmpWrite, RA.isReg, srcOf, tmp, opd, Cpu.ea, Cpu.rd, BOp.apply]
    · simp [opCode, rIsIdentity, carryOf, mainOf, withOperand, execSeq, Cpu.exec, rval, tmpWrite, RA.isReg, srcOf, tmp, opd, Cpu.ea, Cpu.rd, BOp.apply]
  | y =>
    cases op
    · simp [opCode, rIsIdentity, carryOf, mainOf, withOperand, execSeq, Cpu.exec, rval, tmpWrite, RA.isReg, srcOf, tmp, opd, Cpu.ea, Cpu.rd]
      refine ⟨?_, ?_⟩
      · rw [adc_after_clc _ _ (by simp)]; simp [BOp.apply]
      · simp [Cpu.adc]
    · simp [opCode, rIsIdentity, carryOf, mainOf, withOperand, execSeq, Cpu.exec, rval, tmpWrite, RA.isReg, srcOf, tmp, opd, Cpu.ea, Cpu.rd]
      refine ⟨?_, ?_⟩
      · rw [sbc_after_sec _ _ (by simp)]; simp [BOp.apply]
      · simp [Cpu.sbc, Cpu.adc]
    · simp [opCode, rIsIdentity, carryOf, mainOf, withOperand, execSeq, Cpu.exec, rval, tmpWrite, RA.isReg, srcOf, tmp, opd, Cpu.ea, Cpu.rd, BOp.apply]
    · simp [opCode, rIsIdentity, carryOf, mainOf, withOperand, execSeq, Cpu.exec, rval, tmpWrite, RA.isReg, srcOf, tmp, opd, Cpu.ea, Cpu.rd, BOp.apply]
    · simp [opCode, rIsIdentity, carryOf, mainOf, withOperand, execSeq, Cpu.exec, rval, tmpWrite, RA.isReg, srcOf, tmp, opd, Cpu.ea, Cpu.rd, BOp.apply]


/-- `lv := A`; when Z describes A it describes `lv` afterwards -/
theorem storeA_exec (L : Layout) (s : Cpu) (v : LV) :
    ∃ s3, execSeq s (storeA Opd.none (opd L) v) = some s3 ∧ srcOf s3 = wr L (srcOf s) v s.a ∧ s3.sp = s.sp ∧
      (s.f.z = (s.a == 0) → FlagsInv L (some v) s3) := by
  cases v with
  | var n => simp [storeA, execSeq, Cpu.exec, opd, Cpu.ea, wr, srcOf, FlagsInv]
  | x => simp [storeA, execSeq, Cpu.exec, wr, srcOf, FlagsInv]
  | y => simp [storeA, execSeq, Cpu.exec, wr, srcOf, FlagsInv]
  | el t i => cases i <;> simp [storeA, execSeq, Cpu.exec, opd, Cpu.ea, wr, srcOf, FlagsInv, elAddr]

theorem forgetMem_inv (L : Layout) (fl : Option FRef) (s s' : Cpu) (h : FlagsInv L fl s)
    (hx : s'.x = s.x) (hy : s'.y = s.y) (hf : s'.f = s.f) : FlagsInv L (forgetMem fl) s' := by
  cases fl with
  | none => trivial
  | some r =>
    cases r with
    | var n => trivial
    | el t i => trivial
    | x => simpa [forgetMem, FlagsInv, hx, hf] using h
    | y => simpa [forgetMem, FlagsInv, hy, hf] using h

/-- plain assignment -/
theorem asgCode_exec (L : Layout) (zp : String → Bool) (s : Cpu) (fl : Option FRef) (v : LV) (a : RA) (hinv : FlagsInv L fl s) :
    ∃ s', execSeq s (asgCode Opd.none (opd L) zp v a) = some s' ∧ srcOf s' = wr L (srcOf s) v (rval L (srcOf s) a) ∧
      s'.sp = s.sp ∧ FlagsInv L (asgFlags zp fl v a) s' := by
  cases v with
  | var n =>
    cases a with
    | of b =>
      have hr := rd_opd L s b
      simp [asgCode, execSeq, Cpu.exec, hr, Cpu.ea, wr, rval, srcOf, asgFlags, FlagsInv]
    | x =>
      refine ⟨{ s with mem := s.mem.write (L n) s.x }, by simp [asgCode, execSeq, Cpu.exec, opd, Cpu.ea], by simp [wr, rval, srcOf], rfl, ?_⟩
      exact forgetMem_inv L fl s _ hinv rfl rfl rfl
    | y =>
      refine ⟨{ s with mem := s.mem.write (L n) s.y }, by simp [asgCode, execSeq, Cpu.exec, opd, Cpu.ea], by simp [wr, rval, srcOf], rfl, ?_⟩
      exact forgetMem_inv L fl s _ hinv rfl rfl rfl
  | el t i =>
    cases a with
    | of b =>
      have hr := rd_opd L s b
      cases i <;> simp [asgCode, execSeq, Cpu.exec, hr, Cpu.ea, wr, rval, srcOf, asgFlags, FlagsInv, elAddr]
    | x =>
      cases i with
      | k n =>
        refine ⟨{ s with mem := s.mem.write (L t + BitVec.ofNat 16 n) s.x }, by simp [asgCode, execSeq, Cpu.exec, opd, Cpu.ea],
          by simp [wr, rval, srcOf, elAddr], rfl, ?_⟩
        exact forgetMem_inv L fl s _ hinv rfl rfl rfl
      | x => simp [asgCode, execSeq, Cpu.exec, opd, Cpu.ea, wr, rval, srcOf, asgFlags, FlagsInv, elAddr]
      | y => simp [asgCode, execSeq, Cpu.exec, opd, Cpu.ea, wr, rval, srcOf, asgFlags, FlagsInv, elAddr]
    | y =>
      cases i with
      | k n =>
        refine ⟨{ s with mem := s.mem.write (L t + BitVec.ofNat 16 n) s.y }, by simp [asgCode, execSeq, Cpu.exec, opd, Cpu.ea],
          by simp [wr, rval, srcOf, elAddr], rfl, ?_⟩
        exact forgetMem_inv L fl s _ hinv rfl rfl rfl
      | x =>
        by_cases hz : zp t = true
        · refine ⟨{ s with mem := s.mem.write (L t + s.x.zeroExtend 16) s.y }, by simp [asgCode, hz, execSeq, Cpu.exec, opd, Cpu.ea],
            by simp [wr, rval, srcOf, elAddr], rfl, ?_⟩
          simp only [asgFlags, hz, if_true]
          exact forgetMem_inv L fl s _ hinv rfl rfl rfl
        · have hz' : zp t = false := by simpa using hz
          simp [asgCode, hz', execSeq, Cpu.exec, opd, Cpu.ea, wr, rval, srcOf, asgFlags, FlagsInv, elAddr]
      | y => simp [asgCode, execSeq, Cpu.exec, opd, Cpu.ea, wr, rval, srcOf, asgFlags, FlagsInv, elAddr]
  | x =>
    cases a with
    | of b =>
      have hr := rd_opd L s b
      cases b with
      | const n => simp [asgCode, execSeq, Cpu.exec, Cpu.rd, opd, Cpu.ea, wr, rval, val, srcOf, asgFlags, FlagsInv]
      | var w => simp [asgCode, execSeq, Cpu.exec, Cpu.rd, opd, Cpu.ea, wr, rval, val, srcOf, asgFlags, FlagsInv]
      | el t i =>
        cases i <;> simp [asgCode, execSeq, Cpu.exec, Cpu.rd, opd, Cpu.ea, wr, rval, val, srcOf, asgFlags, FlagsInv, elAddr]
    | x => exact ⟨s, by simp [asgCode, execSeq], by simp [wr, rval, srcOf], rfl, by simpa [asgFlags] using hinv⟩
    | y => simp [asgCode, execSeq, Cpu.exec, wr, rval, srcOf, asgFlags, FlagsInv]
  | y =>
    cases a with
    | of b =>
      cases b with
      | const n => simp [asgCode, execSeq, Cpu.exec, Cpu.rd, opd, Cpu.ea, wr, rval, val, srcOf, asgFlags, FlagsInv]
      | var w => simp [asgCode, execSeq, Cpu.exec, Cpu.rd, opd, Cpu.ea, wr, rval, val, srcOf, asgFlags, FlagsInv]
      | el t i =>
        cases i <;> simp [asgCode, execSeq, Cpu.exec, Cpu.rd, opd, Cpu.ea, wr, rval, val, srcOf, asgFlags, FlagsInv, elAddr]
    | y => exact ⟨s, by simp [asgCode, execSeq], by simp [wr, rval, srcOf], rfl, by simpa [asgFlags] using hinv⟩
    | x => simp [asgCode, execSeq, Cpu.exec, wr, rval, srcOf, asgFlags, FlagsInv]

/-- `lv := x ∘ y` -/
theorem binCode_exec (L : Layout) (zp : String → Bool) (s : Cpu) (fl : Option FRef) (v : LV) (op : BOp) (x y : RA) (hinv : FlagsInv L fl s) :
    ∃ s', execSeq s (binCode Opd.none (opd L) zp v op x y) = some s' ∧ srcOf s' = binSpec L (srcOf s) v op x y ∧
      s'.sp = s.sp ∧ FlagsInv L (if orZeroReg op x y then asgFlags zp fl v x else some v) s' := by
  by_cases hz : orZeroReg op x y = true
  · obtain ⟨s', h1, h2, h3, h4⟩ := asgCode_exec L zp s fl v x hinv
    exact ⟨s', by simp [binCode, hz, h1], by simp [binSpec, hz, h2], h3, by simpa [hz] using h4⟩
  · have hz' : orZeroReg op x y = false := by simpa using hz
    obtain ⟨s1, e1, a1, m1, p1, z1⟩ := loadA_exec L s x
    obtain ⟨s2, e2, a2, m2, p2, z2⟩ := opCode_exec L s1 op y
    obtain ⟨s3, e3, m3, p3, z3⟩ := storeA_exec L s2 v
    refine ⟨s3, ?_, ?_, by rw [p3, p2, p1], ?_⟩
    · simp [binCode, hz', execSeq_append', e1, e2, e3]
    · rw [m3, m2, a2, a1, m1]; simp [binSpec, hz']
    · simp only [hz', Bool.false_eq_true, if_false]
      exact z3 (z2 z1)

theorem incCode_exec (L : Layout) (s : Cpu) (inc : Bool) (v : LV) :
    ∃ s', execSeq s (incCode Opd.none (opd L) inc v) = some s' ∧
      srcOf s' = wr L (srcOf s) v (if inc then rval L (srcOf s) v.ra + 1 else rval L (srcOf s) v.ra - 1) ∧
      s'.sp = s.sp ∧ FlagsInv L (some v) s' := by
  cases v with
  | var n => cases inc <;> simp [incCode, execSeq, Cpu.exec, opd, Cpu.ea, wr, rval, LV.ra, val, srcOf, FlagsInv]
  | x => cases inc <;> simp [incCode, execSeq, Cpu.exec, opd, Cpu.ea, wr, rval, LV.ra, val, srcOf, FlagsInv]
  | y => cases inc <;> simp [incCode, execSeq, Cpu.exec, opd, Cpu.ea, wr, rval, LV.ra, val, srcOf, FlagsInv]
  | el t i =>
    cases i with
    | k n => cases inc <;> simp [incCode, execSeq, Cpu.exec, opd, Cpu.ea, wr, rval, LV.ra, val, srcOf, FlagsInv, elAddr]
    | x => cases inc <;> simp [incCode, execSeq, Cpu.exec, opd, Cpu.ea, wr, rval, LV.ra, val, srcOf, FlagsInv, elAddr]
    | y =>
      obtain ⟨s1, e1, a1, m1, p1, z1⟩ := loadA_exec L s (.of (.el t .y))
      obtain ⟨s2, e2, a2, m2, p2, z2⟩ := opCode_exec L s1 (if inc then .add else .sub) (.of (.const 1))
      obtain ⟨s3, e3, m3, p3, z3⟩ := storeA_exec L s2 (.el t .y)
      refine ⟨s3, ?_, ?_, by rw [p3, p2, p1], z3 (z2 z1)⟩
      · simp only [incCode, execSeq_append', e1, Option.bind_some, e2, e3]
      · rw [m3, m2, a2, a1, m1]
        cases inc <;> simp [tmpWrite, RA.isReg, rval, val, LV.ra, BOp.apply]


/-! ### 16-bit destinations (stage 6) -/

theorem adc_a (s : Cpu) (m : Byte) : (s.adc m).a = s.a + m + (if s.f.c then 1 else 0) := by
  simp only [Cpu.adc]
  apply BitVec.eq_of_toNat_eq
  cases s.f.c <;> simp [BitVec.toNat_add]

theorem adc_c (s : Cpu) (m : Byte) : (s.adc m).f.c = decide (s.a.toNat + m.toNat + (if s.f.c then 1 else 0) ≥ 256) := by
  simp [Cpu.adc]

theorem sbc_a (s : Cpu) (m : Byte) : (s.sbc m).a = s.a - m - (if s.f.c then 0 else 1) := by
  simp only [Cpu.sbc, Cpu.adc]
  apply BitVec.eq_of_toNat_eq
  have := s.a.isLt; have := m.isLt
  cases s.f.c <;> simp [BitVec.toNat_add, BitVec.toNat_sub, BitVec.toNat_not] <;> omega

theorem sbc_c (s : Cpu) (m : Byte) : (s.sbc m).f.c = decide (m.toNat + (if s.f.c then 0 else 1) ≤ s.a.toNat) := by
  have := s.a.isLt; have := m.isLt
  cases h : s.f.c <;> simp [Cpu.sbc, Cpu.adc, h, BitVec.toNat_not] <;> omega

@[simp] theorem adc_mem (s : Cpu) (m : Byte) : (s.adc m).mem = s.mem := by simp [Cpu.adc]
@[simp] theorem adc_x (s : Cpu) (m : Byte) : (s.adc m).x = s.x := by simp [Cpu.adc]
@[simp] theorem adc_y (s : Cpu) (m : Byte) : (s.adc m).y = s.y := by simp [Cpu.adc]
@[simp] theorem adc_sp (s : Cpu) (m : Byte) : (s.adc m).sp = s.sp := by simp [Cpu.adc]
@[simp] theorem sbc_mem (s : Cpu) (m : Byte) : (s.sbc m).mem = s.mem := by simp [Cpu.sbc]
@[simp] theorem sbc_x (s : Cpu) (m : Byte) : (s.sbc m).x = s.x := by simp [Cpu.sbc]
@[simp] theorem sbc_y (s : Cpu) (m : Byte) : (s.sbc m).y = s.y := by simp [Cpu.sbc]
@[simp] theorem sbc_sp (s : Cpu) (m : Byte) : (s.sbc m).sp = s.sp := by simp [Cpu.sbc]

/-- the first byte pass: `LDA lo x ; [CLC|SEC] ; [op lo y] ; STA s` -/
theorem lowPass_exec (L : Layout) (s : Cpu) (v : String) (op : BOp) (x y : Atom) (emit : Bool)
    (hskip : emit = false → (lowRes op (val L s.mem s.x s.y x) (val L s.mem s.x s.y y)).1 = val L s.mem s.x s.y x ∧
       (op = .add → (lowRes op (val L s.mem s.x s.y x) (val L s.mem s.x s.y y)).2 = false) ∧
       (op = .sub → (lowRes op (val L s.mem s.x s.y x) (val L s.mem s.x s.y y)).2 = true)) :
    ∃ s1, execSeq s ([(Mn.LDA, opd L x)] ++ (carryOf op).map (fun m => (m, Opd.none)) ++
        (if emit then (mainOf op).map fun m => (m, opd L y) else []) ++ [(Mn.STA, opd L (.var v))]) = some s1 ∧
      s1.mem = s.mem.write (L v) (lowRes op (val L s.mem s.x s.y x) (val L s.mem s.x s.y y)).1 ∧
      s1.x = s.x ∧ s1.y = s.y ∧ s1.sp = s.sp ∧
      ((op = .add ∨ op = .sub) → s1.f.c = (lowRes op (val L s.mem s.x s.y x) (val L s.mem s.x s.y y)).2) := by
  have hx := rd_opd L s x
  cases emit with
  | true =>
    cases op
    · simp [carryOf, mainOf, execSeq, Cpu.exec, hx, rd_opd, Cpu.ea, lowRes, adc_a, adc_c]
    · simp [carryOf, mainOf, execSeq, Cpu.exec, hx, rd_opd, Cpu.ea, lowRes, sbc_a, sbc_c]
    · simp [carryOf, mainOf, execSeq, Cpu.exec, hx, rd_opd, Cpu.ea, lowRes, BOp.apply]
    · simp [carryOf, mainOf, execSeq, Cpu.exec, hx, rd_opd, Cpu.ea, lowRes, BOp.apply]
    · simp [carryOf, mainOf, execSeq, Cpu.exec, hx, rd_opd, Cpu.ea, lowRes, BOp.apply]
  | false =>
    obtain ⟨h1, h2, h3⟩ := hskip rfl
    cases op
    · simp [carryOf, execSeq, Cpu.exec, hx, Cpu.ea, h1, h2]
    · simp [carryOf, execSeq, Cpu.exec, hx, Cpu.ea, h1, h3]
    · simp [carryOf, execSeq, Cpu.exec, hx, Cpu.ea, h1]
    · simp [carryOf, execSeq, Cpu.exec, hx, Cpu.ea, h1]
    · simp [carryOf, execSeq, Cpu.exec, hx, Cpu.ea, h1]

/-- the second byte pass: `LDA hi x ; op hi y ; STA s+1`, with the carry the first pass left -/
theorem highPass_exec (L : Layout) (s : Cpu) (v : String) (op : BOp) (x y : Atom) :
    ∃ s2, execSeq s ([(Mn.LDA, opd L x)] ++ (mainOf op).map (fun m => (m, opd L y)) ++ [(Mn.STA, opd L (hiCell v))]) = some s2 ∧
      s2.mem = s.mem.write (L v + 1) (highRes op s.f.c (val L s.mem s.x s.y x) (val L s.mem s.x s.y y)) ∧
      s2.x = s.x ∧ s2.y = s.y ∧ s2.sp = s.sp := by
  have hx := rd_opd L s x
  cases op
  · simp [mainOf, execSeq, Cpu.exec, hx, rd_opd, Cpu.ea, highRes, adc_a, hiCell]
    rfl
  · simp [mainOf, execSeq, Cpu.exec, hx, rd_opd, Cpu.ea, highRes, sbc_a, hiCell]
    rfl
  · simp [mainOf, execSeq, Cpu.exec, hx, rd_opd, Cpu.ea, highRes, BOp.apply, hiCell]
  · simp [mainOf, execSeq, Cpu.exec, hx, rd_opd, Cpu.ea, highRes, BOp.apply, hiCell]
  · simp [mainOf, execSeq, Cpu.exec, hx, rd_opd, Cpu.ea, highRes, BOp.apply, hiCell]


theorem lowSkip (L : Layout) (m : Mem) (rx ry : Byte) (op : BOp) (y : WA) (a : Byte) (h : lowEmitted op y = false) :
    (lowRes op a (val L m rx ry y.lo)).1 = a ∧ (op = .add → (lowRes op a (val L m rx ry y.lo)).2 = false) ∧
      (op = .sub → (lowRes op a (val L m rx ry y.lo)).2 = true) := by
  cases y with
  | wvar t => simp [lowEmitted] at h
  | wbyte t => simp [lowEmitted] at h
  | wconst v =>
    have e255 : (255#8 : BitVec 8) = BitVec.allOnes 8 := by decide
    cases op <;> simp [lowEmitted] at h
    · simp [lowRes, WA.lo, val, h]; exact a.isLt
    · subst h; simp [lowRes, WA.lo, val]
    · simp [lowRes, WA.lo, val, h, BOp.apply]; rw [e255, BitVec.and_allOnes]
    · subst h; simp [lowRes, WA.lo, val, BOp.apply]
    · subst h; simp [lowRes, WA.lo, val, BOp.apply]

/-- `LDA a ; STA cell` -/
theorem ldaSta_exec (L : Layout) (s : Cpu) (a : Atom) (addr : Word) :
    ∃ s', execSeq s [(Mn.LDA, opd L a), (Mn.STA, Opd.mem addr)] = some s' ∧
      s'.mem = s.mem.write addr (val L s.mem s.x s.y a) ∧ s'.x = s.x ∧ s'.y = s.y ∧ s'.sp = s.sp := by
  have h1 := rd_opd L s a
  simp [execSeq, Cpu.exec, h1, Cpu.ea]

theorem asgWCode_exec (L : Layout) (s : Cpu) (v : String) (a : WA) :
    ∃ s', execSeq s (asgWCode (opd L) v a) = some s' ∧ srcOf s' = asgWSpec L (srcOf s) v a ∧ s'.sp = s.sp := by
  obtain ⟨s1, e1, m1, x1, y1, p1⟩ := ldaSta_exec L s a.lo (L v)
  obtain ⟨s2, e2, m2, x2, y2, p2⟩ := ldaSta_exec L s1 a.hi (L v + 1)
  refine ⟨s2, ?_, ?_, by rw [p2, p1]⟩
  · have : asgWCode (opd L) v a = [(Mn.LDA, opd L a.lo), (Mn.STA, Opd.mem (L v))] ++ [(Mn.LDA, opd L a.hi), (Mn.STA, Opd.mem (L v + 1))] := by
      simp [asgWCode, hiCell]
    rw [this, execSeq_append', e1]
    simpa using e2
  · simp only [srcOf, asgWSpec, wr, rval, elAddr]
    rw [m2, x2, y2, m1, x1, y1]
    rfl

theorem binWCode_exec (L : Layout) (s : Cpu) (v : String) (op : BOp) (x y : WA) :
    ∃ s', execSeq s (binWCode Opd.none (opd L) v op x y) = some s' ∧ srcOf s' = binWSpec L (srcOf s) v op x y ∧ s'.sp = s.sp := by
  by_cases hm : maskLow op x y = true
  · -- `t & 255`
    have e255 : (255#8 : BitVec 8) = BitVec.allOnes 8 := by decide
    cases x with
    | wconst n => simp [maskLow] at hm
    | wbyte b => simp [maskLow] at hm
    | wvar t =>
      simp [maskLow] at hm
      obtain ⟨ho, hy⟩ := hm
      subst ho; subst hy
      simp [binWCode, maskLow, execSeq, Cpu.exec, Cpu.rd, Cpu.ea, WA.lo, WA.hi, hiCell, binWSpec, lowRes, highRes, BOp.apply,
        wr, rval, val, srcOf, elAddr]
      rw [e255, BitVec.and_allOnes]
  · have hm' : maskLow op x y = false := by simpa using hm
    obtain ⟨s1, e1, m1, x1, y1, p1, c1⟩ := lowPass_exec L s v op x.lo y.lo (lowEmitted op y)
      (fun h => lowSkip L s.mem s.x s.y op y _ h)
    obtain ⟨s2, e2, m2, x2, y2, p2⟩ := highPass_exec L s1 v op x.hi y.hi
    refine ⟨s2, ?_, ?_, by rw [p2, p1]⟩
    · have : binWCode Opd.none (opd L) v op x y =
          ([(Mn.LDA, opd L x.lo)] ++ (carryOf op).map (fun m => (m, Opd.none)) ++
            (if lowEmitted op y then (mainOf op).map fun m => (m, opd L y.lo) else []) ++ [(Mn.STA, opd L (.var v))]) ++
          ([(Mn.LDA, opd L x.hi)] ++ (mainOf op).map (fun m => (m, opd L y.hi)) ++ [(Mn.STA, opd L (hiCell v))]) := by
        simp [binWCode, hm', List.append_assoc]
      rw [this, execSeq_append', e1]
      simpa using e2
    · have hc : s1.f.c = (lowRes op (val L s.mem s.x s.y x.lo) (val L s.mem s.x s.y y.lo)).2 ∨ (op ≠ .add ∧ op ≠ .sub) := by
        cases op
        · exact Or.inl (c1 (Or.inl rfl))
        · exact Or.inl (c1 (Or.inr rfl))
        · exact Or.inr ⟨by simp, by simp⟩
        · exact Or.inr ⟨by simp, by simp⟩
        · exact Or.inr ⟨by simp, by simp⟩
      have hh : highRes op s1.f.c = highRes op (lowRes op (val L s.mem s.x s.y x.lo) (val L s.mem s.x s.y y.lo)).2 := by
        rcases hc with h | ⟨h1, h2⟩
        · rw [h]
        · cases op
          · exact absurd rfl h1
          · exact absurd rfl h2
          · funext a b; rfl
          · funext a b; rfl
          · funext a b; rfl
      simp only [srcOf, binWSpec, wr, rval, elAddr]
      rw [m2, x2, y2, hh, m1, x1, y1]
      rfl

/-! ### chains (stage 7) -/

/-- the operators of a chain, one after the other on the accumulator -/
theorem chainCode_exec (L : Layout) (ops : List (BOp × RA)) (s : Cpu) (hz : s.f.z = (s.a == 0)) :
    ∃ s2, execSeq s (chainCode Opd.none (opd L) ops) = some s2 ∧ s2.a = (chainVal L (srcOf s) s.a ops).2 ∧
      srcOf s2 = (chainVal L (srcOf s) s.a ops).1 ∧ s2.sp = s.sp ∧ s2.f.z = (s2.a == 0) := by
  induction ops generalizing s with
  | nil => exact ⟨s, by simp [chainCode, execSeq], by simp [chainVal], by simp [chainVal], rfl, hz⟩
  | cons p rest ih =>
    obtain ⟨op, y⟩ := p
    obtain ⟨s1, e1, a1, m1, p1, z1⟩ := opCode_exec L s op y
    obtain ⟨s2, e2, a2, m2, p2, z2⟩ := ih s1 (z1 hz)
    refine ⟨s2, ?_, ?_, ?_, by rw [p2, p1], z2⟩
    · simp only [chainCode, execSeq_append', e1, Option.bind_some, e2]
    · rw [a2, m1, a1]; simp [chainVal]
    · rw [m2, m1, a1]; simp [chainVal]

theorem chainStmt_exec (L : Layout) (s : Cpu) (v : LV) (a : RA) (op1 : BOp) (b1 : RA) (ops : List (BOp × RA)) :
    ∃ s', execSeq s (loadA Opd.none (opd L) (rordered op1 a b1).1 ++ chainCode Opd.none (opd L) ((op1, (rordered op1 a b1).2) :: ops) ++
        storeA Opd.none (opd L) v) = some s' ∧
      srcOf s' = chainSpec L (srcOf s) v a op1 b1 ops ∧ s'.sp = s.sp ∧ FlagsInv L (some v) s' := by
  obtain ⟨s1, e1, a1, m1, p1, z1⟩ := loadA_exec L s (rordered op1 a b1).1
  obtain ⟨s2, e2, a2, m2, p2, z2⟩ := chainCode_exec L ((op1, (rordered op1 a b1).2) :: ops) s1 z1
  obtain ⟨s3, e3, m3, p3, z3⟩ := storeA_exec L s2 v
  refine ⟨s3, ?_, ?_, by rw [p3, p2, p1], z3 z2⟩
  · simp only [execSeq_append', e1, Option.bind_some, e2, e3]
  · rw [m3, m2, a2, a1, m1]; rfl

/-! ### linear expressions (stage 8) -/

/-- `STA cctmp ; <load x> ; SEC ; SBC cctmp`: x − (the value that was in A) -/
theorem subFrom_exec (L : Layout) (s : Cpu) (x : RA) :
    ∃ s2, execSeq s ([(Mn.STA, opd L tmp)] ++ loadA Opd.none (opd L) x ++ [(Mn.SEC, Opd.none), (Mn.SBC, opd L tmp)]) = some s2 ∧
      s2.a = rval L { mem := s.mem.write (L "cctmp") s.a, x := s.x, y := s.y } x - s.a ∧
      srcOf s2 = { mem := s.mem.write (L "cctmp") s.a, x := s.x, y := s.y } ∧ s2.sp = s.sp ∧ s2.f.z = (s2.a == 0) := by
  obtain ⟨s1, e1, a1, m1, p1, _⟩ := loadA_exec L { s with mem := s.mem.write (L "cctmp") s.a } x
  have hm : s1.mem = s.mem.write (L "cctmp") s.a := congrArg SrcSt.mem m1
  have hx : s1.x = s.x := congrArg SrcSt.x m1
  have hy : s1.y = s.y := congrArg SrcSt.y m1
  have hrd : ({ s1 with f := { s1.f with c := true } } : Cpu).rd (opd L tmp) = some s.a := by
    simp [tmp, opd, Cpu.rd, Cpu.ea, hm]
  refine ⟨({ s1 with f := { s1.f with c := true } } : Cpu).sbc s.a, ?_, ?_, ?_, ?_, ?_⟩
  · have h0 : execSeq s [(Mn.STA, opd L tmp)] = some { s with mem := s.mem.write (L "cctmp") s.a } := by
      simp [execSeq, Cpu.exec, tmp, opd, Cpu.ea]
    rw [execSeq_append', execSeq_append', h0]
    simp only [Option.bind_some, e1]
    simp [execSeq, Cpu.exec, hrd]
  · rw [sbc_after_sec _ _ (by simp)]
    simp only [a1, srcOf]
  · simp [srcOf, hm, hx, hy]
  · simp [p1]
  · simp [Cpu.sbc, Cpu.adc]

theorem linCode_exec (L : Layout) (e : LExpr) (s : Cpu) :
    ∃ s2, execSeq s (linCode Opd.none (opd L) e) = some s2 ∧ s2.a = (linVal L (srcOf s) e).2 ∧
      srcOf s2 = (linVal L (srcOf s) e).1 ∧ s2.sp = s.sp ∧ s2.f.z = (s2.a == 0) := by
  induction e generalizing s with
  | pair a op b =>
    obtain ⟨s1, e1, a1, m1, p1, z1⟩ := loadA_exec L s (rordered op a b).1
    obtain ⟨s2, e2, a2, m2, p2, z2⟩ := opCode_exec L s1 op (rordered op a b).2
    refine ⟨s2, ?_, ?_, ?_, by rw [p2, p1], z2 z1⟩
    · simp only [linCode, execSeq_append', e1, Option.bind_some, e2]
    · rw [a2, a1, m1]; simp [linVal]
    · rw [m2, m1]; simp [linVal]
  | left e op y ih =>
    obtain ⟨s1, e1, a1, m1, p1, z1⟩ := ih s
    obtain ⟨s2, e2, a2, m2, p2, z2⟩ := opCode_exec L s1 op y
    refine ⟨s2, ?_, ?_, ?_, by rw [p2, p1], z2 z1⟩
    · simp only [linCode, execSeq_append', e1, Option.bind_some, e2]
    · rw [a2, a1, m1]; simp [linVal]
    · rw [m2, m1]; simp [linVal]
  | right x op e ih =>
    obtain ⟨s1, e1, a1, m1, p1, z1⟩ := ih s
    by_cases hs : op = .sub
    · subst hs
      obtain ⟨s2, e2, a2, m2, p2, z2⟩ := subFrom_exec L s1 x
      have hm : s1.mem = (linVal L (srcOf s) e).1.mem := congrArg SrcSt.mem m1
      have hx : s1.x = (linVal L (srcOf s) e).1.x := congrArg SrcSt.x m1
      have hy : s1.y = (linVal L (srcOf s) e).1.y := congrArg SrcSt.y m1
      refine ⟨s2, ?_, ?_, ?_, by rw [p2, p1], z2⟩
      · simp only [linCode, execSeq_append', e1, Option.bind_some]
        simpa using e2
      · rw [a2, a1, hm, hx, hy]; simp [linVal]
      · rw [m2, a1, hm, hx, hy]; simp [linVal]
    · obtain ⟨s2, e2, a2, m2, p2, z2⟩ := opCode_exec L s1 op x
      have hne : (op == BOp.sub) = false := by cases op <;> simp_all
      refine ⟨s2, ?_, ?_, ?_, by rw [p2, p1], z2 z1⟩
      · simp only [linCode, hne, execSeq_append', e1, Option.bind_some]
        simpa using e2
      · rw [a2, a1, m1]; simp [linVal, hne]
      · rw [m2, m1]; simp [linVal, hne]

theorem linStmt_exec (L : Layout) (s : Cpu) (v : LV) (e : LExpr) :
    ∃ s', execSeq s (linCode Opd.none (opd L) e ++ storeA Opd.none (opd L) v) = some s' ∧
      srcOf s' = wr L (linVal L (srcOf s) e).1 v (linVal L (srcOf s) e).2 ∧ s'.sp = s.sp ∧ FlagsInv L (some v) s' := by
  obtain ⟨s2, e2, a2, m2, p2, z2⟩ := linCode_exec L e s
  obtain ⟨s3, e3, m3, p3, z3⟩ := storeA_exec L s2 v
  refine ⟨s3, ?_, ?_, by rw [p3, p2], z3 z2⟩
  · simp only [execSeq_append', e2, Option.bind_some, e3]
  · rw [m3, m2, a2]

/-- every statement, every layout, every machine state: the code ends, memory / X / Y are what the source
    prescribes, SP is untouched, and the generator's belief about the flags is true afterwards -/
theorem rflat_correct (L : Layout) (zp : String → Bool) (st : RStmt) (fl : Option FRef) (s : Cpu) (hinv : FlagsInv L fl s) :
    ∃ s', execSeq s (rgenOps L zp st) = some s' ∧ srcOf s' = rspec L (srcOf s) st ∧ s'.sp = s.sp ∧
      FlagsInv L (flagsAfter zp fl st) s' := by
  cases st with
  | asg v a => simpa [rgenOps, rtemplate, rspec, flagsAfter] using asgCode_exec L zp s fl v a hinv
  | bin v op a b => simpa [rgenOps, rtemplate, rspec, flagsAfter] using binCode_exec L zp s fl v op (rordered op a b).1 (rordered op a b).2 hinv
  | opasg v op a => simpa [rgenOps, rtemplate, rspec, flagsAfter] using binCode_exec L zp s fl v op v.ra a hinv
  | inc v => simpa [rgenOps, rtemplate, rspec, flagsAfter] using incCode_exec L s true v
  | dec v => simpa [rgenOps, rtemplate, rspec, flagsAfter] using incCode_exec L s false v
  | lin v e =>
    obtain ⟨s', h1, h2, h3, h4⟩ := linStmt_exec L s v e
    exact ⟨s', by simpa [rgenOps, rtemplate] using h1, by simpa [rspec] using h2, h3, by simpa [flagsAfter] using h4⟩
  | chain v a op1 b1 ops =>
    obtain ⟨s', h1, h2, h3, h4⟩ := chainStmt_exec L s v a op1 b1 ops
    exact ⟨s', by simpa [rgenOps, rtemplate] using h1, by simpa [rspec] using h2, h3, by simpa [flagsAfter] using h4⟩
  | asgW v a =>
    obtain ⟨s', h1, h2, h3⟩ := asgWCode_exec L s v a
    exact ⟨s', by simpa [rgenOps, rtemplate] using h1, by simpa [rspec] using h2, h3, by simp [flagsAfter]⟩
  | binW v op a b =>
    obtain ⟨s', h1, h2, h3⟩ := binWCode_exec L s v op (wordered op a b).1 (wordered op a b).2
    exact ⟨s', by simpa [rgenOps, rtemplate] using h1, by simpa [rspec] using h2, h3, by simp [flagsAfter]⟩
  | opasgW v op a =>
    obtain ⟨s', h1, h2, h3⟩ := binWCode_exec L s v op (.wvar v) a
    exact ⟨s', by simpa [rgenOps, rtemplate] using h1, by simpa [rspec] using h2, h3, by simp [flagsAfter]⟩

end CV.GenReg
