/-
  Lemmas about the straight-line templates with register variables (CV.GenReg): every statement's code
  ends and leaves exactly the memory, X and Y the source prescribes (including the scratch write), and the
  generator's belief about the flags afterwards is true.
-/
import CV.GenReg
import CV.Proofs.GenFlatLemmas
set_option linter.unusedSimpArgs false
set_option linter.unusedVariables false
set_option linter.constructorNameAsVariable false
namespace CV.GenReg
open CV CV.GenFlat

/-- the source-visible part of a machine state -/
def srcOf (s : Cpu) : SrcSt := { mem := s.mem, x := s.x, y := s.y, sp := s.sp }

@[simp] theorem srcOf_mem (s : Cpu) : (srcOf s).mem = s.mem := rfl
@[simp] theorem srcOf_x (s : Cpu) : (srcOf s).x = s.x := rfl
@[simp] theorem srcOf_y (s : Cpu) : (srcOf s).y = s.y := rfl
@[simp] theorem srcOf_sp (s : Cpu) : (srcOf s).sp = s.sp := rfl

/-- what the generator's flag belief claims about a machine state -/
def FlagsInv (L : Layout) (fl : Option FRef) (s : Cpu) : Prop :=
  match fl with
  | none => True
  | some (.var v) => s.f.z = (s.mem.read (L v) == 0)
  | some .x => s.f.z = (s.x == 0)
  | some .y => s.f.z = (s.y == 0)
  | some (.el t i) => s.f.z = (s.mem.read (elAddr L s.x s.y t i) == 0)

@[simp] theorem flagsInv_none (L : Layout) (s : Cpu) : FlagsInv L none s := trivial

theorem execSeq_append' (s : Cpu) (xs ys : List (Mn × Opd)) :
    execSeq s (xs ++ ys) = (execSeq s xs).bind fun s' => execSeq s' ys := execSeq_append s xs ys

/-- `A := value of x`, Z describes A -/
theorem loadA_exec (L : Layout) (s : Cpu) (x : RA) :
    ∃ s1, execSeq s (loadA Opd.none (opd L) x) = some s1 ∧ s1.a = rval L (srcOf s) x ∧ srcOf s1 = srcOf s ∧
      s1.sp = s.sp ∧ s1.f.z = (s1.a == 0) := by
  cases x with
  | of a =>
    have := rd_opd L s a
    simp [loadA, execSeq, Cpu.exec, this, rval, srcOf]
  | x => simp [loadA, execSeq, Cpu.exec, rval, srcOf]
  | y => simp [loadA, execSeq, Cpu.exec, rval, srcOf]


theorem rd_tmp_after_write (L : Layout) (s : Cpu) (b : Byte) :
    ({ s with mem := s.mem.write (L "cctmp") b } : Cpu).rd (opd L tmp) = some b := by
  simp [tmp, opd, Cpu.rd, Cpu.ea]

/-- `A := A ∘ value of y` (through the scratch cell for a register operand); Z follows A -/
theorem opCode_exec (L : Layout) (s : Cpu) (op : BOp) (y : RA) :
    ∃ s2, execSeq s (opCode Opd.none (opd L) op y) = some s2 ∧
      s2.a = op.apply s.a (rval L (srcOf s) y) ∧ srcOf s2 = tmpWrite L (srcOf s) op y ∧ s2.sp = s.sp ∧
      (s.f.z = (s.a == 0) → s2.f.z = (s2.a == 0)) := by
  cases y with
  | of a =>
    by_cases hid : isIdentity op a = true
    · have hv := identity_apply op a L s.mem s.x s.y s.a hid
      cases op <;> simp [opCode, rIsIdentity, hid, carryOf, execSeq, Cpu.exec, rval, tmpWrite, RA.isReg, srcOf, hv]
    · have hid' : isIdentity op a = false := by simpa using hid
      have hr := rd_opd L s a
      cases op
      · simp [opCode, rIsIdentity, hid', carryOf, mainOf, withOperand, execSeq, Cpu.exec, rd_opd, rval, tmpWrite, RA.isReg, srcOf]
        refine ⟨?_, ?_⟩
        · rw [adc_after_clc _ _ (by simp)]; simp [BOp.apply]
        · simp [Cpu.adc]
      · simp [opCode, rIsIdentity, hid', carryOf, mainOf, withOperand, execSeq, Cpu.exec, rd_opd, rval, tmpWrite, RA.isReg, srcOf]
        refine ⟨?_, ?_⟩
        · rw [sbc_after_sec _ _ (by simp)]; simp [BOp.apply]
        · simp [Cpu.sbc, Cpu.adc]
      · simp [opCode, rIsIdentity, hid', carryOf, mainOf, withOperand, execSeq, Cpu.exec, rd_opd, rval, tmpWrite, RA.isReg, srcOf, BOp.apply]
      · simp [opCode, rIsIdentity, hid', carryOf, mainOf, withOperand, execSeq, Cpu.exec, rd_opd, rval, tmpWrite, RA.isReg, srcOf, BOp.apply]
      · simp [opCode, rIsIdentity, hid', carryOf, mainOf, withOperand, execSeq, Cpu.exec, rd_opd, rval, tmpWrite, RA.isReg, srcOf, BOp.apply]
  | x =>
    cases op
    · simp [opCode, rIsIdentity, carryOf, mainOf, withOperand, execSeq, Cpu.exec, rval, tmpWrite, RA.isReg, srcOf, tmp, opd, Cpu.ea, Cpu.rd]
      refine ⟨?_, ?_⟩
      · rw [adc_after_clc _ _ (by simp)]; simp [BOp.apply]
      · simp [Cpu.adc]
    · simp [opCode, rIsIdentity, carryOf, mainOf, withOperand, execSeq, Cpu.exec, rval, tmpWrite, RA.isReg, srcOf, tmp, opd, Cpu.ea, Cpu.rd]
      refine ⟨?_, ?_⟩
      · rw [sbc_after_sec _ _ (by simp)]; simp [BOp.apply]
      · simp [Cpu.sbc, Cpu.adc]
    · simp [opCode, rIsIdentity, carryOf, mainOf, withOperand, execSeq, Cpu.exec, rval, tmpWrite, RA.isReg, srcOf, tmp, opd, Cpu.ea, Cpu.rd, BOp.apply]
    · simp [opCode, rIsIdentity, carryOf, mainOf, withOperand, execSeq, Cpu.exec, rval, tmpWrite, RA.isReg, srcOf, tmp, opd, Cpu.ea, Cpu.rd, BOp.apply]
    · simp [opCode, rIsIdentity, carryOf, mainOf, withOperand, execSeq, Cpu.exec, rval, tmpWrite, RA.isReg, srcOf, tmp, opd, Cpu.ea, Cpu.rd, BOp.apply]
  | y =>
    cases op
    · simp [opCode, rIsIdentity, carryOf, mainOf, withOperand, execSeq, Cpu.exec, rval, tmpWrite, RA.isReg, srcOf, tmp, opd, Cpu.ea, Cpu.rd]
      refine ⟨?_, ?_⟩
      · rw [adc_after_clc _ _ (by simp)]; simp [BOp.apply]
      · simp [Cpu.adc]
    · simp [opCode, rIsIdentity, carryOf, mainOf, withOperand, execSeq, Cpu.exec, rval, tmpWrite, RA.isReg, srcOf, tmp, opd, Cpu.ea, Cpu.rd]
      refine ⟨?_, ?_⟩
      · rw [sbc_after_sec _ _ (by simp)]; simp [BOp.apply]
      · simp [Cpu.sbc, Cpu.adc]
    · simp [opCode, rIsIdentity, carryOf, mainOf, withOperand, execSeq, Cpu.exec, rval, tmpWrite, RA.isReg, srcOf, tmp, opd, Cpu.ea, Cpu.rd, BOp.apply]
    · simp [opCode, rIsIdentity, carryOf, mainOf, withOperand, execSeq, Cpu.exec, rval, tmpWrite, RA.isReg, srcOf, tmp, opd, Cpu.ea, Cpu.rd, BOp.apply]
    · simp [opCode, rIsIdentity, carryOf, mainOf, withOperand, execSeq, Cpu.exec, rval, tmpWrite, RA.isReg, srcOf, tmp, opd, Cpu.ea, Cpu.rd, BOp.apply]


/-- `lv := A`; when Z describes A it describes `lv` afterwards -/
theorem storeA_exec (L : Layout) (s : Cpu) (v : LV) :
    ∃ s3, execSeq s (storeA Opd.none (opd L) v) = some s3 ∧ srcOf s3 = wr L (srcOf s) v s.a ∧ s3.sp = s.sp ∧
      (s.f.z = (s.a == 0) → FlagsInv L (some v) s3) := by
  cases v with
  | var n => simp [storeA, execSeq, Cpu.exec, opd, Cpu.ea, wr, srcOf, FlagsInv]
  | x => simp [storeA, execSeq, Cpu.exec, wr, srcOf, FlagsInv]
  | y => simp [storeA, execSeq, Cpu.exec, wr, srcOf, FlagsInv]
  | el t i => cases i <;> simp [storeA, execSeq, Cpu.exec, opd, Cpu.ea, wr, srcOf, FlagsInv, elAddr]

theorem forgetMem_inv (L : Layout) (fl : Option FRef) (s s' : Cpu) (h : FlagsInv L fl s)
    (hx : s'.x = s.x) (hy : s'.y = s.y) (hf : s'.f = s.f) : FlagsInv L (forgetMem fl) s' := by
  cases fl with
  | none => trivial
  | some r =>
    cases r with
    | var n => trivial
    | el t i => trivial
    | x => simpa [forgetMem, FlagsInv, hx, hf] using h
    | y => simpa [forgetMem, FlagsInv, hy, hf] using h

/-- plain assignment -/
theorem asgCode_exec (L : Layout) (zp : String → Bool) (s : Cpu) (fl : Option FRef) (v : LV) (a : RA) (hinv : FlagsInv L fl s) :
    ∃ s', execSeq s (asgCode Opd.none (opd L) zp v a) = some s' ∧ srcOf s' = wr L (srcOf s) v (rval L (srcOf s) a) ∧
      s'.sp = s.sp ∧ FlagsInv L (asgFlags zp fl v a) s' := by
  cases v with
  | var n =>
    cases a with
    | of b =>
      have hr := rd_opd L s b
      simp [asgCode, execSeq, Cpu.exec, hr, Cpu.ea, wr, rval, srcOf, asgFlags, FlagsInv]
    | x =>
      refine ⟨{ s with mem := s.mem.write (L n) s.x }, by simp [asgCode, execSeq, Cpu.exec, opd, Cpu.ea], by simp [wr, rval, srcOf], rfl, ?_⟩
      exact forgetMem_inv L fl s _ hinv rfl rfl rfl
    | y =>
      refine ⟨{ s with mem := s.mem.write (L n) s.y }, by simp [asgCode, execSeq, Cpu.exec, opd, Cpu.ea], by simp [wr, rval, srcOf], rfl, ?_⟩
      exact forgetMem_inv L fl s _ hinv rfl rfl rfl
  | el t i =>
    cases a with
    | of b =>
      have hr := rd_opd L s b
      cases i <;> simp [asgCode, execSeq, Cpu.exec, hr, Cpu.ea, wr, rval, srcOf, asgFlags, FlagsInv, elAddr]
    | x =>
      cases i with
      | k n =>
        refine ⟨{ s with mem := s.mem.write (L t + BitVec.ofNat 16 n) s.x }, by simp [asgCode, execSeq, Cpu.exec, opd, Cpu.ea],
          by simp [wr, rval, srcOf, elAddr], rfl, ?_⟩
        exact forgetMem_inv L fl s _ hinv rfl rfl rfl
      | x => simp [asgCode, execSeq, Cpu.exec, opd, Cpu.ea, wr, rval, srcOf, asgFlags, FlagsInv, elAddr]
      | y => simp [asgCode, execSeq, Cpu.exec, opd, Cpu.ea, wr, rval, srcOf, asgFlags, FlagsInv, elAddr]
    | y =>
      cases i with
      | k n =>
        refine ⟨{ s with mem := s.mem.write (L t + BitVec.ofNat 16 n) s.y }, by simp [asgCode, execSeq, Cpu.exec, opd, Cpu.ea],
          by simp [wr, rval, srcOf, elAddr], rfl, ?_⟩
        exact forgetMem_inv L fl s _ hinv rfl rfl rfl
      | x =>
        by_cases hz : zp t = true
        · refine ⟨{ s with mem := s.mem.write (L t + s.x.zeroExtend 16) s.y }, by simp [asgCode, hz, execSeq, Cpu.exec, opd, Cpu.ea],
            by simp [wr, rval, srcOf, elAddr], rfl, ?_⟩
          simp only [asgFlags, hz, if_true]
          exact forgetMem_inv L fl s _ hinv rfl rfl rfl
        · have hz' : zp t = false := by simpa using hz
          simp [asgCode, hz', execSeq, Cpu.exec, opd, Cpu.ea, wr, rval, srcOf, asgFlags, FlagsInv, elAddr]
      | y => simp [asgCode, execSeq, Cpu.exec, opd, Cpu.ea, wr, rval, srcOf, asgFlags, FlagsInv, elAddr]
  | x =>
    cases a with
    | of b =>
      have hr := rd_opd L s b
      cases b with
      | const n => simp [asgCode, execSeq, Cpu.exec, Cpu.rd, opd, Cpu.ea, wr, rval, val, srcOf, asgFlags, FlagsInv]
      | var w => simp [asgCode, execSeq, Cpu.exec, Cpu.rd, opd, Cpu.ea, wr, rval, val, srcOf, asgFlags, FlagsInv]
      | el t i =>
        cases i <;> simp [asgCode, execSeq, Cpu.exec, Cpu.rd, opd, Cpu.ea, wr, rval, val, srcOf, asgFlags, FlagsInv, elAddr]
    | x => exact ⟨s, by simp [asgCode, execSeq], by simp [wr, rval, srcOf], rfl, by simpa [asgFlags] using hinv⟩
    | y => simp [asgCode, execSeq, Cpu.exec, wr, rval, srcOf, asgFlags, FlagsInv]
  | y =>
    cases a with
    | of b =>
      cases b with
      | const n => simp [asgCode, execSeq, Cpu.exec, Cpu.rd, opd, Cpu.ea, wr, rval, val, srcOf, asgFlags, FlagsInv]
      | var w => simp [asgCode, execSeq, Cpu.exec, Cpu.rd, opd, Cpu.ea, wr, rval, val, srcOf, asgFlags, FlagsInv]
      | el t i =>
        cases i <;> simp [asgCode, execSeq, Cpu.exec, Cpu.rd, opd, Cpu.ea, wr, rval, val, srcOf, asgFlags, FlagsInv, elAddr]
    | y => exact ⟨s, by simp [asgCode, execSeq], by simp [wr, rval, srcOf], rfl, by simpa [asgFlags] using hinv⟩
    | x => simp [asgCode, execSeq, Cpu.exec, wr, rval, srcOf, asgFlags, FlagsInv]

/-- `lv := x ∘ y` -/
theorem binCode_exec (L : Layout) (zp : String → Bool) (s : Cpu) (fl : Option FRef) (v : LV) (op : BOp) (x y : RA) (hinv : FlagsInv L fl s) :
    ∃ s', execSeq s (binCode Opd.none (opd L) zp v op x y) = some s' ∧ srcOf s' = binSpec L (srcOf s) v op x y ∧
      s'.sp = s.sp ∧ FlagsInv L (if orZeroReg op x y then asgFlags zp fl v x else some v) s' := by
  by_cases hz : orZeroReg op x y = true
  · obtain ⟨s', h1, h2, h3, h4⟩ := asgCode_exec L zp s fl v x hinv
    exact ⟨s', by simp [binCode, hz, h1], by simp [binSpec, hz, h2], h3, by simpa [hz] using h4⟩
  · have hz' : orZeroReg op x y = false := by simpa using hz
    obtain ⟨s1, e1, a1, m1, p1, z1⟩ := loadA_exec L s x
    obtain ⟨s2, e2, a2, m2, p2, z2⟩ := opCode_exec L s1 op y
    obtain ⟨s3, e3, m3, p3, z3⟩ := storeA_exec L s2 v
    refine ⟨s3, ?_, ?_, by rw [p3, p2, p1], ?_⟩
    · simp [binCode, hz', execSeq_append', e1, e2, e3]
    · rw [m3, m2, a2, a1, m1]; simp [binSpec, hz']
    · simp only [hz', Bool.false_eq_true, if_false]
      exact z3 (z2 z1)

theorem incCode_exec (L : Layout) (s : Cpu) (inc : Bool) (v : LV) :
    ∃ s', execSeq s (incCode Opd.none (opd L) inc v) = some s' ∧
      srcOf s' = wr L (srcOf s) v (if inc then rval L (srcOf s) v.ra + 1 else rval L (srcOf s) v.ra - 1) ∧
      s'.sp = s.sp ∧ FlagsInv L (some v) s' := by
  cases v with
  | var n => cases inc <;> simp [incCode, execSeq, Cpu.exec, opd, Cpu.ea, wr, rval, LV.ra, val, srcOf, FlagsInv]
  | x => cases inc <;> simp [incCode, execSeq, Cpu.exec, opd, Cpu.ea, wr, rval, LV.ra, val, srcOf, FlagsInv]
  | y => cases inc <;> simp [incCode, execSeq, Cpu.exec, opd, Cpu.ea, wr, rval, LV.ra, val, srcOf, FlagsInv]
  | el t i =>
    cases i with
    | k n => cases inc <;> simp [incCode, execSeq, Cpu.exec, opd, Cpu.ea, wr, rval, LV.ra, val, srcOf, FlagsInv, elAddr]
    | x => cases inc <;> simp [incCode, execSeq, Cpu.exec, opd, Cpu.ea, wr, rval, LV.ra, val, srcOf, FlagsInv, elAddr]
    | y =>
      obtain ⟨s1, e1, a1, m1, p1, z1⟩ := loadA_exec L s (.of (.el t .y))
      obtain ⟨s2, e2, a2, m2, p2, z2⟩ := opCode_exec L s1 (if inc then .add else .sub) (.of (.const 1))
      obtain ⟨s3, e3, m3, p3, z3⟩ := storeA_exec L s2 (.el t .y)
      refine ⟨s3, ?_, ?_, by rw [p3, p2, p1], z3 (z2 z1)⟩
      · simp only [incCode, execSeq_append', e1, Option.bind_some, e2, e3]
      · rw [m3, m2, a2, a1, m1]
        cases inc <;> simp [tmpWrite, RA.isReg, rval, val, LV.ra, BOp.apply]


/-! ### 16-bit destinations (stage 6) -/

theorem adc_a (s : Cpu) (m : Byte) : (s.adc m).a = s.a + m + (if s.f.c then 1 else 0) := by
  simp only [Cpu.adc]
  apply BitVec.eq_of_toNat_eq
  cases s.f.c <;> simp [BitVec.toNat_add]

theorem adc_c (s : Cpu) (m : Byte) : (s.adc m).f.c = decide (s.a.toNat + m.toNat + (if s.f.c then 1 else 0) ≥ 256) := by
  simp [Cpu.adc]

theorem sbc_a (s : Cpu) (m : Byte) : (s.sbc m).a = s.a - m - (if s.f.c then 0 else 1) := by
  simp only [Cpu.sbc, Cpu.adc]
  apply BitVec.eq_of_toNat_eq
  have := s.a.isLt; have := m.isLt
  cases s.f.c <;> simp [BitVec.toNat_add, BitVec.toNat_sub, BitVec.toNat_not] <;> omega

theorem sbc_c (s : Cpu) (m : Byte) : (s.sbc m).f.c = decide (m.toNat + (if s.f.c then 0 else 1) ≤ s.a.toNat) := by
  have := s.a.isLt; have := m.isLt
  cases h : s.f.c <;> simp [Cpu.sbc, Cpu.adc, h, BitVec.toNat_not] <;> omega

@[simp] theorem adc_mem (s : Cpu) (m : Byte) : (s.adc m).mem = s.mem := by simp [Cpu.adc]
@[simp] theorem adc_x (s : Cpu) (m : Byte) : (s.adc m).x = s.x := by simp [Cpu.adc]
@[simp] theorem adc_y (s : Cpu) (m : Byte) : (s.adc m).y = s.y := by simp [Cpu.adc]
@[simp] theorem adc_sp (s : Cpu) (m : Byte) : (s.adc m).sp = s.sp := by simp [Cpu.adc]
@[simp] theorem sbc_mem (s : Cpu) (m : Byte) : (s.sbc m).mem = s.mem := by simp [Cpu.sbc]
@[simp] theorem sbc_x (s : Cpu) (m : Byte) : (s.sbc m).x = s.x := by simp [Cpu.sbc]
@[simp] theorem sbc_y (s : Cpu) (m : Byte) : (s.sbc m).y = s.y := by simp [Cpu.sbc]
@[simp] theorem sbc_sp (s : Cpu) (m : Byte) : (s.sbc m).sp = s.sp := by simp [Cpu.sbc]

/-- the first byte pass: `LDA lo x ; [CLC|SEC] ; [op lo y] ; STA s` -/
theorem lowPass_exec (L : Layout) (s : Cpu) (v : String) (op : BOp) (x y : Atom) (emit : Bool)
    (hskip : emit = false → (lowRes op (val L s.mem s.x s.y x) (val L s.mem s.x s.y y)).1 = val L s.mem s.x s.y x ∧
       (op = .add → (lowRes op (val L s.mem s.x s.y x) (val L s.mem s.x s.y y)).2 = false) ∧
       (op = .sub → (lowRes op (val L s.mem s.x s.y x) (val L s.mem s.x s.y y)).2 = true)) :
    ∃ s1, execSeq s ([(Mn.LDA, opd L x)] ++ (carryOf op).map (fun m => (m, Opd.none)) ++
        (if emit then (mainOf op).map fun m => (m, opd L y) else []) ++ [(Mn.STA, opd L (.var v))]) = some s1 ∧
      s1.mem = s.mem.write (L v) (lowRes op (val L s.mem s.x s.y x) (val L s.mem s.x s.y y)).1 ∧
      s1.x = s.x ∧ s1.y = s.y ∧ s1.sp = s.sp ∧
      ((op = .add ∨ op = .sub) → s1.f.c = (lowRes op (val L s.mem s.x s.y x) (val L s.mem s.x s.y y)).2) := by
  have hx := rd_opd L s x
  cases emit with
  | true =>
    cases op
    · simp [carryOf, mainOf, execSeq, Cpu.exec, hx, rd_opd, Cpu.ea, lowRes, adc_a, adc_c]
    · simp [carryOf, mainOf, execSeq, Cpu.exec, hx, rd_opd, Cpu.ea, lowRes, sbc_a, sbc_c]
    · simp [carryOf, mainOf, execSeq, Cpu.exec, hx, rd_opd, Cpu.ea, lowRes, BOp.apply]
    · simp [carryOf, mainOf, execSeq, Cpu.exec, hx, rd_opd, Cpu.ea, lowRes, BOp.apply]
    · simp [carryOf, mainOf, execSeq, Cpu.exec, hx, rd_opd, Cpu.ea, lowRes, BOp.apply]
  | false =>
    obtain ⟨h1, h2, h3⟩ := hskip rfl
    cases op
    · simp [carryOf, execSeq, Cpu.exec, hx, Cpu.ea, h1, h2]
    · simp [carryOf, execSeq, Cpu.exec, hx, Cpu.ea, h1, h3]
    · simp [carryOf, execSeq, Cpu.exec, hx, Cpu.ea, h1]
    · simp [carryOf, execSeq, Cpu.exec, hx, Cpu.ea, h1]
    · simp [carryOf, execSeq, Cpu.exec, hx, Cpu.ea, h1]

/-- the second byte pass: `LDA hi x ; op hi y ; STA s+1`, with the carry the first pass left -/
theorem highPass_exec (L : Layout) (s : Cpu) (v : String) (op : BOp) (x y : Atom) :
    ∃ s2, execSeq s ([(Mn.LDA, opd L x)] ++ (mainOf op).map (fun m => (m, opd L y)) ++ [(Mn.STA, opd L (hiCell v))]) = some s2 ∧
      s2.mem = s.mem.write (L v + 1) (highRes op s.f.c (val L s.mem s.x s.y x) (val L s.mem s.x s.y y)) ∧
      s2.x = s.x ∧ s2.y = s.y ∧ s2.sp = s.sp := by
  have hx := rd_opd L s x
  cases op
  · simp [mainOf, execSeq, Cpu.exec, hx, rd_opd, Cpu.ea, highRes, adc_a, hiCell]
    rfl
  · simp [mainOf, execSeq, Cpu.exec, hx, rd_opd, Cpu.ea, highRes, sbc_a, hiCell]
    rfl
  · simp [mainOf, execSeq, Cpu.exec, hx, rd_opd, Cpu.ea, highRes, BOp.apply, hiCell]
  · simp [mainOf, execSeq, Cpu.exec, hx, rd_opd, Cpu.ea, highRes, BOp.apply, hiCell]
  · simp [mainOf, execSeq, Cpu.exec, hx, rd_opd, Cpu.ea, highRes, BOp.apply, hiCell]


theorem lowSkip (L : Layout) (m : Mem) (rx ry : Byte) (op : BOp) (y : WA) (a : Byte) (h : lowEmitted op y = false) :
    (lowRes op a (val L m rx ry y.lo)).1 = a ∧ (op = .add → (lowRes op a (val L m rx ry y.lo)).2 = false) ∧
      (op = .sub → (lowRes op a (val L m rx ry y.lo)).2 = true) := by
  cases y with
  | wvar t => simp [lowEmitted] at h
  | wbyte t => simp [lowEmitted] at h
  | wconst v =>
    have e255 : (255#8 : BitVec 8) = BitVec.allOnes 8 := by decide
    cases op <;> simp [lowEmitted] at h
    · simp [lowRes, WA.lo, val, h]; exact a.isLt
    · subst h; simp [lowRes, WA.lo, val]
    · simp [lowRes, WA.lo, val, h, BOp.apply]; rw [e255, BitVec.and_allOnes]
    · subst h; simp [lowRes, WA.lo, val, BOp.apply]
    · subst h; simp [lowRes, WA.lo, val, BOp.apply]

/-- `LDA a ; STA cell` -/
theorem ldaSta_exec (L : Layout) (s : Cpu) (a : Atom) (addr : Word) :
    ∃ s', execSeq s [(Mn.LDA, opd L a), (Mn.STA, Opd.mem addr)] = some s' ∧
      s'.mem = s.mem.write addr (val L s.mem s.x s.y a) ∧ s'.x = s.x ∧ s'.y = s.y ∧ s'.sp = s.sp := by
  have h1 := rd_opd L s a
  simp [execSeq, Cpu.exec, h1, Cpu.ea]

theorem asgWCode_exec (L : Layout) (s : Cpu) (v : String) (a : WA) :
    ∃ s', execSeq s (asgWCode (opd L) v a) = some s' ∧ srcOf s' = asgWSpec L (srcOf s) v a ∧ s'.sp = s.sp := by
  obtain ⟨s1, e1, m1, x1, y1, p1⟩ := ldaSta_exec L s a.lo (L v)
  obtain ⟨s2, e2, m2, x2, y2, p2⟩ := ldaSta_exec L s1 a.hi (L v + 1)
  refine ⟨s2, ?_, ?_, by rw [p2, p1]⟩
  · have : asgWCode (opd L) v a = [(Mn.LDA, opd L a.lo), (Mn.STA, Opd.mem (L v))] ++ [(Mn.LDA, opd L a.hi), (Mn.STA, Opd.mem (L v + 1))] := by
      simp [asgWCode, hiCell]
    rw [this, execSeq_append', e1]
    simpa using e2
  · simp only [srcOf, asgWSpec, wr, rval, elAddr]
    rw [m2, x2, y2, p2, m1, x1, y1, p1]
    rfl

theorem binWCode_exec (L : Layout) (s : Cpu) (v : String) (op : BOp) (x y : WA) :
    ∃ s', execSeq s (binWCode Opd.none (opd L) v op x y) = some s' ∧ srcOf s' = binWSpec L (srcOf s) v op x y ∧ s'.sp = s.sp := by
  by_cases hm : maskLow op x y = true
  · -- `t & 255`
    have e255 : (255#8 : BitVec 8) = BitVec.allOnes 8 := by decide
    cases x with
    | wconst n => simp [maskLow] at hm
    | wbyte b => simp [maskLow] at hm
    | wvar t =>
      simp [maskLow] at hm
      obtain ⟨ho, hy⟩ := hm
      subst ho; subst hy
      simp [binWCode, maskLow, execSeq, Cpu.exec, Cpu.rd, Cpu.ea, WA.lo, WA.hi, hiCell, binWSpec, lowRes, highRes, BOp.apply,
        wr, rval, val, srcOf, elAddr]
      rw [e255, BitVec.and_allOnes]
  · have hm' : maskLow op x y = false := by simpa using hm
    obtain ⟨s1, e1, m1, x1, y1, p1, c1⟩ := lowPass_exec L s v op x.lo y.lo (lowEmitted op y)
      (fun h => lowSkip L s.mem s.x s.y op y _ h)
    obtain ⟨s2, e2, m2, x2, y2, p2⟩ := highPass_exec L s1 v op x.hi y.hi
    refine ⟨s2, ?_, ?_, by rw [p2, p1]⟩
    · have : binWCode Opd.none (opd L) v op x y =
          ([(Mn.LDA, opd L x.lo)] ++ (carryOf op).map (fun m => (m, Opd.none)) ++
            (if lowEmitted op y then (mainOf op).map fun m => (m, opd L y.lo) else []) ++ [(Mn.STA, opd L (.var v))]) ++
          ([(Mn.LDA, opd L x.hi)] ++ (mainOf op).map (fun m => (m, opd L y.hi)) ++ [(Mn.STA, opd L (hiCell v))]) := by
        simp [binWCode, hm', List.append_assoc]
      rw [this, execSeq_append', e1]
      simpa using e2
    · have hc : s1.f.c = (lowRes op (val L s.mem s.x s.y x.lo) (val L s.mem s.x s.y y.lo)).2 ∨ (op ≠ .add ∧ op ≠ .sub) := by
        cases op
        · exact Or.inl (c1 (Or.inl rfl))
        · exact Or.inl (c1 (Or.inr rfl))
        · exact Or.inr ⟨by simp, by simp⟩
        · exact Or.inr ⟨by simp, by simp⟩
        · exact Or.inr ⟨by simp, by simp⟩
      have hh : highRes op s1.f.c = highRes op (lowRes op (val L s.mem s.x s.y x.lo) (val L s.mem s.x s.y y.lo)).2 := by
        rcases hc with h | ⟨h1, h2⟩
        · rw [h]
        · cases op
          · exact absurd rfl h1
          · exact absurd rfl h2
          · funext a b; rfl
          · funext a b; rfl
          · funext a b; rfl
      simp only [srcOf, binWSpec, wr, rval, elAddr]
      rw [m2, x2, y2, p2, hh, m1, x1, y1, p1]
      rfl

/-! ### chains (stage 7) -/

/-- the operators of a chain, one after the other on the accumulator -/
theorem chainCode_exec (L : Layout) (ops : List (BOp × RA)) (s : Cpu) (hz : s.f.z = (s.a == 0)) :
    ∃ s2, execSeq s (chainCode Opd.none (opd L) ops) = some s2 ∧ s2.a = (chainVal L (srcOf s) s.a ops).2 ∧
      srcOf s2 = (chainVal L (srcOf s) s.a ops).1 ∧ s2.sp = s.sp ∧ s2.f.z = (s2.a == 0) := by
  induction ops generalizing s with
  | nil => exact ⟨s, by simp [chainCode, execSeq], by simp [chainVal], by simp [chainVal], rfl, hz⟩
  | cons p rest ih =>
    obtain ⟨op, y⟩ := p
    obtain ⟨s1, e1, a1, m1, p1, z1⟩ := opCode_exec L s op y
    obtain ⟨s2, e2, a2, m2, p2, z2⟩ := ih s1 (z1 hz)
    refine ⟨s2, ?_, ?_, ?_, by rw [p2, p1], z2⟩
    · simp only [chainCode, execSeq_append', e1, Option.bind_some, e2]
    · rw [a2, m1, a1]; simp [chainVal]
    · rw [m2, m1, a1]; simp [chainVal]

theorem chainStmt_exec (L : Layout) (s : Cpu) (v : LV) (a : RA) (op1 : BOp) (b1 : RA) (ops : List (BOp × RA)) :
    ∃ s', execSeq s (loadA Opd.none (opd L) (rordered op1 a b1).1 ++ chainCode Opd.none (opd L) ((op1, (rordered op1 a b1).2) :: ops) ++
        storeA Opd.none (opd L) v) = some s' ∧
      srcOf s' = chainSpec L (srcOf s) v a op1 b1 ops ∧ s'.sp = s.sp ∧ FlagsInv L (some v) s' := by
  obtain ⟨s1, e1, a1, m1, p1, z1⟩ := loadA_exec L s (rordered op1 a b1).1
  obtain ⟨s2, e2, a2, m2, p2, z2⟩ := chainCode_exec L ((op1, (rordered op1 a b1).2) :: ops) s1 z1
  obtain ⟨s3, e3, m3, p3, z3⟩ := storeA_exec L s2 v
  refine ⟨s3, ?_, ?_, by rw [p3, p2, p1], z3 z2⟩
  · simp only [execSeq_append', e1, Option.bind_some, e2, e3]
  · rw [m3, m2, a2, a1, m1]; rfl

/-! ### linear expressions (stage 8) -/

/-- `STA cctmp ; <load x> ; SEC ; SBC cctmp`: x − (the value that was in A) -/
theorem subFrom_exec (L : Layout) (s : Cpu) (x : RA) :
    ∃ s2, execSeq s ([(Mn.STA, opd L tmp)] ++ loadA Opd.none (opd L) x ++ [(Mn.SEC, Opd.none), (Mn.SBC, opd L tmp)]) = some s2 ∧
      s2.a = rval L { srcOf s with mem := s.mem.write (L "cctmp") s.a } x - s.a ∧
      srcOf s2 = { srcOf s with mem := s.mem.write (L "cctmp") s.a } ∧ s2.sp = s.sp ∧ s2.f.z = (s2.a == 0) := by
  obtain ⟨s1, e1, a1, m1, p1, _⟩ := loadA_exec L { s with mem := s.mem.write (L "cctmp") s.a } x
  have hm : s1.mem = s.mem.write (L "cctmp") s.a := congrArg SrcSt.mem m1
  have hx : s1.x = s.x := congrArg SrcSt.x m1
  have hy : s1.y = s.y := congrArg SrcSt.y m1
  have hrd : ({ s1 with f := { s1.f with c := true } } : Cpu).rd (opd L tmp) = some s.a := by
    simp [tmp, opd, Cpu.rd, Cpu.ea, hm]
  refine ⟨({ s1 with f := { s1.f with c := true } } : Cpu).sbc s.a, ?_, ?_, ?_, ?_, ?_⟩
  · have h0 : execSeq s [(Mn.STA, opd L tmp)] = some { s with mem := s.mem.write (L "cctmp") s.a } := by
      simp [execSeq, Cpu.exec, tmp, opd, Cpu.ea]
    rw [execSeq_append', execSeq_append', h0]
    simp only [Option.bind_some, e1]
    simp [execSeq, Cpu.exec, hrd]
  · rw [sbc_after_sec _ _ (by simp)]
    simp only [a1, srcOf]
  · simp [srcOf, hm, hx, hy, p1]
  · simp [p1]
  · simp [Cpu.sbc, Cpu.adc]

theorem linCode_exec (L : Layout) (e : LExpr) (s : Cpu) :
    ∃ s2, execSeq s (linCode Opd.none (opd L) e) = some s2 ∧ s2.a = (linVal L (srcOf s) e).2 ∧
      srcOf s2 = (linVal L (srcOf s) e).1 ∧ s2.sp = s.sp ∧ s2.f.z = (s2.a == 0) := by
  induction e generalizing s with
  | pair a op b =>
    obtain ⟨s1, e1, a1, m1, p1, z1⟩ := loadA_exec L s (rordered op a b).1
    obtain ⟨s2, e2, a2, m2, p2, z2⟩ := opCode_exec L s1 op (rordered op a b).2
    refine ⟨s2, ?_, ?_, ?_, by rw [p2, p1], z2 z1⟩
    · simp only [linCode, execSeq_append', e1, Option.bind_some, e2]
    · rw [a2, a1, m1]; simp [linVal]
    · rw [m2, m1]; simp [linVal]
  | left e op y ih =>
    obtain ⟨s1, e1, a1, m1, p1, z1⟩ := ih s
    obtain ⟨s2, e2, a2, m2, p2, z2⟩ := opCode_exec L s1 op y
    refine ⟨s2, ?_, ?_, ?_, by rw [p2, p1], z2 z1⟩
    · simp only [linCode, execSeq_append', e1, Option.bind_some, e2]
    · rw [a2, a1, m1]; simp [linVal]
    · rw [m2, m1]; simp [linVal]
  | right x op e ih =>
    obtain ⟨s1, e1, a1, m1, p1, z1⟩ := ih s
    by_cases hs : op = .sub
    · subst hs
      obtain ⟨s2, e2, a2, m2, p2, z2⟩ := subFrom_exec L s1 x
      have hm : s1.mem = (linVal L (srcOf s) e).1.mem := congrArg SrcSt.mem m1
      have hx : s1.x = (linVal L (srcOf s) e).1.x := congrArg SrcSt.x m1
      have hy : s1.y = (linVal L (srcOf s) e).1.y := congrArg SrcSt.y m1
      refine ⟨s2, ?_, ?_, ?_, by rw [p2, p1], z2⟩
      · simp only [linCode, execSeq_append', e1, Option.bind_some]
        simpa using e2
      · rw [a2, a1, hm, m1]; simp [linVal]
      · rw [m2, a1, hm, m1]; simp [linVal]
    · obtain ⟨s2, e2, a2, m2, p2, z2⟩ := opCode_exec L s1 op x
      have hne : (op == BOp.sub) = false := by cases op <;> simp_all
      refine ⟨s2, ?_, ?_, ?_, by rw [p2, p1], z2 z1⟩
      · simp only [linCode, hne, execSeq_append', e1, Option.bind_some]
        simpa using e2
      · rw [a2, a1, m1]; simp [linVal, hne]
      · rw [m2, m1]; simp [linVal, hne]

theorem linStmt_exec (L : Layout) (s : Cpu) (v : LV) (e : LExpr) :
    ∃ s', execSeq s (linCode Opd.none (opd L) e ++ storeA Opd.none (opd L) v) = some s' ∧
      srcOf s' = wr L (linVal L (srcOf s) e).1 v (linVal L (srcOf s) e).2 ∧ s'.sp = s.sp ∧ FlagsInv L (some v) s' := by
  obtain ⟨s2, e2, a2, m2, p2, z2⟩ := linCode_exec L e s
  obtain ⟨s3, e3, m3, p3, z3⟩ := storeA_exec L s2 v
  refine ⟨s3, ?_, ?_, by rw [p3, p2], z3 z2⟩
  · simp only [execSeq_append', e2, Option.bind_some, e3]
  · rw [m3, m2, a2]

/-! ### expression trees (stage 10) -/

/-- Z describes the accumulator -/
def ZA (s : Cpu) : Prop := s.f.z = (s.a == 0)

theorem staTmp_exec (L : Layout) (s : Cpu) :
    execSeq s [(Mn.STA, opd L tmp)] = some { s with mem := s.mem.write (L "cctmp") s.a } := by
  simp [execSeq, Cpu.exec, tmp, opd, Cpu.ea]

theorem pha_exec (s : Cpu) : execSeq s [(Mn.PHA, Opd.none)] = some (s.push s.a) := by
  simp [execSeq, Cpu.exec]

theorem srcOf_push (s : Cpu) (v : Byte) : srcOf (s.push v) = pushS (srcOf s) v := by
  simp [srcOf, Cpu.push, pushS]

theorem pla_exec (s : Cpu) :
    ∃ s', execSeq s [(Mn.PLA, Opd.none)] = some s' ∧ srcOf s' = (pullS (srcOf s)).1 ∧ s'.a = (pullS (srcOf s)).2 ∧ ZA s' := by
  refine ⟨{ s.pull.2 with a := s.pull.1, f := Cpu.setNZ s.pull.2.f s.pull.1 }, by simp [execSeq, Cpu.exec], ?_, ?_, ?_⟩ <;>
    simp [srcOf, Cpu.pull, pullS, ZA]

theorem ldaTmp_exec (L : Layout) (s : Cpu) :
    ∃ s', execSeq s [(Mn.LDA, opd L tmp)] = some s' ∧ srcOf s' = srcOf s ∧ s'.a = s.mem.read (L "cctmp") ∧ ZA s' := by
  refine ⟨{ s with a := s.mem.read (L "cctmp"), f := Cpu.setNZ s.f (s.mem.read (L "cctmp")) },
    by simp [execSeq, Cpu.exec, tmp, opd, Cpu.rd, Cpu.ea], ?_, ?_, ?_⟩ <;> simp [srcOf, ZA]

/-- a plan never saves the accumulator when the left operand is in it -/
theorem Plan.acc_nosave (p : Plan) (h : p.left = .acc) : p.save = false := by
  simp [Plan.save, h]

/-- the code of a plan runs to what `evalPlan` says; Z describes the accumulator afterwards -/
theorem planCode_exec (L : Layout) (op : BOp) (p : Plan) (s : Cpu) (hz : p.left = .acc → ZA s) :
    ∃ s', execSeq s (planCode Opd.none (opd L) op p) = some s' ∧ srcOf s' = (evalPlan L (srcOf s) s.a op p).1 ∧
      s'.a = (evalPlan L (srcOf s) s.a op p).2 ∧ ZA s' := by
  -- phase 0: the right operand out of the accumulator
  have h0 : ∃ s0, execSeq s (if p.spill then [(Mn.STA, opd L tmp)] else []) = some s0 ∧
      srcOf s0 = (if p.spill then setTmp L (srcOf s) s.a else srcOf s) ∧ s0.a = s.a ∧ s0.f = s.f := by
    by_cases hs : p.spill = true
    · refine ⟨{ s with mem := s.mem.write (L "cctmp") s.a }, ?_, ?_, rfl, rfl⟩
      · rw [if_pos hs]; exact staTmp_exec L s
      · rw [if_pos hs]; rfl
    · have hs' : p.spill = false := by simpa using hs
      exact ⟨s, by simp [hs', execSeq], by simp [hs'], rfl, rfl⟩
  obtain ⟨s0, e0, m0, a0, f0⟩ := h0
  -- phase 1a: save the accumulator
  have h1 : ∃ s1, execSeq s0 (if p.save then [(Mn.PHA, Opd.none)] else []) = some s1 ∧
      srcOf s1 = (if p.save then pushS (srcOf s0) s0.a else srcOf s0) ∧ s1.a = s0.a ∧ s1.f = s0.f := by
    by_cases hs : p.save = true
    · refine ⟨s0.push s0.a, ?_, ?_, by simp [Cpu.push], by simp [Cpu.push]⟩
      · rw [if_pos hs]; exact pha_exec s0
      · rw [if_pos hs]; exact srcOf_push s0 s0.a
    · have hs' : p.save = false := by simpa using hs
      exact ⟨s0, by simp [hs', execSeq], by simp [hs'], rfl, rfl⟩
  obtain ⟨s1, e1, m1, a1, f1⟩ := h1
  -- phase 1b: the left operand into the accumulator
  have h2 : ∃ s2, execSeq s1 (loadLeft Opd.none (opd L) p.left) = some s2 ∧ srcOf s2 = srcOf s1 ∧
      s2.a = leftVal L (srcOf s1) s.a p.left ∧ ZA s2 := by
    cases hl : p.left with
    | atm x =>
      obtain ⟨s2, e2, a2, m2, _, z2⟩ := loadA_exec L s1 x
      exact ⟨s2, e2, m2, a2, z2⟩
    | tmp =>
      obtain ⟨s2, e2, m2, a2, z2⟩ := ldaTmp_exec L s1
      exact ⟨s2, e2, m2, by simpa [leftVal] using a2, z2⟩
    | acc =>
      refine ⟨s1, by simp [loadLeft, execSeq], rfl, by simp [leftVal, a1, a0], ?_⟩
      have := hz hl
      unfold ZA at this ⊢
      rw [f1, f0, a1, a0]; exact this
  obtain ⟨s2, e2, m2, a2, z2⟩ := h2
  -- phase 2: the operation
  obtain ⟨s3, e3, a3, m3, _, z3⟩ := opCode_exec L s2 op (opnd p.right2)
  have z3' : ZA s3 := z3 z2
  have hσ1 : srcOf s1 = (if p.save then pushS (if p.spill then setTmp L (srcOf s) s.a else srcOf s) s.a
      else (if p.spill then setTmp L (srcOf s) s.a else srcOf s)) := by rw [m1, m0, a0]
  have hval : s2.a = leftVal L (srcOf s1) s.a p.left := a2
  -- phase 3: hand the result over
  by_cases hvt : p.save = true
  · obtain ⟨s5, e5, m5, a5, z5⟩ := pla_exec ({ s3 with mem := s3.mem.write (L "cctmp") s3.a } : Cpu)
    have hpre : srcOf ({ s3 with mem := s3.mem.write (L "cctmp") s3.a } : Cpu) =
        setTmp L (tmpWrite L (srcOf s1) op (opnd p.right2)) (op.apply s2.a (rval L (srcOf s1) (opnd p.right2))) := by
      have : srcOf ({ s3 with mem := s3.mem.write (L "cctmp") s3.a } : Cpu) = setTmp L (srcOf s3) s3.a := rfl
      rw [this, m3, a3, m2]
    refine ⟨s5, ?_, ?_, ?_, z5⟩
    · simp only [planCode, execSeq_append', e0, Option.bind_some, e1, e2, e3]
      rw [if_pos hvt, show [(Mn.STA, opd L tmp), (Mn.PLA, Opd.none)] = [(Mn.STA, opd L tmp)] ++ [(Mn.PLA, Opd.none)] from rfl,
        execSeq_append', staTmp_exec]
      simpa using e5
    · rw [m5, hpre, hval, hσ1]
      simp only [evalPlan, hvt, if_true]
    · rw [a5, hpre, hval, hσ1]
      simp only [evalPlan, hvt, if_true]
  · have hvt' : p.save = false := by simpa using hvt
    refine ⟨s3, ?_, ?_, ?_, z3'⟩
    · simp only [planCode, execSeq_append', e0, Option.bind_some, e1, e2, e3]
      simp [hvt', execSeq]
    · rw [m3, m2, hσ1]
      simp only [evalPlan, hvt', Bool.false_eq_true, if_false]
    · rw [a3, hval, m2, hσ1]
      simp only [evalPlan, hvt', Bool.false_eq_true, if_false]

/-! shifts (stage 11) -/

theorem shVal_succ (left : Bool) (k : Nat) (a : Byte) : shVal left (k + 1) a = shVal left k (shVal left 1 a) := by
  unfold shVal
  cases left
  · simp only [Bool.false_eq_true, if_false]
    rw [Nat.add_comm, BitVec.shiftRight_add]
  · simp only [if_true]
    rw [Nat.add_comm, BitVec.shiftLeft_add]

theorem shifts_exec (left : Bool) : ∀ (k : Nat) (s : Cpu), ZA s →
    ∃ s', execSeq s (List.replicate k ((if left then Mn.ASL else Mn.LSR), Opd.none)) = some s' ∧ srcOf s' = srcOf s ∧
      s'.a = shVal left k s.a ∧ ZA s' := by
  intro k
  induction k with
  | zero => intro s hz; exact ⟨s, by simp [execSeq], rfl, by simp [shVal], hz⟩
  | succ k ih =>
    intro s hz
    have h1 : ∃ s1, s.exec (if left then Mn.ASL else Mn.LSR) Opd.none = some s1 ∧ srcOf s1 = srcOf s ∧ s1.a = shVal left 1 s.a ∧ ZA s1 := by
      cases left
      · refine ⟨_, by simp [Cpu.exec, Cpu.rmw, Cpu.gLSR]; rfl, ?_, ?_, ?_⟩ <;> simp [srcOf, shVal, ZA, Cpu.setNZ]
      · refine ⟨_, by simp [Cpu.exec, Cpu.rmw, Cpu.gASL]; rfl, ?_, ?_, ?_⟩ <;> simp [srcOf, shVal, ZA, Cpu.setNZ]
    obtain ⟨s1, e1, m1, a1, z1⟩ := h1
    obtain ⟨s2, e2, m2, a2, z2⟩ := ih s1 z1
    refine ⟨s2, ?_, by rw [m2, m1], by rw [a2, a1]; exact (shVal_succ left k s.a).symm, z2⟩
    simp only [List.replicate_succ, execSeq, e1, Option.bind_some]
    exact e2

/-- the code of a shift runs to what `evalShift` says; Z describes the accumulator afterwards -/
theorem shiftCode_exec (L : Layout) (st : ES) (t : ET) (left : Bool) (k : Nat) (s : Cpu) (hz : t = .acc → ZA s) :
    ∃ s', execSeq s (shiftCode Opd.none (opd L) st t left k) = some s' ∧ srcOf s' = (evalShift L (srcOf s) s.a st t left k).1 ∧
      s'.a = (evalShift L (srcOf s) s.a st t left k).2 ∧ ZA s' := by
  -- save the accumulator
  have h1 : ∃ s1, execSeq s (if shSave st t then [(Mn.PHA, Opd.none)] else []) = some s1 ∧
      srcOf s1 = (if shSave st t then pushS (srcOf s) s.a else srcOf s) ∧ s1.a = s.a ∧ s1.f = s.f := by
    by_cases hs : shSave st t = true
    · refine ⟨s.push s.a, ?_, ?_, by simp [Cpu.push], by simp [Cpu.push]⟩
      · rw [if_pos hs]; exact pha_exec s
      · rw [if_pos hs]; exact srcOf_push s s.a
    · have hs' : shSave st t = false := by simpa using hs
      exact ⟨s, by simp [hs', execSeq], by simp [hs'], rfl, rfl⟩
  obtain ⟨s1, e1, m1, a1, f1⟩ := h1
  -- the operand into the accumulator
  have h2 : ∃ s2, execSeq s1 (loadLeft Opd.none (opd L) t) = some s2 ∧ srcOf s2 = srcOf s1 ∧
      s2.a = leftVal L (srcOf s1) s.a t ∧ ZA s2 := by
    cases ht : t with
    | atm x =>
      obtain ⟨s2, e2, a2, m2, _, z2⟩ := loadA_exec L s1 x
      exact ⟨s2, e2, m2, a2, z2⟩
    | tmp =>
      obtain ⟨s2, e2, m2, a2, z2⟩ := ldaTmp_exec L s1
      exact ⟨s2, e2, m2, by simpa [leftVal] using a2, z2⟩
    | acc =>
      refine ⟨s1, by simp [loadLeft, execSeq], rfl, by simp [leftVal, a1], ?_⟩
      have := hz ht
      unfold ZA at this ⊢
      rw [f1, a1]; exact this
  obtain ⟨s2, e2, m2, a2, z2⟩ := h2
  -- the shifts
  obtain ⟨s3, e3, m3, a3, z3⟩ := shifts_exec left k s2 z2
  by_cases hvt : shSave st t = true
  · obtain ⟨s5, e5, m5, a5, z5⟩ := pla_exec ({ s3 with mem := s3.mem.write (L "cctmp") s3.a } : Cpu)
    have hpre : srcOf ({ s3 with mem := s3.mem.write (L "cctmp") s3.a } : Cpu) =
        setTmp L (srcOf s1) (shVal left k (leftVal L (srcOf s1) s.a t)) := by
      have : srcOf ({ s3 with mem := s3.mem.write (L "cctmp") s3.a } : Cpu) = setTmp L (srcOf s3) s3.a := rfl
      rw [this, m3, a3, m2, a2]
    refine ⟨s5, ?_, ?_, ?_, z5⟩
    · simp only [shiftCode, execSeq_append', e1, Option.bind_some, e2, e3]
      rw [if_pos hvt, show [(Mn.STA, opd L tmp), (Mn.PLA, Opd.none)] = [(Mn.STA, opd L tmp)] ++ [(Mn.PLA, Opd.none)] from rfl,
        execSeq_append', staTmp_exec]
      simpa using e5
    · rw [m5, hpre, m1]
      simp only [evalShift, hvt, if_true]
    · rw [a5, hpre, m1]
      simp only [evalShift, hvt, if_true]
  · have hvt' : shSave st t = false := by simpa using hvt
    refine ⟨s3, ?_, ?_, ?_, z3⟩
    · simp only [shiftCode, execSeq_append', e1, Option.bind_some, e2, e3]
      simp [hvt', execSeq]
    · rw [m3, m2, m1]
      simp only [evalShift, hvt', Bool.false_eq_true, if_false]
    · rw [a3, a2, m1]
      simp only [evalShift, hvt', Bool.false_eq_true, if_false]

theorem order_left_acc (op : BOp) (l r : ET) (h : (order op l r).1 = .acc) : l = .acc ∨ r = .acc := by
  unfold order at h
  split at h
  · exact Or.inl h
  · split at h
    · exact Or.inr h
    · split at h
      · exact Or.inr h
      · exact Or.inl h

theorem plan_left {st : ES} {l : ET} {op : BOp} {rt : ET} {p : Plan} (h : plan st l op rt = some p) :
    p.left = (order op l rt).1 ∧ p.st'.acc = true := by
  unfold plan at h
  split at h
  · cases h; exact ⟨rfl, rfl⟩
  · cases h

/-- `acc_in_use` is never cleared inside an expression, and a result in the accumulator means it is set -/
theorem genE_acc {α : Type} (none : α) (r : Atom → α) : ∀ (e : GExpr) (st : ES) (c : List (Mn × α)) (t : ET) (st' : ES),
    genE none r st e = some (c, t, st') → (st.acc = true → st'.acc = true) ∧ (t = .acc → st'.acc = true) := by
  intro e
  induction e with
  | atom a =>
    intro st c t st' h
    simp only [genE, Option.some.injEq, Prod.mk.injEq] at h
    obtain ⟨_, ht, hs⟩ := h
    subst hs; subst ht
    exact ⟨id, fun h => by cases h⟩
  | bin l op rr ihl ihr =>
    intro st c t st' h
    simp only [genE] at h
    cases hl : genE none r st l with
    | none => simp [hl] at h
    | some x =>
      obtain ⟨cl, tl, s1⟩ := x
      simp only [hl] at h
      cases hr : genE none r s1 rr with
      | none => simp [hr] at h
      | some y =>
        obtain ⟨cr, tr, s2⟩ := y
        simp only [hr] at h
        cases ha : arithm none r s2 tl op tr with
        | none => simp [ha] at h
        | some z =>
          obtain ⟨ca, t3, s3⟩ := z
          simp only [ha, Option.some.injEq, Prod.mk.injEq] at h
          obtain ⟨_, ht, hs⟩ := h
          subst ht; subst hs
          simp only [arithm, Option.map_eq_some_iff] at ha
          obtain ⟨p, hp, hpe⟩ := ha
          simp only [Prod.mk.injEq] at hpe
          obtain ⟨_, _, hst⟩ := hpe
          have := (plan_left hp).2
          rw [hst] at this
          exact ⟨fun _ => this, fun _ => this⟩

  | sh e left k ih =>
    intro st c t st' h
    simp only [genE] at h
    cases he : genE none r st e with
    | none => simp [he] at h
    | some x =>
      obtain ⟨c1, t1, s1⟩ := x
      simp only [he] at h
      split at h
      · simp only [Option.some.injEq, Prod.mk.injEq] at h
        obtain ⟨_, _, hs⟩ := h
        subst hs
        exact ⟨fun _ => rfl, fun _ => rfl⟩
      · cases h

/-- the code of every accepted expression runs to `evalE` -/
theorem genE_exec (L : Layout) : ∀ (e : GExpr) (st : ES) (c : List (Mn × Opd)) (t : ET) (st' : ES),
    genE Opd.none (opd L) st e = some (c, t, st') → ∀ s : Cpu, (st.acc = true → ZA s) →
    ∃ s' q, evalE L (srcOf s) s.a st e = some (q, t, st') ∧ execSeq s c = some s' ∧ srcOf s' = q.1 ∧ s'.a = q.2 ∧
      (st'.acc = true → ZA s') := by
  intro e
  induction e with
  | atom a =>
    intro st c t st' h s hz
    simp only [genE, Option.some.injEq, Prod.mk.injEq] at h
    obtain ⟨hc, ht, hs⟩ := h
    subst hc; subst ht; subst hs
    exact ⟨s, (srcOf s, s.a), by simp [evalE], by simp [execSeq], rfl, rfl, hz⟩
  | bin l op rr ihl ihr =>
    intro st c t st' h s hz
    simp only [genE] at h
    cases hl : genE Opd.none (opd L) st l with
    | none => simp [hl] at h
    | some x =>
      obtain ⟨cl, tl, s1⟩ := x
      simp only [hl] at h
      cases hr : genE Opd.none (opd L) s1 rr with
      | none => simp [hr] at h
      | some y =>
        obtain ⟨cr, tr, s2⟩ := y
        simp only [hr] at h
        cases ha : arithm Opd.none (opd L) s2 tl op tr with
        | none => simp [ha] at h
        | some z =>
          obtain ⟨ca, t3, s3⟩ := z
          simp only [ha, Option.some.injEq, Prod.mk.injEq] at h
          obtain ⟨hc, ht, hs⟩ := h
          subst hc; subst ht; subst hs
          obtain ⟨m1, q1, ev1, ex1, hm1, ha1, hz1⟩ := ihl st cl tl s1 hl s hz
          obtain ⟨m2, q2, ev2, ex2, hm2, ha2, hz2⟩ := ihr s1 cr tr s2 hr m1 hz1
          simp only [arithm, Option.map_eq_some_iff] at ha
          obtain ⟨p, hp, hpe⟩ := ha
          simp only [Prod.mk.injEq] at hpe
          obtain ⟨hca, ht3, hs3⟩ := hpe
          have hacc1 := genE_acc Opd.none (opd L) l st cl tl s1 hl
          have hacc2 := genE_acc Opd.none (opd L) rr s1 cr tr s2 hr
          have hzp : p.left = .acc → ZA m2 := by
            intro hle
            rw [(plan_left hp).1] at hle
            rcases order_left_acc op tl tr hle with h1 | h2
            · exact hz2 (hacc2.1 (hacc1.2 h1))
            · exact hz2 (hacc2.2 h2)
          obtain ⟨m3, ex3, hm3, ha3, hz3⟩ := planCode_exec L op p m2 hzp
          refine ⟨m3, evalPlan L q2.1 q2.2 op p, ?_, ?_, ?_, ?_, fun _ => hz3⟩
          · simp only [evalE]
            rw [hm1, ha1] at ev2
            obtain ⟨σ1, a1⟩ := q1
            simp only [ev1]
            obtain ⟨σ2, a2⟩ := q2
            simp only [ev2, evalArithm, hp, Option.map_some, ht3, hs3]
          · rw [← hca, execSeq_append', execSeq_append', ex1]
            simp only [Option.bind_some, ex2, ex3]
          · rw [hm3, hm2, ha2]
          · rw [ha3, hm2, ha2]


  | sh e left k ih =>
    intro st c t st' h s hz
    simp only [genE] at h
    cases he : genE Opd.none (opd L) st e with
    | none => simp [he] at h
    | some x =>
      obtain ⟨c1, t1, s1⟩ := x
      simp only [he] at h
      by_cases hok : shiftOK s1 t1 k = true
      · simp only [hok, if_true, Option.some.injEq, Prod.mk.injEq] at h
        obtain ⟨hc, ht, hs⟩ := h
        subst hc; subst ht; subst hs
        obtain ⟨m1, q1, ev1, ex1, hm1, ha1, hz1⟩ := ih st c1 t1 s1 he s hz
        have hacc := genE_acc Opd.none (opd L) e st c1 t1 s1 he
        obtain ⟨m2, ex2, hm2, ha2, hz2⟩ := shiftCode_exec L s1 t1 left k m1 (fun h => hz1 (hacc.2 h))
        refine ⟨m2, evalShift L q1.1 q1.2 s1 t1 left k, ?_, ?_, ?_, ?_, fun _ => hz2⟩
        · simp only [evalE]
          obtain ⟨σ1, a1⟩ := q1
          simp only [ev1, hok, if_true]
        · rw [execSeq_append', ex1]
          simpa using ex2
        · rw [hm2, hm1, ha1]
        · rw [ha2, hm1, ha1]
      · simp [hok] at h

/-- what the generator decides (where the result is, its state, whether it gives up) does not depend on how
    operands are rendered -/
theorem genE_kind {α β : Type} (n : α) (r : Atom → α) (n' : β) (r' : Atom → β) : ∀ (e : GExpr) (st : ES),
    (genE n r st e).map (fun x => x.2) = (genE n' r' st e).map (fun x => x.2) := by
  intro e
  induction e with
  | atom a => intro st; simp [genE]
  | bin l op rr ihl ihr =>
    intro st
    have h1 := ihl st
    simp only [genE]
    cases hl : genE n r st l with
    | none =>
      cases hl' : genE n' r' st l with
      | none => simp
      | some y => simp [hl, hl'] at h1
    | some x =>
      cases hl' : genE n' r' st l with
      | none => simp [hl, hl'] at h1
      | some y =>
        obtain ⟨cl, tl, s1⟩ := x
        obtain ⟨cl', tl', s1'⟩ := y
        simp only [hl, hl', Option.map_some, Option.some.injEq, Prod.mk.injEq] at h1
        obtain ⟨ht, hs⟩ := h1
        subst ht; subst hs
        have h2 := ihr s1
        simp only
        cases hr : genE n r s1 rr with
        | none =>
          cases hr' : genE n' r' s1 rr with
          | none => simp
          | some y => simp [hr, hr'] at h2
        | some x =>
          cases hr' : genE n' r' s1 rr with
          | none => simp [hr, hr'] at h2
          | some y =>
            obtain ⟨cr, tr, s2⟩ := x
            obtain ⟨cr', tr', s2'⟩ := y
            simp only [hr, hr', Option.map_some, Option.some.injEq, Prod.mk.injEq] at h2
            obtain ⟨ht, hs⟩ := h2
            subst ht; subst hs
            simp only [arithm]
            cases plan s2 tl op tr <;> simp

  | sh e left k ih =>
    intro st
    have h1 := ih st
    simp only [genE]
    cases he : genE n r st e with
    | none =>
      cases he' : genE n' r' st e with
      | none => simp
      | some y => simp [he, he'] at h1
    | some x =>
      cases he' : genE n' r' st e with
      | none => simp [he, he'] at h1
      | some y =>
        obtain ⟨c1, t1, s1⟩ := x
        obtain ⟨c1', t1', s1'⟩ := y
        simp only [he, he', Option.map_some, Option.some.injEq, Prod.mk.injEq] at h1
        obtain ⟨ht, hs⟩ := h1
        subst ht; subst hs
        simp only
        split <;> simp

/-- what `ok` says for a compound expression -/
theorem GExpr.ok_def (e : GExpr) (hne : ∀ a, e ≠ .atom a) :
    e.ok = (match genE () (fun _ => ()) {} e with | some (_, .acc, _) => true | _ => false) := by
  cases e with
  | atom a => exact absurd rfl (hne a)
  | bin l op rr => rfl
  | sh e l k => rfl

theorem genE_ok_iff {α : Type} (n : α) (r : Atom → α) (e : GExpr) (hne : ∀ a, e ≠ .atom a) :
    e.ok = true ↔ ∃ c st', genE n r {} e = some (c, .acc, st') := by
  have h := genE_kind () (fun _ => ()) n r e {}
  rw [GExpr.ok_def e hne]
  cases h1 : genE () (fun _ => ()) {} e with
  | none =>
    cases h2 : genE n r {} e with
    | none => simp
    | some y => simp [h1, h2] at h
  | some x =>
    cases h2 : genE n r {} e with
    | none => simp [h1, h2] at h
    | some y =>
      obtain ⟨c, t, st'⟩ := x
      obtain ⟨c', t', st''⟩ := y
      simp only [h1, h2, Option.map_some, Option.some.injEq, Prod.mk.injEq] at h
      obtain ⟨ht, hs⟩ := h
      subst ht; subst hs
      cases t <;> simp

/-- an operand in the accumulator means `acc_in_use` -/
theorem evalE_acc (L : Layout) : ∀ (e : GExpr) (σ : SrcSt) (a : Byte) (st : ES) (q : SrcSt × Byte) (t : ET) (st' : ES),
    evalE L σ a st e = some (q, t, st') → (st.acc = true → st'.acc = true) ∧ (t = .acc → st'.acc = true) := by
  intro e
  induction e with
  | atom x =>
    intro σ a st q t st' h
    simp only [evalE, Option.some.injEq, Prod.mk.injEq] at h
    obtain ⟨_, ht, hs⟩ := h
    subst hs; subst ht
    exact ⟨id, fun h => by cases h⟩
  | bin l op rr ihl ihr =>
    intro σ a st q t st' h
    simp only [evalE] at h
    cases hl : evalE L σ a st l with
    | none => simp [hl] at h
    | some x =>
      obtain ⟨⟨σ1, a1⟩, tl, s1⟩ := x
      simp only [hl] at h
      cases hr : evalE L σ1 a1 s1 rr with
      | none => simp [hr] at h
      | some y =>
        obtain ⟨⟨σ2, a2⟩, tr, s2⟩ := y
        simp only [hr, evalArithm, Option.map_eq_some_iff] at h
        obtain ⟨p, hp, hpe⟩ := h
        simp only [Prod.mk.injEq] at hpe
        obtain ⟨_, _, hst⟩ := hpe
        have := (plan_left hp).2
        rw [hst] at this
        exact ⟨fun _ => this, fun _ => this⟩

  | sh e left k ih =>
    intro σ a st q t st' h
    simp only [evalE] at h
    cases he : evalE L σ a st e with
    | none => simp [he] at h
    | some x =>
      obtain ⟨⟨σ1, a1⟩, t1, s1⟩ := x
      simp only [he] at h
      split at h
      · simp only [Option.some.injEq, Prod.mk.injEq] at h
        obtain ⟨_, _, hs⟩ := h
        subst hs
        exact ⟨fun _ => rfl, fun _ => rfl⟩
      · cases h

/-- a plan uses the accumulator's content only when `acc_in_use` says there is one -/
theorem evalPlan_acc_irrelevant (L : Layout) (σ : SrcSt) (a a' : Byte) (op : BOp) (st : ES) (l rt : ET) (p : Plan)
    (hp : plan st l op rt = some p) (hlr : (l = .acc ∨ rt = .acc) → st.acc = true) (h : st.acc = true → a = a') :
    evalPlan L σ a op p = evalPlan L σ a' op p := by
  by_cases hacc : st.acc = true
  · rw [h hacc]
  · have hacc' : st.acc = false := by simpa using hacc
    have hno : l ≠ .acc ∧ rt ≠ .acc := by
      constructor <;> intro e <;> exact hacc (hlr (by simp [e]))
    unfold plan at hp
    split at hp
    · cases hp
      have ho : (order op l rt).1 ≠ .acc ∧ (order op l rt).2 ≠ .acc := by
        unfold order
        split
        · exact hno
        · split
          · exact ⟨hno.2, hno.1⟩
          · split
            · exact absurd rfl hno.2
            · exact hno
      have hs : ((order op l rt).2 == ET.acc) = false := by
        cases h2 : (order op l rt).2 <;> simp_all
      have hl1 : leftVal L σ a (order op l rt).1 = leftVal L σ a' (order op l rt).1 := by
        cases h1 : (order op l rt).1 <;> simp_all [leftVal]
      simp only [evalPlan, mkPlan, hs, Plan.save, hacc', Bool.false_and, Bool.false_eq_true, if_false, hl1]
    · cases hp

theorem evalE_acc_irrelevant (L : Layout) : ∀ (e : GExpr) (σ : SrcSt) (a a' : Byte) (st : ES), (st.acc = true → a = a') →
    match evalE L σ a st e, evalE L σ a' st e with
    | some ((σ1, a1), t, st1), some ((σ2, a2), t2, st2) => σ1 = σ2 ∧ t = t2 ∧ st1 = st2 ∧ (st1.acc = true → a1 = a2)
    | none, none => True
    | _, _ => False := by
  intro e
  induction e with
  | atom x => intro σ a a' st h; simpa [evalE] using h
  | bin l op rr ihl ihr =>
    intro σ a a' st h
    have h1 := ihl σ a a' st h
    simp only [evalE]
    cases hl : evalE L σ a st l with
    | none =>
      cases hl' : evalE L σ a' st l with
      | none => simp
      | some y => simp [hl, hl'] at h1
    | some x =>
      cases hl' : evalE L σ a' st l with
      | none => simp [hl, hl'] at h1
      | some y =>
        obtain ⟨⟨σ1, a1⟩, tl, s1⟩ := x
        obtain ⟨⟨σ1', a1'⟩, tl', s1'⟩ := y
        simp only [hl, hl'] at h1
        obtain ⟨hσ, ht, hs, ha⟩ := h1
        subst hσ; subst ht; subst hs
        have h2 := ihr σ1 a1 a1' s1 ha
        simp only
        cases hr : evalE L σ1 a1 s1 rr with
        | none =>
          cases hr' : evalE L σ1 a1' s1 rr with
          | none => simp
          | some y => simp [hr, hr'] at h2
        | some x =>
          cases hr' : evalE L σ1 a1' s1 rr with
          | none => simp [hr, hr'] at h2
          | some y =>
            obtain ⟨⟨σ2, a2⟩, tr, s2⟩ := x
            obtain ⟨⟨σ2', a2'⟩, tr', s2'⟩ := y
            simp only [hr, hr'] at h2
            obtain ⟨hσ, ht, hs, ha2⟩ := h2
            subst hσ; subst ht; subst hs
            simp only [evalArithm]
            cases hp : plan s2 tl op tr with
            | none => simp
            | some p =>
              have e1 := evalE_acc L l σ a st _ _ _ hl
              have e2 := evalE_acc L rr σ1 a1 s1 _ _ _ hr
              have hlr : (tl = .acc ∨ tr = .acc) → s2.acc = true := by
                rintro (h | h)
                · exact e2.1 (e1.2 h)
                · exact e2.2 h
              have := evalPlan_acc_irrelevant L σ2 a2 a2' op s2 tl tr p hp hlr ha2
              simp only [Option.map_some]
              rw [this]
              simp

  | sh e left k ih =>
    intro σ a a' st h
    have h1 := ih σ a a' st h
    simp only [evalE]
    cases he : evalE L σ a st e with
    | none =>
      cases he' : evalE L σ a' st e with
      | none => simp
      | some y => simp [he, he'] at h1
    | some x =>
      cases he' : evalE L σ a' st e with
      | none => simp [he, he'] at h1
      | some y =>
        obtain ⟨⟨σ1, a1⟩, t1, s1⟩ := x
        obtain ⟨⟨σ1', a1'⟩, t1', s1'⟩ := y
        simp only [he, he'] at h1
        obtain ⟨hσ, ht, hs, ha⟩ := h1
        subst hσ; subst ht; subst hs
        simp only
        have e1 := evalE_acc L e σ a st _ _ _ he
        have heq : evalShift L σ1 a1 s1 t1 left k = evalShift L σ1 a1' s1 t1 left k := by
          by_cases hacc : s1.acc = true
          · rw [ha hacc]
          · have hacc' : s1.acc = false := by simpa using hacc
            have hne : t1 ≠ .acc := fun e => hacc (e1.2 e)
            have hsv : shSave s1 t1 = false := by simp [shSave, hacc']
            have hlv : leftVal L σ1 a1 t1 = leftVal L σ1 a1' t1 := by
              cases t1 with
              | atm x => rfl
              | tmp => rfl
              | acc => exact absurd rfl hne
            simp only [evalShift, hsv, Bool.false_eq_true, if_false, hlv]
        by_cases hok : shiftOK s1 t1 k = true
        · simp only [hok, if_true]
          rw [heq]; simp
        · simp [hok]

theorem evalPlan_sp (L : Layout) (σ : SrcSt) (a : Byte) (op : BOp) (p : Plan) : (evalPlan L σ a op p).1.sp = σ.sp := by
  have ht : ∀ τ : SrcSt, ∀ y, (tmpWrite L τ op y).sp = τ.sp := by
    intro τ y; unfold tmpWrite; split <;> rfl
  unfold evalPlan
  by_cases hs : p.save = true
  · simp only [hs, if_true, pullS, ht, setTmp, pushS]
    split
    · show σ.sp - 1 + 1 = σ.sp
      bv_omega
    · show σ.sp - 1 + 1 = σ.sp
      bv_omega
  · simp only [hs, if_false, Bool.false_eq_true, ht]
    split <;> rfl

theorem evalShift_sp (L : Layout) (σ : SrcSt) (a : Byte) (st : ES) (t : ET) (left : Bool) (k : Nat) :
    (evalShift L σ a st t left k).1.sp = σ.sp := by
  unfold evalShift
  by_cases hs : shSave st t = true
  · simp only [hs, if_true, pullS, setTmp, pushS]
    show σ.sp - 1 + 1 = σ.sp
    bv_omega
  · simp only [hs, if_false, Bool.false_eq_true]

theorem evalE_sp (L : Layout) : ∀ (e : GExpr) (σ : SrcSt) (a : Byte) (st : ES) (q : SrcSt × Byte) (t : ET) (st' : ES),
    evalE L σ a st e = some (q, t, st') → q.1.sp = σ.sp := by
  intro e
  induction e with
  | atom x =>
    intro σ a st q t st' h
    simp only [evalE, Option.some.injEq, Prod.mk.injEq] at h
    rw [← h.1]
  | bin l op rr ihl ihr =>
    intro σ a st q t st' h
    simp only [evalE] at h
    cases hl : evalE L σ a st l with
    | none => simp [hl] at h
    | some x =>
      obtain ⟨⟨σ1, a1⟩, tl, s1⟩ := x
      simp only [hl] at h
      cases hr : evalE L σ1 a1 s1 rr with
      | none => simp [hr] at h
      | some y =>
        obtain ⟨⟨σ2, a2⟩, tr, s2⟩ := y
        simp only [hr, evalArithm, Option.map_eq_some_iff] at h
        obtain ⟨p, hp, hpe⟩ := h
        simp only [Prod.mk.injEq] at hpe
        rw [← hpe.1, evalPlan_sp]
        have h1 := ihl σ a st _ _ _ hl
        have h2 := ihr σ1 a1 s1 _ _ _ hr
        exact h2.trans h1

  | sh e left k ih =>
    intro σ a st q t st' h
    simp only [evalE] at h
    cases he : evalE L σ a st e with
    | none => simp [he] at h
    | some x =>
      obtain ⟨⟨σ1, a1⟩, t1, s1⟩ := x
      simp only [he] at h
      split at h
      · simp only [Option.some.injEq, Prod.mk.injEq] at h
        rw [← h.1, evalShift_sp]
        exact ih σ a st _ _ _ he
      · cases h

/-- `v = e` for a compound expression tree -/
theorem exprStmt_exec_compound (L : Layout) (s : Cpu) (fl : Option FRef) (v : LV) (e : GExpr) (hne : ∀ a, e ≠ .atom a)
    (hinv : FlagsInv L fl s) :
    ∃ s', execSeq s (exprCode Opd.none (opd L) v e) = some s' ∧ srcOf s' = exprSpec L (srcOf s) v e ∧ s'.sp = s.sp ∧
      FlagsInv L (if e.ok then some v else fl) s' := by
  by_cases hok : e.ok = true
  · obtain ⟨c, st', hg⟩ := (genE_ok_iff Opd.none (opd L) e hne).1 hok
    obtain ⟨s1, q, ev, ex, hm, ha, hz⟩ := genE_exec L e {} c .acc st' hg s (by intro h; cases h)
    have hacc : st'.acc = true := (genE_acc Opd.none (opd L) _ _ _ _ _ hg).2 rfl
    obtain ⟨s3, e3, m3, p3, z3⟩ := storeA_exec L s1 v
    have hirr := evalE_acc_irrelevant L e (srcOf s) s.a 0 {} (by intro h; cases h)
    rw [ev] at hirr
    cases h0 : evalE L (srcOf s) 0 {} e with
    | none => rw [h0] at hirr; exact hirr.elim
    | some y =>
      obtain ⟨⟨σ2, a2⟩, t2, st2⟩ := y
      obtain ⟨σq, aq⟩ := q
      rw [h0] at hirr
      simp only at hirr
      obtain ⟨hσ, ht, hs, haa⟩ := hirr
      have hsp : s1.sp = s.sp := by
        have h1 := congrArg SrcSt.sp hm
        have h2 := evalE_sp L _ _ _ _ _ _ _ ev
        exact h1.trans h2
      refine ⟨s3, ?_, ?_, by rw [p3, hsp], by simpa [hok] using z3 (hz hacc)⟩
      · simp only [exprCode, hg, execSeq_append', ex, Option.bind_some, e3]
      · rw [m3, hm, ha]
        simp only [exprSpec, hok, if_true, h0]
        rw [← hσ, ← haa hacc]
  · have hok' : e.ok = false := by simpa using hok
    have hng : ∀ c st', genE Opd.none (opd L) {} e ≠ some (c, .acc, st') := by
      intro c st' h
      exact hok ((genE_ok_iff Opd.none (opd L) e hne).2 ⟨c, st', h⟩)
    have hcode : exprCode Opd.none (opd L) v e = [] := by
      unfold exprCode
      split
      · rename_i c st' h; exact absurd h (hng c st')
      · rfl
    exact ⟨s, by simp [hcode, execSeq], by simp [exprSpec, hok'], rfl, by simpa [hok'] using hinv⟩

/-- `v = e` for an expression tree -/
theorem exprStmt_exec (L : Layout) (s : Cpu) (fl : Option FRef) (v : LV) (e : GExpr) (hinv : FlagsInv L fl s) :
    ∃ s', execSeq s (exprCode Opd.none (opd L) v e) = some s' ∧ srcOf s' = exprSpec L (srcOf s) v e ∧ s'.sp = s.sp ∧
      FlagsInv L (if e.ok then some v else fl) s' := by
  cases e with
  | atom a =>
    refine ⟨s, by simp [exprCode, genE, execSeq], by simp [exprSpec, GExpr.ok], rfl, by simpa [GExpr.ok] using hinv⟩
  | bin l op rr => exact exprStmt_exec_compound L s fl v _ (by intro a h; cases h) hinv
  | sh e l k => exact exprStmt_exec_compound L s fl v _ (by intro a h; cases h) hinv

/-- every statement, every layout, every machine state: the code ends, memory / X / Y are what the source
    prescribes, SP is untouched, and the generator's belief about the flags is true afterwards -/
theorem rflat_correct (L : Layout) (zp : String → Bool) (st : RStmt) (fl : Option FRef) (s : Cpu) (hinv : FlagsInv L fl s) :
    ∃ s', execSeq s (rgenOps L zp st) = some s' ∧ srcOf s' = rspec L (srcOf s) st ∧ s'.sp = s.sp ∧
      FlagsInv L (flagsAfter zp fl st) s' := by
  cases st with
  | asg v a => simpa [rgenOps, rtemplate, rspec, flagsAfter] using asgCode_exec L zp s fl v a hinv
  | bin v op a b => simpa [rgenOps, rtemplate, rspec, flagsAfter] using binCode_exec L zp s fl v op (rordered op a b).1 (rordered op a b).2 hinv
  | opasg v op a => simpa [rgenOps, rtemplate, rspec, flagsAfter] using binCode_exec L zp s fl v op v.ra a hinv
  | inc v => simpa [rgenOps, rtemplate, rspec, flagsAfter] using incCode_exec L s true v
  | dec v => simpa [rgenOps, rtemplate, rspec, flagsAfter] using incCode_exec L s false v
  | expr v e =>
    obtain ⟨s', h1, h2, h3, h4⟩ := exprStmt_exec L s fl v e hinv
    exact ⟨s', by simpa [rgenOps, rtemplate] using h1, by simpa [rspec] using h2, h3, by simpa [flagsAfter] using h4⟩
  | lin v e =>
    obtain ⟨s', h1, h2, h3, h4⟩ := linStmt_exec L s v e
    exact ⟨s', by simpa [rgenOps, rtemplate] using h1, by simpa [rspec] using h2, h3, by simpa [flagsAfter] using h4⟩
  | chain v a op1 b1 ops =>
    obtain ⟨s', h1, h2, h3, h4⟩ := chainStmt_exec L s v a op1 b1 ops
    exact ⟨s', by simpa [rgenOps, rtemplate] using h1, by simpa [rspec] using h2, h3, by simpa [flagsAfter] using h4⟩
  | asgW v a =>
    obtain ⟨s', h1, h2, h3⟩ := asgWCode_exec L s v a
    exact ⟨s', by simpa [rgenOps, rtemplate] using h1, by simpa [rspec] using h2, h3, by simp [flagsAfter]⟩
  | binW v op a b =>
    obtain ⟨s', h1, h2, h3⟩ := binWCode_exec L s v op (wordered op a b).1 (wordered op a b).2
    exact ⟨s', by simpa [rgenOps, rtemplate] using h1, by simpa [rspec] using h2, h3, by simp [flagsAfter]⟩
  | opasgW v op a =>
    obtain ⟨s', h1, h2, h3⟩ := binWCode_exec L s v op (.wvar v) a
    exact ⟨s', by simpa [rgenOps, rtemplate] using h1, by simpa [rspec] using h2, h3, by simp [flagsAfter]⟩

/-- the step-by-step specification is defined wherever the generator goes through -/
theorem evalE_defined {α : Type} (n : α) (r : Atom → α) (L : Layout) : ∀ (e : GExpr) (st : ES) (c : List (Mn × α)) (t : ET) (st' : ES)
    (σ : SrcSt) (a : Byte), genE n r st e = some (c, t, st') → ∃ q, evalE L σ a st e = some (q, t, st') := by
  intro e
  induction e with
  | atom x =>
    intro st c t st' σ a h
    simp only [genE, Option.some.injEq, Prod.mk.injEq] at h
    exact ⟨(σ, a), by simp [evalE, h.2.1, h.2.2]⟩
  | bin l op rr ihl ihr =>
    intro st c t st' σ a h
    simp only [genE] at h
    cases hl : genE n r st l with
    | none => simp [hl] at h
    | some x =>
      obtain ⟨cl, tl, s1⟩ := x
      simp only [hl] at h
      cases hr : genE n r s1 rr with
      | none => simp [hr] at h
      | some y =>
        obtain ⟨cr, tr, s2⟩ := y
        simp only [hr, arithm] at h
        cases hp : plan s2 tl op tr with
        | none => simp [hp] at h
        | some p =>
          simp only [hp, Option.map_some, Option.some.injEq, Prod.mk.injEq] at h
          obtain ⟨q1, e1⟩ := ihl st cl tl s1 σ a hl
          obtain ⟨q2, e2⟩ := ihr s1 cr tr s2 q1.1 q1.2 hr
          refine ⟨evalPlan L q2.1 q2.2 op p, ?_⟩
          simp only [evalE, e1, e2, evalArithm, hp, Option.map_some, h.2.1, h.2.2]

  | sh e left k ih =>
    intro st c t st' σ a h
    simp only [genE] at h
    cases he : genE n r st e with
    | none => simp [he] at h
    | some x =>
      obtain ⟨c1, t1, s1⟩ := x
      simp only [he] at h
      by_cases hok : shiftOK s1 t1 k = true
      · simp only [hok, if_true, Option.some.injEq, Prod.mk.injEq] at h
        obtain ⟨q1, e1⟩ := ih st c1 t1 s1 σ a he
        refine ⟨evalShift L q1.1 q1.2 s1 t1 left k, ?_⟩
        simp only [evalE, e1, hok, if_true, h.2.1, h.2.2]
      · simp [hok] at h

/-- where the result is, the generator state and whether the specification is defined do not depend on the
    machine state -/
theorem evalE_shape (L : Layout) : ∀ (e : GExpr) (σ τ : SrcSt) (a a' : Byte) (st : ES),
    (evalE L σ a st e).map (fun x => x.2) = (evalE L τ a' st e).map (fun x => x.2) := by
  intro e
  induction e with
  | atom x => intro σ τ a a' st; simp [evalE]
  | bin l op rr ihl ihr =>
    intro σ τ a a' st
    have h1 := ihl σ τ a a' st
    simp only [evalE]
    cases hl : evalE L σ a st l with
    | none =>
      cases hl' : evalE L τ a' st l with
      | none => simp
      | some y => simp [hl, hl'] at h1
    | some x =>
      cases hl' : evalE L τ a' st l with
      | none => simp [hl, hl'] at h1
      | some y =>
        obtain ⟨⟨σ1, a1⟩, tl, s1⟩ := x
        obtain ⟨⟨τ1, b1⟩, tl', s1'⟩ := y
        simp only [hl, hl', Option.map_some, Option.some.injEq, Prod.mk.injEq] at h1
        obtain ⟨ht, hs⟩ := h1
        subst ht; subst hs
        have h2 := ihr σ1 τ1 a1 b1 s1
        simp only
        cases hr : evalE L σ1 a1 s1 rr with
        | none =>
          cases hr' : evalE L τ1 b1 s1 rr with
          | none => simp
          | some y => simp [hr, hr'] at h2
        | some x =>
          cases hr' : evalE L τ1 b1 s1 rr with
          | none => simp [hr, hr'] at h2
          | some y =>
            obtain ⟨⟨σ2, a2⟩, tr, s2⟩ := x
            obtain ⟨⟨τ2, b2⟩, tr', s2'⟩ := y
            simp only [hr, hr', Option.map_some, Option.some.injEq, Prod.mk.injEq] at h2
            obtain ⟨ht, hs⟩ := h2
            subst ht; subst hs
            simp only [evalArithm]
            cases plan s2 tl op tr <;> simp
  | sh e left k ih =>
    intro σ τ a a' st
    have h1 := ih σ τ a a' st
    simp only [evalE]
    cases he : evalE L σ a st e with
    | none =>
      cases he' : evalE L τ a' st e with
      | none => simp
      | some y => simp [he, he'] at h1
    | some x =>
      cases he' : evalE L τ a' st e with
      | none => simp [he, he'] at h1
      | some y =>
        obtain ⟨⟨σ1, a1⟩, t1, s1⟩ := x
        obtain ⟨⟨τ1, b1⟩, t1', s1'⟩ := y
        simp only [he, he', Option.map_some, Option.some.injEq, Prod.mk.injEq] at h1
        obtain ⟨ht, hs⟩ := h1
        subst ht; subst hs
        simp only
        split <;> simp

/-- a quiet tree changes nothing the source can see -/
theorem evalE_quiet (L : Layout) : ∀ (e : GExpr) (σ : SrcSt) (a : Byte) (st : ES) (q : SrcSt × Byte) (t : ET) (st' : ES),
    quietE st e = true → evalE L σ a st e = some (q, t, st') → q.1 = σ := by
  intro e
  induction e with
  | atom x =>
    intro σ a st q t st' _ h
    simp only [evalE, Option.some.injEq, Prod.mk.injEq] at h
    rw [← h.1]
  | bin l op rr ihl ihr =>
    intro σ a st q t st' hq h
    simp only [quietE, Bool.and_eq_true] at hq
    obtain ⟨hql, hrest⟩ := hq
    cases hgl : genE () (fun _ => ()) st l with
    | none => simp [hgl] at hrest
    | some x =>
      obtain ⟨cl, tl, s1⟩ := x
      simp only [hgl, Bool.and_eq_true] at hrest
      obtain ⟨hqr, hrest2⟩ := hrest
      cases hgr : genE () (fun _ => ()) s1 rr with
      | none => simp [hgr] at hrest2
      | some y =>
        obtain ⟨cr, tr, s2⟩ := y
        simp only [hgr] at hrest2
        obtain ⟨q1, e1⟩ := evalE_defined () (fun _ => ()) L l st cl tl s1 σ a hgl
        obtain ⟨q2, e2⟩ := evalE_defined () (fun _ => ()) L rr s1 cr tr s2 q1.1 q1.2 hgr
        have h1 := ihl σ a st q1 tl s1 hql e1
        have h2 := ihr q1.1 q1.2 s1 q2 tr s2 hqr e2
        obtain ⟨σ1, a1⟩ := q1
        obtain ⟨σ2, a2⟩ := q2
        simp only at h1 h2 e2
        simp only [evalE, e1, e2, evalArithm] at h
        cases hp : plan s2 tl op tr with
        | none => simp [hp] at h
        | some p =>
          simp only [hp, Bool.and_eq_true, Bool.not_eq_true'] at hrest2
          obtain ⟨⟨hsp, hsv⟩, hreg⟩ := hrest2
          simp only [hp, Option.map_some, Option.some.injEq, Prod.mk.injEq] at h
          rw [← h.1]
          simp only [evalPlan, hsp, hsv, Bool.false_eq_true, if_false, tmpWrite, hreg, Bool.false_and]
          rw [h2, h1]
  | sh e left k ih =>
    intro σ a st q t st' hq h
    simp only [quietE, Bool.and_eq_true] at hq
    obtain ⟨hqe, hrest⟩ := hq
    cases hg : genE () (fun _ => ()) st e with
    | none => simp [hg] at hrest
    | some x =>
      obtain ⟨c1, t1, s1⟩ := x
      simp only [hg, Bool.not_eq_true'] at hrest
      obtain ⟨q1, e1⟩ := evalE_defined () (fun _ => ()) L e st c1 t1 s1 σ a hg
      have h1 := ih σ a st q1 t1 s1 hqe e1
      obtain ⟨σ1, a1⟩ := q1
      simp only at h1
      simp only [evalE, e1] at h
      split at h
      · simp only [Option.some.injEq, Prod.mk.injEq] at h
        rw [← h.1]
        simp only [evalShift, hrest, Bool.false_eq_true, if_false]
        exact h1
      · cases h

end CV.GenReg
