/-
  Soundness of the translation validator CV.Valid: an accepted pair of programs behaves identically.
-/
import CV.Valid
set_option linter.unusedSimpArgs false
set_option linter.unusedVariables false
set_option maxHeartbeats 1000000
namespace CV.Valid
open CV

/-! ### operands depend on memory and the index registers only -/

theorem ea_frame (s s' : Cpu) (o : Opd) (hm : s'.mem = s.mem)
    (hx : Opd.usesX o = true → s'.x = s.x) (hy : Opd.usesY o = true → s'.y = s.y) : s'.ea o = s.ea o := by
  cases o <;> simp [Cpu.ea, Opd.usesX, Opd.usesY] at hx hy ⊢ <;> simp [hm, hx, hy]

theorem rd_frame (s s' : Cpu) (o : Opd) (hm : s'.mem = s.mem)
    (hx : Opd.usesX o = true → s'.x = s.x) (hy : Opd.usesY o = true → s'.y = s.y) : s'.rd o = s.rd o := by
  cases o with
  | imm v => rfl
  | none => simp [Cpu.rd, Cpu.ea]
  | lbl l => simp [Cpu.rd, Cpu.ea]
  | mem a => simp [Cpu.rd, Cpu.ea, hm]
  | memX a zp => have := hx rfl; simp [Cpu.rd, Cpu.ea, hm, this]
  | memY a zp => have := hy rfl; simp [Cpu.rd, Cpu.ea, hm, this]
  | indY z => have := hy rfl; simp [Cpu.rd, Cpu.ea, hm, this]
  | indX z => have := hx rfl; simp [Cpu.rd, Cpu.ea, hm, this]


/-! ### agreement of two machine states up to resources that are dead -/

structure Agree (D : Res → Bool) (s1 s2 : Cpu) : Prop where
  mem : s1.mem = s2.mem
  sp : s1.sp = s2.sp
  v : s1.f.v = s2.f.v
  a : D .a = false → s1.a = s2.a
  x : D .x = false → s1.x = s2.x
  y : D .y = false → s1.y = s2.y
  nz : D .nz = false → s1.f.n = s2.f.n ∧ s1.f.z = s2.f.z
  c : D .c = false → s1.f.c = s2.f.c

theorem Agree.full {s1 s2 : Cpu} (h : Agree (fun _ => false) s1 s2) : s1 = s2 := by
  obtain ⟨hm, hsp, hv, ha, hx, hy, hnz, hc⟩ := h
  have ha := ha rfl; have hx := hx rfl; have hy := hy rfl; have hnz := hnz rfl; have hc := hc rfl
  cases s1 with
  | mk a1 x1 y1 sp1 f1 m1 =>
    cases s2 with
    | mk a2 x2 y2 sp2 f2 m2 =>
      cases f1; cases f2
      simp_all

theorem Agree.refl (D : Res → Bool) (s : Cpu) : Agree D s s :=
  ⟨rfl, rfl, rfl, fun _ => rfl, fun _ => rfl, fun _ => rfl, fun _ => ⟨rfl, rfl⟩, fun _ => rfl⟩

/-- weaker requirement: more may be dead -/
theorem Agree.weaken {D D' : Res → Bool} {s1 s2 : Cpu} (h : Agree D s1 s2) (hd : ∀ r, D' r = false → D r = false) :
    Agree D' s1 s2 :=
  ⟨h.mem, h.sp, h.v, fun e => h.a (hd _ e), fun e => h.x (hd _ e), fun e => h.y (hd _ e), fun e => h.nz (hd _ e),
   fun e => h.c (hd _ e)⟩

theorem agree_operand {D : Res → Bool} {s1 s2 : Cpu} (h : Agree D s1 s2) (mn : Mn) (o : Opd)
    (hread : ∀ r, readsReg mn o r = true → D r = false) : s1.rd o = s2.rd o ∧ s1.ea o = s2.ea o := by
  have hx : Opd.usesX o = true → s1.x = s2.x := fun e => h.x (hread .x (by simp [readsReg, e]))
  have hy : Opd.usesY o = true → s1.y = s2.y := fun e => h.y (hread .y (by simp [readsReg, e]))
  exact ⟨rd_frame s2 s1 o h.mem hx hy, ea_frame s2 s1 o h.mem hx hy⟩

@[simp] theorem setNZ_n' (f : Flags) (v : Byte) : (Cpu.setNZ f v).n = v.msb := rfl
@[simp] theorem setNZ_z' (f : Flags) (v : Byte) : (Cpu.setNZ f v).z = (v == 0) := rfl
@[simp] theorem setNZ_c' (f : Flags) (v : Byte) : (Cpu.setNZ f v).c = f.c := rfl
@[simp] theorem setNZ_v' (f : Flags) (v : Byte) : (Cpu.setNZ f v).v = f.v := rfl

set_option hygiene false in
macro "rd_kind" : tactic => `(tactic| (
    simp only [Cpu.exec] at he ⊢
    rw [← hrd]
    cases hv' : s1.rd o with
    | none => simp [hv'] at he
    | some v =>
      simp [hv'] at he ⊢
      subst he
      simp [readsReg, writesReg, accShift] at qa qx qy qc wa wx wy wnz wc
      refine ⟨hmem, hsp, ?_, ?_, ?_, ?_, ?_, ?_⟩ <;> (try intro e) <;> simp [*, Cpu.adc, Cpu.sbc, Cpu.cmp]))

set_option hygiene false in
macro "ea_kind" : tactic => `(tactic| (
    simp only [Cpu.exec] at he ⊢
    first
    | (rw [← hea]
       cases hv' : s1.ea o with
       | none => simp [hv'] at he
       | some ad =>
         simp [hv'] at he ⊢
         subst he
         simp [readsReg, writesReg, accShift] at qa qx qy qc wa wx wy wnz wc
         refine ⟨by simp [*], hsp, ?_, ?_, ?_, ?_, ?_, ?_⟩ <;> (try intro e) <;> simp [*])
    | skip))

set_option hygiene false in
macro "impl_kind" : tactic => `(tactic| (
    simp only [Cpu.exec, Option.some.injEq] at he ⊢
    subst he
    simp [readsReg, writesReg, accShift] at qa qx qy qc wa wx wy wnz wc
    refine ⟨_, rfl, hmem, hsp, ?_, ?_, ?_, ?_, ?_, ?_⟩ <;> (try intro e) <;> simp [*]))

/-- an instruction kept in both programs: from agreeing states (up to dead resources it does not read) it
    leads to agreeing states -/
theorem exec_agree {D D' : Res → Bool} {s1 s2 s1' : Cpu} (mn : Mn) (o : Opd) (hs : supported mn = true)
    (h : Agree D s1 s2)
    (hread : ∀ r, readsReg mn o r = true → D r = false)
    (hD : ∀ r, D' r = false → writesReg mn o r = true ∨ D r = false)
    (he : s1.exec mn o = some s1') : ∃ s2', s2.exec mn o = some s2' ∧ Agree D' s1' s2' := by
  obtain ⟨hrd, hea⟩ := agree_operand h mn o hread
  have qa : readsReg mn o .a = true → s1.a = s2.a := fun e => h.a (hread _ e)
  have qx : readsReg mn o .x = true → s1.x = s2.x := fun e => h.x (hread _ e)
  have qy : readsReg mn o .y = true → s1.y = s2.y := fun e => h.y (hread _ e)
  have qc : readsReg mn o .c = true → s1.f.c = s2.f.c := fun e => h.c (hread _ e)
  have wa : D' .a = false → writesReg mn o .a = true ∨ s1.a = s2.a := fun e => (hD _ e).imp id h.a
  have wx : D' .x = false → writesReg mn o .x = true ∨ s1.x = s2.x := fun e => (hD _ e).imp id h.x
  have wy : D' .y = false → writesReg mn o .y = true ∨ s1.y = s2.y := fun e => (hD _ e).imp id h.y
  have wnz : D' .nz = false → writesReg mn o .nz = true ∨ (s1.f.n = s2.f.n ∧ s1.f.z = s2.f.z) := fun e => (hD _ e).imp id h.nz
  have wc : D' .c = false → writesReg mn o .c = true ∨ s1.f.c = s2.f.c := fun e => (hD _ e).imp id h.c
  have hmem := h.mem
  have hsp := h.sp
  have hv := h.v
  cases mn <;> simp [supported] at hs
  case LDA => rd_kind
  case LDX => rd_kind
  case LDY => rd_kind
  case ADC => rd_kind
  case SBC => rd_kind
  case EOR => rd_kind
  case AND => rd_kind
  case ORA => rd_kind
  case CMP => rd_kind
  case CPX => rd_kind
  case CPY => rd_kind
  case STA => ea_kind
  case STX => ea_kind
  case STY => ea_kind
  case TAX => impl_kind
  case TAY => impl_kind
  case TXA => impl_kind
  case TYA => impl_kind
  case CLC => impl_kind
  case SEC => impl_kind
  case NOP => impl_kind
  case INX => impl_kind
  case INY => impl_kind
  case DEX => impl_kind
  case DEY => impl_kind
  case INC =>
    cases o <;> simp [Cpu.exec, Cpu.ea] at he hea ⊢ <;> subst he <;>
      simp [readsReg, writesReg, accShift, Opd.usesX, Opd.usesY] at qa qx qy qc wa wx wy wnz wc <;>
      (refine ⟨by simp [*], hsp, ?_, ?_, ?_, ?_, ?_, ?_⟩ <;> (try intro e) <;> simp [*])
  case DEC =>
    cases o <;> simp [Cpu.exec, Cpu.ea] at he hea ⊢ <;> subst he <;>
      simp [readsReg, writesReg, accShift, Opd.usesX, Opd.usesY] at qa qx qy qc wa wx wy wnz wc <;>
      (refine ⟨by simp [*], hsp, ?_, ?_, ?_, ?_, ?_, ?_⟩ <;> (try intro e) <;> simp [*])
  case ASL =>
    cases o <;> simp [Cpu.exec, Cpu.rmw, Cpu.ea, Cpu.gASL] at he hea ⊢ <;> subst he <;>
      simp [readsReg, writesReg, accShift, Opd.usesX, Opd.usesY] at qa qx qy qc wa wx wy wnz wc <;>
      (refine ⟨by simp [*], hsp, ?_, ?_, ?_, ?_, ?_, ?_⟩ <;> (try intro e) <;> simp [*])
  case LSR =>
    cases o <;> simp [Cpu.exec, Cpu.rmw, Cpu.ea, Cpu.gLSR] at he hea ⊢ <;> subst he <;>
      simp [readsReg, writesReg, accShift, Opd.usesX, Opd.usesY] at qa qx qy qc wa wx wy wnz wc <;>
      (refine ⟨by simp [*], hsp, ?_, ?_, ?_, ?_, ?_, ?_⟩ <;> (try intro e) <;> simp [*])
  case ROL =>
    cases o <;> simp [Cpu.exec, Cpu.rmw, Cpu.ea, Cpu.gROL] at he hea ⊢ <;> subst he <;>
      simp [readsReg, writesReg, accShift, Opd.usesX, Opd.usesY] at qa qx qy qc wa wx wy wnz wc <;>
      (refine ⟨by simp [*], hsp, ?_, ?_, ?_, ?_, ?_, ?_⟩ <;> (try intro e) <;> simp [*])
  case ROR =>
    cases o <;> simp [Cpu.exec, Cpu.rmw, Cpu.ea, Cpu.gROR] at he hea ⊢ <;> subst he <;>
      simp [readsReg, writesReg, accShift, Opd.usesX, Opd.usesY] at qa qx qy qc wa wx wy wnz wc <;>
      (refine ⟨by simp [*], hsp, ?_, ?_, ?_, ?_, ?_, ?_⟩ <;> (try intro e) <;> simp [*])
  case PHA =>
    simp only [Cpu.exec, Option.some.injEq] at he ⊢
    subst he
    simp [readsReg, writesReg, accShift] at qa qx qy qc wa wx wy wnz wc
    refine ⟨_, rfl, ?_, ?_, ?_, ?_, ?_, ?_, ?_, ?_⟩ <;> (try intro e) <;> simp [Cpu.push, *]
  case PLA =>
    simp only [Cpu.exec, Option.some.injEq] at he ⊢
    subst he
    simp [readsReg, writesReg, accShift] at qa qx qy qc wa wx wy wnz wc
    refine ⟨_, rfl, ?_, ?_, ?_, ?_, ?_, ?_, ?_, ?_⟩ <;> (try intro e) <;> simp [Cpu.pull, *]



/-! ### soundness of the facts -/

theorem stab_A {s s' : Cpu} (hm : s'.mem = s.mem) (hx : s'.x = s.x) (hy : s'.y = s.y) (src : Src) (v : Byte)
    (hp : Src.usesA src = false) (h : srcHolds s v src) : srcHolds s' v src := by
  cases src with
  | opd o => simp only [srcHolds] at h ⊢; rw [rd_frame s s' o hm (fun _ => hx) (fun _ => hy)]; exact h
  | ra => simp [Src.usesA] at hp
  | rx => simp only [srcHolds] at h ⊢; rw [hx]; exact h
  | ry => simp only [srcHolds] at h ⊢; rw [hy]; exact h

theorem stab_X {s s' : Cpu} (hm : s'.mem = s.mem) (ha : s'.a = s.a) (hy : s'.y = s.y) (src : Src) (v : Byte)
    (hp : Src.usesX src = false) (h : srcHolds s v src) : srcHolds s' v src := by
  cases src with
  | opd o =>
    simp only [srcHolds] at h ⊢
    have : Opd.usesX o = false := by simpa [Src.usesX] using hp
    rw [rd_frame s s' o hm (fun e => by simp [this] at e) (fun _ => hy)]; exact h
  | ra => simp only [srcHolds] at h ⊢; rw [ha]; exact h
  | rx => simp [Src.usesX] at hp
  | ry => simp only [srcHolds] at h ⊢; rw [hy]; exact h

theorem stab_Y {s s' : Cpu} (hm : s'.mem = s.mem) (ha : s'.a = s.a) (hx : s'.x = s.x) (src : Src) (v : Byte)
    (hp : Src.usesY src = false) (h : srcHolds s v src) : srcHolds s' v src := by
  cases src with
  | opd o =>
    simp only [srcHolds] at h ⊢
    have : Opd.usesY o = false := by simpa [Src.usesY] using hp
    rw [rd_frame s s' o hm (fun _ => hx) (fun e => by simp [this] at e)]; exact h
  | ra => simp only [srcHolds] at h ⊢; rw [ha]; exact h
  | rx => simp only [srcHolds] at h ⊢; rw [hx]; exact h
  | ry => simp [Src.usesY] at hp

theorem stab_M {s s' : Cpu} (ha : s'.a = s.a) (hx : s'.x = s.x) (hy : s'.y = s.y) (src : Src) (v : Byte)
    (hp : Src.isMem src = false) (h : srcHolds s v src) : srcHolds s' v src := by
  cases src with
  | opd o =>
    cases o <;> simp [Src.isMem] at hp
    simpa [srcHolds, Cpu.rd] using h
  | ra => simp only [srcHolds] at h ⊢; rw [ha]; exact h
  | rx => simp only [srcHolds] at h ⊢; rw [hx]; exact h
  | ry => simp only [srcHolds] at h ⊢; rw [hy]; exact h

theorem stab_F {s s' : Cpu} (hm : s'.mem = s.mem) (ha : s'.a = s.a) (hx : s'.x = s.x) (hy : s'.y = s.y) (src : Src) (v : Byte)
    (h : srcHolds s v src) : srcHolds s' v src := by
  cases src with
  | opd o => simp only [srcHolds] at h ⊢; rw [rd_frame s s' o hm (fun _ => hx) (fun _ => hy)]; exact h
  | ra => simp only [srcHolds] at h ⊢; rw [ha]; exact h
  | rx => simp only [srcHolds] at h ⊢; rw [hx]; exact h
  | ry => simp only [srcHolds] at h ⊢; rw [hy]; exact h

theorem optHolds_clr {s s' : Cpu} {v : Byte} {p : Src → Bool} {l : List Src}
    (hst : ∀ src, p src = false → srcHolds s v src → srcHolds s' v src) (h : optHolds s v l) :
    optHolds s' v (clr p l) := by
  intro src hs
  simp only [clr, List.mem_filter, Bool.not_eq_true'] at hs
  exact hst src hs.2 (h src hs.1)

theorem optHolds_all {s s' : Cpu} {v : Byte} {l : List Src}
    (hst : ∀ src, srcHolds s v src → srcHolds s' v src) (h : optHolds s v l) : optHolds s' v l :=
  fun src hs => hst src (h src hs)

theorem optHolds_nil (s : Cpu) (v : Byte) : optHolds s v [] := fun _ h => by simp at h

theorem optHolds_cons {s : Cpu} {v : Byte} {src : Src} {l : List Src} (h1 : srcHolds s v src) (h2 : optHolds s v l) :
    optHolds s v (src :: l) := by
  intro x hx
  simp only [List.mem_cons] at hx
  rcases hx with rfl | hx
  · exact h1
  · exact h2 x hx

theorem knownImm_mem (l : List Src) (v : Byte) (h : knownImm l = some v) : Src.opd (.imm v) ∈ l := by
  induction l with
  | nil => simp [knownImm] at h
  | cons x xs ih =>
    cases x with
    | opd o =>
      cases o with
      | imm w => simp [knownImm] at h; subst h; simp
      | _ => simp [knownImm] at h; simp [ih h]
    | _ => simp [knownImm] at h; simp [ih h]

theorem sub_beq_zero' (a m : Byte) : (a - m == 0) = (a == m) := by
  by_cases h : a = m
  · subst h; simp
  · have hne : a.toNat ≠ m.toNat := fun e => h (BitVec.eq_of_toNat_eq e)
    have h2 : a - m ≠ 0 := by
      intro e
      have := congrArg BitVec.toNat e
      simp [BitVec.toNat_sub] at this
      have ha := a.isLt
      have hm := m.isLt
      omega
    have e1 : (a - m == 0) = false := by simpa using h2
    have e2 : (a == m) = false := by simpa using h
    rw [e1, e2]

theorem holds_top (s : Cpu) : Facts.top.holds s := by
  simp [Facts.holds, Facts.top, optHolds, nzHolds, zHolds]

theorem cmpZ_sound (K : Facts) (s : Cpu) (r : Res) (o : Opd) (v : Byte) (hK : K.holds s)
    (hr : s.rd o = some v) (hreg : r = .a ∨ r = .x ∨ r = .y) :
    zHolds (s.cmp (regVal s r) v) (cmpZ K r o) := by
  unfold cmpZ
  cases hk : knownImm (K.reg r) with
  | none => simp [zHolds]
  | some w =>
    cases o with
    | imm c =>
      simp only [zHolds]
      have hmem := knownImm_mem _ _ hk
      have hw : regVal s r = w := by
        obtain ⟨h1, h2, h3, _, _⟩ := hK
        rcases hreg with rfl | rfl | rfl
        · have := h1 _ hmem; simpa [srcHolds, Cpu.rd, regVal] using this.symm
        · have := h2 _ hmem; simpa [srcHolds, Cpu.rd, regVal] using this.symm
        · have := h3 _ hmem; simpa [srcHolds, Cpu.rd, regVal] using this.symm
      have hv : v = c := by simpa [Cpu.rd] using hr.symm
      subst hv
      simp [hw, Cpu.cmp]
      exact sub_beq_zero' w v
    | _ => simp [zHolds]

theorem keep_clr {s s' : Cpu} {p : Src → Bool} {l : List Src} {v v' : Byte} (hv : v' = v)
    (hst : ∀ src, p src = false → srcHolds s v src → srcHolds s' v src) (h : optHolds s v l) :
    optHolds s' v' (clr p l) := by subst hv; exact optHolds_clr hst h

theorem keep_all {s s' : Cpu} {l : List Src} {v v' : Byte} (hv : v' = v)
    (hst : ∀ src, srcHolds s v src → srcHolds s' v src) (h : optHolds s v l) :
    optHolds s' v' l := by subst hv; exact optHolds_all hst h

theorem lists_keep {K : Facts} {s s' : Cpu} (hm : s'.mem = s.mem) (ha : s'.a = s.a) (hx : s'.x = s.x) (hy : s'.y = s.y)
    (ka : optHolds s s.a K.a) (kx : optHolds s s.x K.x) (ky : optHolds s s.y K.y) :
    optHolds s' s'.a K.a ∧ optHolds s' s'.x K.x ∧ optHolds s' s'.y K.y :=
  ⟨keep_all ha (fun src h => stab_F hm ha hx hy src _ h) ka,
   keep_all hx (fun src h => stab_F hm ha hx hy src _ h) kx,
   keep_all hy (fun src h => stab_F hm ha hx hy src _ h) ky⟩

theorem lists_killM {K : Facts} {s s' : Cpu} (ha : s'.a = s.a) (hx : s'.x = s.x) (hy : s'.y = s.y)
    (ka : optHolds s s.a K.a) (kx : optHolds s s.x K.x) (ky : optHolds s s.y K.y) :
    optHolds s' s'.a (clr Src.isMem K.a) ∧ optHolds s' s'.x (clr Src.isMem K.x) ∧ optHolds s' s'.y (clr Src.isMem K.y) :=
  ⟨keep_clr ha (fun src hp h => stab_M ha hx hy src _ hp h) ka,
   keep_clr hx (fun src hp h => stab_M ha hx hy src _ hp h) kx,
   keep_clr hy (fun src hp h => stab_M ha hx hy src _ hp h) ky⟩

theorem nz_of_set (s' : Cpu) (r : Res) (v : Byte) (hr : regVal s' r = v) (hn : s'.f.n = v.msb) (hz : s'.f.z = (v == 0)) :
    nzHolds s' (some r) := by
  simp only [nzHolds, hr]; exact ⟨hn, hz⟩

theorem nz_keep {s s' : Cpu} (K : Facts) (ha : s'.a = s.a) (hx : s'.x = s.x) (hy : s'.y = s.y)
    (hn : s'.f.n = s.f.n) (hz : s'.f.z = s.f.z) (h : nzHolds s K.nz) : nzHolds s' K.nz := by
  cases hk : K.nz with
  | none => simp [nzHolds]
  | some r =>
    rw [hk] at h
    simp only [nzHolds] at h ⊢
    have : regVal s' r = regVal s r := by cases r <;> simp [regVal, ha, hx, hy]
    rw [this, hn, hz]; exact h

theorem xfer_sound (K : Facts) (mn : Mn) (o : Opd) (s s' : Cpu) (hs : supported mn = true) (hK : K.holds s)
    (he : s.exec mn o = some s') : (xfer K mn o).holds s' := by
  obtain ⟨ka, kx, ky, knz, kz⟩ := hK
  cases mn <;> simp [supported] at hs
  case LDA =>
    simp only [Cpu.exec] at he
    cases hv : s.rd o with
    | none => simp [hv] at he
    | some v =>
      simp [hv] at he
      have hm : s'.mem = s.mem := by rw [← he]
      have hx : s'.x = s.x := by rw [← he]
      have hy : s'.y = s.y := by rw [← he]
      have ha : s'.a = v := by rw [← he]
      have hn : s'.f.n = v.msb ∧ s'.f.z = (v == 0) := by rw [← he]; simp
      simp only [xfer]
      split
      · rename_i hc
        have hmem : Src.opd o ∈ K.a := by simpa using hc
        have hav : s.a = v := by have := ka _ hmem; simp [srcHolds, hv] at this; exact this.symm
        have ha' : s'.a = s.a := by rw [ha, hav]
        obtain ⟨l1, l2, l3⟩ := lists_keep hm ha' hx hy ka kx ky
        exact ⟨l1, l2, l3, nz_of_set s' .a v ha hn.1 hn.2, by simp [zHolds]⟩
      · refine ⟨?_, ?_, ?_, nz_of_set s' .a v ha hn.1 hn.2, by simp [zHolds]⟩
        · intro src hsrc
          simp at hsrc; subst hsrc
          simp only [srcHolds]
          rw [ha]
          exact (rd_frame s s' o hm (fun _ => hx) (fun _ => hy)).trans hv
        · exact keep_clr hx (fun src hp h => stab_A hm hx hy src _ hp h) kx
        · exact keep_clr hy (fun src hp h => stab_A hm hx hy src _ hp h) ky
  case LDX =>
    simp only [Cpu.exec] at he
    cases hv : s.rd o with
    | none => simp [hv] at he
    | some v =>
      simp [hv] at he
      have hm : s'.mem = s.mem := by rw [← he]
      have ha : s'.a = s.a := by rw [← he]
      have hy : s'.y = s.y := by rw [← he]
      have hx : s'.x = v := by rw [← he]
      have hn : s'.f.n = v.msb ∧ s'.f.z = (v == 0) := by rw [← he]; simp
      simp only [xfer]
      split
      · rename_i hc
        have hmem : Src.opd o ∈ K.x := by simpa using hc
        have hxv : s.x = v := by have := kx _ hmem; simp [srcHolds, hv] at this; exact this.symm
        have hx' : s'.x = s.x := by rw [hx, hxv]
        obtain ⟨l1, l2, l3⟩ := lists_keep hm ha hx' hy ka kx ky
        exact ⟨l1, l2, l3, nz_of_set s' .x v hx hn.1 hn.2, by simp [zHolds]⟩
      · refine ⟨?_, ?_, ?_, nz_of_set s' .x v hx hn.1 hn.2, by simp [zHolds]⟩
        · exact keep_clr ha (fun src hp h => stab_X hm ha hy src _ hp h) ka
        · split
          · exact optHolds_nil _ _
          · rename_i hu
            intro src hsrc
            simp at hsrc; subst hsrc
            simp only [srcHolds]
            rw [hx]
            exact (rd_frame s s' o hm (fun e => absurd e hu) (fun _ => hy)).trans hv
        · exact keep_clr hy (fun src hp h => stab_X hm ha hy src _ hp h) ky
  case LDY =>
    simp only [Cpu.exec] at he
    cases hv : s.rd o with
    | none => simp [hv] at he
    | some v =>
      simp [hv] at he
      have hm : s'.mem = s.mem := by rw [← he]
      have ha : s'.a = s.a := by rw [← he]
      have hx : s'.x = s.x := by rw [← he]
      have hy : s'.y = v := by rw [← he]
      have hn : s'.f.n = v.msb ∧ s'.f.z = (v == 0) := by rw [← he]; simp
      simp only [xfer]
      split
      · rename_i hc
        have hmem : Src.opd o ∈ K.y := by simpa using hc
        have hyv : s.y = v := by have := ky _ hmem; simp [srcHolds, hv] at this; exact this.symm
        have hy' : s'.y = s.y := by rw [hy, hyv]
        obtain ⟨l1, l2, l3⟩ := lists_keep hm ha hx hy' ka kx ky
        exact ⟨l1, l2, l3, nz_of_set s' .y v hy hn.1 hn.2, by simp [zHolds]⟩
      · refine ⟨?_, ?_, ?_, nz_of_set s' .y v hy hn.1 hn.2, by simp [zHolds]⟩
        · exact keep_clr ha (fun src hp h => stab_Y hm ha hx src _ hp h) ka
        · exact keep_clr hx (fun src hp h => stab_Y hm ha hx src _ hp h) kx
        · split
          · exact optHolds_nil _ _
          · rename_i hu
            intro src hsrc
            simp at hsrc; subst hsrc
            simp only [srcHolds]
            rw [hy]
            exact (rd_frame s s' o hm (fun _ => hx) (fun e => absurd e hu)).trans hv
  case STA =>
    simp only [Cpu.exec] at he
    cases hv : s.ea o with
    | none => simp [hv] at he
    | some ad =>
      simp [hv] at he
      have ha : s'.a = s.a := by rw [← he]
      have hx : s'.x = s.x := by rw [← he]
      have hy : s'.y = s.y := by rw [← he]
      have hf : s'.f = s.f := by rw [← he]
      have hmw : s'.mem = s.mem.write ad s.a := by rw [← he]
      obtain ⟨l1, l2, l3⟩ := lists_killM ha hx hy ka kx ky
      simp only [xfer, Facts.kill]
      refine ⟨?_, l2, l3, nz_keep K ha hx hy (by rw [hf]) (by rw [hf]) knz, by simpa [zHolds, hf] using kz⟩
      split
      · rename_i hd
        refine optHolds_cons ?_ l1
        simp only [srcHolds]
        have hea : s'.ea o = some ad := by
          cases o <;> simp [Opd.direct] at hd <;> simp [Cpu.ea, hx, hy] at hv ⊢ <;> exact hv
        cases o <;> simp [Opd.direct] at hd <;> simp [Cpu.rd, hea, hmw, ha]
      · exact l1
  case STX =>
    simp only [Cpu.exec] at he
    cases hv : s.ea o with
    | none => simp [hv] at he
    | some ad =>
      simp [hv] at he
      have ha : s'.a = s.a := by rw [← he]
      have hx : s'.x = s.x := by rw [← he]
      have hy : s'.y = s.y := by rw [← he]
      have hf : s'.f = s.f := by rw [← he]
      have hmw : s'.mem = s.mem.write ad s.x := by rw [← he]
      obtain ⟨l1, l2, l3⟩ := lists_killM ha hx hy ka kx ky
      simp only [xfer, Facts.kill]
      refine ⟨l1, ?_, l3, nz_keep K ha hx hy (by rw [hf]) (by rw [hf]) knz, by simpa [zHolds, hf] using kz⟩
      split
      · rename_i hd
        simp only [Bool.and_eq_true, Bool.not_eq_true'] at hd
        refine optHolds_cons ?_ l2
        simp only [srcHolds]
        have hea : s'.ea o = some ad := by
          cases o <;> simp [Opd.direct] at hd <;> simp [Cpu.ea, hx, hy] at hv ⊢ <;> exact hv
        cases o <;> simp [Opd.direct] at hd <;> simp [Cpu.rd, hea, hmw, hx]
      · exact l2
  case STY =>
    simp only [Cpu.exec] at he
    cases hv : s.ea o with
    | none => simp [hv] at he
    | some ad =>
      simp [hv] at he
      have ha : s'.a = s.a := by rw [← he]
      have hx : s'.x = s.x := by rw [← he]
      have hy : s'.y = s.y := by rw [← he]
      have hf : s'.f = s.f := by rw [← he]
      have hmw : s'.mem = s.mem.write ad s.y := by rw [← he]
      obtain ⟨l1, l2, l3⟩ := lists_killM ha hx hy ka kx ky
      simp only [xfer, Facts.kill]
      refine ⟨l1, l2, ?_, nz_keep K ha hx hy (by rw [hf]) (by rw [hf]) knz, by simpa [zHolds, hf] using kz⟩
      split
      · rename_i hd
        simp only [Bool.and_eq_true, Bool.not_eq_true'] at hd
        refine optHolds_cons ?_ l3
        simp only [srcHolds]
        have hea : s'.ea o = some ad := by
          cases o <;> simp [Opd.direct] at hd <;> simp [Cpu.ea, hx, hy] at hv ⊢ <;> exact hv
        cases o <;> simp [Opd.direct] at hd <;> simp [Cpu.rd, hea, hmw, hy]
      · exact l3
  case TAX =>
    simp only [Cpu.exec, Option.some.injEq] at he
    have hm : s'.mem = s.mem := by rw [← he]
    have ha : s'.a = s.a := by rw [← he]
    have hy : s'.y = s.y := by rw [← he]
    have hx : s'.x = s.a := by rw [← he]
    have hn : s'.f.n = s.a.msb ∧ s'.f.z = (s.a == 0) := by rw [← he]; simp
    simp only [xfer, Facts.kill]
    refine ⟨keep_clr ha (fun src hp h => stab_X hm ha hy src _ hp h) ka, ?_,
      keep_clr hy (fun src hp h => stab_X hm ha hy src _ hp h) ky, nz_of_set s' .x s.a hx hn.1 hn.2, by simp [zHolds]⟩
    refine optHolds_cons (by simp [srcHolds, ha, hx]) ?_
    exact keep_clr hx (fun src hp h => stab_X hm ha hy src _ hp h) (keep_clr rfl (fun src _ h => h) ka)
  case TAY =>
    simp only [Cpu.exec, Option.some.injEq] at he
    have hm : s'.mem = s.mem := by rw [← he]
    have ha : s'.a = s.a := by rw [← he]
    have hx : s'.x = s.x := by rw [← he]
    have hy : s'.y = s.a := by rw [← he]
    have hn : s'.f.n = s.a.msb ∧ s'.f.z = (s.a == 0) := by rw [← he]; simp
    simp only [xfer, Facts.kill]
    refine ⟨keep_clr ha (fun src hp h => stab_Y hm ha hx src _ hp h) ka,
      keep_clr hx (fun src hp h => stab_Y hm ha hx src _ hp h) kx, ?_, nz_of_set s' .y s.a hy hn.1 hn.2, by simp [zHolds]⟩
    refine optHolds_cons (by simp [srcHolds, ha, hy]) ?_
    exact keep_clr hy (fun src hp h => stab_Y hm ha hx src _ hp h) (keep_clr rfl (fun src _ h => h) ka)
  case TXA =>
    simp only [Cpu.exec, Option.some.injEq] at he
    have hm : s'.mem = s.mem := by rw [← he]
    have hx : s'.x = s.x := by rw [← he]
    have hy : s'.y = s.y := by rw [← he]
    have ha : s'.a = s.x := by rw [← he]
    have hn : s'.f.n = s.x.msb ∧ s'.f.z = (s.x == 0) := by rw [← he]; simp
    simp only [xfer, Facts.kill]
    refine ⟨?_, keep_clr hx (fun src hp h => stab_A hm hx hy src _ hp h) kx,
      keep_clr hy (fun src hp h => stab_A hm hx hy src _ hp h) ky, nz_of_set s' .a s.x ha hn.1 hn.2, by simp [zHolds]⟩
    refine optHolds_cons (by simp [srcHolds, ha, hx]) ?_
    exact keep_clr ha (fun src hp h => stab_A hm hx hy src _ hp h) kx
  case TYA =>
    simp only [Cpu.exec, Option.some.injEq] at he
    have hm : s'.mem = s.mem := by rw [← he]
    have hx : s'.x = s.x := by rw [← he]
    have hy : s'.y = s.y := by rw [← he]
    have ha : s'.a = s.y := by rw [← he]
    have hn : s'.f.n = s.y.msb ∧ s'.f.z = (s.y == 0) := by rw [← he]; simp
    simp only [xfer, Facts.kill]
    refine ⟨?_, keep_clr hx (fun src hp h => stab_A hm hx hy src _ hp h) kx,
      keep_clr hy (fun src hp h => stab_A hm hx hy src _ hp h) ky, nz_of_set s' .a s.y ha hn.1 hn.2, by simp [zHolds]⟩
    refine optHolds_cons (by simp [srcHolds, ha, hy]) ?_
    exact keep_clr ha (fun src hp h => stab_A hm hx hy src _ hp h) ky
  case ADC =>
    simp only [Cpu.exec] at he
    cases hv : s.rd o with
    | none => simp [hv] at he
    | some v =>
      simp [hv] at he
      have hm : s'.mem = s.mem := by rw [← he] <;> simp [Cpu.adc, Cpu.sbc]
      have hx : s'.x = s.x := by rw [← he] <;> simp [Cpu.adc, Cpu.sbc]
      have hy : s'.y = s.y := by rw [← he] <;> simp [Cpu.adc, Cpu.sbc]
      have hn : s'.f.n = s'.a.msb ∧ s'.f.z = (s'.a == 0) := by rw [← he] <;> simp [Cpu.adc, Cpu.sbc]
      simp only [xfer, Facts.kill]
      exact ⟨optHolds_nil _ _, keep_clr hx (fun src hp h => stab_A hm hx hy src _ hp h) kx,
        keep_clr hy (fun src hp h => stab_A hm hx hy src _ hp h) ky, nz_of_set s' .a s'.a rfl hn.1 hn.2, by simp [zHolds]⟩
  case SBC =>
    simp only [Cpu.exec] at he
    cases hv : s.rd o with
    | none => simp [hv] at he
    | some v =>
      simp [hv] at he
      have hm : s'.mem = s.mem := by rw [← he] <;> simp [Cpu.adc, Cpu.sbc]
      have hx : s'.x = s.x := by rw [← he] <;> simp [Cpu.adc, Cpu.sbc]
      have hy : s'.y = s.y := by rw [← he] <;> simp [Cpu.adc, Cpu.sbc]
      have hn : s'.f.n = s'.a.msb ∧ s'.f.z = (s'.a == 0) := by rw [← he] <;> simp [Cpu.adc, Cpu.sbc]
      simp only [xfer, Facts.kill]
      exact ⟨optHolds_nil _ _, keep_clr hx (fun src hp h => stab_A hm hx hy src _ hp h) kx,
        keep_clr hy (fun src hp h => stab_A hm hx hy src _ hp h) ky, nz_of_set s' .a s'.a rfl hn.1 hn.2, by simp [zHolds]⟩
  case EOR =>
    simp only [Cpu.exec] at he
    cases hv : s.rd o with
    | none => simp [hv] at he
    | some v =>
      simp [hv] at he
      have hm : s'.mem = s.mem := by rw [← he] <;> simp [Cpu.adc, Cpu.sbc]
      have hx : s'.x = s.x := by rw [← he] <;> simp [Cpu.adc, Cpu.sbc]
      have hy : s'.y = s.y := by rw [← he] <;> simp [Cpu.adc, Cpu.sbc]
      have hn : s'.f.n = s'.a.msb ∧ s'.f.z = (s'.a == 0) := by rw [← he] <;> simp [Cpu.adc, Cpu.sbc]
      simp only [xfer, Facts.kill]
      exact ⟨optHolds_nil _ _, keep_clr hx (fun src hp h => stab_A hm hx hy src _ hp h) kx,
        keep_clr hy (fun src hp h => stab_A hm hx hy src _ hp h) ky, nz_of_set s' .a s'.a rfl hn.1 hn.2, by simp [zHolds]⟩
  case AND =>
    simp only [Cpu.exec] at he
    cases hv : s.rd o with
    | none => simp [hv] at he
    | some v =>
      simp [hv] at he
      have hm : s'.mem = s.mem := by rw [← he] <;> simp [Cpu.adc, Cpu.sbc]
      have hx : s'.x = s.x := by rw [← he] <;> simp [Cpu.adc, Cpu.sbc]
      have hy : s'.y = s.y := by rw [← he] <;> simp [Cpu.adc, Cpu.sbc]
      have hn : s'.f.n = s'.a.msb ∧ s'.f.z = (s'.a == 0) := by rw [← he] <;> simp [Cpu.adc, Cpu.sbc]
      simp only [xfer, Facts.kill]
      exact ⟨optHolds_nil _ _, keep_clr hx (fun src hp h => stab_A hm hx hy src _ hp h) kx,
        keep_clr hy (fun src hp h => stab_A hm hx hy src _ hp h) ky, nz_of_set s' .a s'.a rfl hn.1 hn.2, by simp [zHolds]⟩
  case ORA =>
    simp only [Cpu.exec] at he
    cases hv : s.rd o with
    | none => simp [hv] at he
    | some v =>
      simp [hv] at he
      have hm : s'.mem = s.mem := by rw [← he]
      have hx : s'.x = s.x := by rw [← he]
      have hy : s'.y = s.y := by rw [← he]
      have hn : s'.f.n = s'.a.msb ∧ s'.f.z = (s'.a == 0) := by rw [← he]; simp
      simp only [xfer]
      split
      · rename_i ho
        have ho' : o = .imm 0 := by simpa using ho
        subst ho'
        have hv0 : v = 0 := by simpa [Cpu.rd] using hv.symm
        have ha : s'.a = s.a := by rw [← he]; simp [hv0]
        obtain ⟨l1, l2, l3⟩ := lists_keep hm ha hx hy ka kx ky
        exact ⟨l1, l2, l3, nz_of_set s' .a s'.a rfl hn.1 hn.2, by simp [zHolds]⟩
      · simp only [Facts.kill]
        exact ⟨optHolds_nil _ _, keep_clr hx (fun src hp h => stab_A hm hx hy src _ hp h) kx,
          keep_clr hy (fun src hp h => stab_A hm hx hy src _ hp h) ky, nz_of_set s' .a s'.a rfl hn.1 hn.2, by simp [zHolds]⟩
  case CLC =>
    simp only [Cpu.exec, Option.some.injEq] at he
    have hm : s'.mem = s.mem := by rw [← he]
    have ha : s'.a = s.a := by rw [← he]
    have hx : s'.x = s.x := by rw [← he]
    have hy : s'.y = s.y := by rw [← he]
    have hn : s'.f.n = s.f.n := by rw [← he]
    have hz : s'.f.z = s.f.z := by rw [← he]
    obtain ⟨l1, l2, l3⟩ := lists_keep hm ha hx hy ka kx ky
    simp only [xfer]
    exact ⟨l1, l2, l3, nz_keep K ha hx hy hn hz knz, by simpa [zHolds, hz] using kz⟩
  case SEC =>
    simp only [Cpu.exec, Option.some.injEq] at he
    have hm : s'.mem = s.mem := by rw [← he]
    have ha : s'.a = s.a := by rw [← he]
    have hx : s'.x = s.x := by rw [← he]
    have hy : s'.y = s.y := by rw [← he]
    have hn : s'.f.n = s.f.n := by rw [← he]
    have hz : s'.f.z = s.f.z := by rw [← he]
    obtain ⟨l1, l2, l3⟩ := lists_keep hm ha hx hy ka kx ky
    simp only [xfer]
    exact ⟨l1, l2, l3, nz_keep K ha hx hy hn hz knz, by simpa [zHolds, hz] using kz⟩
  case NOP =>
    simp only [Cpu.exec, Option.some.injEq] at he
    have hm : s'.mem = s.mem := by rw [← he]
    have ha : s'.a = s.a := by rw [← he]
    have hx : s'.x = s.x := by rw [← he]
    have hy : s'.y = s.y := by rw [← he]
    have hn : s'.f.n = s.f.n := by rw [← he]
    have hz : s'.f.z = s.f.z := by rw [← he]
    obtain ⟨l1, l2, l3⟩ := lists_keep hm ha hx hy ka kx ky
    simp only [xfer]
    exact ⟨l1, l2, l3, nz_keep K ha hx hy hn hz knz, by simpa [zHolds, hz] using kz⟩
  case CMP =>
    simp only [Cpu.exec] at he
    cases hv : s.rd o with
    | none => simp [hv] at he
    | some v =>
      simp [hv] at he
      have hm : s'.mem = s.mem := by rw [← he] <;> simp [Cpu.cmp]
      have ha : s'.a = s.a := by rw [← he] <;> simp [Cpu.cmp]
      have hx : s'.x = s.x := by rw [← he] <;> simp [Cpu.cmp]
      have hy : s'.y = s.y := by rw [← he] <;> simp [Cpu.cmp]
      obtain ⟨l1, l2, l3⟩ := lists_keep hm ha hx hy ka kx ky
      simp only [xfer]
      refine ⟨l1, l2, l3, by simp [nzHolds], ?_⟩
      have := cmpZ_sound K s .a o v ⟨ka, kx, ky, knz, kz⟩ hv (by simp)
      rw [← he]
      exact this
  case CPX =>
    simp only [Cpu.exec] at he
    cases hv : s.rd o with
    | none => simp [hv] at he
    | some v =>
      simp [hv] at he
      have hm : s'.mem = s.mem := by rw [← he] <;> simp [Cpu.cmp]
      have ha : s'.a = s.a := by rw [← he] <;> simp [Cpu.cmp]
      have hx : s'.x = s.x := by rw [← he] <;> simp [Cpu.cmp]
      have hy : s'.y = s.y := by rw [← he] <;> simp [Cpu.cmp]
      obtain ⟨l1, l2, l3⟩ := lists_keep hm ha hx hy ka kx ky
      simp only [xfer]
      refine ⟨l1, l2, l3, by simp [nzHolds], ?_⟩
      have := cmpZ_sound K s .x o v ⟨ka, kx, ky, knz, kz⟩ hv (by simp)
      rw [← he]
      exact this
  case CPY =>
    simp only [Cpu.exec] at he
    cases hv : s.rd o with
    | none => simp [hv] at he
    | some v =>
      simp [hv] at he
      have hm : s'.mem = s.mem := by rw [← he] <;> simp [Cpu.cmp]
      have ha : s'.a = s.a := by rw [← he] <;> simp [Cpu.cmp]
      have hx : s'.x = s.x := by rw [← he] <;> simp [Cpu.cmp]
      have hy : s'.y = s.y := by rw [← he] <;> simp [Cpu.cmp]
      obtain ⟨l1, l2, l3⟩ := lists_keep hm ha hx hy ka kx ky
      simp only [xfer]
      refine ⟨l1, l2, l3, by simp [nzHolds], ?_⟩
      have := cmpZ_sound K s .y o v ⟨ka, kx, ky, knz, kz⟩ hv (by simp)
      rw [← he]
      exact this
  case INX =>
    simp only [Cpu.exec, Option.some.injEq] at he
    have hm : s'.mem = s.mem := by rw [← he]
    have ha : s'.a = s.a := by rw [← he]
    have hy : s'.y = s.y := by rw [← he]
    have hn : s'.f.n = s'.x.msb ∧ s'.f.z = (s'.x == 0) := by rw [← he]; simp
    simp only [xfer, Facts.kill]
    exact ⟨keep_clr ha (fun src hp h => stab_X hm ha hy src _ hp h) ka, optHolds_nil _ _,
      keep_clr hy (fun src hp h => stab_X hm ha hy src _ hp h) ky, nz_of_set s' .x s'.x rfl hn.1 hn.2, by simp [zHolds]⟩
  case DEX =>
    simp only [Cpu.exec, Option.some.injEq] at he
    have hm : s'.mem = s.mem := by rw [← he]
    have ha : s'.a = s.a := by rw [← he]
    have hy : s'.y = s.y := by rw [← he]
    have hn : s'.f.n = s'.x.msb ∧ s'.f.z = (s'.x == 0) := by rw [← he]; simp
    simp only [xfer, Facts.kill]
    exact ⟨keep_clr ha (fun src hp h => stab_X hm ha hy src _ hp h) ka, optHolds_nil _ _,
      keep_clr hy (fun src hp h => stab_X hm ha hy src _ hp h) ky, nz_of_set s' .x s'.x rfl hn.1 hn.2, by simp [zHolds]⟩
  case INY =>
    simp only [Cpu.exec, Option.some.injEq] at he
    have hm : s'.mem = s.mem := by rw [← he]
    have ha : s'.a = s.a := by rw [← he]
    have hx : s'.x = s.x := by rw [← he]
    have hn : s'.f.n = s'.y.msb ∧ s'.f.z = (s'.y == 0) := by rw [← he]; simp
    simp only [xfer, Facts.kill]
    exact ⟨keep_clr ha (fun src hp h => stab_Y hm ha hx src _ hp h) ka, keep_clr hx (fun src hp h => stab_Y hm ha hx src _ hp h) kx,
      optHolds_nil _ _, nz_of_set s' .y s'.y rfl hn.1 hn.2, by simp [zHolds]⟩
  case DEY =>
    simp only [Cpu.exec, Option.some.injEq] at he
    have hm : s'.mem = s.mem := by rw [← he]
    have ha : s'.a = s.a := by rw [← he]
    have hx : s'.x = s.x := by rw [← he]
    have hn : s'.f.n = s'.y.msb ∧ s'.f.z = (s'.y == 0) := by rw [← he]; simp
    simp only [xfer, Facts.kill]
    exact ⟨keep_clr ha (fun src hp h => stab_Y hm ha hx src _ hp h) ka, keep_clr hx (fun src hp h => stab_Y hm ha hx src _ hp h) kx,
      optHolds_nil _ _, nz_of_set s' .y s'.y rfl hn.1 hn.2, by simp [zHolds]⟩
  case PHA =>
    simp only [Cpu.exec, Option.some.injEq] at he
    have ha : s'.a = s.a := by rw [← he]; simp [Cpu.push]
    have hx : s'.x = s.x := by rw [← he]; simp [Cpu.push]
    have hy : s'.y = s.y := by rw [← he]; simp [Cpu.push]
    have hf : s'.f = s.f := by rw [← he]; simp [Cpu.push]
    obtain ⟨l1, l2, l3⟩ := lists_killM ha hx hy ka kx ky
    simp only [xfer, Facts.kill]
    exact ⟨l1, l2, l3, nz_keep K ha hx hy (by rw [hf]) (by rw [hf]) knz, by simpa [zHolds, hf] using kz⟩
  case PLA =>
    simp only [Cpu.exec, Option.some.injEq] at he
    have hm : s'.mem = s.mem := by rw [← he]; simp [Cpu.pull]
    have hx : s'.x = s.x := by rw [← he]; simp [Cpu.pull]
    have hy : s'.y = s.y := by rw [← he]; simp [Cpu.pull]
    have hn : s'.f.n = s'.a.msb ∧ s'.f.z = (s'.a == 0) := by rw [← he]; simp [Cpu.pull]
    simp only [xfer, Facts.kill]
    exact ⟨optHolds_nil _ _, keep_clr hx (fun src hp h => stab_A hm hx hy src _ hp h) kx,
      keep_clr hy (fun src hp h => stab_A hm hx hy src _ hp h) ky, nz_of_set s' .a s'.a rfl hn.1 hn.2, by simp [zHolds]⟩
  case INC =>
    have hex : ∃ ad, s.ea o = some ad ∧ s' = { s with mem := s.mem.write ad (s.mem.read ad + 1), f := Cpu.setNZ s.f (s.mem.read ad + 1) } := by
      cases o <;> simp [Cpu.exec, Cpu.ea] at he ⊢ <;> exact he.symm
    obtain ⟨ad, _, hs'⟩ := hex
    have ha : s'.a = s.a := by rw [hs']
    have hx : s'.x = s.x := by rw [hs']
    have hy : s'.y = s.y := by rw [hs']
    obtain ⟨l1, l2, l3⟩ := lists_killM ha hx hy ka kx ky
    simp only [xfer, Facts.kill]
    exact ⟨l1, l2, l3, by simp [nzHolds], by simp [zHolds]⟩
  case DEC =>
    have hex : ∃ ad, s.ea o = some ad ∧ s' = { s with mem := s.mem.write ad (s.mem.read ad - 1), f := Cpu.setNZ s.f (s.mem.read ad - 1) } := by
      cases o <;> simp [Cpu.exec, Cpu.ea] at he ⊢ <;> exact he.symm
    obtain ⟨ad, _, hs'⟩ := hex
    have ha : s'.a = s.a := by rw [hs']
    have hx : s'.x = s.x := by rw [hs']
    have hy : s'.y = s.y := by rw [hs']
    obtain ⟨l1, l2, l3⟩ := lists_killM ha hx hy ka kx ky
    simp only [xfer, Facts.kill]
    exact ⟨l1, l2, l3, by simp [nzHolds], by simp [zHolds]⟩
  case ASL =>
    simp only [xfer]
    split
    · rename_i ho
      have ho' : o = .none := by simpa using ho
      subst ho'
      simp [Cpu.exec, Cpu.rmw, Cpu.gASL] at he
      have hm : s'.mem = s.mem := by rw [← he]
      have hx : s'.x = s.x := by rw [← he]
      have hy : s'.y = s.y := by rw [← he]
      have hn : s'.f.n = s'.a.msb ∧ s'.f.z = (s'.a == 0) := by rw [← he]; simp
      simp only [Facts.kill]
      exact ⟨optHolds_nil _ _, keep_clr hx (fun src hp h => stab_A hm hx hy src _ hp h) kx,
        keep_clr hy (fun src hp h => stab_A hm hx hy src _ hp h) ky, nz_of_set s' .a s'.a rfl hn.1 hn.2, by simp [zHolds]⟩
    · rename_i ho
      have hfr : s'.a = s.a ∧ s'.x = s.x ∧ s'.y = s.y := by
        cases o <;> simp [Cpu.exec, Cpu.rmw, Cpu.ea, Cpu.gASL] at he ho ⊢ <;> (subst he; simp)
      obtain ⟨ha, hx, hy⟩ := hfr
      obtain ⟨l1, l2, l3⟩ := lists_killM ha hx hy ka kx ky
      simp only [Facts.kill]
      exact ⟨l1, l2, l3, by simp [nzHolds], by simp [zHolds]⟩
  case LSR =>
    simp only [xfer]
    split
    · rename_i ho
      have ho' : o = .none := by simpa using ho
      subst ho'
      simp [Cpu.exec, Cpu.rmw, Cpu.gLSR] at he
      have hm : s'.mem = s.mem := by rw [← he]
      have hx : s'.x = s.x := by rw [← he]
      have hy : s'.y = s.y := by rw [← he]
      have hn : s'.f.n = s'.a.msb ∧ s'.f.z = (s'.a == 0) := by rw [← he]; simp
      simp only [Facts.kill]
      exact ⟨optHolds_nil _ _, keep_clr hx (fun src hp h => stab_A hm hx hy src _ hp h) kx,
        keep_clr hy (fun src hp h => stab_A hm hx hy src _ hp h) ky, nz_of_set s' .a s'.a rfl hn.1 hn.2, by simp [zHolds]⟩
    · rename_i ho
      have hfr : s'.a = s.a ∧ s'.x = s.x ∧ s'.y = s.y := by
        cases o <;> simp [Cpu.exec, Cpu.rmw, Cpu.ea, Cpu.gLSR] at he ho ⊢ <;> (subst he; simp)
      obtain ⟨ha, hx, hy⟩ := hfr
      obtain ⟨l1, l2, l3⟩ := lists_killM ha hx hy ka kx ky
      simp only [Facts.kill]
      exact ⟨l1, l2, l3, by simp [nzHolds], by simp [zHolds]⟩
  case ROL =>
    simp only [xfer]
    split
    · rename_i ho
      have ho' : o = .none := by simpa using ho
      subst ho'
      simp [Cpu.exec, Cpu.rmw, Cpu.gROL] at he
      have hm : s'.mem = s.mem := by rw [← he]
      have hx : s'.x = s.x := by rw [← he]
      have hy : s'.y = s.y := by rw [← he]
      have hn : s'.f.n = s'.a.msb ∧ s'.f.z = (s'.a == 0) := by rw [← he]; simp
      simp only [Facts.kill]
      exact ⟨optHolds_nil _ _, keep_clr hx (fun src hp h => stab_A hm hx hy src _ hp h) kx,
        keep_clr hy (fun src hp h => stab_A hm hx hy src _ hp h) ky, nz_of_set s' .a s'.a rfl hn.1 hn.2, by simp [zHolds]⟩
    · rename_i ho
      have hfr : s'.a = s.a ∧ s'.x = s.x ∧ s'.y = s.y := by
        cases o <;> simp [Cpu.exec, Cpu.rmw, Cpu.ea, Cpu.gROL] at he ho ⊢ <;> (subst he; simp)
      obtain ⟨ha, hx, hy⟩ := hfr
      obtain ⟨l1, l2, l3⟩ := lists_killM ha hx hy ka kx ky
      simp only [Facts.kill]
      exact ⟨l1, l2, l3, by simp [nzHolds], by simp [zHolds]⟩
  case ROR =>
    simp only [xfer]
    split
    · rename_i ho
      have ho' : o = .none := by simpa using ho
      subst ho'
      simp [Cpu.exec, Cpu.rmw, Cpu.gROR] at he
      have hm : s'.mem = s.mem := by rw [← he]
      have hx : s'.x = s.x := by rw [← he]
      have hy : s'.y = s.y := by rw [← he]
      have hn : s'.f.n = s'.a.msb ∧ s'.f.z = (s'.a == 0) := by rw [← he]; simp
      simp only [Facts.kill]
      exact ⟨optHolds_nil _ _, keep_clr hx (fun src hp h => stab_A hm hx hy src _ hp h) kx,
        keep_clr hy (fun src hp h => stab_A hm hx hy src _ hp h) ky, nz_of_set s' .a s'.a rfl hn.1 hn.2, by simp [zHolds]⟩
    · rename_i ho
      have hfr : s'.a = s.a ∧ s'.x = s.x ∧ s'.y = s.y := by
        cases o <;> simp [Cpu.exec, Cpu.rmw, Cpu.ea, Cpu.gROR] at he ho ⊢ <;> (subst he; simp)
      obtain ⟨ha, hx, hy⟩ := hfr
      obtain ⟨l1, l2, l3⟩ := lists_killM ha hx hy ka kx ky
      simp only [Facts.kill]
      exact ⟨l1, l2, l3, by simp [nzHolds], by simp [zHolds]⟩



/-! ### deadness: everything follows from the local consistency of the table -/

theorem consistent_empty (code : VCode) : consistentB code DTable.empty = true := by
  simp [consistentB, allRes, DTable.empty, DTable.row]

theorem deadTable_consistent (code : VCode) : consistentB code (deadTable code) = true := by
  unfold deadTable
  simp only
  split
  · assumption
  · exact consistent_empty code

theorem mem_allRes (r : Res) : r ∈ allRes := by cases r <;> simp [allRes]

/-- a claim of the table is justified at its line -/
theorem dead_local (code : VCode) (r : Res) (k : Nat) (h : dead code r k = true) :
    (match code[k]? with
     | some .dummy | some (.lab _) => dead code r (k + 1)
     | some (.ins mn o) => !readsReg mn o r && (writesReg mn o r || dead code r (k + 1))
     | some .rts => exitDead r
     | some (.br mn l) =>
       !brReads mn r && dead code r (k + 1) && (match findLab code l with | some t => dead code r t | none => false)
     | some (.jmp l) => (match findLab code l with | some t => dead code r t | none => false)
     | _ => false) = true := by
  have hc := deadTable_consistent code
  simp only [consistentB, List.all_eq_true, List.mem_range] at hc
  have hk : k < ((deadTable code).row r).length := by
    unfold dead DTable.at at h
    cases hl : ((deadTable code).row r)[k]? with
    | none => simp [List.getD, hl] at h
    | some b => exact (List.getElem?_eq_some_iff.mp hl).1
  have := hc r (mem_allRes r) k hk
  unfold localOK at this
  have h' : (deadTable code).at r k = true := h
  simp only [h', Bool.not_true, Bool.false_or] at this
  exact this

/-- dead before a dummy or a label: dead behind it -/
theorem dead_filler (code : VCode) (r : Res) (k : Nat) (h : code[k]? = some .dummy ∨ ∃ l, code[k]? = some (.lab l))
    (hd : dead code r k = true) : dead code r (k + 1) = true := by
  have := dead_local code r k hd
  rcases h with h | ⟨l, h⟩ <;> simpa [h] using this

theorem dead_ins_read (code : VCode) (r : Res) (k : Nat) (mn : Mn) (o : Opd) (h : code[k]? = some (.ins mn o))
    (hr : readsReg mn o r = true) : dead code r k = false := by
  cases hd : dead code r k with
  | false => rfl
  | true =>
    have := dead_local code r k hd
    simp [h, hr] at this

theorem dead_ins_next (code : VCode) (r : Res) (k : Nat) (mn : Mn) (o : Opd) (h : code[k]? = some (.ins mn o))
    (hn : dead code r (k + 1) = false) : writesReg mn o r = true ∨ dead code r k = false := by
  cases hd : dead code r k with
  | false => exact Or.inr rfl
  | true =>
    have := dead_local code r k hd
    simp [h, hn] at this
    exact Or.inl this.2

/-- at the return only the flags can be dead -/
theorem dead_rts (code : VCode) (r : Res) (k : Nat) (h : code[k]? = some .rts) (hd : dead code r k = true) :
    exitDead r = true := by
  have := dead_local code r k hd
  simpa [h] using this

/-- dead at a conditional branch: the branch does not test it, and it is dead on both sides -/
theorem dead_br (code : VCode) (r : Res) (k : Nat) (mn : Mn) (l : String) (h : code[k]? = some (.br mn l))
    (hd : dead code r k = true) :
    brReads mn r = false ∧ dead code r (k + 1) = true ∧ ∀ t, findLab code l = some t → dead code r t = true := by
  have := dead_local code r k hd
  simp only [h, Bool.and_eq_true, Bool.not_eq_true'] at this
  refine ⟨this.1.1, this.1.2, ?_⟩
  intro t ht
  have h3 := this.2
  simpa [ht] using h3

/-- dead at a jump: dead at its target -/
theorem dead_jmp (code : VCode) (r : Res) (k : Nat) (l : String) (h : code[k]? = some (.jmp l))
    (hd : dead code r k = true) : ∀ t, findLab code l = some t → dead code r t = true := by
  have := dead_local code r k hd
  intro t ht
  simpa [h, ht] using this

/-- nothing is dead before a call or another instruction outside the reasoned set, nor behind the end -/
theorem dead_barrier (code : VCode) (r : Res) (k : Nat)
    (h : match code[k]? with | some (.ext _) | none => True | _ => False) :
    dead code r k = false := by
  cases hd : dead code r k with
  | false => rfl
  | true =>
    have := dead_local code r k hd
    cases hc : code[k]? with
    | none => simp [hc] at this
    | some l => cases l <;> simp [hc] at h this

theorem nz_unchanged {s : Cpu} {K : Facts} {r : Res} (v : Byte) (hk : K.nz = some r) (hnz : nzHolds s K.nz)
    (hv : regVal s r = v) : v.msb = s.f.n ∧ (v == 0) = s.f.z := by
  rw [hk] at hnz
  simp only [nzHolds, hv] at hnz
  exact ⟨hnz.1.symm, hnz.2.symm⟩

/-- a replaced instruction: executing it in `orig` while `opt` does nothing keeps the two states in agreement -/
theorem removable_sound (K : Facts) (D : Res → Bool) (mn : Mn) (o : Opd) (s1 s2 s1' : Cpu)
    (hK : K.holds s1) (hag : Agree D s1 s2) (hrem : removable K D mn o = true) (he : s1.exec mn o = some s1') :
    Agree D s1' s2 := by
  obtain ⟨ka, kx, ky, knz, kz⟩ := hK
  obtain ⟨gm, gsp, gv, ga, gx, gy, gnz, gc⟩ := hag
  simp only [removable, Bool.or_eq_true] at hrem
  rcases hrem with ((((h | h) | h) | h) | h) | h
  · -- (1) dead write
    simp only [Bool.and_eq_true] at h
    obtain ⟨hkind, ⟨hl, ht⟩, hdnz⟩ := h
    cases mn <;> simp [loadReg, transfer] at hkind hl ht
    case LDA =>
      simp only [Cpu.exec] at he
      cases hv : s1.rd o with
      | none => simp [hv] at he
      | some v => simp [hv] at he; subst he; exact ⟨gm, gsp, gv, by simp [hl], gx, gy, by simp [hdnz], gc⟩
    case LDX =>
      simp only [Cpu.exec] at he
      cases hv : s1.rd o with
      | none => simp [hv] at he
      | some v => simp [hv] at he; subst he; exact ⟨gm, gsp, gv, ga, by simp [hl], gy, by simp [hdnz], gc⟩
    case LDY =>
      simp only [Cpu.exec] at he
      cases hv : s1.rd o with
      | none => simp [hv] at he
      | some v => simp [hv] at he; subst he; exact ⟨gm, gsp, gv, ga, gx, by simp [hl], by simp [hdnz], gc⟩
    case TAX => simp only [Cpu.exec, Option.some.injEq] at he; subst he; exact ⟨gm, gsp, gv, ga, by simp [ht], gy, by simp [hdnz], gc⟩
    case TAY => simp only [Cpu.exec, Option.some.injEq] at he; subst he; exact ⟨gm, gsp, gv, ga, gx, by simp [ht], by simp [hdnz], gc⟩
    case TXA => simp only [Cpu.exec, Option.some.injEq] at he; subst he; exact ⟨gm, gsp, gv, by simp [ht], gx, gy, by simp [hdnz], gc⟩
    case TYA => simp only [Cpu.exec, Option.some.injEq] at he; subst he; exact ⟨gm, gsp, gv, by simp [ht], gx, gy, by simp [hdnz], gc⟩
  · -- (2) a load of what the register already holds
    cases mn <;> simp [loadReg] at h
    case LDA =>
      obtain ⟨hmem, hnz'⟩ := h
      simp only [Cpu.exec] at he
      cases hv : s1.rd o with
      | none => simp [hv] at he
      | some v =>
        simp [hv] at he; subst he
        have hav : s1.a = v := by have := ka _ (by simpa [Facts.reg] using hmem); simp [srcHolds, hv] at this; exact this.symm
        subst hav
        refine ⟨gm, gsp, gv, ga, gx, gy, ?_, gc⟩
        intro e
        rcases hnz' with hk | hd
        · have := nz_unchanged (s := s1) s1.a hk knz rfl
          have g := gnz e
          simp only [setNZ_n', setNZ_z']
          exact ⟨this.1.trans g.1, this.2.trans g.2⟩
        · simp [hd] at e
    case LDX =>
      obtain ⟨hmem, hnz'⟩ := h
      simp only [Cpu.exec] at he
      cases hv : s1.rd o with
      | none => simp [hv] at he
      | some v =>
        simp [hv] at he; subst he
        have hav : s1.x = v := by have := kx _ (by simpa [Facts.reg] using hmem); simp [srcHolds, hv] at this; exact this.symm
        subst hav
        refine ⟨gm, gsp, gv, ga, gx, gy, ?_, gc⟩
        intro e
        rcases hnz' with hk | hd
        · have := nz_unchanged (s := s1) s1.x hk knz rfl
          have g := gnz e
          simp only [setNZ_n', setNZ_z']
          exact ⟨this.1.trans g.1, this.2.trans g.2⟩
        · simp [hd] at e
    case LDY =>
      obtain ⟨hmem, hnz'⟩ := h
      simp only [Cpu.exec] at he
      cases hv : s1.rd o with
      | none => simp [hv] at he
      | some v =>
        simp [hv] at he; subst he
        have hav : s1.y = v := by have := ky _ (by simpa [Facts.reg] using hmem); simp [srcHolds, hv] at this; exact this.symm
        subst hav
        refine ⟨gm, gsp, gv, ga, gx, gy, ?_, gc⟩
        intro e
        rcases hnz' with hk | hd
        · have := nz_unchanged (s := s1) s1.y hk knz rfl
          have g := gnz e
          simp only [setNZ_n', setNZ_z']
          exact ⟨this.1.trans g.1, this.2.trans g.2⟩
        · simp [hd] at e
  · -- (3) a transfer between registers that are already equal
    cases mn <;> simp [transfer] at h
    case TAX =>
      obtain ⟨hsame, hnz'⟩ := h
      have heq : s1.a = s1.x := by
        simp only [sameReg, Facts.reg, srcOfReg, Bool.or_eq_true, List.contains_iff_mem] at hsame
        rcases hsame with hm | hm
        · have := ka _ hm; simpa [srcHolds] using this.symm
        · have := kx _ hm; simpa [srcHolds] using this
      simp only [Cpu.exec, Option.some.injEq] at he; subst he
      refine ⟨gm, gsp, gv, ga, (fun e => by simpa [heq] using gx e), gy, ?_, gc⟩
      intro e
      simp only [setNZ_n', setNZ_z']
      have g := gnz e
      rcases hnz' with (hk | hk) | hd
      · have := nz_unchanged (s := s1) s1.a hk knz rfl
        exact ⟨this.1.trans g.1, this.2.trans g.2⟩
      · have := nz_unchanged (s := s1) s1.a hk knz (by simp [regVal, heq])
        exact ⟨this.1.trans g.1, this.2.trans g.2⟩
      · simp [hd] at e
    case TAY =>
      obtain ⟨hsame, hnz'⟩ := h
      have heq : s1.a = s1.y := by
        simp only [sameReg, Facts.reg, srcOfReg, Bool.or_eq_true, List.contains_iff_mem] at hsame
        rcases hsame with hm | hm
        · have := ka _ hm; simpa [srcHolds] using this.symm
        · have := ky _ hm; simpa [srcHolds] using this
      simp only [Cpu.exec, Option.some.injEq] at he; subst he
      refine ⟨gm, gsp, gv, ga, gx, (fun e => by simpa [heq] using gy e), ?_, gc⟩
      intro e
      simp only [setNZ_n', setNZ_z']
      have g := gnz e
      rcases hnz' with (hk | hk) | hd
      · have := nz_unchanged (s := s1) s1.a hk knz rfl
        exact ⟨this.1.trans g.1, this.2.trans g.2⟩
      · have := nz_unchanged (s := s1) s1.a hk knz (by simp [regVal, heq])
        exact ⟨this.1.trans g.1, this.2.trans g.2⟩
      · simp [hd] at e
    case TXA =>
      obtain ⟨hsame, hnz'⟩ := h
      have heq : s1.x = s1.a := by
        simp only [sameReg, Facts.reg, srcOfReg, Bool.or_eq_true, List.contains_iff_mem] at hsame
        rcases hsame with hm | hm
        · have := kx _ hm; simpa [srcHolds] using this.symm
        · have := ka _ hm; simpa [srcHolds] using this
      simp only [Cpu.exec, Option.some.injEq] at he; subst he
      refine ⟨gm, gsp, gv, (fun e => by simpa [heq] using ga e), gx, gy, ?_, gc⟩
      intro e
      simp only [setNZ_n', setNZ_z']
      have g := gnz e
      rcases hnz' with (hk | hk) | hd
      · have := nz_unchanged (s := s1) s1.x hk knz rfl
        exact ⟨this.1.trans g.1, this.2.trans g.2⟩
      · have := nz_unchanged (s := s1) s1.x hk knz (by simp [regVal, heq])
        exact ⟨this.1.trans g.1, this.2.trans g.2⟩
      · simp [hd] at e
    case TYA =>
      obtain ⟨hsame, hnz'⟩ := h
      have heq : s1.y = s1.a := by
        simp only [sameReg, Facts.reg, srcOfReg, Bool.or_eq_true, List.contains_iff_mem] at hsame
        rcases hsame with hm | hm
        · have := ky _ hm; simpa [srcHolds] using this.symm
        · have := ka _ hm; simpa [srcHolds] using this
      simp only [Cpu.exec, Option.some.injEq] at he; subst he
      refine ⟨gm, gsp, gv, (fun e => by simpa [heq] using ga e), gx, gy, ?_, gc⟩
      intro e
      simp only [setNZ_n', setNZ_z']
      have g := gnz e
      rcases hnz' with (hk | hk) | hd
      · have := nz_unchanged (s := s1) s1.y hk knz rfl
        exact ⟨this.1.trans g.1, this.2.trans g.2⟩
      · have := nz_unchanged (s := s1) s1.y hk knz (by simp [regVal, heq])
        exact ⟨this.1.trans g.1, this.2.trans g.2⟩
      · simp [hd] at e
  · -- (4) a store of what the cell already holds
    cases mn <;> simp [storeReg] at h
    case STA =>
      simp only [Cpu.exec] at he
      cases hv : s1.ea o with
      | none => simp [hv] at he
      | some ad =>
        simp [hv] at he; subst he
        have hfact := ka _ (by simpa [Facts.reg] using h)
        have hrd : s1.mem.read ad = s1.a := by
          cases o <;> simp [Cpu.ea] at hv <;> simp [srcHolds, Cpu.rd, Cpu.ea] at hfact <;> (subst hv; exact hfact)
        refine ⟨?_, gsp, gv, ga, gx, gy, gnz, gc⟩
        show s1.mem.write ad s1.a = s2.mem
        rw [← hrd, Mem.write_read_same]; exact gm
    case STX =>
      simp only [Cpu.exec] at he
      cases hv : s1.ea o with
      | none => simp [hv] at he
      | some ad =>
        simp [hv] at he; subst he
        have hfact := kx _ (by simpa [Facts.reg] using h)
        have hrd : s1.mem.read ad = s1.x := by
          cases o <;> simp [Cpu.ea] at hv <;> simp [srcHolds, Cpu.rd, Cpu.ea] at hfact <;> (subst hv; exact hfact)
        refine ⟨?_, gsp, gv, ga, gx, gy, gnz, gc⟩
        show s1.mem.write ad s1.x = s2.mem
        rw [← hrd, Mem.write_read_same]; exact gm
    case STY =>
      simp only [Cpu.exec] at he
      cases hv : s1.ea o with
      | none => simp [hv] at he
      | some ad =>
        simp [hv] at he; subst he
        have hfact := ky _ (by simpa [Facts.reg] using h)
        have hrd : s1.mem.read ad = s1.y := by
          cases o <;> simp [Cpu.ea] at hv <;> simp [srcHolds, Cpu.rd, Cpu.ea] at hfact <;> (subst hv; exact hfact)
        refine ⟨?_, gsp, gv, ga, gx, gy, gnz, gc⟩
        show s1.mem.write ad s1.y = s2.mem
        rw [← hrd, Mem.write_read_same]; exact gm
  · -- (5) ORA #0
    simp only [Bool.and_eq_true, beq_iff_eq, Bool.or_eq_true] at h
    obtain ⟨⟨hmn, ho⟩, hnz'⟩ := h
    subst hmn; subst ho
    simp [Cpu.exec, Cpu.rd] at he; subst he
    refine ⟨gm, gsp, gv, ga, gx, gy, ?_, gc⟩
    intro e
    simp only [setNZ_n', setNZ_z']
    have g := gnz e
    rcases hnz' with hk | hd
    · have := nz_unchanged (s := s1) s1.a hk knz rfl
      exact ⟨this.1.trans g.1, this.2.trans g.2⟩
    · simp [hd] at e
  · -- (6) a compare whose flags nothing reads
    simp only [Bool.and_eq_true, Bool.or_eq_true, beq_iff_eq] at h
    obtain ⟨⟨hmn, hdnz⟩, hdc⟩ := h
    rcases hmn with (rfl | rfl) | rfl <;>
    · simp only [Cpu.exec] at he
      cases hv : s1.rd o with
      | none => simp [hv] at he
      | some v =>
        simp [hv, Cpu.cmp] at he; subst he
        exact ⟨gm, gsp, gv, ga, gx, gy, by simp [hdnz], by simp [hdc]⟩



end CV.Valid
