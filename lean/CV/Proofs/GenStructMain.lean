/-
  The stage-2 generator proof: every statement of the fragment, generated in any generator state and
  placed in any context whose labels are older, runs from its first line to just behind its last
  line and leaves the memory the source prescribes; the generator's flag belief holds afterwards.
-/
import CV.Proofs.GenStructSem
set_option linter.unusedSimpArgs false
set_option linter.unusedVariables false
set_option linter.constructorNameAsVariable false
namespace CV.GenStruct
open CV CV.GenFlat CV.GenReg

/-- the run of a piece of code: from `start` to `stop` with final memory `m'` and flag belief `fl` -/
def Result (L : Layout) (code : List GLine) (start : Nat) (s : Cpu) (stop : Nat) (m' : SrcSt) (fl : Option FRef) : Prop :=
  ∃ s', Steps L code start s stop s' ∧ srcOf s' = m' ∧ FlagsInv L fl s' ∧ s'.sp = s.sp

/-- correctness of `gen` for every statement whose source meaning is found within `fuel` -/
def Correct (L : Layout) (fuel : Nat) : Prop :=
  ∀ (st : SStmt) (m m' : SrcSt), sem L fuel m st = some m' → SInFragment st = true →
    ∀ (g : GState) (pre post : List GLine) (s : Cpu), Old g pre → srcOf s = m → FlagsInv L g.flags s →
      Result L (pre ++ (gen g st).1 ++ post) pre.length s (pre.length + (gen g st).1.length) m' (gen g st).2.flags

theorem Result.trans {L : Layout} {code : List GLine} {p1 p2 p3 : Nat} {s1 : Cpu} {m2 m3 : SrcSt} {f2 f3 : Option FRef}
    (h1 : Result L code p1 s1 p2 m2 f2)
    (h2 : ∀ s2 : Cpu, srcOf s2 = m2 → FlagsInv L f2 s2 → Result L code p2 s2 p3 m3 f3) :
    Result L code p1 s1 p3 m3 f3 := by
  obtain ⟨s2, hs, hm, hf, hsp⟩ := h1
  obtain ⟨s3, hs', hm', hf', hsp'⟩ := h2 s2 hm hf
  exact ⟨s3, hs.trans hs', hm', hf', by rw [hsp', hsp]⟩

/-- a label that is new for `g` is not defined in code that is old for `g` -/
theorem not_mem_of_new {g : GState} {pre : List GLine} {l : Lbl} (ho : Old g pre) (hn : g.ctr l.kind.ctr < l.idx) :
    l ∉ labels pre := by
  intro h
  have := ho l h
  omega

theorem case_flat (L : Layout) (f : Nat) (fs : RStmt) (m m' : SrcSt) (h : sem L (f + 1) m (.flat fs) = some m')
    (g : GState) (pre post : List GLine) (s : Cpu) (hm : srcOf s = m) (hinv : FlagsInv L g.flags s) :
    Result L (pre ++ (gen g (.flat fs)).1 ++ post) pre.length s (pre.length + (gen g (.flat fs)).1.length) m'
      (gen g (.flat fs)).2.flags := by
  simp only [sem, Option.some.injEq] at h
  obtain ⟨s', hs, hmem, hsp, hz⟩ := flat_steps L (zpL g.abs) fs g.flags pre post s hinv
  refine ⟨s', by simpa [gen, genFlat] using hs, ?_, by simpa [gen, genFlat] using hz, hsp⟩
  rw [hmem, hm, h]

theorem case_seq (L : Layout) (f : Nat) (ih : Correct L f) (a b : SStmt) (m m' : SrcSt)
    (h : sem L (f + 1) m (.seq a b) = some m') (hfr : SInFragment (.seq a b) = true)
    (g : GState) (pre post : List GLine) (s : Cpu) (hold : Old g pre) (hm : srcOf s = m) (hinv : FlagsInv L g.flags s) :
    Result L (pre ++ (gen g (.seq a b)).1 ++ post) pre.length s (pre.length + (gen g (.seq a b)).1.length) m'
      (gen g (.seq a b)).2.flags := by
  simp only [sem] at h
  simp only [SInFragment, Bool.and_eq_true] at hfr
  cases h1 : sem L f m a with
  | none => simp [h1] at h
  | some m1 =>
    simp [h1] at h
    simp only [gen]
    rcases hca : gen g a with ⟨ca, g1⟩
    rcases hcb : gen g1 b with ⟨cb, g2⟩
    have ra := ih a m m1 h1 hfr.1 g pre (cb ++ post) s hold hm hinv
    rw [hca] at ra
    have hfa : Fresh g (ca, g1) := hca ▸ gen_fresh a g
    have hold1 : Old g1 (pre ++ ca) := (hold.mono hfa.1).append (Old.of_fresh hfa)
    have e1 : pre ++ (ca ++ cb) ++ post = pre ++ ca ++ (cb ++ post) := by simp
    have e2 : pre ++ (ca ++ cb) ++ post = (pre ++ ca) ++ cb ++ post := by simp
    dsimp only at ra ⊢
    rw [e1]
    refine ra.trans ?_
    intro s2 hm2 hf2
    have rb := ih b m1 m' h hfr.2 g1 (pre ++ ca) post s2 hold1 hm2 hf2
    rw [hcb] at rb
    dsimp only at rb
    rw [← e1, e2]
    simpa [Nat.add_assoc] using rb


/-- a label allocated before `gx` is not among the labels of code generated from `gx` on -/
theorem not_mem_of_fresh {gx : GState} {r : List GLine × GState} {l : Lbl} (hf : Fresh gx r)
    (hl : l.idx ≤ gx.ctr l.kind.ctr) : l ∉ labels r.1 := by
  intro h
  have := (hf.2 l h).1
  omega

theorem fresh_ctr_le {g : GState} {r : List GLine × GState} (h : Fresh g r) (c : Ctr) : g.ctr c ≤ r.2.ctr c := h.1 c

theorem case_ifThen (L : Layout) (f : Nat) (ih : Correct L f) (c : Cond) (t : SStmt) (m m' : SrcSt)
    (h : sem L (f + 1) m (.ifThen c t) = some m') (hfr : SInFragment (.ifThen c t) = true)
    (g : GState) (pre post : List GLine) (s : Cpu) (hold : Old g pre) (hm : srcOf s = m) (hinv : FlagsInv L g.flags s) :
    Result L (pre ++ (gen g (.ifThen c t)).1 ++ post) pre.length s (pre.length + (gen g (.ifThen c t)).1.length) m'
      (gen g (.ifThen c t)).2.flags := by
  simp only [sem] at h
  simp only [SInFragment, Bool.and_eq_true] at hfr
  simp only [gen]
  rcases hcc : genCond { g with cIf := g.cIf + 1 } c true ⟨.ifend, g.cIf + 1⟩ with ⟨cc, g1⟩
  rcases hct : gen g1 t with ⟨ct, g2⟩
  dsimp only
  have hfc : Fresh { g with cIf := g.cIf + 1 } (cc, g1) := hcc ▸ genCond_fresh ..
  have hft : Fresh g1 (ct, g2) := hct ▸ gen_fresh t g1
  have hold0 : Old { g with cIf := g.cIf + 1 } pre := hold.mono (mono_cIf g)
  have hold1 : Old g1 (pre ++ cc) := (hold0.mono hfc.1).append (Old.of_fresh hfc)
  -- where the end label is
  have hnot : (⟨.ifend, g.cIf + 1⟩ : Lbl) ∉ labels (pre ++ cc ++ ct) := by
    simp only [labels_append, List.mem_append, not_or]
    refine ⟨⟨?_, ?_⟩, ?_⟩
    · exact not_mem_of_new hold (by simp [LKind.ctr, GState.ctr, Lbl.idx])
    · exact not_mem_of_fresh hfc (by simp [LKind.ctr, GState.ctr, Lbl.idx])
    · have := fresh_ctr_le hfc .cIf
      simp [GState.ctr] at this
      exact not_mem_of_fresh hft (by simp [LKind.ctr, GState.ctr, Lbl.idx]; omega)
  have hfind : findLbl (pre ++ (cc ++ ct ++ [GLine.lab ⟨.ifend, g.cIf + 1⟩]) ++ post) ⟨.ifend, g.cIf + 1⟩
      = some (pre.length + cc.length + ct.length) := by
    have e : pre ++ (cc ++ ct ++ [GLine.lab ⟨.ifend, g.cIf + 1⟩]) ++ post
        = (pre ++ cc ++ ct) ++ GLine.lab ⟨.ifend, g.cIf + 1⟩ :: post := by simp
    rw [e, findLbl_at _ _ _ hnot]; simp [Nat.add_assoc]
  -- the final label line
  have hlab : ∀ s2 : Cpu, Steps L (pre ++ (cc ++ ct ++ [GLine.lab ⟨.ifend, g.cIf + 1⟩]) ++ post)
      (pre.length + cc.length + ct.length) s2 (pre.length + (cc ++ ct ++ [GLine.lab ⟨.ifend, g.cIf + 1⟩]).length) s2 := by
    intro s2
    have e : pre ++ (cc ++ ct ++ [GLine.lab ⟨.ifend, g.cIf + 1⟩]) ++ post
        = (pre ++ cc ++ ct) ++ GLine.lab ⟨.ifend, g.cIf + 1⟩ :: post := by simp
    have := Steps.single (step_lab L (pre ++ cc ++ ct) post ⟨.ifend, g.cIf + 1⟩ s2)
    rw [e]
    simpa [Nat.add_assoc] using this
  -- the condition
  have hc := genCond_correct L c { g with cIf := g.cIf + 1 } true ⟨.ifend, g.cIf + 1⟩ hfr.1
  rw [hcc] at hc
  have hc' := hc pre (ct ++ [GLine.lab ⟨.ifend, g.cIf + 1⟩] ++ post) s (pre.length + cc.length + ct.length) hold0 hinv
    (by simpa [List.append_assoc] using hfind)
  obtain ⟨s1, hs1, hm1, hsp1, hf1⟩ := hc'
  have e1 : pre ++ cc ++ (ct ++ [GLine.lab ⟨.ifend, g.cIf + 1⟩] ++ post)
      = pre ++ (cc ++ ct ++ [GLine.lab ⟨.ifend, g.cIf + 1⟩]) ++ post := by simp
  dsimp only at hs1 hf1
  rw [e1] at hs1
  rw [hm] at hs1 hf1
  by_cases hev : evalCond L m c = true
  · -- the body runs
    simp only [hev, if_true] at h
    have hb : (evalCond L m c != true) = false := by simp [hev]
    simp only [hb, Bool.false_eq_true, if_false, Bool.false_and] at hs1 hf1
    have rt := ih t m m' h hfr.2 g1 (pre ++ cc) ([GLine.lab ⟨.ifend, g.cIf + 1⟩] ++ post) s1 hold1 (by rw [hm1, hm]) hf1
    rw [hct] at rt
    dsimp only at rt
    have e2 : pre ++ cc ++ ct ++ ([GLine.lab ⟨.ifend, g.cIf + 1⟩] ++ post)
        = pre ++ (cc ++ ct ++ [GLine.lab ⟨.ifend, g.cIf + 1⟩]) ++ post := by simp
    rw [e2] at rt
    obtain ⟨s2, hs2, hm2, hf2, hsp2⟩ := rt
    refine ⟨s2, ?_, hm2, trivial, by rw [hsp2, hsp1]⟩
    have hs2' : Steps L (pre ++ (cc ++ ct ++ [GLine.lab ⟨.ifend, g.cIf + 1⟩]) ++ post) (pre.length + cc.length) s1
        (pre.length + cc.length + ct.length) s2 := by simpa using hs2
    exact (hs1.trans hs2').trans (hlab s2)
  · -- the body is skipped
    have hev' : evalCond L m c = false := by simpa using hev
    simp only [hev', Bool.false_eq_true, if_false, Option.some.injEq] at h
    have hb : (evalCond L m c != true) = true := by simp [hev']
    simp only [hb, if_true] at hs1
    refine ⟨s1, hs1.trans (hlab s1), by rw [hm1, hm, h], trivial, hsp1⟩


theorem case_ifElse (L : Layout) (f : Nat) (ih : Correct L f) (c : Cond) (t e : SStmt) (m m' : SrcSt)
    (h : sem L (f + 1) m (.ifElse c t e) = some m') (hfr : SInFragment (.ifElse c t e) = true)
    (g : GState) (pre post : List GLine) (s : Cpu) (hold : Old g pre) (hm : srcOf s = m) (hinv : FlagsInv L g.flags s) :
    Result L (pre ++ (gen g (.ifElse c t e)).1 ++ post) pre.length s (pre.length + (gen g (.ifElse c t e)).1.length) m'
      (gen g (.ifElse c t e)).2.flags := by
  simp only [sem] at h
  simp only [SInFragment, Bool.and_eq_true] at hfr
  obtain ⟨⟨hokc, hfrt⟩, hfre⟩ := hfr
  simp only [gen]
  rcases hcc : genCond { g with cIf := g.cIf + 1 } c true ⟨.else_, g.cIf + 1⟩ with ⟨cc, g1⟩
  rcases hct : gen g1 t with ⟨ct, g2⟩
  rcases hce : gen { g2 with flags := if c.singleExit then g1.flags else none } e with ⟨ce, g3⟩
  dsimp only
  generalize hifend : (⟨.ifend, g.cIf + 1⟩ : Lbl) = ifend
  generalize hels : (⟨.else_, g.cIf + 1⟩ : Lbl) = els
  have hfc : Fresh { g with cIf := g.cIf + 1 } (cc, g1) := hcc ▸ genCond_fresh ..
  have hft : Fresh g1 (ct, g2) := hct ▸ gen_fresh t g1
  have hfe : Fresh g2 (ce, g3) := by
    have := gen_fresh e { g2 with flags := if c.singleExit then g1.flags else none }
    rw [hce, fresh_flags_left] at this
    exact this
  have hold0 : Old { g with cIf := g.cIf + 1 } pre := hold.mono (mono_cIf g)
  have hold1 : Old g1 (pre ++ cc) := (hold0.mono hfc.1).append (Old.of_fresh hfc)
  have hk1 := fresh_ctr_le hfc .cIf
  have hk2 := fresh_ctr_le hft .cIf
  simp [GState.ctr] at hk1 hk2
  have hneq : els ≠ ifend := by rw [← hels, ← hifend]; simp
  -- labels
  have hnot_els : els ∉ labels (pre ++ cc ++ ct ++ [GLine.jmp ifend]) := by
    rw [← hels]
    simp only [labels_append, List.mem_append, not_or, labels_jmp, labels_nil, List.not_mem_nil, not_false_eq_true, and_true]
    refine ⟨⟨?_, ?_⟩, ?_⟩
    · exact not_mem_of_new hold (by simp [LKind.ctr, GState.ctr, Lbl.idx])
    · exact not_mem_of_fresh hfc (by simp [LKind.ctr, GState.ctr, Lbl.idx])
    · exact not_mem_of_fresh hft (by simp [LKind.ctr, GState.ctr, Lbl.idx]; omega)
  have hnot_ifend : ifend ∉ labels (pre ++ cc ++ ct ++ [GLine.jmp ifend, .lab els] ++ ce) := by
    simp only [labels_append, List.mem_append, not_or, labels_jmp, labels_lab, labels_nil, List.mem_singleton]
    refine ⟨⟨⟨⟨?_, ?_⟩, ?_⟩, fun e => hneq e.symm⟩, ?_⟩
    · rw [← hifend]; exact not_mem_of_new hold (by simp [LKind.ctr, GState.ctr, Lbl.idx])
    · rw [← hifend]; exact not_mem_of_fresh hfc (by simp [LKind.ctr, GState.ctr, Lbl.idx])
    · rw [← hifend]; exact not_mem_of_fresh hft (by simp [LKind.ctr, GState.ctr, Lbl.idx]; omega)
    · rw [← hifend]; exact not_mem_of_fresh hfe (by simp [LKind.ctr, GState.ctr, Lbl.idx]; omega)
  -- the whole code in the shapes needed below
  have w1 : pre ++ (cc ++ ct ++ [GLine.jmp ifend, .lab els] ++ ce ++ [.lab ifend]) ++ post
      = (pre ++ cc ++ ct ++ [GLine.jmp ifend]) ++ GLine.lab els :: (ce ++ [.lab ifend] ++ post) := by simp
  have w2 : pre ++ (cc ++ ct ++ [GLine.jmp ifend, .lab els] ++ ce ++ [.lab ifend]) ++ post
      = (pre ++ cc ++ ct ++ [GLine.jmp ifend, .lab els] ++ ce) ++ GLine.lab ifend :: post := by simp
  have w3 : pre ++ (cc ++ ct ++ [GLine.jmp ifend, .lab els] ++ ce ++ [.lab ifend]) ++ post
      = pre ++ cc ++ (ct ++ [GLine.jmp ifend, .lab els] ++ ce ++ [.lab ifend] ++ post) := by simp
  have w4 : pre ++ (cc ++ ct ++ [GLine.jmp ifend, .lab els] ++ ce ++ [.lab ifend]) ++ post
      = (pre ++ cc) ++ ct ++ ([GLine.jmp ifend, .lab els] ++ ce ++ [.lab ifend] ++ post) := by simp
  have w5 : pre ++ (cc ++ ct ++ [GLine.jmp ifend, .lab els] ++ ce ++ [.lab ifend]) ++ post
      = (pre ++ cc ++ ct) ++ GLine.jmp ifend :: ([GLine.lab els] ++ ce ++ [.lab ifend] ++ post) := by simp
  have w6 : pre ++ (cc ++ ct ++ [GLine.jmp ifend, .lab els] ++ ce ++ [.lab ifend]) ++ post
      = (pre ++ cc ++ ct ++ [GLine.jmp ifend, .lab els]) ++ ce ++ ([GLine.lab ifend] ++ post) := by simp
  generalize hwhole : pre ++ (cc ++ ct ++ [GLine.jmp ifend, .lab els] ++ ce ++ [.lab ifend]) ++ post = whole at *
  have hfind_els : findLbl whole els = some (pre.length + cc.length + ct.length + 1) := by
    rw [w1, findLbl_at _ _ _ hnot_els]; congr 1; len_arith
  have hfind_ifend : findLbl whole ifend = some (pre.length + cc.length + ct.length + 2 + ce.length) := by
    rw [w2, findLbl_at _ _ _ hnot_ifend]; congr 1; len_arith
  have hend : pre.length + (cc ++ ct ++ [GLine.jmp ifend, GLine.lab els] ++ ce ++ [GLine.lab ifend]).length
      = pre.length + cc.length + ct.length + 2 + ce.length + 1 := by len_arith
  rw [hend]
  -- the final label line
  have hlab : ∀ s2 : Cpu, Steps L whole (pre.length + cc.length + ct.length + 2 + ce.length) s2
      (pre.length + cc.length + ct.length + 2 + ce.length + 1) s2 := by
    intro s2
    have := Steps.single (step_lab L (pre ++ cc ++ ct ++ [GLine.jmp ifend, .lab els] ++ ce) post ifend s2)
    rw [← w2] at this
    exact this.cast (by len_arith) (by len_arith)
  -- the condition
  have hc := genCond_correct L c { g with cIf := g.cIf + 1 } true els hokc
  rw [hels] at hcc
  rw [hcc] at hc
  have hc' := hc pre (ct ++ [GLine.jmp ifend, .lab els] ++ ce ++ [.lab ifend] ++ post) s
    (pre.length + cc.length + ct.length + 1) hold0 hinv (by rw [← w3]; exact hfind_els)
  obtain ⟨s1, hs1, hm1, hsp1, hf1⟩ := hc'
  dsimp only at hs1 hf1
  rw [← w3, hm] at hs1
  rw [hm] at hf1
  by_cases hev : evalCond L m c = true
  · simp only [hev, if_true] at h
    have hb : (evalCond L m c != true) = false := by simp [hev]
    simp only [hb, Bool.false_eq_true, if_false, Bool.false_and] at hs1 hf1
    have rt := ih t m m' h hfrt g1 (pre ++ cc) ([GLine.jmp ifend, .lab els] ++ ce ++ [.lab ifend] ++ post) s1 hold1
      (by rw [hm1, hm]) hf1
    rw [hct] at rt
    dsimp only at rt
    rw [← w4] at rt
    obtain ⟨s2, hs2, hm2, hf2, hsp2⟩ := rt
    have hs2' : Steps L whole (pre.length + cc.length) s1 (pre.length + cc.length + ct.length) s2 :=
      hs2.cast (by len_arith) (by len_arith)
    have hj : Steps L whole (pre.length + cc.length + ct.length) s2 (pre.length + cc.length + ct.length + 2 + ce.length) s2 := by
      have := Steps.single (step_jmp L (pre ++ cc ++ ct) ([GLine.lab els] ++ ce ++ [.lab ifend] ++ post) ifend s2
        (pre.length + cc.length + ct.length + 2 + ce.length) (by rw [← w5]; exact hfind_ifend))
      rw [← w5] at this
      exact this.cast (by len_arith) rfl
    refine ⟨s2, ((hs1.trans hs2').trans hj).trans (hlab s2), hm2, trivial, by rw [hsp2, hsp1]⟩
  · have hev' : evalCond L m c = false := by simpa using hev
    simp only [hev', Bool.false_eq_true, if_false] at h
    have hb : (evalCond L m c != true) = true := by simp [hev']
    simp only [hb, if_true, Bool.true_and] at hs1 hf1
    have hf1' : FlagsInv L (if c.singleExit = true then g1.flags else none) s1 := by
      cases hse : c.singleExit <;> simp [hse] at hf1 ⊢ <;> exact hf1
    -- the else label
    have hl : Steps L whole (pre.length + cc.length + ct.length + 1) s1 (pre.length + cc.length + ct.length + 2) s1 := by
      have := Steps.single (step_lab L (pre ++ cc ++ ct ++ [GLine.jmp ifend]) (ce ++ [.lab ifend] ++ post) els s1)
      rw [← w1] at this
      exact this.cast (by len_arith) (by len_arith)
    have hold2 : Old { g2 with flags := if c.singleExit then g1.flags else none } (pre ++ cc ++ ct ++ [GLine.jmp ifend, .lab els]) := by
      rw [old_flags]
      refine ((hold1.mono hft.1).append (Old.of_fresh hft)).append ?_
      intro l hl
      simp at hl
      subst hl
      rw [← hels]
      simp [LKind.ctr, GState.ctr, Lbl.idx]; omega
    have re := ih e m m' h hfre { g2 with flags := if c.singleExit then g1.flags else none } (pre ++ cc ++ ct ++ [GLine.jmp ifend, .lab els])
      ([GLine.lab ifend] ++ post) s1 hold2 (by rw [hm1, hm]) hf1'
    rw [hce] at re
    dsimp only at re
    rw [← w6] at re
    obtain ⟨s2, hs2, hm2, hf2, hsp2⟩ := re
    have hs2' : Steps L whole (pre.length + cc.length + ct.length + 2) s1 (pre.length + cc.length + ct.length + 2 + ce.length) s2 :=
      hs2.cast (by len_arith) (by len_arith)
    refine ⟨s2, ((hs1.trans hl).trans hs2').trans (hlab s2), hm2, trivial, by rw [hsp2, hsp1]⟩


theorem gen_while_flags (g : GState) (x : Option FRef) (c : Cond) (b : SStmt) :
    gen { g with flags := x } (.while c b) = gen g (.while c b) := rfl

theorem gen_doWhile_flags (g : GState) (x : Option FRef) (c : Cond) (b : SStmt) :
    gen { g with flags := x } (.doWhile b c) = gen g (.doWhile b c) := rfl

theorem case_while (L : Layout) (f : Nat) (ih : Correct L f) (c : Cond) (b : SStmt) (m m' : SrcSt)
    (h : sem L (f + 1) m (.while c b) = some m') (hfr : SInFragment (.while c b) = true)
    (g : GState) (pre post : List GLine) (s : Cpu) (hold : Old g pre) (hm : srcOf s = m) (hinv : FlagsInv L g.flags s) :
    Result L (pre ++ (gen g (.while c b)).1 ++ post) pre.length s (pre.length + (gen g (.while c b)).1.length) m'
      (gen g (.while c b)).2.flags := by
  have hfr0 := hfr
  simp only [sem] at h
  simp only [SInFragment, Bool.and_eq_true] at hfr
  obtain ⟨hokc, hfrb⟩ := hfr
  -- the recursive use is about the very same code
  have hrec := fun (m1 : SrcSt) (hs : sem L f m1 (.while c b) = some m') (s2 : Cpu) (hm2 : srcOf s2 = m1) =>
    ih (.while c b) m1 m' hs hfr0 { g with flags := none } pre post s2 ((old_flags g none pre).mpr hold) hm2 trivial
  simp only [gen_while_flags] at hrec
  revert hrec
  simp only [gen]
  rcases hcc : genCond { g with cWhile := g.cWhile + 1, flags := none } c true ⟨.whileend, g.cWhile + 1⟩ with ⟨cc, g1⟩
  rcases hcb : gen g1 b with ⟨cb, g2⟩
  dsimp only
  generalize hwl : (⟨.while_, g.cWhile + 1⟩ : Lbl) = wl
  generalize hwe : (⟨.whileend, g.cWhile + 1⟩ : Lbl) = we
  intro hrec
  have hfc : Fresh { g with cWhile := g.cWhile + 1, flags := none } (cc, g1) := hcc ▸ genCond_fresh ..
  have hfb : Fresh g1 (cb, g2) := hcb ▸ gen_fresh b g1
  have hk1 := fresh_ctr_le hfc .cWhile
  simp [GState.ctr] at hk1
  have hneq : we ≠ wl := by rw [← hwe, ← hwl]; simp
  have hold0 : Old { g with cWhile := g.cWhile + 1, flags := none } (pre ++ [GLine.lab wl]) := by
    refine (hold.mono (mono_cWhile g none)).append ?_
    intro l hl
    simp at hl
    subst hl
    rw [← hwl]
    simp [LKind.ctr, GState.ctr, Lbl.idx]
  have hold1 : Old g1 (pre ++ [GLine.lab wl] ++ cc) := (hold0.mono hfc.1).append (Old.of_fresh hfc)
  have hnot_wl : wl ∉ labels pre := by
    rw [← hwl]; exact not_mem_of_new hold (by simp [LKind.ctr, GState.ctr, Lbl.idx])
  have hnot_we : we ∉ labels (pre ++ [GLine.lab wl] ++ cc ++ cb ++ [GLine.jmp wl]) := by
    simp only [labels_append, List.mem_append, not_or, labels_jmp, labels_lab, labels_nil, List.mem_singleton,
      List.not_mem_nil, not_false_eq_true, and_true]
    refine ⟨⟨⟨?_, hneq⟩, ?_⟩, ?_⟩
    · rw [← hwe]; exact not_mem_of_new hold (by simp [LKind.ctr, GState.ctr, Lbl.idx])
    · rw [← hwe]; exact not_mem_of_fresh hfc (by simp [LKind.ctr, GState.ctr, Lbl.idx])
    · rw [← hwe]; exact not_mem_of_fresh hfb (by simp [LKind.ctr, GState.ctr, Lbl.idx]; omega)
  have w0 : pre ++ ([GLine.lab wl] ++ cc ++ cb ++ [GLine.jmp wl, .lab we]) ++ post
      = pre ++ GLine.lab wl :: (cc ++ cb ++ [GLine.jmp wl, .lab we] ++ post) := by simp
  have w1 : pre ++ ([GLine.lab wl] ++ cc ++ cb ++ [GLine.jmp wl, .lab we]) ++ post
      = (pre ++ [GLine.lab wl] ++ cc ++ cb ++ [GLine.jmp wl]) ++ GLine.lab we :: post := by simp
  have w2 : pre ++ ([GLine.lab wl] ++ cc ++ cb ++ [GLine.jmp wl, .lab we]) ++ post
      = (pre ++ [GLine.lab wl]) ++ cc ++ (cb ++ [GLine.jmp wl, .lab we] ++ post) := by simp
  have w3 : pre ++ ([GLine.lab wl] ++ cc ++ cb ++ [GLine.jmp wl, .lab we]) ++ post
      = (pre ++ [GLine.lab wl] ++ cc) ++ cb ++ ([GLine.jmp wl, .lab we] ++ post) := by simp
  have w4 : pre ++ ([GLine.lab wl] ++ cc ++ cb ++ [GLine.jmp wl, .lab we]) ++ post
      = (pre ++ [GLine.lab wl] ++ cc ++ cb) ++ GLine.jmp wl :: ([GLine.lab we] ++ post) := by simp
  have hend : pre.length + ([GLine.lab wl] ++ cc ++ cb ++ [GLine.jmp wl, GLine.lab we]).length
      = pre.length + 1 + cc.length + cb.length + 2 := by len_arith
  rw [hend] at hrec ⊢
  generalize hwhole : pre ++ ([GLine.lab wl] ++ cc ++ cb ++ [GLine.jmp wl, .lab we]) ++ post = whole at *
  have hfind_wl : findLbl whole wl = some pre.length := by
    rw [w0, findLbl_at _ _ _ hnot_wl]
  have hfind_we : findLbl whole we = some (pre.length + 1 + cc.length + cb.length + 1) := by
    rw [w1, findLbl_at _ _ _ hnot_we]; congr 1; len_arith
  -- first line: the loop label
  have h0 : Steps L whole pre.length s (pre.length + 1) s := by
    have := Steps.single (step_lab L pre (cc ++ cb ++ [GLine.jmp wl, .lab we] ++ post) wl s)
    rw [← w0] at this; exact this
  -- the condition
  have hc := genCond_correct L c { g with cWhile := g.cWhile + 1, flags := none } true we hokc
  rw [hwe] at hcc
  rw [hcc] at hc
  have hc' := hc (pre ++ [GLine.lab wl]) (cb ++ [GLine.jmp wl, .lab we] ++ post) s
    (pre.length + 1 + cc.length + cb.length + 1) hold0 trivial (by rw [← w2]; exact hfind_we)
  obtain ⟨s1, hs1, hm1, hsp1, hf1⟩ := hc'
  dsimp only at hs1 hf1
  rw [← w2, hm] at hs1
  rw [hm] at hf1
  by_cases hev : evalCond L m c = true
  · simp only [hev, if_true] at h
    have hb : (evalCond L m c != true) = false := by simp [hev]
    simp only [hb, Bool.false_eq_true, if_false, Bool.false_and] at hs1 hf1
    cases hb1 : sem L f m b with
    | none => simp [hb1] at h
    | some m1 =>
      simp [hb1] at h
      have rb := ih b m m1 hb1 hfrb g1 (pre ++ [GLine.lab wl] ++ cc) ([GLine.jmp wl, .lab we] ++ post) s1 hold1
        (by rw [hm1, hm]) hf1
      rw [hcb] at rb
      dsimp only at rb
      rw [← w3] at rb
      obtain ⟨s2, hs2, hm2, hf2, hsp2⟩ := rb
      have hj : Steps L whole (pre.length + 1 + cc.length + cb.length) s2 pre.length s2 := by
        have := Steps.single (step_jmp L (pre ++ [GLine.lab wl] ++ cc ++ cb) ([GLine.lab we] ++ post) wl s2 pre.length
          (by rw [← w4]; exact hfind_wl))
        rw [← w4] at this
        exact this.cast (by len_arith) rfl
      obtain ⟨s3, hs3, hm3, hf3, hsp3⟩ := hrec m1 h s2 hm2
      refine ⟨s3, ?_, hm3, trivial, by rw [hsp3, hsp2, hsp1]⟩
      have hs1' : Steps L whole (pre.length + 1) s (pre.length + 1 + cc.length) s1 := hs1.cast (by len_arith) (by len_arith)
      have hs2' : Steps L whole (pre.length + 1 + cc.length) s1 (pre.length + 1 + cc.length + cb.length) s2 :=
        hs2.cast (by len_arith) (by len_arith)
      exact (((h0.trans hs1').trans hs2').trans hj).trans hs3
  · have hev' : evalCond L m c = false := by simpa using hev
    simp only [hev', Bool.false_eq_true, if_false, Option.some.injEq] at h
    have hb : (evalCond L m c != true) = true := by simp [hev']
    simp only [hb, if_true] at hs1
    have hl : Steps L whole (pre.length + 1 + cc.length + cb.length + 1) s1 (pre.length + 1 + cc.length + cb.length + 2) s1 := by
      have := Steps.single (step_lab L (pre ++ [GLine.lab wl] ++ cc ++ cb ++ [GLine.jmp wl]) post we s1)
      rw [← w1] at this
      exact this.cast (by len_arith) (by len_arith)
    have hs1' : Steps L whole (pre.length + 1) s (pre.length + 1 + cc.length + cb.length + 1) s1 := hs1.cast (by len_arith) rfl
    exact ⟨s1, (h0.trans hs1').trans hl, by rw [hm1, hm, h], trivial, hsp1⟩


theorem case_doWhile (L : Layout) (f : Nat) (ih : Correct L f) (c : Cond) (b : SStmt) (m m' : SrcSt)
    (h : sem L (f + 1) m (.doWhile b c) = some m') (hfr : SInFragment (.doWhile b c) = true)
    (g : GState) (pre post : List GLine) (s : Cpu) (hold : Old g pre) (hm : srcOf s = m) (hinv : FlagsInv L g.flags s) :
    Result L (pre ++ (gen g (.doWhile b c)).1 ++ post) pre.length s (pre.length + (gen g (.doWhile b c)).1.length) m'
      (gen g (.doWhile b c)).2.flags := by
  have hfr0 := hfr
  simp only [sem] at h
  simp only [SInFragment, Bool.and_eq_true] at hfr
  obtain ⟨hokc, hfrb⟩ := hfr
  have hrec := fun (m1 : SrcSt) (hs : sem L f m1 (.doWhile b c) = some m') (s2 : Cpu) (hm2 : srcOf s2 = m1) =>
    ih (.doWhile b c) m1 m' hs hfr0 { g with flags := none } pre post s2 ((old_flags g none pre).mpr hold) hm2 trivial
  simp only [gen_doWhile_flags] at hrec
  revert hrec
  simp only [gen]
  rcases hcb : gen { g with cWhile := g.cWhile + 1, flags := none } b with ⟨cb, g1⟩
  rcases hcc : genCond g1 c false ⟨.dowhile, g.cWhile + 1⟩ with ⟨cc, g2⟩
  dsimp only
  generalize hdl : (⟨.dowhile, g.cWhile + 1⟩ : Lbl) = dl
  generalize hde : (⟨.dowhileend, g.cWhile + 1⟩ : Lbl) = de
  intro hrec
  have hfb : Fresh { g with cWhile := g.cWhile + 1, flags := none } (cb, g1) := hcb ▸ gen_fresh b _
  have hfc : Fresh g1 (cc, g2) := hcc ▸ genCond_fresh ..
  have hold0 : Old { g with cWhile := g.cWhile + 1, flags := none } (pre ++ [GLine.lab dl]) := by
    refine (hold.mono (mono_cWhile g none)).append ?_
    intro l hl
    simp at hl
    subst hl
    rw [← hdl]
    simp [LKind.ctr, GState.ctr, Lbl.idx]
  have hold1 : Old g1 (pre ++ [GLine.lab dl] ++ cb) := (hold0.mono hfb.1).append (Old.of_fresh hfb)
  have hnot_dl : dl ∉ labels pre := by
    rw [← hdl]; exact not_mem_of_new hold (by simp [LKind.ctr, GState.ctr, Lbl.idx])
  have w0 : pre ++ ([GLine.lab dl] ++ cb ++ cc ++ [GLine.lab de]) ++ post
      = pre ++ GLine.lab dl :: (cb ++ cc ++ [GLine.lab de] ++ post) := by simp
  have w1 : pre ++ ([GLine.lab dl] ++ cb ++ cc ++ [GLine.lab de]) ++ post
      = (pre ++ [GLine.lab dl] ++ cb ++ cc) ++ GLine.lab de :: post := by simp
  have w2 : pre ++ ([GLine.lab dl] ++ cb ++ cc ++ [GLine.lab de]) ++ post
      = (pre ++ [GLine.lab dl]) ++ cb ++ (cc ++ [GLine.lab de] ++ post) := by simp
  have w3 : pre ++ ([GLine.lab dl] ++ cb ++ cc ++ [GLine.lab de]) ++ post
      = (pre ++ [GLine.lab dl] ++ cb) ++ cc ++ ([GLine.lab de] ++ post) := by simp
  have hend : pre.length + ([GLine.lab dl] ++ cb ++ cc ++ [GLine.lab de]).length
      = pre.length + 1 + cb.length + cc.length + 1 := by len_arith
  rw [hend] at hrec ⊢
  generalize hwhole : pre ++ ([GLine.lab dl] ++ cb ++ cc ++ [GLine.lab de]) ++ post = whole at *
  have hfind_dl : findLbl whole dl = some pre.length := by
    rw [w0, findLbl_at _ _ _ hnot_dl]
  have h0 : Steps L whole pre.length s (pre.length + 1) s := by
    have := Steps.single (step_lab L pre (cb ++ cc ++ [GLine.lab de] ++ post) dl s)
    rw [← w0] at this; exact this
  cases hb1 : sem L f m b with
  | none => simp [hb1] at h
  | some m1 =>
    simp [hb1] at h
    -- the body
    have rb := ih b m m1 hb1 hfrb { g with cWhile := g.cWhile + 1, flags := none } (pre ++ [GLine.lab dl])
      (cc ++ [GLine.lab de] ++ post) s hold0 hm trivial
    rw [hcb] at rb
    dsimp only at rb
    rw [← w2] at rb
    obtain ⟨s1, hs1, hm1, hf1, hsp1⟩ := rb
    have hs1' : Steps L whole (pre.length + 1) s (pre.length + 1 + cb.length) s1 := hs1.cast (by len_arith) (by len_arith)
    -- the condition
    have hc := genCond_correct L c g1 false dl hokc
    rw [hdl] at hcc
    rw [hcc] at hc
    have hc' := hc (pre ++ [GLine.lab dl] ++ cb) ([GLine.lab de] ++ post) s1 pre.length hold1 hf1
      (by rw [← w3]; exact hfind_dl)
    obtain ⟨s2, hs2, hm2, hsp2, hf2⟩ := hc'
    dsimp only at hs2 hf2
    rw [← w3, hm1] at hs2
    by_cases hev : evalCond L m1 c = true
    · simp only [hev, if_true] at h
      have hb : (evalCond L m1 c != false) = true := by simp [hev]
      simp only [hb, if_true] at hs2
      obtain ⟨s3, hs3, hm3, hf3, hsp3⟩ := hrec m1 h s2 (by rw [hm2, hm1])
      refine ⟨s3, ?_, hm3, trivial, by rw [hsp3, hsp2, hsp1]⟩
      have hs2' : Steps L whole (pre.length + 1 + cb.length) s1 pre.length s2 := hs2.cast (by len_arith) rfl
      exact ((h0.trans hs1').trans hs2').trans hs3
    · have hev' : evalCond L m1 c = false := by simpa using hev
      simp only [hev', Bool.false_eq_true, if_false, Option.some.injEq] at h
      have hb : (evalCond L m1 c != false) = false := by simp [hev']
      simp only [hb, Bool.false_eq_true, if_false] at hs2
      have hl : Steps L whole (pre.length + 1 + cb.length + cc.length) s2 (pre.length + 1 + cb.length + cc.length + 1) s2 := by
        have := Steps.single (step_lab L (pre ++ [GLine.lab dl] ++ cb ++ cc) post de s2)
        rw [← w1] at this
        exact this.cast (by len_arith) (by len_arith)
      have hs2' : Steps L whole (pre.length + 1 + cb.length) s1 (pre.length + 1 + cb.length + cc.length) s2 :=
        hs2.cast (by len_arith) (by len_arith)
      exact ⟨s2, ((h0.trans hs1').trans hs2').trans hl, by rw [hm2, hm1, h], trivial,
        by rw [hsp2, hsp1]⟩


theorem old_nolabels {g : GState} {p q : List GLine} (hp : Old g p) (hq : labels q = []) : Old g (p ++ q) := by
  intro l hl
  simp [hq] at hl
  exact hp l hl

theorem case_for (L : Layout) (f : Nat) (ihs : ∀ j, j ≤ f → Correct L j) (i u : RStmt) (c : Cond) (b : SStmt) (m m' : SrcSt)
    (h : sem L (f + 1) m (.for i c u b) = some m') (hfr : SInFragment (.for i c u b) = true)
    (g : GState) (pre post : List GLine) (s : Cpu) (hold : Old g pre) (hm : srcOf s = m) (hinv : FlagsInv L g.flags s) :
    Result L (pre ++ (gen g (.for i c u b)).1 ++ post) pre.length s (pre.length + (gen g (.for i c u b)).1.length) m'
      (gen g (.for i c u b)).2.flags := by
  simp only [sem] at h
  simp only [SInFragment, Bool.and_eq_true] at hfr
  obtain ⟨⟨⟨_, hokc⟩, _⟩, hfrb⟩ := hfr
  simp only [gen, genFlat]
  rcases hc1 : genCond { g with cFor := g.cFor + 1, flags := flagsAfter (zpL g.abs) g.flags i } c true ⟨.forend, g.cFor + 1⟩ with ⟨c1, g2⟩
  rcases hcb : gen { g2 with flags := none } b with ⟨cb, g3⟩
  rcases hc2 : genCond { g3 with flags := flagsAfter (zpL g3.abs) none u } c false ⟨.for_, g.cFor + 1⟩ with ⟨c2, g5⟩
  dsimp only
  generalize hfl : (⟨.for_, g.cFor + 1⟩ : Lbl) = fl
  generalize hfu : (⟨.forupdate, g.cFor + 1⟩ : Lbl) = fu
  generalize hfe : (⟨.forend, g.cFor + 1⟩ : Lbl) = fe
  generalize hci : flatLines (zpL g.abs) i = ci
  generalize hcu : flatLines (zpL g3.abs) u = cu
  have hlci : labels ci = [] := by rw [← hci]; exact labels_flatLines _ i
  have hlcu : labels cu = [] := by rw [← hcu]; exact labels_flatLines _ u
  have hf1 : Fresh { g with cFor := g.cFor + 1, flags := flagsAfter (zpL g.abs) g.flags i } (c1, g2) := hc1 ▸ genCond_fresh ..
  have hfb : Fresh g2 (cb, g3) := by
    have := gen_fresh b { g2 with flags := none }
    rw [hcb, fresh_flags_left] at this
    exact this
  have hf2 : Fresh g3 (c2, g5) := by
    have : Fresh { g3 with flags := flagsAfter (zpL g3.abs) none u } (c2, g5) := hc2 ▸ genCond_fresh ..
    rwa [fresh_flags_left] at this
  have hk1 := fresh_ctr_le hf1 .cFor
  have hk2 := fresh_ctr_le hfb .cFor
  simp [GState.ctr] at hk1 hk2
  have hm0 : Mono g { g with cFor := g.cFor + 1, flags := flagsAfter (zpL g.abs) g.flags i } := by
    intro k; cases k <;> simp [GState.ctr]
  have hold_a : Old { g with cFor := g.cFor + 1, flags := flagsAfter (zpL g.abs) g.flags i } (pre ++ ci) :=
    old_nolabels (hold.mono hm0) hlci
  have hold_b : Old { g2 with flags := none } (pre ++ ci ++ c1 ++ [GLine.lab fl]) := by
    rw [old_flags]
    refine ((hold_a.mono hf1.1).append (Old.of_fresh hf1)).append ?_
    intro l hl
    simp at hl
    subst hl
    rw [← hfl]; simp [LKind.ctr, GState.ctr, Lbl.idx]; omega
  have hold_c : Old { g3 with flags := flagsAfter (zpL g3.abs) none u } (pre ++ ci ++ c1 ++ [GLine.lab fl] ++ cb ++ [GLine.lab fu] ++ cu) := by
    rw [old_flags]
    refine old_nolabels ((((old_flags g2 none _).mp hold_b |>.mono hfb.1).append (Old.of_fresh hfb)).append ?_) hlcu
    intro l hl
    simp at hl
    subst hl
    rw [← hfu]; simp [LKind.ctr, GState.ctr, Lbl.idx]; omega
  have hne1 : fe ≠ fl := by rw [← hfe, ← hfl]; simp
  have hne2 : fe ≠ fu := by rw [← hfe, ← hfu]; simp
  have hnot_fl : fl ∉ labels (pre ++ ci ++ c1) := by
    simp only [labels_append, List.mem_append, not_or, hlci, List.not_mem_nil, not_false_eq_true, and_true]
    refine ⟨?_, ?_⟩
    · rw [← hfl]; exact not_mem_of_new hold (by simp [LKind.ctr, GState.ctr, Lbl.idx])
    · rw [← hfl]; exact not_mem_of_fresh hf1 (by simp [LKind.ctr, GState.ctr, Lbl.idx])
  have hnot_fe : fe ∉ labels (pre ++ ci ++ c1 ++ [GLine.lab fl] ++ cb ++ [GLine.lab fu] ++ cu ++ c2) := by
    simp only [labels_append, List.mem_append, not_or, hlci, hlcu, List.not_mem_nil, not_false_eq_true, and_true,
      labels_lab, labels_nil, List.mem_singleton]
    refine ⟨⟨⟨⟨⟨?_, ?_⟩, hne1⟩, ?_⟩, hne2⟩, ?_⟩
    · rw [← hfe]; exact not_mem_of_new hold (by simp [LKind.ctr, GState.ctr, Lbl.idx])
    · rw [← hfe]; exact not_mem_of_fresh hf1 (by simp [LKind.ctr, GState.ctr, Lbl.idx])
    · rw [← hfe]; exact not_mem_of_fresh hfb (by simp [LKind.ctr, GState.ctr, Lbl.idx]; omega)
    · rw [← hfe]; exact not_mem_of_fresh hf2 (by simp [LKind.ctr, GState.ctr, Lbl.idx]; omega)
  -- shapes of the whole code
  have w0 : pre ++ (ci ++ c1 ++ [GLine.lab fl] ++ cb ++ [GLine.lab fu] ++ cu ++ c2 ++ [GLine.lab fe]) ++ post
      = pre ++ ci ++ (c1 ++ [GLine.lab fl] ++ cb ++ [GLine.lab fu] ++ cu ++ c2 ++ [GLine.lab fe] ++ post) := by simp
  have w1 : pre ++ (ci ++ c1 ++ [GLine.lab fl] ++ cb ++ [GLine.lab fu] ++ cu ++ c2 ++ [GLine.lab fe]) ++ post
      = (pre ++ ci) ++ c1 ++ ([GLine.lab fl] ++ cb ++ [GLine.lab fu] ++ cu ++ c2 ++ [GLine.lab fe] ++ post) := by simp
  have w2 : pre ++ (ci ++ c1 ++ [GLine.lab fl] ++ cb ++ [GLine.lab fu] ++ cu ++ c2 ++ [GLine.lab fe]) ++ post
      = (pre ++ ci ++ c1) ++ GLine.lab fl :: (cb ++ [GLine.lab fu] ++ cu ++ c2 ++ [GLine.lab fe] ++ post) := by simp
  have w3 : pre ++ (ci ++ c1 ++ [GLine.lab fl] ++ cb ++ [GLine.lab fu] ++ cu ++ c2 ++ [GLine.lab fe]) ++ post
      = (pre ++ ci ++ c1 ++ [GLine.lab fl]) ++ cb ++ ([GLine.lab fu] ++ cu ++ c2 ++ [GLine.lab fe] ++ post) := by simp
  have w4 : pre ++ (ci ++ c1 ++ [GLine.lab fl] ++ cb ++ [GLine.lab fu] ++ cu ++ c2 ++ [GLine.lab fe]) ++ post
      = (pre ++ ci ++ c1 ++ [GLine.lab fl] ++ cb) ++ GLine.lab fu :: (cu ++ c2 ++ [GLine.lab fe] ++ post) := by simp
  have w5 : pre ++ (ci ++ c1 ++ [GLine.lab fl] ++ cb ++ [GLine.lab fu] ++ cu ++ c2 ++ [GLine.lab fe]) ++ post
      = (pre ++ ci ++ c1 ++ [GLine.lab fl] ++ cb ++ [GLine.lab fu]) ++ cu ++ (c2 ++ [GLine.lab fe] ++ post) := by simp
  have w6 : pre ++ (ci ++ c1 ++ [GLine.lab fl] ++ cb ++ [GLine.lab fu] ++ cu ++ c2 ++ [GLine.lab fe]) ++ post
      = (pre ++ ci ++ c1 ++ [GLine.lab fl] ++ cb ++ [GLine.lab fu] ++ cu) ++ c2 ++ ([GLine.lab fe] ++ post) := by simp
  have w7 : pre ++ (ci ++ c1 ++ [GLine.lab fl] ++ cb ++ [GLine.lab fu] ++ cu ++ c2 ++ [GLine.lab fe]) ++ post
      = (pre ++ ci ++ c1 ++ [GLine.lab fl] ++ cb ++ [GLine.lab fu] ++ cu ++ c2) ++ GLine.lab fe :: post := by simp
  have hend : pre.length + (ci ++ c1 ++ [GLine.lab fl] ++ cb ++ [GLine.lab fu] ++ cu ++ c2 ++ [GLine.lab fe]).length
      = pre.length + ci.length + c1.length + 1 + cb.length + 1 + cu.length + c2.length + 1 := by len_arith
  rw [hend]
  generalize hwhole : pre ++ (ci ++ c1 ++ [GLine.lab fl] ++ cb ++ [GLine.lab fu] ++ cu ++ c2 ++ [GLine.lab fe]) ++ post = whole at *
  have hfind_fl : findLbl whole fl = some (pre.length + ci.length + c1.length) := by
    rw [w2, findLbl_at _ _ _ hnot_fl]; congr 1; len_arith
  have hfind_fe : findLbl whole fe = some (pre.length + ci.length + c1.length + 1 + cb.length + 1 + cu.length + c2.length) := by
    rw [w7, findLbl_at _ _ _ hnot_fe]; congr 1; len_arith
  have hlast : ∀ s2 : Cpu, Steps L whole (pre.length + ci.length + c1.length + 1 + cb.length + 1 + cu.length + c2.length) s2
      (pre.length + ci.length + c1.length + 1 + cb.length + 1 + cu.length + c2.length + 1) s2 := by
    intro s2
    have := Steps.single (step_lab L (pre ++ ci ++ c1 ++ [GLine.lab fl] ++ cb ++ [GLine.lab fu] ++ cu ++ c2) post fe s2)
    rw [← w7] at this
    exact this.cast (by len_arith) (by len_arith)
  -- the loop, from the loop label, by induction on the fuel of the source loop
  have hloop : ∀ k, k ≤ f → ∀ (m1 : SrcSt) (s1 : Cpu), srcOf s1 = m1 → evalCond L m1 c = true →
      sem L k m1 (.while c (.seq b (.flat u))) = some m' →
      Result L whole (pre.length + ci.length + c1.length) s1
        (pre.length + ci.length + c1.length + 1 + cb.length + 1 + cu.length + c2.length + 1) m' none := by
    intro k
    induction k with
    | zero => intro _ m1 s1 _ _ hs; simp [sem] at hs
    | succ k ihk =>
      intro hk m1 s1 hm1 hev hs
      simp only [sem, hev, if_true] at hs
      cases hbody : sem L k m1 (.seq b (.flat u)) with
      | none => simp [hbody] at hs
      | some m2 =>
        simp [hbody] at hs
        -- split the body: b then u
        cases k with
        | zero => simp [sem] at hbody
        | succ k1 =>
          simp only [sem] at hbody
          cases hb1 : sem L k1 m1 b with
          | none => simp [hb1] at hbody
          | some mb =>
            simp [hb1] at hbody
            cases k1 with
            | zero => simp [sem] at hbody
            | succ k2 =>
              simp only [sem, Option.some.injEq] at hbody
              -- loop label
              have h0 : Steps L whole (pre.length + ci.length + c1.length) s1 (pre.length + ci.length + c1.length + 1) s1 := by
                have := Steps.single (step_lab L (pre ++ ci ++ c1) (cb ++ [GLine.lab fu] ++ cu ++ c2 ++ [GLine.lab fe] ++ post) fl s1)
                rw [← w2] at this
                exact this.cast (by len_arith) (by len_arith)
              -- body
              have rb := ihs (k2 + 1) (by omega) b m1 mb hb1 hfrb { g2 with flags := none } (pre ++ ci ++ c1 ++ [GLine.lab fl])
                ([GLine.lab fu] ++ cu ++ c2 ++ [GLine.lab fe] ++ post) s1 hold_b hm1 trivial
              rw [hcb] at rb
              dsimp only at rb
              rw [← w3] at rb
              obtain ⟨s2, hs2, hm2, hf2', hsp2⟩ := rb
              have hs2' : Steps L whole (pre.length + ci.length + c1.length + 1) s1 (pre.length + ci.length + c1.length + 1 + cb.length) s2 :=
                hs2.cast (by len_arith) (by len_arith)
              -- update label
              have h3 : Steps L whole (pre.length + ci.length + c1.length + 1 + cb.length) s2
                  (pre.length + ci.length + c1.length + 1 + cb.length + 1) s2 := by
                have := Steps.single (step_lab L (pre ++ ci ++ c1 ++ [GLine.lab fl] ++ cb) (cu ++ c2 ++ [GLine.lab fe] ++ post) fu s2)
                rw [← w4] at this
                exact this.cast (by len_arith) (by len_arith)
              -- update statement
              obtain ⟨s3, hs3, hm3, hsp3, hz3⟩ := flat_steps L (zpL g3.abs) u none (pre ++ ci ++ c1 ++ [GLine.lab fl] ++ cb ++ [GLine.lab fu]) (c2 ++ [GLine.lab fe] ++ post) s2 trivial
              rw [hcu, ← w5] at hs3
              have hs3' : Steps L whole (pre.length + ci.length + c1.length + 1 + cb.length + 1) s2
                  (pre.length + ci.length + c1.length + 1 + cb.length + 1 + cu.length) s3 :=
                hs3.cast (by len_arith) (by len_arith)
              have hmem3 : srcOf s3 = m2 := by rw [hm3, hm2, hbody]
              -- second condition
              have hc := genCond_correct L c { g3 with flags := flagsAfter (zpL g3.abs) none u } false fl hokc
              rw [hfl] at hc2
              rw [hc2] at hc
              have hc' := hc (pre ++ ci ++ c1 ++ [GLine.lab fl] ++ cb ++ [GLine.lab fu] ++ cu) ([GLine.lab fe] ++ post) s3
                (pre.length + ci.length + c1.length) hold_c hz3 (by rw [← w6]; exact hfind_fl)
              obtain ⟨s4, hs4, hm4, hsp4, hf4⟩ := hc'
              dsimp only at hs4
              rw [← w6, hmem3] at hs4
              by_cases hev2 : evalCond L m2 c = true
              · have hb : (evalCond L m2 c != false) = true := by simp [hev2]
                simp only [hb, if_true] at hs4
                have hs4' : Steps L whole (pre.length + ci.length + c1.length + 1 + cb.length + 1 + cu.length) s3
                    (pre.length + ci.length + c1.length) s4 := hs4.cast (by len_arith) rfl
                obtain ⟨s5, hs5, hm5, _, hsp5⟩ := ihk (by omega) m2 s4 (by rw [hm4, hmem3]) hev2 hs
                exact ⟨s5, ((((h0.trans hs2').trans h3).trans hs3').trans hs4').trans hs5, hm5, trivial, by rw [hsp5, hsp4, hsp3, hsp2]⟩
              · have hev2' : evalCond L m2 c = false := by simpa using hev2
                have hb : (evalCond L m2 c != false) = false := by simp [hev2']
                simp only [hb, Bool.false_eq_true, if_false] at hs4
                have hs4' : Steps L whole (pre.length + ci.length + c1.length + 1 + cb.length + 1 + cu.length) s3
                    (pre.length + ci.length + c1.length + 1 + cb.length + 1 + cu.length + c2.length) s4 :=
                  hs4.cast (by len_arith) (by len_arith)
                simp only [sem, hev2', Bool.false_eq_true, if_false, Option.some.injEq] at hs
                exact ⟨s4, ((((h0.trans hs2').trans h3).trans hs3').trans hs4').trans (hlast s4), by rw [hm4, hmem3, hs], trivial, by rw [hsp4, hsp3, hsp2]⟩
  -- the initialisation
  obtain ⟨sa, hsa, hma, hspa, hza⟩ := flat_steps L (zpL g.abs) i g.flags pre
    (c1 ++ [GLine.lab fl] ++ cb ++ [GLine.lab fu] ++ cu ++ c2 ++ [GLine.lab fe] ++ post) s hinv
  rw [hci, ← w0] at hsa
  -- the first condition
  have hc := genCond_correct L c { g with cFor := g.cFor + 1, flags := flagsAfter (zpL g.abs) g.flags i } true fe hokc
  rw [hfe] at hc1
  rw [hc1] at hc
  have hc' := hc (pre ++ ci) ([GLine.lab fl] ++ cb ++ [GLine.lab fu] ++ cu ++ c2 ++ [GLine.lab fe] ++ post) sa
    (pre.length + ci.length + c1.length + 1 + cb.length + 1 + cu.length + c2.length) hold_a hza (by rw [← w1]; exact hfind_fe)
  obtain ⟨sb, hsb, hmb, hspb, hfb'⟩ := hc'
  dsimp only at hsb
  rw [← w1] at hsb
  have hmema : srcOf sa = rspec L m i := by rw [hma, hm]
  rw [hmema] at hsb
  cases f with
  | zero => simp [sem] at h
  | succ f1 =>
    by_cases hev : evalCond L (rspec L m i) c = true
    · have hb : (evalCond L (rspec L m i) c != true) = false := by simp [hev]
      simp only [hb, Bool.false_eq_true, if_false] at hsb
      have hsb' : Steps L whole (pre.length + ci.length) sa (pre.length + ci.length + c1.length) sb :=
        hsb.cast (by len_arith) (by len_arith)
      obtain ⟨sc, hsc, hmc, _, hspc⟩ := hloop (f1 + 1) (Nat.le_refl _) (rspec L m i) sb (by rw [hmb, hmema]) hev h
      exact ⟨sc, (hsa.trans hsb').trans hsc, hmc, trivial, by rw [hspc, hspb, hspa]⟩
    · have hev' : evalCond L (rspec L m i) c = false := by simpa using hev
      have hb : (evalCond L (rspec L m i) c != true) = true := by simp [hev']
      simp only [hb, if_true] at hsb
      have hsb' : Steps L whole (pre.length + ci.length) sa
          (pre.length + ci.length + c1.length + 1 + cb.length + 1 + cu.length + c2.length) sb := hsb.cast (by len_arith) rfl
      simp only [sem, hev', Bool.false_eq_true, if_false, Option.some.injEq] at h
      exact ⟨sb, (hsa.trans hsb').trans (hlast sb), by rw [hmb, hmema, h], trivial, by rw [hspb, hspa]⟩


/-- every statement of the fragment, whatever fuel its source meaning needs -/
theorem correct_all (L : Layout) : ∀ fuel, Correct L fuel := by
  intro fuel
  induction fuel using Nat.strongRecOn with
  | _ fuel ih =>
    intro st m m' h hfr g pre post s hold hm hinv
    cases fuel with
    | zero => simp [sem] at h
    | succ f =>
      have ihf : Correct L f := ih f (by omega)
      cases st with
      | flat fs => exact case_flat L f fs m m' h g pre post s hm hinv
      | skip =>
        simp only [sem, Option.some.injEq] at h
        refine ⟨s, ?_, by rw [hm, h], by simpa [gen] using hinv, rfl⟩
        simpa [gen] using Steps.refl (L := L) (code := pre ++ post) pre.length s
      | seq a b => exact case_seq L f ihf a b m m' h hfr g pre post s hold hm hinv
      | ifThen c t => exact case_ifThen L f ihf c t m m' h hfr g pre post s hold hm hinv
      | ifElse c t e => exact case_ifElse L f ihf c t e m m' h hfr g pre post s hold hm hinv
      | «while» c b => exact case_while L f ihf c b m m' h hfr g pre post s hold hm hinv
      | doWhile b c => exact case_doWhile L f ihf c b m m' h hfr g pre post s hold hm hinv
      | «for» i c u b =>
        exact case_for L f (fun j hj => ih j (by omega)) i u c b m m' h hfr g pre post s hold hm hinv

end CV.GenStruct
