/-
  The generator proof for structured statements: every statement of the fragment, generated in any generator
  state, inside any loop and placed in any context whose labels are older, runs from its first line
    * to just behind its last line when the source statement ends normally — and the generator's flag belief
      holds there;
    * to the label a `break` / `continue` of the enclosing loop jumps to when the source statement ends that way;
  and in each case leaves the memory, X and Y the source prescribes.
-/
import CV.Proofs.GenStructSem
set_option linter.unusedSimpArgs false
set_option linter.unusedVariables false
set_option linter.constructorNameAsVariable false
namespace CV.GenStruct
open CV CV.GenFlat CV.GenReg

/-- the run of a piece of code: from `start` to `stop` with final memory `m'` and flag belief `fl` -/
def Result (L : Layout) (code : List GLine) (start : Nat) (s : Cpu) (stop : Nat) (m' : SrcSt) (fl : Option FRef) : Prop :=
  ∃ s', Steps L code start s stop s' ∧ srcOf s' = m' ∧ FlagsInv L fl s' ∧ s'.sp = s.sp

/-- a run that ends at the position `t` of a label (nothing is claimed about the flags: a label forgets them) -/
def Jumped (L : Layout) (code : List GLine) (start : Nat) (s : Cpu) (t : Nat) (m' : SrcSt) : Prop :=
  ∃ s', Steps L code start s t s' ∧ srcOf s' = m' ∧ s'.sp = s.sp

/-- the run of a statement with outcome `out`: normally to `stop`; by `continue` to `tc`; by `break` to `tb` -/
def ResultO (L : Layout) (code : List GLine) (start : Nat) (s : Cpu) (stop tc tb : Nat) (out : Out) (fl : Option FRef) : Prop :=
  match out.1 with
  | .norm => Result L code start s stop out.2 fl
  | .cont => Jumped L code start s tc out.2
  | .brk => Jumped L code start s tb out.2

/-- the labels of the enclosing loop are where the caller says: the break label always, the continue label when
    the statement needs it (`generate_do_while` emits it only then) -/
def LoopOK (lp : LoopCtx) (whole : List GLine) (tc tb : Nat) (needC : Bool) : Prop :=
  match lp with
  | none => True
  | some (cl, bl) => (needC = true → findLbl whole cl = some tc) ∧ findLbl whole bl = some tb

/-- correctness of `gen` for every statement whose source meaning is found within `fuel` -/
def Correct (L : Layout) (fuel : Nat) : Prop :=
  ∀ (st : SStmt) (m : SrcSt) (out : Out), sem L fuel m st = some out → SInFragment st = true →
    ∀ (lp : LoopCtx) (g : GState) (pre post : List GLine) (s : Cpu) (tc tb : Nat),
      Scoped lp.isSome st = true → Old g pre → srcOf s = m → FlagsInv L g.flags s →
      LoopOK lp (pre ++ (gen lp g st).1 ++ post) tc tb (contHere st) →
      ResultO L (pre ++ (gen lp g st).1 ++ post) pre.length s (pre.length + (gen lp g st).1.length) tc tb out
        (gen lp g st).2.flags

theorem Result.trans {L : Layout} {code : List GLine} {p1 p2 p3 : Nat} {s1 : Cpu} {m2 m3 : SrcSt} {f2 f3 : Option FRef}
    (h1 : Result L code p1 s1 p2 m2 f2)
    (h2 : ∀ s2 : Cpu, srcOf s2 = m2 → FlagsInv L f2 s2 → Result L code p2 s2 p3 m3 f3) :
    Result L code p1 s1 p3 m3 f3 := by
  obtain ⟨s2, hs, hm, hf, hsp⟩ := h1
  obtain ⟨s3, hs', hm', hf', hsp'⟩ := h2 s2 hm hf
  exact ⟨s3, hs.trans hs', hm', hf', by rw [hsp', hsp]⟩

/-- a normal run followed by a run with any outcome -/
theorem Result.thenO {L : Layout} {code : List GLine} {p1 p2 p3 tc tb : Nat} {s1 : Cpu} {m2 : SrcSt} {out : Out}
    {f2 f3 : Option FRef} (h1 : Result L code p1 s1 p2 m2 f2)
    (h2 : ∀ s2 : Cpu, srcOf s2 = m2 → FlagsInv L f2 s2 → ResultO L code p2 s2 p3 tc tb out f3) :
    ResultO L code p1 s1 p3 tc tb out f3 := by
  obtain ⟨s2, hs, hm, hf, hsp⟩ := h1
  have := h2 s2 hm hf
  obtain ⟨e, mo⟩ := out
  cases e
  · obtain ⟨s3, hs', hm', hf', hsp'⟩ := this
    exact ⟨s3, hs.trans hs', hm', hf', by rw [hsp', hsp]⟩
  · obtain ⟨s3, hs', hm', hsp'⟩ := this
    exact ⟨s3, hs.trans hs', hm', by rw [hsp', hsp]⟩
  · obtain ⟨s3, hs', hm', hsp'⟩ := this
    exact ⟨s3, hs.trans hs', hm', by rw [hsp', hsp]⟩

/-- steps, then a sub-statement with any outcome, then — when it ended normally — more steps that keep memory -/
theorem ResultO.wrap {L : Layout} {code : List GLine} {p1 p2 q p3 tc tb : Nat} {s1 s2 : Cpu} {out : Out}
    {f2 f3 : Option FRef} (hpre : Steps L code p1 s1 p2 s2) (hsp : s2.sp = s1.sp)
    (hsub : ResultO L code p2 s2 q tc tb out f2)
    (hpost : ∀ s3 : Cpu, Steps L code q s3 p3 s3) (hf3 : f3 = none) :
    ResultO L code p1 s1 p3 tc tb out f3 := by
  subst hf3
  obtain ⟨e, mo⟩ := out
  cases e
  · obtain ⟨s3, hs', hm', hf', hsp'⟩ := hsub
    exact ⟨s3, (hpre.trans hs').trans (hpost s3), hm', trivial, by rw [hsp', hsp]⟩
  · obtain ⟨s3, hs', hm', hsp'⟩ := hsub
    exact ⟨s3, hpre.trans hs', hm', by rw [hsp', hsp]⟩
  · obtain ⟨s3, hs', hm', hsp'⟩ := hsub
    exact ⟨s3, hpre.trans hs', hm', by rw [hsp', hsp]⟩

theorem LoopOK.sub {lp : LoopCtx} {whole : List GLine} {tc tb : Nat} {n n' : Bool} (h : LoopOK lp whole tc tb n)
    (hn : n' = true → n = true) : LoopOK lp whole tc tb n' := by
  cases lp with
  | none => trivial
  | some p => obtain ⟨cl, bl⟩ := p; exact ⟨fun e => h.1 (hn e), h.2⟩

/-- a label that is new for `g` is not defined in code that is old for `g` -/
theorem not_mem_of_new {g : GState} {pre : List GLine} {l : Lbl} (ho : Old g pre) (hn : g.ctr l.kind.ctr < l.idx) :
    l ∉ labels pre := by
  intro h
  have := ho l h
  omega

theorem case_flat (L : Layout) (f : Nat) (fs : RStmt) (m : SrcSt) (out : Out) (h : sem L (f + 1) m (.flat fs) = some out)
    (lp : LoopCtx) (g : GState) (pre post : List GLine) (s : Cpu) (tc tb : Nat) (hm : srcOf s = m) (hinv : FlagsInv L g.flags s) :
    ResultO L (pre ++ (gen lp g (.flat fs)).1 ++ post) pre.length s (pre.length + (gen lp g (.flat fs)).1.length) tc tb out
      (gen lp g (.flat fs)).2.flags := by
  simp only [sem, Option.some.injEq] at h
  subst h
  obtain ⟨s', hs, hmem, hsp, hz⟩ := flat_steps L (zpL g.abs) fs g.flags pre post s hinv
  refine ⟨s', by simpa [gen, genFlat] using hs, ?_, by simpa [gen, genFlat] using hz, hsp⟩
  rw [hmem, hm]

theorem case_jump (L : Layout) (lp : LoopCtx) (g : GState) (pre post : List GLine) (s : Cpu) (t : Nat) (l : Lbl)
    (hf : findLbl (pre ++ [GLine.jmp l] ++ post) l = some t) :
    Jumped L (pre ++ [GLine.jmp l] ++ post) pre.length s t (srcOf s) := by
  have := Steps.single (step_jmp L pre post l s t (by simpa using hf))
  exact ⟨s, by simpa using this, rfl, rfl⟩

/-- `if (c) break;` / `if (c) continue;`: the condition branches to the loop's label itself -/
theorem case_condJump (L : Layout) (c : Cond) (hok : CondOK c = true) (g : GState) (pre post : List GLine) (s : Cpu)
    (m : SrcSt) (l : Lbl) (t : Nat) (hold : Old g pre) (hm : srcOf s = m) (hinv : FlagsInv L g.flags s)
    (hf : findLbl (pre ++ (genCond { g with cIf := g.cIf + 1 } c false l).1 ++ post) l = some t) :
    (evalCond L m c = true → Jumped L (pre ++ (genCond { g with cIf := g.cIf + 1 } c false l).1 ++ post) pre.length s t (condEff L m c)) ∧
    (evalCond L m c = false → Result L (pre ++ (genCond { g with cIf := g.cIf + 1 } c false l).1 ++ post) pre.length s
        (pre.length + (genCond { g with cIf := g.cIf + 1 } c false l).1.length) (condEff L m c) (genCond { g with cIf := g.cIf + 1 } c false l).2.flags) := by
  have hc := genCond_correct L c { g with cIf := g.cIf + 1 } false l hok pre post s t (hold.mono (mono_cIf g)) hinv hf
  obtain ⟨s1, hs1, hm1, hsp1, hf1⟩ := hc
  dsimp only at hs1 hf1
  rw [hm] at hs1 hf1
  refine ⟨?_, ?_⟩
  · intro hev
    have hb : (evalCond L m c != false) = true := by simp [hev]
    simp only [hb, if_true] at hs1
    exact ⟨s1, hs1, by rw [hm1, hm], hsp1⟩
  · intro hev
    have hb : (evalCond L m c != false) = false := by simp [hev]
    simp only [hb, Bool.false_eq_true, if_false, Bool.false_and] at hs1 hf1
    exact ⟨s1, hs1, by rw [hm1, hm], hf1, hsp1⟩

theorem case_seq (L : Layout) (f : Nat) (ih : Correct L f) (a b : SStmt) (m : SrcSt) (out : Out)
    (h : sem L (f + 1) m (.seq a b) = some out) (hfr : SInFragment (.seq a b) = true)
    (lp : LoopCtx) (g : GState) (pre post : List GLine) (s : Cpu) (tc tb : Nat)
    (hsc : Scoped lp.isSome (.seq a b) = true) (hold : Old g pre) (hm : srcOf s = m) (hinv : FlagsInv L g.flags s)
    (hlp : LoopOK lp (pre ++ (gen lp g (.seq a b)).1 ++ post) tc tb (contHere (.seq a b))) :
    ResultO L (pre ++ (gen lp g (.seq a b)).1 ++ post) pre.length s (pre.length + (gen lp g (.seq a b)).1.length) tc tb out
      (gen lp g (.seq a b)).2.flags := by
  simp only [sem] at h
  simp only [SInFragment, Bool.and_eq_true] at hfr
  simp only [Scoped, Bool.and_eq_true] at hsc
  revert hlp
  simp only [gen]
  rcases hca : gen lp g a with ⟨ca, g1⟩
  rcases hcb : gen lp g1 b with ⟨cb, g2⟩
  dsimp only
  intro hlp
  have hfa : Fresh g (ca, g1) := hca ▸ gen_fresh a lp g
  have hold1 : Old g1 (pre ++ ca) := (hold.mono hfa.1).append (Old.of_fresh hfa)
  have e1 : pre ++ (ca ++ cb) ++ post = pre ++ ca ++ (cb ++ post) := by simp
  have e2 : pre ++ (ca ++ cb) ++ post = (pre ++ ca) ++ cb ++ post := by simp
  cases h1 : sem L f m a with
  | none => simp [h1] at h
  | some oa =>
    have ra := ih a m oa h1 hfr.1 lp g pre (cb ++ post) s tc tb hsc.1 hold hm hinv
      (by rw [hca]; dsimp only; rw [← e1]; exact hlp.sub (by simp [contHere]; intro e; exact Or.inl e))
    rw [hca] at ra
    dsimp only at ra
    rw [← e1] at ra
    obtain ⟨ea, m1⟩ := oa
    cases ea with
    | norm =>
      simp only [h1] at h
      refine Result.thenO ra ?_
      intro s2 hm2 hf2
      have rb := ih b m1 out h hfr.2 lp g1 (pre ++ ca) post s2 tc tb hsc.2 hold1 hm2 hf2
        (by rw [hcb]; dsimp only; rw [← e2]; exact hlp.sub (by simp [contHere]; intro e; exact Or.inr e))
      rw [hcb] at rb
      dsimp only at rb
      rw [← e2] at rb
      simpa [Nat.add_assoc] using rb
    | brk =>
      simp only [h1, Option.some.injEq] at h
      subst h
      exact ra
    | cont =>
      simp only [h1, Option.some.injEq] at h
      subst h
      exact ra

/-- a label allocated before `gx` is not among the labels of code generated from `gx` on -/
theorem not_mem_of_fresh {gx : GState} {r : List GLine × GState} {l : Lbl} (hf : Fresh gx r)
    (hl : l.idx ≤ gx.ctr l.kind.ctr) : l ∉ labels r.1 := by
  intro h
  have := (hf.2 l h).1
  omega

theorem fresh_ctr_le {g : GState} {r : List GLine × GState} (h : Fresh g r) (c : Ctr) : g.ctr c ≤ r.2.ctr c := h.1 c



theorem case_ifThen (L : Layout) (f : Nat) (ih : Correct L f) (c : Cond) (t : SStmt) (m : SrcSt) (out : Out)
    (h : sem L (f + 1) m (.ifThen c t) = some out) (hfr : SInFragment (.ifThen c t) = true)
    (lp : LoopCtx) (g : GState) (pre post : List GLine) (s : Cpu) (tc tb : Nat)
    (hsc : Scoped lp.isSome (.ifThen c t) = true) (hold : Old g pre) (hm : srcOf s = m) (hinv : FlagsInv L g.flags s)
    (hlp : LoopOK lp (pre ++ (gen lp g (.ifThen c t)).1 ++ post) tc tb (contHere (.ifThen c t))) :
    ResultO L (pre ++ (gen lp g (.ifThen c t)).1 ++ post) pre.length s (pre.length + (gen lp g (.ifThen c t)).1.length) tc tb out
      (gen lp g (.ifThen c t)).2.flags := by
  simp only [sem] at h
  simp only [SInFragment, Bool.and_eq_true] at hfr
  simp only [Scoped] at hsc
  revert hlp
  simp only [gen, contHere]
  rcases hcc : genCond { g with cIf := g.cIf + 1 } c true ⟨.ifend, g.cIf + 1⟩ with ⟨cc, g1⟩
  rcases hct : gen lp g1 t with ⟨ct, g2⟩
  dsimp only
  intro hlp
  have hfc : Fresh { g with cIf := g.cIf + 1 } (cc, g1) := hcc ▸ genCond_fresh ..
  have hft : Fresh g1 (ct, g2) := hct ▸ gen_fresh t lp g1
  have hold0 : Old { g with cIf := g.cIf + 1 } pre := hold.mono (mono_cIf g)
  have hold1 : Old g1 (pre ++ cc) := (hold0.mono hfc.1).append (Old.of_fresh hfc)
  -- where the end label is
  have hnot : (⟨.ifend, g.cIf + 1⟩ : Lbl) ∉ labels (pre ++ cc ++ ct) := by
    simp only [labels_append, List.mem_append, not_or]
    refine ⟨⟨?_, ?_⟩, ?_⟩
    · exact not_mem_of_new hold (by simp [LKind.ctr, GState.ctr, Lbl.idx])
    · exact not_mem_of_fresh hfc (by simp [LKind.ctr, GState.ctr, Lbl.idx])
    · have := fresh_ctr_le hfc .cIf
      simp [GState.ctr] at this
      exact not_mem_of_fresh hft (by simp [LKind.ctr, GState.ctr, Lbl.idx]; omega)
  have hfind : findLbl (pre ++ (cc ++ ct ++ [GLine.lab ⟨.ifend, g.cIf + 1⟩]) ++ post) ⟨.ifend, g.cIf + 1⟩
      = some (pre.length + cc.length + ct.length) := by
    have e : pre ++ (cc ++ ct ++ [GLine.lab ⟨.ifend, g.cIf + 1⟩]) ++ post
        = (pre ++ cc ++ ct) ++ GLine.lab ⟨.ifend, g.cIf + 1⟩ :: post := by simp
    rw [e, findLbl_at _ _ _ hnot]; simp [Nat.add_assoc]
  -- the final label line
  have hlab : ∀ s2 : Cpu, Steps L (pre ++ (cc ++ ct ++ [GLine.lab ⟨.ifend, g.cIf + 1⟩]) ++ post)
      (pre.length + cc.length + ct.length) s2 (pre.length + (cc ++ ct ++ [GLine.lab ⟨.ifend, g.cIf + 1⟩]).length) s2 := by
    intro s2
    have e : pre ++ (cc ++ ct ++ [GLine.lab ⟨.ifend, g.cIf + 1⟩]) ++ post
        = (pre ++ cc ++ ct) ++ GLine.lab ⟨.ifend, g.cIf + 1⟩ :: post := by simp
    have := Steps.single (step_lab L (pre ++ cc ++ ct) post ⟨.ifend, g.cIf + 1⟩ s2)
    rw [e]
    simpa [Nat.add_assoc] using this
  -- the condition
  have hc := genCond_correct L c { g with cIf := g.cIf + 1 } true ⟨.ifend, g.cIf + 1⟩ hfr.1
  rw [hcc] at hc
  have hc' := hc pre (ct ++ [GLine.lab ⟨.ifend, g.cIf + 1⟩] ++ post) s (pre.length + cc.length + ct.length) hold0 hinv
    (by simpa [List.append_assoc] using hfind)
  obtain ⟨s1, hs1, hm1, hsp1, hf1⟩ := hc'
  have e1 : pre ++ cc ++ (ct ++ [GLine.lab ⟨.ifend, g.cIf + 1⟩] ++ post)
      = pre ++ (cc ++ ct ++ [GLine.lab ⟨.ifend, g.cIf + 1⟩]) ++ post := by simp
  dsimp only at hs1 hf1
  rw [e1] at hs1
  rw [hm] at hs1 hf1
  by_cases hev : evalCond L m c = true
  · -- the body runs
    simp only [hev, if_true] at h
    have hb : (evalCond L m c != true) = false := by simp [hev]
    simp only [hb, Bool.false_eq_true, if_false, Bool.false_and] at hs1 hf1
    have e2 : pre ++ cc ++ ct ++ ([GLine.lab ⟨.ifend, g.cIf + 1⟩] ++ post)
        = pre ++ (cc ++ ct ++ [GLine.lab ⟨.ifend, g.cIf + 1⟩]) ++ post := by simp
    have rt := ih t (condEff L m c) out h hfr.2 lp g1 (pre ++ cc) ([GLine.lab ⟨.ifend, g.cIf + 1⟩] ++ post) s1 tc tb hsc hold1 (by rw [hm1, hm]) hf1
      (by rw [hct]; dsimp only; rw [e2]; exact hlp)
    rw [hct] at rt
    dsimp only at rt
    rw [e2] at rt
    have rt' : ResultO L (pre ++ (cc ++ ct ++ [GLine.lab ⟨.ifend, g.cIf + 1⟩]) ++ post) (pre.length + cc.length) s1
        (pre.length + cc.length + ct.length) tc tb out g2.flags := by simpa using rt
    exact ResultO.wrap hs1 hsp1 rt' hlab rfl
  · -- the body is skipped
    have hev' : evalCond L m c = false := by simpa using hev
    simp only [hev', Bool.false_eq_true, if_false, Option.some.injEq] at h
    subst h
    have hb : (evalCond L m c != true) = true := by simp [hev']
    simp only [hb, if_true] at hs1
    exact ⟨s1, hs1.trans (hlab s1), by rw [hm1, hm], trivial, hsp1⟩


theorem case_ifElse (L : Layout) (f : Nat) (ih : Correct L f) (c : Cond) (t e : SStmt) (m : SrcSt) (out : Out)
    (h : sem L (f + 1) m (.ifElse c t e) = some out) (hfr : SInFragment (.ifElse c t e) = true)
    (lp : LoopCtx) (g : GState) (pre post : List GLine) (s : Cpu) (tc tb : Nat)
    (hsc : Scoped lp.isSome (.ifElse c t e) = true) (hold : Old g pre) (hm : srcOf s = m) (hinv : FlagsInv L g.flags s)
    (hlp : LoopOK lp (pre ++ (gen lp g (.ifElse c t e)).1 ++ post) tc tb (contHere (.ifElse c t e))) :
    ResultO L (pre ++ (gen lp g (.ifElse c t e)).1 ++ post) pre.length s (pre.length + (gen lp g (.ifElse c t e)).1.length) tc tb out
      (gen lp g (.ifElse c t e)).2.flags := by
  simp only [sem] at h
  simp only [SInFragment, Bool.and_eq_true] at hfr
  obtain ⟨⟨hokc, hfrt⟩, hfre⟩ := hfr
  simp only [Scoped, Bool.and_eq_true] at hsc
  revert hlp
  simp only [gen, contHere]
  rcases hcc : genCond { g with cIf := g.cIf + 1 } c true ⟨.else_, g.cIf + 1⟩ with ⟨cc, g1⟩
  rcases hct : gen lp g1 t with ⟨ct, g2⟩
  rcases hce : gen lp { g2 with flags := if c.singleExit then g1.flags else none } e with ⟨ce, g3⟩
  dsimp only
  generalize hifend : (⟨.ifend, g.cIf + 1⟩ : Lbl) = ifend
  generalize hels : (⟨.else_, g.cIf + 1⟩ : Lbl) = els
  intro hlp
  have hfc : Fresh { g with cIf := g.cIf + 1 } (cc, g1) := hcc ▸ genCond_fresh ..
  have hft : Fresh g1 (ct, g2) := hct ▸ gen_fresh t lp g1
  have hfe : Fresh g2 (ce, g3) := by
    have := gen_fresh e lp { g2 with flags := if c.singleExit then g1.flags else none }
    rw [hce, fresh_flags_left] at this
    exact this
  have hold0 : Old { g with cIf := g.cIf + 1 } pre := hold.mono (mono_cIf g)
  have hold1 : Old g1 (pre ++ cc) := (hold0.mono hfc.1).append (Old.of_fresh hfc)
  have hk1 := fresh_ctr_le hfc .cIf
  have hk2 := fresh_ctr_le hft .cIf
  simp [GState.ctr] at hk1 hk2
  have hneq : els ≠ ifend := by rw [← hels, ← hifend]; simp
  -- labels
  have hnot_els : els ∉ labels (pre ++ cc ++ ct ++ [GLine.jmp ifend]) := by
    rw [← hels]
    simp only [labels_append, List.mem_append, not_or, labels_jmp, labels_nil, List.not_mem_nil, not_false_eq_true, and_true]
    refine ⟨⟨?_, ?_⟩, ?_⟩
    · exact not_mem_of_new hold (by simp [LKind.ctr, GState.ctr, Lbl.idx])
    · exact not_mem_of_fresh hfc (by simp [LKind.ctr, GState.ctr, Lbl.idx])
    · exact not_mem_of_fresh hft (by simp [LKind.ctr, GState.ctr, Lbl.idx]; omega)
  have hnot_ifend : ifend ∉ labels (pre ++ cc ++ ct ++ [GLine.jmp ifend, .lab els] ++ ce) := by
    simp only [labels_append, List.mem_append, not_or, labels_jmp, labels_lab, labels_nil, List.mem_singleton]
    refine ⟨⟨⟨⟨?_, ?_⟩, ?_⟩, fun e => hneq e.symm⟩, ?_⟩
    · rw [← hifend]; exact not_mem_of_new hold (by simp [LKind.ctr, GState.ctr, Lbl.idx])
    · rw [← hifend]; exact not_mem_of_fresh hfc (by simp [LKind.ctr, GState.ctr, Lbl.idx])
    · rw [← hifend]; exact not_mem_of_fresh hft (by simp [LKind.ctr, GState.ctr, Lbl.idx]; omega)
    · rw [← hifend]; exact not_mem_of_fresh hfe (by simp [LKind.ctr, GState.ctr, Lbl.idx]; omega)
  -- the whole code in the shapes needed below
  have w1 : pre ++ (cc ++ ct ++ [GLine.jmp ifend, .lab els] ++ ce ++ [.lab ifend]) ++ post
      = (pre ++ cc ++ ct ++ [GLine.jmp ifend]) ++ GLine.lab els :: (ce ++ [.lab ifend] ++ post) := by simp
  have w2 : pre ++ (cc ++ ct ++ [GLine.jmp ifend, .lab els] ++ ce ++ [.lab ifend]) ++ post
      = (pre ++ cc ++ ct ++ [GLine.jmp ifend, .lab els] ++ ce) ++ GLine.lab ifend :: post := by simp
  have w3 : pre ++ (cc ++ ct ++ [GLine.jmp ifend, .lab els] ++ ce ++ [.lab ifend]) ++ post
      = pre ++ cc ++ (ct ++ [GLine.jmp ifend, .lab els] ++ ce ++ [.lab ifend] ++ post) := by simp
  have w4 : pre ++ (cc ++ ct ++ [GLine.jmp ifend, .lab els] ++ ce ++ [.lab ifend]) ++ post
      = (pre ++ cc) ++ ct ++ ([GLine.jmp ifend, .lab els] ++ ce ++ [.lab ifend] ++ post) := by simp
  have w5 : pre ++ (cc ++ ct ++ [GLine.jmp ifend, .lab els] ++ ce ++ [.lab ifend]) ++ post
      = (pre ++ cc ++ ct) ++ GLine.jmp ifend :: ([GLine.lab els] ++ ce ++ [.lab ifend] ++ post) := by simp
  have w6 : pre ++ (cc ++ ct ++ [GLine.jmp ifend, .lab els] ++ ce ++ [.lab ifend]) ++ post
      = (pre ++ cc ++ ct ++ [GLine.jmp ifend, .lab els]) ++ ce ++ ([GLine.lab ifend] ++ post) := by simp
  generalize hwhole : pre ++ (cc ++ ct ++ [GLine.jmp ifend, .lab els] ++ ce ++ [.lab ifend]) ++ post = whole at *
  have hfind_els : findLbl whole els = some (pre.length + cc.length + ct.length + 1) := by
    rw [w1, findLbl_at _ _ _ hnot_els]; congr 1; len_arith
  have hfind_ifend : findLbl whole ifend = some (pre.length + cc.length + ct.length + 2 + ce.length) := by
    rw [w2, findLbl_at _ _ _ hnot_ifend]; congr 1; len_arith
  have hend : pre.length + (cc ++ ct ++ [GLine.jmp ifend, GLine.lab els] ++ ce ++ [GLine.lab ifend]).length
      = pre.length + cc.length + ct.length + 2 + ce.length + 1 := by len_arith
  rw [hend]
  -- the final label line
  have hlab : ∀ s2 : Cpu, Steps L whole (pre.length + cc.length + ct.length + 2 + ce.length) s2
      (pre.length + cc.length + ct.length + 2 + ce.length + 1) s2 := by
    intro s2
    have := Steps.single (step_lab L (pre ++ cc ++ ct ++ [GLine.jmp ifend, .lab els] ++ ce) post ifend s2)
    rw [← w2] at this
    exact this.cast (by len_arith) (by len_arith)
  -- the condition
  have hc := genCond_correct L c { g with cIf := g.cIf + 1 } true els hokc
  rw [hels] at hcc
  rw [hcc] at hc
  have hc' := hc pre (ct ++ [GLine.jmp ifend, .lab els] ++ ce ++ [.lab ifend] ++ post) s
    (pre.length + cc.length + ct.length + 1) hold0 hinv (by rw [← w3]; exact hfind_els)
  obtain ⟨s1, hs1, hm1, hsp1, hf1⟩ := hc'
  dsimp only at hs1 hf1
  rw [← w3, hm] at hs1
  rw [hm] at hf1
  by_cases hev : evalCond L m c = true
  · simp only [hev, if_true] at h
    have hb : (evalCond L m c != true) = false := by simp [hev]
    simp only [hb, Bool.false_eq_true, if_false, Bool.false_and] at hs1 hf1
    have rt := ih t (condEff L m c) out h hfrt lp g1 (pre ++ cc) ([GLine.jmp ifend, .lab els] ++ ce ++ [.lab ifend] ++ post) s1 tc tb hsc.1 hold1
      (by rw [hm1, hm]) hf1 (by rw [hct]; dsimp only; rw [← w4]; exact hlp.sub (by simp; intro e; exact Or.inl e))
    rw [hct] at rt
    dsimp only at rt
    rw [← w4] at rt
    have rt' : ResultO L whole (pre.length + cc.length) s1 (pre.length + cc.length + ct.length) tc tb out g2.flags := by
      have e1 : (pre ++ cc).length = pre.length + cc.length := by len_arith
      rw [e1] at rt; exact rt
    have hj : ∀ s2 : Cpu, Steps L whole (pre.length + cc.length + ct.length) s2 (pre.length + cc.length + ct.length + 2 + ce.length + 1) s2 := by
      intro s2
      have := Steps.single (step_jmp L (pre ++ cc ++ ct) ([GLine.lab els] ++ ce ++ [.lab ifend] ++ post) ifend s2
        (pre.length + cc.length + ct.length + 2 + ce.length) (by rw [← w5]; exact hfind_ifend))
      rw [← w5] at this
      exact (this.cast (by len_arith) rfl).trans (hlab s2)
    exact ResultO.wrap hs1 hsp1 rt' hj rfl
  · have hev' : evalCond L m c = false := by simpa using hev
    simp only [hev', Bool.false_eq_true, if_false] at h
    have hb : (evalCond L m c != true) = true := by simp [hev']
    simp only [hb, if_true, Bool.true_and] at hs1 hf1
    have hf1' : FlagsInv L (if c.singleExit = true then g1.flags else none) s1 := by
      cases hse : c.singleExit <;> simp [hse] at hf1 ⊢ <;> exact hf1
    -- the else label
    have hl : Steps L whole (pre.length + cc.length + ct.length + 1) s1 (pre.length + cc.length + ct.length + 2) s1 := by
      have := Steps.single (step_lab L (pre ++ cc ++ ct ++ [GLine.jmp ifend]) (ce ++ [.lab ifend] ++ post) els s1)
      rw [← w1] at this
      exact this.cast (by len_arith) (by len_arith)
    have hold2 : Old { g2 with flags := if c.singleExit then g1.flags else none } (pre ++ cc ++ ct ++ [GLine.jmp ifend, .lab els]) := by
      rw [old_flags]
      refine ((hold1.mono hft.1).append (Old.of_fresh hft)).append ?_
      intro l hl
      simp at hl
      subst hl
      rw [← hels]
      simp [LKind.ctr, GState.ctr, Lbl.idx]; omega
    have re := ih e (condEff L m c) out h hfre lp { g2 with flags := if c.singleExit then g1.flags else none } (pre ++ cc ++ ct ++ [GLine.jmp ifend, .lab els])
      ([GLine.lab ifend] ++ post) s1 tc tb hsc.2 hold2 (by rw [hm1, hm]) hf1'
      (by rw [hce]; dsimp only; rw [← w6]; exact hlp.sub (by simp; intro e; exact Or.inr e))
    rw [hce] at re
    dsimp only at re
    rw [← w6] at re
    have re' : ResultO L whole (pre.length + cc.length + ct.length + 2) s1 (pre.length + cc.length + ct.length + 2 + ce.length) tc tb out g3.flags := by
      have e1 : (pre ++ cc ++ ct ++ [GLine.jmp ifend, GLine.lab els]).length = pre.length + cc.length + ct.length + 2 := by len_arith
      rw [e1] at re; exact re
    exact ResultO.wrap (hs1.trans hl) hsp1 re' hlab rfl




/-- steps, then a run with any outcome -/
theorem ResultO.after {L : Layout} {code : List GLine} {p1 p2 p3 tc tb : Nat} {s1 s2 : Cpu} {out : Out} {f3 : Option FRef}
    (hpre : Steps L code p1 s1 p2 s2) (hsp : s2.sp = s1.sp) (hsub : ResultO L code p2 s2 p3 tc tb out f3) :
    ResultO L code p1 s1 p3 tc tb out f3 := by
  obtain ⟨e, mo⟩ := out
  cases e
  · obtain ⟨s3, hs', hm', hf', hsp'⟩ := hsub
    exact ⟨s3, hpre.trans hs', hm', hf', by rw [hsp', hsp]⟩
  · obtain ⟨s3, hs', hm', hsp'⟩ := hsub
    exact ⟨s3, hpre.trans hs', hm', by rw [hsp', hsp]⟩
  · obtain ⟨s3, hs', hm', hsp'⟩ := hsub
    exact ⟨s3, hpre.trans hs', hm', by rw [hsp', hsp]⟩

theorem gen_while_flags (lp : LoopCtx) (g : GState) (x : Option FRef) (c : Cond) (b : SStmt) :
    gen lp { g with flags := x } (.while c b) = gen lp g (.while c b) := rfl

theorem gen_doWhile_flags (lp : LoopCtx) (g : GState) (x : Option FRef) (c : Cond) (b : SStmt) :
    gen lp { g with flags := x } (.doWhile b c) = gen lp g (.doWhile b c) := rfl

theorem case_while (L : Layout) (f : Nat) (ih : Correct L f) (c : Cond) (b : SStmt) (m : SrcSt) (out : Out)
    (h : sem L (f + 1) m (.while c b) = some out) (hfr : SInFragment (.while c b) = true)
    (lp : LoopCtx) (g : GState) (pre post : List GLine) (s : Cpu) (tc tb : Nat)
    (hsc : Scoped lp.isSome (.while c b) = true) (hold : Old g pre) (hm : srcOf s = m) (hinv : FlagsInv L g.flags s)
    (hlp : LoopOK lp (pre ++ (gen lp g (.while c b)).1 ++ post) tc tb (contHere (.while c b))) :
    ResultO L (pre ++ (gen lp g (.while c b)).1 ++ post) pre.length s (pre.length + (gen lp g (.while c b)).1.length) tc tb out
      (gen lp g (.while c b)).2.flags := by
  have hfr0 := hfr
  have hsc0 := hsc
  simp only [sem] at h
  simp only [SInFragment, Bool.and_eq_true] at hfr
  obtain ⟨hokc, hfrb⟩ := hfr
  simp only [Scoped] at hsc
  -- the recursive use is about the very same code
  have hrec := fun (m1 : SrcSt) (o : Out) (hs : sem L f m1 (.while c b) = some o) (s2 : Cpu) (hm2 : srcOf s2 = m1) =>
    ih (.while c b) m1 o hs hfr0 lp { g with flags := none } pre post s2 tc tb hsc0 ((old_flags g none pre).mpr hold) hm2 trivial
  simp only [gen_while_flags] at hrec
  revert hrec hlp
  simp only [gen]
  rcases hcc : genCond { g with cWhile := g.cWhile + 1, flags := none } c true ⟨.whileend, g.cWhile + 1⟩ with ⟨cc, g1⟩
  rcases hcb : gen (some (⟨.while_, g.cWhile + 1⟩, ⟨.whileend, g.cWhile + 1⟩)) g1 b with ⟨cb, g2⟩
  dsimp only
  generalize hwl : (⟨.while_, g.cWhile + 1⟩ : Lbl) = wl
  generalize hwe : (⟨.whileend, g.cWhile + 1⟩ : Lbl) = we
  intro hlp hrec
  have hrec' := fun (m1 : SrcSt) (o : Out) (hs : sem L f m1 (.while c b) = some o) (s2 : Cpu) (hm2 : srcOf s2 = m1) =>
    hrec m1 o hs s2 hm2 hlp
  have hfc : Fresh { g with cWhile := g.cWhile + 1, flags := none } (cc, g1) := hcc ▸ genCond_fresh ..
  have hfb : Fresh g1 (cb, g2) := hcb ▸ gen_fresh b _ g1
  have hk1 := fresh_ctr_le hfc .cWhile
  simp [GState.ctr] at hk1
  have hneq : we ≠ wl := by rw [← hwe, ← hwl]; simp
  have hold0 : Old { g with cWhile := g.cWhile + 1, flags := none } (pre ++ [GLine.lab wl]) := by
    refine (hold.mono (mono_cWhile g none)).append ?_
    intro l hl
    simp at hl
    subst hl
    rw [← hwl]
    simp [LKind.ctr, GState.ctr, Lbl.idx]
  have hold1 : Old g1 (pre ++ [GLine.lab wl] ++ cc) := (hold0.mono hfc.1).append (Old.of_fresh hfc)
  have hnot_wl : wl ∉ labels pre := by
    rw [← hwl]; exact not_mem_of_new hold (by simp [LKind.ctr, GState.ctr, Lbl.idx])
  have hnot_we : we ∉ labels (pre ++ [GLine.lab wl] ++ cc ++ cb ++ [GLine.jmp wl]) := by
    simp only [labels_append, List.mem_append, not_or, labels_jmp, labels_lab, labels_nil, List.mem_singleton,
      List.not_mem_nil, not_false_eq_true, and_true]
    refine ⟨⟨⟨?_, hneq⟩, ?_⟩, ?_⟩
    · rw [← hwe]; exact not_mem_of_new hold (by simp [LKind.ctr, GState.ctr, Lbl.idx])
    · rw [← hwe]; exact not_mem_of_fresh hfc (by simp [LKind.ctr, GState.ctr, Lbl.idx])
    · rw [← hwe]; exact not_mem_of_fresh hfb (by simp [LKind.ctr, GState.ctr, Lbl.idx]; omega)
  have w0 : pre ++ ([GLine.lab wl] ++ cc ++ cb ++ [GLine.jmp wl, .lab we]) ++ post
      = pre ++ GLine.lab wl :: (cc ++ cb ++ [GLine.jmp wl, .lab we] ++ post) := by simp
  have w1 : pre ++ ([GLine.lab wl] ++ cc ++ cb ++ [GLine.jmp wl, .lab we]) ++ post
      = (pre ++ [GLine.lab wl] ++ cc ++ cb ++ [GLine.jmp wl]) ++ GLine.lab we :: post := by simp
  have w2 : pre ++ ([GLine.lab wl] ++ cc ++ cb ++ [GLine.jmp wl, .lab we]) ++ post
      = (pre ++ [GLine.lab wl]) ++ cc ++ (cb ++ [GLine.jmp wl, .lab we] ++ post) := by simp
  have w3 : pre ++ ([GLine.lab wl] ++ cc ++ cb ++ [GLine.jmp wl, .lab we]) ++ post
      = (pre ++ [GLine.lab wl] ++ cc) ++ cb ++ ([GLine.jmp wl, .lab we] ++ post) := by simp
  have w4 : pre ++ ([GLine.lab wl] ++ cc ++ cb ++ [GLine.jmp wl, .lab we]) ++ post
      = (pre ++ [GLine.lab wl] ++ cc ++ cb) ++ GLine.jmp wl :: ([GLine.lab we] ++ post) := by simp
  have hend : pre.length + ([GLine.lab wl] ++ cc ++ cb ++ [GLine.jmp wl, GLine.lab we]).length
      = pre.length + 1 + cc.length + cb.length + 2 := by len_arith
  rw [hend] at hrec' ⊢
  generalize hwhole : pre ++ ([GLine.lab wl] ++ cc ++ cb ++ [GLine.jmp wl, .lab we]) ++ post = whole at *
  have hfind_wl : findLbl whole wl = some pre.length := by
    rw [w0, findLbl_at _ _ _ hnot_wl]
  have hfind_we : findLbl whole we = some (pre.length + 1 + cc.length + cb.length + 1) := by
    rw [w1, findLbl_at _ _ _ hnot_we]; congr 1; len_arith
  -- first line: the loop label
  have h0 : Steps L whole pre.length s (pre.length + 1) s := by
    have := Steps.single (step_lab L pre (cc ++ cb ++ [GLine.jmp wl, .lab we] ++ post) wl s)
    rw [← w0] at this; exact this
  -- the condition
  have hc := genCond_correct L c { g with cWhile := g.cWhile + 1, flags := none } true we hokc
  rw [hwe] at hcc
  rw [hcc] at hc
  have hc' := hc (pre ++ [GLine.lab wl]) (cb ++ [GLine.jmp wl, .lab we] ++ post) s
    (pre.length + 1 + cc.length + cb.length + 1) hold0 trivial (by rw [← w2]; exact hfind_we)
  obtain ⟨s1, hs1, hm1, hsp1, hf1⟩ := hc'
  dsimp only at hs1 hf1
  rw [← w2, hm] at hs1
  rw [hm] at hf1
  by_cases hev : evalCond L m c = true
  · simp only [hev, if_true] at h
    have hb : (evalCond L m c != true) = false := by simp [hev]
    simp only [hb, Bool.false_eq_true, if_false, Bool.false_and] at hs1 hf1
    have hlpb : LoopOK (some (wl, we)) whole pre.length (pre.length + 1 + cc.length + cb.length + 1) (contHere b) :=
      ⟨fun _ => hfind_wl, hfind_we⟩
    have hlab_end : ∀ s2 : Cpu, Steps L whole (pre.length + 1 + cc.length + cb.length + 1) s2 (pre.length + 1 + cc.length + cb.length + 2) s2 := by
      intro s2
      have := Steps.single (step_lab L (pre ++ [GLine.lab wl] ++ cc ++ cb ++ [GLine.jmp wl]) post we s2)
      rw [← w1] at this
      exact this.cast (by len_arith) (by len_arith)
    have hs1' : Steps L whole (pre.length + 1) s (pre.length + 1 + cc.length) s1 := hs1.cast (by len_arith) (by len_arith)
    cases hb1 : sem L f (condEff L m c) b with
    | none => simp [hb1] at h
    | some ob =>
      have rb := ih b (condEff L m c) ob hb1 hfrb (some (wl, we)) g1 (pre ++ [GLine.lab wl] ++ cc) ([GLine.jmp wl, .lab we] ++ post) s1
        pre.length (pre.length + 1 + cc.length + cb.length + 1) hsc hold1 (by rw [hm1, hm]) hf1
        (by rw [hwl, hwe] at hcb; rw [hcb]; dsimp only; rw [← w3]; exact hlpb)
      rw [hwl, hwe] at hcb
      rw [hcb] at rb
      dsimp only at rb
      rw [← w3] at rb
      obtain ⟨eb, m1⟩ := ob
      cases eb with
      | norm =>
        simp only [hb1] at h
        obtain ⟨s2, hs2, hm2, hf2, hsp2⟩ := rb
        have hj : Steps L whole (pre.length + 1 + cc.length + cb.length) s2 pre.length s2 := by
          have := Steps.single (step_jmp L (pre ++ [GLine.lab wl] ++ cc ++ cb) ([GLine.lab we] ++ post) wl s2 pre.length
            (by rw [← w4]; exact hfind_wl))
          rw [← w4] at this
          exact this.cast (by len_arith) rfl
        have hs2' : Steps L whole (pre.length + 1 + cc.length) s1 (pre.length + 1 + cc.length + cb.length) s2 :=
          hs2.cast (by len_arith) (by len_arith)
        exact ResultO.after ((((h0.trans hs1').trans hs2').trans hj)) (by rw [hsp2, hsp1]) (hrec' m1 out h s2 hm2)
      | cont =>
        simp only [hb1] at h
        obtain ⟨s2, hs2, hm2, hsp2⟩ := rb
        have hs2' : Steps L whole (pre.length + 1 + cc.length) s1 pre.length s2 := hs2.cast (by len_arith) rfl
        exact ResultO.after ((h0.trans hs1').trans hs2') (by rw [hsp2, hsp1]) (hrec' m1 out h s2 hm2)
      | brk =>
        simp only [hb1, Option.some.injEq] at h
        subst h
        obtain ⟨s2, hs2, hm2, hsp2⟩ := rb
        have hs2' : Steps L whole (pre.length + 1 + cc.length) s1 (pre.length + 1 + cc.length + cb.length + 1) s2 :=
          hs2.cast (by len_arith) rfl
        exact ⟨s2, ((h0.trans hs1').trans hs2').trans (hlab_end s2), hm2, trivial, by rw [hsp2, hsp1]⟩
  · have hev' : evalCond L m c = false := by simpa using hev
    simp only [hev', Bool.false_eq_true, if_false, Option.some.injEq] at h
    subst h
    have hb : (evalCond L m c != true) = true := by simp [hev']
    simp only [hb, if_true] at hs1
    have hl : Steps L whole (pre.length + 1 + cc.length + cb.length + 1) s1 (pre.length + 1 + cc.length + cb.length + 2) s1 := by
      have := Steps.single (step_lab L (pre ++ [GLine.lab wl] ++ cc ++ cb ++ [GLine.jmp wl]) post we s1)
      rw [← w1] at this
      exact this.cast (by len_arith) (by len_arith)
    have hs1' : Steps L whole (pre.length + 1) s (pre.length + 1 + cc.length + cb.length + 1) s1 := hs1.cast (by len_arith) rfl
    exact ⟨s1, (h0.trans hs1').trans hl, by rw [hm1, hm], trivial, hsp1⟩




/-! ### which outcomes are possible -/

/-- a loop ends normally; a statement that ends by `continue` contains one that belongs to it -/
theorem outcome_facts (L : Layout) : ∀ (f : Nat),
    (∀ (m : SrcSt) (st : SStmt) (m' : SrcSt), sem L f m st = some (.cont, m') → contHere st = true) ∧
    (∀ (c : Cond) (u : RStmt) (b : SStmt) (m : SrcSt) (o : Out), semFor L c u b f m = some o → o.1 = .norm) := by
  intro f
  induction f with
  | zero => exact ⟨fun m st m' h => by simp [sem] at h, fun c u b m o h => by simp [semFor] at h⟩
  | succ f ih =>
    obtain ⟨ih1, ih2⟩ := ih
    refine ⟨?_, ?_⟩
    · intro m st m' h
      cases st with
      | flat s => simp [sem] at h
      | skip => simp [sem] at h
      | forget => simp [sem] at h
      | brk => simp [sem] at h
      | cont => rfl
      | ifCont c => rfl
      | ifBrk c =>
        simp only [sem, Option.some.injEq, Prod.mk.injEq] at h
        split at h <;> simp at h
      | seq a b =>
        simp only [sem] at h
        cases ha : sem L f m a with
        | none => simp [ha] at h
        | some oa =>
          obtain ⟨ea, m1⟩ := oa
          cases ea with
          | norm => simp only [ha] at h; simp [contHere, ih1 m1 b m' h]
          | brk => simp [ha] at h
          | cont => simp only [ha, Option.some.injEq, Prod.mk.injEq, true_and] at h; subst h; simp [contHere, ih1 m a m1 ha]
      | ifThen c t =>
        simp only [sem] at h
        split at h
        · simpa [contHere] using ih1 _ t m' h
        · simp at h
      | ifElse c t e =>
        simp only [sem] at h
        split at h
        · simp [contHere, ih1 _ t m' h]
        · simp [contHere, ih1 _ e m' h]
      | «while» c b =>
        simp only [sem] at h
        split at h
        · cases hb : sem L f (condEff L m c) b with
          | none => simp [hb] at h
          | some ob =>
            obtain ⟨eb, m1⟩ := ob
            cases eb with
            | brk => simp [hb] at h
            | norm => simp only [hb] at h; exact ih1 m1 _ m' h
            | cont => simp only [hb] at h; exact ih1 m1 _ m' h
        · simp at h
      | doWhile b c =>
        simp only [sem] at h
        cases hb : sem L f m b with
        | none => simp [hb] at h
        | some ob =>
          obtain ⟨eb, m1⟩ := ob
          cases eb with
          | brk => simp [hb] at h
          | norm =>
            simp only [hb] at h
            split at h
            · exact ih1 _ _ m' h
            · simp at h
          | cont =>
            simp only [hb] at h
            split at h
            · exact ih1 _ _ m' h
            · simp at h
      | «for» i c u b =>
        simp only [sem] at h
        have := ih2 c u b _ _ h
        simp at this
    · intro c u b m o h
      simp only [semFor] at h
      split at h
      · cases hb : sem L f (condEff L m c) b with
        | none => simp [hb] at h
        | some ob =>
          obtain ⟨eb, m1⟩ := ob
          cases eb with
          | brk => simp only [hb, Option.some.injEq] at h; subst h; rfl
          | norm => simp only [hb] at h; exact ih2 c u b _ o h
          | cont => simp only [hb] at h; exact ih2 c u b _ o h
      · simp only [Option.some.injEq] at h; subst h; rfl

theorem sem_cont_contHere (L : Layout) (f : Nat) (m : SrcSt) (st : SStmt) (m' : SrcSt)
    (h : sem L f m st = some (.cont, m')) : contHere st = true := (outcome_facts L f).1 m st m' h


theorem case_doWhile (L : Layout) (f : Nat) (ih : Correct L f) (c : Cond) (b : SStmt) (m : SrcSt) (out : Out)
    (h : sem L (f + 1) m (.doWhile b c) = some out) (hfr : SInFragment (.doWhile b c) = true)
    (lp : LoopCtx) (g : GState) (pre post : List GLine) (s : Cpu) (tc tb : Nat)
    (hsc : Scoped lp.isSome (.doWhile b c) = true) (hold : Old g pre) (hm : srcOf s = m) (hinv : FlagsInv L g.flags s)
    (hlp : LoopOK lp (pre ++ (gen lp g (.doWhile b c)).1 ++ post) tc tb (contHere (.doWhile b c))) :
    ResultO L (pre ++ (gen lp g (.doWhile b c)).1 ++ post) pre.length s (pre.length + (gen lp g (.doWhile b c)).1.length) tc tb out
      (gen lp g (.doWhile b c)).2.flags := by
  have hfr0 := hfr
  have hsc0 := hsc
  simp only [sem] at h
  simp only [SInFragment, Bool.and_eq_true] at hfr
  obtain ⟨hokc, hfrb⟩ := hfr
  simp only [Scoped] at hsc
  have hrec := fun (m1 : SrcSt) (o : Out) (hs : sem L f m1 (.doWhile b c) = some o) (s2 : Cpu) (hm2 : srcOf s2 = m1) =>
    ih (.doWhile b c) m1 o hs hfr0 lp { g with flags := none } pre post s2 tc tb hsc0 ((old_flags g none pre).mpr hold) hm2 trivial
  simp only [gen_doWhile_flags] at hrec
  revert hrec hlp
  simp only [gen]
  rcases hcb : gen (some (⟨.dowhilecondition, g.cWhile + 1⟩, ⟨.dowhileend, g.cWhile + 1⟩)) { g with cWhile := g.cWhile + 1, flags := none } b with ⟨cb, g1⟩
  rcases hcc : genCond (if contHere b then { g1 with flags := none } else g1) c false ⟨.dowhile, g.cWhile + 1⟩ with ⟨cc, g2⟩
  dsimp only
  generalize hdl : (⟨.dowhile, g.cWhile + 1⟩ : Lbl) = dl
  generalize hdc : (⟨.dowhilecondition, g.cWhile + 1⟩ : Lbl) = dc
  generalize hde : (⟨.dowhileend, g.cWhile + 1⟩ : Lbl) = de
  generalize hmid : (if contHere b = true then [GLine.lab dc] else []) = mid
  intro hlp hrec
  have hrec' := fun (m1 : SrcSt) (o : Out) (hs : sem L f m1 (.doWhile b c) = some o) (s2 : Cpu) (hm2 : srcOf s2 = m1) =>
    hrec m1 o hs s2 hm2 hlp
  have hfb : Fresh { g with cWhile := g.cWhile + 1, flags := none } (cb, g1) := hcb ▸ gen_fresh b _ _
  have hk1 := fresh_ctr_le hfb .cWhile
  simp [GState.ctr] at hk1
  have hold0 : Old { g with cWhile := g.cWhile + 1, flags := none } (pre ++ [GLine.lab dl]) := by
    refine (hold.mono (mono_cWhile g none)).append ?_
    intro l hl
    simp at hl
    subst hl
    rw [← hdl]
    simp [LKind.ctr, GState.ctr, Lbl.idx]
  have hold1 : Old g1 (pre ++ [GLine.lab dl] ++ cb) := (hold0.mono hfb.1).append (Old.of_fresh hfb)
  have hmidlab : ∀ l ∈ labels mid, l = dc := by
    intro l hl
    rw [← hmid] at hl
    split at hl <;> simp at hl
    exact hl
  have hold2 : Old (if contHere b then { g1 with flags := none } else g1) (pre ++ [GLine.lab dl] ++ cb ++ mid) := by
    have : Old g1 (pre ++ [GLine.lab dl] ++ cb ++ mid) := by
      refine hold1.append ?_
      intro l hl
      rw [hmidlab l hl, ← hdc]
      simp [LKind.ctr, GState.ctr, Lbl.idx]; omega
    split
    · rw [old_flags]; exact this
    · exact this
  have hnot_dl : dl ∉ labels pre := by
    rw [← hdl]; exact not_mem_of_new hold (by simp [LKind.ctr, GState.ctr, Lbl.idx])
  have hnot_dc : dc ∉ labels (pre ++ [GLine.lab dl] ++ cb) := by
    simp only [labels_append, List.mem_append, not_or, labels_lab, labels_nil, List.mem_singleton]
    refine ⟨⟨?_, ?_⟩, ?_⟩
    · rw [← hdc]; exact not_mem_of_new hold (by simp [LKind.ctr, GState.ctr, Lbl.idx])
    · rw [← hdc, ← hdl]; simp
    · rw [← hdc]; exact not_mem_of_fresh hfb (by simp [LKind.ctr, GState.ctr, Lbl.idx])
  have hfc : Fresh g1 (cc, g2) := by
    have : Fresh (if contHere b then { g1 with flags := none } else g1) (cc, g2) := hcc ▸ genCond_fresh ..
    by_cases hcn : contHere b = true
    · simp only [hcn, if_true] at this; rwa [fresh_flags_left] at this
    · simpa [hcn] using this
  have hnot_de : de ∉ labels (pre ++ [GLine.lab dl] ++ cb ++ mid ++ cc) := by
    simp only [labels_append, List.mem_append, not_or, labels_lab, labels_nil, List.mem_singleton]
    refine ⟨⟨⟨⟨?_, ?_⟩, ?_⟩, ?_⟩, ?_⟩
    · rw [← hde]; exact not_mem_of_new hold (by simp [LKind.ctr, GState.ctr, Lbl.idx])
    · rw [← hde, ← hdl]; simp
    · rw [← hde]; exact not_mem_of_fresh hfb (by simp [LKind.ctr, GState.ctr, Lbl.idx])
    · intro hin; have := hmidlab de hin; rw [← hde, ← hdc] at this; simp at this
    · rw [← hde]; exact not_mem_of_fresh hfc (by simp [LKind.ctr, GState.ctr, Lbl.idx]; omega)
  have w0 : pre ++ ([GLine.lab dl] ++ cb ++ mid ++ cc ++ [GLine.lab de]) ++ post
      = pre ++ GLine.lab dl :: (cb ++ mid ++ cc ++ [GLine.lab de] ++ post) := by simp
  have w1 : pre ++ ([GLine.lab dl] ++ cb ++ mid ++ cc ++ [GLine.lab de]) ++ post
      = (pre ++ [GLine.lab dl] ++ cb ++ mid ++ cc) ++ GLine.lab de :: post := by simp
  have w2 : pre ++ ([GLine.lab dl] ++ cb ++ mid ++ cc ++ [GLine.lab de]) ++ post
      = (pre ++ [GLine.lab dl]) ++ cb ++ (mid ++ cc ++ [GLine.lab de] ++ post) := by simp
  have w3 : pre ++ ([GLine.lab dl] ++ cb ++ mid ++ cc ++ [GLine.lab de]) ++ post
      = (pre ++ [GLine.lab dl] ++ cb ++ mid) ++ cc ++ ([GLine.lab de] ++ post) := by simp
  have hend : pre.length + ([GLine.lab dl] ++ cb ++ mid ++ cc ++ [GLine.lab de]).length
      = pre.length + 1 + cb.length + mid.length + cc.length + 1 := by len_arith
  rw [hend] at hrec' ⊢
  generalize hwhole : pre ++ ([GLine.lab dl] ++ cb ++ mid ++ cc ++ [GLine.lab de]) ++ post = whole at *
  have hfind_dl : findLbl whole dl = some pre.length := by
    rw [w0, findLbl_at _ _ _ hnot_dl]
  have hfind_de : findLbl whole de = some (pre.length + 1 + cb.length + mid.length + cc.length) := by
    rw [w1, findLbl_at _ _ _ hnot_de]; congr 1; len_arith
  have hfind_dc : contHere b = true → findLbl whole dc = some (pre.length + 1 + cb.length) := by
    intro hcn
    have hm' : mid = [GLine.lab dc] := by rw [← hmid]; simp [hcn]
    have w5 : whole = (pre ++ [GLine.lab dl] ++ cb) ++ GLine.lab dc :: (cc ++ [GLine.lab de] ++ post) := by
      rw [← hwhole, hm']; simp
    rw [w5, findLbl_at _ _ _ hnot_dc]; congr 1; len_arith
  have h0 : Steps L whole pre.length s (pre.length + 1) s := by
    have := Steps.single (step_lab L pre (cb ++ mid ++ cc ++ [GLine.lab de] ++ post) dl s)
    rw [← w0] at this; exact this
  -- over the condition label (when there is one)
  have hmidsteps : ∀ s2 : Cpu, Steps L whole (pre.length + 1 + cb.length) s2 (pre.length + 1 + cb.length + mid.length) s2 := by
    intro s2
    by_cases hcn : contHere b = true
    · have hm' : mid = [GLine.lab dc] := by rw [← hmid]; simp [hcn]
      have w5 : whole = (pre ++ [GLine.lab dl] ++ cb) ++ GLine.lab dc :: (cc ++ [GLine.lab de] ++ post) := by
        rw [← hwhole, hm']; simp
      have := Steps.single (step_lab L (pre ++ [GLine.lab dl] ++ cb) (cc ++ [GLine.lab de] ++ post) dc s2)
      rw [← w5] at this
      rw [hm']
      exact this.cast (by len_arith) (by len_arith)
    · have hm' : mid = [] := by rw [← hmid]; simp [hcn]
      rw [hm']; simpa using Steps.refl _ _
  have hlab_end : ∀ s2 : Cpu, Steps L whole (pre.length + 1 + cb.length + mid.length + cc.length) s2
      (pre.length + 1 + cb.length + mid.length + cc.length + 1) s2 := by
    intro s2
    have := Steps.single (step_lab L (pre ++ [GLine.lab dl] ++ cb ++ mid ++ cc) post de s2)
    rw [← w1] at this
    exact this.cast (by len_arith) (by len_arith)
  have hlpb : LoopOK (some (dc, de)) whole (pre.length + 1 + cb.length) (pre.length + 1 + cb.length + mid.length + cc.length) (contHere b) :=
    ⟨hfind_dc, hfind_de⟩
  -- from the start of the condition (at `mid`), in a state whose memory is m1
  have hcond : ∀ (m1 : SrcSt) (s1 : Cpu), srcOf s1 = m1 → s1.sp = s.sp →
      FlagsInv L (if contHere b then none else g1.flags) s1 →
      (if evalCond L m1 c then sem L f (condEff L m1 c) (.doWhile b c) else some (.norm, condEff L m1 c)) = some out →
      ResultO L whole (pre.length + 1 + cb.length) s1 (pre.length + 1 + cb.length + mid.length + cc.length + 1) tc tb out none := by
    intro m1 s1 hm1 hsp1 hf1 hres
    have hc := genCond_correct L c (if contHere b then { g1 with flags := none } else g1) false dl hokc
    rw [hdl] at hcc
    rw [hcc] at hc
    have hc' := hc (pre ++ [GLine.lab dl] ++ cb ++ mid) ([GLine.lab de] ++ post) s1 pre.length hold2
      (by split <;> simp_all) (by rw [← w3]; exact hfind_dl)
    obtain ⟨s2, hs2, hm2, hsp2, hf2⟩ := hc'
    dsimp only at hs2 hf2
    rw [← w3, hm1] at hs2
    by_cases hev : evalCond L m1 c = true
    · simp only [hev, if_true] at hres
      have hb : (evalCond L m1 c != false) = true := by simp [hev]
      simp only [hb, if_true] at hs2
      have hs2' : Steps L whole (pre.length + 1 + cb.length + mid.length) s1 pre.length s2 := hs2.cast (by len_arith) rfl
      exact ResultO.after ((hmidsteps s1).trans hs2') hsp2 (by
        have := hrec' (condEff L m1 c) out hres s2 (by rw [hm2, hm1])
        obtain ⟨e, mo⟩ := out
        cases e
        · obtain ⟨s3, h3, hm3, hf3, hsp3⟩ := this; exact ⟨s3, h3, hm3, trivial, hsp3⟩
        · exact this
        · exact this)
    · have hev' : evalCond L m1 c = false := by simpa using hev
      simp only [hev', Bool.false_eq_true, if_false, Option.some.injEq] at hres
      subst hres
      have hb : (evalCond L m1 c != false) = false := by simp [hev']
      simp only [hb, Bool.false_eq_true, if_false] at hs2
      have hs2' : Steps L whole (pre.length + 1 + cb.length + mid.length) s1 (pre.length + 1 + cb.length + mid.length + cc.length) s2 :=
        hs2.cast (by len_arith) (by len_arith)
      exact ⟨s2, ((hmidsteps s1).trans hs2').trans (hlab_end s2), by rw [hm2, hm1], trivial, hsp2⟩
  cases hb1 : sem L f m b with
  | none => simp [hb1] at h
  | some ob =>
    have rb := ih b m ob hb1 hfrb (some (dc, de)) { g with cWhile := g.cWhile + 1, flags := none } (pre ++ [GLine.lab dl])
      (mid ++ cc ++ [GLine.lab de] ++ post) s (pre.length + 1 + cb.length) (pre.length + 1 + cb.length + mid.length + cc.length)
      hsc hold0 hm trivial (by rw [hdc, hde] at hcb; rw [hcb]; dsimp only; rw [← w2]; exact hlpb)
    rw [hdc, hde] at hcb
    rw [hcb] at rb
    dsimp only at rb
    rw [← w2] at rb
    obtain ⟨eb, m1⟩ := ob
    cases eb with
    | norm =>
      simp only [hb1] at h
      obtain ⟨s1, hs1, hm1, hf1, hsp1⟩ := rb
      have hs1' : Steps L whole (pre.length + 1) s (pre.length + 1 + cb.length) s1 := hs1.cast (by len_arith) (by len_arith)
      have := hcond m1 s1 hm1 hsp1 (by split <;> simp_all) h
      exact ResultO.after (h0.trans hs1') hsp1 this
    | cont =>
      simp only [hb1] at h
      have hcn := sem_cont_contHere L f m b m1 hb1
      obtain ⟨s1, hs1, hm1, hsp1⟩ := rb
      have hs1' : Steps L whole (pre.length + 1) s (pre.length + 1 + cb.length) s1 := hs1.cast (by len_arith) rfl
      have := hcond m1 s1 hm1 hsp1 (by simp [hcn]) h
      exact ResultO.after (h0.trans hs1') hsp1 this
    | brk =>
      simp only [hb1, Option.some.injEq] at h
      subst h
      obtain ⟨s1, hs1, hm1, hsp1⟩ := rb
      have hs1' : Steps L whole (pre.length + 1) s (pre.length + 1 + cb.length + mid.length + cc.length) s1 := hs1.cast (by len_arith) rfl
      exact ⟨s1, (h0.trans hs1').trans (hlab_end s1), hm1, trivial, hsp1⟩


theorem old_nolabels {g : GState} {p q : List GLine} (hp : Old g p) (hq : labels q = []) : Old g (p ++ q) := by
  intro l hl
  simp [hq] at hl
  exact hp l hl

theorem case_for (L : Layout) (f : Nat) (ihs : ∀ j, j ≤ f → Correct L j) (i u : RStmt) (c : Cond) (b : SStmt) (m : SrcSt) (out : Out)
    (h : sem L (f + 1) m (.for i c u b) = some out) (hfr : SInFragment (.for i c u b) = true)
    (lp : LoopCtx) (g : GState) (pre post : List GLine) (s : Cpu) (tc tb : Nat)
    (hsc : Scoped lp.isSome (.for i c u b) = true) (hold : Old g pre) (hm : srcOf s = m) (hinv : FlagsInv L g.flags s) :
    ResultO L (pre ++ (gen lp g (.for i c u b)).1 ++ post) pre.length s (pre.length + (gen lp g (.for i c u b)).1.length) tc tb out
      (gen lp g (.for i c u b)).2.flags := by
  simp only [sem] at h
  simp only [SInFragment, Bool.and_eq_true] at hfr
  obtain ⟨⟨⟨_, hokc⟩, _⟩, hfrb⟩ := hfr
  simp only [Scoped] at hsc
  have hnorm : out.1 = .norm := (outcome_facts L f).2 c u b _ out h
  obtain ⟨eo, m'⟩ := out
  simp only at hnorm
  subst hnorm
  show Result L _ _ _ _ m' _
  simp only [gen, genFlat]
  rcases hc1 : genCond { g with cFor := g.cFor + 1, flags := flagsAfter (zpL g.abs) g.flags i } c true ⟨.forend, g.cFor + 1⟩ with ⟨c1, g2⟩
  rcases hcb : gen (some (⟨.forupdate, g.cFor + 1⟩, ⟨.forend, g.cFor + 1⟩)) { g2 with flags := none } b with ⟨cb, g3⟩
  rcases hc2 : genCond { g3 with flags := flagsAfter (zpL g3.abs) none u } c false ⟨.for_, g.cFor + 1⟩ with ⟨c2, g5⟩
  dsimp only
  generalize hfl : (⟨.for_, g.cFor + 1⟩ : Lbl) = fl
  generalize hfu : (⟨.forupdate, g.cFor + 1⟩ : Lbl) = fu
  generalize hfe : (⟨.forend, g.cFor + 1⟩ : Lbl) = fe
  generalize hci : flatLines (zpL g.abs) i = ci
  generalize hcu : flatLines (zpL g3.abs) u = cu
  have hlci : labels ci = [] := by rw [← hci]; exact labels_flatLines _ i
  have hlcu : labels cu = [] := by rw [← hcu]; exact labels_flatLines _ u
  have hf1 : Fresh { g with cFor := g.cFor + 1, flags := flagsAfter (zpL g.abs) g.flags i } (c1, g2) := hc1 ▸ genCond_fresh ..
  have hfb : Fresh g2 (cb, g3) := by
    have := gen_fresh b (some (⟨.forupdate, g.cFor + 1⟩, ⟨.forend, g.cFor + 1⟩)) { g2 with flags := none }
    rw [hcb, fresh_flags_left] at this
    exact this
  have hf2 : Fresh g3 (c2, g5) := by
    have : Fresh { g3 with flags := flagsAfter (zpL g3.abs) none u } (c2, g5) := hc2 ▸ genCond_fresh ..
    rwa [fresh_flags_left] at this
  have hk1 := fresh_ctr_le hf1 .cFor
  have hk2 := fresh_ctr_le hfb .cFor
  simp [GState.ctr] at hk1 hk2
  have hm0 : Mono g { g with cFor := g.cFor + 1, flags := flagsAfter (zpL g.abs) g.flags i } := by
    intro k; cases k <;> simp [GState.ctr]
  have hold_a : Old { g with cFor := g.cFor + 1, flags := flagsAfter (zpL g.abs) g.flags i } (pre ++ ci) :=
    old_nolabels (hold.mono hm0) hlci
  have hold_b : Old { g2 with flags := none } (pre ++ ci ++ c1 ++ [GLine.lab fl]) := by
    rw [old_flags]
    refine ((hold_a.mono hf1.1).append (Old.of_fresh hf1)).append ?_
    intro l hl
    simp at hl
    subst hl
    rw [← hfl]; simp [LKind.ctr, GState.ctr, Lbl.idx]; omega
  have hold_c : Old { g3 with flags := flagsAfter (zpL g3.abs) none u } (pre ++ ci ++ c1 ++ [GLine.lab fl] ++ cb ++ [GLine.lab fu] ++ cu) := by
    rw [old_flags]
    refine old_nolabels ((((old_flags g2 none _).mp hold_b |>.mono hfb.1).append (Old.of_fresh hfb)).append ?_) hlcu
    intro l hl
    simp at hl
    subst hl
    rw [← hfu]; simp [LKind.ctr, GState.ctr, Lbl.idx]; omega
  have hne1 : fe ≠ fl := by rw [← hfe, ← hfl]; simp
  have hne2 : fe ≠ fu := by rw [← hfe, ← hfu]; simp
  have hnot_fl : fl ∉ labels (pre ++ ci ++ c1) := by
    simp only [labels_append, List.mem_append, not_or, hlci, List.not_mem_nil, not_false_eq_true, and_true]
    refine ⟨?_, ?_⟩
    · rw [← hfl]; exact not_mem_of_new hold (by simp [LKind.ctr, GState.ctr, Lbl.idx])
    · rw [← hfl]; exact not_mem_of_fresh hf1 (by simp [LKind.ctr, GState.ctr, Lbl.idx])
  have hnot_fe : fe ∉ labels (pre ++ ci ++ c1 ++ [GLine.lab fl] ++ cb ++ [GLine.lab fu] ++ cu ++ c2) := by
    simp only [labels_append, List.mem_append, not_or, hlci, hlcu, List.not_mem_nil, not_false_eq_true, and_true,
      labels_lab, labels_nil, List.mem_singleton]
    refine ⟨⟨⟨⟨⟨?_, ?_⟩, hne1⟩, ?_⟩, hne2⟩, ?_⟩
    · rw [← hfe]; exact not_mem_of_new hold (by simp [LKind.ctr, GState.ctr, Lbl.idx])
    · rw [← hfe]; exact not_mem_of_fresh hf1 (by simp [LKind.ctr, GState.ctr, Lbl.idx])
    · rw [← hfe]; exact not_mem_of_fresh hfb (by simp [LKind.ctr, GState.ctr, Lbl.idx]; omega)
    · rw [← hfe]; exact not_mem_of_fresh hf2 (by simp [LKind.ctr, GState.ctr, Lbl.idx]; omega)
  -- shapes of the whole code
  have w0 : pre ++ (ci ++ c1 ++ [GLine.lab fl] ++ cb ++ [GLine.lab fu] ++ cu ++ c2 ++ [GLine.lab fe]) ++ post
      = pre ++ ci ++ (c1 ++ [GLine.lab fl] ++ cb ++ [GLine.lab fu] ++ cu ++ c2 ++ [GLine.lab fe] ++ post) := by simp
  have w1 : pre ++ (ci ++ c1 ++ [GLine.lab fl] ++ cb ++ [GLine.lab fu] ++ cu ++ c2 ++ [GLine.lab fe]) ++ post
      = (pre ++ ci) ++ c1 ++ ([GLine.lab fl] ++ cb ++ [GLine.lab fu] ++ cu ++ c2 ++ [GLine.lab fe] ++ post) := by simp
  have w2 : pre ++ (ci ++ c1 ++ [GLine.lab fl] ++ cb ++ [GLine.lab fu] ++ cu ++ c2 ++ [GLine.lab fe]) ++ post
      = (pre ++ ci ++ c1) ++ GLine.lab fl :: (cb ++ [GLine.lab fu] ++ cu ++ c2 ++ [GLine.lab fe] ++ post) := by simp
  have w3 : pre ++ (ci ++ c1 ++ [GLine.lab fl] ++ cb ++ [GLine.lab fu] ++ cu ++ c2 ++ [GLine.lab fe]) ++ post
      = (pre ++ ci ++ c1 ++ [GLine.lab fl]) ++ cb ++ ([GLine.lab fu] ++ cu ++ c2 ++ [GLine.lab fe] ++ post) := by simp
  have w4 : pre ++ (ci ++ c1 ++ [GLine.lab fl] ++ cb ++ [GLine.lab fu] ++ cu ++ c2 ++ [GLine.lab fe]) ++ post
      = (pre ++ ci ++ c1 ++ [GLine.lab fl] ++ cb) ++ GLine.lab fu :: (cu ++ c2 ++ [GLine.lab fe] ++ post) := by simp
  have w5 : pre ++ (ci ++ c1 ++ [GLine.lab fl] ++ cb ++ [GLine.lab fu] ++ cu ++ c2 ++ [GLine.lab fe]) ++ post
      = (pre ++ ci ++ c1 ++ [GLine.lab fl] ++ cb ++ [GLine.lab fu]) ++ cu ++ (c2 ++ [GLine.lab fe] ++ post) := by simp
  have w6 : pre ++ (ci ++ c1 ++ [GLine.lab fl] ++ cb ++ [GLine.lab fu] ++ cu ++ c2 ++ [GLine.lab fe]) ++ post
      = (pre ++ ci ++ c1 ++ [GLine.lab fl] ++ cb ++ [GLine.lab fu] ++ cu) ++ c2 ++ ([GLine.lab fe] ++ post) := by simp
  have w7 : pre ++ (ci ++ c1 ++ [GLine.lab fl] ++ cb ++ [GLine.lab fu] ++ cu ++ c2 ++ [GLine.lab fe]) ++ post
      = (pre ++ ci ++ c1 ++ [GLine.lab fl] ++ cb ++ [GLine.lab fu] ++ cu ++ c2) ++ GLine.lab fe :: post := by simp
  have hend : pre.length + (ci ++ c1 ++ [GLine.lab fl] ++ cb ++ [GLine.lab fu] ++ cu ++ c2 ++ [GLine.lab fe]).length
      = pre.length + ci.length + c1.length + 1 + cb.length + 1 + cu.length + c2.length + 1 := by len_arith
  rw [hend]
  generalize hwhole : pre ++ (ci ++ c1 ++ [GLine.lab fl] ++ cb ++ [GLine.lab fu] ++ cu ++ c2 ++ [GLine.lab fe]) ++ post = whole at *
  have hfind_fl : findLbl whole fl = some (pre.length + ci.length + c1.length) := by
    rw [w2, findLbl_at _ _ _ hnot_fl]; congr 1; len_arith
  have hfind_fe : findLbl whole fe = some (pre.length + ci.length + c1.length + 1 + cb.length + 1 + cu.length + c2.length) := by
    rw [w7, findLbl_at _ _ _ hnot_fe]; congr 1; len_arith
  have hlast : ∀ s2 : Cpu, Steps L whole (pre.length + ci.length + c1.length + 1 + cb.length + 1 + cu.length + c2.length) s2
      (pre.length + ci.length + c1.length + 1 + cb.length + 1 + cu.length + c2.length + 1) s2 := by
    intro s2
    have := Steps.single (step_lab L (pre ++ ci ++ c1 ++ [GLine.lab fl] ++ cb ++ [GLine.lab fu] ++ cu ++ c2) post fe s2)
    rw [← w7] at this
    exact this.cast (by len_arith) (by len_arith)
  have hnot_fu : fu ∉ labels (pre ++ ci ++ c1 ++ [GLine.lab fl] ++ cb) := by
    simp only [labels_append, List.mem_append, not_or, hlci, List.not_mem_nil, not_false_eq_true, and_true,
      labels_lab, labels_nil, List.mem_singleton]
    refine ⟨⟨⟨?_, ?_⟩, ?_⟩, ?_⟩
    · rw [← hfu]; exact not_mem_of_new hold (by simp [LKind.ctr, GState.ctr, Lbl.idx])
    · rw [← hfu]; exact not_mem_of_fresh hf1 (by simp [LKind.ctr, GState.ctr, Lbl.idx])
    · rw [← hfu, ← hfl]; simp
    · rw [← hfu]; exact not_mem_of_fresh hfb (by simp [LKind.ctr, GState.ctr, Lbl.idx]; omega)
  have hfind_fu : findLbl whole fu = some (pre.length + ci.length + c1.length + 1 + cb.length) := by
    rw [w4, findLbl_at _ _ _ hnot_fu]; congr 1; len_arith
  have hlpb : LoopOK (some (fu, fe)) whole (pre.length + ci.length + c1.length + 1 + cb.length)
      (pre.length + ci.length + c1.length + 1 + cb.length + 1 + cu.length + c2.length) (contHere b) :=
    ⟨fun _ => hfind_fu, hfind_fe⟩
  -- the loop, from the loop label with the condition known to hold, by induction on the fuel of the source loop
  have hloop : ∀ k, k ≤ f → ∀ (m1 : SrcSt) (s1 : Cpu) (o : Out), srcOf s1 = condEff L m1 c → evalCond L m1 c = true →
      semFor L c u b k m1 = some o →
      Result L whole (pre.length + ci.length + c1.length) s1
        (pre.length + ci.length + c1.length + 1 + cb.length + 1 + cu.length + c2.length + 1) o.2 none := by
    intro k
    induction k with
    | zero => intro _ m1 s1 o _ _ hs; simp [semFor] at hs
    | succ k ihk =>
      intro hk m1 s1 o hm1 hev hs
      simp only [semFor, hev, if_true] at hs
      -- loop label
      have h0 : Steps L whole (pre.length + ci.length + c1.length) s1 (pre.length + ci.length + c1.length + 1) s1 := by
        have := Steps.single (step_lab L (pre ++ ci ++ c1) (cb ++ [GLine.lab fu] ++ cu ++ c2 ++ [GLine.lab fe] ++ post) fl s1)
        rw [← w2] at this
        exact this.cast (by len_arith) (by len_arith)
      -- from the update label on, with the memory the body left
      have hupd : ∀ (m2 : SrcSt) (s2 : Cpu), srcOf s2 = m2 → semFor L c u b k (rspec L m2 u) = some o →
          Result L whole (pre.length + ci.length + c1.length + 1 + cb.length) s2
            (pre.length + ci.length + c1.length + 1 + cb.length + 1 + cu.length + c2.length + 1) o.2 none := by
        intro m2 s2 hm2 hs'
        have h3 : Steps L whole (pre.length + ci.length + c1.length + 1 + cb.length) s2
            (pre.length + ci.length + c1.length + 1 + cb.length + 1) s2 := by
          have := Steps.single (step_lab L (pre ++ ci ++ c1 ++ [GLine.lab fl] ++ cb) (cu ++ c2 ++ [GLine.lab fe] ++ post) fu s2)
          rw [← w4] at this
          exact this.cast (by len_arith) (by len_arith)
        obtain ⟨s3, hs3, hm3, hsp3, hz3⟩ := flat_steps L (zpL g3.abs) u none (pre ++ ci ++ c1 ++ [GLine.lab fl] ++ cb ++ [GLine.lab fu]) (c2 ++ [GLine.lab fe] ++ post) s2 trivial
        rw [hcu, ← w5] at hs3
        have hs3' : Steps L whole (pre.length + ci.length + c1.length + 1 + cb.length + 1) s2
            (pre.length + ci.length + c1.length + 1 + cb.length + 1 + cu.length) s3 :=
          hs3.cast (by len_arith) (by len_arith)
        have hmem3 : srcOf s3 = rspec L m2 u := by rw [hm3, hm2]
        have hc := genCond_correct L c { g3 with flags := flagsAfter (zpL g3.abs) none u } false fl hokc
        rw [hfl] at hc2
        rw [hc2] at hc
        have hc' := hc (pre ++ ci ++ c1 ++ [GLine.lab fl] ++ cb ++ [GLine.lab fu] ++ cu) ([GLine.lab fe] ++ post) s3
          (pre.length + ci.length + c1.length) hold_c hz3 (by rw [← w6]; exact hfind_fl)
        obtain ⟨s4, hs4, hm4, hsp4, hf4⟩ := hc'
        dsimp only at hs4
        rw [← w6, hmem3] at hs4
        by_cases hev2 : evalCond L (rspec L m2 u) c = true
        · have hb : (evalCond L (rspec L m2 u) c != false) = true := by simp [hev2]
          simp only [hb, if_true] at hs4
          have hs4' : Steps L whole (pre.length + ci.length + c1.length + 1 + cb.length + 1 + cu.length) s3
              (pre.length + ci.length + c1.length) s4 := hs4.cast (by len_arith) rfl
          obtain ⟨s5, hs5, hm5, _, hsp5⟩ := ihk (by omega) (rspec L m2 u) s4 o (by rw [hm4, hmem3]) hev2 hs'
          exact ⟨s5, ((h3.trans hs3').trans hs4').trans hs5, hm5, trivial, by rw [hsp5, hsp4, hsp3]⟩
        · have hev2' : evalCond L (rspec L m2 u) c = false := by simpa using hev2
          have hb : (evalCond L (rspec L m2 u) c != false) = false := by simp [hev2']
          simp only [hb, Bool.false_eq_true, if_false] at hs4
          have hs4' : Steps L whole (pre.length + ci.length + c1.length + 1 + cb.length + 1 + cu.length) s3
              (pre.length + ci.length + c1.length + 1 + cb.length + 1 + cu.length + c2.length) s4 :=
            hs4.cast (by len_arith) (by len_arith)
          cases k with
          | zero => simp [semFor] at hs'
          | succ k1 =>
            simp only [semFor, hev2', Bool.false_eq_true, if_false, Option.some.injEq] at hs'
            subst hs'
            exact ⟨s4, ((h3.trans hs3').trans hs4').trans (hlast s4), by rw [hm4, hmem3], trivial, by rw [hsp4, hsp3]⟩
      cases hb1 : sem L k (condEff L m1 c) b with
      | none => simp [hb1] at hs
      | some ob =>
        have rb := ihs k (by omega) b (condEff L m1 c) ob hb1 hfrb (some (fu, fe)) { g2 with flags := none } (pre ++ ci ++ c1 ++ [GLine.lab fl])
          ([GLine.lab fu] ++ cu ++ c2 ++ [GLine.lab fe] ++ post) s1
          (pre.length + ci.length + c1.length + 1 + cb.length) (pre.length + ci.length + c1.length + 1 + cb.length + 1 + cu.length + c2.length)
          hsc hold_b hm1 trivial (by rw [hfu, hfe] at hcb; rw [hcb]; dsimp only; rw [← w3]; exact hlpb)
        rw [hfu, hfe] at hcb
        rw [hcb] at rb
        dsimp only at rb
        rw [← w3] at rb
        obtain ⟨eb, m2⟩ := ob
        cases eb with
        | norm =>
          simp only [hb1] at hs
          obtain ⟨s2, hs2, hm2, hf2', hsp2⟩ := rb
          have hs2' : Steps L whole (pre.length + ci.length + c1.length + 1) s1 (pre.length + ci.length + c1.length + 1 + cb.length) s2 :=
            hs2.cast (by len_arith) (by len_arith)
          obtain ⟨s5, hs5, hm5, _, hsp5⟩ := hupd m2 s2 hm2 hs
          exact ⟨s5, (h0.trans hs2').trans hs5, hm5, trivial, by rw [hsp5, hsp2]⟩
        | cont =>
          simp only [hb1] at hs
          obtain ⟨s2, hs2, hm2, hsp2⟩ := rb
          have hs2' : Steps L whole (pre.length + ci.length + c1.length + 1) s1 (pre.length + ci.length + c1.length + 1 + cb.length) s2 :=
            hs2.cast (by len_arith) rfl
          obtain ⟨s5, hs5, hm5, _, hsp5⟩ := hupd m2 s2 hm2 hs
          exact ⟨s5, (h0.trans hs2').trans hs5, hm5, trivial, by rw [hsp5, hsp2]⟩
        | brk =>
          simp only [hb1, Option.some.injEq] at hs
          subst hs
          obtain ⟨s2, hs2, hm2, hsp2⟩ := rb
          have hs2' : Steps L whole (pre.length + ci.length + c1.length + 1) s1
              (pre.length + ci.length + c1.length + 1 + cb.length + 1 + cu.length + c2.length) s2 := hs2.cast (by len_arith) rfl
          exact ⟨s2, (h0.trans hs2').trans (hlast s2), hm2, trivial, hsp2⟩
  -- the initialisation
  obtain ⟨sa, hsa, hma, hspa, hza⟩ := flat_steps L (zpL g.abs) i g.flags pre
    (c1 ++ [GLine.lab fl] ++ cb ++ [GLine.lab fu] ++ cu ++ c2 ++ [GLine.lab fe] ++ post) s hinv
  rw [hci, ← w0] at hsa
  -- the first condition
  have hc := genCond_correct L c { g with cFor := g.cFor + 1, flags := flagsAfter (zpL g.abs) g.flags i } true fe hokc
  rw [hfe] at hc1
  rw [hc1] at hc
  have hc' := hc (pre ++ ci) ([GLine.lab fl] ++ cb ++ [GLine.lab fu] ++ cu ++ c2 ++ [GLine.lab fe] ++ post) sa
    (pre.length + ci.length + c1.length + 1 + cb.length + 1 + cu.length + c2.length) hold_a hza (by rw [← w1]; exact hfind_fe)
  obtain ⟨sb, hsb, hmb, hspb, hfb'⟩ := hc'
  dsimp only at hsb
  rw [← w1] at hsb
  have hmema : srcOf sa = rspec L m i := by rw [hma, hm]
  rw [hmema] at hsb
  cases f with
  | zero => simp [semFor] at h
  | succ f1 =>
    by_cases hev : evalCond L (rspec L m i) c = true
    · have hb : (evalCond L (rspec L m i) c != true) = false := by simp [hev]
      simp only [hb, Bool.false_eq_true, if_false] at hsb
      have hsb' : Steps L whole (pre.length + ci.length) sa (pre.length + ci.length + c1.length) sb :=
        hsb.cast (by len_arith) (by len_arith)
      obtain ⟨sc, hsc', hmc, _, hspc⟩ := hloop (f1 + 1) (Nat.le_refl _) (rspec L m i) sb (.norm, m') (by rw [hmb, hmema]) hev h
      exact ⟨sc, (hsa.trans hsb').trans hsc', hmc, trivial, by rw [hspc, hspb, hspa]⟩
    · have hev' : evalCond L (rspec L m i) c = false := by simpa using hev
      have hb : (evalCond L (rspec L m i) c != true) = true := by simp [hev']
      simp only [hb, if_true] at hsb
      have hsb' : Steps L whole (pre.length + ci.length) sa
          (pre.length + ci.length + c1.length + 1 + cb.length + 1 + cu.length + c2.length) sb := hsb.cast (by len_arith) rfl
      simp only [semFor, hev', Bool.false_eq_true, if_false, Option.some.injEq, Prod.mk.injEq, true_and] at h
      exact ⟨sb, (hsa.trans hsb').trans (hlast sb), by rw [hmb, hmema]; exact h, trivial, by rw [hspb, hspa]⟩



/-- every statement of the fragment, whatever fuel its source meaning needs -/
theorem correct_all (L : Layout) : ∀ fuel, Correct L fuel := by
  intro fuel
  induction fuel using Nat.strongRecOn with
  | _ fuel ih =>
    intro st m out h hfr lp g pre post s tc tb hsc hold hm hinv hlp
    cases fuel with
    | zero => simp [sem] at h
    | succ f =>
      have ihf : Correct L f := ih f (by omega)
      cases st with
      | flat fs => exact case_flat L f fs m out h lp g pre post s tc tb hm hinv
      | skip =>
        simp only [sem, Option.some.injEq] at h
        subst h
        refine ⟨s, ?_, hm, by simpa [gen] using hinv, rfl⟩
        simpa [gen] using Steps.refl (L := L) (code := pre ++ post) pre.length s
      | forget =>
        simp only [sem, Option.some.injEq] at h
        subst h
        refine ⟨s, ?_, hm, by simp [gen, FlagsInv], rfl⟩
        simpa [gen] using Steps.refl (L := L) (code := pre ++ post) pre.length s
      | brk =>
        simp only [sem, Option.some.injEq] at h
        subst h
        cases lp with
        | none => simp [Scoped] at hsc
        | some p =>
          obtain ⟨cl, bl⟩ := p
          have := case_jump L (some (cl, bl)) g pre post s tb bl (by simpa [gen] using hlp.2)
          rw [hm] at this
          simpa [gen, ResultO] using this
      | cont =>
        simp only [sem, Option.some.injEq] at h
        subst h
        cases lp with
        | none => simp [Scoped] at hsc
        | some p =>
          obtain ⟨cl, bl⟩ := p
          have := case_jump L (some (cl, bl)) g pre post s tc cl (by simpa [gen] using hlp.1 rfl)
          rw [hm] at this
          simpa [gen, ResultO] using this
      | ifBrk c =>
        simp only [sem, Option.some.injEq] at h
        subst h
        simp only [SInFragment] at hfr
        cases lp with
        | none => simp [Scoped] at hsc
        | some p =>
          obtain ⟨cl, bl⟩ := p
          have := case_condJump L c hfr g pre post s m bl tb hold hm hinv (by simpa [gen] using hlp.2)
          by_cases hev : evalCond L m c = true
          · simpa [gen, ResultO, hev] using this.1 hev
          · have hev' : evalCond L m c = false := by simpa using hev
            simpa [gen, ResultO, hev'] using this.2 hev'
      | ifCont c =>
        simp only [sem, Option.some.injEq] at h
        subst h
        simp only [SInFragment] at hfr
        cases lp with
        | none => simp [Scoped] at hsc
        | some p =>
          obtain ⟨cl, bl⟩ := p
          have := case_condJump L c hfr g pre post s m cl tc hold hm hinv (by simpa [gen] using hlp.1 rfl)
          by_cases hev : evalCond L m c = true
          · simpa [gen, ResultO, hev] using this.1 hev
          · have hev' : evalCond L m c = false := by simpa using hev
            simpa [gen, ResultO, hev'] using this.2 hev'
      | seq a b => exact case_seq L f ihf a b m out h hfr lp g pre post s tc tb hsc hold hm hinv hlp
      | ifThen c t => exact case_ifThen L f ihf c t m out h hfr lp g pre post s tc tb hsc hold hm hinv hlp
      | ifElse c t e => exact case_ifElse L f ihf c t e m out h hfr lp g pre post s tc tb hsc hold hm hinv hlp
      | «while» c b => exact case_while L f ihf c b m out h hfr lp g pre post s tc tb hsc hold hm hinv hlp
      | doWhile b c => exact case_doWhile L f ihf c b m out h hfr lp g pre post s tc tb hsc hold hm hinv hlp
      | «for» i c u b =>
        exact case_for L f (fun j hj => ih j (by omega)) i u c b m out h hfr lp g pre post s tc tb hsc hold hm hinv

/-- a statement outside every loop ends normally -/
theorem scoped_norm (L : Layout) : ∀ (f : Nat) (m : SrcSt) (st : SStmt) (o : Out),
    sem L f m st = some o → Scoped false st = true → o.1 = .norm := by
  intro f
  induction f with
  | zero => intro m st o h; simp [sem] at h
  | succ f ih =>
    intro m st o h hsc
    cases st with
    | flat s => simp only [sem, Option.some.injEq] at h; subst h; rfl
    | skip => simp only [sem, Option.some.injEq] at h; subst h; rfl
    | forget => simp only [sem, Option.some.injEq] at h; subst h; rfl
    | brk => simp [Scoped] at hsc
    | cont => simp [Scoped] at hsc
    | ifBrk c => simp [Scoped] at hsc
    | ifCont c => simp [Scoped] at hsc
    | seq a b =>
      simp only [Scoped, Bool.and_eq_true] at hsc
      simp only [sem] at h
      cases ha : sem L f m a with
      | none => simp [ha] at h
      | some oa =>
        have hn := ih m a oa ha hsc.1
        obtain ⟨ea, m1⟩ := oa
        simp only at hn
        subst hn
        simp only [ha] at h
        exact ih m1 b o h hsc.2
    | ifThen c t =>
      simp only [Scoped] at hsc
      simp only [sem] at h
      split at h
      · exact ih _ t o h hsc
      · simp only [Option.some.injEq] at h; subst h; rfl
    | ifElse c t e =>
      simp only [Scoped, Bool.and_eq_true] at hsc
      simp only [sem] at h
      split at h
      · exact ih _ t o h hsc.1
      · exact ih _ e o h hsc.2
    | «while» c b =>
      simp only [sem] at h
      split at h
      · cases hb : sem L f (condEff L m c) b with
        | none => simp [hb] at h
        | some ob =>
          obtain ⟨eb, m1⟩ := ob
          cases eb with
          | brk => simp only [hb, Option.some.injEq] at h; subst h; rfl
          | norm => simp only [hb] at h; exact ih m1 _ o h hsc
          | cont => simp only [hb] at h; exact ih m1 _ o h hsc
      · simp only [Option.some.injEq] at h; subst h; rfl
    | doWhile b c =>
      simp only [sem] at h
      cases hb : sem L f m b with
      | none => simp [hb] at h
      | some ob =>
        obtain ⟨eb, m1⟩ := ob
        cases eb with
        | brk => simp only [hb, Option.some.injEq] at h; subst h; rfl
        | norm =>
          simp only [hb] at h
          split at h
          · exact ih _ _ o h hsc
          · simp only [Option.some.injEq] at h; subst h; rfl
        | cont =>
          simp only [hb] at h
          split at h
          · exact ih _ _ o h hsc
          · simp only [Option.some.injEq] at h; subst h; rfl
    | «for» i c u b =>
      simp only [sem] at h
      exact (outcome_facts L f).2 c u b _ o h

end CV.GenStruct
