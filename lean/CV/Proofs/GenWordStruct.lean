/-
  16-bit `++` / `--` (stage 9): the derived statements `incW` / `decW` of CV.GenStruct mean "the 16-bit value in the
  two cells of `s` plus / minus one"; nothing else changes.
-/
import CV.Proofs.GenWord
import CV.GenStruct
set_option linter.unusedSimpArgs false
set_option linter.unusedVariables false
namespace CV.GenStruct
open CV CV.GenFlat CV.GenReg

theorem word_succ_carry (hi lo : Byte) (h : lo + 1 = 0) : word (hi + 1) (lo + 1) = word hi lo + 1 := by
  apply BitVec.eq_of_toNat_eq
  have := lo.isLt; have := hi.isLt
  have hl : lo.toNat = 255 := by
    have := congrArg BitVec.toNat h
    simp [BitVec.toNat_add] at this; omega
  simp [word_toNat, BitVec.toNat_add, hl]; omega

theorem word_succ_plain (hi lo : Byte) (h : lo + 1 ≠ 0) : word hi (lo + 1) = word hi lo + 1 := by
  apply BitVec.eq_of_toNat_eq
  have := lo.isLt; have := hi.isLt
  have hl : lo.toNat ≠ 255 := by
    intro e; apply h; apply BitVec.eq_of_toNat_eq; simp [BitVec.toNat_add, e]
  simp [word_toNat, BitVec.toNat_add]; omega

theorem word_pred_borrow (hi : Byte) : word (hi - 1) ((0 : Byte) - 1) = word hi 0 - 1 := by
  apply BitVec.eq_of_toNat_eq
  have := hi.isLt
  simp [word_toNat, BitVec.toNat_sub]; omega

theorem word_pred_plain (hi lo : Byte) (h : lo ≠ 0) : word hi (lo - 1) = word hi lo - 1 := by
  apply BitVec.eq_of_toNat_eq
  have := lo.isLt; have := hi.isLt
  have hl : lo.toNat ≠ 0 := by
    intro e; apply h; apply BitVec.eq_of_toNat_eq; simpa using e
  simp [word_toNat, BitVec.toNat_sub]; omega

/-- `s++`: the 16-bit value of `s` plus one; X, Y and every other cell unchanged -/
theorem incW_word (L : Layout) (σ : SrcSt) (s : String) (f : Nat) :
    ∃ σ', sem L (f + 3) σ (incW s) = some (.norm, σ') ∧ wordAt L σ'.mem s = wordAt L σ.mem s + 1 ∧
      σ'.x = σ.x ∧ σ'.y = σ.y ∧ ∀ a, a ≠ L s → a ≠ L s + 1 → σ'.mem.read a = σ.mem.read a := by
  have hne : L s + 1 ≠ L s := succ_ne (L s)
  have hr1 : (σ.mem.write (L s) (σ.mem.read (L s) + 1)).read (L s + 1) = σ.mem.read (L s + 1) :=
    Mem.read_write_other _ _ _ _ (Ne.symm hne)
  by_cases h : σ.mem.read (L s) + 1 = 0
  · refine ⟨{ σ with mem := (σ.mem.write (L s) (σ.mem.read (L s) + 1)).write (L s + 1) (σ.mem.read (L s + 1) + 1) }, ?_, ?_, rfl, rfl, ?_⟩
    · have hb : (σ.mem.read (L s) + 1 == 0) = true := by rw [beq_iff_eq]; exact h
      simp only [incW, sem, rspec, evalCond_cmp, evalCond_truth, evalCond_nottruth, evalCond_cmpE, evalCond_truthE, evalCond_not, evalCond_and, evalCond_or, condEff_cmp, condEff_truth, condEff_nottruth, condEff_cmpE, condEff_truthE, condEff_not, condEff_and, condEff_or, wr, rval, val, LV.ra, elAddr, Mem.read_write_same, hb, if_true]
      rw [show (BitVec.ofNat 16 1 : Word) = 1 from rfl, hr1]
    · simp only [wordAt, Mem.read_write_same, Mem.read_write_other _ _ _ _ hne]
      exact word_succ_carry _ _ h
    · intro a h1 h2
      exact (Mem.read_write_other _ _ _ _ (Ne.symm h2)).trans (Mem.read_write_other _ _ _ _ (Ne.symm h1))
  · refine ⟨{ σ with mem := σ.mem.write (L s) (σ.mem.read (L s) + 1) }, ?_, ?_, rfl, rfl, ?_⟩
    · have hb : (σ.mem.read (L s) + 1 == 0) = false := by rw [beq_eq_false_iff_ne]; exact h
      simp only [incW, sem, rspec, evalCond_cmp, evalCond_truth, evalCond_nottruth, evalCond_cmpE, evalCond_truthE, evalCond_not, evalCond_and, evalCond_or, condEff_cmp, condEff_truth, condEff_nottruth, condEff_cmpE, condEff_truthE, condEff_not, condEff_and, condEff_or, wr, rval, val, LV.ra, Mem.read_write_same, hb]
      rfl
    · simp only [wordAt, Mem.read_write_same, hr1]
      exact word_succ_plain _ _ h
    · intro a h1 _
      exact Mem.read_write_other _ _ _ _ (Ne.symm h1)

/-- `s--`: the 16-bit value of `s` minus one -/
theorem decW_word (L : Layout) (σ : SrcSt) (s : String) (f : Nat) :
    ∃ σ', sem L (f + 4) σ (decW s) = some (.norm, σ') ∧ wordAt L σ'.mem s = wordAt L σ.mem s - 1 ∧
      σ'.x = σ.x ∧ σ'.y = σ.y ∧ ∀ a, a ≠ L s → a ≠ L s + 1 → σ'.mem.read a = σ.mem.read a := by
  have hne : L s + 1 ≠ L s := succ_ne (L s)
  by_cases h : σ.mem.read (L s) = 0
  · refine ⟨{ σ with mem := (σ.mem.write (L s + 1) (σ.mem.read (L s + 1) - 1)).write (L s) (σ.mem.read (L s) - 1) }, ?_, ?_, rfl, rfl, ?_⟩
    · have hb : (σ.mem.read (L s) == 0) = true := by rw [beq_iff_eq]; exact h
      have hr : (σ.mem.write (L s + 1) (σ.mem.read (L s + 1) - 1)).read (L s) = σ.mem.read (L s) :=
        Mem.read_write_other _ _ _ _ hne
      simp only [decW, sem, rspec, evalCond_cmp, evalCond_truth, evalCond_nottruth, evalCond_cmpE, evalCond_truthE, evalCond_not, evalCond_and, evalCond_or, condEff_cmp, condEff_truth, condEff_nottruth, condEff_cmpE, condEff_truthE, condEff_not, condEff_and, condEff_or, wr, rval, val, LV.ra, elAddr, hb, if_true]
      rw [show (BitVec.ofNat 16 1 : Word) = 1 from rfl, hr]
    · simp only [wordAt, Mem.read_write_same, Mem.read_write_other _ _ _ _ (Ne.symm hne)]
      rw [h]
      exact word_pred_borrow _
    · intro a h1 h2
      exact (Mem.read_write_other _ _ _ _ (Ne.symm h1)).trans (Mem.read_write_other _ _ _ _ (Ne.symm h2))
  · refine ⟨{ σ with mem := σ.mem.write (L s) (σ.mem.read (L s) - 1) }, ?_, ?_, rfl, rfl, ?_⟩
    · have hb : (σ.mem.read (L s) == 0) = false := by rw [beq_eq_false_iff_ne]; exact h
      simp only [decW, sem, rspec, evalCond_cmp, evalCond_truth, evalCond_nottruth, evalCond_cmpE, evalCond_truthE, evalCond_not, evalCond_and, evalCond_or, condEff_cmp, condEff_truth, condEff_nottruth, condEff_cmpE, condEff_truthE, condEff_not, condEff_and, condEff_or, wr, rval, val, LV.ra, hb]
      rfl
    · simp only [wordAt, Mem.read_write_same, Mem.read_write_other _ _ _ _ (Ne.symm hne)]
      exact word_pred_plain _ _ h
    · intro a h1 _
      exact Mem.read_write_other _ _ _ _ (Ne.symm h1)

end CV.GenStruct
