/-
  CV.Mos — the MOS 6502 (NMOS, binary mode) instruction semantics, written from the
  data sheet, independently of cc6502. This file is a *specification*: it is part of
  the trusted base of C01/C02/C03/C14/C15/C17/C18.
-/
import CV.Basic
namespace CV

/-- the 45 mnemonics of `AsmMnemonic` (same order) plus the ones inline text may use -/
inductive Mn where
  | LDA | LDX | LDY | STA | STX | STY | TAX | TAY | TXA | TYA
  | ADC | SBC | EOR | AND | ORA | LSR | ASL | ROL | ROR | CLC | SEC
  | CMP | CPX | CPY | BCC | BCS | BEQ | BMI | BNE | BPL
  | INC | INX | INY | DEC | DEX | DEY | JMP | JSR | RTS | RTI
  | PHA | PLA | PHP | PLP | NOP
  | BIT | CLD | SED | CLI | SEI | CLV | BVC | BVS | TSX | TXS | BRK
  deriving DecidableEq, Repr, Inhabited

def Mn.all : List Mn := [.LDA, .LDX, .LDY, .STA, .STX, .STY, .TAX, .TAY, .TXA, .TYA,
  .ADC, .SBC, .EOR, .AND, .ORA, .LSR, .ASL, .ROL, .ROR, .CLC, .SEC,
  .CMP, .CPX, .CPY, .BCC, .BCS, .BEQ, .BMI, .BNE, .BPL,
  .INC, .INX, .INY, .DEC, .DEX, .DEY, .JMP, .JSR, .RTS, .RTI,
  .PHA, .PLA, .PHP, .PLP, .NOP,
  .BIT, .CLD, .SED, .CLI, .SEI, .CLV, .BVC, .BVS, .TSX, .TXS, .BRK]

def Mn.name : Mn → String
  | .LDA => "LDA" | .LDX => "LDX" | .LDY => "LDY" | .STA => "STA" | .STX => "STX" | .STY => "STY"
  | .TAX => "TAX" | .TAY => "TAY" | .TXA => "TXA" | .TYA => "TYA"
  | .ADC => "ADC" | .SBC => "SBC" | .EOR => "EOR" | .AND => "AND" | .ORA => "ORA"
  | .LSR => "LSR" | .ASL => "ASL" | .ROL => "ROL" | .ROR => "ROR" | .CLC => "CLC" | .SEC => "SEC"
  | .CMP => "CMP" | .CPX => "CPX" | .CPY => "CPY"
  | .BCC => "BCC" | .BCS => "BCS" | .BEQ => "BEQ" | .BMI => "BMI" | .BNE => "BNE" | .BPL => "BPL"
  | .INC => "INC" | .INX => "INX" | .INY => "INY" | .DEC => "DEC" | .DEX => "DEX" | .DEY => "DEY"
  | .JMP => "JMP" | .JSR => "JSR" | .RTS => "RTS" | .RTI => "RTI"
  | .PHA => "PHA" | .PLA => "PLA" | .PHP => "PHP" | .PLP => "PLP" | .NOP => "NOP"
  | .BIT => "BIT" | .CLD => "CLD" | .SED => "SED" | .CLI => "CLI" | .SEI => "SEI" | .CLV => "CLV"
  | .BVC => "BVC" | .BVS => "BVS" | .TSX => "TSX" | .TXS => "TXS" | .BRK => "BRK"

def Mn.ofString? (s : String) : Option Mn :=
  Mn.all.find? fun m => m.name == s.toUpper

def Mn.isCondBranch : Mn → Bool
  | .BCC | .BCS | .BEQ | .BMI | .BNE | .BPL | .BVC | .BVS => true
  | _ => false

/-- a resolved operand -/
inductive Opd where
  | none                      -- implied / accumulator
  | imm (v : Byte)
  | mem (a : Word)            -- zero page or absolute
  | memX (a : Word) (zp : Bool)   -- zp,X wraps inside page zero
  | memY (a : Word) (zp : Bool)
  | indY (z : Byte)           -- (zp),Y
  | indX (z : Byte)           -- (zp,X)
  | lbl (l : String)          -- branch / jump target
  deriving DecidableEq, Repr, Inhabited

structure Flags where
  n : Bool := false
  z : Bool := false
  c : Bool := false
  v : Bool := false
  deriving DecidableEq, Repr, Inhabited

structure Cpu where
  a : Byte := 0
  x : Byte := 0
  y : Byte := 0
  sp : Byte := 0xFF
  f : Flags := {}
  mem : Mem := Mem.zero
  deriving Inhabited

namespace Cpu

@[inline] def setNZ (f : Flags) (v : Byte) : Flags := { f with n := v.msb, z := v == 0 }

/-- effective address of a memory operand -/
def ea (s : Cpu) : Opd → Option Word
  | .mem a => some a
  | .memX a zp => some (if zp then ((a.truncate 8 + s.x : Byte).zeroExtend 16) else a + s.x.zeroExtend 16)
  | .memY a zp => some (if zp then ((a.truncate 8 + s.y : Byte).zeroExtend 16) else a + s.y.zeroExtend 16)
  | .indY z =>
      let lo := s.mem.read (z.zeroExtend 16)
      let hi := s.mem.read ((z + 1).zeroExtend 16)
      some ((hi.zeroExtend 16 <<< 8 ||| lo.zeroExtend 16) + s.y.zeroExtend 16)
  | .indX z =>
      let p := z + s.x
      let lo := s.mem.read (p.zeroExtend 16)
      let hi := s.mem.read ((p + 1).zeroExtend 16)
      some (hi.zeroExtend 16 <<< 8 ||| lo.zeroExtend 16)
  | _ => Option.none

/-- value read by a reading instruction -/
def rd (s : Cpu) (o : Opd) : Option Byte :=
  match o with
  | .imm v => some v
  | o => (s.ea o).map s.mem.read

def stackAddr (sp : Byte) : Word := 0x100 ||| sp.zeroExtend 16

def push (s : Cpu) (v : Byte) : Cpu :=
  { s with mem := s.mem.write (stackAddr s.sp) v, sp := s.sp - 1 }

def pull (s : Cpu) : Byte × Cpu :=
  let sp := s.sp + 1
  (s.mem.read (stackAddr sp), { s with sp := sp })

def packFlags (f : Flags) : Byte :=
  (if f.n then 0x80 else 0) ||| (if f.v then 0x40 else 0) ||| 0x30 |||
  (if f.z then 0x02 else 0) ||| (if f.c then 0x01 else 0)

def unpackFlags (b : Byte) : Flags :=
  { n := b.getLsbD 7, v := b.getLsbD 6, z := b.getLsbD 1, c := b.getLsbD 0 }

/-- add with carry, binary mode -/
def adc (s : Cpu) (m : Byte) : Cpu :=
  let sum : Nat := s.a.toNat + m.toNat + (if s.f.c then 1 else 0)
  let r : Byte := BitVec.ofNat 8 sum
  let ov := (s.a.msb == m.msb) && (r.msb != s.a.msb)
  { s with a := r, f := { setNZ s.f r with c := decide (sum ≥ 256), v := ov } }

def sbc (s : Cpu) (m : Byte) : Cpu := adc s (~~~ m)

def cmp (s : Cpu) (r m : Byte) : Cpu :=
  { s with f := { setNZ s.f (r - m) with c := decide (m.toNat ≤ r.toNat) } }

/-- read-modify-write helper: apply `g` (value, carry-in → value, carry-out) to A or memory -/
def rmw (s : Cpu) (o : Opd) (g : Byte → Bool → Byte × Bool) : Option Cpu :=
  match o with
  | .none =>
      let (r, c) := g s.a s.f.c
      some { s with a := r, f := { setNZ s.f r with c := c } }
  | o => do
      let a ← s.ea o
      let (r, c) := g (s.mem.read a) s.f.c
      some { s with mem := s.mem.write a r, f := { setNZ s.f r with c := c } }

def gASL (v : Byte) (_ : Bool) : Byte × Bool := (v <<< 1, v.msb)
def gLSR (v : Byte) (_ : Bool) : Byte × Bool := (v >>> 1, v.getLsbD 0)
def gROL (v : Byte) (c : Bool) : Byte × Bool := ((v <<< 1) ||| (if c then 1 else 0), v.msb)
def gROR (v : Byte) (c : Bool) : Byte × Bool := ((v >>> 1) ||| (if c then 0x80 else 0), v.getLsbD 0)

/-- Data-path semantics of every non-control-flow instruction.
    `none` = the (mnemonic, operand) pair has no meaning (e.g. `STA #1`). -/
def exec (s : Cpu) (m : Mn) (o : Opd) : Option Cpu :=
  match m with
  | .LDA => (s.rd o).map fun v => { s with a := v, f := setNZ s.f v }
  | .LDX => (s.rd o).map fun v => { s with x := v, f := setNZ s.f v }
  | .LDY => (s.rd o).map fun v => { s with y := v, f := setNZ s.f v }
  | .STA => (s.ea o).map fun a => { s with mem := s.mem.write a s.a }
  | .STX => (s.ea o).map fun a => { s with mem := s.mem.write a s.x }
  | .STY => (s.ea o).map fun a => { s with mem := s.mem.write a s.y }
  | .TAX => some { s with x := s.a, f := setNZ s.f s.a }
  | .TAY => some { s with y := s.a, f := setNZ s.f s.a }
  | .TXA => some { s with a := s.x, f := setNZ s.f s.x }
  | .TYA => some { s with a := s.y, f := setNZ s.f s.y }
  | .TSX => some { s with x := s.sp, f := setNZ s.f s.sp }
  | .TXS => some { s with sp := s.x }
  | .ADC => (s.rd o).map s.adc
  | .SBC => (s.rd o).map s.sbc
  | .EOR => (s.rd o).map fun v => let r := s.a ^^^ v; { s with a := r, f := setNZ s.f r }
  | .AND => (s.rd o).map fun v => let r := s.a &&& v; { s with a := r, f := setNZ s.f r }
  | .ORA => (s.rd o).map fun v => let r := s.a ||| v; { s with a := r, f := setNZ s.f r }
  | .LSR => s.rmw o gLSR
  | .ASL => s.rmw o gASL
  | .ROL => s.rmw o gROL
  | .ROR => s.rmw o gROR
  | .CLC => some { s with f := { s.f with c := false } }
  | .SEC => some { s with f := { s.f with c := true } }
  | .CLV => some { s with f := { s.f with v := false } }
  | .CLD | .CLI | .SEI | .NOP => some s
  | .SED => Option.none          -- decimal mode is outside the model
  | .CMP => (s.rd o).map fun v => s.cmp s.a v
  | .CPX => (s.rd o).map fun v => s.cmp s.x v
  | .CPY => (s.rd o).map fun v => s.cmp s.y v
  | .BIT => (s.rd o).map fun v =>
      { s with f := { s.f with z := (s.a &&& v) == 0, n := v.msb, v := v.getLsbD 6 } }
  | .INC => match o with
      | .none => Option.none
      | o => (s.ea o).map fun a => let r := s.mem.read a + 1
                                   { s with mem := s.mem.write a r, f := setNZ s.f r }
  | .DEC => match o with
      | .none => Option.none
      | o => (s.ea o).map fun a => let r := s.mem.read a - 1
                                   { s with mem := s.mem.write a r, f := setNZ s.f r }
  | .INX => some (let r := s.x + 1; { s with x := r, f := setNZ s.f r })
  | .INY => some (let r := s.y + 1; { s with y := r, f := setNZ s.f r })
  | .DEX => some (let r := s.x - 1; { s with x := r, f := setNZ s.f r })
  | .DEY => some (let r := s.y - 1; { s with y := r, f := setNZ s.f r })
  | .PHA => some (s.push s.a)
  | .PLA => some (let (v, s') := s.pull; { s' with a := v, f := setNZ s'.f v })
  | .PHP => some (s.push (packFlags s.f))
  | .PLP => some (let (v, s') := s.pull; { s' with f := unpackFlags v })
  | _ => Option.none   -- control flow is handled by the program-level step

/-- is the conditional branch `m` taken in flag state `f`? -/
def taken (f : Flags) : Mn → Option Bool
  | .BCC => some (!f.c) | .BCS => some f.c
  | .BEQ => some f.z    | .BNE => some (!f.z)
  | .BMI => some f.n    | .BPL => some (!f.n)
  | .BVC => some (!f.v) | .BVS => some f.v
  | _ => Option.none

end Cpu
end CV
