/-
  CV.GenReg — port of the code generator for straight-line statements over `unsigned char` variables,
  constants AND the register variables X and Y (stage 3 of the port; generalises CV.GenFlat):
      lv = a      lv = a ∘ b      lv ∘= a      lv++      lv--        lv ::= v | X | Y     a, b ::= n | v | X | Y
  Templates of generate_assign / generate_arithm / generate_plusplus at -O0:
    * the left operand goes to A by LDA / TXA / TYA; a register as right operand is first stored to the
      compiler's scratch cell `cctmp` (`STX cctmp ; ADC cctmp`); the result leaves A by STA / TAX / TAY;
    * plain assignments use LDX / LDY / STX / STY / TXA;TAY / TYA;TAX, `X = X` emits nothing;
    * `X | 0` is the register itself (no code); identity operands are omitted as in stage 1;
    * ++ / -- are INC / DEC / INX / DEX / INY / DEY.
  What the source prescribes is given on `SrcSt` (memory, X, Y); it includes the write of `cctmp`, which
  the code really performs — CV.Props.C01 relates it to the reading without scratch cell.
-/
import CV.GenFlat
set_option linter.constructorNameAsVariable false
namespace CV.GenReg
open CV CV.GenFlat

/-- a readable operand: constant, variable, or register variable -/
inductive RA where
  | of (a : Atom)
  | x
  | y
  deriving Repr, DecidableEq, Inhabited

/-- an assignable operand -/
inductive LV where
  | var (v : String)
  | x
  | y
  | el (t : String) (i : Ix)        -- array element (stage 4)
  deriving Repr, DecidableEq, Inhabited

def LV.ra : LV → RA
  | .var v => .of (.var v)
  | .x => .x
  | .y => .y
  | .el t i => .of (.el t i)

/-- a readable 16-bit operand (stage 6): an `unsigned short` variable (two cells, low byte first), a constant,
    or an `unsigned char` variable (zero-extended) -/
inductive WA where
  | wvar (t : String)
  | wconst (n : BitVec 16)
  | wbyte (a : String)
  deriving Repr, DecidableEq, Inhabited

/-- the low and the high byte of a 16-bit operand, as operands of 8-bit instructions: the high byte of the
    variable `t` is the cell `t+1` -/
def WA.lo : WA → Atom
  | .wvar t => .var t
  | .wconst n => .const (n.truncate 8)
  | .wbyte a => .var a

def WA.hi : WA → Atom
  | .wvar t => .el t (.k 1)
  | .wconst n => .const ((n >>> 8).truncate 8)
  | .wbyte _ => .const 0

def WA.isConst : WA → Bool
  | .wconst _ => true
  | _ => false

/-- linear expressions (stage 8): every operator has at least one operand that is a constant, a variable, an
    element or a register — `e ∘ y` or `x ∘ e`; the value of the compound operand is in the accumulator -/
inductive LExpr where
  | pair (a : RA) (op : BOp) (b : RA)
  | left (e : LExpr) (op : BOp) (y : RA)
  | right (x : RA) (op : BOp) (e : LExpr)
  deriving Repr, DecidableEq, Inhabited

/-! expression trees (stage 10): any nesting of the five operators -/
inductive GExpr where
  | atom (a : RA)
  | bin (l : GExpr) (op : BOp) (r : GExpr)
  | sh (e : GExpr) (left : Bool) (k : Nat)      -- `(e) << k` / `(e) >> k` by a literal (stage 11)
  deriving Repr, DecidableEq, Inhabited

/-- where the value of a sub-expression is after its code ran -/
inductive ET where
  | atm (a : RA)        -- nowhere yet: the operand itself
  | acc                 -- in the accumulator
  | tmp                 -- in the scratch cell
  deriving Repr, DecidableEq, Inhabited


inductive RStmt where
  | lin (v : LV) (e : LExpr)                       -- `v = e` (stage 8)
  | expr (v : LV) (e : GExpr)                      -- `v = e` for an expression tree (stage 10)
  | asg (v : LV) (a : RA)
  | bin (v : LV) (op : BOp) (a b : RA)
  | opasg (v : LV) (op : BOp) (a : RA)
  | inc (v : LV)
  | dec (v : LV)
  | chain (v : LV) (a : RA) (op1 : BOp) (b1 : RA) (ops : List (BOp × RA))   -- `v = a ∘1 b1 ∘2 b2 …` (stage 7), at least two operators
  | asgW (s : String) (a : WA)                     -- 16-bit destination `s` (an `unsigned short` variable)
  | binW (s : String) (op : BOp) (a b : WA)
  | opasgW (s : String) (op : BOp) (a : WA)
  deriving Repr, DecidableEq, Inhabited

def RA.isConst : RA → Bool
  | .of (.const _) => true
  | _ => false

def RA.isReg : RA → Bool
  | .x | .y => true
  | _ => false

def RStmt.target : RStmt → LV
  | .asg v _ | .bin v _ _ _ | .opasg v _ _ | .inc v | .dec v | .chain v _ _ _ _ | .lin v _ | .expr v _ => v
  | .asgW s _ | .binW s _ _ _ | .opasgW s _ _ => .var s

/-- `X | 0`, `Y | 0`: generate_arithm returns the register itself -/
def orZeroReg0 (op : BOp) (x y : RA) : Bool :=
  op == .bor && x.isReg && (match y with | .of (.const n) => n == 0 | _ => false)

/-- the innermost pair is a real computation: not two constants (folded), not `X | 0` (no code, the register itself) -/
def LExpr.ok : LExpr → Bool
  | .pair a op b =>
    !(a.isConst && b.isConst) &&
      !(orZeroReg0 op (if op.commutes && a.isConst && !b.isConst then b else a) (if op.commutes && a.isConst && !b.isConst then a else b))
  | .left e _ _ => e.ok
  | .right _ _ e => e.ok

/-- the scratch cell -/
def tmp : Atom := .var "cctmp"

/-- operand order after the generator's swap (constant first operand of a commutative operation) -/
def rordered (op : BOp) (a b : RA) : RA × RA :=
  if op.commutes && a.isConst && !b.isConst then (b, a) else (a, b)

def rIsIdentity (op : BOp) : RA → Bool
  | .of a => isIdentity op a
  | _ => false

/-- `X | 0`, `Y | 0`: generate_arithm returns the register itself -/
def orZeroReg (op : BOp) (x y : RA) : Bool :=
  op == .bor && x.isReg && (match y with | .of (.const n) => n == 0 | _ => false)

def loadA {α : Type} (none : α) (r : Atom → α) : RA → List (Mn × α)
  | .x => [(.TXA, none)]
  | .y => [(.TYA, none)]
  | .of a => [(.LDA, r a)]

/-- `m operand`, through the scratch cell for a register operand -/
def withOperand {α : Type} (r : Atom → α) (m : Mn) : RA → List (Mn × α)
  | .x => [(.STX, r tmp), (m, r tmp)]
  | .y => [(.STY, r tmp), (m, r tmp)]
  | .of a => [(m, r a)]

def opCode {α : Type} (none : α) (r : Atom → α) (op : BOp) (y : RA) : List (Mn × α) :=
  (carryOf op).map (fun m => (m, none)) ++
    (if rIsIdentity op y then [] else (mainOf op).flatMap fun m => withOperand r m y)

def storeA {α : Type} (none : α) (r : Atom → α) : LV → List (Mn × α)
  | .var v => [(.STA, r (.var v))]
  | .x => [(.TAX, none)]
  | .y => [(.TAY, none)]
  | .el t i => [(.STA, r (.el t i))]

/-- plain assignment (`generate_assign`). `zp t` = the array `t` lives in the zero page: only there does
    `STY t,X` exist; an array subscripted by the register that is stored goes through A; `LDX t,X` and
    `LDY t,Y` do not exist -/
def asgCode {α : Type} (none : α) (r : Atom → α) (zp : String → Bool) : LV → RA → List (Mn × α)
  | .var v, .x => [(.STX, r (.var v))]
  | .var v, .y => [(.STY, r (.var v))]
  | .var v, .of a => [(.LDA, r a), (.STA, r (.var v))]
  | .el t (.k n), .x => [(.STX, r (.el t (.k n)))]
  | .el t (.k n), .y => [(.STY, r (.el t (.k n)))]
  | .el t .x, .x => [(.TXA, none), (.STA, r (.el t .x))]
  | .el t .x, .y => if zp t then [(.STY, r (.el t .x))] else [(.TYA, none), (.STA, r (.el t .x))]
  | .el t .y, .x => [(.TXA, none), (.STA, r (.el t .y))]
  | .el t .y, .y => [(.TYA, none), (.STA, r (.el t .y))]
  | .el t i, .of a => [(.LDA, r a), (.STA, r (.el t i))]
  | .x, .x => []
  | .x, .y => [(.TYA, none), (.TAX, none)]
  | .x, .of (.el t .x) => [(.LDA, r (.el t .x)), (.TAX, none)]
  | .x, .of a => [(.LDX, r a)]
  | .y, .y => []
  | .y, .x => [(.TXA, none), (.TAY, none)]
  | .y, .of (.el t .y) => [(.LDA, r (.el t .y)), (.TAY, none)]
  | .y, .of a => [(.LDY, r a)]

def binCode {α : Type} (none : α) (r : Atom → α) (zp : String → Bool) (v : LV) (op : BOp) (x y : RA) : List (Mn × α) :=
  if orZeroReg op x y then asgCode none r zp v x
  else loadA none r x ++ opCode none r op y ++ storeA none r v

/-- `INC t,Y` does not exist: the element goes through A -/
def incCode {α : Type} (none : α) (r : Atom → α) (inc : Bool) : LV → List (Mn × α)
  | .var v => [(if inc then .INC else .DEC, r (.var v))]
  | .x => [(if inc then .INX else .DEX, none)]
  | .y => [(if inc then .INY else .DEY, none)]
  | .el t .y =>
    loadA none r (.of (.el t .y)) ++ opCode none r (if inc then .add else .sub) (.of (.const 1)) ++ storeA none r (.el t .y)
  | .el t i => [(if inc then .INC else .DEC, r (.el t i))]

/-! ### 16-bit destinations (stage 6): two byte passes, the carry travels from the first to the second -/

def wordered (op : BOp) (a b : WA) : WA × WA :=
  if op.commutes && a.isConst && !b.isConst then (b, a) else (a, b)

/-- is the low-byte operation emitted? `generate_arithm` looks at the *whole* constant: `+` is skipped when the
    low byte is 0, `&` when the low byte is 255, `-` `|` `^` only when the whole constant is 0 -/
def lowEmitted (op : BOp) : WA → Bool
  | .wconst v => (match op with
      | .add => v.truncate 8 != (0 : Byte)
      | .band => v.truncate 8 != (255 : Byte)
      | _ => v != 0)
  | _ => true

/-- `t & 255` with `t` a 16-bit variable: the generator answers "the low byte of t, high byte 0" without code -/
def maskLow (op : BOp) (x y : WA) : Bool :=
  op == .band && (match x with | .wvar _ => true | _ => false) && y == .wconst 255

def hiCell (s : String) : Atom := .el s (.k 1)

def asgWCode {α : Type} (r : Atom → α) (s : String) (a : WA) : List (Mn × α) :=
  [(.LDA, r a.lo), (.STA, r (.var s)), (.LDA, r a.hi), (.STA, r (hiCell s))]

def binWCode {α : Type} (none : α) (r : Atom → α) (s : String) (op : BOp) (x y : WA) : List (Mn × α) :=
  if maskLow op x y then [(.LDA, r x.lo), (.STA, r (.var s)), (.LDA, r (.const 0)), (.STA, r (hiCell s))]
  else
    [(.LDA, r x.lo)] ++ (carryOf op).map (fun m => (m, none)) ++
      (if lowEmitted op y then (mainOf op).map fun m => (m, r y.lo) else []) ++ [(.STA, r (.var s))] ++
    [(.LDA, r x.hi)] ++ (mainOf op).map (fun m => (m, r y.hi)) ++ [(.STA, r (hiCell s))]

/-! ### chains of operators (stage 7): the left operand of every operator after the first is the accumulator -/

def chainCode {α : Type} (none : α) (r : Atom → α) : List (BOp × RA) → List (Mn × α)
  | [] => []
  | (op, y) :: rest => opCode none r op y ++ chainCode none r rest

/-! ### linear expressions (stage 8): `x − e` keeps the value of `e` in the scratch cell; a commutative `x ∘ e` is
    computed as `e ∘ x` -/

def linCode {α : Type} (none : α) (r : Atom → α) : LExpr → List (Mn × α)
  | .pair a op b => let p := rordered op a b; loadA none r p.1 ++ opCode none r op p.2
  | .left e op y => linCode none r e ++ opCode none r op y
  | .right x op e =>
    linCode none r e ++
      (if op == .sub then [(.STA, r tmp)] ++ loadA none r x ++ [(.SEC, none), (.SBC, r tmp)] else opCode none r op x)

/-! ### expression trees (stage 10): port of generate_expr / generate_arithm -/

/-- the generator's `acc_in_use` / `tmp_in_use` -/
structure ES where
  acc : Bool := false
  tmpU : Bool := false
  deriving Repr, DecidableEq, Inhabited

def ET.isConst : ET → Bool
  | .atm a => a.isConst
  | _ => false

def ET.isReg : ET → Bool
  | .atm a => a.isReg
  | _ => false

/-- operand order of generate_arithm: `−` keeps it; otherwise a constant goes right, and so does whatever is not
    in the accumulator when the other operand is -/
def order (op : BOp) (l r : ET) : ET × ET :=
  if op == .sub then (l, r)
  else if l.isConst then (r, l)
  else match r with
    | .acc => (r, l)
    | _ => (l, r)

/-- the operand the operation is applied with -/
def opnd : ET → RA
  | .atm a => a
  | _ => .of tmp

/-- what generate_arithm decides for one operator, from the generator state and where the operands are -/
structure Plan where
  left : ET             -- the operand that goes to the accumulator
  right2 : ET           -- the operand the operation is applied with (never `.acc`)
  spill : Bool          -- the right operand was in the accumulator: `STA cctmp` first
  accL : Bool           -- the accumulator holds an outer operand at that point
  st' : ES
  deriving Repr, DecidableEq

/-- `PHA` before the left operand is loaded, and the result handed over in the scratch cell (`STA cctmp ; PLA`) -/
def Plan.save (p : Plan) : Bool := p.accL && p.left != .acc

/-- the decisions of generate_arithm (total: `planOK` says whether the generator goes through with them) -/
def mkPlan (st : ES) (l : ET) (op : BOp) (rt : ET) : Plan :=
  let p := order op l rt
  let left := p.1
  let right := p.2
  let spill := right == .acc
  let right2 : ET := if spill then .tmp else right
  let accL : Bool := if spill then false else st.acc
  let tmp1 : Bool := if spill then true else st.tmpU
  let save := accL && left != .acc
  let tmp2 : Bool := if left == .tmp then false else tmp1
  let tmp3 : Bool := if right2 == .tmp then false else tmp2
  { left := left, right2 := right2, spill := spill, accL := accL, st' := { acc := true, tmpU := if save then true else tmp3 } }

def planOK (st : ES) (l : ET) (op : BOp) (rt : ET) : Bool :=
  let p := order op l rt
  let left := p.1
  let right := p.2
  let spill := right == .acc
  let right2 : ET := if spill then .tmp else right
  let accL : Bool := if spill then false else st.acc
  let tmp1 : Bool := if spill then true else st.tmpU
  let save := accL && left != .acc
  let tmp2 : Bool := if left == .tmp then false else tmp1
  let tmp3 : Bool := if right2 == .tmp then false else tmp2
  !(left.isConst && right.isConst) &&                                       -- folded by the generator: outside the fragment
  !(left.isReg && op == .bor && right == .atm (.of (.const 0))) &&          -- `X | 0`: no code, outside
  !(right == .acc && st.tmpU) &&                                            -- "Code too complex": the scratch cell is taken
  !(right2.isReg && tmp2) &&                                                -- a register operand needs the scratch cell
  !(save && tmp3)                                                           -- the result cannot be handed over

def plan (st : ES) (l : ET) (op : BOp) (rt : ET) : Option Plan :=
  if planOK st l op rt then some (mkPlan st l op rt) else none

/-- the left operand into the accumulator -/
def loadLeft {α : Type} (none : α) (r : Atom → α) : ET → List (Mn × α)
  | .atm a => loadA none r a
  | .tmp => [(.LDA, r tmp)]
  | .acc => []

/-- the code of a plan -/
def planCode {α : Type} (none : α) (r : Atom → α) (op : BOp) (p : Plan) : List (Mn × α) :=
  (if p.spill then [(.STA, r tmp)] else []) ++
  (if p.save then [(.PHA, none)] else []) ++
  loadLeft none r p.left ++
  opCode none r op (opnd p.right2) ++
  (if p.save then [(.STA, r tmp), (.PLA, none)] else [])

/-- generate_arithm: (code, where the result is, generator state) -/
def arithm {α : Type} (none : α) (r : Atom → α) (st : ES) (l : ET) (op : BOp) (rt : ET) : Option (List (Mn × α) × ET × ES) :=
  (plan st l op rt).map fun p => (planCode none r op p, if p.save then .tmp else .acc, p.st')

/-! generate_shift (stage 11) on an 8-bit unsigned operand found at `t`, by a literal count 0..7 -/

/-- the accumulator holds an outer operand: `PHA` first, the result handed over in the scratch cell -/
def shSave (st : ES) (t : ET) : Bool := st.acc && t != .acc

/-- `tmp_in_use` once the operand has been taken -/
def shTmp (st : ES) (t : ET) : Bool := if t == .tmp then false else st.tmpU

def shiftOK (st : ES) (t : ET) (k : Nat) : Bool :=
  !t.isConst &&                         -- constant << constant is folded: outside the fragment
  decide (k ≤ 7) &&                     -- 8 and more are special cases (constant 0, high-byte extraction): outside
  !(shSave st t && shTmp st t)          -- "Code too complex": the scratch cell is taken

def shSt (st : ES) (t : ET) : ES := { acc := true, tmpU := if shSave st t then true else shTmp st t }

def shiftCode {α : Type} (none : α) (r : Atom → α) (st : ES) (t : ET) (left : Bool) (k : Nat) : List (Mn × α) :=
  (if shSave st t then [(.PHA, none)] else []) ++
  loadLeft none r t ++
  List.replicate k ((if left then Mn.ASL else Mn.LSR), none) ++
  (if shSave st t then [(.STA, r tmp), (.PLA, none)] else [])

def genE {α : Type} (none : α) (r : Atom → α) : ES → GExpr → Option (List (Mn × α) × ET × ES)
  | st, .atom a => some ([], .atm a, st)
  | st, .sh e left k =>
    match genE none r st e with
    | Option.none => Option.none
    | some (c, t, s1) =>
      if shiftOK s1 t k then some (c ++ shiftCode none r s1 t left k, (if shSave s1 t then .tmp else .acc), shSt s1 t)
      else Option.none
  | st, .bin l op rr =>
    match genE none r st l with
    | Option.none => Option.none
    | some (cl, tl, s1) =>
      match genE none r s1 rr with
      | Option.none => Option.none
      | some (cr, tr, s2) =>
        match arithm none r s2 tl op tr with
        | Option.none => Option.none
        | some (ca, t, s3) => some (cl ++ cr ++ ca, t, s3)

/-- the statement `v = e` for a compound `e` the generator accepts -/
def exprCode {α : Type} (none : α) (r : Atom → α) (v : LV) (e : GExpr) : List (Mn × α) :=
  match genE none r {} e with
  | some (c, .acc, _) => c ++ storeA none r v
  | _ => []

def GExpr.ok (e : GExpr) : Bool :=
  match e with
  | .atom _ => false
  | _ => match genE () (fun _ => ()) {} e with
    | some (_, .acc, _) => true
    | _ => false


def RInFragment : RStmt → Bool
  | .lin _ e => e.ok
  | .expr _ e => e.ok
  | .bin _ _ a b => !(a.isConst && b.isConst)
  | .binW _ _ a b => !(a.isConst && b.isConst)
  | .chain _ a _ b1 ops => !(a.isConst && b1.isConst) && !ops.isEmpty
  | _ => true

def rtemplate {α : Type} (none : α) (r : Atom → α) (zp : String → Bool) : RStmt → List (Mn × α)
  | .expr v e => exprCode none r v e
  | .lin v e => linCode none r e ++ storeA none r v
  | .chain v a op1 b1 ops =>
    let p := rordered op1 a b1
    loadA none r p.1 ++ chainCode none r ((op1, p.2) :: ops) ++ storeA none r v
  | .asgW s a => asgWCode r s a
  | .binW s op a b => let p := wordered op a b; binWCode none r s op p.1 p.2
  | .opasgW s op a => binWCode none r s op (.wvar s) a
  | .asg v a => asgCode none r zp v a
  | .bin v op a b => let p := rordered op a b; binCode none r zp v op p.1 p.2
  | .opasg v op a => binCode none r zp v op v.ra a
  | .inc v => incCode none r true v
  | .dec v => incCode none r false v

def rgenOps (L : Layout) (zp : String → Bool) (s : RStmt) : List (Mn × Opd) := rtemplate Opd.none (opd L) zp s
def rgenText (zp : String → Bool) (s : RStmt) : List (Mn × String) := rtemplate "" text zp s

/-! ### the generator's belief about the flags after a statement -/

/-- what N/Z describe: a variable or a register (`FlagsState::Absolute / X / Y`) -/
abbrev FRef := LV

/-- STX / STY leave the flags alone: a belief about memory does not survive them (`forget_memory_flags`) -/
def forgetMem : Option FRef → Option FRef
  | some (.var _) => none
  | some (.el _ _) => none
  | f => f

def asgFlags (zp : String → Bool) (fl : Option FRef) : LV → RA → Option FRef
  | .var _, .x | .var _, .y => forgetMem fl
  | .var v, .of _ => some (.var v)
  | .el _ (.k _), .x | .el _ (.k _), .y => forgetMem fl
  | .el _ .x, .x => some .x
  | .el t .x, .y => if zp t then forgetMem fl else some .y
  | .el _ .y, .x => some .x
  | .el _ .y, .y => some .y
  | .el t i, .of _ => some (.el t i)
  | .x, .x => fl
  | .x, _ => some .x
  | .y, .y => fl
  | .y, _ => some .y

def flagsAfter (zp : String → Bool) (fl : Option FRef) : RStmt → Option FRef
  | .asg v a => asgFlags zp fl v a
  | .bin v op a b => let p := rordered op a b; if orZeroReg op p.1 p.2 then asgFlags zp fl v p.1 else some v
  | .opasg v op a => if orZeroReg op v.ra a then asgFlags zp fl v v.ra else some v
  | .inc v | .dec v => some v
  | .chain v _ _ _ _ => some v
  | .lin v _ => some v
  | .expr v e => if e.ok then some v else fl
  | .asgW _ _ | .binW _ _ _ _ | .opasgW _ _ _ => none

/-! ### what the source prescribes, on memory and the two register variables -/

structure SrcSt where
  mem : Mem
  x : Byte
  y : Byte
  sp : Byte              -- the stack pointer: part of the source-visible state since stage 10 (the stack page holds spills)

def rval (L : Layout) (σ : SrcSt) : RA → Byte
  | .of a => val L σ.mem σ.x σ.y a
  | .x => σ.x
  | .y => σ.y

def wr (L : Layout) (σ : SrcSt) (v : LV) (b : Byte) : SrcSt :=
  match v with
  | .var n => { σ with mem := σ.mem.write (L n) b }
  | .x => { σ with x := b }
  | .y => { σ with y := b }
  | .el t i => { σ with mem := σ.mem.write (elAddr L σ.x σ.y t i) b }

/-- the scratch write the code performs for a register right operand -/
def tmpWrite (L : Layout) (σ : SrcSt) (op : BOp) (y : RA) : SrcSt :=
  if y.isReg && !rIsIdentity op y then { σ with mem := σ.mem.write (L "cctmp") (rval L σ y) } else σ

def binSpec (L : Layout) (σ : SrcSt) (v : LV) (op : BOp) (x y : RA) : SrcSt :=
  if orZeroReg op x y then wr L σ v (rval L σ x)
  else wr L (tmpWrite L σ op y) v (op.apply (rval L σ x) (rval L σ y))

/-! 16-bit statements, byte by byte in the order the code works: the low bytes (with the carry out of an
    addition / the borrow of a subtraction), then the high bytes *read after the low byte was written*.
    `CV.C01.word_*` relates this to plain 16-bit arithmetic for layouts in which the high cell of a 16-bit
    variable is nobody else's cell. -/

def lowRes (op : BOp) (a b : Byte) : Byte × Bool :=
  match op with
  | .add => (a + b, decide (a.toNat + b.toNat ≥ 256))
  | .sub => (a - b, decide (b.toNat ≤ a.toNat))
  | op => (op.apply a b, false)

def highRes (op : BOp) (c : Bool) (a b : Byte) : Byte :=
  match op with
  | .add => a + b + (if c then 1 else 0)
  | .sub => a - b - (if c then 0 else 1)
  | op => op.apply a b

def asgWSpec (L : Layout) (σ : SrcSt) (s : String) (a : WA) : SrcSt :=
  let σ1 := wr L σ (.var s) (rval L σ (.of a.lo))
  wr L σ1 (.el s (.k 1)) (rval L σ1 (.of a.hi))

def binWSpec (L : Layout) (σ : SrcSt) (s : String) (op : BOp) (x y : WA) : SrcSt :=
  let r := lowRes op (rval L σ (.of x.lo)) (rval L σ (.of y.lo))
  let σ1 := wr L σ (.var s) r.1
  wr L σ1 (.el s (.k 1)) (highRes op r.2 (rval L σ1 (.of x.hi)) (rval L σ1 (.of y.hi)))

/-- the value of a chain and the scratch writes its register operands cause, operator by operator -/
def chainVal (L : Layout) : SrcSt → Byte → List (BOp × RA) → SrcSt × Byte
  | σ, acc, [] => (σ, acc)
  | σ, acc, (op, y) :: rest => chainVal L (tmpWrite L σ op y) (op.apply acc (rval L σ y)) rest

def chainSpec (L : Layout) (σ : SrcSt) (v : LV) (a : RA) (op1 : BOp) (b1 : RA) (ops : List (BOp × RA)) : SrcSt :=
  let p := rordered op1 a b1
  let r := chainVal L σ (rval L σ p.1) ((op1, p.2) :: ops)
  wr L r.1 v r.2

/-- value of a linear expression and the scratch writes its evaluation causes -/
def linVal (L : Layout) : SrcSt → LExpr → SrcSt × Byte
  | σ, .pair a op b => let p := rordered op a b; (tmpWrite L σ op p.2, op.apply (rval L σ p.1) (rval L σ p.2))
  | σ, .left e op y => let r := linVal L σ e; (tmpWrite L r.1 op y, op.apply r.2 (rval L r.1 y))
  | σ, .right x op e =>
    let r := linVal L σ e
    if op == .sub then
      let σ2 : SrcSt := { r.1 with mem := r.1.mem.write (L "cctmp") r.2 }
      (σ2, rval L σ2 x - r.2)
    else (tmpWrite L r.1 op x, op.apply r.2 (rval L r.1 x))

/-! ### what the code does: memory (scratch cell, stack page), stack pointer, accumulator -/

def pushS (σ : SrcSt) (v : Byte) : SrcSt :=
  { σ with mem := σ.mem.write (Cpu.stackAddr σ.sp) v, sp := σ.sp - 1 }

def pullS (σ : SrcSt) : SrcSt × Byte :=
  ({ σ with sp := σ.sp + 1 }, σ.mem.read (Cpu.stackAddr (σ.sp + 1)))

def setTmp (L : Layout) (σ : SrcSt) (v : Byte) : SrcSt := { σ with mem := σ.mem.write (L "cctmp") v }

/-- the value the left operand brings into the accumulator (`a` = what is there) -/
def leftVal (L : Layout) (σ : SrcSt) (a : Byte) : ET → Byte
  | .atm x => rval L σ x
  | .tmp => σ.mem.read (L "cctmp")
  | .acc => a

/-- a plan on the source-level state and the accumulator -/
def evalPlan (L : Layout) (σ : SrcSt) (a : Byte) (op : BOp) (p : Plan) : SrcSt × Byte :=
  let σ0 := if p.spill then setTmp L σ a else σ
  let σ1 := if p.save then pushS σ0 a else σ0
  let a1 : Byte := leftVal L σ1 a p.left
  let σ2 := tmpWrite L σ1 op (opnd p.right2)
  let a2 := op.apply a1 (rval L σ1 (opnd p.right2))
  if p.save then pullS (setTmp L σ2 a2) else (σ2, a2)

def evalArithm (L : Layout) (σ : SrcSt) (a : Byte) (st : ES) (l : ET) (op : BOp) (rt : ET) : Option ((SrcSt × Byte) × ET × ES) :=
  (plan st l op rt).map fun p => (evalPlan L σ a op p, if p.save then .tmp else .acc, p.st')

def shVal (left : Bool) (k : Nat) (a : Byte) : Byte := if left then a <<< k else a >>> k

/-- a shift on the source-level state and the accumulator -/
def evalShift (L : Layout) (σ : SrcSt) (a : Byte) (st : ES) (t : ET) (left : Bool) (k : Nat) : SrcSt × Byte :=
  let σ1 := if shSave st t then pushS σ a else σ
  let a2 := shVal left k (leftVal L σ1 a t)
  if shSave st t then pullS (setTmp L σ1 a2) else (σ1, a2)

def evalE (L : Layout) : SrcSt → Byte → ES → GExpr → Option ((SrcSt × Byte) × ET × ES)
  | σ, a, st, .atom x => some ((σ, a), .atm x, st)
  | σ, a, st, .sh e left k =>
    match evalE L σ a st e with
    | none => none
    | some ((σ1, a1), t, s1) =>
      if shiftOK s1 t k then some (evalShift L σ1 a1 s1 t left k, (if shSave s1 t then .tmp else .acc), shSt s1 t)
      else none
  | σ, a, st, .bin l op rr =>
    match evalE L σ a st l with
    | none => none
    | some ((σ1, a1), tl, s1) =>
      match evalE L σ1 a1 s1 rr with
      | none => none
      | some ((σ2, a2), tr, s2) => evalArithm L σ2 a2 s2 tl op tr

/-- the plain value -/
def pureE (L : Layout) (σ : SrcSt) : GExpr → Byte
  | .atom x => rval L σ x
  | .bin l op r => op.apply (pureE L σ l) (pureE L σ r)
  | .sh e left k => shVal left k (pureE L σ e)

/-- a 16-bit variable against a 16-bit operand for (in)equality (stage 14), as the code computes it: the low bytes are
    subtracted into the scratch cell, the high bytes with the borrow into the accumulator; "different" = one of the two
    is not zero. Returns (different?, state left) -/
def wcmpRun (L : Layout) (m : SrcSt) (s : String) (w : WA) : Bool × SrcSt :=
  let lr := lowRes .sub (m.mem.read (L s)) (val L m.mem m.x m.y w.lo)
  let m1 := setTmp L m lr.1
  let hi := highRes .sub lr.2 (val L m1.mem m1.x m1.y (hiCell s)) (val L m1.mem m1.x m1.y w.hi)
  ((hi != 0) || (m1.mem.read (L "cctmp") != 0), m1)

/-- a tree whose code writes nothing the source can see: no spill, no push, no register operand through the scratch
    cell (stage 12: such trees may be operands of comparisons) -/
def quietE : ES → GExpr → Bool
  | _, .atom _ => true
  | st, .bin l op r =>
    quietE st l &&
    (match genE () (fun _ => ()) st l with
     | some (_, tl, s1) =>
       quietE s1 r &&
       (match genE () (fun _ => ()) s1 r with
        | some (_, tr, s2) =>
          (match plan s2 tl op tr with
           | some p => !p.spill && !p.save && !(opnd p.right2).isReg
           | Option.none => false)
        | Option.none => false)
     | Option.none => false)
  | st, .sh e _ _ =>
    quietE st e && (match genE () (fun _ => ()) st e with | some (_, t, s1) => !shSave s1 t | Option.none => false)

/-- running the code of a tree whose value goes to the accumulator: (value, state it leaves) -/
def treeRun (L : Layout) (σ : SrcSt) (e : GExpr) : Byte × SrcSt :=
  match evalE L σ 0 {} e with
  | some ((σ', a'), .acc, _) => (a', σ')
  | _ => (0, σ)

/-- the value of a tree in a state (the accumulator after its code ran) -/
def treeVal (L : Layout) (σ : SrcSt) (e : GExpr) : Byte := (treeRun L σ e).1

/-- the scratch cell is free after the tree's code (a comparison with X / Y parks the tree's value there) -/
def GExpr.tmpFree (e : GExpr) : Bool :=
  match genE () (fun _ => ()) {} e with
  | some (_, .acc, st') => !st'.tmpU
  | _ => false

def GExpr.topArithm : GExpr → Bool
  | .bin _ _ _ => true
  | _ => false

/-- `v = e`: the accumulator at the start does not matter (`evalE_acc_irrelevant`) -/
def exprSpec (L : Layout) (σ : SrcSt) (v : LV) (e : GExpr) : SrcSt :=
  if e.ok then
    match evalE L σ 0 {} e with
    | some ((σ', a'), _, _) => wr L σ' v a'
    | none => σ
  else σ

def rspec (L : Layout) (σ : SrcSt) : RStmt → SrcSt
  | .expr v e => exprSpec L σ v e
  | .lin v e => let r := linVal L σ e; wr L r.1 v r.2
  | .chain v a op1 b1 ops => chainSpec L σ v a op1 b1 ops
  | .asgW s a => asgWSpec L σ s a
  | .binW s op a b => let p := wordered op a b; binWSpec L σ s op p.1 p.2
  | .opasgW s op a => binWSpec L σ s op (.wvar s) a
  | .asg v a => wr L σ v (rval L σ a)
  | .bin v op a b => let p := rordered op a b; binSpec L σ v op p.1 p.2
  | .opasg v op a => binSpec L σ v op v.ra a
  | .inc v => wr L σ v (rval L σ v.ra + 1)
  | .dec v => wr L σ v (rval L σ v.ra - 1)

end CV.GenReg
