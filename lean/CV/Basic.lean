/-
  CV.Basic — bytes, words and the 64 KiB memory used by every model.
  No Mathlib, no Std tactics: this file is imported by the compiled driver.
-/
namespace CV

abbrev Byte := BitVec 8
abbrev Word := BitVec 16

/-- 64 KiB of memory. The size invariant is carried so that reads need no default. -/
structure Mem where
  data : Array Byte
  size_eq : data.size = 65536

namespace Mem

def zero : Mem := ⟨Array.replicate 65536 0, by simp⟩

instance : Inhabited Mem := ⟨zero⟩

@[inline] def read (m : Mem) (a : Word) : Byte :=
  m.data[a.toNat]'(by have := a.isLt; rw [m.size_eq]; omega)

@[inline] def write (m : Mem) (a : Word) (v : Byte) : Mem :=
  ⟨m.data.set a.toNat v (by have := a.isLt; rw [m.size_eq]; omega), by simp [m.size_eq]⟩

@[simp] theorem read_write_same (m : Mem) (a : Word) (v : Byte) :
    (m.write a v).read a = v := by
  simp [read, write]

@[simp] theorem read_write_other (m : Mem) (a b : Word) (v : Byte) (h : a ≠ b) :
    (m.write a v).read b = m.read b := by
  have : a.toNat ≠ b.toNat := fun e => h (BitVec.eq_of_toNat_eq e)
  simp [read, write, Array.getElem_set, this]

theorem ext (m₁ m₂ : Mem) (h : ∀ a, m₁.read a = m₂.read a) : m₁ = m₂ := by
  cases m₁ with
  | mk d₁ s₁ =>
    cases m₂ with
    | mk d₂ s₂ =>
      have : d₁ = d₂ := by
        apply Array.ext
        · rw [s₁, s₂]
        · intro i h1 h2
          have hi : i < 65536 := by rw [s₁] at h1; exact h1
          have := h (BitVec.ofNat 16 i)
          simp [read, BitVec.toNat_ofNat, Nat.mod_eq_of_lt hi] at this
          exact this
      subst this
      rfl

theorem write_write_same (m : Mem) (a : Word) (v w : Byte) :
    (m.write a v).write a w = m.write a w := by
  apply ext; intro b
  by_cases h : a = b
  · subst h; simp
  · simp [h]

theorem write_read_same (m : Mem) (a : Word) : m.write a (m.read a) = m := by
  apply ext; intro b
  by_cases h : a = b
  · subst h; simp
  · simp [h]

end Mem

/-- hex helpers used by the line protocol -/
def hexDigit (n : Nat) : Char :=
  if n < 10 then Char.ofNat (48 + n) else Char.ofNat (87 + n)

def hexOfByte (b : Nat) : String :=
  String.ofList [hexDigit (b / 16 % 16), hexDigit (b % 16)]

def hexVal (c : Char) : Option Nat :=
  if '0' ≤ c ∧ c ≤ '9' then some (c.toNat - 48)
  else if 'a' ≤ c ∧ c ≤ 'f' then some (c.toNat - 87)
  else if 'A' ≤ c ∧ c ≤ 'F' then some (c.toNat - 55)
  else none

/-- decode a hex string into bytes (as Nats); `none` on malformed input -/
def unhexBytes : List Char → Option (List Nat)
  | [] => some []
  | [_] => none
  | a :: b :: rest => do
      let x ← hexVal a
      let y ← hexVal b
      let r ← unhexBytes rest
      pure ((x * 16 + y) :: r)

/-- text fields travel as hex of their UTF-8 bytes; all fields we exchange are ASCII,
    non-ASCII bytes are mapped to the code point of the same number (Latin-1 view). -/
def unhexStr (s : String) : Option String :=
  if s == "-" then some "" else
  (unhexBytes s.toList).map fun bs => String.ofList (bs.map Char.ofNat)

def hexStr (s : String) : String :=
  if s.isEmpty then "-" else
  String.join (s.toList.map fun c => hexOfByte (c.toNat % 256))

end CV
