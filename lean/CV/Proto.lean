/-
  CV.Proto — token encoding of line vectors shared by the harness and the model driver:
    L:<hex> | I:<mn>:<ophex>:<bytes>:<cyc>:<alt|->:<prot 0/1> | N:<hex>:<size> | C:<hex> | D
-/
import CV.Asm
namespace CV

def splitOnChar (s : String) (c : Char) : List String :=
  (s.splitOn (String.singleton c))

def lineOfToken (t : String) : Option Line :=
  match splitOnChar t ':' with
  | ["L", h] => (unhexStr h).map Line.label
  | ["I", mn, op, nb, cy, alt, pr] => do
      let m ← Mn.ofString? mn
      let o ← unhexStr op
      let nb ← nb.toNat?
      let cy ← cy.toNat?
      let alt ← if alt == "-" then some none else alt.toNat?.map some
      some (.instr { mn := m, opd := o, nbBytes := nb, cycles := cy, cyclesAlt := alt, prot := pr == "1" })
  | ["N", h, sz] => do
      let t ← unhexStr h
      let n ← if sz == "-" then some 3 else sz.toNat?
      some (.inline t n)
  | ["C", h] => (unhexStr h).map Line.comment
  | ["D"] => some .dummy
  | _ => none

def tokenOfLine : Line → String
  | .label l => "L:" ++ hexStr l
  | .instr i => "I:" ++ i.mn.name ++ ":" ++ hexStr i.opd ++ ":" ++ toString i.nbBytes ++ ":" ++
      toString i.cycles ++ ":" ++ (match i.cyclesAlt with | some a => toString a | none => "-") ++
      ":" ++ (if i.prot then "1" else "0")
  | .inline t s => "N:" ++ hexStr t ++ ":" ++ toString s
  | .comment s => "C:" ++ hexStr s
  | .dummy => "D"

def codeOfTokens (ts : List String) : Option Code := ts.mapM lineOfToken

def tokensOfCode (c : Code) : String := " ".intercalate (c.map tokenOfLine)

end CV
