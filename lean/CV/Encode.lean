/-
  CV.Encode — the NMOS 6502 opcode matrix (which mnemonic exists in which addressing
  mode, encoded length, base cycles), written from the MOS data sheet. Specification
  for C03/C04/C13/C18; independent of `asm()` in cc6502.
-/
import CV.Mos
namespace CV

inductive Mode where
  | impl | acc | imm | zp | zpX | zpY | abs | absX | absY | ind | indX | indY | rel
  deriving DecidableEq, Repr, Inhabited

def Mode.all : List Mode :=
  [.impl, .acc, .imm, .zp, .zpX, .zpY, .abs, .absX, .absY, .ind, .indX, .indY, .rel]

def Mode.len : Mode → Nat
  | .impl | .acc => 1
  | .imm | .zp | .zpX | .zpY | .indX | .indY | .rel => 2
  | .abs | .absX | .absY | .ind => 3

/-- base cycle count of a legal (mnemonic, mode) pair; `none` = no such opcode.
    Not included: +1 for a taken branch, +1 for a page crossing. -/
def encCycles : Mn → Mode → Option Nat
  | .ADC, m | .AND, m | .CMP, m | .EOR, m | .LDA, m | .ORA, m | .SBC, m =>
      match m with
      | .imm => some 2 | .zp => some 3 | .zpX => some 4 | .abs => some 4
      | .absX => some 4 | .absY => some 4 | .indX => some 6 | .indY => some 5
      | _ => none
  | .STA, m =>
      match m with
      | .zp => some 3 | .zpX => some 4 | .abs => some 4 | .absX => some 5
      | .absY => some 5 | .indX => some 6 | .indY => some 6
      | _ => none
  | .LDX, m =>
      match m with
      | .imm => some 2 | .zp => some 3 | .zpY => some 4 | .abs => some 4 | .absY => some 4
      | _ => none
  | .LDY, m =>
      match m with
      | .imm => some 2 | .zp => some 3 | .zpX => some 4 | .abs => some 4 | .absX => some 4
      | _ => none
  | .STX, m => match m with | .zp => some 3 | .zpY => some 4 | .abs => some 4 | _ => none
  | .STY, m => match m with | .zp => some 3 | .zpX => some 4 | .abs => some 4 | _ => none
  | .CPX, m | .CPY, m =>
      match m with | .imm => some 2 | .zp => some 3 | .abs => some 4 | _ => none
  | .ASL, m | .LSR, m | .ROL, m | .ROR, m =>
      match m with
      | .acc => some 2 | .zp => some 5 | .zpX => some 6 | .abs => some 6 | .absX => some 7
      | _ => none
  | .INC, m | .DEC, m =>
      match m with
      | .zp => some 5 | .zpX => some 6 | .abs => some 6 | .absX => some 7 | _ => none
  | .BIT, m => match m with | .zp => some 3 | .abs => some 4 | _ => none
  | .JMP, m => match m with | .abs => some 3 | .ind => some 5 | _ => none
  | .JSR, m => match m with | .abs => some 6 | _ => none
  | .BCC, m | .BCS, m | .BEQ, m | .BMI, m | .BNE, m | .BPL, m | .BVC, m | .BVS, m =>
      match m with | .rel => some 2 | _ => none
  | .RTS, m | .RTI, m => match m with | .impl => some 6 | _ => none
  | .BRK, m => match m with | .impl => some 7 | _ => none
  | .PHA, m | .PHP, m => match m with | .impl => some 3 | _ => none
  | .PLA, m | .PLP, m => match m with | .impl => some 4 | _ => none
  | .TAX, m | .TAY, m | .TXA, m | .TYA, m | .TSX, m | .TXS, m
  | .INX, m | .INY, m | .DEX, m | .DEY, m
  | .CLC, m | .SEC, m | .CLD, m | .SED, m | .CLI, m | .SEI, m | .CLV, m | .NOP, m =>
      match m with | .impl => some 2 | _ => none

/-- encoded length of a legal pair -/
def encLen (mn : Mn) (m : Mode) : Option Nat := (encCycles mn m).map fun _ => m.len

def legal (mn : Mn) (m : Mode) : Bool := (encCycles mn m).isSome

end CV
