/-
  CV.Lit — string-literal decoding (port of compile_quoted_string / compile_quoted_string_ex /
  the quoted_character arm of parse_int), over the escape table translated from the source.
-/
import CV.Gen.Tables
namespace CV.Lit
open CV.Gen

/-- code pushed for the character after a backslash -/
def escCode (c : Char) : Nat :=
  match escapeArms.find? (·.1 == c) with
  | some p => p.2
  | none => c.toNat

/-- `compile_quoted_string_ex`: codes of the characters pushed; the flag says that the previous
    character was a backslash still waiting for its partner (a trailing lone backslash is dropped) -/
def decodeGo : Bool → List Char → List Nat
  | _, [] => []
  | true, c :: r => escCode c :: decodeGo false r
  | false, c :: r => if c = '\\' then decodeGo true r else c.toNat :: decodeGo false r

def decode (s : List Char) : List Nat := decodeGo false s

/-- `compile_quoted_string`: adjacent literals concatenated, one NUL appended -/
def stored (lits : List (List Char)) : List Nat :=
  (lits.map decode).flatten ++ (if literalAppendsNul then [0] else [])

/-- `parse_int` on a quoted character: first decoded character -/
def charConst (body : List Char) : Option Nat := (decode body).head?

end CV.Lit
